(* NodeInstProofs.v — proofs about model/Node.v against model/NodeSpec.v, per-instance status discipline:
   C07 (failure detection: documented instance graph, accuracy, completeness, fencing) and
   C13 node-level part (isolation is permanent and airtight; handshake fences).
   Property-level theorems are in props/C07.v and props/C13.v. *)
From Sup Require Import Base GenEnums GenNode Node NodeSpec.
From Coq Require Import List ZArith Bool Lia.
Import ListNotations.
Open Scope Z_scope.

(* ====================================================================== *)
(* A. The reflected tables                                                 *)
(* ====================================================================== *)

Lemma inst_table_within_documented : forall a b : istate,
  inst_transition_ok a b = true -> documented_inst_edge (icode a) (icode b) = true.
Proof. destruct a, b; vm_compute; intro H; first [reflexivity | discriminate H]. Qed.

Lemma isolated_no_successor : forall b, inst_transition_ok ISOLATED b = false.
Proof. destruct b; vm_compute; reflexivity. Qed.

(* a move allowed by the reflected table is a move accepted by the C07 checker *)
Lemma table_move_ok : forall a b : istate,
  a = b \/ inst_transition_ok a b = true -> inst_move_ok (icode a) (icode b) = true.
Proof.
  intros a b [H|H].
  - subst. unfold inst_move_ok. rewrite Z.eqb_refl. reflexivity.
  - apply inst_table_within_documented in H. unfold inst_move_ok. rewrite H.
    destruct (icode a =? icode b); reflexivity.
Qed.

(* the hand-written numerals of NodeSpec.v against the reflected enumeration *)
Lemma icode_is0 : forall a, (icode a =? 0) = istate_eqb a ISTOPPED.
Proof. destruct a; vm_compute; reflexivity. Qed.
Lemma icode_is1 : forall a, (icode a =? 1) = istate_eqb a CHECKING.
Proof. destruct a; vm_compute; reflexivity. Qed.
Lemma icode_is2 : forall a, (icode a =? 2) = istate_eqb a CHECKED.
Proof. destruct a; vm_compute; reflexivity. Qed.
Lemma icode_is3 : forall a, (icode a =? 3) = istate_eqb a IRUNNING.
Proof. destruct a; vm_compute; reflexivity. Qed.
Lemma icode_is4 : forall a, (icode a =? 4) = istate_eqb a FAILED.
Proof. destruct a; vm_compute; reflexivity. Qed.
Lemma icode_is5 : forall a, (icode a =? 5) = istate_eqb a ISOLATED.
Proof. destruct a; vm_compute; reflexivity. Qed.

Lemma istate_eqb_eq : forall a b, istate_eqb a b = true <-> a = b.
Proof. destruct a, b; simpl; split; intro H; first [reflexivity | discriminate H]. Qed.

Lemma istate_eqb_refl : forall a, istate_eqb a a = true.
Proof. destruct a; reflexivity. Qed.

(* ====================================================================== *)
(* association lists                                                       *)
(* ====================================================================== *)

Lemma aget_aset {V} : forall k j (v : V) l, aget k (aset j v l) = if Z.eqb k j then Some v else aget k l.
Proof.
  intros k j v l. induction l as [|[k' v'] r IH]; simpl.
  - destruct (Z.eqb k j); reflexivity.
  - destruct (Z.eqb j k') eqn:E1; simpl.
    + apply Z.eqb_eq in E1. subst. destruct (Z.eqb k k'); reflexivity.
    + rewrite IH. destruct (Z.eqb k k') eqn:E2; destruct (Z.eqb k j) eqn:E3; try reflexivity.
      apply Z.eqb_eq in E2. apply Z.eqb_eq in E3. subst. rewrite Z.eqb_refl in E1. discriminate.
Qed.

Lemma akeys_aset {V} : forall j (v v0 : V) l, aget j l = Some v0 -> akeys (aset j v l) = akeys l.
Proof.
  intros j v v0 l. unfold akeys. induction l as [|[k' v'] r IH]; simpl; intros H; [discriminate|].
  destruct (Z.eqb j k') eqn:E; simpl; [reflexivity|]. f_equal. apply IH. exact H.
Qed.

Lemma aget_In_keys {V} : forall k (l : alist V) v, aget k l = Some v -> In k (akeys l).
Proof.
  intros k l. induction l as [|[k' v'] r IH]; simpl; intros v H; [discriminate|].
  destruct (Z.eqb k k') eqn:E.
  - apply Z.eqb_eq in E. left. symmetry. exact E.
  - right. eapply IH. exact H.
Qed.

Lemma In_aget_nodup {V} : forall (l : alist V) k v, NoDup (akeys l) -> In (k, v) l -> aget k l = Some v.
Proof.
  induction l as [|[k' v'] r IH]; simpl; intros k v N H; [contradiction|].
  inversion N as [|x xs Hx Hxs]; subst.
  destruct H as [H|H].
  - inversion H; subst. rewrite Z.eqb_refl. reflexivity.
  - destruct (Z.eqb k k') eqn:E.
    + apply Z.eqb_eq in E. subst. exfalso. apply Hx. unfold akeys. change k' with (fst (k', v)).
      apply in_map. exact H.
    + apply IH; assumption.
Qed.

Lemma zmem_In : forall k l, zmem k l = true <-> In k l.
Proof.
  intros k l. unfold zmem. rewrite existsb_exists. split.
  - intros [x [Hx E]]. apply Z.eqb_eq in E. subst. exact Hx.
  - intros H. exists k. split; [exact H|apply Z.eqb_refl].
Qed.

Lemma zmem_not_In : forall k l, zmem k l = false <-> ~ In k l.
Proof.
  intros k l. split.
  - intros H I. apply zmem_In in I. congruence.
  - intros H. destruct (zmem k l) eqn:E; [|reflexivity]. apply zmem_In in E. contradiction.
Qed.

(* ====================================================================== *)
(* the part of the node the instance statuses depend on                    *)
(* ====================================================================== *)

Definition core (n : node) : Z * options * alist ist := (n_me n, n_opts n, n_insts n).

Definition is_check (o : output) : bool := match o with CheckInstance _ => true | _ => false end.
(* no handshake request among the outputs *)
Definition nochk (l : list output) : bool := forallb (fun o => negb (is_check o)) l.

Lemma nochk_app : forall a b, nochk (a ++ b) = nochk a && nochk b.
Proof. intros. unfold nochk. apply forallb_app. Qed.

Lemma nochk_In : forall l k, nochk l = true -> ~ In (CheckInstance k) l.
Proof.
  intros l k H I. unfold nochk in H. rewrite forallb_forall in H. apply H in I. discriminate I.
Qed.

Ltac nochk_tac :=
  rewrite ?nochk_app; simpl;
  repeat match goal with H : nochk ?o = true |- context[nochk ?o] => rewrite H end;
  try reflexivity.

(* SC: the function changes neither the identity, the options nor the instance table, and requests no handshake *)
Definition SC (n : node) (o : list output) (n' : node) : Prop := core n' = core n /\ nochk o = true.

Lemma set_master_SC : forall n m n' o, set_master n m = (n', o) -> SC n o n'.
Proof.
  intros n m n' o H. unfold set_master in H. destruct (Z.eqb (master n) m); inversion H; subst; split; reflexivity.
Qed.

Lemma set_degraded_SC : forall n b n' o, set_degraded n b = (n', o) -> SC n o n'.
Proof.
  intros n b n' o H. unfold set_degraded in H.
  destruct (Bool.eqb (sm_degraded (own n)) b); inversion H; subst; split; reflexivity.
Qed.

Lemma set_fsm_SC : forall n st n' o, set_fsm n st = (n', o) -> SC n o n'.
Proof.
  intros n st n' o H. unfold set_fsm in H.
  destruct (sstate_eqb (fsm_state n) st); inversion H; subst; split; reflexivity.
Qed.

Lemma enter_state_SC : forall n st now n' o, enter_state n st now = (n', o) -> SC n o n'.
Proof.
  intros n st now n' o H. unfold enter_state in H.
  destruct st; try (destruct (is_master n)); inversion H; subst; split; reflexivity.
Qed.

Lemma update_instance_state_SC : forall n j st n' o, update_instance_state n j st = (n', o) -> SC n o n'.
Proof.
  intros n j st n' o H. unfold update_instance_state in H.
  set (s := own n) in *.
  set (n1 := set_own n (mkSm (sm_fsm s) (sm_degraded s) (sm_master s) (aset j st (sm_insts s)))) in *.
  assert (C1 : core n1 = core n) by reflexivity.
  match type of H with (if _ then set_master ?x 0 else _) = _ => set (n2 := x) in * end.
  assert (C2 : core n2 = core n).
  { unfold n2. destruct st; try exact C1;
      (destruct (Z.eqb j (n_me n)); [exact C1|]; destruct (amem j (n_views n1)); [reflexivity|exact C1]). }
  destruct (negb (istate_eqb st IRUNNING) && Z.eqb j (master n2)).
  - apply set_master_SC in H. destruct H as [H1 H2]. split; [congruence|exact H2].
  - inversion H; subst. split; [exact C2|reflexivity].
Qed.

Lemma evaluate_stability_SC : forall n n', evaluate_stability n = Ok n' -> core n' = core n.
Proof.
  intros n n' H. unfold evaluate_stability in H.
  destruct (running_views n (n_views n)) as [rv|k]; [|discriminate]. simpl in H.
  destruct (map _ rv) as [|s0 t].
  - inversion H; subst. reflexivity.
  - destruct (forallb _ _); inversion H; subst; reflexivity.
Qed.

Lemma select_master_SC : forall n n' o, select_master n = Ok (n', o) -> SC n o n'.
Proof.
  intros n n' o H. unfold select_master in H.
  destruct (master_identifiers n) as [ms|k]; [|discriminate]. simpl in H.
  match type of H with bind ?x _ = _ => destruct x as [[[m rk]|]|k] end; simpl in H; try discriminate.
  inversion H as [H1]. eapply set_master_SC. exact H1.
Qed.

Lemma accept_master_SC : forall n pick n' o, accept_master n pick = Ok (n', o) -> SC n o n'.
Proof.
  intros n pick n' o H. unfold accept_master in H.
  destruct (master_identifiers n) as [ms|k]; [|discriminate]. simpl in H.
  destruct (zdiscard 0 ms) as [|m [|m2 r]].
  - inversion H; subst. split; reflexivity.
  - inversion H as [H1]. eapply set_master_SC. exact H1.
  - inversion H as [H1]. eapply set_master_SC. exact H1.
Qed.

Lemma check_failure_strategy_SC : forall n lost n' o d, check_failure_strategy n lost = (n', o, d) -> SC n o n'.
Proof.
  intros n lost n' o d H. unfold check_failure_strategy in H.
  destruct (set_degraded n _) as [n1 o1] eqn:E. inversion H; subst. eapply set_degraded_SC. exact E.
Qed.

Lemma sync_consistence_SC : forall n lost n' o d, sync_consistence n lost = (n', o, d) -> SC n o n'.
Proof.
  intros n lost n' o d H. unfold sync_consistence in H. destruct (on_consistence n).
  - inversion H; subst. split; reflexivity.
  - eapply check_failure_strategy_SC. exact H.
Qed.

Lemma ms_consistence_SC : forall n lost n' o d, ms_consistence n lost = Ok (n', o, d) -> SC n o n'.
Proof.
  intros n lost n' o d H. unfold ms_consistence in H.
  destruct (sync_consistence n lost) as [[n1 o1] d1] eqn:E. apply sync_consistence_SC in E.
  destruct d1.
  - inversion H; subst. exact E.
  - destruct (check_master n1) as [ok|k]; [|discriminate]. simpl in H. inversion H; subst. exact E.
Qed.

(* ====================================================================== *)
(* per-instance relations lifted to nodes                                  *)
(* ====================================================================== *)

Definition irel := Z -> ist -> ist -> Prop.

(* n' has the same identity, options and instance keys as n, and every instance status moved by P *)
Definition LR (P : irel) (n n' : node) : Prop :=
  n_me n' = n_me n /\ n_opts n' = n_opts n /\ akeys (n_insts n') = akeys (n_insts n) /\
  forall j s, aget j (n_insts n) = Some s -> exists s', aget j (n_insts n') = Some s' /\ P j s s'.

(* only the instances listed in ids may move *)
Definition sel (ids : list Z) (P : irel) : irel := fun j s s' => if zmem j ids then P j s s' else s' = s.
Definition LRI (ids : list Z) (P : irel) : node -> node -> Prop := LR (sel ids P).

Lemma LR_weaken : forall (P Q : irel) n n',
  LR P n n' -> (forall j s s', aget j (n_insts n) = Some s -> P j s s' -> Q j s s') -> LR Q n n'.
Proof.
  intros P Q n n' [H1 [H2 [H3 H4]]] W. repeat split; try assumption.
  intros j s Hs. destruct (H4 j s Hs) as [s' [A B]]. exists s'. split; [exact A|]. eapply W; eassumption.
Qed.

Lemma LR_trans : forall (P Q : irel) a b c, LR P a b -> LR Q b c ->
  LR (fun j s s2 => exists s1, P j s s1 /\ Q j s1 s2) a c.
Proof.
  intros P Q a b c [A1 [A2 [A3 A4]]] [B1 [B2 [B3 B4]]]. repeat split; try congruence.
  intros j s Hs. destruct (A4 j s Hs) as [s1 [X1 X2]]. destruct (B4 j s1 X1) as [s2 [Y1 Y2]].
  exists s2. split; [exact Y1|]. exists s1. split; assumption.
Qed.

Lemma LR_trans' : forall (P Q R : irel) a b c, LR P a b -> LR Q b c ->
  (forall j s s1 s2, P j s s1 -> Q j s1 s2 -> R j s s2) -> LR R a c.
Proof.
  intros P Q R a b c H1 H2 W. eapply LR_weaken; [eapply LR_trans; eassumption|].
  intros j s s' _ [s1 [X Y]]. eapply W; eassumption.
Qed.

Lemma LR_core : forall (P : irel) n n', core n' = core n -> (forall j s, P j s s) -> LR P n n'.
Proof.
  intros P n n' C R. unfold core in C. inversion C as [[C1 C2 C3]]. repeat split; try congruence.
  intros j s Hs. exists s. split; [rewrite C3; exact Hs|apply R].
Qed.

Lemma LR_core_l : forall (P : irel) n n1 n', core n1 = core n -> LR P n1 n' -> LR P n n'.
Proof.
  intros P n n1 n' C [H1 [H2 [H3 H4]]]. unfold core in C. inversion C as [[C1 C2 C3]].
  rewrite C1, C2, C3 in *. repeat split; assumption.
Qed.

Lemma LR_core_r : forall (P : irel) n n1 n', LR P n n1 -> core n' = core n1 -> LR P n n'.
Proof.
  intros P n n1 n' [H1 [H2 [H3 H4]]] C. unfold core in C. inversion C as [[C1 C2 C3]].
  rewrite <- C1, <- C2, <- C3 in *. repeat split; assumption.
Qed.

Lemma LRI_nil : forall P n n', core n' = core n -> LRI [] P n n'.
Proof. intros. apply LR_core; [assumption|]. intros j s. reflexivity. Qed.

Lemma zmem_cons : forall k j r, zmem k (j :: r) = (k =? j) || zmem k r.
Proof. reflexivity. Qed.

Lemma LRI_cons : forall P j r n n1 n', ~ In j r -> LRI [j] P n n1 -> LRI r P n1 n' -> LRI (j :: r) P n n'.
Proof.
  intros P j r n n1 n' NI H1 H2. unfold LRI in *. eapply LR_trans'; [exact H1|exact H2|].
  intros k s s1 s2 X Y. unfold sel in *. rewrite zmem_cons in *. simpl in X.
  destruct (k =? j) eqn:E; simpl in *.
  - apply Z.eqb_eq in E. subst k. apply zmem_not_In in NI. rewrite NI in Y. subst s2. exact X.
  - subst s1. exact Y.
Qed.

Lemma LRI_skip : forall (P : irel) j r n n', ~ In j r -> (forall s, aget j (n_insts n) = Some s -> P j s s) ->
  LRI r P n n' -> LRI (j :: r) P n n'.
Proof.
  intros P j r n n' NI R H. unfold LRI in *. eapply LR_weaken; [exact H|].
  intros k s s' Hs X. unfold sel in *. rewrite zmem_cons.
  destruct (k =? j) eqn:E; simpl; [|exact X].
  apply Z.eqb_eq in E. subst k. apply zmem_not_In in NI. rewrite NI in X. subst s'. apply R. exact Hs.
Qed.

Lemma LRI_keys : forall P n n', LRI (akeys (n_insts n)) P n n' -> LR P n n'.
Proof.
  intros P n n' H. eapply LR_weaken; [exact H|]. intros j s s' Hs X. unfold sel in X.
  apply aget_In_keys in Hs. apply zmem_In in Hs. rewrite Hs in X. exact X.
Qed.

Lemma LRI_one : forall (P : irel) j n n', LRI [j] P n n' ->
  LR (fun k s s' => if k =? j then P k s s' else s' = s) n n'.
Proof.
  intros P j n n' H. eapply LR_weaken; [exact H|]. intros k s s' _ X. unfold sel in X. rewrite zmem_cons in X.
  simpl in X. rewrite orb_false_r in X. exact X.
Qed.

(* replacing one entry of the table *)
Lemma set_insts_aset_LRI : forall n j s (f : ist -> ist), aget j (n_insts n) = Some s ->
  LRI [j] (fun _ x x' => x' = f x) n (set_insts n (aset j (f s) (n_insts n))).
Proof.
  intros n j s f Hs. unfold LRI, LR. simpl. repeat split.
  - eapply akeys_aset. exact Hs.
  - intros k x Hk. rewrite aget_aset. unfold sel. rewrite zmem_cons. simpl. rewrite orb_false_r.
    destruct (k =? j) eqn:E.
    + apply Z.eqb_eq in E. subst k. rewrite Hs in Hk. inversion Hk; subst. exists (f x). split; reflexivity.
    + exists x. split; [exact Hk|reflexivity].
Qed.

(* ====================================================================== *)
(* the status record                                                       *)
(* ====================================================================== *)

(* the effect of the `state` setter of SupvisorsInstanceStatus when it does not raise *)
Definition with_state (s : ist) (st : istate) (now : Z) : ist :=
  if istate_eqb (is_state s) st then s
  else mkIst st (is_remote_cnt s) (is_local_cnt s) (match st with CHECKING => now | _ => is_checking_time s end).

Lemma ws_state : forall s st now, is_state (with_state s st now) = st.
Proof.
  intros. unfold with_state. destruct (istate_eqb (is_state s) st) eqn:E; [|reflexivity].
  apply istate_eqb_eq. exact E.
Qed.
Lemma ws_remote : forall s st now, is_remote_cnt (with_state s st now) = is_remote_cnt s.
Proof. intros. unfold with_state. destruct (istate_eqb (is_state s) st); reflexivity. Qed.
Lemma ws_local : forall s st now, is_local_cnt (with_state s st now) = is_local_cnt s.
Proof. intros. unfold with_state. destruct (istate_eqb (is_state s) st); reflexivity. Qed.
Lemma ws_ct : forall s st now, st <> CHECKING -> is_checking_time (with_state s st now) = is_checking_time s.
Proof.
  intros. unfold with_state. destruct (istate_eqb (is_state s) st); [reflexivity|].
  destruct st; try reflexivity. congruence.
Qed.

Lemma set_inst_state_LRI : forall n j st now n' o, set_inst_state n j st now = Ok (n', o) ->
  LRI [j] (fun _ s s' => s' = with_state s st now) n n' /\ nochk o = true /\
  (forall s, aget j (n_insts n) = Some s -> is_state s = st \/ inst_transition_ok (is_state s) st = true).
Proof.
  intros n j st now n' o H. unfold set_inst_state in H.
  destruct (aget j (n_insts n)) as [s|] eqn:Hs; [|discriminate].
  destruct (istate_eqb (is_state s) st) eqn:E.
  - inversion H; subst. split; [|split; [reflexivity|]].
    + unfold LRI, LR. repeat split. intros k x Hk. exists x. split; [exact Hk|].
      unfold sel. rewrite zmem_cons. simpl. rewrite orb_false_r. destruct (k =? j) eqn:Ek; [|reflexivity].
      apply Z.eqb_eq in Ek. subst k. rewrite Hs in Hk. inversion Hk; subst. unfold with_state. rewrite E. reflexivity.
    + intros x Hx. inversion Hx; subst. left. apply istate_eqb_eq. exact E.
  - destruct (inst_transition_ok (is_state s) st) eqn:T; [|discriminate].
    inversion H as [H1]. clear H. apply update_instance_state_SC in H1. destruct H1 as [C K].
    split; [|split; [exact K|]].
    + unfold LRI. eapply LR_core_r; [|exact C].
      pose proof (set_insts_aset_LRI n j s (fun x => with_state x st now) Hs) as L.
      unfold with_state in L at 2. rewrite E in L. exact L.
    + intros x Hx. inversion Hx; subst. right. exact T.
Qed.

(* Context.invalidate : the local instance is only ever STOPPED; a peer is ISOLATED only when the caller fences
   (handshake) or auto_fence is set *)
Definition inval_target (me j : Z) (iso : bool) : istate :=
  if j =? me then ISTOPPED else if iso then ISOLATED else ISTOPPED.

Lemma invalidate_LRI : forall n j fence now n' o, invalidate n j fence now = Ok (n', o) ->
  exists iso, (iso = true -> fence = true \/ o_auto_fence (n_opts n) = true) /\ (fence = true -> iso = true) /\
    LRI [j] (fun _ s s' => s' = with_state s (inval_target (n_me n) j iso) now) n n' /\ nochk o = true.
Proof.
  intros n j fence now n' o H. unfold invalidate in H. unfold inval_target.
  destruct (j =? n_me n) eqn:E.
  - exists fence. apply set_inst_state_LRI in H. destruct H as [L [K _]].
    split; [intro X; left; exact X|]. split; [auto|]. split; assumption.
  - match type of H with (if ?c then _ else _) = _ => destruct c eqn:F end;
      apply set_inst_state_LRI in H; destruct H as [L [K _]].
    + exists true. split; [|split; [reflexivity|split; assumption]].
      intros _. destruct fence; [left; reflexivity|]. simpl in F. apply andb_prop in F. right. tauto.
    + exists false. split; [discriminate|]. split; [|split; assumption].
      intro X. subst fence. simpl in F. discriminate.
Qed.

(* ====================================================================== *)
(* what the FSM evaluation does to an instance status                      *)
(* ====================================================================== *)

(* invalidate_failed: FAILED -> STOPPED | ISOLATED (a peer, auto_fence); activate_checked: CHECKED -> RUNNING.
   strict = a FAILED status does not stay FAILED *)
Definition fsm_stb (strict local af : bool) (a b : istate) : bool :=
  match a, b with
  | FAILED, ISTOPPED => true
  | FAILED, ISOLATED => negb local && af
  | FAILED, FAILED => negb strict
  | CHECKED, IRUNNING => true
  | _, _ => istate_eqb a b
  end.

Definition fsmP (strict : bool) (me : Z) (af : bool) : irel := fun j s s' =>
  is_remote_cnt s' = is_remote_cnt s /\ is_local_cnt s' = is_local_cnt s /\
  is_checking_time s' = is_checking_time s /\
  fsm_stb strict (j =? me) af (is_state s) (is_state s') = true.

Lemma fsm_stb_trans : forall s1 s2 local af a b c,
  fsm_stb s1 local af a b = true -> fsm_stb s2 local af b c = true -> fsm_stb (s1 || s2) local af a c = true.
Proof.
  intros s1 s2 local af a b c. destruct a, b; simpl; intro H1; try discriminate H1;
    destruct c; simpl; intro H2; try discriminate H2; try reflexivity; try assumption;
    destruct s1, s2; simpl in *; congruence.
Qed.

Lemma fsmP_trans : forall s1 s2 me af j a b c,
  fsmP s1 me af j a b -> fsmP s2 me af j b c -> fsmP (s1 || s2) me af j a c.
Proof.
  intros s1 s2 me af j a b c [A1 [A2 [A3 A4]]] [B1 [B2 [B3 B4]]]. repeat split; try congruence.
  eapply fsm_stb_trans; eassumption.
Qed.

Lemma fsm_stb_refl : forall strict local af a, (strict = false \/ a <> FAILED) -> fsm_stb strict local af a a = true.
Proof. intros strict local af a [H|H]; subst; destruct a; simpl; try reflexivity. destruct strict; [congruence|reflexivity]. Qed.

Lemma fsmP_refl : forall strict me af j s, (strict = false \/ is_state s <> FAILED) -> fsmP strict me af j s s.
Proof. intros. repeat split. apply fsm_stb_refl. assumption. Qed.

Lemma fsmP_weaken : forall strict me af j s s', fsmP strict me af j s s' -> fsmP false me af j s s'.
Proof.
  intros strict me af j s s' [A1 [A2 [A3 A4]]]. repeat split; try assumption.
  destruct (is_state s), (is_state s'), strict; simpl in *; congruence.
Qed.

Lemma inst_state_aget : forall n j st, inst_state n j = Some st <->
  exists s, aget j (n_insts n) = Some s /\ is_state s = st.
Proof.
  intros n j st. unfold inst_state. destruct (aget j (n_insts n)) as [s|]; split.
  - intro H. inversion H. exists s. split; reflexivity.
  - intros [s0 [H1 H2]]. inversion H1; subst. reflexivity.
  - discriminate.
  - intros [s0 [H1 _]]. discriminate.
Qed.

Lemma invalidate_failed_aux_LRI : forall now ids, NoDup ids ->
  forall n acc lost lostp n' outs lost' lostp',
  invalidate_failed_aux ids n acc lost lostp now = Ok (n', outs, lost', lostp') ->
  LRI ids (fsmP true (n_me n) (o_auto_fence (n_opts n))) n n' /\ (nochk acc = true -> nochk outs = true).
Proof.
  intros now ids. induction ids as [|j r IH]; simpl; intros ND n acc lost lostp n' outs lost' lostp' H.
  - inversion H; subst. split; [apply LRI_nil; reflexivity|auto].
  - inversion ND as [|x xs NI ND']; subst.
    assert (SK : inst_state n j <> Some FAILED ->
                 invalidate_failed_aux r n acc lost lostp now = Ok (n', outs, lost', lostp') ->
                 LRI (j :: r) (fsmP true (n_me n) (o_auto_fence (n_opts n))) n n' /\ (nochk acc = true -> nochk outs = true)).
    { intros NF H'. apply (IH ND') in H'. destruct H' as [L K]. split; [|exact K].
      apply LRI_skip; [exact NI| |exact L]. intros s Hs. apply fsmP_refl. right. intro X. apply NF.
      apply inst_state_aget. exists s. split; assumption. }
    destruct (inst_state n j) as [[]|] eqn:Ej; try (apply SK; [discriminate|exact H]).
    clear SK.
    destruct (invalidate n j false now) as [[n1 o1]|k] eqn:E; [|discriminate].
    apply invalidate_LRI in E. destruct E as [iso [I1 [_ [L1 K1]]]].
    apply (IH ND') in H. destruct H as [L2 K2]. simpl in L2.
    assert (F1 : n_me n1 = n_me n /\ n_opts n1 = n_opts n) by (destruct L1 as [A [B _]]; split; assumption).
    destruct F1 as [F1 F2]. rewrite F1, F2 in L2.
    split.
    + eapply LRI_cons; [exact NI| |eapply LR_core_l; [|exact L2]; reflexivity].
      unfold LRI. eapply LR_weaken; [exact L1|]. intros k s s' Hs X. unfold sel in *.
      rewrite zmem_cons in *. simpl in *. rewrite orb_false_r in *. destruct (k =? j) eqn:Ek; [|exact X].
      apply Z.eqb_eq in Ek. subst k s'.
      apply inst_state_aget in Ej. destruct Ej as [s0 [Hs0 St]]. rewrite Hs in Hs0. inversion Hs0; subst s0.
      unfold fsmP. rewrite ws_remote, ws_local, ws_state, St.
      assert (T : inval_target (n_me n) j iso <> CHECKING)
        by (unfold inval_target; destruct (j =? n_me n); [|destruct iso]; discriminate).
      rewrite (ws_ct _ _ _ T). repeat split.
      unfold inval_target. destruct (j =? n_me n); [reflexivity|]. destruct iso; [|reflexivity].
      simpl. destruct (I1 eq_refl) as [X|X]; [discriminate X|exact X].
    + intro A. apply K2. nochk_tac.
Qed.

Lemma invalidate_failed_LR : forall n now n' o lost lostp, NoDup (akeys (n_insts n)) ->
  invalidate_failed n now = Ok (n', o, lost, lostp) ->
  LR (fsmP true (n_me n) (o_auto_fence (n_opts n))) n n' /\ nochk o = true.
Proof.
  intros n now n' o lost lostp ND H. unfold invalidate_failed in H.
  apply invalidate_failed_aux_LRI in H; [|exact ND]. destruct H as [L K]. split; [apply LRI_keys; exact L|].
  apply K. reflexivity.
Qed.

Lemma activate_checked_aux_LRI : forall now ids, NoDup ids ->
  forall n acc act n' outs act',
  activate_checked_aux ids n acc act now = Ok (n', outs, act') ->
  LRI ids (fsmP false (n_me n) (o_auto_fence (n_opts n))) n n' /\ (nochk acc = true -> nochk outs = true).
Proof.
  intros now ids. induction ids as [|j r IH]; simpl; intros ND n acc act n' outs act' H.
  - inversion H; subst. split; [apply LRI_nil; reflexivity|auto].
  - inversion ND as [|x xs NI ND']; subst.
    assert (SK : activate_checked_aux r n acc act now = Ok (n', outs, act') ->
                 LRI (j :: r) (fsmP false (n_me n) (o_auto_fence (n_opts n))) n n' /\ (nochk acc = true -> nochk outs = true)).
    { intros H'. apply (IH ND') in H'. destruct H' as [L K]. split; [|exact K].
      apply LRI_skip; [exact NI| |exact L]. intros s Hs. apply fsmP_refl. left. reflexivity. }
    destruct (inst_state n j) as [[]|] eqn:Ej; try (apply SK; exact H).
    clear SK.
    destruct (set_inst_state n j IRUNNING now) as [[n1 o1]|k] eqn:E; [|discriminate].
    apply set_inst_state_LRI in E. destruct E as [L1 [K1 _]].
    apply (IH ND') in H. destruct H as [L2 K2].
    assert (F1 : n_me n1 = n_me n /\ n_opts n1 = n_opts n) by (destruct L1 as [A [B _]]; split; assumption).
    destruct F1 as [F1 F2]. rewrite F1, F2 in L2.
    split.
    + eapply LRI_cons; [exact NI| |exact L2].
      unfold LRI. eapply LR_weaken; [exact L1|]. intros k s s' Hs X. unfold sel in *.
      rewrite zmem_cons in *. simpl in *. rewrite orb_false_r in *. destruct (k =? j) eqn:Ek; [|exact X].
      apply Z.eqb_eq in Ek. subst k s'.
      apply inst_state_aget in Ej. destruct Ej as [s0 [Hs0 St]]. rewrite Hs in Hs0. inversion Hs0; subst s0.
      unfold fsmP. rewrite ws_remote, ws_local, ws_state, St. rewrite ws_ct by discriminate. repeat split.
    + intro A. apply K2. nochk_tac.
Qed.

Lemma activate_checked_LR : forall n now n' o act, NoDup (akeys (n_insts n)) ->
  activate_checked n now = Ok (n', o, act) ->
  LR (fsmP false (n_me n) (o_auto_fence (n_opts n))) n n' /\ nochk o = true.
Proof.
  intros n now n' o act ND H. unfold activate_checked in H.
  apply activate_checked_aux_LRI in H; [|exact ND]. destruct H as [L K]. split; [apply LRI_keys; exact L|].
  apply K. reflexivity.
Qed.

Lemma LR_fsm_trans : forall s1 s2 me af a b c,
  LR (fsmP s1 me af) a b -> LR (fsmP s2 me af) b c -> LR (fsmP (s1 || s2) me af) a c.
Proof. intros. eapply LR_trans'; [eassumption|eassumption|]. intros. eapply fsmP_trans; eassumption. Qed.

Lemma LR_fixed : forall P n n', LR P n n' ->
  n_me n' = n_me n /\ n_opts n' = n_opts n /\ akeys (n_insts n') = akeys (n_insts n).
Proof. intros P n n' [A [B [C _]]]. repeat split; assumption. Qed.

Lemma check_instances_LR : forall n now n' o lost lostp d, NoDup (akeys (n_insts n)) ->
  check_instances n now = Ok (n', o, lost, lostp, d) ->
  LR (fsmP true (n_me n) (o_auto_fence (n_opts n))) n n' /\ nochk o = true.
Proof.
  intros n now n' o lost lostp d ND H. unfold check_instances in H.
  destruct (invalidate_failed n now) as [[[[n1 o1] l1] lp1]|k] eqn:E1; [|discriminate].
  apply invalidate_failed_LR in E1; [|exact ND]. destruct E1 as [L1 K1].
  destruct (LR_fixed _ _ _ L1) as [F1 [F2 F3]].
  assert (AC : forall n2 o2 act, activate_checked n1 now = Ok (n2, o2, act) ->
               LR (fsmP true (n_me n) (o_auto_fence (n_opts n))) n n2 /\ nochk (o1 ++ o2) = true).
  { intros n2 o2 act E2. apply activate_checked_LR in E2; [|rewrite F3; exact ND]. destruct E2 as [L2 K2].
    rewrite F1, F2 in L2. split; [|nochk_tac].
    change true with (true || false). eapply LR_fsm_trans; eassumption. }
  destruct (act_of (fsm_state n)).
  - destruct (activate_checked n1 now) as [[[n2 o2] act]|k] eqn:E2; [|discriminate].
    inversion H; subst. eapply AC. reflexivity.
  - destruct (activate_checked n1 now) as [[[n2 o2] act]|k] eqn:E2; [|discriminate].
    inversion H; subst. eapply AC. reflexivity.
  - inversion H; subst. split; assumption.
Qed.

(* ---------- one evaluation of instance.next(): instance statuses move only inside check_instances ---------- *)
Ltac sc_destruct := repeat match goal with H : SC _ _ _ |- _ => destruct H end.
Ltac nochk_ifs :=
  repeat match goal with |- context[nochk (if ?b then _ else _)] => destruct b end.
Ltac sc_fin H := inversion H; subst; clear H; sc_destruct; split; [congruence|nochk_tac; nochk_ifs; nochk_tac].

Lemma fsm_next_core : forall n orc now n' o d, fsm_next n orc now = Ok (n', o, d) ->
  exists n1 o1 lost lostp d1, check_instances n now = Ok (n1, o1, lost, lostp, d1) /\
    (nochk o1 = true -> core n' = core n1 /\ nochk o = true).
Proof.
  intros n orc now n' o d H. unfold fsm_next in H.
  destruct (check_instances n now) as [[[[[n1 o1] lost] lostp] d1]|k] eqn:E1; [|discriminate].
  exists n1, o1, lost, lostp, d1. split; [reflexivity|]. intro K1.
  destruct d1 as [d1|]; [sc_fin H|].
  destruct (evaluate_stability n1) as [n2|k] eqn:E2; [|discriminate].
  apply evaluate_stability_SC in E2.
  set (oc := match lost with [] => [] | _ => [JobsInvalidation lost] end) in *.
  assert (Hoc : nochk oc = true) by (unfold oc; destruct lost; reflexivity).
  clearbody oc.
  destruct (fsm_state n) eqn:Est.
  - sc_fin H.
  - (* SYNCHRONIZATION *)
    destruct (on_consistence n2); [sc_fin H|].
    match type of H with match ?u with _ => _ end = _ => destruct u as [[[n3 o3] us]|k] eqn:E3; [|discriminate] end.
    assert (F3 : SC n2 o3 n3).
    { destruct (o_user (n_opts n2)).
      - destruct (accept_master n2 (or_pick orc)) as [[n3' o3']|k] eqn:E4; [|discriminate].
        apply accept_master_SC in E4.
        destruct (master n3' =? 0); [inversion E3; subst; exact E4|].
        destruct (inst_state n3' (master n3')); inversion E3; subst; exact E4.
      - inversion E3; subst. split; reflexivity. }
    match type of H with (let '(_, _) := ?u in _) = _ => destruct u as [n4 o4] eqn:E4 end.
    apply set_degraded_SC in E4. sc_fin H.
  - (* ELECTION *)
    destruct (sync_consistence n2 lost) as [[n3 o3] d3] eqn:E3. apply sync_consistence_SC in E3.
    destruct d3; [sc_fin H|].
    assert (SM : forall r, select_master n3 = Ok r -> core (fst r) = core n1 /\ nochk (o1 ++ o3 ++ snd r) = true).
    { intros [n4 o4] E4. apply select_master_SC in E4. simpl. sc_destruct. split; [congruence|nochk_tac]. }
    destruct (is_stable n3); [|sc_fin H].
    destruct (check_master n3) as [[|]|k]; [| |discriminate].
    + destruct (is_master n3); [sc_fin H|].
      destruct (master_state n3) as [[]|];
        first [ destruct (select_master n3) as [r|k] eqn:E4; [|discriminate]; simpl in H; inversion H; subst;
                apply SM; reflexivity
              | sc_fin H ].
    + destruct (select_master n3) as [r|k] eqn:E4; [|discriminate]; simpl in H; inversion H; subst.
      apply SM; reflexivity.
  - (* DISTRIBUTION *)
    destruct (ms_consistence n2 lost) as [[[n3 o3] d3]|k] eqn:E3; [|discriminate]. apply ms_consistence_SC in E3.
    destruct d3; [sc_fin H|].
    destruct (is_master n3) eqn:M; sc_fin H.
  - (* OPERATION *)
    destruct (ms_consistence n2 lost) as [[[n3 o3] d3]|k] eqn:E3; [|discriminate]. apply ms_consistence_SC in E3.
    destruct d3; [sc_fin H|].
    destruct (is_master n3) eqn:M; sc_fin H.
  - (* CONCILIATION *)
    destruct (ms_consistence n2 lost) as [[[n3 o3] d3]|k] eqn:E3; [|discriminate]. apply ms_consistence_SC in E3.
    destruct d3; [sc_fin H|].
    destruct (is_master n3) eqn:M; [|sc_fin H].
    destruct (or_starting orc || or_stopping orc); [sc_fin H|].
    destruct (negb (or_conflict orc)); sc_fin H.
  - (* RESTARTING *)
    destruct (ms_consistence n2 lost) as [[[n3 o3] d3]|k] eqn:E3; [|discriminate]. apply ms_consistence_SC in E3.
    destruct d3; [sc_fin H|].
    destruct (is_master n3) eqn:M; sc_fin H.
  - (* SHUTTING_DOWN *)
    destruct (ms_consistence n2 lost) as [[[n3 o3] d3]|k] eqn:E3; [|discriminate]. apply ms_consistence_SC in E3.
    destruct d3; [sc_fin H|].
    destruct (is_master n3) eqn:M; sc_fin H.
  - (* FINAL *)
    sc_fin H.
Qed.

Lemma fsm_next_LR : forall n orc now n' o d, NoDup (akeys (n_insts n)) -> fsm_next n orc now = Ok (n', o, d) ->
  LR (fsmP true (n_me n) (o_auto_fence (n_opts n))) n n' /\ nochk o = true.
Proof.
  intros n orc now n' o d ND H. apply fsm_next_core in H.
  destruct H as [n1 [o1 [lost [lostp [d1 [E K]]]]]].
  apply check_instances_LR in E; [|exact ND]. destruct E as [L K1]. destruct (K K1) as [C K2].
  split; [eapply LR_core_r; eassumption|exact K2].
Qed.

(* FiniteStateMachine.set_state : the loop of re-evaluations *)
Lemma LR_fsm_refl : forall me af n, LR (fsmP false me af) n n.
Proof. intros. apply LR_core; [reflexivity|]. intros. apply fsmP_refl. left. reflexivity. Qed.

Lemma LR_fsm_weaken : forall strict me af n n', LR (fsmP strict me af) n n' -> LR (fsmP false me af) n n'.
Proof. intros. eapply LR_weaken; [eassumption|]. intros j s s' _ X. eapply fsmP_weaken. exact X. Qed.

Lemma core_fields : forall n n', core n' = core n ->
  n_me n' = n_me n /\ n_opts n' = n_opts n /\ n_insts n' = n_insts n.
Proof. intros n n' C. unfold core in C. inversion C. repeat split; assumption. Qed.

Lemma set_state_LR : forall fuel n next orcs now acc n' outs, NoDup (akeys (n_insts n)) ->
  set_state fuel n next orcs now acc = Ok (n', outs) ->
  LR (fsmP false (n_me n) (o_auto_fence (n_opts n))) n n' /\ (nochk acc = true -> nochk outs = true).
Proof.
  induction fuel as [|fuel IH]; intros n next orcs now acc n' outs ND H; simpl in H.
  - destruct next as [ns|]; [|inversion H; subst; split; [apply LR_fsm_refl|auto]].
    destruct (sstate_eqb ns (fsm_state n)); [inversion H; subst; split; [apply LR_fsm_refl|auto]|].
    destruct (negb (fsm_transition_ok (fsm_state n) ns)); [|discriminate].
    inversion H; subst; split; [apply LR_fsm_refl|auto].
  - destruct next as [ns|]; [|inversion H; subst; split; [apply LR_fsm_refl|auto]].
    destruct (sstate_eqb ns (fsm_state n)); [inversion H; subst; split; [apply LR_fsm_refl|auto]|].
    destruct (negb (fsm_transition_ok (fsm_state n) ns));
      [inversion H; subst; split; [apply LR_fsm_refl|auto]|].
    destruct (set_fsm n ns) as [n1 o1] eqn:E1. apply set_fsm_SC in E1.
    destruct (enter_state n1 ns now) as [n2 o2] eqn:E2. apply enter_state_SC in E2.
    destruct (next_orcs orcs) as [orc rest].
    destruct (fsm_next n2 orc now) as [[[n3 o3] d]|k] eqn:E3; [|discriminate].
    destruct E1 as [C1 K1]. destruct E2 as [C2 K2].
    assert (C12 : core n2 = core n) by congruence.
    destruct (core_fields _ _ C12) as [A [B C]].
    assert (ND2 : NoDup (akeys (n_insts n2))) by (rewrite C; exact ND).
    apply fsm_next_LR in E3; [|exact ND2]. destruct E3 as [L3 K3].
    destruct (LR_fixed _ _ _ L3) as [F1 [F2 F3]].
    assert (ND3 : NoDup (akeys (n_insts n3))) by (rewrite F3; exact ND2).
    apply IH in H; [|exact ND3]. destruct H as [L4 K4].
    rewrite F1, F2 in L4. rewrite A, B in L3, L4.
    split.
    + eapply LR_core_l; [exact C12|]. eapply LR_fsm_weaken.
      eapply LR_fsm_trans; [exact L3|exact L4].
    + intro K0. apply K4. unfold exit_outputs. destruct (fsm_state n); nochk_tac.
Qed.

(* FiniteStateMachine.next *)
Lemma fsm_run_LR : forall n orcs now n' o, NoDup (akeys (n_insts n)) -> fsm_run n orcs now = Ok (n', o) ->
  LR (fsmP true (n_me n) (o_auto_fence (n_opts n))) n n' /\ nochk o = true.
Proof.
  intros n orcs now n' o ND H. unfold fsm_run in H. destruct (next_orcs orcs) as [orc rest].
  destruct (fsm_next n orc now) as [[[n1 o1] d]|k] eqn:E1; [|discriminate].
  apply fsm_next_LR in E1; [|exact ND]. destruct E1 as [L1 K1].
  destruct (LR_fixed _ _ _ L1) as [F1 [F2 F3]].
  apply set_state_LR in H; [|rewrite F3; exact ND]. destruct H as [L2 K2]. rewrite F1, F2 in L2.
  split; [|apply K2; exact K1].
  change true with (true || false). eapply LR_fsm_trans; eassumption.
Qed.

Lemma on_ending_LR : forall n target orcs now err n' o, NoDup (akeys (n_insts n)) ->
  on_ending n target orcs now err = Ok (n', o) ->
  LR (fsmP false (n_me n) (o_auto_fence (n_opts n))) n n' /\ nochk o = true.
Proof.
  intros n target orcs now err n' o ND H. unfold on_ending in H.
  destruct (is_master n).
  - apply set_state_LR in H; [|exact ND]. destruct H as [L K]. split; [exact L|apply K; reflexivity].
  - destruct (negb (master n =? 0)); [|discriminate]. inversion H; subst. split; [apply LR_fsm_refl|].
    destruct target; reflexivity.
Qed.

(* Context.on_timer_event *)
Definition inactive_b (inact : Z) (s : ist) (cnt : Z) : bool :=
  has_active_state (is_state s) && (inact <? cnt - is_local_cnt s).
Definition timer_ist (inact cnt now : Z) (s : ist) : ist :=
  if inactive_b inact s cnt then with_state s FAILED now else s.

Lemma LR_same : forall (P : irel) n, (forall j s, aget j (n_insts n) = Some s -> P j s s) -> LR P n n.
Proof.
  intros P n R. repeat split. intros j s Hs. exists s. split; [exact Hs|apply R; exact Hs].
Qed.

Lemma zmem_one : forall k j, zmem k [j] = (k =? j).
Proof. intros. rewrite zmem_cons. simpl. apply orb_false_r. Qed.

Lemma on_timer_fold_LRI : forall cnt now ids, NoDup ids -> forall n acc n' outs,
  fold_ids (fun n j => match aget j (n_insts n) with
                       | Some s => if is_inactive n s cnt then set_inst_state n j FAILED now else Ok (n, [])
                       | None => Ok (n, [])
                       end) ids n acc = Ok (n', outs) ->
  LRI ids (fun _ s s' => s' = timer_ist (o_inactivity (n_opts n)) cnt now s) n n' /\
  (nochk acc = true -> nochk outs = true).
Proof.
  intros cnt now ids. induction ids as [|j r IH]; simpl; intros ND n acc n' outs H.
  - inversion H; subst. split; [apply LRI_nil; reflexivity|auto].
  - inversion ND as [|x xs NI ND']; subst.
    match type of H with match ?u with _ => _ end = _ => destruct u as [[n1 o1]|k] eqn:E; [|discriminate] end.
    apply (IH ND') in H. destruct H as [L2 K2].
    assert (L1 : LRI [j] (fun _ s s' => s' = timer_ist (o_inactivity (n_opts n)) cnt now s) n n1 /\ nochk o1 = true).
    { destruct (aget j (n_insts n)) as [s|] eqn:Hs.
      - destruct (is_inactive n s cnt) eqn:I.
        + apply set_inst_state_LRI in E. destruct E as [L [K _]]. split; [|exact K].
          unfold LRI. eapply LR_weaken; [exact L|]. intros k x x' Hx X. unfold sel in *.
          rewrite zmem_one in *. destruct (k =? j) eqn:Z; [|exact X].
          apply Z.eqb_eq in Z. subst k. rewrite Hs in Hx. inversion Hx; subst x.
          unfold timer_ist. unfold is_inactive in I. unfold inactive_b. rewrite I. exact X.
        + inversion E; subst. split; [|reflexivity]. unfold LRI. apply LR_same.
          intros k x Hx. unfold sel. rewrite zmem_one. destruct (k =? j) eqn:Z; [|reflexivity].
          apply Z.eqb_eq in Z. subst k. rewrite Hs in Hx. inversion Hx; subst x.
          unfold timer_ist. unfold is_inactive in I. unfold inactive_b. rewrite I. reflexivity.
      - inversion E; subst. split; [|reflexivity]. unfold LRI. apply LR_same.
        intros k x Hx. unfold sel. rewrite zmem_one. destruct (k =? j) eqn:Z; [|reflexivity].
        apply Z.eqb_eq in Z. subst k. rewrite Hs in Hx. discriminate. }
    destruct L1 as [L1 K1].
    destruct (LR_fixed _ _ _ L1) as [F1 [F2 F3]]. rewrite F2 in L2.
    split; [eapply LRI_cons; eassumption|]. intro K0. apply K2. nochk_tac.
Qed.

Lemma on_timer_LR : forall n cnt now n' o, NoDup (akeys (n_insts n)) -> on_timer n cnt now = Ok (n', o) ->
  LR (fun _ s s' => s' = timer_ist (o_inactivity (n_opts n)) cnt now s) n n' /\ nochk o = true.
Proof.
  intros n cnt now n' o ND H. unfold on_timer in H. apply on_timer_fold_LRI in H; [|exact ND].
  destruct H as [L K]. split; [apply LRI_keys; exact L|apply K; reflexivity].
Qed.

(* ====================================================================== *)
(* B0. What one event does to each instance status                         *)
(* ====================================================================== *)

(* a TICK for the instance (local: lc = -1): counters refreshed, first TICK of a STOPPED instance starts the handshake *)
Definition tick_ist (s : ist) (cnt lc now : Z) : ist :=
  if istate_eqb (is_state s) ISTOPPED then with_state (update_tick s cnt lc) CHECKING now
  else update_tick s cnt lc.

(* the handshake result *)
Definition auth_target (me k : Z) (a : auth) : istate :=
  match a with
  | A_UNKNOWN => ISTOPPED
  | A_AUTHORIZED => CHECKED
  | _ => if k =? me then ISTOPPED else ISOLATED
  end.

Definition SR (n : node) (e : event) : irel := fun j s s' =>
  let me := n_me n in
  let af := o_auto_fence (n_opts n) in
  match e with
  | LocalTick cnt now _ =>
      fsmP true me af j
           (timer_ist (o_inactivity (n_opts n)) cnt now (if j =? me then tick_ist s cnt (-1) now else s)) s'
  | PeerTick og cnt now =>
      match resolve n og with
      | Some k => if local_checked_or_running n && (j =? k) then s' = tick_ist s cnt (local_cnt n) now else s' = s
      | None => s' = s
      end
  | Auth og a ts now =>
      match resolve n og with
      | Some k => if (j =? k) && is_checking s ts then s' = with_state s (auth_target me k a) now else s' = s
      | None => s' = s
      end
  | AllInfo og info now =>
      match resolve n og, info with
      | Some k, None =>
          if j =? k then s' = with_state s ISTOPPED now
                         /\ (is_state s = ISTOPPED \/ inst_transition_ok (is_state s) ISTOPPED = true)
          else s' = s
      | _, _ => s' = s
      end
  | InstFailure og now =>
      match resolve n og with
      | Some k => if (j =? k) && has_active_state (is_state s) then s' = with_state s FAILED now else s' = s
      | None => s' = s
      end
  | Ident _ => s' = s
  | _ => fsmP false me af j s s'
  end.

(* handshake requests: only for the instance whose first TICK arrives *)
Definition outs_ok (n : node) (e : event) (outs : list output) : Prop :=
  forall k, In (CheckInstance k) outs ->
    inst_state n k = Some ISTOPPED /\
    match e with
    | LocalTick _ _ _ => k = n_me n
    | PeerTick og _ _ => resolve n og = Some k
    | _ => False
    end.

Lemma nochk_outs_ok : forall n e outs, nochk outs = true -> outs_ok n e outs.
Proof. intros n e outs H k I. exfalso. eapply nochk_In; eassumption. Qed.

Lemma tick_prefix : forall n j s cnt lc now n2 o2, aget j (n_insts n) = Some s ->
  (if istate_eqb (is_state s) ISTOPPED
   then bind (set_inst_state (set_insts n (aset j (update_tick s cnt lc) (n_insts n))) j CHECKING now)
             (fun r => Ok (fst r, snd r ++ [CheckInstance j]))
   else Ok (set_insts n (aset j (update_tick s cnt lc) (n_insts n)), [])) = Ok (n2, o2) ->
  LR (fun k x x' => x' = if k =? j then tick_ist x cnt lc now else x) n n2 /\
  (forall k, In (CheckInstance k) o2 -> k = j /\ is_state s = ISTOPPED).
Proof.
  intros n j s cnt lc now n2 o2 Hs H.
  pose proof (set_insts_aset_LRI n j s (fun x => update_tick x cnt lc) Hs) as L1.
  apply LRI_one in L1.
  destruct (istate_eqb (is_state s) ISTOPPED) eqn:E.
  - match type of H with bind ?u _ = _ => destruct u as [[n2' o2']|k] eqn:E2; [|discriminate] end.
    simpl in H. inversion H; subst. clear H.
    apply set_inst_state_LRI in E2. destruct E2 as [L2 [K2 _]]. apply LRI_one in L2.
    split.
    + eapply LR_weaken; [eapply LR_trans; [exact L1|exact L2]|].
      intros k x x' Hx [x1 [X1 X2]]. simpl in *. destruct (k =? j) eqn:Ek; [|congruence].
      apply Z.eqb_eq in Ek. subst k. rewrite Hs in Hx. inversion Hx; subst x.
      unfold tick_ist. rewrite E. congruence.
    + intros k I. apply in_app_or in I. destruct I as [I|I]; [exfalso; eapply nochk_In; eassumption|].
      simpl in I. destruct I as [I|[]]. inversion I. split; [reflexivity|apply istate_eqb_eq; exact E].
  - inversion H; subst. clear H. split; [|intros k []].
    eapply LR_weaken; [exact L1|]. intros k x x' Hx X. simpl in *. destruct (k =? j) eqn:Ek; [|exact X].
    apply Z.eqb_eq in Ek. subst k. rewrite Hs in Hx. inversion Hx; subst x.
    unfold tick_ist. rewrite E. exact X.
Qed.

Lemma LR_eq_SR : forall n n' (Q : irel), core n' = core n -> (forall j s, Q j s s) -> LR Q n n'.
Proof. intros. apply LR_core; assumption. Qed.

Theorem step_SR : forall n e n' outs, NoDup (akeys (n_insts n)) -> step n e = Ok (n', outs) ->
  LR (SR n e) n n' /\ outs_ok n e outs.
Proof.
  intros n e n' outs ND H. destruct e as [cnt now orcs|og cnt now|og st dg m insts now orcs|pl|og a ts now
                                         |og info now|og now|strat forced now orcs|now orcs|now orcs|m now orcs];
    simpl in H.
  - (* LocalTick *)
    destruct (aget (n_me n) (n_insts n)) as [s|] eqn:Hme; [|discriminate].
    match type of H with match ?u with _ => _ end = _ => destruct u as [[n2 o2]|k] eqn:E2; [|discriminate] end.
    apply (tick_prefix n (n_me n) s cnt (-1) now n2 o2 Hme) in E2. destruct E2 as [L2 K2].
    destruct (LR_fixed _ _ _ L2) as [A2 [B2 C2]].
    destruct (on_timer n2 cnt now) as [[n3 o3]|k] eqn:E3; [|discriminate].
    apply on_timer_LR in E3; [|rewrite C2; exact ND]. destruct E3 as [L3 K3]. rewrite B2 in L3.
    destruct (LR_fixed _ _ _ L3) as [A3 [B3 C3]].
    match type of H with (let '(_, _) := ?u in _) = _ => destruct u as [n4 o4] eqn:E4 end.
    assert (S4 : SC n3 o4 n4) by (destruct (n_mark n3); inversion E4; subst; split; reflexivity).
    destruct S4 as [C4 K4]. destruct (core_fields _ _ C4) as [A4 [B4 D4]].
    destruct (fsm_run n4 orcs now) as [[n5 o5]|k] eqn:E5; [|discriminate]. simpl in H. inversion H; subst. clear H.
    apply fsm_run_LR in E5; [|rewrite D4, C3, C2; exact ND]. destruct E5 as [L5 K5].
    rewrite A4, A3, A2, B4, B3, B2 in L5.
    split.
    + eapply LR_weaken; [eapply LR_trans; [eapply LR_trans; [exact L2|exact L3]|eapply LR_core_l; [exact C4|exact L5]]|].
      intros j x x' Hx [x2 [[x1 [X1 X2]] X3]]. simpl. subst x1 x2. exact X3.
    + intros k I. apply in_app_or in I. destruct I as [I|I].
      * apply K2 in I. destruct I as [I1 I2]. subst k. split; [|reflexivity].
        apply inst_state_aget. exists s. split; assumption.
      * exfalso. revert I. apply nochk_In. nochk_tac.
  - (* PeerTick *)
    destruct (resolve n og) as [j|] eqn:R.
    + destruct (local_checked_or_running n) eqn:LC.
      * destruct (aget j (n_insts n)) as [s|] eqn:Hj; [|discriminate].
        apply (tick_prefix n j s cnt (local_cnt n) now n' outs Hj) in H. destruct H as [L K].
        split.
        -- eapply LR_weaken; [exact L|]. intros k x x' Hx X. simpl. rewrite R, LC. simpl. cbv beta in X.
           destruct (k =? j); exact X.
        -- intros k I. apply K in I. destruct I as [I1 I2]. subst k. split; [|exact R].
           apply inst_state_aget. exists s. split; assumption.
      * inversion H; subst. split; [|apply nochk_outs_ok; reflexivity].
        apply LR_same. intros k x Hx. simpl. rewrite R, LC. reflexivity.
    + inversion H; subst. split; [|apply nochk_outs_ok; reflexivity].
      apply LR_same. intros k x Hx. simpl. rewrite R. reflexivity.
  - (* PeerState *)
    destruct (resolve n og) as [j|] eqn:R.
    + match type of H with (if Z.eqb j (master ?x) then _ else _) = _ => set (n1 := x) in * end.
      assert (C1 : core n1 = core n) by (unfold n1; destruct (j =? n_me n); reflexivity).
      destruct (core_fields _ _ C1) as [A1 [B1 D1]].
      destruct (j =? master n1).
      * apply fsm_run_LR in H; [|rewrite D1; exact ND]. destruct H as [L K]. rewrite A1, B1 in L.
        split; [|apply nochk_outs_ok; exact K].
        eapply LR_core_l; [exact C1|]. eapply LR_fsm_weaken. exact L.
      * inversion H; subst. split; [|apply nochk_outs_ok; reflexivity].
        apply LR_core; [exact C1|]. intros k x. simpl. apply fsmP_refl. left. reflexivity.
    + inversion H; subst. split; [|apply nochk_outs_ok; reflexivity]. apply LR_fsm_refl.
  - (* Ident *)
    inversion H; subst. split; [|apply nochk_outs_ok; reflexivity]. apply LR_same. intros; reflexivity.
  - (* Auth *)
    destruct (resolve n og) as [j|] eqn:R.
    + destruct (aget j (n_insts n)) as [s|] eqn:Hj; [|discriminate].
      destruct (is_checking s ts) eqn:IC.
      * assert (G : LRI [j] (fun _ x x' => x' = with_state x (auth_target (n_me n) j a) now) n n' /\ nochk outs = true).
        { destruct a.
          - apply set_inst_state_LRI in H. destruct H as [L [K _]]. split; assumption.
          - apply set_inst_state_LRI in H. destruct H as [L [K _]]. split; assumption.
          - apply invalidate_LRI in H. destruct H as [iso [_ [I2 [L K]]]]. rewrite (I2 eq_refl) in L. split; assumption.
          - apply invalidate_LRI in H. destruct H as [iso [_ [I2 [L K]]]]. rewrite (I2 eq_refl) in L. split; assumption. }
        destruct G as [L K]. split; [|apply nochk_outs_ok; exact K].
        apply LRI_one in L. eapply LR_weaken; [exact L|]. intros k x x' Hx X. simpl in *. rewrite R.
        destruct (k =? j) eqn:Ek; [|exact X]. apply Z.eqb_eq in Ek. subst k. rewrite Hj in Hx. inversion Hx; subst x.
        rewrite IC. simpl. exact X.
      * inversion H; subst. split; [|apply nochk_outs_ok; reflexivity].
        apply LR_same. intros k x Hx. simpl. rewrite R. destruct (k =? j) eqn:Ek; [|reflexivity].
        apply Z.eqb_eq in Ek. subst k. rewrite Hj in Hx. inversion Hx; subst x. rewrite IC. reflexivity.
    + inversion H; subst. split; [|apply nochk_outs_ok; reflexivity].
      apply LR_same. intros k x Hx. simpl. rewrite R. reflexivity.
  - (* AllInfo *)
    destruct (resolve n og) as [j|] eqn:R.
    + destruct info as [b|].
      * assert (C : core n' = core n /\ outs = []).
        { destruct (inst_state n j) as [[]|]; try (inversion H; subst; split; reflexivity).
          destruct b; inversion H; subst; split; reflexivity. }
        destruct C as [C O]. subst outs. split; [|apply nochk_outs_ok; reflexivity].
        apply LR_core; [exact C|]. intros k x. simpl. rewrite R. reflexivity.
      * apply set_inst_state_LRI in H. destruct H as [L [K T]]. split; [|apply nochk_outs_ok; exact K].
        apply LRI_one in L. eapply LR_weaken; [exact L|]. intros k x x' Hx X. simpl in *. rewrite R.
        destruct (k =? j) eqn:Ek; [|exact X]. apply Z.eqb_eq in Ek. subst k. split; [exact X|apply T; exact Hx].
    + inversion H; subst. split; [|apply nochk_outs_ok; reflexivity].
      apply LR_same. intros k x Hx. simpl. rewrite R. reflexivity.
  - (* InstFailure *)
    destruct (resolve n og) as [j|] eqn:R.
    + destruct (inst_state n j) as [st|] eqn:Ej.
      * apply inst_state_aget in Ej. destruct Ej as [s [Hj St]].
        destruct (has_active_state st) eqn:HA.
        -- apply set_inst_state_LRI in H. destruct H as [L [K _]]. split; [|apply nochk_outs_ok; exact K].
           apply LRI_one in L. eapply LR_weaken; [exact L|]. intros k x x' Hx X. simpl in *. rewrite R.
           destruct (k =? j) eqn:Ek; [|exact X]. apply Z.eqb_eq in Ek. subst k. rewrite Hj in Hx. inversion Hx; subst x.
           rewrite St, HA. exact X.
        -- inversion H; subst. split; [|apply nochk_outs_ok; reflexivity].
           apply LR_same. intros k x Hx. simpl. rewrite R. destruct (k =? j) eqn:Ek; [|reflexivity].
           apply Z.eqb_eq in Ek. subst k. rewrite Hj in Hx. inversion Hx; subst x. rewrite HA. reflexivity.
      * inversion H; subst. split; [|apply nochk_outs_ok; reflexivity].
        apply LR_same. intros k x Hx. simpl. rewrite R. destruct (k =? j) eqn:Ek; [|reflexivity].
        apply Z.eqb_eq in Ek. subst k. unfold inst_state in Ej. rewrite Hx in Ej. discriminate.
    + inversion H; subst. split; [|apply nochk_outs_ok; reflexivity].
      apply LR_same. intros k x Hx. simpl. rewrite R. reflexivity.
  - (* ProcCrash *)
    assert (G : LR (fsmP false (n_me n) (o_auto_fence (n_opts n))) n n' /\ nochk outs = true).
    { destruct (is_master n).
      - destruct strat; try (inversion H; subst; split; [apply LR_fsm_refl|try destruct forced; reflexivity]);
          (eapply on_ending_LR; [exact ND|exact H]).
      - inversion H; subst; split; [apply LR_fsm_refl|reflexivity]. }
    destruct G as [L K]. split; [exact L|apply nochk_outs_ok; exact K].
  - (* ReqRestart *)
    apply on_ending_LR in H; [|exact ND]. destruct H as [L K]. split; [exact L|apply nochk_outs_ok; exact K].
  - (* ReqShutdown *)
    apply on_ending_LR in H; [|exact ND]. destruct H as [L K]. split; [exact L|apply nochk_outs_ok; exact K].
  - (* ReqEndSync *)
    match type of H with match ?u with _ => _ end = _ => destruct u as [[n1 o1]|k] eqn:E1; [|discriminate] end.
    assert (S1 : SC n o1 n1).
    { destruct (m =? 0); [apply select_master_SC; exact E1|]. inversion E1 as [E1']. eapply set_master_SC. exact E1'. }
    destruct S1 as [C1 K1]. destruct (core_fields _ _ C1) as [A1 [B1 D1]].
    destruct (fsm_run n1 orcs now) as [[n2 o2]|k] eqn:E2; [|discriminate]. simpl in H. inversion H; subst. clear H.
    apply fsm_run_LR in E2; [|rewrite D1; exact ND]. destruct E2 as [L K]. rewrite A1, B1 in L.
    split; [|apply nochk_outs_ok; nochk_tac].
    eapply LR_core_l; [exact C1|]. eapply LR_fsm_weaken. exact L.
Qed.

(* ====================================================================== *)
(* B. Per-step instance discipline                                         *)
(* ====================================================================== *)

(* Well-formedness: the keys of the instance table are duplicate-free (a Python dict) and the local instance is
   not marked ISOLATED (Context.invalidate never does it; it is STOPPED at start-up). *)
Definition WFI (n : node) : Prop :=
  NoDup (akeys (n_insts n)) /\ inst_state n (n_me n) <> Some ISOLATED.

(* boolean form, for drivers and examples *)
Fixpoint nodup_b (l : list Z) : bool :=
  match l with [] => true | x :: r => negb (zmem x r) && nodup_b r end.
Definition wfi_b (n : node) : bool :=
  nodup_b (akeys (n_insts n))
  && negb (match inst_state n (n_me n) with Some ISOLATED => true | _ => false end).

Lemma nodup_b_NoDup : forall l, nodup_b l = true <-> NoDup l.
Proof.
  induction l as [|x r IH]; simpl; split; intro H; try constructor.
  - apply andb_prop in H. destruct H as [H1 H2]. apply negb_true_iff in H1. apply zmem_not_In. exact H1.
  - apply IH. apply andb_prop in H. tauto.
  - inversion H as [|y ys N ND]; subst. apply andb_true_intro. split; [|apply IH; exact ND].
    apply negb_true_iff. apply zmem_not_In. exact N.
Qed.

Lemma wfi_b_WFI : forall n, wfi_b n = true <-> WFI n.
Proof.
  intros n. unfold wfi_b, WFI. rewrite andb_true_iff, nodup_b_NoDup, negb_true_iff.
  split; intros [H1 H2]; (split; [exact H1|]).
  - intro X. rewrite X in H2. discriminate.
  - destruct (inst_state n (n_me n)) as [[]|]; try reflexivity. exfalso. apply H2. reflexivity.
Qed.

(* ---------- bridges between the node and the observation rows ---------- *)
Definition ist_row (kv : Z * ist) : Z * Z * Z * Z * Z :=
  (fst kv, icode (is_state (snd kv)), is_remote_cnt (snd kv), is_local_cnt (snd kv), is_checking_time (snd kv)).

Lemma init_ist_map : forall n, init_ist n = map ist_row (n_insts n).
Proof. reflexivity. Qed.

Lemma ist_entry_init : forall n j, ist_entry j (init_ist n) =
  match aget j (n_insts n) with
  | Some s => Some (icode (is_state s), is_remote_cnt s, is_local_cnt s, is_checking_time s)
  | None => None
  end.
Proof.
  intros n j. rewrite init_ist_map. unfold ist_entry. induction (n_insts n) as [|[k v] r IH]; simpl; [reflexivity|].
  rewrite (Z.eqb_sym k j). destruct (j =? k); [reflexivity|exact IH].
Qed.

Lemma ist_state_init : forall n j, ist_state j (init_ist n) =
  match aget j (n_insts n) with Some s => Some (icode (is_state s)) | None => None end.
Proof.
  intros n j. rewrite init_ist_map. unfold ist_state. induction (n_insts n) as [|[k v] r IH]; simpl; [reflexivity|].
  rewrite (Z.eqb_sym k j). destruct (j =? k); [reflexivity|exact IH].
Qed.

Lemma forallb_init_ist : forall n f, NoDup (akeys (n_insts n)) ->
  (forall j s, aget j (n_insts n) = Some s ->
     f (j, icode (is_state s), is_remote_cnt s, is_local_cnt s, is_checking_time s) = true) ->
  forallb f (init_ist n) = true.
Proof.
  intros n f ND H. rewrite init_ist_map. apply forallb_forall. intros x I. apply in_map_iff in I.
  destruct I as [[j s] [E I]]. subst x. apply In_aget_nodup in I; [|exact ND]. apply H. exact I.
Qed.

Lemma obs_ist_observe : forall n outs, obs_ist (observe n outs) = init_ist n.
Proof. reflexivity. Qed.
Lemma obs_outs_observe : forall n outs, obs_outs (observe n outs) = outs.
Proof. reflexivity. Qed.
Lemma obs_fsm_observe : forall n outs, obs_fsm (observe n outs) = scode (fsm_state n).
Proof. reflexivity. Qed.
Lemma obs_master_observe : forall n outs, obs_master (observe n outs) = master n.
Proof. reflexivity. Qed.

(* ---------- the origin filter ---------- *)
Lemma resolve_Some : forall n og k, resolve n og = Some k ->
  og_resolved og = Some k /\ og_addr_ok og = true /\
  exists s, aget k (n_insts n) = Some s /\ is_state s <> ISOLATED.
Proof.
  intros n og k H. unfold resolve in H. destruct (og_resolved og) as [j|]; [|discriminate].
  unfold inst_state in H. destruct (aget j (n_insts n)) as [s|] eqn:Hs; [|discriminate].
  destruct (is_state s) eqn:St; try discriminate;
    (destruct (og_addr_ok og); [|discriminate]; inversion H; subst; split; [reflexivity|split; [reflexivity|]];
     exists s; split; [exact Hs|rewrite St; discriminate]).
Qed.

Lemma resolve_of : forall n og k s, og_resolved og = Some k -> og_addr_ok og = true ->
  aget k (n_insts n) = Some s -> resolve n og = if istate_eqb (is_state s) ISOLATED then None else Some k.
Proof.
  intros n og k s H1 H2 H3. unfold resolve, inst_state. rewrite H1, H3, H2. destruct (is_state s); reflexivity.
Qed.

(* ---------- the status after a TICK / after the periodic check ---------- *)
Lemma tick_state : forall s c lc now,
  is_state (tick_ist s c lc now) = if istate_eqb (is_state s) ISTOPPED then CHECKING else is_state s.
Proof. intros. unfold tick_ist. destruct (istate_eqb (is_state s) ISTOPPED); [apply ws_state|reflexivity]. Qed.
Lemma tick_remote : forall s c lc now, is_remote_cnt (tick_ist s c lc now) = c.
Proof. intros. unfold tick_ist. destruct (istate_eqb (is_state s) ISTOPPED); [rewrite ws_remote|]; reflexivity. Qed.
Lemma tick_local : forall s c lc now, is_local_cnt (tick_ist s c lc now) =
  if c <? is_remote_cnt s then 0 else if lc <? 0 then c else lc.
Proof. intros. unfold tick_ist. destruct (istate_eqb (is_state s) ISTOPPED); [rewrite ws_local|]; reflexivity. Qed.

Lemma timer_state : forall inact cnt now s,
  is_state (timer_ist inact cnt now s) = if inactive_b inact s cnt then FAILED else is_state s.
Proof. intros. unfold timer_ist. destruct (inactive_b inact s cnt); [apply ws_state|reflexivity]. Qed.
Lemma timer_remote : forall inact cnt now s, is_remote_cnt (timer_ist inact cnt now s) = is_remote_cnt s.
Proof. intros. unfold timer_ist. destruct (inactive_b inact s cnt); [apply ws_remote|reflexivity]. Qed.
Lemma timer_local : forall inact cnt now s, is_local_cnt (timer_ist inact cnt now s) = is_local_cnt s.
Proof. intros. unfold timer_ist. destruct (inactive_b inact s cnt); [apply ws_local|reflexivity]. Qed.

(* the state of an instance after the first half of a local tick (own TICK, periodic check);
   local = it is the local instance, b = it has been silent for more than inactivity_ticks *)
Definition lt_state (local b : bool) (a : istate) : istate :=
  let a1 := if local && istate_eqb a ISTOPPED then CHECKING else a in
  if has_active_state a1 && b then FAILED else a1.

(* the local tag of the instance once its own TICK (if any) is taken into account *)
Definition lt_local_cnt (me j : Z) (s : ist) (cnt : Z) : Z :=
  if j =? me then (if cnt <? is_remote_cnt s then 0 else cnt) else is_local_cnt s.

Lemma SR_local_tick : forall n cnt now orcs j s s', SR n (LocalTick cnt now orcs) j s s' ->
  fsm_stb true (j =? n_me n) (o_auto_fence (n_opts n))
          (lt_state (j =? n_me n) (o_inactivity (n_opts n) <? cnt - lt_local_cnt (n_me n) j s cnt) (is_state s))
          (is_state s') = true /\
  is_remote_cnt s' = (if j =? n_me n then cnt else is_remote_cnt s) /\
  is_local_cnt s' = lt_local_cnt (n_me n) j s cnt.
Proof.
  intros n cnt now orcs j s s' H. simpl in H. destruct H as [H1 [H2 [H3 H4]]].
  rewrite timer_remote in H1. rewrite timer_local in H2. rewrite timer_state in H4.
  unfold lt_state, lt_local_cnt, inactive_b in *.
  destruct (j =? n_me n); simpl.
  - rewrite tick_state, tick_local, tick_remote in *. simpl in *. split; [exact H4|split; assumption].
  - split; [exact H4|split; assumption].
Qed.

(* ---------- pure facts on states (recomputed against the reflected enumeration) ---------- *)
Lemma lt_graph : forall local b af a d, fsm_stb true local af (lt_state local b a) d = true ->
  inst_move_ok (icode a) (icode d) = true /\ (local = true -> a <> ISOLATED -> d <> ISOLATED).
Proof.
  intros local b af a d. destruct a, d, local, b, af; vm_compute; intro H;
    first [discriminate H | split; [reflexivity|intros X Y; first [discriminate X|discriminate|congruence]]].
Qed.

Lemma fsm_graph : forall strict local af a d, fsm_stb strict local af a d = true ->
  inst_move_ok (icode a) (icode d) = true /\ (local = true -> a <> ISOLATED -> d <> ISOLATED).
Proof.
  intros strict local af a d. destruct a, d, strict, local, af; vm_compute; intro H;
    first [discriminate H | split; [reflexivity|intros X Y; first [discriminate X|discriminate|congruence]]].
Qed.

Lemma move_refl : forall a, inst_move_ok (icode a) (icode a) = true.
Proof. intro a. unfold inst_move_ok. rewrite Z.eqb_refl. reflexivity. Qed.

Lemma tick_graph : forall a, inst_move_ok (icode a) (icode (if istate_eqb a ISTOPPED then CHECKING else a)) = true
  /\ (a <> ISOLATED -> (if istate_eqb a ISTOPPED then CHECKING else a) <> ISOLATED).
Proof. destruct a; vm_compute; split; first [reflexivity | intros; first [discriminate|congruence]]. Qed.

Lemma auth_graph : forall me k a, inst_move_ok (icode CHECKING) (icode (auth_target me k a)) = true.
Proof. intros me k a. unfold auth_target. destruct a; try destruct (k =? me); vm_compute; reflexivity. Qed.

Lemma failed_graph : forall a, has_active_state a = true -> inst_move_ok (icode a) (icode FAILED) = true.
Proof. destruct a; vm_compute; intro H; first [reflexivity|discriminate H]. Qed.

Lemma fsmP_graph : forall strict me af j s s', fsmP strict me af j s s' ->
  inst_move_ok (icode (is_state s)) (icode (is_state s')) = true /\
  (j = me -> is_state s <> ISOLATED -> is_state s' <> ISOLATED).
Proof.
  intros strict me af j s s' [_ [_ [_ H]]]. apply fsm_graph in H. destruct H as [H1 H2]. split; [exact H1|].
  intros E. apply H2. subst. apply Z.eqb_refl.
Qed.

Lemma is_checking_state : forall s ts, is_checking s ts = true -> is_state s = CHECKING /\ is_checking_time s < ts.
Proof.
  intros s ts H. unfold is_checking in H. apply andb_prop in H. destruct H as [H1 H2].
  apply istate_eqb_eq in H1. apply Z.ltb_lt in H2. split; assumption.
Qed.

Lemma SR_graph : forall n e j s s', SR n e j s s' ->
  inst_move_ok (icode (is_state s)) (icode (is_state s')) = true /\
  (j = n_me n -> is_state s <> ISOLATED -> is_state s' <> ISOLATED).
Proof.
  intros n e j s s' H.
  assert (RF : forall x, x = s -> inst_move_ok (icode (is_state s)) (icode (is_state x)) = true /\
                (j = n_me n -> is_state s <> ISOLATED -> is_state x <> ISOLATED)).
  { intros x E. subst x. split; [apply move_refl|auto]. }
  destruct e as [cnt now orcs|og cnt now|og st dg m insts now orcs|pl|og a ts now
                |og info now|og now|strat forced now orcs|now orcs|now orcs|m now orcs];
    try (eapply fsmP_graph; exact H).
  - apply SR_local_tick in H. destruct H as [H _]. apply lt_graph in H. destruct H as [H1 H2].
    split; [exact H1|]. intro E. apply H2. subst. apply Z.eqb_refl.
  - simpl in H. destruct (resolve n og) as [k|]; [|apply RF; exact H].
    destruct (local_checked_or_running n && (j =? k)); [|apply RF; exact H].
    subst s'. rewrite tick_state. destruct (tick_graph (is_state s)) as [T1 T2]. split; [exact T1|intros _; exact T2].
  - apply RF. exact H.
  - simpl in H. destruct (resolve n og) as [k|]; [|apply RF; exact H].
    destruct (j =? k) eqn:Ek; [|apply RF; exact H]. simpl in H.
    destruct (is_checking s ts) eqn:IC; [|apply RF; exact H].
    apply is_checking_state in IC. destruct IC as [IC _]. subst s'. rewrite ws_state, IC.
    split; [apply auth_graph|]. intros E _. apply Z.eqb_eq in Ek. subst k j. unfold auth_target.
    rewrite Z.eqb_refl. destruct a; discriminate.
  - simpl in H. destruct (resolve n og) as [k|]; [|apply RF; exact H].
    destruct info; [apply RF; exact H|]. destruct (j =? k); [|apply RF; exact H].
    destruct H as [H T]. subst s'. rewrite ws_state. split; [|intros; discriminate].
    apply table_move_ok. exact T.
  - simpl in H. destruct (resolve n og) as [k|]; [|apply RF; exact H].
    destruct (j =? k); simpl in H; [|apply RF; exact H].
    destruct (has_active_state (is_state s)) eqn:HA; [|apply RF; exact H].
    subst s'. rewrite ws_state. split; [apply failed_graph; exact HA|intros; discriminate].
Qed.

(* WFI is an invariant *)
Lemma step_LR : forall n e n' outs, WFI n -> step n e = Ok (n', outs) -> LR (SR n e) n n' /\ outs_ok n e outs.
Proof. intros n e n' outs [ND _] H. eapply step_SR; eassumption. Qed.

Lemma step_WFI : forall n e n' outs, WFI n -> step n e = Ok (n', outs) -> WFI n'.
Proof.
  intros n e n' outs W H. pose proof (step_LR _ _ _ _ W H) as [[A [B [C D]]] _].
  destruct W as [ND NI]. split; [rewrite C; exact ND|].
  rewrite A. intro X. apply inst_state_aget in X. destruct X as [s' [Hs' St']].
  destruct (aget (n_me n) (n_insts n)) as [s|] eqn:Hs.
  - destruct (D _ _ Hs) as [s2 [Hs2 R]]. rewrite Hs' in Hs2. inversion Hs2; subst s2.
    apply SR_graph in R. destruct R as [_ R]. apply (R eq_refl); [|exact St'].
    intro Y. apply NI. apply inst_state_aget. exists s. split; assumption.
  - apply aget_In_keys in Hs'. rewrite C in Hs'.
    assert (amem (n_me n) (n_insts n) = false) by (unfold amem; rewrite Hs; reflexivity).
    clear - Hs Hs'. induction (n_insts n) as [|[k v] r IH]; simpl in *; [contradiction|].
    destruct (n_me n =? k) eqn:E; [discriminate|]. destruct Hs' as [X|X]; [subst; rewrite Z.eqb_refl in E; discriminate|].
    apply IH; assumption.
Qed.

(* B1: each instance moves by one documented edge, or through FAILED to STOPPED / ISOLATED; the local instance is
   never ISOLATED *)
Theorem step_inst_graph : forall n e n' outs, WFI n -> step n e = Ok (n', outs) ->
  c07_graph (n_me n) (init_ist n) (init_ist n') = true.
Proof.
  intros n e n' outs W H. pose proof (step_LR _ _ _ _ W H) as [[A [B [C D]]] _].
  destruct W as [ND NI]. unfold c07_graph. apply forallb_init_ist; [exact ND|].
  intros j s Hs. rewrite ist_state_init. destruct (D _ _ Hs) as [s' [Hs' R]]. rewrite Hs'.
  apply SR_graph in R. destruct R as [R1 R2]. rewrite R1. simpl.
  destruct (j =? n_me n) eqn:E; [|reflexivity]. simpl. apply Z.eqb_eq in E. rewrite icode_is5.
  destruct (istate_eqb (is_state s') ISOLATED) eqn:X; [|reflexivity]. exfalso.
  apply istate_eqb_eq in X. apply (R2 E); [|exact X]. intro Y. apply NI. subst j.
  apply inst_state_aget. exists s. split; assumption.
Qed.

(* ---------- B2: isolation is permanent and airtight ---------- *)
Lemma fsm_stb_isolated : forall strict local af d, fsm_stb strict local af ISOLATED d = true -> d = ISOLATED.
Proof. intros strict local af d H. destruct d; simpl in H; first [reflexivity|discriminate H]. Qed.

Lemma resolve_other : forall n og k j s, resolve n og = Some k -> aget j (n_insts n) = Some s ->
  is_state s = ISOLATED -> (j =? k) = false.
Proof.
  intros n og k j s R Hs St. destruct (j =? k) eqn:E; [|reflexivity]. apply Z.eqb_eq in E. subst k.
  apply resolve_Some in R. destruct R as [_ [_ [s0 [H1 H2]]]]. rewrite Hs in H1. inversion H1; subst. contradiction.
Qed.

Lemma SR_isolated : forall n e j s s', j <> n_me n -> aget j (n_insts n) = Some s -> is_state s = ISOLATED ->
  SR n e j s s' ->
  is_state s' = ISOLATED /\ is_remote_cnt s' = is_remote_cnt s /\ is_local_cnt s' = is_local_cnt s.
Proof.
  intros n e j s s' NM Hs St H.
  assert (RF : s' = s -> is_state s' = ISOLATED /\ is_remote_cnt s' = is_remote_cnt s /\ is_local_cnt s' = is_local_cnt s).
  { intros E. subst s'. repeat split. exact St. }
  assert (FP : forall strict, fsmP strict (n_me n) (o_auto_fence (n_opts n)) j s s' ->
               is_state s' = ISOLATED /\ is_remote_cnt s' = is_remote_cnt s /\ is_local_cnt s' = is_local_cnt s).
  { intros strict [A [B [_ D]]]. rewrite St in D. apply fsm_stb_isolated in D. repeat split; assumption. }
  apply Z.eqb_neq in NM.
  destruct e as [cnt now orcs|og cnt now|og st dg m insts now orcs|pl|og a ts now
                |og info now|og now|strat forced now orcs|now orcs|now orcs|m now orcs];
    try (eapply FP; exact H).
  - apply SR_local_tick in H. unfold lt_local_cnt in H. rewrite NM, St in H. destruct H as [H1 [H2 H3]].
    unfold lt_state in H1. simpl in H1.
    assert (H1' : is_state s' = ISOLATED) by (destruct (is_state s'); first [reflexivity|discriminate H1]).
    repeat split; assumption.
  - simpl in H. destruct (resolve n og) as [k|] eqn:R; [|apply RF; exact H].
    rewrite (resolve_other _ _ _ _ _ R Hs St), andb_false_r in H. apply RF; exact H.
  - apply RF; exact H.
  - simpl in H. destruct (resolve n og) as [k|] eqn:R; [|apply RF; exact H].
    rewrite (resolve_other _ _ _ _ _ R Hs St) in H. apply RF; exact H.
  - simpl in H. destruct (resolve n og) as [k|] eqn:R; [|apply RF; exact H].
    rewrite (resolve_other _ _ _ _ _ R Hs St) in H. destruct info; apply RF; exact H.
  - simpl in H. destruct (resolve n og) as [k|] eqn:R; [|apply RF; exact H].
    rewrite (resolve_other _ _ _ _ _ R Hs St) in H. apply RF; exact H.
Qed.

Theorem isolated_frozen : forall n e n' outs, WFI n -> step n e = Ok (n', outs) ->
  c13_isolated_frozen (init_ist n) (init_ist n') outs = true.
Proof.
  intros n e n' outs W H. pose proof (step_LR _ _ _ _ W H) as [[A [B [C D]]] OK].
  destruct W as [ND NI]. unfold c13_isolated_frozen. apply forallb_init_ist; [exact ND|].
  intros j s Hs. rewrite icode_is5. destruct (istate_eqb (is_state s) ISOLATED) eqn:St; [|reflexivity].
  apply istate_eqb_eq in St. simpl.
  assert (NM : j <> n_me n).
  { intro E. apply NI. subst j. apply inst_state_aget. exists s. split; assumption. }
  rewrite ist_entry_init. destruct (D _ _ Hs) as [s' [Hs' R]]. rewrite Hs'.
  apply (SR_isolated _ _ _ _ _ NM Hs St) in R. destruct R as [R1 [R2 R3]].
  rewrite R1, R2, R3, !Z.eqb_refl. simpl.
  destruct (existsb _ outs) eqn:X; [|reflexivity]. exfalso.
  apply existsb_exists in X. destruct X as [o [I E]]. destruct o; try discriminate E.
  apply Z.eqb_eq in E. subst j0. apply OK in I. destruct I as [I _].
  apply inst_state_aget in I. destruct I as [s0 [H1 H2]]. rewrite Hs in H1. inversion H1; subst. congruence.
Qed.

(* ---------- B3: the handshake fences ---------- *)
(* (c13_auth takes the local identifier: a NOT_AUTHORIZED / INCONSISTENT answer about the local instance itself
   puts it to STOPPED, never to ISOLATED — Context.invalidate.) *)
Theorem auth_rules : forall n e n' outs, WFI n -> step n e = Ok (n', outs) ->
  c13_auth (n_me n) e (init_ist n) (init_ist n') = true.
Proof.
  intros n e n' outs W H. pose proof (step_LR _ _ _ _ W H) as [[A [B [C D]]] _].
  destruct e as [cnt now orcs|og cnt now|og st dg m insts now orcs|pl|og a ts now
                |og info now|og now|strat forced now orcs|now orcs|now orcs|m now orcs]; try reflexivity.
  unfold c13_auth. destruct (og_addr_ok og) eqn:AO; [|reflexivity].
  destruct (og_resolved og) as [j|] eqn:OR; [|reflexivity].
  rewrite ist_entry_init, ist_state_init.
  destruct (aget j (n_insts n)) as [s|] eqn:Hs; [|reflexivity].
  destruct (D _ _ Hs) as [s' [Hs' R]]. rewrite Hs'.
  simpl in R. rewrite (resolve_of _ _ _ _ OR AO Hs) in R.
  rewrite icode_is5, icode_is1.
  destruct (istate_eqb (is_state s) ISOLATED) eqn:I.
  - subst s'. rewrite icode_is5. exact I.
  - rewrite Z.eqb_refl in R. simpl in R. unfold is_checking in R.
    destruct (istate_eqb (is_state s) CHECKING && (is_checking_time s <? ts)).
    + subst s'. rewrite ws_state. unfold auth_target.
      destruct a; try destruct (j =? n_me n); vm_compute; reflexivity.
    + subst s'. apply Z.eqb_refl.
Qed.

(* ---------- B4: detection (completeness, accuracy, fencing) ---------- *)
(* Premise of B4: the sequence counter of the local TICK does not go backwards (SupvisorsTimes.update: "stealth
   restart ... only for remote, cannot happen with local"). Without it the accuracy clause is false for the local
   instance: the model (as the code) resets its local tag to 0 and declares itself FAILED
   (see detection_needs_tick_sane below). *)
Definition tick_sane (n : node) (e : event) : bool :=
  match e with LocalTick cnt _ _ => local_cnt n <=? cnt | _ => true end.

Definition act_code (s : Z) : bool := (s =? 1) || (s =? 2) || (s =? 3) || (s =? 4).

Lemma lt_detect : forall local b af a d, fsm_stb true local af (lt_state local b a) d = true ->
  (if act_code (icode a) && b then (icode d =? 0) || (icode d =? 5) else negb (icode a =? 3) || (icode d =? 3))
  && ((icode a =? 5) || negb (icode d =? 5) || af || false) = true.
Proof.
  intros local b af a d. destruct a, d, local, b, af; vm_compute; intro H; first [discriminate H | reflexivity].
Qed.

Lemma fsm_detect : forall strict local af a d x, fsm_stb strict local af a d = true ->
  (negb (icode a =? 3) || (icode d =? 3)) && ((icode a =? 5) || negb (icode d =? 5) || af || x) = true.
Proof.
  intros strict local af a d x. destruct a, d, strict, local, af; vm_compute; intro H;
    first [discriminate H | reflexivity].
Qed.

Lemma same_detect : forall a y af x,
  (negb (icode a =? 3) || (icode a =? 3) || y) && ((icode a =? 5) || negb (icode a =? 5) || af || x) = true.
Proof. intros a y af x. destruct a; vm_compute; reflexivity. Qed.

Lemma same_detect' : forall a af x,
  (negb (icode a =? 3) || (icode a =? 3)) && ((icode a =? 5) || negb (icode a =? 5) || af || x) = true.
Proof. intros a af x. destruct a; vm_compute; reflexivity. Qed.

Lemma tick_detect : forall a af x, let d := if istate_eqb a ISTOPPED then CHECKING else a in
  (negb (icode a =? 3) || (icode d =? 3)) && ((icode a =? 5) || negb (icode d =? 5) || af || x) = true.
Proof. intros a af x. destruct a; vm_compute; reflexivity. Qed.

Lemma not_running_detect : forall a d af x, a <> IRUNNING -> d <> ISOLATED ->
  (negb (icode a =? 3) || (icode d =? 3)) && ((icode a =? 5) || negb (icode d =? 5) || af || x) = true.
Proof.
  intros a d af x H1 H2. destruct a, d; try congruence; vm_compute; reflexivity.
Qed.

Lemma running_not_stopped : inst_transition_ok IRUNNING ISTOPPED = false.
Proof. vm_compute. reflexivity. Qed.

Definition detect_body (me inactivity : Z) (auto_fence : bool) (e : event) (j s c s' : Z) : bool :=
  let active := Z.eqb s 1 || Z.eqb s 2 || Z.eqb s 3 || Z.eqb s 4 in
  match e with
  | LocalTick cnt _ _ =>
      let cj := if Z.eqb j me then cnt else c in
      if active && Z.ltb inactivity (cnt - cj) then (Z.eqb s' 0 || Z.eqb s' 5)
      else (negb (Z.eqb s 3) || Z.eqb s' 3)
  | InstFailure og _ =>
      negb (Z.eqb s 3) || Z.eqb s' 3
      || (match (if og_addr_ok og then og_resolved og else None) with Some k => Z.eqb k j | None => false end)
  | _ => negb (Z.eqb s 3) || Z.eqb s' 3
  end
  && (Z.eqb s 5 || negb (Z.eqb s' 5) || auto_fence
      || match e with Auth _ _ _ _ => true | _ => false end).

Lemma c07_detection_body : forall me inact af e before after,
  c07_detection me inact af e before after =
  forallb (fun t => match t with (j, s, _, c, _) =>
             match ist_state j after with None => false | Some s' => detect_body me inact af e j s c s' end end) before.
Proof. reflexivity. Qed.

Lemma fsmP_detect : forall strict me af j s s' x, fsmP strict me af j s s' ->
  (negb (icode (is_state s) =? 3) || (icode (is_state s') =? 3))
  && ((icode (is_state s) =? 5) || negb (icode (is_state s') =? 5) || af || x) = true.
Proof. intros strict me af j s s' x [_ [_ [_ H]]]. eapply fsm_detect. exact H. Qed.

Lemma SR_detect : forall n e j s s', (j = n_me n -> tick_sane n e = true) -> aget j (n_insts n) = Some s ->
  SR n e j s s' ->
  detect_body (n_me n) (o_inactivity (n_opts n)) (o_auto_fence (n_opts n)) e j
              (icode (is_state s)) (is_local_cnt s) (icode (is_state s')) = true.
Proof.
  intros n e j s s' TS Hs H.
  destruct e as [cnt now orcs|og cnt now|og st dg m insts now orcs|pl|og a ts now
                |og info now|og now|strat forced now orcs|now orcs|now orcs|m now orcs];
    try (unfold detect_body; eapply fsmP_detect; exact H).
  - (* LocalTick *)
    apply SR_local_tick in H. destruct H as [H _]. apply lt_detect in H. unfold detect_body.
    assert (E : lt_local_cnt (n_me n) j s cnt = if j =? n_me n then cnt else is_local_cnt s).
    { unfold lt_local_cnt. destruct (j =? n_me n) eqn:Ej; [|reflexivity]. apply Z.eqb_eq in Ej.
      specialize (TS Ej). subst j. simpl in TS. unfold local_cnt in TS. rewrite Hs in TS. apply Z.leb_le in TS.
      destruct (cnt <? is_remote_cnt s) eqn:X; [|reflexivity]. apply Z.ltb_lt in X. lia. }
    rewrite E in H. exact H.
  - (* PeerTick *)
    unfold detect_body. simpl in H.
    destruct (resolve n og) as [k|]; [|subst s'; apply same_detect'].
    destruct (local_checked_or_running n && (j =? k)); [|subst s'; apply same_detect'].
    subst s'. rewrite tick_state. apply tick_detect.
  - (* Ident *)
    unfold detect_body. simpl in H. subst s'. apply same_detect'.
  - (* Auth *)
    unfold detect_body. simpl in H.
    destruct (resolve n og) as [k|]; [|subst s'; apply same_detect'].
    destruct (j =? k); simpl in H; [|subst s'; apply same_detect'].
    destruct (is_checking s ts) eqn:IC; [|subst s'; apply same_detect'].
    apply is_checking_state in IC. destruct IC as [IC _]. rewrite IC.
    rewrite !orb_true_r. destruct (is_state s'); vm_compute; reflexivity.
  - (* AllInfo *)
    unfold detect_body. simpl in H.
    destruct (resolve n og) as [k|]; [|subst s'; apply same_detect'].
    destruct info; [subst s'; apply same_detect'|].
    destruct (j =? k); [|subst s'; apply same_detect'].
    destruct H as [H T]. subst s'. rewrite ws_state. apply not_running_detect; [|discriminate].
    intro X. rewrite X in T. rewrite running_not_stopped in T. destruct T; discriminate.
  - (* InstFailure *)
    unfold detect_body. simpl in H.
    destruct (resolve n og) as [k|] eqn:R; [|subst s'; apply same_detect].
    destruct (j =? k) eqn:Ek; simpl in H; [|subst s'; apply same_detect].
    destruct (has_active_state (is_state s)) eqn:HA; [|subst s'; apply same_detect].
    apply resolve_Some in R. destruct R as [R1 [R2 _]]. rewrite R2, R1, (Z.eqb_sym k j), Ek.
    subst s'. rewrite ws_state, !orb_true_r. simpl.
    destruct (is_state s); vm_compute; reflexivity.
Qed.

Theorem detection : forall n e n' outs, WFI n -> tick_sane n e = true -> step n e = Ok (n', outs) ->
  c07_detection (n_me n) (o_inactivity (n_opts n)) (o_auto_fence (n_opts n)) e (init_ist n) (init_ist n') = true.
Proof.
  intros n e n' outs W TS H. pose proof (step_LR _ _ _ _ W H) as [[A [B [C D]]] _].
  destruct W as [ND NI]. rewrite c07_detection_body. apply forallb_init_ist; [exact ND|].
  intros j s Hs. rewrite ist_state_init. destruct (D _ _ Hs) as [s' [Hs' R]]. rewrite Hs'.
  eapply SR_detect; try eassumption. intros _. exact TS.
Qed.

(* ---------- B4, alternative without premise: the exact clause for the local instance ---------- *)
(* Same checker as NodeSpec.c07_detection, except that at a local tick the tag taken for the LOCAL instance is what
   SupvisorsTimes.update really stores: the tick's counter, or 0 when this counter is lower than the stored one
   (r = the remote counter of the row before the event). With it the detection clause holds for every event, with
   no premise on the local counter; both checkers coincide when the local counter does not go backwards. *)
Definition detect_body_exact (me inactivity : Z) (auto_fence : bool) (e : event) (j s r c s' : Z) : bool :=
  let active := Z.eqb s 1 || Z.eqb s 2 || Z.eqb s 3 || Z.eqb s 4 in
  match e with
  | LocalTick cnt _ _ =>
      let cj := if Z.eqb j me then (if Z.ltb cnt r then 0 else cnt) else c in
      if active && Z.ltb inactivity (cnt - cj) then (Z.eqb s' 0 || Z.eqb s' 5)
      else (negb (Z.eqb s 3) || Z.eqb s' 3)
  | InstFailure og _ =>
      negb (Z.eqb s 3) || Z.eqb s' 3
      || (match (if og_addr_ok og then og_resolved og else None) with Some k => Z.eqb k j | None => false end)
  | _ => negb (Z.eqb s 3) || Z.eqb s' 3
  end
  && (Z.eqb s 5 || negb (Z.eqb s' 5) || auto_fence
      || match e with Auth _ _ _ _ => true | _ => false end).

Definition c07_detection_exact (me inactivity : Z) (auto_fence : bool) (e : event)
                               (before after : list (Z * Z * Z * Z * Z)) : bool :=
  forallb (fun t => match t with (j, s, r, c, _) =>
             match ist_state j after with
             | None => false
             | Some s' => detect_body_exact me inactivity auto_fence e j s r c s'
             end end) before.

Lemma SR_detect_exact : forall n e j s s', aget j (n_insts n) = Some s -> SR n e j s s' ->
  detect_body_exact (n_me n) (o_inactivity (n_opts n)) (o_auto_fence (n_opts n)) e j
                    (icode (is_state s)) (is_remote_cnt s) (is_local_cnt s) (icode (is_state s')) = true.
Proof.
  intros n e j s s' Hs H.
  destruct e as [cnt now orcs|og cnt now|og st dg m insts now orcs|pl|og a ts now
                |og info now|og now|strat forced now orcs|now orcs|now orcs|m now orcs];
    try (match goal with |- detect_body_exact ?me ?i ?af ?e ?j ?s ?r ?c ?s' = true =>
           change (detect_body me i af e j s c s' = true) end;
         apply SR_detect; [intros _; reflexivity|exact Hs|exact H]).
  apply SR_local_tick in H. destruct H as [H _]. apply lt_detect in H. exact H.
Qed.

Theorem detection_exact : forall n e n' outs, WFI n -> step n e = Ok (n', outs) ->
  c07_detection_exact (n_me n) (o_inactivity (n_opts n)) (o_auto_fence (n_opts n)) e (init_ist n) (init_ist n') = true.
Proof.
  intros n e n' outs W H. pose proof (step_LR _ _ _ _ W H) as [[A [B [C D]]] _].
  destruct W as [ND NI]. unfold c07_detection_exact. apply forallb_init_ist; [exact ND|].
  intros j s Hs. rewrite ist_state_init. destruct (D _ _ Hs) as [s' [Hs' R]]. rewrite Hs'.
  eapply SR_detect_exact; eassumption.
Qed.

(* the two checkers agree on a row whenever the local counter does not go backwards *)
Lemma detect_body_exact_agrees : forall me inact af e j s r c s',
  match e with LocalTick cnt _ _ => j = me -> r <= cnt | _ => True end ->
  detect_body_exact me inact af e j s r c s' = detect_body me inact af e j s c s'.
Proof.
  intros me inact af e j s r c s' H. destruct e; try reflexivity.
  unfold detect_body_exact, detect_body. destruct (j =? me) eqn:E; [|reflexivity].
  apply Z.eqb_eq in E. specialize (H E). destruct (cnt <? r) eqn:X; [apply Z.ltb_lt in X; lia|reflexivity].
Qed.

(* ====================================================================== *)
(* Whole histories                                                         *)
(* ====================================================================== *)

(* the node reached after a history (the fold of step) *)
Fixpoint run_state (n : node) (evs : list event) : result node :=
  match evs with
  | [] => Ok n
  | e :: r => match step n e with Ok (n', _) => run_state n' r | Crash k => Crash k end
  end.

(* a boolean hypothesis on (state before the event, event), checked along the run *)
Fixpoint run_all (h : node -> event -> bool) (n : node) (evs : list event) : bool :=
  match evs with
  | [] => true
  | e :: r => h n e && match step n e with Ok (n', _) => run_all h n' r | Crash _ => true end
  end.

Lemma step_fixed : forall n e n' outs, WFI n -> step n e = Ok (n', outs) ->
  n_me n' = n_me n /\ n_opts n' = n_opts n.
Proof.
  intros n e n' outs W H. pose proof (step_LR _ _ _ _ W H) as [[A [B _]] _]. split; assumption.
Qed.

Lemma run_state_WFI : forall evs n n', WFI n -> run_state n evs = Ok n' ->
  WFI n' /\ n_me n' = n_me n /\ n_opts n' = n_opts n.
Proof.
  induction evs as [|e r IH]; simpl; intros n n' W H.
  - inversion H; subst. repeat split; [apply W|apply W].
  - destruct (step n e) as [[n1 o1]|k] eqn:E; [|discriminate].
    destruct (step_fixed _ _ _ _ W E) as [A B]. apply step_WFI in E; [|exact W].
    destruct (IH _ _ E H) as [W' [A' B']]. split; [exact W'|]. split; congruence.
Qed.

Lemma run_state_app : forall evs1 evs2 n, run_state n (evs1 ++ evs2) =
  match run_state n evs1 with Ok n1 => run_state n1 evs2 | Crash k => Crash k end.
Proof.
  induction evs1 as [|e r IH]; simpl; intros evs2 n; [reflexivity|].
  destruct (step n e) as [[n1 o1]|k]; [apply IH|reflexivity].
Qed.

Lemma run_all_app : forall h evs1 evs2 n, run_all h n (evs1 ++ evs2) = true ->
  run_all h n evs1 = true /\ forall n1, run_state n evs1 = Ok n1 -> run_all h n1 evs2 = true.
Proof.
  intros h. induction evs1 as [|e r IH]; simpl; intros evs2 n H.
  - split; [reflexivity|]. intros n1 E. inversion E; subst. exact H.
  - apply andb_prop in H. destruct H as [H1 H2]. rewrite H1. simpl.
    destruct (step n e) as [[n1 o1]|k]; [apply IH; exact H2|]. split; [reflexivity|discriminate].
Qed.

(* ---------- ISOLATED is final; the local instance is never ISOLATED ---------- *)
Lemma step_isolated : forall n e n' outs j, WFI n -> inst_state n j = Some ISOLATED ->
  step n e = Ok (n', outs) -> inst_state n' j = Some ISOLATED.
Proof.
  intros n e n' outs j W I H. pose proof (step_LR _ _ _ _ W H) as [[A [B [C D]]] _].
  apply inst_state_aget in I. destruct I as [s [Hs St]]. destruct (D _ _ Hs) as [s' [Hs' R]].
  apply SR_isolated in R; try assumption.
  - apply inst_state_aget. exists s'. split; [exact Hs'|apply R].
  - intro E. destruct W as [_ NI]. apply NI. subst j. apply inst_state_aget. exists s. split; assumption.
Qed.

Theorem isolated_absorbing : forall n evs j, WFI n -> inst_state n j = Some ISOLATED ->
  forall n', run_state n evs = Ok n' -> inst_state n' j = Some ISOLATED.
Proof.
  intros n evs. revert n. induction evs as [|e r IH]; simpl; intros n j W I n' H.
  - inversion H; subst. exact I.
  - destruct (step n e) as [[n1 o1]|k] eqn:E; [|discriminate].
    eapply IH; [eapply step_WFI; eassumption| |exact H]. eapply step_isolated; eassumption.
Qed.

Theorem local_never_isolated : forall n evs n', WFI n -> run_state n evs = Ok n' ->
  inst_state n' (n_me n) <> Some ISOLATED.
Proof.
  intros n evs n' W H. destruct (run_state_WFI _ _ _ W H) as [[_ NI] [A _]]. rewrite <- A. exact NI.
Qed.

(* ---------- C13 / C07 on whole histories ---------- *)
Lemma walk_c13_cons : forall n0 pf pm pi e re o ro,
  nspec_walk fl_c13 n0 pf pm pi (e :: re) (NOk o :: ro) =
  c13_isolated_frozen pi (obs_ist o) (obs_outs o) && c13_auth (n_me n0) e pi (obs_ist o)
  && nspec_walk fl_c13 n0 (obs_fsm o) (obs_master o) (obs_ist o) re ro.
Proof. intros. simpl. rewrite !andb_true_r. reflexivity. Qed.

Lemma walk_c07_cons : forall n0 pf pm pi e re o ro,
  nspec_walk fl_c07 n0 pf pm pi (e :: re) (NOk o :: ro) =
  c07_graph (n_me n0) pi (obs_ist o)
  && c07_detection (n_me n0) (o_inactivity (n_opts n0)) (o_auto_fence (n_opts n0)) e pi (obs_ist o)
  && nspec_walk fl_c07 n0 (obs_fsm o) (obs_master o) (obs_ist o) re ro.
Proof. intros. simpl. rewrite !andb_true_r. reflexivity. Qed.

Lemma walk_c13 : forall evs n n0 pf pm, WFI n -> n_me n0 = n_me n ->
  nspec_walk fl_c13 n0 pf pm (init_ist n) evs (run n evs) = true.
Proof.
  induction evs as [|e r IH]; intros n n0 pf pm W A; [reflexivity|].
  change (run n (e :: r)) with (match step n e with
                                | Ok (n', outs) => NOk (observe n' outs) :: run n' r
                                | Crash k => [NCrash k] end).
  destruct (step n e) as [[n1 o1]|k] eqn:E; [|reflexivity].
  rewrite walk_c13_cons, obs_ist_observe, obs_outs_observe. rewrite A.
  rewrite (isolated_frozen _ _ _ _ W E), (auth_rules _ _ _ _ W E). simpl.
  destruct (step_fixed _ _ _ _ W E) as [A1 _].
  apply IH; [eapply step_WFI; eassumption|congruence].
Qed.

Lemma walk_c07 : forall evs n n0 pf pm, WFI n -> n_me n0 = n_me n -> n_opts n0 = n_opts n ->
  run_all tick_sane n evs = true ->
  nspec_walk fl_c07 n0 pf pm (init_ist n) evs (run n evs) = true.
Proof.
  induction evs as [|e r IH]; intros n n0 pf pm W A B H; [reflexivity|].
  simpl in H. apply andb_prop in H. destruct H as [H1 H2].
  change (run n (e :: r)) with (match step n e with
                                | Ok (n', outs) => NOk (observe n' outs) :: run n' r
                                | Crash k => [NCrash k] end).
  destruct (step n e) as [[n1 o1]|k] eqn:E; [|reflexivity].
  rewrite walk_c07_cons, obs_ist_observe. rewrite A, B.
  rewrite (step_inst_graph _ _ _ _ W E), (detection _ _ _ _ W H1 E). simpl.
  destruct (step_fixed _ _ _ _ W E) as [A1 B1].
  apply IH; [eapply step_WFI; eassumption|congruence|congruence|exact H2].
Qed.

(* C13 (node level) on every history *)
Theorem run_c13 : forall n evs, WFI n -> nspec_ok fl_c13 (n, evs, run n evs) = true.
Proof. intros n evs W. unfold nspec_ok. apply walk_c13; [exact W|reflexivity]. Qed.

(* C07 on every history, under the hypothesis that the local TICK counter never goes backwards *)
Theorem run_c07 : forall n evs, WFI n -> run_all tick_sane n evs = true ->
  nspec_ok fl_c07 (n, evs, run n evs) = true.
Proof. intros n evs W H. unfold nspec_ok. apply walk_c07; try assumption; reflexivity. Qed.

(* an event-only sufficient condition for the C07 hypothesis: no TICK claims to come from the local instance,
   and the local counters are non-decreasing, starting above the stored one *)
Fixpoint ticks_monotone (me last : Z) (evs : list event) : bool :=
  match evs with
  | [] => true
  | LocalTick cnt _ _ :: r => (last <=? cnt) && ticks_monotone me cnt r
  | PeerTick og _ _ :: r => negb (option_eqb Z.eqb (og_resolved og) (Some me)) && ticks_monotone me last r
  | _ :: r => ticks_monotone me last r
  end.

(* ---------- the counters of an instance after one event ---------- *)
Definition peer_tick_hits (n : node) (og : origin) (j : Z) : bool :=
  match resolve n og with Some k => local_checked_or_running n && (j =? k) | None => false end.

Lemma SR_counters : forall n e j s s', SR n e j s s' ->
  match e with
  | LocalTick cnt _ _ =>
      is_remote_cnt s' = (if j =? n_me n then cnt else is_remote_cnt s) /\
      is_local_cnt s' = lt_local_cnt (n_me n) j s cnt
  | PeerTick og cnt _ =>
      if peer_tick_hits n og j
      then is_remote_cnt s' = cnt /\
           is_local_cnt s' = (if cnt <? is_remote_cnt s then 0 else if local_cnt n <? 0 then cnt else local_cnt n)
      else is_remote_cnt s' = is_remote_cnt s /\ is_local_cnt s' = is_local_cnt s
  | _ => is_remote_cnt s' = is_remote_cnt s /\ is_local_cnt s' = is_local_cnt s
  end.
Proof.
  intros n e j s s' H.
  assert (RF : s' = s -> is_remote_cnt s' = is_remote_cnt s /\ is_local_cnt s' = is_local_cnt s)
    by (intro E; subst; split; reflexivity).
  assert (WS : forall st now, s' = with_state s st now ->
               is_remote_cnt s' = is_remote_cnt s /\ is_local_cnt s' = is_local_cnt s)
    by (intros st now E; subst; rewrite ws_remote, ws_local; split; reflexivity).
  destruct e as [cnt now orcs|og cnt now|og st dg m insts now orcs|pl|og a ts now
                |og info now|og now|strat forced now orcs|now orcs|now orcs|m now orcs];
    try (split; apply H).
  - apply SR_local_tick in H. destruct H as [_ H]. exact H.
  - simpl in H. unfold peer_tick_hits. destruct (resolve n og) as [k|]; [|apply RF; exact H].
    destruct (local_checked_or_running n && (j =? k)); [|apply RF; exact H].
    subst s'. rewrite tick_remote, tick_local. split; reflexivity.
  - apply RF. exact H.
  - simpl in H. destruct (resolve n og) as [k|]; [|apply RF; exact H].
    destruct ((j =? k) && is_checking s ts); [eapply WS; exact H|apply RF; exact H].
  - simpl in H. destruct (resolve n og) as [k|]; [|apply RF; exact H].
    destruct info; [apply RF; exact H|]. destruct (j =? k); [|apply RF; exact H].
    destruct H as [H _]. eapply WS; exact H.
  - simpl in H. destruct (resolve n og) as [k|]; [|apply RF; exact H].
    destruct ((j =? k) && has_active_state (is_state s)); [eapply WS; exact H|apply RF; exact H].
Qed.

Lemma aget_None_keys {V} : forall k (l : alist V), aget k l = None <-> ~ In k (akeys l).
Proof.
  intros k l. induction l as [|[k' v] r IH]; simpl; [tauto|].
  destruct (k =? k') eqn:E.
  - apply Z.eqb_eq in E. subst. split; [discriminate|]. intro H. exfalso. apply H. left. reflexivity.
  - apply Z.eqb_neq in E. rewrite IH. split; intro H; [intros [X|X]; [congruence|contradiction]|tauto].
Qed.

Lemma step_local_cnt : forall n e n' outs, WFI n -> step n e = Ok (n', outs) ->
  local_cnt n' = match e with
                 | LocalTick cnt _ _ => cnt
                 | PeerTick og cnt _ => if peer_tick_hits n og (n_me n) then cnt else local_cnt n
                 | _ => local_cnt n
                 end.
Proof.
  intros n e n' outs W H. pose proof (step_LR _ _ _ _ W H) as [[A [B [C D]]] _].
  unfold local_cnt. rewrite A.
  destruct (aget (n_me n) (n_insts n)) as [s|] eqn:Hs.
  - destruct (D _ _ Hs) as [s' [Hs' R]]. rewrite Hs'. apply SR_counters in R.
    destruct e; try (destruct R as [R _]; exact R).
    + rewrite Z.eqb_refl in R. destruct R as [R _]. exact R.
    + destruct (peer_tick_hits n og (n_me n)); destruct R as [R _]; exact R.
  - assert (N : aget (n_me n) (n_insts n') = None).
    { apply aget_None_keys. rewrite C. apply aget_None_keys. exact Hs. }
    rewrite N. destruct e; try reflexivity.
    + simpl in H. rewrite Hs in H. discriminate.
    + unfold peer_tick_hits. destruct (resolve n og) as [k|] eqn:R; [|reflexivity].
      destruct (n_me n =? k) eqn:E; [|rewrite andb_false_r; reflexivity].
      apply Z.eqb_eq in E. subst k. apply resolve_Some in R. destruct R as [_ [_ [s [X _]]]]. congruence.
Qed.

Lemma ticks_monotone_sane : forall evs n last, WFI n -> local_cnt n <= last ->
  ticks_monotone (n_me n) last evs = true -> run_all tick_sane n evs = true.
Proof.
  induction evs as [|e r IH]; intros n last W L H; [reflexivity|].
  simpl. assert (G : tick_sane n e = true /\
                     forall n1 o1, step n e = Ok (n1, o1) -> run_all tick_sane n1 r = true).
  { destruct e; simpl in H;
      try (split; [reflexivity|]; intros n1 o1 E; pose proof (step_local_cnt _ _ _ _ W E) as LC;
           destruct (step_fixed _ _ _ _ W E) as [A _];
           apply (IH n1 last); [eapply step_WFI; eassumption|simpl in LC; lia|rewrite A; exact H]).
    - apply andb_prop in H. destruct H as [H1 H2]. apply Z.leb_le in H1. split; [simpl; apply Z.leb_le; lia|].
      intros n1 o1 E. pose proof (step_local_cnt _ _ _ _ W E) as LC. destruct (step_fixed _ _ _ _ W E) as [A _].
      apply (IH n1 cnt); [eapply step_WFI; eassumption|simpl in LC; lia|rewrite A; exact H2].
    - apply andb_prop in H. destruct H as [H1 H2]. split; [reflexivity|].
      intros n1 o1 E. pose proof (step_local_cnt _ _ _ _ W E) as LC. destruct (step_fixed _ _ _ _ W E) as [A _].
      apply (IH n1 last); [eapply step_WFI; eassumption| |rewrite A; exact H2].
      simpl in LC. unfold peer_tick_hits in LC. destruct (resolve n og) as [k|] eqn:R; [|lia].
      destruct (n_me n =? k) eqn:Ek; [|rewrite andb_false_r in LC; lia].
      apply Z.eqb_eq in Ek. subst k. apply resolve_Some in R. destruct R as [R _]. rewrite R in H1.
      simpl in H1. rewrite Z.eqb_refl in H1. discriminate. }
  destruct G as [G1 G2]. rewrite G1. simpl. destruct (step n e) as [[n1 o1]|k] eqn:E; [|reflexivity].
  eapply G2. reflexivity.
Qed.

Theorem run_c07_monotone : forall n evs last, WFI n -> local_cnt n <= last ->
  ticks_monotone (n_me n) last evs = true -> nspec_ok fl_c07 (n, evs, run n evs) = true.
Proof. intros n evs last W L H. apply run_c07; [exact W|]. eapply ticks_monotone_sane; eassumption. Qed.

(* ====================================================================== *)
(* B5. Accuracy in the property's own wording                              *)
(* ====================================================================== *)

(* what "peer j is alive" means at each event of the run:
   (i) no XML-RPC failure is notified for it; (ii) at every local tick its last TICK is recent enough *)
Definition live_hyp (j : Z) (n : node) (e : event) : bool :=
  match e with
  | LocalTick cnt _ _ =>
      match aget j (n_insts n) with
      | Some s => cnt - is_local_cnt s <=? o_inactivity (n_opts n)
      | None => true
      end
  | InstFailure og _ => match resolve n og with Some k => negb (k =? j) | None => true end
  | _ => true
  end.

Lemma live_step : forall n e n' outs j, WFI n -> j <> n_me n -> inst_state n j = Some IRUNNING ->
  live_hyp j n e = true -> step n e = Ok (n', outs) -> inst_state n' j = Some IRUNNING.
Proof.
  intros n e n' outs j W NM RU LH H. pose proof (step_LR _ _ _ _ W H) as [[A [B [C D]]] _].
  apply inst_state_aget in RU. destruct RU as [s [Hs St]]. destruct (D _ _ Hs) as [s' [Hs' R]].
  apply inst_state_aget. exists s'. split; [exact Hs'|].
  assert (TS : j = n_me n -> tick_sane n e = true) by (intro X; contradiction).
  pose proof (SR_detect _ _ _ _ _ TS Hs R) as DB. unfold detect_body in DB.
  apply andb_prop in DB. destruct DB as [DB _]. rewrite St in DB.
  assert (FIN : negb (icode IRUNNING =? 3) || (icode (is_state s') =? 3) = true -> is_state s' = IRUNNING).
  { rewrite !icode_is3. simpl. intro X. apply istate_eqb_eq. exact X. }
  destruct e; try (apply FIN; exact DB).
  - (* LocalTick *)
    simpl in LH. rewrite Hs in LH. apply Z.leb_le in LH. apply Z.eqb_neq in NM. rewrite NM in DB.
    assert (X : (o_inactivity (n_opts n) <? cnt - is_local_cnt s) = false) by (apply Z.ltb_ge; lia).
    rewrite X, andb_false_r in DB. apply FIN. exact DB.
  - (* InstFailure *)
    simpl in LH.
    destruct (og_addr_ok og) eqn:AO; [|rewrite orb_false_r in DB; apply FIN; exact DB].
    destruct (og_resolved og) as [k|] eqn:OR; [|rewrite orb_false_r in DB; apply FIN; exact DB].
    destruct (k =? j) eqn:Ek; [|rewrite orb_false_r in DB; apply FIN; exact DB].
    apply Z.eqb_eq in Ek. subst k. rewrite (resolve_of _ _ _ _ OR AO Hs), St in LH. simpl in LH.
    rewrite Z.eqb_refl in LH. discriminate.
Qed.

(* A peer seen RUNNING whose TICKs keep arriving and whose XML-RPCs succeed stays RUNNING after every event *)
Theorem live_peer_never_lost : forall j evs n, WFI n -> j <> n_me n -> inst_state n j = Some IRUNNING ->
  run_all (live_hyp j) n evs = true ->
  forall evs1 evs2 n', evs = evs1 ++ evs2 -> run_state n evs1 = Ok n' -> inst_state n' j = Some IRUNNING.
Proof.
  intros j evs n W NM RU LH evs1 evs2 n' E H. subst evs. apply run_all_app in LH. destruct LH as [LH _].
  clear evs2. revert n W NM RU LH H. induction evs1 as [|e r IH]; simpl; intros n W NM RU LH H.
  - inversion H; subst. exact RU.
  - apply andb_prop in LH. destruct LH as [L1 L2].
    destruct (step n e) as [[n1 o1]|k] eqn:E; [|discriminate].
    destruct (step_fixed _ _ _ _ W E) as [A _].
    apply (IH n1); [eapply step_WFI; eassumption|congruence|eapply live_step; eassumption|exact L2|exact H].
Qed.

(* ====================================================================== *)
(* B6. The window formulation                                              *)
(* ====================================================================== *)

(* A TICK of peer j taken into account while the local counter is c0 tags j with c0 — unless its own counter
   went backwards (stealth restart: "has not restarted"), in which case the tag is reset to 0 *)
Lemma peer_tick_tags : forall n og rc now n' o j s, WFI n -> step n (PeerTick og rc now) = Ok (n', o) ->
  resolve n og = Some j -> local_checked_or_running n = true -> aget j (n_insts n) = Some s ->
  exists s', aget j (n_insts n') = Some s' /\ is_remote_cnt s' = rc /\
    is_local_cnt s' = (if rc <? is_remote_cnt s then 0 else if local_cnt n <? 0 then rc else local_cnt n).
Proof.
  intros n og rc now n' o j s W H R LC Hs. pose proof (step_LR _ _ _ _ W H) as [[A [B [C D]]] _].
  destruct (D _ _ Hs) as [s' [Hs' X]]. exists s'. split; [exact Hs'|]. apply SR_counters in X.
  unfold peer_tick_hits in X. rewrite R, LC, Z.eqb_refl in X. exact X.
Qed.

Corollary peer_tick_tags_live : forall n og rc now n' o j s, WFI n -> step n (PeerTick og rc now) = Ok (n', o) ->
  resolve n og = Some j -> local_checked_or_running n = true -> aget j (n_insts n) = Some s ->
  is_remote_cnt s <= rc -> 0 <= local_cnt n ->
  exists s', aget j (n_insts n') = Some s' /\ is_local_cnt s' = local_cnt n.
Proof.
  intros n og rc now n' o j s W H R LC Hs NR NN.
  destruct (peer_tick_tags _ _ _ _ _ _ _ _ W H R LC Hs) as [s' [Hs' [_ T]]]. exists s'. split; [exact Hs'|].
  rewrite T. destruct (rc <? is_remote_cnt s) eqn:X; [apply Z.ltb_lt in X; lia|].
  destruct (local_cnt n <? 0) eqn:Y; [apply Z.ltb_lt in Y; lia|reflexivity].
Qed.

Corollary stealth_restart_resets_tag : forall n og rc now n' o j s, WFI n -> step n (PeerTick og rc now) = Ok (n', o) ->
  resolve n og = Some j -> local_checked_or_running n = true -> aget j (n_insts n) = Some s ->
  rc < is_remote_cnt s ->
  exists s', aget j (n_insts n') = Some s' /\ is_local_cnt s' = 0.
Proof.
  intros n og rc now n' o j s W H R LC Hs RS.
  destruct (peer_tick_tags _ _ _ _ _ _ _ _ W H R LC Hs) as [s' [Hs' [_ T]]]. exists s'. split; [exact Hs'|].
  rewrite T. apply Z.ltb_lt in RS. rewrite RS. reflexivity.
Qed.

(* the tag of a peer is only changed by its own TICKs *)
Definition not_tick_of (j : Z) (e : event) : bool :=
  match e with PeerTick og _ _ => negb (option_eqb Z.eqb (og_resolved og) (Some j)) | _ => true end.

Lemma tag_stable_step : forall n e n' o j s, WFI n -> j <> n_me n -> not_tick_of j e = true ->
  step n e = Ok (n', o) -> aget j (n_insts n) = Some s ->
  exists s', aget j (n_insts n') = Some s' /\ is_local_cnt s' = is_local_cnt s.
Proof.
  intros n e n' o j s W NM NT H Hs. pose proof (step_LR _ _ _ _ W H) as [[A [B [C D]]] _].
  destruct (D _ _ Hs) as [s' [Hs' X]]. exists s'. split; [exact Hs'|]. apply SR_counters in X.
  destruct e; try (destruct X as [_ X]; exact X).
  - destruct X as [_ X]. rewrite X. unfold lt_local_cnt. apply Z.eqb_neq in NM. rewrite NM. reflexivity.
  - unfold peer_tick_hits in X. destruct (resolve n og) as [k|] eqn:R; [|destruct X as [_ X]; exact X].
    destruct (j =? k) eqn:Ek; [|rewrite andb_false_r in X; destruct X as [_ X]; exact X].
    apply Z.eqb_eq in Ek. subst k. apply resolve_Some in R. destruct R as [R _]. simpl in NT. rewrite R in NT.
    simpl in NT. rewrite Z.eqb_refl in NT. discriminate.
Qed.

Lemma tag_stable : forall evs n n' j s, WFI n -> j <> n_me n -> forallb (not_tick_of j) evs = true ->
  run_state n evs = Ok n' -> aget j (n_insts n) = Some s ->
  exists s', aget j (n_insts n') = Some s' /\ is_local_cnt s' = is_local_cnt s.
Proof.
  induction evs as [|e r IH]; simpl; intros n n' j s W NM NT H Hs.
  - inversion H; subst. exists s. split; [exact Hs|reflexivity].
  - apply andb_prop in NT. destruct NT as [N1 N2].
    destruct (step n e) as [[n1 o1]|k] eqn:E; [|discriminate].
    destruct (tag_stable_step _ _ _ _ _ _ W NM N1 E Hs) as [s1 [Hs1 T1]].
    destruct (step_fixed _ _ _ _ W E) as [A _].
    destruct (IH n1 n' j s1) as [s' [Hs' T']]; try assumption; [eapply step_WFI; eassumption|congruence|].
    exists s'. split; [exact Hs'|congruence].
Qed.

(* "at least one TICK from j within any inactivity_ticks consecutive local ticks": when the local tick numbered cnt
   arrives, the last TICK of j was taken into account while the local counter c0 satisfied cnt - c0 <= inactivity
   (it arrived after the local tick numbered cnt - inactivity). Then hypothesis (ii) of live_peer_never_lost holds
   at that local tick, provided j has not restarted (its own counter did not go backwards). *)
Theorem window_formulation : forall n j evs1 og rc now0 evs2 n1 n2 o1 n3 s1 cnt now orcs,
  WFI n -> j <> n_me n ->
  run_state n evs1 = Ok n1 ->
  step n1 (PeerTick og rc now0) = Ok (n2, o1) -> resolve n1 og = Some j -> local_checked_or_running n1 = true ->
  aget j (n_insts n1) = Some s1 -> is_remote_cnt s1 <= rc -> 0 <= local_cnt n1 ->
  forallb (not_tick_of j) evs2 = true -> run_state n2 evs2 = Ok n3 ->
  cnt - local_cnt n1 <= o_inactivity (n_opts n) ->
  live_hyp j n3 (LocalTick cnt now orcs) = true.
Proof.
  intros n j evs1 og rc now0 evs2 n1 n2 o1 n3 s1 cnt now orcs W NM R1 ST RS LC Hs1 NR NN NT R2 WIN.
  destruct (run_state_WFI _ _ _ W R1) as [W1 [A1 B1]].
  destruct (peer_tick_tags_live _ _ _ _ _ _ _ _ W1 ST RS LC Hs1 NR NN) as [s2 [Hs2 T2]].
  pose proof (step_WFI _ _ _ _ W1 ST) as W2. destruct (step_fixed _ _ _ _ W1 ST) as [A2 B2].
  assert (NM2 : j <> n_me n2) by congruence.
  destruct (tag_stable _ _ _ _ _ W2 NM2 NT R2 Hs2) as [s3 [Hs3 T3]].
  destruct (run_state_WFI _ _ _ W2 R2) as [W3 [A3 B3]].
  simpl. rewrite Hs3. apply Z.leb_le. rewrite B3, B2, B1. lia.
Qed.

(* ====================================================================== *)
(* D. Examples (non-vacuity) and witnesses                                 *)
(* ====================================================================== *)

(* three instances 1 (local), 2, 3; inactivity_ticks = 2; TIMEOUT synchronisation (20 s); as emitted by
   harness/drv_node.py (emit_node) *)
Definition ex_opts (af : bool) : options := mkOpts 2 af false false true false false 20 FS_CONTINUE.
Definition ex_own : smodes := mkSm OFF false 0 [(1, ISTOPPED); (2, ISTOPPED); (3, ISTOPPED)].
Definition ex_node (af : bool) : node :=
  mkNode 1 (ex_opts af) [] [1; 2; 3] [(1, 0); (2, 1); (3, 2)]
         [(1, mkIst ISTOPPED 0 0 0); (2, mkIst ISTOPPED 0 0 0); (3, mkIst ISTOPPED 0 0 0)]
         [(1, ex_own); (2, sm_fresh); (3, sm_fresh)] [] false 1000 [].
Definition ex_og (j : Z) : origin := mkOrigin (Some j) true.
Definition ex_orc : list oracle := [mkOr false false false 0].

Definition after (n : node) (evs : list event) : node :=
  match run_state n evs with Ok n' => n' | Crash _ => n end.

(* the state code of instance j after each event of a run *)
Definition states_of (j : Z) (obss : list obs) : list (option Z) :=
  map (fun o => match o with NOk x => ist_state j (obs_ist x) | NCrash _ => None end) obss.
Definition checks_of (obss : list obs) : list output :=
  flat_map (fun o => match o with NOk x => filter is_check (obs_outs x) | NCrash _ => [] end) obss.

Example ex_WFI : forall af, WFI (ex_node af).
Proof. intro af. apply wfi_b_WFI. destruct af; vm_compute; reflexivity. Qed.

(* the local instance starts, peer 2 is admitted (RUNNING at the local tick 3, tagged with the local counter 2),
   publishes once, then falls silent: still RUNNING at the local tick 4 (4 - 2 <= 2), lost at the local tick 5 *)
Definition ex_hist : list event :=
  [ LocalTick 1 1005 ex_orc;
    Auth (ex_og 1) A_AUTHORIZED 1006 1005;
    LocalTick 2 1010 ex_orc;
    PeerTick (ex_og 2) 7 1011;
    Auth (ex_og 2) A_AUTHORIZED 1012 1011;
    LocalTick 3 1025 ex_orc;
    PeerState (ex_og 2) ELECTION false 0 [(1, IRUNNING); (2, IRUNNING); (3, ISTOPPED)] 1026 ex_orc;
    LocalTick 4 1030 ex_orc;
    LocalTick 5 1035 ex_orc;
    LocalTick 6 1040 ex_orc ].

(* auto_fence on (the local instance is Master in a working state): ISOLATED, and it stays so *)
Example ex_lost_fenced :
  states_of 2 (run (ex_node true) ex_hist)
  = [Some 0; Some 0; Some 0; Some 1; Some 2; Some 3; Some 3; Some 3; Some 5; Some 5].
Proof. vm_compute. reflexivity. Qed.

(* auto_fence off: STOPPED *)
Example ex_lost_unfenced :
  states_of 2 (run (ex_node false) ex_hist)
  = [Some 0; Some 0; Some 0; Some 1; Some 2; Some 3; Some 3; Some 3; Some 0; Some 0].
Proof. vm_compute. reflexivity. Qed.

Example ex_handshakes : checks_of (run (ex_node true) ex_hist) = [CheckInstance 1; CheckInstance 2].
Proof. vm_compute. reflexivity. Qed.

(* hypotheses of run_c07 / run_c07_monotone / run_c13 on this history *)
Example ex_tick_sane : run_all tick_sane (ex_node true) ex_hist = true.
Proof. vm_compute. reflexivity. Qed.
Example ex_ticks_monotone : ticks_monotone 1 0 ex_hist = true.
Proof. vm_compute. reflexivity. Qed.
Example ex_c07 : nspec_ok fl_c07 (ex_node true, ex_hist, run (ex_node true) ex_hist) = true.
Proof. apply run_c07; [apply ex_WFI|exact ex_tick_sane]. Qed.
Example ex_c13 : nspec_ok fl_c13 (ex_node true, ex_hist, run (ex_node true) ex_hist) = true.
Proof. apply run_c13. apply ex_WFI. Qed.

(* hypotheses of live_peer_never_lost: peer 2 is RUNNING after 6 events and alive during the next two events;
   the hypothesis fails exactly at the local tick 5 *)
Example ex_live_start : inst_state (after (ex_node true) (firstn 6 ex_hist)) 2 = Some IRUNNING.
Proof. vm_compute. reflexivity. Qed.
Example ex_live_hyp : run_all (live_hyp 2) (after (ex_node true) (firstn 6 ex_hist)) (firstn 2 (skipn 6 ex_hist)) = true.
Proof. vm_compute. reflexivity. Qed.
Example ex_live_end : inst_state (after (ex_node true) (firstn 8 ex_hist)) 2 = Some IRUNNING.
Proof.
  eapply (live_peer_never_lost 2 (firstn 2 (skipn 6 ex_hist)) (after (ex_node true) (firstn 6 ex_hist)))
    with (evs1 := firstn 2 (skipn 6 ex_hist)) (evs2 := []).
  - assert (W : WFI (ex_node true)) by apply ex_WFI.
    assert (R : run_state (ex_node true) (firstn 6 ex_hist) = Ok (after (ex_node true) (firstn 6 ex_hist)))
      by (vm_compute; reflexivity).
    apply (run_state_WFI _ _ _ W R).
  - vm_compute. discriminate.
  - exact ex_live_start.
  - exact ex_live_hyp.
  - reflexivity.
  - vm_compute. reflexivity.
Qed.
Example ex_live_hyp_fails : live_hyp 2 (after (ex_node true) (firstn 8 ex_hist)) (LocalTick 5 1035 ex_orc) = false.
Proof. vm_compute. reflexivity. Qed.

(* window formulation: the last TICK of peer 2 was tagged 2 >= 4 - inactivity_ticks, so peer 2 is alive at the local tick 4 *)
Example ex_window : live_hyp 2 (after (ex_node true) (firstn 7 ex_hist)) (LocalTick 4 1030 ex_orc) = true.
Proof.
  assert (W : WFI (ex_node true)) by apply ex_WFI.
  eapply (window_formulation (ex_node true) 2 (firstn 3 ex_hist) (ex_og 2) 7 1011 (firstn 3 (skipn 4 ex_hist))
                             (after (ex_node true) (firstn 3 ex_hist)) (after (ex_node true) (firstn 4 ex_hist))).
  - exact W.
  - vm_compute. discriminate.
  - vm_compute. reflexivity.
  - vm_compute. reflexivity.
  - vm_compute. reflexivity.
  - vm_compute. reflexivity.
  - vm_compute. reflexivity.
  - vm_compute. discriminate.
  - vm_compute. discriminate.
  - vm_compute. reflexivity.
  - vm_compute. reflexivity.
  - vm_compute. discriminate.
Qed.

(* the handshake with peer 3 answers NOT_AUTHORIZED: it is ISOLATED, and no later TICK, state publication,
   handshake result, failure notice or local tick changes anything for it; no handshake is requested again *)
Definition ex_iso_hist : list event :=
  [ LocalTick 1 1005 ex_orc;
    Auth (ex_og 1) A_AUTHORIZED 1006 1005;
    LocalTick 2 1010 ex_orc;
    PeerTick (ex_og 3) 4 1011;
    Auth (ex_og 3) A_NOT_AUTHORIZED 1012 1011;
    PeerTick (ex_og 3) 5 1013;
    PeerState (ex_og 3) OPERATION false 3 [(1, IRUNNING); (3, IRUNNING)] 1013 ex_orc;
    Auth (ex_og 3) A_AUTHORIZED 1014 1013;
    AllInfo (ex_og 3) None 1014;
    InstFailure (ex_og 3) 1014;
    LocalTick 3 1025 ex_orc;
    LocalTick 9 1055 ex_orc;
    PeerTick (ex_og 3) 6 1056 ].

Example ex_isolated :
  map (fun o => match o with NOk x => ist_entry 3 (obs_ist x) | NCrash _ => None end) (skipn 4 (run (ex_node false) ex_iso_hist))
  = repeat (Some (5, 4, 2, 1011)) 9.
Proof. vm_compute. reflexivity. Qed.

Example ex_isolated_handshakes : checks_of (run (ex_node false) ex_iso_hist) = [CheckInstance 1; CheckInstance 3].
Proof. vm_compute. reflexivity. Qed.

Example ex_isolated_absorbing : inst_state (after (ex_node false) ex_iso_hist) 3 = Some ISOLATED.
Proof.
  assert (W : WFI (ex_node false)) by apply ex_WFI.
  assert (R5 : run_state (ex_node false) (firstn 5 ex_iso_hist) = Ok (after (ex_node false) (firstn 5 ex_iso_hist)))
    by (vm_compute; reflexivity).
  apply (isolated_absorbing (after (ex_node false) (firstn 5 ex_iso_hist)) (skipn 5 ex_iso_hist) 3).
  - apply (run_state_WFI _ _ _ W R5).
  - vm_compute. reflexivity.
  - vm_compute. reflexivity.
Qed.

(* ---------- witnesses: why the hypothesis tick_sane of `detection` / `run_c07` cannot be dropped ---------- *)
(* the local counter goes backwards (10 then 5): SupvisorsTimes.update takes it for a stealth restart, resets the
   local tag to 0, the periodic check of the same tick finds 5 - 0 > inactivity_ticks and the local instance
   declares ITSELF FAILED then STOPPED (STOPPED -> CHECKING -> FAILED -> STOPPED or RUNNING -> FAILED -> STOPPED
   within one event). The checker c07_detection (which takes cj = cnt for the local instance) rejects it. *)
Definition ex_back_hist : list event :=
  [ LocalTick 1 1005 ex_orc;
    Auth (ex_og 1) A_AUTHORIZED 1006 1005;
    LocalTick 10 1010 ex_orc;
    LocalTick 5 1015 ex_orc ].

Example ex_back_states : states_of 1 (run (ex_node false) ex_back_hist) = [Some 1; Some 2; Some 3; Some 0].
Proof. vm_compute. reflexivity. Qed.

Theorem detection_needs_tick_sane : exists n e n' outs, WFI n /\ step n e = Ok (n', outs) /\
  c07_detection (n_me n) (o_inactivity (n_opts n)) (o_auto_fence (n_opts n)) e (init_ist n) (init_ist n') = false.
Proof.
  exists (after (ex_node false) (firstn 3 ex_back_hist)), (LocalTick 5 1015 ex_orc).
  destruct (step (after (ex_node false) (firstn 3 ex_back_hist)) (LocalTick 5 1015 ex_orc)) as [[n' outs]|k] eqn:E;
    [|vm_compute in E; discriminate E].
  exists n', outs. split; [|split; [reflexivity|]].
  - assert (R : run_state (ex_node false) (firstn 3 ex_back_hist) = Ok (after (ex_node false) (firstn 3 ex_back_hist)))
      by (vm_compute; reflexivity).
    apply (run_state_WFI _ _ _ (ex_WFI false) R).
  - vm_compute in E. inversion E; subst. vm_compute. reflexivity.
Qed.

(* the exact checker accepts the very step that c07_detection rejects *)
Example ex_back_exact :
  let n := after (ex_node false) (firstn 3 ex_back_hist) in
  let n' := after (ex_node false) ex_back_hist in
  c07_detection_exact (n_me n) (o_inactivity (n_opts n)) (o_auto_fence (n_opts n)) (LocalTick 5 1015 ex_orc)
                      (init_ist n) (init_ist n') = true
  /\ c07_detection (n_me n) (o_inactivity (n_opts n)) (o_auto_fence (n_opts n)) (LocalTick 5 1015 ex_orc)
                   (init_ist n) (init_ist n') = false.
Proof. vm_compute. split; reflexivity. Qed.

Theorem run_c07_needs_tick_sane : exists n evs, WFI n /\ nspec_ok fl_c07 (n, evs, run n evs) = false.
Proof. exists (ex_node false), ex_back_hist. split; [apply ex_WFI|vm_compute; reflexivity]. Qed.
