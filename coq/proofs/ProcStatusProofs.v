(* ProcStatusProofs.v — proofs about model/ProcStatus.v (C11, PS-inv of DESIGN §4).
   The statements below are the obligations; see props/C11.v for the property-level theorems. *)
From Sup Require Import ProcStatus GenProc.
From Coq Require Import Lia.

(* ---------- the reflected supervisor tuples mean what the property text says ---------- *)
Lemma is_running_spec : forall s, is_running s = is_running_like s.
Proof. destruct s; vm_compute; reflexivity. Qed.

Lemma is_stopped_spec : forall s, is_stopped s = is_stopped_like s.
Proof. destruct s; vm_compute; reflexivity. Qed.

(* TODO(proof agent): everything below *)
