(* ProcStatusProofs.v — proofs about model/ProcStatus.v (C11, PS-inv of DESIGN §4).
   The statements below are the obligations; see props/C11.v for the property-level theorems. *)
From Sup Require Import ProcStatus GenProc.
From Coq Require Import Lia Permutation.

(* ---------- the reflected supervisor tuples mean what the property text says ---------- *)
Lemma is_running_spec : forall s, is_running s = is_running_like s.
Proof. destruct s; vm_compute; reflexivity. Qed.

Lemma is_stopped_spec : forall s, is_stopped s = is_stopped_like s.
Proof. destruct s; vm_compute; reflexivity. Qed.

(* ====================================================================== *)
(* 1. running_state = most_advanced                                        *)
(* ====================================================================== *)

(* Re-checked against the generated table: the search order of running_state. *)
Lemma running_order :
  gen_running_states ++ [pcode STOPPING] = [pcode RUNNING; pcode BACKOFF; pcode STARTING; pcode STOPPING].
Proof. vm_compute. reflexivity. Qed.

Lemma pcode_eqb : forall a b, Z.eqb (pcode a) (pcode b) = pstate_eqb b a.
Proof. destruct a, b; vm_compute; reflexivity. Qed.

Lemma pstate_of_pcode : forall s, pstate_of_code (pcode s) = Some s.
Proof. destruct s; vm_compute; reflexivity. Qed.

Lemma pstate_eqb_eq : forall a b, pstate_eqb a b = true <-> a = b.
Proof. destruct a, b; simpl; split; intros H; try reflexivity; try discriminate. Qed.

Lemma existsb_pcode : forall x states,
  existsb (fun s => Z.eqb (pcode s) (pcode x)) states = existsb (pstate_eqb x) states.
Proof.
  intros x states. induction states as [|s r IH]; simpl.
  - reflexivity.
  - rewrite pcode_eqb, IH. reflexivity.
Qed.

Lemma running_state_spec : forall states, running_state states = most_advanced states.
Proof.
  intros states. unfold running_state, most_advanced.
  rewrite running_order. unfold find.
  rewrite !existsb_pcode.
  destruct (existsb (pstate_eqb RUNNING) states); [rewrite pstate_of_pcode; reflexivity|].
  destruct (existsb (pstate_eqb BACKOFF) states); [rewrite pstate_of_pcode; reflexivity|].
  destruct (existsb (pstate_eqb STARTING) states); [rewrite pstate_of_pcode; reflexivity|].
  destruct (existsb (pstate_eqb STOPPING) states); [rewrite pstate_of_pcode; reflexivity|].
  reflexivity.
Qed.

Lemma existsb_pstate_In : forall x l, existsb (pstate_eqb x) l = true <-> In x l.
Proof.
  intros x l. rewrite existsb_exists. split.
  - intros [y [Hy E]]. apply pstate_eqb_eq in E. subst. exact Hy.
  - intros H. exists x. split; [exact H|]. apply pstate_eqb_eq. reflexivity.
Qed.

Lemma existsb_pstate_ext : forall x l1 l2, (forall s, In s l1 <-> In s l2) ->
  existsb (pstate_eqb x) l1 = existsb (pstate_eqb x) l2.
Proof.
  intros x l1 l2 H.
  destruct (existsb (pstate_eqb x) l1) eqn:E1; destruct (existsb (pstate_eqb x) l2) eqn:E2; try reflexivity.
  - apply existsb_pstate_In in E1. apply H in E1. apply existsb_pstate_In in E1. congruence.
  - apply existsb_pstate_In in E2. apply H in E2. apply existsb_pstate_In in E2. congruence.
Qed.

Lemma most_advanced_ext : forall l1 l2, (forall s, In s l1 <-> In s l2) -> most_advanced l1 = most_advanced l2.
Proof.
  intros l1 l2 H. unfold most_advanced.
  rewrite (existsb_pstate_ext RUNNING l1 l2 H), (existsb_pstate_ext BACKOFF l1 l2 H),
          (existsb_pstate_ext STARTING l1 l2 H), (existsb_pstate_ext STOPPING l1 l2 H).
  reflexivity.
Qed.

Lemma most_advanced_not_stopped : forall s l,
  Forall (fun x => is_running_like x = true \/ x = STOPPING) (s :: l) ->
  is_stopped (most_advanced (s :: l)) = false.
Proof.
  intros s l H. inversion H as [|x l' Hs Hl]; subst. clear H Hl.
  unfold most_advanced.
  destruct (existsb (pstate_eqb RUNNING) (s :: l)) eqn:E1; [vm_compute; reflexivity|].
  destruct (existsb (pstate_eqb BACKOFF) (s :: l)) eqn:E2; [vm_compute; reflexivity|].
  destruct (existsb (pstate_eqb STARTING) (s :: l)) eqn:E3; [vm_compute; reflexivity|].
  destruct (existsb (pstate_eqb STOPPING) (s :: l)) eqn:E4; [vm_compute; reflexivity|].
  exfalso. simpl in E1, E2, E3, E4.
  destruct Hs as [Hs|Hs]; [destruct s; simpl in *; discriminate | subst s; simpl in *; discriminate].
Qed.

(* ====================================================================== *)
(* association-list lemmas                                                  *)
(* ====================================================================== *)
Section AlistLemmas.
Context {V : Type}.

Lemma aget_aset_same (k : Z) (v : V) l : aget k (aset k v l) = Some v.
Proof.
  induction l as [|[k' v'] r IH]; simpl.
  - rewrite Z.eqb_refl. reflexivity.
  - destruct (Z.eqb k k') eqn:E; simpl; rewrite E; auto.
Qed.

Lemma aget_aset_other (k j : Z) (v : V) l : j <> k -> aget j (aset k v l) = aget j l.
Proof.
  intros N. induction l as [|[k' v'] r IH]; simpl.
  - destruct (Z.eqb_spec j k); [contradiction|reflexivity].
  - destruct (Z.eqb_spec k k') as [E|E]; simpl.
    + subst k'. destruct (Z.eqb_spec j k); [contradiction|reflexivity].
    + destruct (Z.eqb j k'); auto.
Qed.

Lemma aset_not_nil (k : Z) (v : V) l : aset k v l <> [].
Proof. destruct l as [|[k' v'] r]; simpl; [discriminate|]. destruct (Z.eqb k k'); discriminate. Qed.

Lemma aset_aget_id (k : Z) (v : V) l : aget k l = Some v -> aset k v l = l.
Proof.
  induction l as [|[k' v'] r IH]; simpl; intros H.
  - discriminate.
  - destruct (Z.eqb k k') eqn:E.
    + inversion H; subst. reflexivity.
    + rewrite IH; auto.
Qed.

Lemma In_akeys_aset (k j : Z) (v : V) l : In j (akeys (aset k v l)) <-> j = k \/ In j (akeys l).
Proof.
  induction l as [|[k' v'] r IH]; simpl.
  - intuition.
  - destruct (Z.eqb_spec k k') as [E|E]; simpl.
    + subst. intuition.
    + rewrite IH. intuition.
Qed.

Lemma NoDup_akeys_aset (k : Z) (v : V) l : NoDup (akeys l) -> NoDup (akeys (aset k v l)).
Proof.
  induction l as [|[k' v'] r IH]; simpl; intros H.
  - constructor; [intros []|constructor].
  - inversion H as [|x l' Hn Hr]; subst.
    destruct (Z.eqb_spec k k') as [E|E]; simpl.
    + constructor; assumption.
    + constructor; [|apply IH; assumption].
      intros HI. apply In_akeys_aset in HI. destruct HI as [HI|HI]; [congruence|contradiction].
Qed.

Lemma aget_none_iff (k : Z) (l : alist V) : aget k l = None <-> ~ In k (akeys l).
Proof.
  induction l as [|[k' v'] r IH]; simpl.
  - tauto.
  - destruct (Z.eqb_spec k k') as [E|E].
    + split; [discriminate|]. intros H. exfalso. apply H. left. congruence.
    + rewrite IH. split; intros H; [intros [H1|H1]; [congruence|tauto] | tauto].
Qed.

Lemma aget_In (k : Z) (v : V) l : aget k l = Some v -> In (k, v) l.
Proof.
  induction l as [|[k' v'] r IH]; simpl; intros H.
  - discriminate.
  - destruct (Z.eqb_spec k k') as [E|E].
    + inversion H; subst. left. reflexivity.
    + right. apply IH. exact H.
Qed.

Lemma In_aget (k : Z) (v : V) l : NoDup (akeys l) -> In (k, v) l -> aget k l = Some v.
Proof.
  induction l as [|[k' v'] r IH]; simpl; intros Hn H.
  - contradiction.
  - inversion Hn as [|x l' Hk Hr]; subst.
    destruct H as [H|H].
    + inversion H; subst. rewrite Z.eqb_refl. reflexivity.
    + destruct (Z.eqb_spec k k') as [E|E].
      * exfalso. apply Hk. subst k'. unfold akeys. apply in_map_iff. exists (k, v). split; auto.
      * apply IH; assumption.
Qed.

Lemma In_akeys_adel (k j : Z) (l : alist V) : In j (akeys (adel k l)) -> In j (akeys l).
Proof.
  induction l as [|[k' v'] r IH]; simpl; intros H.
  - contradiction.
  - destruct (Z.eqb k k'); simpl in *; [right; exact H|]. destruct H as [H|H]; [left; exact H|right; apply IH; exact H].
Qed.

Lemma NoDup_akeys_adel (k : Z) (l : alist V) : NoDup (akeys l) -> NoDup (akeys (adel k l)).
Proof.
  induction l as [|[k' v'] r IH]; simpl; intros H.
  - constructor.
  - inversion H as [|x l' Hn Hr]; subst.
    destruct (Z.eqb k k'); simpl; [assumption|].
    constructor; [|apply IH; assumption].
    intros HI. apply Hn. eapply In_akeys_adel. exact HI.
Qed.

Lemma aget_adel (k j : Z) (l : alist V) : NoDup (akeys l) ->
  aget j (adel k l) = if Z.eqb j k then None else aget j l.
Proof.
  induction l as [|[k' v'] r IH]; simpl; intros H.
  - destruct (Z.eqb j k); reflexivity.
  - inversion H as [|x l' Hn Hr]; subst.
    destruct (Z.eqb_spec k k') as [E|E].
    + subst k'. destruct (Z.eqb_spec j k) as [E2|E2]; [|reflexivity].
      subst j. apply aget_none_iff. exact Hn.
    + simpl. destruct (Z.eqb_spec j k') as [E2|E2].
      * destruct (Z.eqb_spec j k); [congruence|reflexivity].
      * apply IH. exact Hr.
Qed.

Lemma amem_aget (k : Z) (l : alist V) : amem k l = true <-> exists v, aget k l = Some v.
Proof.
  unfold amem. destruct (aget k l) as [v|]; split; intros H; try reflexivity; try discriminate.
  - exists v. reflexivity.
  - destruct H as [v H]. discriminate.
Qed.

Lemma Forall_aset (Q : V -> Prop) (k : Z) (v : V) l :
  Forall (fun kv => Q (snd kv)) l -> Q v -> Forall (fun kv => Q (snd kv)) (aset k v l).
Proof.
  intros H Hv. induction H as [|[k' v'] r Hx Hr IH]; simpl.
  - constructor; [exact Hv|constructor].
  - destruct (Z.eqb k k'); constructor; auto.
Qed.

Lemma Forall_adel (Q : Z * V -> Prop) (k : Z) l : Forall Q l -> Forall Q (adel k l).
Proof.
  intros H. induction H as [|[k' v'] r Hx Hr IH]; simpl.
  - constructor.
  - destruct (Z.eqb k k'); [assumption|constructor; assumption].
Qed.

Lemma NoDup_akeys_filter (f : Z * V -> bool) (l : alist V) : NoDup (akeys l) -> NoDup (akeys (filter f l)).
Proof.
  induction l as [|a r IH]; simpl; intros H.
  - constructor.
  - inversion H as [|x l' Hn Hr]; subst.
    destruct (f a); simpl; [|apply IH; assumption].
    constructor; [|apply IH; assumption].
    intros HI. apply Hn. unfold akeys in *. apply in_map_iff in HI. destruct HI as [y [E HI]].
    apply in_map_iff. exists y. split; [exact E|]. apply filter_In in HI. tauto.
Qed.

End AlistLemmas.

(* ---------- key-preserving pointwise relation between two association lists ---------- *)
Section Arel.
Context {A B : Type} (Q : A -> B -> Prop).

Definition arel (l1 : alist A) (l2 : alist B) : Prop :=
  Forall2 (fun a b => fst a = fst b /\ Q (snd a) (snd b)) l1 l2.

Lemma arel_aset k v1 v2 l1 l2 : arel l1 l2 -> Q v1 v2 -> arel (aset k v1 l1) (aset k v2 l2).
Proof.
  intros H Hv. induction H as [|[k1 a] [k2 b] r1 r2 [Hk Hq] Hr IH]; simpl in *.
  - constructor; [split; auto|constructor].
  - subst k2. destruct (Z.eqb k k1); constructor; simpl; auto.
Qed.

Lemma arel_adel k l1 l2 : arel l1 l2 -> arel (adel k l1) (adel k l2).
Proof.
  intros H. induction H as [|[k1 a] [k2 b] r1 r2 [Hk Hq] Hr IH]; simpl in *.
  - constructor.
  - subst k2. destruct (Z.eqb k k1); [exact Hr|constructor; simpl; auto].
Qed.

Lemma arel_aget k l1 l2 : arel l1 l2 ->
  match aget k l1, aget k l2 with
  | Some a, Some b => Q a b
  | None, None => True
  | _, _ => False
  end.
Proof.
  intros H. induction H as [|[k1 a] [k2 b] r1 r2 [Hk Hq] Hr IH]; simpl in *.
  - exact I.
  - subst k2. destruct (Z.eqb k k1); [exact Hq|exact IH].
Qed.

Lemma arel_aget_r k l1 l2 b : arel l1 l2 -> aget k l2 = Some b -> exists a, aget k l1 = Some a /\ Q a b.
Proof.
  intros H E. pose proof (arel_aget k l1 l2 H) as G. rewrite E in G.
  destruct (aget k l1) as [a|]; [|contradiction]. exists a. split; auto.
Qed.

Lemma arel_aget_l k l1 l2 a : arel l1 l2 -> aget k l1 = Some a -> exists b, aget k l2 = Some b /\ Q a b.
Proof.
  intros H E. pose proof (arel_aget k l1 l2 H) as G. rewrite E in G.
  destruct (aget k l2) as [b|]; [|contradiction]. exists b. split; auto.
Qed.

Lemma arel_akeys l1 l2 : arel l1 l2 -> akeys l1 = akeys l2.
Proof.
  intros H. induction H as [|[k1 a] [k2 b] r1 r2 [Hk Hq] Hr IH]; simpl in *; [reflexivity|].
  subst k2. rewrite IH. reflexivity.
Qed.

Lemma arel_avals l1 l2 : arel l1 l2 -> Forall2 Q (avals l1) (avals l2).
Proof.
  intros H. induction H as [|[k1 a] [k2 b] r1 r2 [Hk Hq] Hr IH]; simpl in *; constructor; auto.
Qed.

Lemma arel_filter (f : Z * A -> bool) (g : Z * B -> bool) l1 l2 :
  (forall x y, fst x = fst y -> Q (snd x) (snd y) -> f x = g y) ->
  arel l1 l2 -> arel (filter f l1) (filter g l2).
Proof.
  intros Hfg H. induction H as [|x y r1 r2 [Hk Hq] Hr IH]; simpl.
  - constructor.
  - rewrite (Hfg x y Hk Hq). destruct (g y); [constructor; auto|exact IH].
Qed.

Lemma Forall2_existsb (f : A -> bool) (g : B -> bool) l1 l2 :
  (forall a b, Q a b -> f a = g b) -> Forall2 Q l1 l2 -> existsb f l1 = existsb g l2.
Proof.
  intros Hfg H. induction H as [|a b r1 r2 Hq Hr IH]; simpl; [reflexivity|].
  rewrite (Hfg a b Hq), IH. reflexivity.
Qed.

Lemma max_by_rel (ka : A -> Z) (kb : B -> Z) :
  (forall a b, Q a b -> ka a = kb b) ->
  forall l1 l2, Forall2 Q l1 l2 -> forall c1 c2, Q c1 c2 -> Q (max_by ka c1 l1) (max_by kb c2 l2).
Proof.
  intros Hk l1 l2 H. induction H as [|a b r1 r2 Hq Hr IH]; simpl; intros c1 c2 Hc.
  - exact Hc.
  - rewrite (Hk c1 c2 Hc), (Hk a b Hq). destruct (Z.ltb (kb c2) (kb b)); apply IH; assumption.
Qed.

Lemma py_max_rel (ka : A -> Z) (kb : B -> Z) l1 l2 :
  (forall a b, Q a b -> ka a = kb b) -> Forall2 Q l1 l2 ->
  match py_max ka l1, py_max kb l2 with
  | Some a, Some b => Q a b
  | None, None => True
  | _, _ => False
  end.
Proof.
  intros Hk H. destruct H as [|a b r1 r2 Hq Hr]; simpl; [exact I|].
  apply max_by_rel; assumption.
Qed.

End Arel.

(* ====================================================================== *)
(* integer-set lemmas                                                       *)
(* ====================================================================== *)
Lemma zmem_In : forall k l, zmem k l = true <-> In k l.
Proof.
  intros k l. unfold zmem. rewrite existsb_exists. split.
  - intros [x [Hx E]]. apply Z.eqb_eq in E. subst. exact Hx.
  - intros H. exists k. split; [exact H|apply Z.eqb_refl].
Qed.

Lemma zmem_false : forall k l, zmem k l = false <-> ~ In k l.
Proof.
  intros k l. rewrite <- zmem_In. destruct (zmem k l); split; intros H; try reflexivity; try discriminate.
  - exfalso. apply H. reflexivity.
Qed.

Lemma In_zadd : forall k j l, In j (zadd k l) <-> j = k \/ In j l.
Proof.
  intros k j l. unfold zadd. destruct (zmem k l) eqn:E.
  - apply zmem_In in E. split; [auto|]. intros [H|H]; [subst; exact E|exact H].
  - rewrite in_app_iff. simpl. intuition.
Qed.

Lemma NoDup_zadd : forall k l, NoDup l -> NoDup (zadd k l).
Proof.
  intros k l H. unfold zadd. destruct (zmem k l) eqn:E; [exact H|].
  apply zmem_false in E.
  apply (Permutation_NoDup (Permutation_cons_append l k)). constructor; assumption.
Qed.

Lemma In_zdiscard : forall k j l, In j (zdiscard k l) <-> j <> k /\ In j l.
Proof.
  intros k j l. unfold zdiscard. rewrite filter_In.
  destruct (Z.eqb_spec k j) as [E|E]; simpl; split; intros H.
  - destruct H as [_ H]. discriminate.
  - destruct H as [H _]. exfalso. apply H. congruence.
  - split; [congruence|tauto].
  - tauto.
Qed.

Lemma zdiscard_idem : forall k l, zdiscard k (zdiscard k l) = zdiscard k l.
Proof.
  intros k l. unfold zdiscard. induction l as [|x r IH]; simpl; [reflexivity|].
  destruct (Z.eqb k x) eqn:E; simpl; [exact IH|]. rewrite E. simpl. f_equal. exact IH.
Qed.

Lemma NoDup_zdiscard : forall k l, NoDup l -> NoDup (zdiscard k l).
Proof. intros k l H. unfold zdiscard. apply NoDup_filter. exact H. Qed.

Lemma zinsert_In : forall x y l, In y (zinsert x l) <-> y = x \/ In y l.
Proof.
  intros x y l. induction l as [|a r IH]; simpl.
  - intuition.
  - destruct (Z.leb x a); simpl; [intuition|]. rewrite IH. intuition.
Qed.

Lemma zinsert_length : forall x l, length (zinsert x l) = S (length l).
Proof.
  intros x l. induction l as [|a r IH]; simpl; [reflexivity|].
  destruct (Z.leb x a); simpl; [reflexivity|]. rewrite IH. reflexivity.
Qed.

Lemma zsort_In : forall y l, In y (zsort l) <-> In y l.
Proof.
  intros y l. induction l as [|a r IH]; simpl; [tauto|].
  rewrite zinsert_In, IH. intuition.
Qed.

Lemma zsort_length : forall l, length (zsort l) = length l.
Proof.
  intros l. induction l as [|a r IH]; simpl; [reflexivity|].
  rewrite zinsert_length, IH. reflexivity.
Qed.

Lemma NoDup_same_length : forall (l1 l2 : list Z),
  NoDup l1 -> NoDup l2 -> (forall x, In x l1 <-> In x l2) -> length l1 = length l2.
Proof.
  intros l1 l2 H1 H2 H. apply Permutation_length. apply NoDup_Permutation; assumption.
Qed.

(* ====================================================================== *)
(* 2. the refinement relation                                               *)
(* ====================================================================== *)
Definition irel (a : info) (b : sinfo) : Prop :=
  i_state a = s_state b /\ i_expected a = s_expected b /\ i_local_mtime a = s_mtime b
  /\ i_event_time a = s_evt b /\ i_now_mono a = s_nowm b.

(* instance i is 'listed' in the specification *)
Definition listed_in (i : Z) (sinfos : alist sinfo) : Prop :=
  exists si, aget i sinfos = Some si /\ s_listed si = true.

(* (f): the listed bit is coherent with the last reported state *)
Definition listed_ok (si : sinfo) : Prop :=
  (s_listed si = true -> is_running_like (s_state si) = true \/ s_state si = STOPPING)
  /\ (is_running_like (s_state si) = true -> s_listed si = true).

(* (a) (b) (c) (f) *)
Record Rcore (infos : alist info) (run : list Z) (sinfos : alist sinfo) : Prop := mkRcore {
  rc_infos : arel irel infos sinfos;
  rc_keys : NoDup (akeys infos);
  rc_run_nodup : NoDup run;
  rc_run : forall i, zmem i run = true <-> listed_in i sinfos;
  rc_listed : Forall (fun kv => listed_ok (snd kv)) sinfos
}.

(* (e) *)
Definition state_agrees (p : proc) (sp : spec) : Prop :=
  forall s oe, spec_state sp = Some (s, oe) ->
    p_state p = s /\ (forall e, oe = Some e -> p_expected_exit p = e).

Definition R (p : proc) (sp : spec) : Prop :=
  Rcore (p_infos p) (p_running p) (sp_infos sp)
  /\ p_forced p = sp_forced sp
  /\ state_agrees p sp.

Lemma R_init : R proc_init spec_init.
Proof.
  split; [|split].
  - constructor; simpl.
    + constructor.
    + constructor.
    + constructor.
    + intros i. split; [discriminate|]. intros [si [H _]]. discriminate.
    + constructor.
  - reflexivity.
  - intros s oe H. discriminate.
Qed.

(* ---------- listed instances of the spec ---------- *)
Definition listedF (sinfos : alist sinfo) : alist sinfo := filter (fun kv => s_listed (snd kv)) sinfos.

Lemma spec_running_eq : forall sp, spec_running sp = akeys (listedF (sp_infos sp)).
Proof. reflexivity. Qed.

Lemma spec_state_eq : forall sp, spec_state sp =
  match listedF (sp_infos sp) with
  | _ :: _ :: _ => Some (most_advanced (map (fun kv => s_state (snd kv)) (listedF (sp_infos sp))), None)
  | [kv] => Some (s_state (snd kv), Some true)
  | [] =>
      if existsb (fun si => pstate_eqb (s_state si) STOPPING) (avals (sp_infos sp)) then Some (STOPPING, Some true)
      else match py_max s_mtime (avals (sp_infos sp)) with
           | Some si => Some (s_state si, Some (s_expected si))
           | None => None
           end
  end.
Proof. reflexivity. Qed.

Lemma In_listedF : forall i si sinfos, NoDup (akeys sinfos) ->
  (In (i, si) (listedF sinfos) <-> aget i sinfos = Some si /\ s_listed si = true).
Proof.
  intros i si sinfos Hn. unfold listedF. rewrite filter_In. simpl. split; intros [H1 H2]; split; auto.
  - apply In_aget; assumption.
  - apply aget_In; assumption.
Qed.

Lemma In_spec_running : forall i sinfos, NoDup (akeys sinfos) ->
  (In i (akeys (listedF sinfos)) <-> listed_in i sinfos).
Proof.
  intros i sinfos Hn. unfold akeys, listed_in. rewrite in_map_iff. split.
  - intros [[k si] [E H]]. simpl in E. subst k. exists si. apply In_listedF; assumption.
  - intros [si H]. exists (i, si). split; [reflexivity|]. apply In_listedF; assumption.
Qed.

Lemma Rcore_skeys : forall infos run sinfos, Rcore infos run sinfos -> NoDup (akeys sinfos).
Proof. intros infos run sinfos H. rewrite <- (arel_akeys irel _ _ (rc_infos _ _ _ H)). apply (rc_keys _ _ _ H). Qed.

Lemma Rcore_run_In : forall infos run sinfos, Rcore infos run sinfos ->
  forall i, In i run <-> In i (akeys (listedF sinfos)).
Proof.
  intros infos run sinfos H i. rewrite <- zmem_In, (rc_run _ _ _ H).
  symmetry. apply In_spec_running. eapply Rcore_skeys; eassumption.
Qed.

Lemma Rcore_length : forall infos run sinfos, Rcore infos run sinfos ->
  length run = length (listedF sinfos).
Proof.
  intros infos run sinfos H.
  rewrite <- (map_length fst (listedF sinfos)). apply NoDup_same_length.
  - apply (rc_run_nodup _ _ _ H).
  - apply NoDup_akeys_filter. eapply Rcore_skeys; eassumption.
  - apply (Rcore_run_In _ _ _ H).
Qed.

Lemma listedF_ok : forall infos run sinfos kv, Rcore infos run sinfos -> In kv (listedF sinfos) ->
  is_running_like (s_state (snd kv)) = true \/ s_state (snd kv) = STOPPING.
Proof.
  intros infos run sinfos kv H HI. unfold listedF in HI. apply filter_In in HI. destruct HI as [HI HL].
  pose proof (rc_listed _ _ _ H) as HF. rewrite Forall_forall in HF. apply (HF kv HI). exact HL.
Qed.

(* ---------- the status synthesis of update_status as a function of (infos, running) ---------- *)
Definition synth (infos : alist info) (run : list Z) (fo : option pstate) (ee : bool) : result proc :=
  match run with
  | _ :: _ :: _ =>
      bind (running_infos infos run) (fun infs =>
        Ok (mkProc infos run (running_state (map i_state infs)) fo ee))
  | [i] =>
      match aget i infos with
      | None => Crash KeyError
      | Some inf => Ok (mkProc infos run (i_state inf) fo true)
      end
  | [] =>
      if existsb (fun inf => pstate_eqb (i_state inf) STOPPING) (avals infos)
      then Ok (mkProc infos run STOPPING fo true)
      else match py_max i_local_mtime (avals infos) with
           | None => Crash ValueError
           | Some inf => Ok (mkProc infos run (i_state inf) fo (i_expected inf))
           end
  end.

Definition new_run (run : list Z) (cur : pstate) (ident : Z) (st : pstate) : list Z :=
  if is_stopped st then zdiscard ident run
  else if is_running st then (if is_stopped cur then [ident] else zadd ident run)
  else run.

Lemma update_status_synth : forall p i st,
  update_status p i st = synth (p_infos p) (new_run (p_running p) (p_state p) i st) (p_forced p) (p_expected_exit p).
Proof. reflexivity. Qed.

Lemma synth_frame : forall infos run fo ee p',
  synth infos run fo ee = Ok p' -> p_infos p' = infos /\ p_running p' = run /\ p_forced p' = fo.
Proof.
  intros infos run fo ee p' H. unfold synth in H.
  destruct run as [|i [|j r]].
  - destruct (existsb _ _); [inversion H; subst; auto|].
    destruct (py_max _ _); inversion H; subst; auto.
  - destruct (aget i infos); inversion H; subst; auto.
  - destruct (running_infos infos (i :: j :: r)); simpl in H; inversion H; subst; auto.
Qed.

Lemma running_infos_ok : forall infos run,
  (forall i, In i run -> exists inf, aget i infos = Some inf) ->
  exists infs, running_infos infos run = Ok infs
    /\ forall inf, In inf infs <-> exists i, In i run /\ aget i infos = Some inf.
Proof.
  intros infos run. induction run as [|i r IH]; simpl; intros H.
  - exists []. split; [reflexivity|]. intros inf. split; [intros []|intros [i [[] _]]].
  - destruct (H i (or_introl eq_refl)) as [inf0 E0]. rewrite E0.
    destruct IH as [infs [E1 HI]]; [intros j Hj; apply H; right; exact Hj|].
    rewrite E1. simpl. exists (inf0 :: infs). split; [reflexivity|].
    intros inf. simpl. rewrite HI. split.
    + intros [E|[j [Hj Ej]]]; [exists i; subst; auto|exists j; auto].
    + intros [j [[E|Hj] Ej]]; [left; subst; congruence|right; exists j; auto].
Qed.

Lemma irel_state : forall a b, irel a b -> i_state a = s_state b.
Proof. intros a b H. apply H. Qed.

Lemma synth_refines : forall infos run sinfos fo ee sfo,
  Rcore infos run sinfos -> infos <> [] ->
  exists p', synth infos run fo ee = Ok p' /\ p_infos p' = infos /\ p_running p' = run /\ p_forced p' = fo
             /\ state_agrees p' (mkSpec sinfos sfo).
Proof.
  intros infos run sinfos fo ee sfo HR Hne.
  pose proof (Rcore_length _ _ _ HR) as Hlen.
  pose proof (Rcore_run_In _ _ _ HR) as Hin.
  pose proof (Rcore_skeys _ _ _ HR) as Hsk.
  pose proof (rc_infos _ _ _ HR) as Hrel.
  unfold state_agrees. rewrite spec_state_eq. cbn [sp_infos].
  destruct run as [|i [|j r]]; simpl in Hlen.
  - (* nobody running *)
    destruct (listedF sinfos) as [|kv F]; [|discriminate]. clear Hlen Hin.
    unfold synth.
    rewrite (Forall2_existsb irel (fun inf => pstate_eqb (i_state inf) STOPPING)
               (fun si => pstate_eqb (s_state si) STOPPING) (avals infos) (avals sinfos)).
    2:{ intros a b Hab. rewrite (irel_state a b Hab). reflexivity. }
    2:{ apply arel_avals. exact Hrel. }
    destruct (existsb _ (avals sinfos)).
    + eexists. split; [reflexivity|]. simpl. do 3 (split; [reflexivity|]).
      intros s oe H. inversion H; subst. split; [reflexivity|].
      intros e He. inversion He. reflexivity.
    + pose proof (py_max_rel irel i_local_mtime s_mtime (avals infos) (avals sinfos)) as Hmax.
      destruct (py_max i_local_mtime (avals infos)) as [inf|] eqn:E1.
      * destruct (py_max s_mtime (avals sinfos)) as [si|] eqn:E2.
        2:{ exfalso. apply Hmax; [intros a b Hab; apply Hab|apply arel_avals; exact Hrel]. }
        assert (Hq : irel inf si) by (apply Hmax; [intros a b Hab; apply Hab|apply arel_avals; exact Hrel]).
        eexists. split; [reflexivity|]. simpl. do 3 (split; [reflexivity|]).
        intros s oe H. inversion H; subst. split; [apply Hq|].
        intros e He. inversion He; subst. apply Hq.
      * exfalso. destruct infos as [|[k v] r]; [apply Hne; reflexivity|]. simpl in E1. discriminate.
  - (* one running *)
    destruct (listedF sinfos) as [|[k si] [|kv2 F]] eqn:EF; try discriminate. clear Hlen.
    assert (k = i) as ->.
    { assert (In k [i]) as Hk by (apply Hin; simpl; auto). destruct Hk as [Hk|[]]. congruence. }
    assert (aget i sinfos = Some si) as Hsi.
    { apply (In_listedF i si sinfos Hsk). rewrite EF. left. reflexivity. }
    destruct (arel_aget_r irel i infos sinfos si Hrel Hsi) as [inf [Einf Hq]].
    unfold synth. rewrite Einf. eexists. split; [reflexivity|]. simpl. do 3 (split; [reflexivity|]).
    intros s oe H. inversion H; subst. split; [apply Hq|].
    intros e He. inversion He; subst. reflexivity.
  - (* conflict *)
    destruct (listedF sinfos) as [|kv1 [|kv2 F]] eqn:EF; try discriminate. clear Hlen.
    rewrite <- EF. rewrite <- EF in Hin.
    set (run := i :: j :: r) in *.
    assert (Hrun : forall x, In x run -> exists si, aget x sinfos = Some si /\ s_listed si = true).
    { intros x Hx. apply Hin in Hx. apply In_spec_running in Hx; [exact Hx|exact Hsk]. }
    destruct (running_infos_ok infos run) as [infs [Einfs Hinfs]].
    { intros x Hx. destruct (Hrun x Hx) as [si [Hsi _]].
      destruct (arel_aget_r irel x infos sinfos si Hrel Hsi) as [inf [Einf _]]. exists inf. exact Einf. }
    unfold synth. fold run. change (match run with | [] => _ | [_] => _ | _ :: _ :: _ => ?X end) with X.
    rewrite Einfs. simpl bind. eexists. split; [reflexivity|]. simpl. do 3 (split; [reflexivity|]).
    intros s0 oe H. inversion H; subst. split; [|intros e He; discriminate].
    + rewrite running_state_spec. apply most_advanced_ext.
      intros s. rewrite !in_map_iff. split.
      * intros [inf [Es Hinf]]. apply Hinfs in Hinf. destruct Hinf as [x [Hx Ex]].
        destruct (Hrun x Hx) as [si [Hsi Hl]].
        destruct (arel_aget_l irel x infos sinfos inf Hrel Ex) as [si' [Hsi' Hq]].
        rewrite Hsi in Hsi'. inversion Hsi'; subst si'.
        exists (x, si). split; [simpl; rewrite <- (irel_state _ _ Hq); exact Es|].
        apply In_listedF; auto.
      * intros [[x si] [Es Hkv]]. simpl in Es. apply In_listedF in Hkv; [|exact Hsk]. destruct Hkv as [Hsi Hl].
        assert (Hx : In x run).
        { apply Hin. apply In_spec_running; [exact Hsk|]. exists si. auto. }
        destruct (arel_aget_r irel x infos sinfos si Hrel Hsi) as [inf [Einf Hq]].
        exists inf. split; [rewrite (irel_state _ _ Hq); exact Es|]. apply Hinfs. exists x. auto.
Qed.

(* ---------- PS-inv: a stopped synthesized state means nobody is running ---------- *)
Lemma ps_inv : forall p sp, R p sp -> is_stopped (p_state p) = true -> p_running p = [].
Proof.
  intros p sp [HR [_ Hst]] Hs.
  pose proof (Rcore_length _ _ _ HR) as Hlen.
  unfold state_agrees in Hst. rewrite spec_state_eq in Hst.
  destruct (listedF (sp_infos sp)) as [|kv1 [|kv2 F]] eqn:EF.
  - destruct (p_running p); [reflexivity|discriminate].
  - exfalso. destruct (Hst _ _ eq_refl) as [E _].
    assert (Hk : is_running_like (s_state (snd kv1)) = true \/ s_state (snd kv1) = STOPPING).
    { eapply listedF_ok; [exact HR|]. rewrite EF. left. reflexivity. }
    rewrite E, is_stopped_spec in Hs.
    destruct Hk as [Hk|Hk]; [destruct (s_state (snd kv1)); simpl in *; discriminate|].
    rewrite Hk in Hs. discriminate.
  - exfalso. destruct (Hst _ _ eq_refl) as [E _].
    rewrite E in Hs. simpl map in Hs. rewrite most_advanced_not_stopped in Hs; [discriminate|].
    change (Forall (fun x => is_running_like x = true \/ x = STOPPING)
                   (map (fun kv => s_state (snd kv)) (kv1 :: kv2 :: F))).
    rewrite Forall_forall. intros x Hx. apply in_map_iff in Hx. destruct Hx as [kv [Ex Hkv]]. subst x.
    eapply listedF_ok; [exact HR|]. rewrite EF. exact Hkv.
Qed.

Lemma R_empty_running : forall p sp, R p sp -> sp_infos sp = [] -> p_running p = [].
Proof.
  intros p sp [HR _] He. pose proof (Rcore_length _ _ _ HR) as Hlen. rewrite He in Hlen. simpl in Hlen.
  destruct (p_running p); [reflexivity|discriminate].
Qed.

(* ---------- listed_in through aset / adel ---------- *)
Lemma listed_in_aset : forall i j s' l,
  listed_in j (aset i s' l) <-> (j = i /\ s_listed s' = true) \/ (j <> i /\ listed_in j l).
Proof.
  intros i j s' l. unfold listed_in. destruct (Z.eq_dec j i) as [E|E].
  - subst j. rewrite aget_aset_same. split.
    + intros [si [H1 H2]]. inversion H1; subst. left. auto.
    + intros [[_ H]|[H _]]; [exists s'; auto|contradiction].
  - rewrite (aget_aset_other i j s' l E). split.
    + intros H. right. auto.
    + intros [[H _]|[_ H]]; [contradiction|exact H].
Qed.

Lemma listed_in_adel : forall i j l, NoDup (akeys l) ->
  (listed_in j (adel i l) <-> j <> i /\ listed_in j l).
Proof.
  intros i j l Hn. unfold listed_in. rewrite (aget_adel i j l Hn).
  destruct (Z.eqb_spec j i) as [E|E]; split.
  - intros [si [H _]]. discriminate.
  - intros [H _]. contradiction.
  - intros H. auto.
  - intros [_ H]. exact H.
Qed.

Lemma listed_in_was : forall i (l : alist sinfo),
  listed_in i l <-> match aget i l with Some si => s_listed si | None => false end = true.
Proof.
  intros i l. unfold listed_in. destruct (aget i l) as [si|]; split.
  - intros [si' [E H]]. inversion E; subst. exact H.
  - intros H. exists si. auto.
  - intros [si' [E _]]. discriminate.
  - discriminate.
Qed.

(* generic preservation of Rcore when entry i is (re)written on both sides *)
Lemma Rcore_aset : forall infos run sinfos i inf' s' run',
  Rcore infos run sinfos -> irel inf' s' -> listed_ok s' -> NoDup run' ->
  (forall j, In j run' <-> (j = i /\ s_listed s' = true) \/ (j <> i /\ In j run)) ->
  Rcore (aset i inf' infos) run' (aset i s' sinfos).
Proof.
  intros infos run sinfos i inf' s' run' HR Hq Hok Hnd Hrun'. constructor.
  - apply arel_aset; [apply (rc_infos _ _ _ HR)|exact Hq].
  - apply NoDup_akeys_aset. apply (rc_keys _ _ _ HR).
  - exact Hnd.
  - intros j. rewrite zmem_In, Hrun', listed_in_aset, <- (rc_run _ _ _ HR j), zmem_In. reflexivity.
  - apply (Forall_aset listed_ok). apply (rc_listed _ _ _ HR). exact Hok.
Qed.

Lemma Rcore_adel : forall infos run sinfos i,
  Rcore infos run sinfos -> Rcore (adel i infos) (zdiscard i run) (adel i sinfos).
Proof.
  intros infos run sinfos i HR. constructor.
  - apply arel_adel. apply (rc_infos _ _ _ HR).
  - apply NoDup_akeys_adel. apply (rc_keys _ _ _ HR).
  - apply NoDup_zdiscard. apply (rc_run_nodup _ _ _ HR).
  - intros j. rewrite zmem_In, In_zdiscard, listed_in_adel, <- (rc_run _ _ _ HR j), zmem_In; [reflexivity|].
    eapply Rcore_skeys; eassumption.
  - apply Forall_adel. apply (rc_listed _ _ _ HR).
Qed.

Lemma new_run_cases : forall run cur i st, (is_stopped cur = true -> run = []) ->
  new_run run cur i st =
    if is_running_like st then zadd i run else if is_stopped_like st then zdiscard i run else run.
Proof.
  intros run cur i st H. unfold new_run. rewrite (is_stopped_spec st), (is_running_spec st).
  destruct st; simpl; try reflexivity;
    (destruct (is_stopped cur) eqn:E; [rewrite (H eq_refl); reflexivity|reflexivity]).
Qed.

Lemma listed_ok_after : forall st e now was evt nowm, listed_ok (mkS st e now (listed_after was st) evt nowm).
Proof.
  intros st e now was evt nowm. unfold listed_ok, listed_after. simpl.
  destruct st; simpl; split; intros H; try discriminate; auto.
Qed.

(* ---------- the common core of add_info / update_info / invalidate ---------- *)
Lemma report_refines : forall p sp i st e nm now inf' fo',
  R p sp ->
  i_state inf' = st -> i_expected inf' = e -> i_local_mtime inf' = now ->
  i_event_time inf' = nm -> i_now_mono inf' = nm ->
  exists p',
    update_status (mkProc (aset i inf' (p_infos p)) (p_running p) (p_state p) fo' (p_expected_exit p)) i st = Ok p'
    /\ R p' (mkSpec (aset i (mkS st e now
                       (listed_after (match aget i (sp_infos sp) with Some si => s_listed si | None => false end) st)
                       nm nm) (sp_infos sp)) fo').
Proof.
  intros p sp i st e nm now inf' fo' HR E1 E2 E3 E4 E5.
  pose proof (ps_inv p sp HR) as Hinv. destruct HR as [HR [Hf Hst]].
  rewrite update_status_synth. cbn [p_infos p_running p_state p_forced p_expected_exit].
  set (was := match aget i (sp_infos sp) with Some si => s_listed si | None => false end).
  set (s' := mkS st e now (listed_after was st) nm nm).
  assert (HR' : Rcore (aset i inf' (p_infos p)) (new_run (p_running p) (p_state p) i st) (aset i s' (sp_infos sp))).
  { apply (Rcore_aset _ (p_running p)); [exact HR| | | |].
    - unfold irel, s'. simpl. auto.
    - apply listed_ok_after.
    - rewrite (new_run_cases _ _ _ _ Hinv).
      destruct (is_running_like st); [apply NoDup_zadd|destruct (is_stopped_like st); [apply NoDup_zdiscard|]];
        apply (rc_run_nodup _ _ _ HR).
    - intros j. rewrite (new_run_cases _ _ _ _ Hinv). unfold s', listed_after. cbn [s_listed].
      destruct (is_running_like st).
      + rewrite In_zadd. destruct (Z.eq_dec j i); intuition.
      + destruct (is_stopped_like st).
        * rewrite In_zdiscard. intuition. discriminate.
        * destruct (Z.eq_dec j i) as [E|E].
          -- subst j. rewrite <- zmem_In, (rc_run _ _ _ HR i), listed_in_was. fold was. intuition.
          -- intuition.
  }
  destruct (synth_refines _ _ _ fo' (p_expected_exit p) fo' HR' (aset_not_nil _ _ _))
    as [p' [Ep [Ei [Er [Ef Hag]]]]].
  exists p'. split; [exact Ep|]. split; [|split].
  - rewrite Ei, Er. exact HR'.
  - rewrite Ef. reflexivity.
  - exact Hag.
Qed.

Definition rfv (f : option pstate) (x : option pstate) : option pstate :=
  match x with Some STOPPED => f | _ => None end.

Lemma reset_set_eq : forall p infos' x,
  reset_forced (set_infos p infos') x = mkProc infos' (p_running p) (p_state p) (rfv (p_forced p) x) (p_expected_exit p).
Proof.
  intros [a b c [f|] d] infos' [[]|]; reflexivity.
Qed.

Lemma add_info_refines : forall p sp i st e nm d now,
  R p sp -> exists p', add_info p i st e nm d now = Ok p' /\ R p' (spec_step sp (AddInfo i st e nm d now)).
Proof.
  intros p sp i st e nm d now HR. unfold add_info. rewrite reset_set_eq.
  destruct (report_refines p sp i st e nm now
              (mkInfo st e nm nm now (is_crashed st e) d) (rfv (p_forced p) (Some st)) HR
              eq_refl eq_refl eq_refl eq_refl eq_refl) as [p' [Ep HR']].
  exists p'. split; [exact Ep|].
  unfold spec_step, spec_report.
  replace (if negb (pstate_eqb st STOPPED) then None else sp_forced sp) with (rfv (p_forced p) (Some st)).
  - exact HR'.
  - destruct HR as [_ [Hf _]]. rewrite Hf. destruct st; reflexivity.
Qed.

Lemma update_info_refines : forall p sp i st e nm now ext,
  R p sp -> amem i (sp_infos sp) = true ->
  exists p', update_info p i st e nm now ext = Ok p' /\ R p' (spec_report sp i st e nm now true).
Proof.
  intros p sp i st e nm now ext HR Hm.
  apply amem_aget in Hm. destruct Hm as [si Hsi].
  destruct (arel_aget_r irel i _ _ si (rc_infos _ _ _ (proj1 HR)) Hsi) as [old [Eold _]].
  unfold update_info. rewrite Eold. rewrite reset_set_eq.
  destruct (report_refines p sp i st e nm now
              (mkInfo st e nm nm now
                 (if ext then i_has_crashed old || is_crashed st e else i_has_crashed old) (i_disabled old))
              (rfv (p_forced p) None) HR eq_refl eq_refl eq_refl eq_refl eq_refl) as [p' [Ep HR']].
  exists p'. split; [exact Ep|exact HR'].
Qed.

Lemma spec_state_forced_irrel : forall l f1 f2, spec_state (mkSpec l f1) = spec_state (mkSpec l f2).
Proof. reflexivity. Qed.

(* state synthesis of the spec only looks at state / expected / mtime / listed *)
Definition srel (a b : sinfo) : Prop :=
  s_state a = s_state b /\ s_expected a = s_expected b /\ s_mtime a = s_mtime b /\ s_listed a = s_listed b.

Lemma arel_map_state : forall l1 l2, arel srel l1 l2 ->
  map (fun kv => s_state (snd kv)) l1 = map (fun kv => s_state (snd kv)) l2.
Proof.
  intros l1 l2 H. induction H as [|x y r1 r2 [Hk Hq] Hr IH]; simpl; [reflexivity|].
  rewrite IH. destruct Hq as [Hq _]. rewrite Hq. reflexivity.
Qed.

Lemma spec_state_srel : forall l1 l2 f1 f2, arel srel l1 l2 -> spec_state (mkSpec l1 f1) = spec_state (mkSpec l2 f2).
Proof.
  intros l1 l2 f1 f2 H. rewrite !spec_state_eq. cbn [sp_infos].
  assert (HF : arel srel (listedF l1) (listedF l2)).
  { unfold listedF. apply arel_filter; [|exact H]. intros x y _ Hq. apply Hq. }
  pose proof (arel_map_state _ _ HF) as Hmap.
  destruct HF as [|x y F1 F2 [_ Hxy] HF].
  - rewrite (Forall2_existsb srel (fun si => pstate_eqb (s_state si) STOPPING)
               (fun si => pstate_eqb (s_state si) STOPPING) (avals l1) (avals l2)).
    2:{ intros a b Hab. destruct Hab as [Hab _]. rewrite Hab. reflexivity. }
    2:{ apply arel_avals. exact H. }
    destruct (existsb _ (avals l2)); [reflexivity|].
    pose proof (py_max_rel srel s_mtime s_mtime (avals l1) (avals l2)) as Hmax.
    assert (Hm : match py_max s_mtime (avals l1), py_max s_mtime (avals l2) with
                 | Some a, Some b => srel a b | None, None => True | _, _ => False end).
    { apply Hmax; [intros a b Hab; apply Hab|apply arel_avals; exact H]. }
    destruct (py_max s_mtime (avals l1)) as [a|]; destruct (py_max s_mtime (avals l2)) as [b|];
      try contradiction; [|reflexivity].
    destruct Hm as [Ha [Hb _]]. rewrite Ha, Hb. reflexivity.
  - destruct HF as [|x2 y2 F1' F2' _ HF'].
    + destruct Hxy as [Hxy _]. rewrite Hxy. reflexivity.
    + rewrite Hmap. reflexivity.
Qed.

Lemma arel_srel_refl : forall l, arel srel l l.
Proof. intros l. induction l as [|x r IH]; constructor; [unfold srel; auto|exact IH]. Qed.

(* ====================================================================== *)
(* 3. every well-formed operation refines the specification                 *)
(* ====================================================================== *)
Lemma step_refines : forall p sp o, R p sp -> wf_op sp o = true ->
  exists p', step p o = Ok p' /\ R p' (spec_step sp o).
Proof.
  intros p sp o HR Hwf. destruct o as [i st e nm d now|i st e nm now|i st et now|i now|i|i b|i t].
  - (* AddInfo *) apply add_info_refines. exact HR.
  - (* UpdateInfo *) simpl in Hwf. apply update_info_refines; assumption.
  - (* Force *)
    simpl. eexists. split; [reflexivity|].
    destruct HR as [HR [Hf Hst]].
    pose proof (arel_aget irel i _ _ (rc_infos _ _ _ HR)) as Hg.
    unfold force_state.
    destruct (aget i (p_infos p)) as [inf|]; destruct (aget i (sp_infos sp)) as [si|]; try contradiction.
    + destruct Hg as [_ [_ [_ [Hev _]]]]. rewrite Hev.
      destruct (Z.leb (s_evt si) et); simpl; (split; [exact HR|split; [auto|exact Hst]]).
    + simpl. split; [exact HR|split; [reflexivity|exact Hst]].
  - (* Invalidate *)
    simpl. unfold invalidate.
    destruct (zmem i (p_running p)) eqn:Ez.
    + pose proof HR as [HRc _].
      apply (rc_run _ _ _ HRc) in Ez. destruct Ez as [si [Hsi Hl]].
      destruct (arel_aget_r irel i _ _ si (rc_infos _ _ _ HRc) Hsi) as [inf [Einf Hq]].
      rewrite Einf, Hsi, Hl.
      destruct Hq as [_ [_ [_ [_ Hnm]]]]. rewrite Hnm.
      apply update_info_refines; [exact HR|]. apply amem_aget. exists si. exact Hsi.
    + exists p. split; [reflexivity|].
      destruct (aget i (sp_infos sp)) as [si|] eqn:Hsi; [|exact HR].
      destruct (s_listed si) eqn:Hl; [|exact HR].
      exfalso. destruct HR as [HRc _].
      assert (zmem i (p_running p) = true) by (apply (rc_run _ _ _ HRc); exists si; auto). congruence.
  - (* Remove *)
    simpl in Hwf. simpl. unfold remove_identifier.
    pose proof HR as [HRc [Hf Hst]].
    apply amem_aget in Hwf. destruct Hwf as [si Hsi].
    destruct (arel_aget_r irel i _ _ si (rc_infos _ _ _ HRc) Hsi) as [inf [Einf _]].
    assert (Hm : amem i (p_infos p) = true) by (apply amem_aget; exists inf; exact Einf).
    rewrite Hm.
    pose proof (Rcore_adel _ _ _ i HRc) as HR'.
    destruct (adel i (p_infos p)) as [|kv rest] eqn:Ed.
    + eexists. split; [reflexivity|]. split; [|split].
      * simpl. exact HR'.
      * exact Hf.
      * assert (Hnil : adel i (sp_infos sp) = []).
        { pose proof (rc_infos _ _ _ HR') as Hrel. inversion Hrel. reflexivity. }
        intros s oe H. unfold spec_step in H. rewrite spec_state_eq in H. cbn [sp_infos] in H.
        rewrite Hnil in H. simpl in H. discriminate.
    + rewrite update_status_synth. cbn [p_infos p_running p_state p_forced p_expected_exit].
      assert (Hnr : new_run (zdiscard i (p_running p)) (p_state p) i STOPPED = zdiscard i (p_running p)).
      { unfold new_run. rewrite (is_stopped_spec STOPPED). simpl. apply zdiscard_idem. }
      rewrite Hnr.
      destruct (synth_refines _ _ _ (p_forced p) (p_expected_exit p) (sp_forced sp) HR')
        as [p' [Ep [Ei [Er [Ef Hag]]]]]; [discriminate|].
      exists p'. split; [exact Ep|]. split; [|split].
      * rewrite Ei, Er. exact HR'.
      * rewrite Ef. exact Hf.
      * exact Hag.
  - (* Disable *)
    simpl. destruct HR as [HR [Hf Hst]].
    destruct (aget i (p_infos p)) as [inf|] eqn:Einf; (eexists; split; [reflexivity|]);
      [|split; [exact HR|split; [exact Hf|exact Hst]]].
    destruct (arel_aget_l irel i _ _ inf (rc_infos _ _ _ HR) Einf) as [si [Hsi Hq]].
    split; [|split; [exact Hf|exact Hst]].
    simpl. rewrite <- (aset_aget_id i si (sp_infos sp) Hsi).
    apply (Rcore_aset _ (p_running p)); [exact HR|exact Hq| | |].
    + pose proof (rc_listed _ _ _ HR) as HF. rewrite Forall_forall in HF.
      apply (HF (i, si)). apply aget_In. exact Hsi.
    + apply (rc_run_nodup _ _ _ HR).
    + intros j. destruct (Z.eq_dec j i) as [E|E]; [|intuition].
      subst j. rewrite <- zmem_In, (rc_run _ _ _ HR i). unfold listed_in. rewrite Hsi. split.
      * intros [si' [E H]]. inversion E; subst. left. auto.
      * intros [[_ H]|[H _]]; [exists si; auto|contradiction].
  - (* TickTimes *)
    simpl. destruct HR as [HR [Hf Hst]].
    pose proof (arel_aget irel i _ _ (rc_infos _ _ _ HR)) as Hg.
    destruct (aget i (p_infos p)) as [inf|] eqn:Einf; destruct (aget i (sp_infos sp)) as [si|] eqn:Hsi;
      try contradiction; (eexists; split; [reflexivity|]);
      [|split; [exact HR|split; [exact Hf|exact Hst]]].
    split; [|split; [exact Hf|]].
    + simpl. apply (Rcore_aset _ (p_running p)); [exact HR| | | |].
      * unfold irel in *. simpl. tauto.
      * pose proof (rc_listed _ _ _ HR) as HF. rewrite Forall_forall in HF.
        apply (HF (i, si)). apply aget_In. exact Hsi.
      * apply (rc_run_nodup _ _ _ HR).
      * intros j. cbn [s_listed]. destruct (Z.eq_dec j i) as [E|E]; [|intuition].
        subst j. rewrite <- zmem_In, (rc_run _ _ _ HR i). unfold listed_in. rewrite Hsi. split.
        -- intros [si' [E H]]. inversion E; subst. left. auto.
        -- intros [[_ H]|[H _]]; [exists si; auto|contradiction].
    + intros s oe H. apply Hst.
      rewrite <- H. destruct sp as [sinfos sfo]. simpl. simpl in Hsi.
      apply spec_state_srel.
      rewrite <- (aset_aget_id i si sinfos Hsi) at 1.
      apply arel_aset; [apply arel_srel_refl|]. unfold srel. simpl. auto.
Qed.

(* ====================================================================== *)
(* 4. the observation of a related state is accepted by the spec            *)
(* ====================================================================== *)
Lemma R_length : forall p sp, R p sp -> length (p_running p) = length (spec_running sp).
Proof.
  intros p sp [HR _]. rewrite spec_running_eq. unfold akeys. rewrite map_length.
  apply (Rcore_length _ _ _ HR).
Qed.

Lemma R_accepts : forall p sp, R p sp -> spec_accepts sp (OOk (observe p)) = true.
Proof.
  intros p sp HR. pose proof (R_length p sp HR) as Hlen. destruct HR as [HR [Hf Hst]].
  pose proof (Rcore_run_In _ _ _ HR) as Hin. rewrite <- spec_running_eq in Hin.
  unfold spec_accepts, observe.
  apply andb_true_iff; split; [apply andb_true_iff; split; [apply andb_true_iff; split;
    [apply andb_true_iff; split|]|]|].
  - unfold zset_eqb. apply andb_true_iff; split; apply forallb_forall; intros x Hx; apply zmem_In.
    + apply Hin. apply zsort_In. exact Hx.
    + apply zsort_In. apply Hin. exact Hx.
  - apply Nat.eqb_eq. rewrite zsort_length. exact Hlen.
  - rewrite <- Hlen. unfold conflicting. destruct (p_running p) as [|a [|b r]]; reflexivity.
  - destruct (spec_state sp) as [[s oe]|] eqn:Es; [|reflexivity].
    destruct (Hst s oe Es) as [E1 E2].
    apply andb_true_iff; split; [apply andb_true_iff; split|].
    + rewrite E1. apply Z.eqb_refl.
    + unfold displayed. rewrite Hf, E1. apply Z.eqb_refl.
    + destruct oe as [e|]; [|reflexivity]. rewrite (E2 e eq_refl). apply Bool.eqb_reflx.
  - rewrite Hf. apply Bool.eqb_reflx.
Qed.

(* ====================================================================== *)
(* 5. whole histories                                                       *)
(* ====================================================================== *)
Lemma refines_spec_gen : forall ops p sp, R p sp -> spec_violated sp ops (run p ops) = false.
Proof.
  intros ops. induction ops as [|o r IH]; intros p sp HR; simpl.
  - reflexivity.
  - destruct (wf_op sp o) eqn:Hwf.
    + destruct (step_refines p sp o HR Hwf) as [p' [Ep HR']]. rewrite Ep.
      rewrite (R_accepts p' _ HR'). apply IH. exact HR'.
    + destruct (step p o); reflexivity.
Qed.

Lemma refines_spec : forall ops, spec_violated spec_init ops (run proc_init ops) = false.
Proof. intros ops. apply refines_spec_gen. exact R_init. Qed.

Fixpoint wf_history (sp : spec) (ops : list op) : bool :=
  match ops with
  | [] => true
  | o :: r => wf_op sp o && wf_history (spec_step sp o) r
  end.

Fixpoint run_state (p : proc) (ops : list op) : result proc :=
  match ops with
  | [] => Ok p
  | o :: r => bind (step p o) (fun p' => run_state p' r)
  end.

Lemma wf_history_no_crash_gen : forall ops p sp, R p sp -> wf_history sp ops = true ->
  (forall o, In o (run p ops) -> exists x, o = OOk x) /\ length (run p ops) = length ops.
Proof.
  intros ops. induction ops as [|o r IH]; intros p sp HR Hwf; simpl.
  - split; [intros o []|reflexivity].
  - simpl in Hwf. apply andb_true_iff in Hwf. destruct Hwf as [Hwf Hr].
    destruct (step_refines p sp o HR Hwf) as [p' [Ep HR']]. rewrite Ep.
    destruct (IH p' _ HR' Hr) as [IH1 IH2]. split.
    + intros ob [E|Hob]; [exists (observe p'); auto|apply IH1; exact Hob].
    + simpl. rewrite IH2. reflexivity.
Qed.

Lemma wf_history_no_crash : forall ops, wf_history spec_init ops = true ->
  (forall o, In o (run proc_init ops) -> exists x, o = OOk x)
  /\ length (run proc_init ops) = length ops.
Proof. intros ops H. apply (wf_history_no_crash_gen ops proc_init spec_init R_init H). Qed.

Lemma reachable_R_gen : forall ops p sp, R p sp -> wf_history sp ops = true ->
  exists p', run_state p ops = Ok p' /\ R p' (fold_left spec_step ops sp).
Proof.
  intros ops. induction ops as [|o r IH]; intros p sp HR Hwf; simpl.
  - exists p. split; [reflexivity|exact HR].
  - simpl in Hwf. apply andb_true_iff in Hwf. destruct Hwf as [Hwf Hr].
    destruct (step_refines p sp o HR Hwf) as [p' [Ep HR']]. rewrite Ep. simpl.
    apply IH; assumption.
Qed.

Lemma reachable_R : forall ops, wf_history spec_init ops = true ->
  exists p, run_state proc_init ops = Ok p /\ R p (fold_left spec_step ops spec_init).
Proof. intros ops H. apply (reachable_R_gen ops proc_init spec_init R_init H). Qed.

(* ====================================================================== *)
(* 6. loss of an instance (invalidate_identifier)                           *)
(* ====================================================================== *)
Lemma update_status_frame : forall p i st p', update_status p i st = Ok p' ->
  p_infos p' = p_infos p /\ p_running p' = new_run (p_running p) (p_state p) i st /\ p_forced p' = p_forced p.
Proof. intros p i st p' H. rewrite update_status_synth in H. apply synth_frame in H. exact H. Qed.

Lemma invalidate_inv : forall p j now p', zmem j (p_running p) = true -> invalidate p j now = Ok p' ->
  exists inf', i_state inf' = FATAL /\ p_infos p' = aset j inf' (p_infos p)
               /\ p_running p' = zdiscard j (p_running p).
Proof.
  intros p j now p' Hz H. unfold invalidate in H. rewrite Hz in H.
  destruct (aget j (p_infos p)) as [inf|] eqn:E; [|discriminate].
  unfold update_info in H. rewrite E in H. rewrite reset_set_eq in H.
  apply update_status_frame in H. cbn [p_infos p_running p_state p_forced] in H.
  destruct H as [H1 [H2 _]]. eexists. split; [|split; [exact H1|]].
  - reflexivity.
  - rewrite H2. unfold new_run. rewrite (is_stopped_spec FATAL). reflexivity.
Qed.

Lemma loss_frame : forall p j now p', invalidate p j now = Ok p' ->
  forall i, i <> j -> aget i (p_infos p') = aget i (p_infos p).
Proof.
  intros p j now p' H i Hij. destruct (zmem j (p_running p)) eqn:Hz.
  - destruct (invalidate_inv p j now p' Hz H) as [inf' [_ [Hi _]]]. rewrite Hi.
    apply aget_aset_other. exact Hij.
  - unfold invalidate in H. rewrite Hz in H. inversion H; subst. reflexivity.
Qed.

(* no hypothesis beyond membership is needed: zdiscard removes every occurrence *)
Lemma loss_makes_fatal : forall p j now p', zmem j (p_running p) = true -> invalidate p j now = Ok p' ->
  (exists inf, aget j (p_infos p') = Some inf /\ i_state inf = FATAL) /\ zmem j (p_running p') = false.
Proof.
  intros p j now p' Hz H. destruct (invalidate_inv p j now p' Hz H) as [inf' [Hs [Hi Hr]]]. split.
  - exists inf'. split; [rewrite Hi; apply aget_aset_same|exact Hs].
  - rewrite Hr. apply zmem_false. intros HI. apply In_zdiscard in HI. destruct HI as [HI _]. apply HI. reflexivity.
Qed.

(* ====================================================================== *)
(* 7. forced state                                                          *)
(* ====================================================================== *)
Lemma force_frame : forall p i st et, let p' := fst (force_state p i st et) in
  p_infos p' = p_infos p /\ p_running p' = p_running p /\ p_state p' = p_state p.
Proof.
  intros p i st et. unfold force_state.
  destruct (match aget i (p_infos p) with Some inf => Z.leb (i_event_time inf) et | None => true end);
    simpl; auto.
Qed.

Lemma force_dismissed_iff : forall p i st et,
  snd (force_state p i st et) = false <-> exists inf, aget i (p_infos p) = Some inf /\ et < i_event_time inf.
Proof.
  intros p i st et. unfold force_state. destruct (aget i (p_infos p)) as [inf|].
  - destruct (Z.leb_spec (i_event_time inf) et) as [L|L]; simpl; split.
    + discriminate.
    + intros [inf' [E H]]. inversion E; subst. lia.
    + intros _. exists inf. auto.
    + reflexivity.
  - simpl. split; [discriminate|]. intros [inf [E _]]. discriminate.
Qed.

(* ====================================================================== *)
(* 8. conflicts, running ⊆ known                                            *)
(* ====================================================================== *)
Lemma conflict_iff : forall p sp, R p sp -> (conflicting p = true <-> (2 <= length (spec_running sp))%nat).
Proof.
  intros p sp HR. rewrite <- (R_length p sp HR). unfold conflicting.
  destruct (p_running p) as [|a [|b r]]; simpl; split; intros H; try discriminate; try lia; reflexivity.
Qed.

Lemma ps_inv_running_subset : forall p sp, R p sp ->
  forall i, zmem i (p_running p) = true -> amem i (p_infos p) = true.
Proof.
  intros p sp [HR _] i Hz. apply (rc_run _ _ _ HR) in Hz. destruct Hz as [si [Hsi _]].
  destruct (arel_aget_r irel i _ _ si (rc_infos _ _ _ HR) Hsi) as [inf [Einf _]].
  apply amem_aget. exists inf. exact Einf.
Qed.

(* ====================================================================== *)
(* 9. a concrete history: two instances, a conflict, a loss, a forced state *)
(* ====================================================================== *)
Definition demo_history : list op :=
  [ AddInfo 1 STOPPED true 100 false 1000;
    AddInfo 2 STOPPED true 101 false 1001;
    UpdateInfo 1 STARTING true 110 1010;
    UpdateInfo 1 RUNNING true 120 1020;
    UpdateInfo 2 STARTING true 121 1021;      (* conflict: 1 RUNNING, 2 STARTING *)
    Force 1 FATAL 125 1025;                   (* forced state accepted *)
    Force 1 STOPPED 50 1026;                  (* dismissed: older than the last event of 1 *)
    TickTimes 1 130;
    Invalidate 1 1030;                        (* instance 1 lost: FATAL, conflict solved, forced state reset *)
    Disable 2 true;
    UpdateInfo 2 STOPPING true 140 1040;
    UpdateInfo 2 EXITED false 150 1050;
    Remove 1;
    Remove 2 ].

Example demo_wf : wf_history spec_init demo_history = true.
Proof. vm_compute. reflexivity. Qed.

Example demo_all_ok :
  forallb (fun o => match o with OOk _ => true | OCrash _ => false end) (run proc_init demo_history) = true
  /\ length (run proc_init demo_history) = 14%nat.
Proof. vm_compute. split; reflexivity. Qed.

(* the conflict is visible after the 5th operation, and solved by the loss of instance 1 *)
Example demo_conflict :
  map (fun o => match o with OOk (r, c, s, d, _, f, _) => Some (r, c, s, d, f) | OCrash _ => None end)
      (run proc_init demo_history)
  = [ Some ([], false, 0, 0, false);
      Some ([], false, 0, 0, false);
      Some ([1], false, 10, 10, false);
      Some ([1], false, 20, 20, false);
      Some ([1; 2], true, 20, 20, false);
      Some ([1; 2], true, 20, 200, true);
      Some ([1; 2], true, 20, 200, true);
      Some ([1; 2], true, 20, 200, true);
      Some ([2], false, 10, 10, false);
      Some ([2], false, 10, 10, false);
      Some ([2], false, 40, 40, false);
      Some ([], false, 100, 100, false);
      Some ([], false, 100, 100, false);
      Some ([], false, 100, 100, false) ].
Proof. vm_compute. reflexivity. Qed.

Example demo_refines : spec_violated spec_init demo_history (run proc_init demo_history) = false.
Proof. vm_compute. reflexivity. Qed.

(* hypotheses of the loss / force lemmas are satisfiable on the state reached after the conflict *)
Definition demo_conflict_state : proc :=
  match run_state proc_init (firstn 5 demo_history) with Ok p => p | Crash _ => proc_init end.

Example demo_loss_hyp :
  zmem 1 (p_running demo_conflict_state) = true
  /\ exists p', invalidate demo_conflict_state 1 1030 = Ok p'.
Proof. split; [vm_compute; reflexivity|]. eexists. vm_compute. reflexivity. Qed.

Example demo_force_dismissed : snd (force_state demo_conflict_state 1 STOPPED 50) = false.
Proof. vm_compute. reflexivity. Qed.

Example demo_conflicting : conflicting demo_conflict_state = true.
Proof. vm_compute. reflexivity. Qed.

(* The variant of (e) "sp_infos sp = [] -> is_stopped (p_state p) = true" suggested for R does NOT hold:
   removing the last instance keeps the previous synthesized state (remove_identifier only calls
   update_status when info_map is non-empty). *)
Example removed_last_keeps_state :
  match run_state proc_init [AddInfo 1 RUNNING true 10 false 100; Remove 1] with
  | Ok p => p_infos p = [] /\ p_running p = [] /\ p_state p = RUNNING /\ is_stopped (p_state p) = false
  | Crash _ => False
  end.
Proof. vm_compute. repeat split; reflexivity. Qed.

(* both reflected tables at once (for props/C11.v) *)
Lemma tables_spec :
  (forall s, is_running s = is_running_like s) /\ (forall s, is_stopped s = is_stopped_like s).
Proof. split; [exact is_running_spec|exact is_stopped_spec]. Qed.
