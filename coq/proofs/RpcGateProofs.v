(* RpcGateProofs.v — proofs about the model of the XML-RPC gates (property C17). *)
From Sup Require Import Base GenEnums GenRpc RpcGate.
Open Scope Z_scope.

(* ------------------------------------------------------------------------------------------------------------ *)
(* Tactics: case analysis driven by what the goal actually inspects *)
Ltac destruct_one_match :=
  match goal with
  | |- context [match ?x with _ => _ end] => is_var x; destruct x
  | |- context [if ?x then _ else _] => is_var x; destruct x
  end.

Ltac destruct_any_match :=
  match goal with
  | H : context [match ?x with _ => _ end] |- _ => is_var x; destruct x
  | H : context [if ?x then _ else _] |- _ => is_var x; destruct x
  | |- context [match ?x with _ => _ end] => is_var x; destruct x
  | |- context [if ?x then _ else _] => is_var x; destruct x
  end.

Ltac crush_cases := repeat (cbn; try reflexivity; destruct_one_match); cbn; try reflexivity.

(* ------------------------------------------------------------------------------------------------------------ *)
(* T1: the hand-written enumerations agree with the reflected tables *)
Lemma sstate_codes_reflected : map sstate_code all_states = gen_SupvisorsStates_values.
Proof. vm_compute. reflexivity. Qed.

Lemma all_states_complete : forall s, In s all_states.
Proof. destruct s; vm_compute; tauto. Qed.

Lemma all_meths_complete : forall m, In m all_meths.
Proof. destruct m; vm_compute; tauto. Qed.

Lemma all_meths_count : length all_meths = 44%nat.
Proof. reflexivity. Qed.

Lemma sstate_eqb_eq : forall a b, sstate_eqb a b = true <-> a = b.
Proof. destruct a, b; cbn; split; intro H; try reflexivity; try discriminate H. Qed.

Lemma mrole_eqb_eq : forall a b, mrole_eqb a b = true <-> a = b.
Proof. destruct a, b; cbn; split; intro H; try reflexivity; try discriminate H. Qed.

Lemma view_eqb_refl : forall v, view_eqb v v = true.
Proof. destruct v as [s m u j c]; destruct s, m, u, j, c; reflexivity. Qed.

(* ------------------------------------------------------------------------------------------------------------ *)
(* P0 gate_matrix_matches_doc: for every method and every Supvisors state, the state check of the code (reflected
   state lists + which helper the method calls) accepts the call iff the documentation says so.
   Re-checked whenever gen/GenRpc.v changes. *)
Theorem gate_matrix_matches_doc :
  forall m s, gate_allows m s = documented_gates (method_class_of m) s.
Proof. destruct m; destruct s; vm_compute; reflexivity. Qed.

(* the same, as one boolean over the 44 x 9 matrix (what vm_compute actually evaluates) *)
Definition gate_matrix_ok : bool :=
  forallb (fun m => forallb (fun s => Bool.eqb (gate_allows m s) (documented_gates (method_class_of m) s))
                            all_states) all_meths.
Lemma gate_matrix_ok_true : gate_matrix_ok = true.
Proof. vm_compute. reflexivity. Qed.

Example gate_matrix_nontrivial :
  gate_allows M_stop_process S_CONCILIATION = true /\ gate_allows M_start_process S_CONCILIATION = false
  /\ gate_allows M_get_process_info S_ELECTION = false /\ gate_allows M_get_instance_info S_OFF = true.
Proof. vm_compute. repeat split. Qed.

(* the two readings of "from DISTRIBUTION on" differ on FINAL only, and the code follows the first one *)
Theorem readings_differ_only_on_final :
  forall c s, documented_gates c s <> documented_gates_ordinal c s ->
              s = S_FINAL /\ (c = StatusQuery \/ c = RestartShutdown).
Proof.
  intros c s H. destruct c; destruct s; vm_compute in H; try (exfalso; apply H; reflexivity);
    split; try reflexivity; auto.
Qed.

Theorem final_ordinal_reading_refuted :
  exists m, gate_allows m S_FINAL <> documented_gates_ordinal (method_class_of m) S_FINAL.
Proof. exists M_get_all_process_info. vm_compute. discriminate. Qed.

(* ------------------------------------------------------------------------------------------------------------ *)
(* P0 state check first: outside the documented states the call is refused with BAD_SUPVISORS_STATE whatever its
   parameters, and nothing else happens *)
Theorem state_check_first :
  forall v r, documented_gates (method_class_of (rq_meth r)) (nv_state v) = false ->
              call v r = (v, [], Fault F_BAD_SUPVISORS_STATE).
Proof.
  intros v r H. unfold call. rewrite gate_matrix_matches_doc, H. reflexivity.
Qed.

Example state_check_first_sat :
  documented_gates (method_class_of M_start_application) S_CONCILIATION = false.
Proof. reflexivity. Qed.

(* served only in the documented states *)
Theorem served_only_in_documented_states :
  forall v r v' outs, call v r = (v', outs, Served) ->
                      documented_gates (method_class_of (rq_meth r)) (nv_state v) = true.
Proof.
  intros v r v' outs H.
  destruct (documented_gates (method_class_of (rq_meth r)) (nv_state v)) eqn:E; [reflexivity|].
  rewrite (state_check_first v r E) in H. discriminate H.
Qed.

(* ------------------------------------------------------------------------------------------------------------ *)
(* P0 rejected_is_effect_free: a call that is not served (fault or internal error) returns the view unchanged and
   emits nothing.  By construction of [call] (every refusal goes through [reject] / [crash]); proved by cases. *)
Lemma body_not_served_is_effect_free :
  forall v r, match body v r with
              | (v', outs, Served) => True
              | (v', outs, _) => v' = v /\ outs = []
              end.
Proof.
  intros v r. destruct r as [m st a p i pg n lv rx w fl]. destruct v as [s ma u j c].
  destruct m; cbv;
    repeat (match goal with
            | |- context [match ?x with _ => _ end] => is_var x; destruct x
            | |- context [if ?x then _ else _] => is_var x; destruct x
            end; cbv);
    try exact I; split; reflexivity.
Qed.

Theorem rejected_is_effect_free :
  forall v r v' outs oc, call v r = (v', outs, oc) -> oc <> Served -> v' = v /\ outs = [].
Proof.
  intros v r v' outs oc H Hoc. unfold call in H.
  destruct (gate_allows (rq_meth r) (nv_state v)).
  - pose proof (body_not_served_is_effect_free v r) as B. rewrite H in B.
    destruct oc; [exfalso; apply Hoc; reflexivity | exact B | exact B].
  - unfold reject in H. inversion H. split; reflexivity.
Qed.

Example rejected_is_effect_free_sat :
  exists v r v' outs f, call v r = (v', outs, Fault f) /\ f = F_NOT_MANAGED.
Proof.
  exists (mk_view S_OPERATION MSelf true false true),
         (mk_req M_start_application StOk ApUnmanaged PrKnown InIdent PgKnown NumOk LvOk RxMatch true false).
  eexists. eexists. eexists. split; reflexivity.
Qed.

(* the observable of a refused call is clean in the sense of the specification *)
Theorem rejected_observable_is_clean :
  forall v r, o_outcome (model_obs v r) <> Served -> clean v (model_obs v r) = true.
Proof.
  intros v r H. unfold model_obs in *. destruct (call v r) as [[v' outs] oc] eqn:E. cbn in *.
  destruct (rejected_is_effect_free v r v' outs oc E H) as [-> ->].
  unfold clean. cbn. rewrite view_eqb_refl. cbn.
  destruct v as [s m u j c]; destruct s, m; reflexivity.
Qed.

(* ------------------------------------------------------------------------------------------------------------ *)
(* P0 fault_codes: in an allowed state, once no documented refusal applies *)

(* an unknown strategy gives INCORRECT_PARAMETERS, before any name is looked at *)
Theorem fault_codes_strategy :
  forall v r, gate_allows (rq_meth r) (nv_state v) = true -> documented_refusal v r = false ->
              bad_strategy r = true -> call v r = (v, [], Fault F_INCORRECT_PARAMETERS).
Proof.
  intros v r Hg Hd Hb. unfold call. rewrite Hg.
  destruct r as [m st a p i pg n lv rx w fl].
  unfold bad_strategy in Hb. cbn in Hb.
  destruct m; cbn in Hb; try discriminate Hb; destruct st; cbn in Hb; try discriminate Hb; reflexivity.
Qed.

(* an unknown application, process, program or instance name gives BAD_NAME *)
Theorem fault_codes_name :
  forall v r, gate_allows (rq_meth r) (nv_state v) = true -> documented_refusal v r = false ->
              bad_strategy r = false -> hostile_name r = false -> unknown_name r = true ->
              call v r = (v, [], Fault F_BAD_NAME).
Proof.
  intros v r Hg Hd Hs Hh Hn. unfold call. rewrite Hg. clear Hg.
  destruct r as [m st a p i pg n lv rx w fl]. destruct v as [s ma u j c].
  destruct m; cbv in Hn; try discriminate Hn; cbv in Hs, Hh, Hd; cbv;
    repeat (first [ discriminate | reflexivity | destruct_any_match ]; cbv in *).
Qed.

(* an application that is not Managed gives NOT_MANAGED (start / test_start / stop / restart_application) *)
Theorem fault_codes_not_managed :
  forall v r, gate_allows (rq_meth r) (nv_state v) = true ->
              bad_strategy r = false -> unknown_name r = false -> unmanaged_app r = true ->
              call v r = (v, [], Fault F_NOT_MANAGED).
Proof.
  intros v r Hg Hs Hn Hu. unfold call. rewrite Hg. clear Hg.
  destruct r as [m st a p i pg n lv rx w fl].
  unfold bad_strategy, unknown_name, unmanaged_app in *. cbn in *.
  destruct m; cbn in *; try discriminate Hu;
    destruct a; cbn in *; try discriminate Hu;
    destruct st; cbn in *; try discriminate Hs; reflexivity.
Qed.

Example fault_codes_sat :
  let v := mk_view S_OPERATION MOther true false true in
  let r := mk_req M_stop_application StOk ApUnmanaged PrKnown InIdent PgKnown NumOk LvOk RxMatch true false in
  gate_allows (rq_meth r) (nv_state v) = true /\ bad_strategy r = false /\ unknown_name r = false
  /\ unmanaged_app r = true.
Proof. vm_compute. repeat split. Qed.

(* the other documented parameter faults: an ill-formed regular expression and an identifier that designates several
   instances where one is needed give INCORRECT_PARAMETERS; a 'group:*' namespec for start_args gives BAD_NAME *)
Theorem fault_codes_regex :
  forall v r, gate_allows (rq_meth r) (nv_state v) = true -> bad_strategy r = false -> bad_regex r = true ->
              call v r = (v, [], Fault F_INCORRECT_PARAMETERS).
Proof.
  intros v r Hg Hs Hb. unfold call. rewrite Hg. clear Hg.
  destruct r as [m st a p i pg n lv rx w fl]. unfold bad_strategy, bad_regex in *. cbn in *.
  destruct m; cbn in *; try discriminate Hb; destruct rx; try discriminate Hb;
    destruct st; cbn in *; try discriminate Hs; reflexivity.
Qed.

Theorem fault_codes_ambiguous_instance :
  forall v r, gate_allows (rq_meth r) (nv_state v) = true -> documented_refusal v r = false ->
              ambiguous_instance r = true -> call v r = (v, [], Fault F_INCORRECT_PARAMETERS).
Proof.
  intros v r Hg Hd Ha. unfold call. rewrite Hg. clear Hg.
  destruct r as [m st a p i pg n lv rx w fl]. destruct v as [s ma u j c].
  unfold ambiguous_instance, documented_refusal in *. cbn in *.
  destruct m; cbn in *; try discriminate Ha; destruct i; try discriminate Ha; try reflexivity;
    destruct ma; cbn in *; try discriminate Hd; destruct u; cbn in *; try discriminate Hd; reflexivity.
Qed.

Theorem fault_codes_start_args_group :
  forall v r, group_not_applicable r = true -> unknown_name r = false -> hostile_name r = false ->
              call v r = (v, [], Fault F_BAD_NAME).
Proof.
  intros v r Hb Hn Hh.
  destruct r as [m st a p i pg n lv rx w fl]. unfold group_not_applicable, unknown_name, hostile_name in *. cbn in *.
  destruct m; cbn in *; try discriminate Hb; destruct p; try discriminate Hb;
    destruct a; cbn in *; try discriminate Hn; reflexivity.
Qed.

(* get_network_info is served, in every state, for an identifier, a nick identifier or a stereotype that designates
   one instance *)
Theorem network_info_accepts_nick :
  forall v r, network_info_designates_one r = true -> call v r = (v, [], Served).
Proof.
  intros v r H. destruct r as [m st a p i pg n lv rx w fl]. unfold network_info_designates_one in H. cbn in H.
  destruct m; cbn in H; try discriminate H; destruct i; try discriminate H; reflexivity.
Qed.

(* restart / shutdown without a known Master are refused with BAD_SUPVISORS_STATE, and nothing happens *)
Theorem restart_shutdown_no_master_refused :
  forall v r, is_restart_or_shutdown (rq_meth r) = true -> nv_master v = MNone ->
              call v r = (v, [], Fault F_BAD_SUPVISORS_STATE).
Proof.
  intros v r Hm Hn. destruct r as [m st a p i pg n lv rx w fl]. destruct v as [s ma u j c].
  cbn in Hm, Hn. subst ma. unfold call. cbn.
  destruct m; try discriminate Hm; destruct s; reflexivity.
Qed.

Example fault_codes_extra_sat :
  bad_regex (mk_req M_start_any_process StOk ApStopped PrKnown InIdent PgKnown NumOk LvOk RxBad true false) = true
  /\ ambiguous_instance (mk_req M_get_network_info StOk ApStopped PrKnown InMulti PgKnown NumOk LvOk RxMatch true false) = true
  /\ network_info_designates_one (mk_req M_get_network_info StOk ApStopped PrKnown InNick PgKnown NumOk LvOk RxMatch true false) = true.
Proof. vm_compute. repeat split. Qed.

(* ------------------------------------------------------------------------------------------------------------ *)
(* The remaining finding: the full statement is FALSE of the faithful model; witness replayed on the real code *)

(* a namespec that is not a string raises AttributeError *)
Theorem namespec_not_string_refuted :
  exists v r, class_namespec_not_string v r = true /\ call v r = (v, [], CrashO RAttributeError).
Proof.
  exists (mk_view S_OPERATION MSelf true false true),
         (mk_req M_stop_process StOk ApRunning PrInt InIdent PgKnown NumOk LvOk RxMatch true false).
  split; reflexivity.
Qed.

(* the full-strength statement (no exclusion) is false: *)
Theorem model_satisfies_spec_unrestricted_refuted :
  exists v r, spec_ok v r (model_obs v r) = false.
Proof.
  exists (mk_view S_OPERATION MSelf true false true),
         (mk_req M_get_process_info StOk ApStopped PrInt InIdent PgKnown NumOk LvOk RxMatch true false).
  reflexivity.
Qed.

(* ------------------------------------------------------------------------------------------------------------ *)
(* model |= spec: outside the known-finding class (non-string namespec), the observable the model predicts for ANY view and ANY
   request satisfies the specification written from the property statement *)
Ltac destruct_match_in H :=
  match type of H with
  | context [match ?x with _ => _ end] => is_var x; destruct x
  | context [if ?x then _ else _] => is_var x; destruct x
  end.

(* once the model has produced its triple, evaluate the specification on it *)
Ltac leaf E :=
  lazymatch type of E with
  | (pair (pair _ _) _) = _ => injection E as <- <- <-; cbv;
                               repeat (first [ reflexivity | destruct_one_match ]; cbv)
  end.

Theorem model_satisfies_spec :
  forall v r, in_known_class v r = false -> spec_ok v r (model_obs v r) = true.
Proof.
  intros v r Hk. unfold model_obs.
  destruct (call v r) as [[v' outs] oc] eqn:E.
  destruct r as [m st a p i pg n lv rx w fl]. destruct v as [s ma u j c].
  destruct m; cbv in Hk; cbv in E;
    repeat (first [ discriminate Hk | leaf E | destruct_match_in E | destruct_match_in Hk ];
            try cbv in Hk; try cbv in E).
Qed.

Example model_satisfies_spec_sat :
  in_known_class (mk_view S_CONCILIATION MOther true false true)
                 (mk_req M_stop_application StOk ApUnmanaged PrKnown InIdent PgKnown NumOk LvOk RxMatch true false)
  = false.
Proof. reflexivity. Qed.
