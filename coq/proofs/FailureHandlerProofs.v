(* FailureHandlerProofs.v — proofs about model/FailureHandler.v (C06). *)
From Sup Require Import FailureHandler.
Open Scope Z_scope.

(* ====================================================================== *)
(* 0. small facts on the Z-set helpers of Base.v                            *)
(* ====================================================================== *)
Lemma fh_zmem_In : forall k l, zmem k l = true <-> In k l.
Proof.
  intros k l. unfold zmem. rewrite existsb_exists. split.
  - intros [x [Hx He]]. apply Z.eqb_eq in He. subst. exact Hx.
  - intros H. exists k. split; [exact H|apply Z.eqb_refl].
Qed.

Lemma fh_zmem_false : forall k l, zmem k l = false <-> ~ In k l.
Proof.
  intros k l. rewrite <- fh_zmem_In. destruct (zmem k l); split; intros H; try discriminate; auto.
  exfalso. apply H. reflexivity.
Qed.

Lemma fh_In_zadd : forall k j l, In j (zadd k l) <-> j = k \/ In j l.
Proof.
  intros k j l. unfold zadd. destruct (zmem k l) eqn:E.
  - apply fh_zmem_In in E. split; [auto|]. intros [H|H]; subst; auto.
  - rewrite in_app_iff. simpl. split; intros H; [destruct H as [H|[H|[]]]|destruct H as [H|H]]; subst; auto.
Qed.

Lemma fh_NoDup_zadd : forall k l, NoDup l -> NoDup (zadd k l).
Proof.
  intros k l H. unfold zadd. destruct (zmem k l) eqn:E; [exact H|].
  apply fh_zmem_false in E. induction l as [|x r IH]; simpl.
  - constructor; [intros []|constructor].
  - inversion H as [|? ? Hx Hr]; subst. constructor.
    + rewrite in_app_iff. simpl. intros [Hi|[Hi|[]]]; [auto|]. subst. apply E. left. reflexivity.
    + apply IH; [exact Hr|]. intros Hi. apply E. right. exact Hi.
Qed.

Lemma fh_In_zdiscard : forall k j l, In j (zdiscard k l) <-> j <> k /\ In j l.
Proof.
  intros k j l. unfold zdiscard. rewrite filter_In. split.
  - intros [H1 H2]. split; [|exact H1]. intros He. subst. rewrite Z.eqb_refl in H2. discriminate.
  - intros [H1 H2]. split; [exact H2|]. destruct (Z.eqb k j) eqn:E; [|reflexivity].
    apply Z.eqb_eq in E. subst. contradiction.
Qed.

Lemma fh_NoDup_zdiscard : forall k l, NoDup l -> NoDup (zdiscard k l).
Proof. intros k l H. unfold zdiscard. apply NoDup_filter. exact H. Qed.

Lemma fh_zinsert_In : forall x y l, In y (zinsert x l) <-> y = x \/ In y l.
Proof.
  intros x y l. induction l as [|z r IH]; simpl.
  - split; intros [H|H]; auto.
  - destruct (Z.leb x z); simpl; [split; intros [H|H]; auto|].
    rewrite IH. split; intros H; [destruct H as [H|[H|H]]|destruct H as [H|[H|H]]]; auto.
Qed.

Lemma fh_zsort_In : forall y l, In y (zsort l) <-> In y l.
Proof.
  intros y l. induction l as [|x r IH]; simpl; [reflexivity|].
  unfold zsort in *. simpl. rewrite fh_zinsert_In, IH. split; intros [H|H]; auto.
Qed.

Lemma fh_NoDup_zinsert : forall x l, NoDup l -> ~ In x l -> NoDup (zinsert x l).
Proof.
  intros x l. induction l as [|z r IH]; intros Hn Hx; simpl.
  - constructor; [intros []|constructor].
  - destruct (Z.leb x z).
    + constructor; assumption.
    + inversion Hn as [|? ? Hz Hr]; subst. constructor.
      * rewrite fh_zinsert_In. intros [H|H]; [subst; apply Hx; left; reflexivity|contradiction].
      * apply IH; [exact Hr|]. intros H. apply Hx. right. exact H.
Qed.

Lemma fh_NoDup_zsort : forall l, NoDup l -> NoDup (zsort l).
Proof.
  intros l H. induction l as [|x r IH]; simpl; [constructor|].
  inversion H as [|? ? Hx Hr]; subst. unfold zsort in *. simpl.
  apply fh_NoDup_zinsert; [apply IH; exact Hr|]. rewrite (fh_zsort_In x r). exact Hx.
Qed.

Lemma nodupb_NoDup : forall l, nodupb l = true <-> NoDup l.
Proof.
  induction l as [|x r IH]; simpl.
  - split; [constructor|reflexivity].
  - rewrite andb_true_iff, negb_true_iff, fh_zmem_false, IH. split.
    + intros [H1 H2]. constructor; assumption.
    + intros H. inversion H; subst. split; assumption.
Qed.

Lemma zset_eqb_iff : forall a b, zset_eqb a b = true <-> (forall x, In x a <-> In x b).
Proof.
  intros a b. unfold zset_eqb. rewrite andb_true_iff, !forallb_forall. split.
  - intros [H1 H2] x. split; intros H; [apply fh_zmem_In, H1, H|apply fh_zmem_In, H2, H].
  - intros H. split; intros x Hx; apply fh_zmem_In, H, Hx.
Qed.

Lemma rf_eqb_eq : forall a b, rf_eqb a b = true <-> a = b.
Proof. intros a b. destruct a, b; simpl; split; intros H; try reflexivity; try discriminate. Qed.

Lemma of_app_iff : forall c a p, of_app c a p = true <-> app_of c p = a.
Proof. intros. unfold of_app. apply Z.eqb_eq. Qed.

Lemma lookup_ok : forall c p pi, lookup c p = Ok pi ->
  app_of c p = pi_app pi /\ seq_of c p = pi_seq pi /\ strat_of c p = pi_strat pi.
Proof.
  intros c p pi H. unfold lookup in H. unfold app_of, seq_of, strat_of.
  destruct (aget p (c_procs c)) as [q|]; [|discriminate].
  destruct (zmem (pi_app q) (c_apps c)); inversion H; subst. auto.
Qed.

(* ====================================================================== *)
(* 1. the exclusion invariant                                               *)
(* ====================================================================== *)
Record Inv (c : ctx) (h : handler) : Prop := mkInv {
  inv_nd_stop : NoDup (h_stop h);
  inv_nd_rapp : NoDup (h_rapp h);
  inv_nd_rproc : NoDup (h_rproc h);
  inv_nd_cont : NoDup (h_cont h);
  (* STOP_APPLICATION supersedes everything of the application *)
  inv_stop_rapp : forall a, In a (h_stop h) -> ~ In a (h_rapp h);
  inv_stop_proc : forall a p, In a (h_stop h) -> app_of c p = a -> ~ In p (h_rproc h) /\ ~ In p (h_cont h);
  (* RESTART_APPLICATION supersedes the process jobs of the start sequence *)
  inv_rapp_proc : forall a p, In a (h_rapp h) -> app_of c p = a -> seq_of c p = true ->
                              ~ In p (h_rproc h) /\ ~ In p (h_cont h);
  (* RESTART_PROCESS supersedes CONTINUE *)
  inv_rproc_cont : forall p, In p (h_rproc h) -> ~ In p (h_cont h)
}.

Lemma Inv_empty : forall c, Inv c h_empty.
Proof. intros c. constructor; simpl; try constructor; intros; auto. Qed.

Lemma Inv_add_stop : forall c a h, Inv c h -> Inv c (add_stop c a h).
Proof.
  intros c a h [N1 N2 N3 N4 I1 I2 I3 I4]. unfold add_stop. constructor; simpl.
  - apply fh_NoDup_zadd; exact N1.
  - apply fh_NoDup_zdiscard; exact N2.
  - apply NoDup_filter; exact N3.
  - apply NoDup_filter; exact N4.
  - intros a' Ha. rewrite fh_In_zdiscard. rewrite fh_In_zadd in Ha. intros [Hne Hr].
    destruct Ha as [Ha|Ha]; [contradiction|]. exact (I1 a' Ha Hr).
  - intros a' p Ha Hp. rewrite fh_In_zadd in Ha. rewrite !filter_In, !negb_true_iff. destruct Ha as [Ha|Ha].
    + subst a'. assert (E : of_app c a p = true) by (apply of_app_iff; exact Hp). rewrite E.
      split; intros [_ Hf]; discriminate.
    + destruct (I2 a' p Ha Hp) as [H1 H2]. split; intros [Hi _]; auto.
  - intros a' p Ha Hp Hs. rewrite fh_In_zdiscard in Ha. destruct Ha as [_ Ha].
    destruct (I3 a' p Ha Hp Hs) as [H1 H2]. rewrite !filter_In. split; intros [Hi _]; auto.
  - intros p Hp. rewrite filter_In in *. destruct Hp as [Hp _]. intros [Hc _]. exact (I4 p Hp Hc).
Qed.

Lemma Inv_add_rapp : forall c a h, Inv c h -> Inv c (add_rapp c a h).
Proof.
  intros c a h HI. unfold add_rapp. destruct (zmem a (h_stop h)) eqn:Es; [exact HI|].
  apply fh_zmem_false in Es. destruct HI as [N1 N2 N3 N4 I1 I2 I3 I4]. constructor; simpl.
  - exact N1.
  - apply fh_NoDup_zadd; exact N2.
  - apply NoDup_filter; exact N3.
  - apply NoDup_filter; exact N4.
  - intros a' Ha. rewrite fh_In_zadd. intros [He|Hr]; [subst; contradiction|]. exact (I1 a' Ha Hr).
  - intros a' p Ha Hp. destruct (I2 a' p Ha Hp) as [H1 H2]. rewrite !filter_In. split; intros [Hi _]; auto.
  - intros a' p Ha Hp Hs. rewrite fh_In_zadd in Ha. rewrite !filter_In, !negb_true_iff. destruct Ha as [Ha|Ha].
    + subst a'. assert (E : of_app c a p = true) by (apply of_app_iff; exact Hp). rewrite E, Hs.
      split; intros [_ Hf]; discriminate.
    + destruct (I3 a' p Ha Hp Hs) as [H1 H2]. split; intros [Hi _]; auto.
  - intros p Hp. rewrite filter_In in *. destruct Hp as [Hp _]. intros [Hc _]. exact (I4 p Hp Hc).
Qed.

Lemma Inv_add_rproc : forall c a p h, app_of c p = a -> Inv c h -> Inv c (add_rproc c a p h).
Proof.
  intros c a p h Hap HI. unfold add_rproc. destruct (zmem a (h_stop h)) eqn:Es; [exact HI|].
  destruct (zmem a (h_rapp h) && seq_of c p) eqn:Er; [exact HI|].
  apply fh_zmem_false in Es. destruct HI as [N1 N2 N3 N4 I1 I2 I3 I4]. constructor; simpl.
  - exact N1.
  - exact N2.
  - apply fh_NoDup_zadd; exact N3.
  - apply fh_NoDup_zdiscard; exact N4.
  - exact I1.
  - intros a' p' Ha Hp. rewrite fh_In_zadd, fh_In_zdiscard. destruct (I2 a' p' Ha Hp) as [H1 H2].
    split; [|intros [_ Hc]; auto]. intros [He|Hi]; [|auto]. subst p'. rewrite Hap in Hp. subst a'. contradiction.
  - intros a' p' Ha Hp Hs. rewrite fh_In_zadd, fh_In_zdiscard. destruct (I3 a' p' Ha Hp Hs) as [H1 H2].
    split; [|intros [_ Hc]; auto]. intros [He|Hi]; [|auto]. subst p'. rewrite Hap in Hp. subst a'.
    apply fh_zmem_In in Ha. rewrite Ha, Hs in Er. discriminate.
  - intros p' Hp. rewrite fh_In_zdiscard. rewrite fh_In_zadd in Hp. intros [Hne Hc].
    destruct Hp as [Hp|Hp]; [contradiction|]. exact (I4 p' Hp Hc).
Qed.

Lemma Inv_add_cont : forall c a p h, app_of c p = a -> Inv c h -> Inv c (add_cont c a p h).
Proof.
  intros c a p h Hap HI. unfold add_cont. destruct (zmem a (h_stop h)) eqn:Es; [exact HI|].
  destruct (zmem a (h_rapp h) && seq_of c p) eqn:Er; [exact HI|].
  destruct (zmem p (h_rproc h)) eqn:Ep; [exact HI|].
  apply fh_zmem_false in Es. apply fh_zmem_false in Ep.
  destruct HI as [N1 N2 N3 N4 I1 I2 I3 I4]. constructor; simpl.
  - exact N1.
  - exact N2.
  - exact N3.
  - apply fh_NoDup_zadd; exact N4.
  - exact I1.
  - intros a' p' Ha Hp. rewrite fh_In_zadd. destruct (I2 a' p' Ha Hp) as [H1 H2].
    split; [exact H1|]. intros [He|Hi]; [|auto]. subst p'. rewrite Hap in Hp. subst a'. contradiction.
  - intros a' p' Ha Hp Hs. rewrite fh_In_zadd. destruct (I3 a' p' Ha Hp Hs) as [H1 H2].
    split; [exact H1|]. intros [He|Hi]; [|auto]. subst p'. rewrite Hap in Hp. subst a'.
    apply fh_zmem_In in Ha. rewrite Ha, Hs in Er. discriminate.
  - intros p' Hp. rewrite fh_In_zadd. intros [He|Hc]; [subst; contradiction|]. exact (I4 p' Hp Hc).
Qed.

Lemma Inv_add_job : forall c s p h h', Inv c h -> add_job c s p h = Ok h' -> Inv c h'.
Proof.
  intros c s p h h' HI H. unfold add_job in H. destruct (lookup c p) as [pi|k] eqn:El; [|discriminate].
  simpl in H. inversion H; subst h'; clear H. destruct (lookup_ok c p pi El) as [Ha _].
  destruct s.
  - apply Inv_add_cont; assumption.
  - apply Inv_add_rproc; assumption.
  - apply Inv_add_stop; assumption.
  - apply Inv_add_rapp; assumption.
  - exact HI.
  - exact HI.
Qed.

Lemma Inv_add_default : forall c p st h h', Inv c h -> add_default c p st h = Ok h' -> Inv c h'.
Proof.
  intros c p st h h' HI H. unfold add_default in H.
  destruct (add_job c (strat_of c p) p h) as [h1|k] eqn:E1; [|discriminate]. simpl in H.
  pose proof (Inv_add_job _ _ _ _ _ HI E1) as H1.
  destruct (strat_of c p); try (inversion H; subst; exact H1).
  destruct (st && seq_of c p); [|inversion H; subst; exact H1].
  exact (Inv_add_job _ _ _ _ _ H1 H).
Qed.

Lemma Inv_trigger : forall c busy h, Inv c h -> Inv c (fst (trigger c busy h)).
Proof.
  intros c busy h [N1 N2 N3 N4 I1 I2 I3 I4]. unfold trigger. simpl. constructor; simpl.
  - apply NoDup_filter; exact N1.
  - apply NoDup_filter; exact N2.
  - apply NoDup_filter; exact N3.
  - constructor.
  - intros a Ha. rewrite filter_In in *. destruct Ha as [Ha _]. intros [Hr _]. exact (I1 a Ha Hr).
  - intros a p Ha Hp. rewrite filter_In in *. destruct Ha as [Ha _]. destruct (I2 a p Ha Hp) as [H1 _].
    split; [intros [Hi _]; auto|intros []].
  - intros a p Ha Hp Hs. rewrite filter_In in *. destruct Ha as [Ha _]. destruct (I3 a p Ha Hp Hs) as [H1 _].
    split; [intros [Hi _]; auto|intros []].
  - intros p _ [].
Qed.

Lemma Inv_step : forall c h o h' t, Inv c h -> step c h o = Ok (h', t) -> Inv c h'.
Proof.
  intros c h o h' t HI H. destruct o as [s p|p st|busy|]; simpl in H.
  - destruct (add_job c s p h) as [h1|k] eqn:E; [|discriminate]. simpl in H. inversion H; subst.
    exact (Inv_add_job _ _ _ _ _ HI E).
  - destruct (add_default c p st h) as [h1|k] eqn:E; [|discriminate]. simpl in H. inversion H; subst.
    exact (Inv_add_default _ _ _ _ _ HI E).
  - inversion H; subst. apply Inv_trigger. exact HI.
  - inversion H; subst. apply Inv_empty.
Qed.

(* the handler state after a sequence of operations (None when a call raised) *)
Fixpoint steps (c : ctx) (h : handler) (ops : list op) : result handler :=
  match ops with
  | [] => Ok h
  | o :: r => bind (step c h o) (fun x => steps c (fst x) r)
  end.

Lemma Inv_steps : forall c ops h h', Inv c h -> steps c h ops = Ok h' -> Inv c h'.
Proof.
  intros c ops. induction ops as [|o r IH]; intros h h' HI H; simpl in H.
  - inversion H; subst. exact HI.
  - destruct (step c h o) as [[h1 t]|k] eqn:E; [|discriminate]. simpl in H.
    exact (IH h1 h' (Inv_step _ _ _ _ _ HI E) H).
Qed.

(* P0 handler_exclusion_inv : every sequence of add_job / add_default_job / trigger_jobs / abort *)
Theorem handler_exclusion_inv : forall c ops h, steps c h_empty ops = Ok h -> Inv c h.
Proof. intros c ops h H. exact (Inv_steps c ops h_empty h (Inv_empty c) H). Qed.

(* ====================================================================== *)
(* 2. the job sets are a function of the notifications not yet acted upon   *)
(* ====================================================================== *)
(* some pending notification of application a carries strategy s *)
Definition has (c : ctx) (pend : list notif) (s : rfstrat) (a : Z) : Prop :=
  exists p, In (s, p) pend /\ app_of c p = a.

(* the process jobs of p are superseded by an application-level job *)
Definition covered (c : ctx) (pend : list notif) (p : Z) : Prop :=
  has c pend RfStopApplication (app_of c p)
  \/ (has c pend RfRestartApplication (app_of c p) /\ seq_of c p = true).

Record Sim (c : ctx) (h : handler) (pend : list notif) : Prop := mkSim {
  sim_stop : forall a, In a (h_stop h) <-> has c pend RfStopApplication a;
  sim_rapp : forall a, In a (h_rapp h) <->
                       has c pend RfRestartApplication a /\ ~ has c pend RfStopApplication a;
  sim_rproc : forall p, In p (h_rproc h) <-> In (RfRestartProcess, p) pend /\ ~ covered c pend p;
  sim_cont : forall p, In p (h_cont h) <->
                       In (RfContinue, p) pend /\ ~ In (RfRestartProcess, p) pend /\ ~ covered c pend p
}.

Lemma In_snoc : forall (s s' : rfstrat) (p p' : Z) pend,
  In (s', p') (pend ++ [(s, p)]) <-> In (s', p') pend \/ (s' = s /\ p' = p).
Proof.
  intros. rewrite in_app_iff. simpl. split; intros [H|H]; auto.
  - destruct H as [H|[]]. inversion H; subst. auto.
  - destruct H as [H1 H2]. subst. auto.
Qed.

Lemma has_snoc : forall c pend s p s' a,
  has c (pend ++ [(s, p)]) s' a <-> has c pend s' a \/ (s' = s /\ a = app_of c p).
Proof.
  intros. unfold has. split.
  - intros [q [Hq Ha]]. apply In_snoc in Hq. destruct Hq as [Hq|[H1 H2]].
    + left. exists q. auto.
    + right. subst. auto.
  - intros [[q [Hq Ha]]|[H1 H2]].
    + exists q. split; [apply In_snoc; auto|exact Ha].
    + subst. exists p. split; [apply In_snoc; auto|reflexivity].
Qed.

Lemma of_app_false : forall c a p, of_app c a p = false <-> app_of c p <> a.
Proof. intros. unfold of_app. apply Z.eqb_neq. Qed.

Lemma Sim_empty : forall c, Sim c h_empty [].
Proof.
  intros c. constructor; intros x; unfold has; simpl.
  - split; [intros []|intros [q [[] _]]].
  - split; [intros []|intros [[q [[] _]] _]].
  - split; [intros []|intros [[] _]].
  - split; [intros []|intros [[] _]].
Qed.

Ltac snoc_norm :=
  unfold covered; repeat rewrite has_snoc; repeat rewrite In_snoc.

Lemma Sim_add_stop : forall c p h pend, Sim c h pend ->
  Sim c (add_stop c (app_of c p) h) (pend ++ [(RfStopApplication, p)]).
Proof.
  intros c p h pend [S1 S2 S3 S4]. unfold add_stop. constructor; simpl; intros x.
  - rewrite fh_In_zadd, S1. snoc_norm. intuition congruence.
  - rewrite fh_In_zdiscard, S2. snoc_norm. intuition (try discriminate; try congruence).
  - rewrite filter_In, negb_true_iff, of_app_false, S3. snoc_norm.
    intuition (try discriminate; try congruence).
  - rewrite filter_In, negb_true_iff, of_app_false, S4. snoc_norm.
    intuition (try discriminate; try congruence).
Qed.

Lemma Sim_add_rapp : forall c p h pend, Sim c h pend ->
  Sim c (add_rapp c (app_of c p) h) (pend ++ [(RfRestartApplication, p)]).
Proof.
  intros c p h pend [S1 S2 S3 S4]. unfold add_rapp.
  destruct (zmem (app_of c p) (h_stop h)) eqn:Es.
  - apply fh_zmem_In in Es. rewrite S1 in Es. constructor; intros x.
    + rewrite S1. snoc_norm. intuition (try discriminate; try congruence).
    + rewrite S2. snoc_norm. intuition (try discriminate; try congruence).
    + rewrite S3. snoc_norm. intuition (try discriminate; try congruence).
    + rewrite S4. snoc_norm. intuition (try discriminate; try congruence).
  - apply fh_zmem_false in Es. rewrite S1 in Es. constructor; simpl; intros x.
    + rewrite S1. snoc_norm. intuition (try discriminate; try congruence).
    + rewrite fh_In_zadd, S2. snoc_norm. intuition (try discriminate; try congruence).
    + rewrite filter_In, negb_true_iff, andb_false_iff, of_app_false, S3. snoc_norm.
      destruct (seq_of c x); intuition (try discriminate; try congruence).
    + rewrite filter_In, negb_true_iff, andb_false_iff, of_app_false, S4. snoc_norm.
      destruct (seq_of c x); intuition (try discriminate; try congruence).
Qed.

Lemma Sim_add_rproc : forall c p h pend, Sim c h pend ->
  Sim c (add_rproc c (app_of c p) p h) (pend ++ [(RfRestartProcess, p)]).
Proof.
  intros c p h pend [S1 S2 S3 S4]. unfold add_rproc.
  destruct (zmem (app_of c p) (h_stop h)) eqn:Es.
  - apply fh_zmem_In in Es. rewrite S1 in Es. constructor; intros x.
    + rewrite S1. snoc_norm. intuition (try discriminate; try congruence).
    + rewrite S2. snoc_norm. intuition (try discriminate; try congruence).
    + rewrite S3. snoc_norm. intuition (try discriminate; subst; try congruence; tauto).
    + rewrite S4. snoc_norm. intuition (try discriminate; subst; try congruence; tauto).
  - apply fh_zmem_false in Es. rewrite S1 in Es.
    destruct (zmem (app_of c p) (h_rapp h) && seq_of c p) eqn:Er.
    + apply andb_true_iff in Er. destruct Er as [Er Eq]. apply fh_zmem_In in Er. rewrite S2 in Er.
      constructor; intros x.
      * rewrite S1. snoc_norm. intuition (try discriminate; try congruence).
      * rewrite S2. snoc_norm. intuition (try discriminate; try congruence).
      * rewrite S3. snoc_norm. intuition (try discriminate; subst; try congruence; tauto).
      * rewrite S4. snoc_norm. intuition (try discriminate; subst; try congruence; tauto).
    + assert (Hnc : ~ (has c pend RfRestartApplication (app_of c p) /\ seq_of c p = true)).
      { intros [H1 H2]. rewrite H2, andb_true_r in Er. apply fh_zmem_false in Er. apply Er. apply S2. tauto. }
      constructor; simpl; intros x.
      * rewrite S1. snoc_norm. intuition (try discriminate; try congruence).
      * rewrite S2. snoc_norm. intuition (try discriminate; try congruence).
      * rewrite fh_In_zadd, S3. snoc_norm. intuition (try discriminate; subst; try congruence; tauto).
      * rewrite fh_In_zdiscard, S4. snoc_norm. intuition (try discriminate; subst; try congruence; tauto).
Qed.

Lemma Sim_add_cont : forall c p h pend, Sim c h pend ->
  Sim c (add_cont c (app_of c p) p h) (pend ++ [(RfContinue, p)]).
Proof.
  intros c p h pend [S1 S2 S3 S4]. unfold add_cont.
  destruct (zmem (app_of c p) (h_stop h)) eqn:Es.
  - apply fh_zmem_In in Es. rewrite S1 in Es. constructor; intros x.
    + rewrite S1. snoc_norm. intuition (try discriminate; try congruence).
    + rewrite S2. snoc_norm. intuition (try discriminate; try congruence).
    + rewrite S3. snoc_norm. intuition (try discriminate; subst; try congruence; tauto).
    + rewrite S4. snoc_norm. intuition (try discriminate; subst; try congruence; tauto).
  - apply fh_zmem_false in Es. rewrite S1 in Es.
    destruct (zmem (app_of c p) (h_rapp h) && seq_of c p) eqn:Er.
    + apply andb_true_iff in Er. destruct Er as [Er Eq]. apply fh_zmem_In in Er. rewrite S2 in Er.
      constructor; intros x.
      * rewrite S1. snoc_norm. intuition (try discriminate; try congruence).
      * rewrite S2. snoc_norm. intuition (try discriminate; try congruence).
      * rewrite S3. snoc_norm. intuition (try discriminate; subst; try congruence; tauto).
      * rewrite S4. snoc_norm. intuition (try discriminate; subst; try congruence; tauto).
    + assert (Hnc : ~ (has c pend RfRestartApplication (app_of c p) /\ seq_of c p = true)).
      { intros [H1 H2]. rewrite H2, andb_true_r in Er. apply fh_zmem_false in Er. apply Er. apply S2. tauto. }
      destruct (zmem p (h_rproc h)) eqn:Ep.
      * apply fh_zmem_In in Ep. rewrite S3 in Ep. constructor; intros x.
        -- rewrite S1. snoc_norm. intuition (try discriminate; try congruence).
        -- rewrite S2. snoc_norm. intuition (try discriminate; try congruence).
        -- rewrite S3. snoc_norm. intuition (try discriminate; subst; try congruence; tauto).
        -- rewrite S4. snoc_norm. intuition (try discriminate; subst; try congruence; tauto).
      * apply fh_zmem_false in Ep. rewrite S3 in Ep. constructor; simpl; intros x.
        -- rewrite S1. snoc_norm. intuition (try discriminate; try congruence).
        -- rewrite S2. snoc_norm. intuition (try discriminate; try congruence).
        -- rewrite S3. snoc_norm. intuition (try discriminate; subst; try congruence; tauto).
        -- rewrite fh_In_zadd, S4. snoc_norm. unfold covered in Ep.
           intuition (try discriminate; subst; try congruence; tauto).
Qed.

(* SHUTDOWN / RESTART : no job, and the notification changes nothing that the handler looks at *)
Lemma Sim_add_noop : forall c p s h pend, rank s = 0 -> Sim c h pend -> Sim c h (pend ++ [(s, p)]).
Proof.
  intros c p s h pend Hs [S1 S2 S3 S4].
  assert (s <> RfStopApplication /\ s <> RfRestartApplication /\ s <> RfRestartProcess /\ s <> RfContinue)
    as [N1 [N2 [N3 N4]]] by (destruct s; simpl in Hs; try discriminate; repeat split; discriminate).
  constructor; intros x.
  - rewrite S1. snoc_norm. intuition (try congruence).
  - rewrite S2. snoc_norm. intuition (try congruence).
  - rewrite S3. snoc_norm. intuition (try congruence).
  - rewrite S4. snoc_norm. intuition (try congruence).
Qed.

Lemma Sim_add_job : forall c s p h h' pend, Sim c h pend -> add_job c s p h = Ok h' ->
  Sim c h' (pend ++ [(s, p)]).
Proof.
  intros c s p h h' pend HS H. unfold add_job in H. destruct (lookup c p) as [pi|k] eqn:El; [|discriminate].
  simpl in H. inversion H; subst h'; clear H. destruct (lookup_ok c p pi El) as [Ha _]. rewrite <- Ha.
  destruct s.
  - apply Sim_add_cont; exact HS.
  - apply Sim_add_rproc; exact HS.
  - apply Sim_add_stop; exact HS.
  - apply Sim_add_rapp; exact HS.
  - apply Sim_add_noop; [reflexivity|exact HS].
  - apply Sim_add_noop; [reflexivity|exact HS].
Qed.

(* the promotion: notifying RESTART_PROCESS then RESTART_APPLICATION for a process of the start sequence
   leaves the same jobs as notifying RESTART_APPLICATION alone *)
Lemma Sim_promotion : forall c p h pend, seq_of c p = true ->
  Sim c h ((pend ++ [(RfRestartProcess, p)]) ++ [(RfRestartApplication, p)]) ->
  Sim c h (pend ++ [(RfRestartApplication, p)]).
Proof.
  intros c p h pend Hq [S1 S2 S3 S4]. constructor; intros x.
  - rewrite S1. snoc_norm. intuition (try discriminate; try congruence).
  - rewrite S2. snoc_norm. intuition (try discriminate; try congruence).
  - rewrite S3. snoc_norm. intuition (try discriminate; subst; try congruence; tauto).
  - rewrite S4. snoc_norm. intuition (try discriminate; subst; try congruence; tauto).
Qed.

Lemma add_job_total : forall c s p h pi, lookup c p = Ok pi -> exists h', add_job c s p h = Ok h'.
Proof. intros c s p h pi H. unfold add_job. rewrite H. simpl. eexists. reflexivity. Qed.

Lemma Sim_add_default : forall c p st h h' pend, Sim c h pend -> add_default c p st h = Ok h' ->
  Sim c h' (pend ++ [(effective c p st, p)]).
Proof.
  intros c p st h h' pend HS H. unfold add_default in H. unfold effective.
  destruct (add_job c (strat_of c p) p h) as [h1|k] eqn:E1; [|discriminate]. simpl in H.
  pose proof (Sim_add_job _ _ _ _ _ _ HS E1) as H1.
  destruct (strat_of c p) eqn:Est; try (inversion H; subst; exact H1).
  destruct (st && seq_of c p) eqn:Ep; [|inversion H; subst; exact H1].
  apply andb_true_iff in Ep. destruct Ep as [_ Eq].
  apply Sim_promotion; [exact Eq|]. exact (Sim_add_job _ _ _ _ _ _ H1 H).
Qed.

Lemma has_filter : forall c pend f s a,
  has c (filter f pend) s a <-> exists p, In (s, p) pend /\ app_of c p = a /\ f (s, p) = true.
Proof.
  intros. unfold has. split.
  - intros [p [Hp Ha]]. apply filter_In in Hp. exists p. tauto.
  - intros [p [Hp [Ha Hf]]]. exists p. rewrite filter_In. tauto.
Qed.

Definition keep (c : ctx) (busy : list Z) (n : notif) : bool :=
  zmem (app_of c (snd n)) busy && negb (rf_eqb (fst n) RfContinue).

Lemma has_keep : forall c busy pend s a, s <> RfContinue ->
  (has c (filter (keep c busy) pend) s a <-> has c pend s a /\ zmem a busy = true).
Proof.
  intros c busy pend s a Hs. rewrite has_filter. unfold has, keep.
  assert (E : negb (rf_eqb s RfContinue) = true).
  { destruct (rf_eqb s RfContinue) eqn:E; [apply rf_eqb_eq in E; contradiction|reflexivity]. }
  split.
  - intros [p [H1 [H2 H3]]]. simpl in H3. rewrite E, andb_true_r in H3. subst a. split; [exists p; auto|exact H3].
  - intros [[p [H1 H2]] H3]. exists p. simpl. rewrite E, andb_true_r. subst a. auto.
Qed.

Lemma Sim_trigger : forall c busy h pend, Sim c h pend ->
  Sim c (fst (trigger c busy h)) (filter (keep c busy) pend).
Proof.
  intros c busy h pend [S1 S2 S3 S4]. unfold trigger. simpl. constructor; simpl; intros x.
  - rewrite filter_In, S1, has_keep by discriminate. tauto.
  - rewrite filter_In, S2, !has_keep by discriminate. tauto.
  - rewrite !filter_In, S3. unfold covered. rewrite !has_keep by discriminate. unfold keep. simpl.
    rewrite andb_true_r. tauto.
  - rewrite filter_In. unfold keep. simpl. rewrite andb_false_r. split; [intros []|intros [[_ H] _]; discriminate].
Qed.

Lemma Sim_step : forall c h o h' t pend, Sim c h pend -> step c h o = Ok (h', t) ->
  Sim c h' (spec_step c pend o).
Proof.
  intros c h o h' t pend HS H. destruct o as [s p|p st|busy|]; simpl in H |- *.
  - destruct (add_job c s p h) as [h1|k] eqn:E; [|discriminate]. simpl in H. inversion H; subst.
    exact (Sim_add_job _ _ _ _ _ _ HS E).
  - destruct (add_default c p st h) as [h1|k] eqn:E; [|discriminate]. simpl in H. inversion H; subst.
    exact (Sim_add_default _ _ _ _ _ _ HS E).
  - inversion H; subst. apply (Sim_trigger c busy h pend HS).
  - inversion H; subst. apply Sim_empty.
Qed.

(* the notifications not yet acted upon after a sequence of operations *)
Definition pending (c : ctx) (ops : list op) : list notif := fold_left (spec_step c) ops [].

Lemma Sim_steps : forall c ops h h' pend, Sim c h pend -> steps c h ops = Ok h' ->
  Sim c h' (fold_left (spec_step c) ops pend).
Proof.
  intros c ops. induction ops as [|o r IH]; intros h h' pend HS H; simpl in H |- *.
  - inversion H; subst. exact HS.
  - destruct (step c h o) as [[h1 t]|k] eqn:E; [|discriminate]. simpl in H.
    exact (IH h1 h' _ (Sim_step _ _ _ _ _ _ HS E) H).
Qed.

(* P0 precedence, set form: whatever the sequence of operations, the four job sets are exactly determined by
   the notifications still pending, with STOP_APPLICATION > RESTART_APPLICATION > RESTART_PROCESS > CONTINUE *)
Theorem handler_tracks_pending : forall c ops h, steps c h_empty ops = Ok h -> Sim c h (pending c ops).
Proof. intros c ops h H. exact (Sim_steps c ops h_empty h [] (Sim_empty c) H). Qed.

(* ====================================================================== *)
(* 3. the maximum rank of the pending notifications                         *)
(* ====================================================================== *)
Lemma max_rank_ge : forall c a pend r, 0 < r ->
  (r <= max_rank c a pend <-> exists n, In n pend /\ app_of c (snd n) = a /\ r <= rank (fst n)).
Proof.
  intros c a pend r Hr. induction pend as [|n l IH]; simpl.
  - split; [lia|intros [n [[] _]]].
  - destruct (Z.eqb (app_of c (snd n)) a) eqn:E.
    + apply Z.eqb_eq in E. rewrite Z.max_le_iff, IH. split.
      * intros [H|[m [H1 [H2 H3]]]]; [exists n; auto|exists m; auto].
      * intros [m [[H1|H1] [H2 H3]]]; [subst m; auto|right; exists m; auto].
    + apply Z.eqb_neq in E. rewrite IH. split.
      * intros [m [H1 [H2 H3]]]. exists m; auto.
      * intros [m [[H1|H1] [H2 H3]]]; [subst m; contradiction|exists m; auto].
Qed.

Lemma rank_ge4 : forall s, 4 <= rank s <-> s = RfStopApplication.
Proof. intros s. destruct s; simpl; split; intros H; try lia; try discriminate; reflexivity. Qed.
Lemma rank_ge3 : forall s, 3 <= rank s <-> s = RfStopApplication \/ s = RfRestartApplication.
Proof. intros s. destruct s; simpl; split; intros H; try lia; auto; destruct H; discriminate. Qed.
Lemma rank_ge2 : forall s, 2 <= rank s <->
  s = RfStopApplication \/ s = RfRestartApplication \/ s = RfRestartProcess.
Proof. intros s. destruct s; simpl; split; intros H; try lia; auto; destruct H as [H|[H|H]]; discriminate. Qed.
Lemma rank_ge1 : forall s, 1 <= rank s <->
  s = RfStopApplication \/ s = RfRestartApplication \/ s = RfRestartProcess \/ s = RfContinue.
Proof. intros s. destruct s; simpl; split; intros H; try lia; auto; destruct H as [H|[H|[H|H]]]; discriminate. Qed.

Lemma max_rank_4 : forall c a pend, 4 <= max_rank c a pend <-> has c pend RfStopApplication a.
Proof.
  intros. rewrite max_rank_ge by lia. unfold has. split.
  - intros [[s p] [H1 [H2 H3]]]. simpl in *. apply rank_ge4 in H3. subst. exists p. auto.
  - intros [p [H1 H2]]. exists (RfStopApplication, p). simpl. split; [exact H1|split; [exact H2|lia]].
Qed.

Lemma max_rank_3 : forall c a pend, 3 <= max_rank c a pend <->
  has c pend RfStopApplication a \/ has c pend RfRestartApplication a.
Proof.
  intros. rewrite max_rank_ge by lia. unfold has. split.
  - intros [[s p] [H1 [H2 H3]]]. simpl in *. apply rank_ge3 in H3. destruct H3; subst; [left|right]; exists p; auto.
  - intros [[p [H1 H2]]|[p [H1 H2]]].
    + exists (RfStopApplication, p). simpl. split; [exact H1|split; [exact H2|lia]].
    + exists (RfRestartApplication, p). simpl. split; [exact H1|split; [exact H2|lia]].
Qed.

Lemma max_rank_2 : forall c a pend, 2 <= max_rank c a pend <->
  has c pend RfStopApplication a \/ has c pend RfRestartApplication a \/ has c pend RfRestartProcess a.
Proof.
  intros. rewrite max_rank_ge by lia. unfold has. split.
  - intros [[s p] [H1 [H2 H3]]]. simpl in *. apply rank_ge2 in H3.
    destruct H3 as [H3|[H3|H3]]; subst; [left|right; left|right; right]; exists p; auto.
  - intros [[p [H1 H2]]|[[p [H1 H2]]|[p [H1 H2]]]].
    + exists (RfStopApplication, p). simpl. split; [exact H1|split; [exact H2|lia]].
    + exists (RfRestartApplication, p). simpl. split; [exact H1|split; [exact H2|lia]].
    + exists (RfRestartProcess, p). simpl. split; [exact H1|split; [exact H2|lia]].
Qed.

Lemma max_rank_1 : forall c a pend, 1 <= max_rank c a pend <->
  has c pend RfStopApplication a \/ has c pend RfRestartApplication a \/ has c pend RfRestartProcess a
  \/ has c pend RfContinue a.
Proof.
  intros. rewrite max_rank_ge by lia. unfold has. split.
  - intros [[s p] [H1 [H2 H3]]]. simpl in *. apply rank_ge1 in H3.
    destruct H3 as [H3|[H3|[H3|H3]]]; subst; [left|right; left|right; right; left|right; right; right]; exists p; auto.
  - intros [[p [H1 H2]]|[[p [H1 H2]]|[[p [H1 H2]]|[p [H1 H2]]]]].
    + exists (RfStopApplication, p). simpl. split; [exact H1|split; [exact H2|lia]].
    + exists (RfRestartApplication, p). simpl. split; [exact H1|split; [exact H2|lia]].
    + exists (RfRestartProcess, p). simpl. split; [exact H1|split; [exact H2|lia]].
    + exists (RfContinue, p). simpl. split; [exact H1|split; [exact H2|lia]].
Qed.

Lemma max_rank_bounds : forall c a pend, 0 <= max_rank c a pend <= 4.
Proof.
  intros. induction pend as [|n l IH]; simpl; [lia|].
  destruct (Z.eqb (app_of c (snd n)) a); [|exact IH].
  destruct n as [s p]. destruct s; simpl; lia.
Qed.

(* P0 precedence, rank form: the action pending for an application is the MAXIMUM of the pending
   notifications of that application *)
Lemma pending_rank_max : forall c h pend a, Sim c h pend -> pending_rank c h a = max_rank c a pend.
Proof.
  intros c h pend a [S1 S2 S3 S4]. unfold pending_rank.
  pose proof (max_rank_bounds c a pend) as HB.
  destruct (zmem a (h_stop h)) eqn:E1.
  { apply fh_zmem_In in E1. rewrite S1 in E1. apply max_rank_4 in E1. lia. }
  apply fh_zmem_false in E1. rewrite S1, <- max_rank_4 in E1.
  destruct (zmem a (h_rapp h)) eqn:E2.
  { apply fh_zmem_In in E2. rewrite S2 in E2. destruct E2 as [E2 _].
    assert (3 <= max_rank c a pend) by (apply max_rank_3; auto). lia. }
  apply fh_zmem_false in E2. rewrite S2 in E2.
  assert (N3 : ~ 3 <= max_rank c a pend).
  { intros H. apply max_rank_3 in H. rewrite <- max_rank_4 in H. destruct H as [H|H]; [lia|].
    apply E2. split; [exact H|]. rewrite <- max_rank_4. lia. }
  assert (NS : ~ has c pend RfStopApplication a) by (rewrite <- max_rank_4; lia).
  assert (NR : ~ has c pend RfRestartApplication a).
  { intros H. apply N3. apply max_rank_3. auto. }
  destruct (existsb (of_app c a) (h_rproc h)) eqn:E3.
  { apply existsb_exists in E3. destruct E3 as [p [Hp Ha]]. apply of_app_iff in Ha. rewrite S3 in Hp.
    assert (2 <= max_rank c a pend) by (apply max_rank_2; right; right; exists p; tauto). lia. }
  assert (N2 : ~ 2 <= max_rank c a pend).
  { intros H. apply max_rank_2 in H. destruct H as [H|[H|[p [Hp Ha]]]]; [contradiction|contradiction|].
    assert (Hin : In p (h_rproc h)).
    { apply S3. split; [exact Hp|]. unfold covered. rewrite Ha. tauto. }
    assert (Hex : existsb (of_app c a) (h_rproc h) = true).
    { apply existsb_exists. exists p. split; [exact Hin|apply of_app_iff; exact Ha]. }
    rewrite Hex in E3. discriminate. }
  destruct (existsb (of_app c a) (h_cont h)) eqn:E4.
  { apply existsb_exists in E4. destruct E4 as [p [Hp Ha]]. apply of_app_iff in Ha. rewrite S4 in Hp.
    assert (1 <= max_rank c a pend) by (apply max_rank_1; right; right; right; exists p; tauto). lia. }
  assert (N1 : ~ 1 <= max_rank c a pend).
  { intros H. apply max_rank_1 in H. destruct H as [H|[H|[[p [Hp Ha]]|[p [Hp Ha]]]]]; [contradiction|contradiction| |].
    - apply N2. apply max_rank_2. right; right. exists p. auto.
    - assert (Hin : In p (h_cont h)).
      { apply S4. split; [exact Hp|]. split.
        - intros Hr. apply N2. apply max_rank_2. right; right. exists p. auto.
        - unfold covered. rewrite Ha. tauto. }
      assert (Hex : existsb (of_app c a) (h_cont h) = true).
      { apply existsb_exists. exists p. split; [exact Hin|apply of_app_iff; exact Ha]. }
      rewrite Hex in E4. discriminate. }
  lia.
Qed.

Theorem precedence : forall c ops h a, steps c h_empty ops = Ok h ->
  pending_rank c h a = max_rank c a (pending c ops).
Proof. intros c ops h a H. apply pending_rank_max. apply handler_tracks_pending. exact H. Qed.

(* ====================================================================== *)
(* 4. what trigger_jobs issues                                              *)
(* ====================================================================== *)
Lemma max_rank_eq3 : forall c a pend, max_rank c a pend = 3 <->
  has c pend RfRestartApplication a /\ ~ has c pend RfStopApplication a.
Proof.
  intros. pose proof (max_rank_bounds c a pend). rewrite <- max_rank_4. split.
  - intros E. assert (H3 : 3 <= max_rank c a pend) by lia. apply max_rank_3 in H3.
    rewrite <- max_rank_4 in H3. split; [destruct H3; [lia|assumption]|lia].
  - intros [H1 H2]. assert (3 <= max_rank c a pend) by (apply max_rank_3; auto). lia.
Qed.

Lemma trigger_accepted : forall c busy h pend, Inv c h -> Sim c h pend ->
  spec_accepts_trigger c busy pend (snd (trigger c busy h)) = true.
Proof.
  intros c busy h pend HI [S1 S2 S3 S4]. unfold trigger, spec_accepts_trigger. simpl.
  rewrite !andb_true_iff.
  split; [split; [split; [split; [split; [split|]|]|]|]|].
  - apply nodupb_NoDup, fh_NoDup_zsort, NoDup_filter, (inv_nd_stop _ _ HI).
  - apply nodupb_NoDup, fh_NoDup_zsort, NoDup_filter, (inv_nd_rapp _ _ HI).
  - apply nodupb_NoDup, fh_NoDup_zsort, NoDup_filter, (inv_nd_rproc _ _ HI).
  - apply forallb_forall. intros a Ha. apply negb_true_iff, fh_zmem_false.
    rewrite fh_zsort_In, filter_In in *. destruct Ha as [Ha _]. intros [Hr _].
    exact (inv_stop_rapp _ _ HI a Ha Hr).
  - apply zset_eqb_iff. intros x. rewrite fh_zsort_In, filter_In, S1. unfold exp_stops.
    rewrite in_map_iff. split.
    + intros [[p [Hp Ha]] Hb]. exists (RfStopApplication, p). simpl. split; [exact Ha|].
      apply filter_In. split; [exact Hp|]. simpl. rewrite Ha, Hb. reflexivity.
    + intros [[s p] [Ha Hf]]. simpl in Ha. apply filter_In in Hf. destruct Hf as [Hp Hf]. simpl in Hf.
      apply andb_true_iff in Hf. destruct Hf as [Hb Hr]. apply Z.eqb_eq in Hr.
      assert (s = RfStopApplication) by (apply rank_ge4; lia). subst s. rewrite Ha in Hb.
      split; [exists p; auto|exact Hb].
  - apply zset_eqb_iff. intros x. rewrite fh_zsort_In, filter_In, S2. unfold exp_rapps.
    rewrite in_map_iff. split.
    + intros [[[p [Hp Ha]] Hn] Hb]. exists (RfRestartApplication, p). simpl. split; [exact Ha|].
      apply filter_In. split; [exact Hp|]. simpl. rewrite Ha, Hb. simpl.
      apply Z.eqb_eq. apply max_rank_eq3. split; [exists p; auto|exact Hn].
    + intros [[s p] [Ha Hf]]. simpl in Ha. apply filter_In in Hf. destruct Hf as [Hp Hf]. simpl in Hf.
      rewrite Ha in Hf. apply andb_true_iff in Hf. destruct Hf as [Hf Hm]. apply andb_true_iff in Hf.
      destruct Hf as [Hb Hr]. apply Z.eqb_eq in Hm. apply max_rank_eq3 in Hm. split; [exact Hm|exact Hb].
  - apply zset_eqb_iff. intros x. rewrite fh_zsort_In, filter_In, S3. unfold exp_rprocs.
    rewrite in_map_iff. pose proof (max_rank_bounds c (app_of c x) pend) as HB. split.
    + intros [[Hp Hc] Hb]. exists (RfRestartProcess, x). simpl. split; [reflexivity|].
      apply filter_In. split; [exact Hp|]. simpl. rewrite Hb. simpl.
      assert (H2 : 2 <= max_rank c (app_of c x) pend).
      { apply max_rank_2. right; right. exists x. auto. }
      assert (N4 : ~ 4 <= max_rank c (app_of c x) pend).
      { rewrite max_rank_4. intros H. apply Hc. left. exact H. }
      destruct (Z.eqb (max_rank c (app_of c x) pend) 2) eqn:E2; [reflexivity|]. apply Z.eqb_neq in E2.
      assert (E3 : max_rank c (app_of c x) pend = 3) by lia. rewrite E3. simpl.
      apply max_rank_eq3 in E3. destruct (seq_of c x) eqn:Eq; [|reflexivity].
      exfalso. apply Hc. right. tauto.
    + intros [[s p] [Hx Hf]]. simpl in Hx. subst p. apply filter_In in Hf. destruct Hf as [Hp Hf]. simpl in Hf.
      apply andb_true_iff in Hf. destruct Hf as [Hf Hm]. apply andb_true_iff in Hf. destruct Hf as [Hb Hr].
      apply Z.eqb_eq in Hr. apply negb_true_iff in Hb.
      assert (s = RfRestartProcess).
      { destruct s; simpl in Hr; try lia; reflexivity. }
      subst s. split; [split; [exact Hp|]|rewrite Hb; reflexivity].
      unfold covered. apply orb_true_iff in Hm. destruct Hm as [Hm|Hm].
      * apply Z.eqb_eq in Hm. intros [H|[H _]].
        -- apply max_rank_4 in H. lia.
        -- assert (3 <= max_rank c (app_of c x) pend) by (apply max_rank_3; auto). lia.
      * apply andb_true_iff in Hm. destruct Hm as [Hm Hq]. apply Z.eqb_eq in Hm. apply negb_true_iff in Hq.
        intros [H|[_ H]]; [apply max_rank_4 in H; lia|congruence].
Qed.

Lemma wf_step_total : forall c h o, wf_op c o = true -> exists h' t, step c h o = Ok (h', t).
Proof.
  intros c h o Hw. destruct o as [s p|p st|busy|]; simpl in *.
  - destruct (lookup c p) as [pi|k] eqn:El; [|discriminate].
    destruct (add_job_total c s p h pi El) as [h' E]. rewrite E. simpl. eauto.
  - destruct (lookup c p) as [pi|k] eqn:El; [|discriminate]. unfold add_default.
    destruct (add_job_total c (strat_of c p) p h pi El) as [h1 E]. rewrite E. simpl.
    destruct (strat_of c p); try (simpl; eauto).
    destruct (st && seq_of c p); [|simpl; eauto].
    destruct (add_job_total c RfRestartApplication p h1 pi El) as [h2 E2]. rewrite E2. simpl. eauto.
  - eauto.
  - eauto.
Qed.

Lemma step_output_shape : forall c h o h' t, step c h o = Ok (h', t) ->
  match o with Trigger busy => t = Some (snd (trigger c busy h)) | _ => t = None end.
Proof.
  intros c h o h' t H. destruct o as [s p|p st|busy|]; simpl in H.
  - destruct (add_job c s p h); [|discriminate]. simpl in H. inversion H; reflexivity.
  - destruct (add_default c p st h); [|discriminate]. simpl in H. inversion H; reflexivity.
  - inversion H; reflexivity.
  - inversion H; reflexivity.
Qed.

(* model |= spec, for every sequence of operations *)
Lemma run_cons : forall c h o r, run c h (o :: r) =
  match step c h o with
  | Ok (h', t) => OOk (observe h' t) :: run c h' r
  | Crash k => [OCrash k]
  end.
Proof. reflexivity. Qed.

Lemma spec_violated_cons : forall c pend o r ob robs, spec_violated c pend (o :: r) (ob :: robs) =
  if wf_op c o then
    if spec_accepts c pend o ob then spec_violated c (spec_step c pend o) r robs else true
  else false.
Proof. reflexivity. Qed.

Lemma refines_spec_gen : forall c ops h pend, Inv c h -> Sim c h pend ->
  spec_violated c pend ops (run c h ops) = false.
Proof.
  intros c ops. induction ops as [|o r IH]; intros h pend HI HS; [reflexivity|].
  rewrite run_cons. destruct (wf_op c o) eqn:Hw.
  - destruct (wf_step_total c h o Hw) as [h' [t E]]. rewrite E. rewrite spec_violated_cons, Hw.
    pose proof (step_output_shape _ _ _ _ _ E) as Ht.
    assert (Hacc : spec_accepts c pend o (OOk (observe h' t)) = true).
    { unfold spec_accepts, observe. destruct o as [s p|p st|busy|]; subst t; try reflexivity.
      apply trigger_accepted; assumption. }
    rewrite Hacc. apply IH; [exact (Inv_step _ _ _ _ _ HI E)|exact (Sim_step _ _ _ _ _ _ HS E)].
  - destruct (step c h o) as [[h' t]|k]; rewrite spec_violated_cons, Hw; reflexivity.
Qed.

Theorem refines_spec : forall c ops, spec_violated c [] ops (run c h_empty ops) = false.
Proof. intros c ops. apply refines_spec_gen; [apply Inv_empty|apply Sim_empty]. Qed.

(* P0 single_action *)
Theorem single_action : forall c busy h, Inv c h ->
  let h' := fst (trigger c busy h) in
  let '(stops, rapps, rprocs, _) := snd (trigger c busy h) in
  (* at most one action per application, at most one restart per process *)
  NoDup stops /\ NoDup rapps /\ NoDup rprocs
  /\ (forall a, In a stops -> ~ In a rapps /\ forall p, In p rprocs -> app_of c p <> a)
  (* an application restart is accompanied by a process restart only outside its start sequence *)
  /\ (forall a p, In a rapps -> In p rprocs -> app_of c p = a -> seq_of c p = false)
  (* only jobs that were stored are issued, and they are consumed *)
  /\ (forall a, In a stops -> In a (h_stop h) /\ ~ In a (h_stop h'))
  /\ (forall a, In a rapps -> In a (h_rapp h) /\ ~ In a (h_rapp h'))
  /\ (forall p, In p rprocs -> In p (h_rproc h) /\ ~ In p (h_rproc h'))
  (* deferred while the application has start/stop jobs: nothing is issued and the jobs are kept *)
  /\ (forall a, zmem a busy = true ->
        ~ In a stops /\ ~ In a rapps /\ (forall p, In p rprocs -> app_of c p <> a)
        /\ (In a (h_stop h) -> In a (h_stop h')) /\ (In a (h_rapp h) -> In a (h_rapp h'))
        /\ (forall p, In p (h_rproc h) -> app_of c p = a -> In p (h_rproc h'))).
Proof.
  intros c busy h HI. unfold trigger. simpl.
  repeat split.
  - apply fh_NoDup_zsort, NoDup_filter, (inv_nd_stop _ _ HI).
  - apply fh_NoDup_zsort, NoDup_filter, (inv_nd_rapp _ _ HI).
  - apply fh_NoDup_zsort, NoDup_filter, (inv_nd_rproc _ _ HI).
  - rewrite fh_zsort_In, filter_In in *. destruct H as [H _]. intros [Hr _]. exact (inv_stop_rapp _ _ HI a H Hr).
  - intros p Hp Ha. rewrite fh_zsort_In, filter_In in *. destruct H as [H _]. destruct Hp as [Hp _].
    destruct (inv_stop_proc _ _ HI a p H Ha) as [H1 _]. contradiction.
  - intros a p Ha Hp Hap. rewrite fh_zsort_In, filter_In in *. destruct Ha as [Ha _]. destruct Hp as [Hp _].
    destruct (seq_of c p) eqn:Eq; [|reflexivity].
    destruct (inv_rapp_proc _ _ HI a p Ha Hap Eq) as [H1 _]. contradiction.
  - rewrite fh_zsort_In, filter_In in H. tauto.
  - rewrite fh_zsort_In, filter_In in H. rewrite filter_In. destruct H as [_ H]. apply negb_true_iff in H.
    intros [_ Hb]. congruence.
  - rewrite fh_zsort_In, filter_In in H. tauto.
  - rewrite fh_zsort_In, filter_In in H. rewrite filter_In. destruct H as [_ H]. apply negb_true_iff in H.
    intros [_ Hb]. congruence.
  - rewrite fh_zsort_In, filter_In in H. tauto.
  - rewrite fh_zsort_In, filter_In in H. rewrite filter_In. destruct H as [_ H]. apply negb_true_iff in H.
    intros [_ Hb]. congruence.
  - rewrite fh_zsort_In, filter_In. intros [_ Hb]. rewrite H in Hb. discriminate.
  - rewrite fh_zsort_In, filter_In. intros [_ Hb]. rewrite H in Hb. discriminate.
  - intros p Hp Ha. rewrite fh_zsort_In, filter_In in Hp. destruct Hp as [_ Hb]. rewrite Ha, H in Hb. discriminate.
  - intros Hs. apply filter_In. tauto.
  - intros Hs. apply filter_In. tauto.
  - intros p Hp Ha. apply filter_In. rewrite Ha. tauto.
Qed.

(* ====================================================================== *)
(* 5. Commander.on_instances_invalidation                                   *)
(* ====================================================================== *)
Lemma In_zremove_all : forall xs l p, In p (zremove_all xs l) <-> In p l /\ ~ In p xs.
Proof.
  intros. unfold zremove_all. rewrite filter_In, negb_true_iff, fh_zmem_false. reflexivity.
Qed.

(* the commands dropped from the current jobs, and the planned commands that survive, over all application jobs *)
Definition gone_procs (lost : list Z) (jobs : list appjob) : list Z :=
  flat_map (fun j => map k_proc (filter (fun k => zmem (k_ident k) lost) (j_current j))) jobs.
Definition still_planned (lost : list Z) (jobs : list appjob) : list Z :=
  flat_map (fun j => map k_proc (j_planned (fst (job_invalidation lost j [])))) jobs.

Lemma job_invalidation_fst : forall lost j f1 f2,
  fst (job_invalidation lost j f1) = fst (job_invalidation lost j f2).
Proof. intros. reflexivity. Qed.

Lemma commander_invalidation_snd : forall lost j r failed,
  snd (commander_invalidation lost (j :: r) failed) =
  snd (commander_invalidation lost r (snd (job_invalidation lost j failed))).
Proof.
  intros. cbn [commander_invalidation]. destruct (job_invalidation lost j failed) as [j' f1].
  cbn [snd]. destruct (commander_invalidation lost r f1); reflexivity.
Qed.

Lemma commander_invalidation_spec : forall lost jobs failed p,
  In p (snd (commander_invalidation lost jobs failed)) <->
  In p failed /\ ~ In p (gone_procs lost jobs) /\ ~ In p (still_planned lost jobs).
Proof.
  intros lost jobs. induction jobs as [|j r IH]; intros failed p.
  - simpl. tauto.
  - rewrite commander_invalidation_snd, IH. unfold job_invalidation. cbn [snd].
    rewrite !In_zremove_all. unfold gone_procs, still_planned. cbn [flat_map job_invalidation fst j_planned].
    rewrite !in_app_iff. tauto.
Qed.

(* P0 planned_left_alone *)
Theorem planned_left_alone : forall lost starter_jobs stopper_jobs failed p,
  In p (lost_filter lost starter_jobs stopper_jobs failed) <->
  In p failed
  /\ ~ In p (gone_procs lost starter_jobs) /\ ~ In p (still_planned lost starter_jobs)
  /\ ~ In p (gone_procs lost stopper_jobs) /\ ~ In p (still_planned lost stopper_jobs).
Proof.
  intros. unfold lost_filter. rewrite !commander_invalidation_spec. tauto.
Qed.

(* the planned jobs survive unless a start command pending on a lost instance erased them *)
Lemma still_planned_no_erase : forall lost jobs,
  (forall j k, In j jobs -> In k (j_current j) -> k_erases k = false) ->
  still_planned lost jobs = flat_map (fun j => map k_proc (j_planned j)) jobs.
Proof.
  intros lost jobs H. unfold still_planned. induction jobs as [|j r IH]; [reflexivity|].
  cbn [flat_map]. rewrite IH by (intros j0 k Hj Hk; apply (H j0 k); [right; exact Hj|exact Hk]). f_equal.
  assert (E : existsb k_erases (filter (fun k => zmem (k_ident k) lost) (j_current j)) = false).
  { destruct (existsb k_erases _) eqn:E; [|reflexivity]. apply existsb_exists in E.
    destruct E as [k [Hk He]]. apply filter_In in Hk. destruct Hk as [Hk _].
    rewrite (H j k (or_introl eq_refl) Hk) in He. discriminate. }
  unfold job_invalidation. cbn [fst j_planned]. rewrite E. reflexivity.
Qed.

(* ====================================================================== *)
(* 6. corollaries in the words of the property                              *)
(* ====================================================================== *)
(* CONTINUE starts and stops nothing *)
Lemma continue_silent : forall c busy h p, Inv c h -> In p (h_cont h) ->
  let '(_, _, rprocs, _) := snd (trigger c busy h) in ~ In p rprocs.
Proof.
  intros c busy h p HI Hp. unfold trigger. simpl. rewrite fh_zsort_In, filter_In. intros [Hr _].
  exact (inv_rproc_cont _ _ HI p Hr Hp).
Qed.

Ltac frame_tac :=
  repeat split; try tauto; intros;
  rewrite ?fh_In_zadd, ?fh_In_zdiscard, ?filter_In, ?negb_true_iff, ?andb_false_iff, ?of_app_false in *;
  intuition congruence.

(* notifications for one application never touch the jobs of another one *)
Lemma add_job_frame : forall c s p h h' b, add_job c s p h = Ok h' -> app_of c p <> b ->
  (In b (h_stop h') <-> In b (h_stop h)) /\ (In b (h_rapp h') <-> In b (h_rapp h))
  /\ (forall q, app_of c q = b -> (In q (h_rproc h') <-> In q (h_rproc h)) /\ (In q (h_cont h') <-> In q (h_cont h))).
Proof.
  intros c s p h h' b H Hb. unfold add_job in H. destruct (lookup c p) as [pi|k] eqn:El; [|discriminate].
  simpl in H. inversion H; subst h'; clear H. destruct (lookup_ok c p pi El) as [Ha _]. rewrite <- Ha.
  destruct s; simpl.
  - unfold add_cont. repeat match goal with |- context [if ?b then _ else _] => destruct b end; simpl; frame_tac.
  - unfold add_rproc. repeat match goal with |- context [if ?b then _ else _] => destruct b end; simpl; frame_tac.
  - unfold add_stop. simpl. frame_tac.
  - unfold add_rapp. destruct (zmem (app_of c p) (h_stop h)); simpl; frame_tac.
  - frame_tac.
  - frame_tac.
Qed.

(* the promotion of the property text, on the handler itself: a lost RESTART_PROCESS process of the start
   sequence whose application is left stopped yields an application restart and no process restart *)
Lemma promotion_effect : forall c p pi h h', Inv c h -> lookup c p = Ok pi ->
  pi_strat pi = RfRestartProcess -> pi_seq pi = true -> ~ In (pi_app pi) (h_stop h) ->
  add_default c p true h = Ok h' ->
  In (pi_app pi) (h_rapp h') /\ ~ In p (h_rproc h') /\ ~ In p (h_cont h').
Proof.
  intros c p pi h h' HI El Hs Hq Hn H. destruct (lookup_ok c p pi El) as [Ha [Hse Hst]].
  unfold add_default in H. rewrite Hst, Hs in H. unfold add_job in H. rewrite El in H. simpl in H.
  rewrite Hse, Hq in H. simpl in H. inversion H; subst h'; clear H.
  assert (E1 : zmem (pi_app pi) (h_stop h) = false) by (apply fh_zmem_false; exact Hn).
  unfold add_rproc. rewrite E1.
  assert (HI2 : Inv c (add_rapp c (pi_app pi)
                 (if zmem (pi_app pi) (h_rapp h) && seq_of c p then h
                  else mkH (h_stop h) (h_rapp h) (zadd p (h_rproc h)) (zdiscard p (h_cont h))))).
  { apply Inv_add_rapp. pose proof (Inv_add_rproc c (pi_app pi) p h Ha HI) as X.
    unfold add_rproc in X. rewrite E1 in X. exact X. }
  assert (Hin : In (pi_app pi) (h_rapp (add_rapp c (pi_app pi)
                 (if zmem (pi_app pi) (h_rapp h) && seq_of c p then h
                  else mkH (h_stop h) (h_rapp h) (zadd p (h_rproc h)) (zdiscard p (h_cont h)))))).
  { unfold add_rapp. destruct (zmem (pi_app pi) (h_rapp h) && seq_of c p); simpl; rewrite E1; simpl;
      apply fh_In_zadd; auto. }
  split; [exact Hin|]. rewrite Hq in Hse.
  exact (inv_rapp_proc _ _ HI2 (pi_app pi) p Hin Ha Hse).
Qed.

(* in every working state (CONCILIATION included since /repo 4ab9225) the Master hands every batch of lost
   processes to the handler, and a non-Master whose Master survives never does *)
Lemma loss_handled_spec : forall st r lostp, r <> RNextMaster ->
  loss_handled st r lostp = loss_expected r lostp.
Proof. intros st r l H. destruct r; try reflexivity. contradiction. Qed.

(* F9 (known finding): processes lost together with the Master are never handed to the handler by the next one *)
Lemma lost_with_master_refuted :
  exists st lostp, loss_handled st RNextMaster lostp <> loss_expected RNextMaster lostp.
Proof. exists WOperation, true. vm_compute. discriminate. Qed.

(* Master only *)
Lemma master_only : forall st s lostp crashed forced el,
  loss_handled st RSlave lostp = false /\ crash_handled s false crashed forced = false
  /\ crash_ending s false crashed = 0 /\ crash_ending_entered s false crashed el = false.
Proof. intros. repeat split. Qed.

(* a requested RESTART / SHUTDOWN is entered from OPERATION (re-checked against the reflected transition table) *)
Lemma crash_ending_entered_operation : forall s master crashed,
  crash_ending_entered s master crashed false = negb (Z.eqb (crash_ending s master crashed) 0).
Proof. intros s m cr. destruct s, m, cr; vm_compute; reflexivity. Qed.

(* SHUTDOWN is entered from ELECTION as well ... *)
Lemma crash_shutdown_entered_election : crash_ending_entered RfShutdown true true true = true.
Proof. vm_compute. reflexivity. Qed.

(* ... F10 (known finding): RESTART is not, the table has no edge ELECTION -> RESTARTING and the order is dropped *)
Lemma election_restart_dropped_refuted :
  exists s master crashed,
    crash_ending s master crashed <> 0 /\ crash_ending_entered s master crashed true = false.
Proof. exists RfRestart, true, true. vm_compute. split; [discriminate|reflexivity]. Qed.

Lemma crash_handled_spec : forall s master crashed forced,
  crash_handled s master crashed forced = true <->
  master = true /\ crashed = true /\ forced = false /\ (s = RfStopApplication \/ s = RfRestartApplication).
Proof.
  intros s m cr f. unfold crash_handled. destruct m, cr, f, s; simpl; split; intros H; try discriminate;
    try (repeat split; auto; fail); try (destruct H as [? [? [? [?|?]]]]; discriminate);
    try (destruct H as [? [? [? ?]]]; discriminate).
Qed.

(* ====================================================================== *)
(* 7. the hypotheses are satisfiable: a concrete history                     *)
(* ====================================================================== *)
(* application 1 = processes 10 (seq, RESTART_PROCESS), 11 (not in the start sequence, RESTART_PROCESS),
   12 (seq, STOP_APPLICATION), 13 (seq, CONTINUE); application 2 = process 20 (RESTART_APPLICATION) *)
Definition demo_ctx : ctx :=
  mkCtx [(10, mkPinfo 1 true RfRestartProcess); (11, mkPinfo 1 false RfRestartProcess);
         (12, mkPinfo 1 true RfStopApplication); (13, mkPinfo 1 true RfContinue);
         (20, mkPinfo 2 true RfRestartApplication)] [1; 2].

Definition demo_ops : list op :=
  [AddDefault 13 false; AddDefault 10 false; AddDefault 11 false; AddDefault 20 false;
   Trigger [1];              (* application 1 busy: only application 2 is restarted *)
   AddDefault 12 false;      (* STOP_APPLICATION supersedes the two pending process restarts *)
   Trigger []].

Example demo_run :
  run demo_ctx h_empty demo_ops =
  [OOk ([], [], [], [13], None); OOk ([], [], [10], [13], None); OOk ([], [], [10; 11], [13], None);
   OOk ([], [2], [10; 11], [13], None);
   OOk ([], [], [10; 11], [], Some ([], [2], [], true));
   OOk ([1], [], [], [], None);
   OOk ([], [], [], [], Some ([1], [], [], true))].
Proof. vm_compute. reflexivity. Qed.

Example demo_inv_nontrivial :
  exists h, steps demo_ctx h_empty (firstn 4 demo_ops) = Ok h /\ h_rproc h = [10; 11] /\ h_rapp h = [2].
Proof. eexists. split; [vm_compute; reflexivity|split; reflexivity]. Qed.

(* promotion: process 10 lost while application 1 is left stopped; 11 is outside the start sequence *)
Example demo_promotion :
  run demo_ctx h_empty [AddDefault 11 true; AddDefault 10 true; Trigger []] =
  [OOk ([], [], [11], [], None); OOk ([], [1], [11], [], None);
   OOk ([], [], [], [], Some ([], [1], [11], true))].
Proof. vm_compute. reflexivity. Qed.

(* the invalidation filter: process 5 has a start command pending on lost instance 2, process 6 is planned,
   process 7 has a command pending on a surviving instance, process 8 is in no pipe *)
Example demo_filter :
  lost_filter [2] [mkJob [mkCmd 5 2 false; mkCmd 7 3 false] [mkCmd 6 0 false]] [] [5; 6; 7; 8] = [7; 8].
Proof. vm_compute. reflexivity. Qed.

(* a required process with starting failure strategy ABORT pending on the lost instance erases the plan:
   process 6 is then handed to the failure handler *)
Example demo_filter_erase :
  lost_filter [2] [mkJob [mkCmd 5 2 true] [mkCmd 6 0 false]] [] [5; 6] = [6].
Proof. vm_compute. reflexivity. Qed.
