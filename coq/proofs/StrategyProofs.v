(* StrategyProofs.v — proofs about model/Strategy.v (property C14; reused by C04).
   Plain Ltac, named hypotheses, arithmetic by lia. *)
From Coq Require Import List ZArith Bool Lia Permutation.
From Sup Require Import Base GenEnums Strategy.
Import ListNotations.
Open Scope Z_scope.

(* ------------------------------------------------------------------ small facts on Z lists / alists *)
Lemma zmem_In : forall k l, zmem k l = true <-> In k l.
Proof.
  intros k l. unfold zmem. rewrite existsb_exists. split.
  - intros [x [Hin Hx]]. apply Z.eqb_eq in Hx. subst. exact Hin.
  - intros Hin. exists k. split; [exact Hin | apply Z.eqb_refl].
Qed.

Lemma zmem_false_In : forall k l, zmem k l = false <-> ~ In k l.
Proof.
  intros k l. rewrite <- zmem_In. destruct (zmem k l); split; intros H.
  - discriminate.
  - exfalso. apply H. reflexivity.
  - intros H2. discriminate.
  - reflexivity.
Qed.

Lemma zmem_app : forall k a b, zmem k (a ++ b) = zmem k a || zmem k b.
Proof. intros k a b. unfold zmem. apply existsb_app. Qed.

Lemma zmem_filter : forall k p l, zmem k (filter p l) = zmem k l && p k.
Proof.
  intros k p l. induction l as [|x r IH]; simpl; [reflexivity|].
  destruct (p x) eqn:Hp; simpl.
  - rewrite IH. destruct (Z.eqb k x) eqn:E; simpl.
    + apply Z.eqb_eq in E. subst. rewrite Hp. reflexivity.
    + reflexivity.
  - rewrite IH. destruct (Z.eqb k x) eqn:E; simpl.
    + apply Z.eqb_eq in E. subst. rewrite Hp. rewrite andb_false_r. reflexivity.
    + reflexivity.
Qed.

Lemma aget_aset_same : forall {V} k (v : V) l, aget k (aset k v l) = Some v.
Proof.
  intros V k v l. induction l as [|[k' v'] r IH]; simpl.
  - rewrite Z.eqb_refl. reflexivity.
  - destruct (Z.eqb k k') eqn:E; simpl; rewrite E; [reflexivity | exact IH].
Qed.

Lemma aget_aset_other : forall {V} k k' (v : V) l, k <> k' -> aget k (aset k' v l) = aget k l.
Proof.
  intros V k k' v l Hne. induction l as [|[k2 v2] r IH]; simpl.
  - destruct (Z.eqb k k') eqn:E; [apply Z.eqb_eq in E; congruence | reflexivity].
  - destruct (Z.eqb k' k2) eqn:E; simpl.
    + apply Z.eqb_eq in E. subst k2.
      destruct (Z.eqb k k') eqn:E2; [apply Z.eqb_eq in E2; congruence | reflexivity].
    + destruct (Z.eqb k k2); [reflexivity | exact IH].
Qed.

Lemma aget_In : forall {V} k (v : V) l, aget k l = Some v -> In (k, v) l.
Proof.
  intros V k v l. induction l as [|[k' v'] r IH]; simpl; intros H; [discriminate|].
  destruct (Z.eqb k k') eqn:E.
  - apply Z.eqb_eq in E. inversion H. subst. left. reflexivity.
  - right. apply IH. exact H.
Qed.

Lemma filter_filter_and : forall {A} (f g : A -> bool) l,
  filter f (filter g l) = filter (fun x => f x && g x) l.
Proof.
  intros A f g l. induction l as [|x r IH]; simpl; [reflexivity|].
  destruct (g x) eqn:Hg; simpl.
  - rewrite andb_true_r. destruct (f x); rewrite IH; reflexivity.
  - rewrite andb_false_r. exact IH.
Qed.

(* ------------------------------------------------------------------ lexicographic order on pairs *)
Lemma lex_le_refl : forall a, lex_le a a = true.
Proof. intros [a1 a2]. unfold lex_le. simpl. rewrite Z.eqb_refl, Z.leb_refl. apply orb_true_r. Qed.

Lemma lex_le_total : forall a b, lex_le a b = false -> lex_le b a = true.
Proof.
  intros [a1 a2] [b1 b2]. unfold lex_le. simpl. intros H.
  apply orb_false_iff in H. destruct H as [H1 H2]. apply Z.ltb_ge in H1.
  destruct (Z.ltb b1 a1) eqn:E; [reflexivity|]. apply Z.ltb_ge in E.
  assert (a1 = b1) as -> by lia. rewrite Z.eqb_refl in *. simpl in *. apply Z.leb_gt in H2.
  apply Z.leb_le. lia.
Qed.

Lemma lex_le_trans : forall a b c, lex_le a b = true -> lex_le b c = true -> lex_le a c = true.
Proof.
  intros [a1 a2] [b1 b2] [c1 c2]. unfold lex_le. simpl. intros H1 H2.
  apply orb_true_iff in H1. apply orb_true_iff in H2. apply orb_true_iff.
  destruct H1 as [H1|H1]; destruct H2 as [H2|H2].
  - left. apply Z.ltb_lt in H1, H2. apply Z.ltb_lt. lia.
  - left. apply Z.ltb_lt in H1. apply andb_true_iff in H2. destruct H2 as [H2 _]. apply Z.eqb_eq in H2.
    apply Z.ltb_lt. lia.
  - left. apply Z.ltb_lt in H2. apply andb_true_iff in H1. destruct H1 as [H1 _]. apply Z.eqb_eq in H1.
    apply Z.ltb_lt. lia.
  - right. apply andb_true_iff in H1, H2. destruct H1 as [H1 H1']. destruct H2 as [H2 H2'].
    apply Z.eqb_eq in H1, H2. apply Z.leb_le in H1', H2'. apply andb_true_iff. split.
    + apply Z.eqb_eq. lia.
    + apply Z.leb_le. lia.
Qed.

Lemma lex_le_antisym : forall a b, lex_le a b = true -> lex_le b a = true -> a = b.
Proof.
  intros [a1 a2] [b1 b2]. unfold lex_le. simpl. intros H1 H2.
  apply orb_true_iff in H1. apply orb_true_iff in H2.
  destruct H1 as [H1|H1]; destruct H2 as [H2|H2].
  - apply Z.ltb_lt in H1, H2. lia.
  - apply Z.ltb_lt in H1. apply andb_true_iff in H2. destruct H2 as [H2 _]. apply Z.eqb_eq in H2. lia.
  - apply Z.ltb_lt in H2. apply andb_true_iff in H1. destruct H1 as [H1 _]. apply Z.eqb_eq in H1. lia.
  - apply andb_true_iff in H1, H2. destruct H1 as [H1 H1']. destruct H2 as [H2 H2'].
    apply Z.eqb_eq in H1, H2. apply Z.leb_le in H1', H2'. f_equal; lia.
Qed.

(* Prop reading of the two boolean orders *)
Definition lexle (a b : Z * Z) : Prop := fst a < fst b \/ (fst a = fst b /\ snd a <= snd b).
Definition lexlt (a b : Z * Z) : Prop := fst a < fst b \/ (fst a = fst b /\ snd a < snd b).

Lemma lex_le_iff : forall a b, lex_le a b = true <-> lexle a b.
Proof.
  intros [a1 a2] [b1 b2]. unfold lex_le, lexle. simpl. rewrite orb_true_iff, andb_true_iff.
  rewrite Z.ltb_lt, Z.eqb_eq, Z.leb_le. tauto.
Qed.

Lemma lex_lt_iff : forall a b, lex_lt a b = true <-> lexlt a b.
Proof.
  intros [a1 a2] [b1 b2]. unfold lex_lt, lex_le, lexlt. simpl.
  rewrite negb_true_iff, orb_false_iff, andb_false_iff, Z.ltb_ge, Z.eqb_neq, Z.leb_gt. lia.
Qed.

(* ------------------------------------------------------------------ the stable insertion sort: head and last *)
Section Sort.
  Context {A : Type} (key : A -> Z * Z).

  Definition le_k (a b : A) : Prop := lex_le (key a) (key b) = true.

  Fixpoint last_opt (l : list A) : option A :=
    match l with [] => None | [t] => Some t | _ :: r => last_opt r end.

  Lemma hd_insert : forall x l,
    hd_error (insert_by key x l) =
    match hd_error l with
    | None => Some x
    | Some h => if lex_le (key x) (key h) then Some x else Some h
    end.
  Proof.
    intros x l. destruct l as [|y r]; simpl; [reflexivity|].
    destruct (lex_le (key x) (key y)); reflexivity.
  Qed.

  Lemma insert_not_nil : forall x l, insert_by key x l <> [].
  Proof. intros x l. destruct l as [|y r]; simpl; [discriminate|]. destruct (lex_le _ _); discriminate. Qed.

  Lemma insert_In : forall x y l, In y (insert_by key x l) <-> y = x \/ In y l.
  Proof.
    intros x y l. induction l as [|z r IH]; simpl.
    - split; intros [H|H]; auto; contradiction.
    - destruct (lex_le (key x) (key z)); simpl.
      + split; intros H; destruct H as [H|H]; auto.
      + rewrite IH. split; intros H; tauto.
  Qed.

  Lemma sorted_In : forall y l, In y (sorted_by key l) <-> In y l.
  Proof.
    intros y l. induction l as [|x r IH]; simpl; [tauto|].
    rewrite insert_In, IH. split; intros [H|H]; auto.
  Qed.

  (* sortedness, as "every element is <= everything after it" *)
  Inductive ssorted : list A -> Prop :=
  | ss_nil : ssorted []
  | ss_cons : forall x l, (forall y, In y l -> le_k x y) -> ssorted l -> ssorted (x :: l).

  Lemma insert_ssorted : forall x l, ssorted l -> ssorted (insert_by key x l).
  Proof.
    intros x l Hs. induction Hs as [|z r Hz Hr IH]; simpl.
    - constructor; [intros y []| constructor].
    - destruct (lex_le (key x) (key z)) eqn:E.
      + constructor.
        * intros y [Hy|Hy]; [subst; exact E|]. unfold le_k. eapply lex_le_trans; [exact E | apply Hz; exact Hy].
        * constructor; assumption.
      + constructor.
        * intros y Hy. apply insert_In in Hy. destruct Hy as [Hy|Hy].
          -- subst. unfold le_k. apply lex_le_total. exact E.
          -- apply Hz. exact Hy.
        * exact IH.
  Qed.

  Lemma sorted_ssorted : forall l, ssorted (sorted_by key l).
  Proof. intros l. induction l as [|x r IH]; simpl; [constructor | apply insert_ssorted; exact IH]. Qed.

  Lemma last_opt_In : forall l h, last_opt l = Some h -> In h l.
  Proof.
    intros l. induction l as [|x r IH]; intros h H; simpl in H; [discriminate|].
    destruct r as [|y r'].
    - inversion H. left. reflexivity.
    - right. apply IH. exact H.
  Qed.

  Lemma last_opt_cons : forall x l, l <> [] -> last_opt (x :: l) = last_opt l.
  Proof. intros x l H. destruct l; [congruence | reflexivity]. Qed.

  Lemma last_opt_none : forall l, last_opt l = None -> l = [].
  Proof.
    intros l. induction l as [|x r IH]; intros H; [reflexivity|]. simpl in H.
    destruct r as [|y r']; [discriminate|]. specialize (IH H). discriminate.
  Qed.

  Lemma ssorted_last_max : forall l h, ssorted l -> last_opt l = Some h -> forall y, In y l -> le_k y h.
  Proof.
    intros l h Hs. induction Hs as [|x r Hx Hr IH]; intros Hl y Hy; [contradiction|].
    destruct r as [|z r'].
    - simpl in Hl. inversion Hl. subst. destruct Hy as [Hy|[]]. subst. apply lex_le_refl.
    - rewrite last_opt_cons in Hl by discriminate.
      destruct Hy as [Hy|Hy].
      + subst. apply Hx. apply last_opt_In. exact Hl.
      + apply IH; assumption.
  Qed.

  Lemma last_insert : forall x l, ssorted l ->
    last_opt (insert_by key x l) =
    match last_opt l with
    | None => Some x
    | Some h => if lex_le (key x) (key h) then Some h else Some x
    end.
  Proof.
    intros x l Hs. induction Hs as [|z r Hz Hr IH]; [reflexivity|].
    simpl insert_by. destruct (lex_le (key x) (key z)) eqn:E.
    - rewrite last_opt_cons by discriminate.
      destruct (last_opt (z :: r)) as [h|] eqn:El.
      + assert (le_k z h) as Hzh.
        { eapply ssorted_last_max; [constructor; eassumption | exact El | left; reflexivity]. }
        assert (lex_le (key x) (key h) = true) as -> by (eapply lex_le_trans; [exact E | exact Hzh]).
        reflexivity.
      + apply last_opt_none in El. discriminate.
    - rewrite last_opt_cons by apply insert_not_nil. rewrite IH.
      destruct r as [|z' r'].
      + simpl. rewrite E. reflexivity.
      + rewrite (last_opt_cons z (z' :: r')) by discriminate. reflexivity.
  Qed.

  (* head of the sorted list = the FIRST element holding the least key *)
  Lemma sorted_hd_none : forall l, hd_error (sorted_by key l) = None -> l = [].
  Proof.
    intros l H. destruct l as [|x r]; [reflexivity|]. simpl in H.
    rewrite hd_insert in H. destruct (hd_error (sorted_by key r)) as [h|]; [|discriminate].
    destruct (lex_le (key x) (key h)); discriminate.
  Qed.

  Lemma sorted_hd_spec : forall l h, hd_error (sorted_by key l) = Some h ->
    (forall y, In y l -> le_k h y) /\
    exists l1 l2, l = l1 ++ h :: l2 /\ forall y, In y l1 -> lex_le (key y) (key h) = false.
  Proof.
    intros l. induction l as [|x r IH]; intros h H; [discriminate|].
    simpl in H. rewrite hd_insert in H.
    destruct (hd_error (sorted_by key r)) as [h0|] eqn:E0.
    - destruct (IH h0 eq_refl) as [Hmin [l1 [l2 [Hsplit Hstrict]]]].
      destruct (lex_le (key x) (key h0)) eqn:E; inversion H; subst h.
      + split.
        * intros y [Hy|Hy]; [subst; apply lex_le_refl|].
          unfold le_k. eapply lex_le_trans; [exact E | apply Hmin; exact Hy].
        * exists [], r. split; [reflexivity | intros y []].
      + split.
        * intros y [Hy|Hy]; [subst; apply lex_le_total; exact E | apply Hmin; exact Hy].
        * exists (x :: l1), l2. split; [rewrite Hsplit; reflexivity|].
          intros y [Hy|Hy]; [subst; exact E | apply Hstrict; exact Hy].
    - apply sorted_hd_none in E0. subst r. inversion H. subst h. split.
      + intros y [Hy|[]]. subst. apply lex_le_refl.
      + exists [], []. split; [reflexivity | intros y []].
  Qed.

  (* last of the sorted list = the LAST element holding the greatest key *)
  Lemma sorted_last_spec : forall l h, last_opt (sorted_by key l) = Some h ->
    (forall y, In y l -> le_k y h) /\
    exists l1 l2, l = l1 ++ h :: l2 /\ forall y, In y l2 -> lex_le (key h) (key y) = false.
  Proof.
    intros l. induction l as [|x r IH]; intros h H; [discriminate|].
    simpl in H. rewrite last_insert in H by apply sorted_ssorted.
    destruct (last_opt (sorted_by key r)) as [h0|] eqn:E0.
    - destruct (IH h0 eq_refl) as [Hmax [l1 [l2 [Hsplit Hstrict]]]].
      destruct (lex_le (key x) (key h0)) eqn:E; inversion H; subst h.
      + split.
        * intros y [Hy|Hy]; [subst; exact E | apply Hmax; exact Hy].
        * exists (x :: l1), l2. split; [rewrite Hsplit; reflexivity | exact Hstrict].
      + split.
        * intros y [Hy|Hy]; [subst; apply lex_le_refl|].
          unfold le_k. eapply lex_le_trans; [apply Hmax; exact Hy | apply lex_le_total; exact E].
        * exists [], r. split; [reflexivity|]. intros y Hy.
          destruct (lex_le (key x) (key y)) eqn:Exy; [|reflexivity].
          assert (lex_le (key x) (key h0) = true) as Hc
            by (eapply lex_le_trans; [exact Exy | apply Hmax; exact Hy]).
          congruence.
    - apply last_opt_none in E0.
      assert (r = []) as ->.
      { destruct r as [|z r']; [reflexivity|]. exfalso.
        assert (In z (sorted_by key (z :: r'))) as Hin by (apply sorted_In; left; reflexivity).
        rewrite E0 in Hin. contradiction. }
      inversion H. subst h. split.
      + intros y [Hy|[]]. subst. apply lex_le_refl.
      + exists [], []. split; [reflexivity | intros y []].
  Qed.

  Lemma sorted_last_none : forall l, last_opt (sorted_by key l) = None -> l = [].
  Proof.
    intros l H. apply last_opt_none in H. destruct l as [|z r]; [reflexivity|]. exfalso.
    assert (In z (sorted_by key (z :: r))) as Hin by (apply sorted_In; left; reflexivity).
    rewrite H in Hin. contradiction.
  Qed.
End Sort.

(* ------------------------------------------------------------------ first-occurrence de-duplication *)
Lemma zdedup_In : forall x l, In x (zdedup l) <-> In x l.
Proof.
  intros x l. induction l as [|y r IH]; simpl; [tauto|].
  rewrite filter_In, IH, negb_true_iff, Z.eqb_neq. split.
  - intros [H|[H _]]; auto.
  - intros [H|H]; [left; exact H|]. destruct (Z.eq_dec y x) as [E|E]; [left; exact E | right; split; auto].
Qed.

Lemma NoDup_filter : forall {A} (p : A -> bool) l, NoDup l -> NoDup (filter p l).
Proof.
  intros A p l H. induction H as [|x r Hx Hr IH]; simpl; [constructor|].
  destruct (p x); [constructor; [rewrite filter_In; tauto | exact IH] | exact IH].
Qed.

Lemma zdedup_NoDup : forall l, NoDup (zdedup l).
Proof.
  intros l. induction l as [|y r IH]; simpl; [constructor|]. constructor.
  - rewrite filter_In, negb_true_iff, Z.eqb_neq. tauto.
  - apply NoDup_filter. exact IH.
Qed.

Lemma zdedup_nodup_id : forall l, NoDup l -> zdedup l = l.
Proof.
  intros l H. induction H as [|x r Hx Hr IH]; simpl; [reflexivity|]. rewrite IH. f_equal.
  rewrite <- (filter_ext_in (fun _ => true)).
  - clear. induction r as [|a r IH]; simpl; [reflexivity | rewrite IH; reflexivity].
  - intros a Ha. symmetry. apply negb_true_iff, Z.eqb_neq. intros E. subst. contradiction.
Qed.

(* keys of a dict filled by successive d[i] = ... from the keys ks *)
Fixpoint keys_after (ks : list Z) (l : list Z) : list Z :=
  match l with
  | [] => ks
  | i :: r => keys_after (if zmem i ks then ks else ks ++ [i]) r
  end.

Lemma filter_true : forall {A} (l : list A), filter (fun _ => true) l = l.
Proof. intros A l. induction l as [|a r IH]; simpl; [reflexivity | rewrite IH; reflexivity]. Qed.

Lemma keys_after_dedup : forall l ks,
  keys_after ks l = ks ++ filter (fun y => negb (zmem y ks)) (zdedup l).
Proof.
  intros l. induction l as [|i r IH]; intros ks; simpl.
  - rewrite app_nil_r. reflexivity.
  - destruct (zmem i ks) eqn:Ei; simpl.
    + rewrite IH. f_equal. rewrite filter_filter_and. apply filter_ext. intros y.
      destruct (zmem y ks) eqn:Ey; simpl; [reflexivity|].
      destruct (Z.eqb y i) eqn:E; [|reflexivity]. apply Z.eqb_eq in E. subst. congruence.
    + rewrite IH. rewrite <- app_assoc. simpl. f_equal. f_equal.
      rewrite filter_filter_and. apply filter_ext. intros y.
      rewrite zmem_app. simpl. unfold zmem at 2. simpl. rewrite orb_false_r.
      rewrite negb_orb. reflexivity.
Qed.

Lemma keys_after_nil : forall l, keys_after [] l = zdedup l.
Proof. intros l. rewrite keys_after_dedup. simpl. apply filter_true. Qed.

(* before / after the first occurrence *)
Lemma before_split : forall i l1 l2, ~ In i l1 -> before i (l1 ++ i :: l2) = l1.
Proof.
  intros i l1 l2. induction l1 as [|x r IH]; simpl; intros H.
  - rewrite Z.eqb_refl. reflexivity.
  - destruct (Z.eqb x i) eqn:E; [apply Z.eqb_eq in E; subst; exfalso; apply H; left; reflexivity|].
    f_equal. apply IH. intros Hin. apply H. right. exact Hin.
Qed.

Lemma after_split : forall i l1 l2, ~ In i l1 -> after i (l1 ++ i :: l2) = l2.
Proof.
  intros i l1 l2. induction l1 as [|x r IH]; simpl; intros H.
  - rewrite Z.eqb_refl. reflexivity.
  - destruct (Z.eqb x i) eqn:E; [apply Z.eqb_eq in E; subst; exfalso; apply H; left; reflexivity|].
    apply IH. intros Hin. apply H. right. exact Hin.
Qed.

Lemma NoDup_split_notin : forall (i : Z) l1 l2, NoDup (l1 ++ i :: l2) -> ~ In i l1.
Proof.
  intros i l1 l2 H Hin. apply NoDup_remove_2 in H. apply H. apply in_or_app. left. exact Hin.
Qed.

Lemma before_filter : forall p i l, p i = true -> before i (filter p l) = filter p (before i l).
Proof.
  intros p i l Hp. induction l as [|x r IH]; simpl; [reflexivity|].
  destruct (Z.eqb x i) eqn:E.
  - apply Z.eqb_eq in E. subst. rewrite Hp. simpl. rewrite Z.eqb_refl. reflexivity.
  - destruct (p x) eqn:Hx; simpl; rewrite ?E; simpl; rewrite ?Hx, IH; reflexivity.
Qed.

Lemma after_filter : forall p i l, p i = true -> after i (filter p l) = filter p (after i l).
Proof.
  intros p i l Hp. induction l as [|x r IH]; simpl; [reflexivity|].
  destruct (Z.eqb x i) eqn:E.
  - apply Z.eqb_eq in E. subst. rewrite Hp. simpl. rewrite Z.eqb_refl. reflexivity.
  - destruct (p x) eqn:Hx; simpl; rewrite ?E; simpl; rewrite ?Hx, IH; reflexivity.
Qed.

Lemma before_or : forall a b l, In a l -> In b l -> a <> b -> In a (before b l) \/ In b (before a l).
Proof.
  intros a b l. induction l as [|x r IH]; intros Ha Hb Hne; [contradiction|]. simpl.
  destruct (Z.eqb x b) eqn:Eb; destruct (Z.eqb x a) eqn:Ea.
  - apply Z.eqb_eq in Eb, Ea. congruence.
  - apply Z.eqb_eq in Eb. subst x. right. left. reflexivity.
  - apply Z.eqb_eq in Ea. subst x. left. left. reflexivity.
  - apply Z.eqb_neq in Eb, Ea. destruct Ha as [Ha|Ha]; [congruence|]. destruct Hb as [Hb|Hb]; [congruence|].
    destruct (IH Ha Hb Hne) as [H|H]; [left | right]; right; exact H.
Qed.

Lemma after_or : forall a b l, In a l -> In b l -> a <> b -> In a (after b l) \/ In b (after a l).
Proof.
  intros a b l. induction l as [|x r IH]; intros Ha Hb Hne; [contradiction|]. simpl.
  destruct (Z.eqb x b) eqn:Eb; destruct (Z.eqb x a) eqn:Ea.
  - apply Z.eqb_eq in Eb, Ea. congruence.
  - apply Z.eqb_eq in Eb. subst x. left. destruct Ha as [Ha|Ha]; [congruence | exact Ha].
  - apply Z.eqb_eq in Ea. subst x. right. destruct Hb as [Hb|Hb]; [congruence | exact Hb].
  - apply Z.eqb_neq in Eb, Ea. destruct Ha as [Ha|Ha]; [congruence|]. destruct Hb as [Hb|Hb]; [congruence|].
    apply IH; assumption.
Qed.

Lemma before_In : forall i j l, In j (before i l) -> In j l.
Proof.
  intros i j l. induction l as [|x r IH]; simpl; [tauto|].
  destruct (Z.eqb x i); simpl; [tauto|]. intros [H|H]; auto.
Qed.

Lemma after_In : forall i j l, In j (after i l) -> In j l.
Proof.
  intros i j l. induction l as [|x r IH]; simpl; [tauto|].
  destruct (Z.eqb x i); simpl; [auto|]. intros H. auto.
Qed.

(* ------------------------------------------------------------------ what the code computes: per-node maps *)
Lemma bind_ok : forall {A B} (r : result A) (f : A -> result B) b,
  bind r f = Ok b -> exists a, r = Ok a /\ f a = Ok b.
Proof. intros A B r f b H. destruct r as [a|k]; simpl in H; [exists a; auto | discriminate]. Qed.

Lemma inst_of_ok : forall L i x, inst_of L i = Ok x -> aget i (l_insts L) = Some x.
Proof. intros L i x H. unfold inst_of in H. destruct (aget i (l_insts L)); inversion H; reflexivity. Qed.

Lemma machine_of_ok : forall L i m, machine_of L i = Ok m -> node_opt L i = Some m.
Proof.
  intros L i m H. unfold machine_of in H. apply bind_ok in H. destruct H as [x [Hx Hm]].
  apply inst_of_ok in Hx. unfold node_opt. rewrite Hx. destruct (i_node x); inversion Hm; reflexivity.
Qed.

Lemma sum_loads_ok : forall L ids s, sum_loads L ids = Ok s -> s = zsum (map (inst_load L) ids).
Proof.
  intros L ids. induction ids as [|i r IH]; intros s H; simpl in H.
  - inversion H. reflexivity.
  - apply bind_ok in H. destruct H as [x [Hx H]]. apply bind_ok in H. destruct H as [s' [Hs' H]].
    inversion H. subst s. apply inst_of_ok in Hx. rewrite (IH s' Hs').
    change (zsum (map (inst_load L) (i :: r))) with (inst_load L i + zsum (map (inst_load L) r)).
    assert (inst_load L i = i_load x) as -> by (unfold inst_load; rewrite Hx; reflexivity). reflexivity.
Qed.

Lemma nodes_load_from_get : forall L nodes a m, nodes_load_from L nodes = Ok a ->
  aget m a = match aget m nodes with Some ids => Some (zsum (map (inst_load L) ids)) | None => None end.
Proof.
  intros L nodes. induction nodes as [|[k ids] r IH]; intros a m H; simpl in H.
  - inversion H. reflexivity.
  - apply bind_ok in H. destruct H as [s [Hs H]]. apply bind_ok in H. destruct H as [rest [Hrest H]].
    inversion H. subst a. simpl. destruct (Z.eqb m k).
    + rewrite (sum_loads_ok _ _ _ Hs). reflexivity.
    + apply IH. exact Hrest.
Qed.

Lemma nodes_load_get : forall L a m, nodes_load L = Ok a -> dget m a 0 = node_code_load L m.
Proof.
  intros L a m H. unfold dget, node_code_load. rewrite (nodes_load_from_get _ _ _ m H).
  destruct (aget m (l_nodes L)); reflexivity.
Qed.

Lemma node_req_cons : forall L i ld r m,
  node_req L ((i, ld) :: r) m = (if node_is (node_opt L i) m then ld else 0) + node_req L r m.
Proof.
  intros L i ld r m. unfold node_req. simpl. destruct (node_is (node_opt L i) m); simpl; lia.
Qed.

Lemma node_requests_from_get : forall L reqs acc a, node_requests_from L acc reqs = Ok a ->
  forall m, (aget m a = match aget m acc with Some v => Some (v + node_req L reqs m) | None => None end)
            /\ (aget m acc = None -> node_req L reqs m = 0).
Proof.
  intros L reqs. induction reqs as [|[i ld] r IH]; intros acc a H m; simpl in H.
  - inversion H. subst a. split.
    + destruct (aget m acc); [f_equal; unfold node_req; simpl; lia | reflexivity].
    + intros _. reflexivity.
  - apply bind_ok in H. destruct H as [mi [Hmi H]].
    destruct (aget mi acc) as [v|] eqn:Ev; [|discriminate].
    apply machine_of_ok in Hmi. destruct (IH _ _ H m) as [IH1 IH2].
    rewrite node_req_cons, Hmi. simpl. destruct (Z.eqb mi m) eqn:E.
    + apply Z.eqb_eq in E. subst mi. rewrite aget_aset_same in IH1. rewrite Ev. split.
      * rewrite IH1. f_equal. lia.
      * intros Hc. discriminate.
    + apply Z.eqb_neq in E. rewrite aget_aset_other in IH1, IH2 by congruence. split.
      * rewrite IH1. destruct (aget m acc); reflexivity.
      * intros Hn. rewrite (IH2 Hn). reflexivity.
Qed.

Lemma aget_map_zero : forall {V} (nodes : alist V) m,
  aget m (map (fun kv => (fst kv, 0)) nodes) = match aget m nodes with Some _ => Some 0 | None => None end.
Proof.
  intros V nodes m. induction nodes as [|[k v] r IH]; simpl; [reflexivity|].
  destruct (Z.eqb m k); [reflexivity | exact IH].
Qed.

Lemma node_requests_get : forall L reqs a m, node_requests L reqs = Ok a -> dget m a 0 = node_req L reqs m.
Proof.
  intros L reqs a m H. unfold node_requests in H. destruct (node_requests_from_get _ _ _ _ H m) as [H1 H2].
  unfold dget. rewrite H1. rewrite aget_map_zero in *. destruct (aget m (l_nodes L)).
  - reflexivity.
  - symmetry. apply H2. reflexivity.
Qed.

(* ------------------------------------------------------------------ the loading/validity report *)
(* the pure content of is_loading_valid, for the node-load reading nl *)
Definition lvp (nl : Z -> Z) (L : layout) (expected : Z) (reqs : alist Z) (i : Z) : lvalid :=
  (Z.leb (node_total nl L reqs i + expected) 100, node_total nl L reqs i, inst_total L reqs i).

Lemma is_loading_valid_ok : forall nl L e reqs nreq nload i v,
  (forall m, nl m = node_code_load L m) ->
  node_requests L reqs = Ok nreq -> nodes_load L = Ok nload ->
  is_loading_valid L e reqs nreq nload i = Ok v -> v = lvp nl L e reqs i.
Proof.
  intros nl L e reqs nreq nload i v Hnl Hreq Hload H. unfold is_loading_valid in H.
  apply bind_ok in H. destruct H as [x [Hx H]]. apply inst_of_ok in Hx.
  destruct (i_node x) as [m|] eqn:Em; [|discriminate]. inversion H. clear H.
  unfold lvp, node_total, inst_total, node_opt, inst_load, inst_req. rewrite Hx, Em.
  rewrite (nodes_load_get _ _ m Hload), (node_requests_get _ _ _ m Hreq), Hnl. reflexivity.
Qed.

Definition G (g : Z -> lvalid) (i : Z) : Z * lvalid := (i, g i).

Lemma aset_map_G : forall g i ks,
  aset i (g i) (map (G g) ks) = map (G g) (if zmem i ks then ks else ks ++ [i]).
Proof.
  intros g i ks. induction ks as [|k r IH]; simpl; [reflexivity|].
  unfold zmem in *. simpl. destruct (Z.eqb i k) eqn:E; simpl.
  - apply Z.eqb_eq in E. subst. reflexivity.
  - rewrite IH. destruct (existsb (Z.eqb i) r); reflexivity.
Qed.

Lemma loading_validity_from_ok : forall (f : Z -> result lvalid) g ids ks m,
  (forall i v, f i = Ok v -> v = g i) ->
  loading_validity_from f (map (G g) ks) ids = Ok m -> m = map (G g) (keys_after ks ids).
Proof.
  intros f g ids. induction ids as [|i r IH]; intros ks m Hf H; simpl in H.
  - inversion H. reflexivity.
  - apply bind_ok in H. destruct H as [v [Hv H]]. rewrite (Hf _ _ Hv) in H.
    rewrite aset_map_G in H. simpl. apply IH; assumption.
Qed.

Lemma aget_map_G : forall g k D, In k D -> aget k (map (G g) D) = Some (g k).
Proof.
  intros g k D. induction D as [|x r IH]; intros H; [contradiction|]. simpl.
  destruct (Z.eqb k x) eqn:E.
  - apply Z.eqb_eq in E. subst. reflexivity.
  - apply IH. destruct H as [H|H]; [apply Z.eqb_neq in E; congruence | exact H].
Qed.

Definition trip (nl : Z -> Z) (L : layout) (reqs : alist Z) (i : Z) : triple :=
  (i, node_total nl L reqs i, inst_total L reqs i).

Lemma valid_triples_map : forall nl L e reqs D,
  valid_triples (map (G (lvp nl L e reqs)) D)
  = map (trip nl L reqs) (filter (fun i => Z.leb (node_total nl L reqs i + e) 100) D).
Proof.
  intros nl L e reqs D. unfold valid_triples. induction D as [|x r IH]; simpl; [reflexivity|].
  unfold lv_ok at 1. simpl. destruct (Z.leb (node_total nl L reqs x + e) 100); simpl; [f_equal|]; exact IH.
Qed.

Lemma find_map_G : forall nl L e reqs D,
  match find (fun kv => lv_ok (snd kv)) (map (G (lvp nl L e reqs)) D) with
  | Some kv => Some (fst kv) | None => None end
  = hd_error (filter (fun i => Z.leb (node_total nl L reqs i + e) 100) D).
Proof.
  intros nl L e reqs D. induction D as [|x r IH]; simpl; [reflexivity|].
  unfold lv_ok at 1. simpl. destruct (Z.leb (node_total nl L reqs x + e) 100); simpl; [reflexivity | exact IH].
Qed.

(* on the eligible instances the spec's validity test is the node-cap test *)
Lemma valid_on_candidates : forall nl L ids e reqs,
  filter (valid_cand nl L ids e reqs) (candidates L ids)
  = filter (fun i => Z.leb (node_total nl L reqs i + e) 100) (candidates L ids).
Proof.
  intros nl L ids e reqs. apply filter_ext_in. intros i Hi. unfold candidates in Hi.
  apply (proj1 (zdedup_In _ _)) in Hi. apply (proj1 (filter_In _ _ _)) in Hi. destruct Hi as [Hi Hr].
  unfold valid_cand. rewrite Hr. apply zmem_In in Hi. rewrite Hi. reflexivity.
Qed.

Lemma valid_cand_in_candidates : forall nl L ids e reqs i,
  valid_cand nl L ids e reqs i = true -> In i (filter (valid_cand nl L ids e reqs) (candidates L ids)).
Proof.
  intros nl L ids e reqs i H. apply filter_In. split; [|exact H].
  unfold valid_cand in H. apply andb_true_iff in H. destruct H as [H _]. apply andb_true_iff in H.
  destruct H as [H1 H2]. unfold candidates. apply zdedup_In. apply filter_In. split; [apply zmem_In; exact H1 | exact H2].
Qed.

Lemma last_id_last_opt : forall l, last_id l = option_map t_id (last_opt l).
Proof.
  intros l. induction l as [|x r IH]; [reflexivity|]. destruct r as [|y r']; [reflexivity|].
  simpl in *. exact IH.
Qed.

Lemma first_id_hd : forall l, first_id l = option_map t_id (hd_error l).
Proof. intros l. destruct l; reflexivity. Qed.

(* ------------------------------------------------------------------ head / last of the sorted valid triples *)
Lemma map_trip_split : forall nl L reqs Vc l1 h l2,
  map (trip nl L reqs) Vc = l1 ++ h :: l2 ->
  exists v1 v2, Vc = v1 ++ t_id h :: v2 /\ l1 = map (trip nl L reqs) v1 /\ l2 = map (trip nl L reqs) v2
                /\ h = trip nl L reqs (t_id h).
Proof.
  intros nl L reqs Vc l1 h l2 H. apply map_eq_app in H. destruct H as [v1 [v2' [HV [H1 H2]]]].
  apply map_eq_cons in H2. destruct H2 as [i [v2 [HV2 [Hi H2]]]]. subst.
  exists v1, v2. simpl. auto.
Qed.

Lemma less_core : forall nl L reqs (key : triple -> Z * Z) (sk : Z -> Z * Z) Vc,
  NoDup Vc -> (forall j, key (trip nl L reqs j) = sk j) ->
  match first_id (sorted_by key (map (trip nl L reqs) Vc)) with
  | None => Vc = []
  | Some i => In i Vc /\ forallb (fun j => lex_le (sk i) (sk j)) Vc = true
              /\ forallb (fun j => lex_lt (sk i) (sk j)) (before i Vc) = true
  end.
Proof.
  intros nl L reqs key sk Vc Hnd Hk. rewrite first_id_hd.
  destruct (hd_error (sorted_by key (map (trip nl L reqs) Vc))) as [h|] eqn:E; simpl.
  - destruct (sorted_hd_spec key _ _ E) as [Hmin [l1 [l2 [Hsplit Hstrict]]]].
    destruct (map_trip_split _ _ _ _ _ _ _ Hsplit) as [v1 [v2 [HV [Hl1 [Hl2 Hh]]]]].
    split; [rewrite HV; apply in_or_app; right; left; reflexivity|]. split.
    + apply forallb_forall. intros j Hj. rewrite <- !Hk, <- Hh. apply Hmin. apply in_map. exact Hj.
    + rewrite HV at 1. rewrite HV in Hnd. rewrite before_split by (eapply NoDup_split_notin; exact Hnd).
      apply forallb_forall. intros j Hj. unfold lex_lt. rewrite <- !Hk, <- Hh.
      rewrite Hstrict; [reflexivity|]. rewrite Hl1. apply in_map. exact Hj.
  - apply sorted_hd_none in E. destruct Vc; [reflexivity | discriminate].
Qed.

Lemma most_core : forall nl L reqs (key : triple -> Z * Z) (sk : Z -> Z * Z) Vc,
  NoDup Vc -> (forall j, key (trip nl L reqs j) = sk j) ->
  match last_id (sorted_by key (map (trip nl L reqs) Vc)) with
  | None => Vc = []
  | Some i => In i Vc /\ forallb (fun j => lex_le (sk j) (sk i)) Vc = true
              /\ forallb (fun j => lex_lt (sk j) (sk i)) (after i Vc) = true
  end.
Proof.
  intros nl L reqs key sk Vc Hnd Hk. rewrite last_id_last_opt.
  destruct (last_opt (sorted_by key (map (trip nl L reqs) Vc))) as [h|] eqn:E; simpl.
  - destruct (sorted_last_spec key _ _ E) as [Hmax [l1 [l2 [Hsplit Hstrict]]]].
    destruct (map_trip_split _ _ _ _ _ _ _ Hsplit) as [v1 [v2 [HV [Hl1 [Hl2 Hh]]]]].
    split; [rewrite HV; apply in_or_app; right; left; reflexivity|]. split.
    + apply forallb_forall. intros j Hj. rewrite <- !Hk, <- Hh. apply Hmax. apply in_map. exact Hj.
    + rewrite HV at 1. rewrite HV in Hnd. rewrite after_split by (eapply NoDup_split_notin; exact Hnd).
      apply forallb_forall. intros j Hj. unfold lex_lt. rewrite <- !Hk, <- Hh.
      rewrite Hstrict; [reflexivity|]. rewrite Hl2. apply in_map. exact Hj.
  - apply sorted_last_none in E. destruct Vc; [reflexivity | discriminate].
Qed.

(* ------------------------------------------------------------------ model |= spec *)
Lemma gsi_unfold : forall s local L ids e reqs r,
  get_supvisors_instance s local L ids e reqs = Ok r ->
  let cands := filter (fun i => zmem i (running_identifiers L)) ids in
  (cands = [] /\ r = None)
  \/ (cands <> [] /\ exists nreq nload, node_requests L reqs = Ok nreq /\ nodes_load L = Ok nload
                    /\ apply_strategy s local L cands e reqs nreq nload = Ok r).
Proof.
  intros s local L ids e reqs r H cands. unfold get_supvisors_instance in H. fold cands in H.
  destruct cands as [|c cs] eqn:Ec.
  - left. inversion H. auto.
  - right. split; [discriminate|]. apply bind_ok in H. destruct H as [nreq [Hreq H]].
    apply bind_ok in H. destruct H as [nload [Hload H]]. exists nreq, nload. auto.
Qed.

Lemma lvmap_ok : forall nl L e reqs nreq nload cands m,
  (forall m, nl m = node_code_load L m) ->
  node_requests L reqs = Ok nreq -> nodes_load L = Ok nload ->
  loading_validity_from (is_loading_valid L e reqs nreq nload) [] cands = Ok m ->
  m = map (G (lvp nl L e reqs)) (zdedup cands).
Proof.
  intros nl L e reqs nreq nload cands m Hnl Hreq Hload H. rewrite <- keys_after_nil.
  apply (loading_validity_from_ok (is_loading_valid L e reqs nreq nload) (lvp nl L e reqs) cands [] m).
  - intros i v Hv. eapply is_loading_valid_ok; eassumption.
  - exact H.
Qed.

Lemma filter_nil_valid : forall nl L ids e reqs,
  filter (fun i => zmem i (running_identifiers L)) ids = [] ->
  forall i, valid_cand nl L ids e reqs i = false.
Proof.
  intros nl L ids e reqs H i. unfold valid_cand.
  destruct (zmem i ids && zmem i (running_identifiers L)) eqn:E; [|reflexivity]. exfalso.
  pose proof (zmem_filter i (fun i => zmem i (running_identifiers L)) ids) as Hz.
  rewrite H in Hz. cbv beta in Hz. rewrite E in Hz. discriminate.
Qed.

Theorem model_refines_spec : forall nl s local L ids e reqs r,
  (forall m, nl m = node_code_load L m) ->
  get_supvisors_instance s local L ids e reqs = Ok r ->
  spec_accepts nl s local L ids e reqs r = true.
Proof.
  intros nl s local L ids e reqs r Hnl H.
  apply gsi_unfold in H. destruct H as [[Hc Hr]|[Hc [nreq [nload [Hreq [Hload H]]]]]].
  - (* no candidate seen RUNNING *)
    subst r. unfold spec_accepts, candidates. rewrite Hc. simpl.
    destruct s; try reflexivity. rewrite (filter_nil_valid nl L ids e reqs Hc). reflexivity.
  - set (cands := filter (fun i => zmem i (running_identifiers L)) ids) in *.
    assert (forall m, loading_validity_from (is_loading_valid L e reqs nreq nload) [] cands = Ok m ->
                      m = map (G (lvp nl L e reqs)) (candidates L ids)) as Hmap.
    { intros m Hm. eapply lvmap_ok; eassumption. }
    pose proof (valid_on_candidates nl L ids e reqs) as HV.
    assert (NoDup (filter (valid_cand nl L ids e reqs) (candidates L ids))) as Hnd
      by (apply NoDup_filter, zdedup_NoDup).
    unfold spec_accepts. unfold apply_strategy in H.
    destruct s.
    + (* CONFIG *)
      apply bind_ok in H. destruct H as [m [Hm H]]. rewrite (Hmap m Hm) in H. rewrite find_map_G in H.
      rewrite <- HV in H. inversion H as [Hr]. clear H.
      destruct (filter (valid_cand nl L ids e reqs) (candidates L ids)) as [|i rest] eqn:EV; simpl.
      * reflexivity.
      * assert (In i (filter (valid_cand nl L ids e reqs) (candidates L ids))) as Hin by (rewrite EV; left; reflexivity).
        apply filter_In in Hin. destruct Hin as [_ Hvi]. rewrite Hvi, Z.eqb_refl. reflexivity.
    + (* LESS_LOADED *)
      apply bind_ok in H. destruct H as [m [Hm H]]. rewrite (Hmap m Hm) in H.
      unfold sort_valid_by_instance_load in H. rewrite valid_triples_map, <- HV in H. inversion H as [Hr]. clear H.
      pose proof (less_core nl L reqs key_instance_load (skey nl L reqs S_LESS_LOADED) _ Hnd (fun j => eq_refl)) as Hc2.
      destruct (first_id _) as [i|].
      * destruct Hc2 as [Hin [H1 H2]]. rewrite H1, H2. apply filter_In in Hin. destruct Hin as [_ Hvi]. rewrite Hvi. reflexivity.
      * rewrite Hc2. reflexivity.
    + (* MOST_LOADED *)
      apply bind_ok in H. destruct H as [m [Hm H]]. rewrite (Hmap m Hm) in H.
      unfold sort_valid_by_instance_load in H. rewrite valid_triples_map, <- HV in H. inversion H as [Hr]. clear H.
      pose proof (most_core nl L reqs key_instance_load (skey nl L reqs S_MOST_LOADED) _ Hnd (fun j => eq_refl)) as Hc2.
      destruct (last_id _) as [i|].
      * destruct Hc2 as [Hin [H1 H2]]. rewrite H1, H2. apply filter_In in Hin. destruct Hin as [_ Hvi]. rewrite Hvi. reflexivity.
      * rewrite Hc2. reflexivity.
    + (* LOCAL *)
      destruct (zmem local cands) eqn:El; simpl in H.
      * apply bind_ok in H. destruct H as [m [Hm H]]. rewrite (Hmap m Hm) in H.
        assert (In local (candidates L ids)) as Hin by (apply zdedup_In, zmem_In; exact El).
        rewrite (aget_map_G _ _ _ Hin) in H. unfold lv_ok, lvp in H. simpl in H.
        unfold cands in El. rewrite zmem_filter in El.
        assert (valid_cand nl L ids e reqs local = Z.leb (node_total nl L reqs local + e) 100) as Hv
          by (unfold valid_cand; rewrite El; reflexivity).
        rewrite Hv. destruct (Z.leb (node_total nl L reqs local + e) 100); inversion H; simpl.
        -- rewrite Z.eqb_refl. reflexivity.
        -- reflexivity.
      * inversion H. unfold cands in El. rewrite zmem_filter in El. unfold valid_cand. rewrite El. reflexivity.
    + (* LESS_LOADED_NODE *)
      apply bind_ok in H. destruct H as [m [Hm H]]. rewrite (Hmap m Hm) in H.
      unfold sort_valid_by_node_load in H. rewrite valid_triples_map, <- HV in H. inversion H as [Hr]. clear H.
      pose proof (less_core nl L reqs key_node_load (skey nl L reqs S_LESS_LOADED_NODE) _ Hnd (fun j => eq_refl)) as Hc2.
      destruct (first_id _) as [i|].
      * destruct Hc2 as [Hin [H1 H2]]. rewrite H1, H2. apply filter_In in Hin. destruct Hin as [_ Hvi]. rewrite Hvi. reflexivity.
      * rewrite Hc2. reflexivity.
    + (* MOST_LOADED_NODE *)
      apply bind_ok in H. destruct H as [m [Hm H]]. rewrite (Hmap m Hm) in H.
      unfold sort_valid_by_node_load in H. rewrite valid_triples_map, <- HV in H. inversion H as [Hr]. clear H.
      pose proof (most_core nl L reqs key_node_load (skey nl L reqs S_MOST_LOADED_NODE) _ Hnd (fun j => eq_refl)) as Hc2.
      destruct (last_id _) as [i|].
      * destruct Hc2 as [Hin [H1 H2]]. rewrite H1, H2. apply filter_In in Hin. destruct Hin as [_ Hvi]. rewrite Hvi. reflexivity.
      * rewrite Hc2. reflexivity.
Qed.

(* ------------------------------------------------------------------ Prop reading of the specification *)
(* a valid candidate: requested, seen RUNNING, and its node can carry the extra load (node cap 100) *)
Definition Valid (nl : Z -> Z) (L : layout) (ids : list Z) (e : Z) (reqs : alist Z) (i : Z) : Prop :=
  In i ids /\ In i (running_identifiers L) /\ node_total nl L reqs i + e <= 100.

Lemma valid_cand_iff : forall nl L ids e reqs i,
  valid_cand nl L ids e reqs i = true <-> Valid nl L ids e reqs i.
Proof.
  intros nl L ids e reqs i. unfold valid_cand, Valid.
  rewrite !andb_true_iff, !zmem_In, Z.leb_le. tauto.
Qed.

Lemma nil_match : forall {A} (l : list A), match l with [] => true | _ :: _ => false end = true -> l = [].
Proof. intros A l H. destruct l; [reflexivity | discriminate]. Qed.

Lemma spec_some : forall nl s local L ids e reqs i,
  spec_accepts nl s local L ids e reqs (Some i) = true ->
  valid_cand nl L ids e reqs i = true /\ (s = S_LOCAL -> i = local).
Proof.
  intros nl s local L ids e reqs i H. unfold spec_accepts in H. cbv zeta in H.
  destruct s.
  - apply andb_true_iff in H. destruct H as [H _]. split; [exact H | discriminate].
  - apply andb_true_iff in H. destruct H as [H _]. apply andb_true_iff in H. destruct H as [H _].
    split; [exact H | discriminate].
  - apply andb_true_iff in H. destruct H as [H _]. apply andb_true_iff in H. destruct H as [H _].
    split; [exact H | discriminate].
  - apply andb_true_iff in H. destruct H as [H1 H2]. apply Z.eqb_eq in H1. subst i.
    split; [exact H2 | reflexivity].
  - apply andb_true_iff in H. destruct H as [H _]. apply andb_true_iff in H. destruct H as [H _].
    split; [exact H | discriminate].
  - apply andb_true_iff in H. destruct H as [H _]. apply andb_true_iff in H. destruct H as [H _].
    split; [exact H | discriminate].
Qed.

Lemma spec_none : forall nl s local L ids e reqs,
  spec_accepts nl s local L ids e reqs None = true ->
  forall i, (s = S_LOCAL -> i = local) -> valid_cand nl L ids e reqs i = false.
Proof.
  intros nl s local L ids e reqs H i Hl. unfold spec_accepts in H.
  destruct s; try (apply nil_match in H;
                   destruct (valid_cand nl L ids e reqs i) eqn:E; [|reflexivity];
                   apply valid_cand_in_candidates in E; rewrite H in E; contradiction).
  rewrite (Hl eq_refl). apply negb_true_iff. exact H.
Qed.

(* the specification determines the answer: spec = code *)
Theorem spec_deterministic : forall nl s local L ids e reqs r1 r2,
  spec_accepts nl s local L ids e reqs r1 = true ->
  spec_accepts nl s local L ids e reqs r2 = true -> r1 = r2.
Proof.
  intros nl s local L ids e reqs r1 r2 H1 H2.
  destruct r1 as [i1|]; destruct r2 as [i2|]; try reflexivity.
  - destruct (Z.eq_dec i1 i2) as [E|E]; [subst; reflexivity|]. exfalso.
    destruct (spec_some _ _ _ _ _ _ _ _ H1) as [V1 L1]. destruct (spec_some _ _ _ _ _ _ _ _ H2) as [V2 L2].
    pose proof (valid_cand_in_candidates _ _ _ _ _ _ V1) as I1.
    pose proof (valid_cand_in_candidates _ _ _ _ _ _ V2) as I2.
    unfold spec_accepts in H1, H2. rewrite V1 in H1. rewrite V2 in H2. simpl in H1, H2.
    set (V := filter (valid_cand nl L ids e reqs) (candidates L ids)) in *.
    destruct s.
    + (* CONFIG *) apply nil_match in H1. apply nil_match in H2.
      destruct (before_or i1 i2 V I1 I2 E) as [B|B]; [rewrite H2 in B | rewrite H1 in B]; contradiction.
    + apply andb_true_iff in H1, H2. destruct H1 as [A1 B1]. destruct H2 as [A2 B2].
      rewrite forallb_forall in A1, A2, B1, B2.
      pose proof (lex_le_antisym _ _ (A1 _ I2) (A2 _ I1)) as Ek.
      destruct (before_or i1 i2 V I1 I2 E) as [B|B].
      * specialize (B2 _ B). unfold lex_lt in B2. rewrite Ek, lex_le_refl in B2. discriminate.
      * specialize (B1 _ B). unfold lex_lt in B1. rewrite Ek, lex_le_refl in B1. discriminate.
    + apply andb_true_iff in H1, H2. destruct H1 as [A1 B1]. destruct H2 as [A2 B2].
      rewrite forallb_forall in A1, A2, B1, B2.
      pose proof (lex_le_antisym _ _ (A1 _ I2) (A2 _ I1)) as Ek.
      destruct (after_or i1 i2 V I1 I2 E) as [B|B].
      * specialize (B2 _ B). unfold lex_lt in B2. rewrite Ek, lex_le_refl in B2. discriminate.
      * specialize (B1 _ B). unfold lex_lt in B1. rewrite <- Ek, lex_le_refl in B1. discriminate.
    + rewrite (L1 eq_refl), (L2 eq_refl) in E. congruence.
    + apply andb_true_iff in H1, H2. destruct H1 as [A1 B1]. destruct H2 as [A2 B2].
      rewrite forallb_forall in A1, A2, B1, B2.
      pose proof (lex_le_antisym _ _ (A1 _ I2) (A2 _ I1)) as Ek.
      destruct (before_or i1 i2 V I1 I2 E) as [B|B].
      * specialize (B2 _ B). unfold lex_lt in B2. rewrite Ek, lex_le_refl in B2. discriminate.
      * specialize (B1 _ B). unfold lex_lt in B1. rewrite Ek, lex_le_refl in B1. discriminate.
    + apply andb_true_iff in H1, H2. destruct H1 as [A1 B1]. destruct H2 as [A2 B2].
      rewrite forallb_forall in A1, A2, B1, B2.
      pose proof (lex_le_antisym _ _ (A1 _ I2) (A2 _ I1)) as Ek.
      destruct (after_or i1 i2 V I1 I2 E) as [B|B].
      * specialize (B2 _ B). unfold lex_lt in B2. rewrite Ek, lex_le_refl in B2. discriminate.
      * specialize (B1 _ B). unfold lex_lt in B1. rewrite <- Ek, lex_le_refl in B1. discriminate.
  - destruct (spec_some _ _ _ _ _ _ _ _ H1) as [V1 L1].
    rewrite (spec_none _ _ _ _ _ _ _ H2 i1 L1) in V1. discriminate.
  - destruct (spec_some _ _ _ _ _ _ _ _ H2) as [V2 L2].
    rewrite (spec_none _ _ _ _ _ _ _ H1 i2 L2) in V2. discriminate.
Qed.

(* ---- the theorems of DESIGN §5 C14, for any node-load reading that agrees with the code's *)
Section Readings.
  Variable nl : Z -> Z.
  Variable L : layout.
  Hypothesis Hnl : forall m, nl m = node_code_load L m.

  Theorem result_valid : forall s local ids e reqs i,
    get_supvisors_instance s local L ids e reqs = Ok (Some i) -> Valid nl L ids e reqs i.
  Proof.
    intros s local ids e reqs i H. apply (model_refines_spec nl) in H; [|exact Hnl].
    apply spec_some in H. apply valid_cand_iff. tauto.
  Qed.

  (* None iff no valid candidate (for LOCAL: iff the requesting instance is not a valid candidate) *)
  Theorem none_iff_no_valid : forall s local ids e reqs r,
    get_supvisors_instance s local L ids e reqs = Ok r ->
    (r = None <-> forall i, (s = S_LOCAL -> i = local) -> ~ Valid nl L ids e reqs i).
  Proof.
    intros s local ids e reqs r H. apply (model_refines_spec nl) in H; [|exact Hnl]. split.
    - intros -> i Hl Hv. apply valid_cand_iff in Hv. rewrite (spec_none _ _ _ _ _ _ _ H i Hl) in Hv. discriminate.
    - intros Hno. destruct r as [i|]; [|reflexivity]. exfalso. apply spec_some in H. destruct H as [Hv Hl].
      apply (Hno i Hl). apply valid_cand_iff. exact Hv.
  Qed.

  Theorem local_only : forall local ids e reqs r,
    get_supvisors_instance S_LOCAL local L ids e reqs = Ok r ->
    (r = Some local /\ Valid nl L ids e reqs local) \/ (r = None /\ ~ Valid nl L ids e reqs local).
  Proof.
    intros local ids e reqs r H. apply (model_refines_spec nl) in H; [|exact Hnl]. destruct r as [i|].
    - left. apply spec_some in H. destruct H as [Hv Hl]. rewrite (Hl eq_refl) in *. split; [reflexivity|].
      apply valid_cand_iff. exact Hv.
    - right. split; [reflexivity|]. intros Hv. apply valid_cand_iff in Hv.
      rewrite (spec_none _ _ _ _ _ _ _ H local (fun _ => eq_refl)) in Hv. discriminate.
  Qed.

  (* CONFIG: the first valid candidate in declared order *)
  Theorem config_first : forall local ids e reqs i,
    get_supvisors_instance S_CONFIG local L ids e reqs = Ok (Some i) ->
    Valid nl L ids e reqs i
    /\ forall j, In j (before i (candidates L ids)) -> ~ Valid nl L ids e reqs j.
  Proof.
    intros local ids e reqs i H. apply (model_refines_spec nl) in H; [|exact Hnl].
    destruct (spec_some _ _ _ _ _ _ _ _ H) as [Hv _]. split; [apply valid_cand_iff; exact Hv|].
    intros j Hj Hvj. apply valid_cand_iff in Hvj. unfold spec_accepts in H. rewrite Hv in H. simpl in H.
    apply nil_match in H. rewrite before_filter in H by exact Hv.
    assert (In j (filter (valid_cand nl L ids e reqs) (before i (candidates L ids)))) as Hin
      by (apply filter_In; split; assumption).
    rewrite H in Hin. contradiction.
  Qed.

  (* shared shape of the four load-ordered strategies *)
  Lemma less_like : forall s local ids e reqs i,
    (s = S_LESS_LOADED \/ s = S_LESS_LOADED_NODE) ->
    get_supvisors_instance s local L ids e reqs = Ok (Some i) ->
    Valid nl L ids e reqs i
    /\ (forall j, Valid nl L ids e reqs j -> lexle (skey nl L reqs s i) (skey nl L reqs s j))
    /\ (forall j, Valid nl L ids e reqs j -> In j (before i (candidates L ids)) ->
                  lexlt (skey nl L reqs s i) (skey nl L reqs s j)).
  Proof.
    intros s local ids e reqs i Hs H. apply (model_refines_spec nl) in H; [|exact Hnl].
    destruct (spec_some _ _ _ _ _ _ _ _ H) as [Hv _]. split; [apply valid_cand_iff; exact Hv|].
    unfold spec_accepts in H. rewrite Hv in H.
    assert (forallb (fun j => lex_le (skey nl L reqs s i) (skey nl L reqs s j))
                    (filter (valid_cand nl L ids e reqs) (candidates L ids)) = true
            /\ forallb (fun j => lex_lt (skey nl L reqs s i) (skey nl L reqs s j))
                       (before i (filter (valid_cand nl L ids e reqs) (candidates L ids))) = true) as [A B].
    { destruct Hs as [-> | ->]; simpl in H; apply andb_true_iff in H; exact H. }
    rewrite forallb_forall in A, B. split.
    - intros j Hj. apply lex_le_iff. apply A. apply valid_cand_in_candidates. apply valid_cand_iff. exact Hj.
    - intros j Hj Hb. apply lex_lt_iff. apply B. rewrite before_filter by exact Hv.
      apply filter_In. split; [exact Hb | apply valid_cand_iff; exact Hj].
  Qed.

  Lemma most_like : forall s local ids e reqs i,
    (s = S_MOST_LOADED \/ s = S_MOST_LOADED_NODE) ->
    get_supvisors_instance s local L ids e reqs = Ok (Some i) ->
    Valid nl L ids e reqs i
    /\ (forall j, Valid nl L ids e reqs j -> lexle (skey nl L reqs s j) (skey nl L reqs s i))
    /\ (forall j, Valid nl L ids e reqs j -> In j (after i (candidates L ids)) ->
                  lexlt (skey nl L reqs s j) (skey nl L reqs s i)).
  Proof.
    intros s local ids e reqs i Hs H. apply (model_refines_spec nl) in H; [|exact Hnl].
    destruct (spec_some _ _ _ _ _ _ _ _ H) as [Hv _]. split; [apply valid_cand_iff; exact Hv|].
    unfold spec_accepts in H. rewrite Hv in H.
    assert (forallb (fun j => lex_le (skey nl L reqs s j) (skey nl L reqs s i))
                    (filter (valid_cand nl L ids e reqs) (candidates L ids)) = true
            /\ forallb (fun j => lex_lt (skey nl L reqs s j) (skey nl L reqs s i))
                       (after i (filter (valid_cand nl L ids e reqs) (candidates L ids))) = true) as [A B].
    { destruct Hs as [-> | ->]; simpl in H; apply andb_true_iff in H; exact H. }
    rewrite forallb_forall in A, B. split.
    - intros j Hj. apply lex_le_iff. apply A. apply valid_cand_in_candidates. apply valid_cand_iff. exact Hj.
    - intros j Hj Hb. apply lex_lt_iff. apply B. rewrite after_filter by exact Hv.
      apply filter_In. split; [exact Hb | apply valid_cand_iff; exact Hj].
  Qed.

  (* LESS_LOADED: lowest instance load, node load breaking ties, then the first in declared order *)
  Theorem less_loaded_optimal : forall local ids e reqs i,
    get_supvisors_instance S_LESS_LOADED local L ids e reqs = Ok (Some i) ->
    Valid nl L ids e reqs i
    /\ (forall j, Valid nl L ids e reqs j ->
          lexle (inst_total L reqs i, node_total nl L reqs i) (inst_total L reqs j, node_total nl L reqs j))
    /\ (forall j, Valid nl L ids e reqs j -> In j (before i (candidates L ids)) ->
          lexlt (inst_total L reqs i, node_total nl L reqs i) (inst_total L reqs j, node_total nl L reqs j)).
  Proof. intros local ids e reqs i H. exact (less_like S_LESS_LOADED local ids e reqs i (or_introl eq_refl) H). Qed.

  (* MOST_LOADED: highest instance load, node load breaking ties, then the last in declared order *)
  Theorem most_loaded_optimal : forall local ids e reqs i,
    get_supvisors_instance S_MOST_LOADED local L ids e reqs = Ok (Some i) ->
    Valid nl L ids e reqs i
    /\ (forall j, Valid nl L ids e reqs j ->
          lexle (inst_total L reqs j, node_total nl L reqs j) (inst_total L reqs i, node_total nl L reqs i))
    /\ (forall j, Valid nl L ids e reqs j -> In j (after i (candidates L ids)) ->
          lexlt (inst_total L reqs j, node_total nl L reqs j) (inst_total L reqs i, node_total nl L reqs i)).
  Proof. intros local ids e reqs i H. exact (most_like S_MOST_LOADED local ids e reqs i (or_introl eq_refl) H). Qed.

  (* LESS_LOADED_NODE: least loaded node, instance load breaking ties, then the first in declared order *)
  Theorem less_loaded_node_optimal : forall local ids e reqs i,
    get_supvisors_instance S_LESS_LOADED_NODE local L ids e reqs = Ok (Some i) ->
    Valid nl L ids e reqs i
    /\ (forall j, Valid nl L ids e reqs j ->
          lexle (node_total nl L reqs i, inst_total L reqs i) (node_total nl L reqs j, inst_total L reqs j))
    /\ (forall j, Valid nl L ids e reqs j -> In j (before i (candidates L ids)) ->
          lexlt (node_total nl L reqs i, inst_total L reqs i) (node_total nl L reqs j, inst_total L reqs j)).
  Proof. intros local ids e reqs i H. exact (less_like S_LESS_LOADED_NODE local ids e reqs i (or_intror eq_refl) H). Qed.

  (* MOST_LOADED_NODE: most loaded node, instance load breaking ties, then the last in declared order *)
  Theorem most_loaded_node_optimal : forall local ids e reqs i,
    get_supvisors_instance S_MOST_LOADED_NODE local L ids e reqs = Ok (Some i) ->
    Valid nl L ids e reqs i
    /\ (forall j, Valid nl L ids e reqs j ->
          lexle (node_total nl L reqs j, inst_total L reqs j) (node_total nl L reqs i, inst_total L reqs i))
    /\ (forall j, Valid nl L ids e reqs j -> In j (after i (candidates L ids)) ->
          lexlt (node_total nl L reqs j, inst_total L reqs j) (node_total nl L reqs i, inst_total L reqs i)).
  Proof. intros local ids e reqs i H. exact (most_like S_MOST_LOADED_NODE local ids e reqs i (or_intror eq_refl) H). Qed.
End Readings.

(* ------------------------------------------------------------------ the true node load reading *)
Lemma znodup_NoDup : forall l, znodup l = true <-> NoDup l.
Proof.
  intros l. induction l as [|x r IH]; simpl.
  - split; [constructor | reflexivity].
  - rewrite andb_true_iff, negb_true_iff, zmem_false_In, IH. split.
    + intros [H1 H2]. constructor; assumption.
    + intros H. inversion H. auto.
Qed.

Lemma aget_nodup_In : forall {V} (l : alist V) k v, NoDup (map fst l) -> In (k, v) l -> aget k l = Some v.
Proof.
  intros V l k v. induction l as [|[k' v'] r IH]; intros Hnd Hin; [contradiction|]. simpl in *.
  inversion Hnd as [|? ? Hk Hr]. subst. destruct Hin as [Hin|Hin].
  - inversion Hin. subst. rewrite Z.eqb_refl. reflexivity.
  - destruct (Z.eqb k k') eqn:E.
    + apply Z.eqb_eq in E. subst k'. exfalso. apply Hk. apply (in_map fst) in Hin. exact Hin.
    + apply IH; assumption.
Qed.

Lemma NoDup_map_fst_filter : forall {V} (p : Z * V -> bool) (l : alist V),
  NoDup (map fst l) -> NoDup (map fst (filter p l)).
Proof.
  intros V p l. induction l as [|kv r IH]; simpl; intros H; [constructor|].
  inversion H as [|? ? Hk Hr]. subst. destruct (p kv); simpl; [|apply IH; exact Hr].
  constructor; [|apply IH; exact Hr]. intros Hin. apply Hk. apply in_map_iff in Hin.
  destruct Hin as [y [Hy Hin]]. apply filter_In in Hin. destruct Hin as [Hin _]. rewrite <- Hy. apply in_map. exact Hin.
Qed.

Lemma zsum_perm : forall a b, Permutation a b -> zsum a = zsum b.
Proof. intros a b H. induction H; simpl; lia. Qed.

Lemma node_is_some : forall o m, node_is o m = true <-> o = Some m.
Proof.
  intros o m. destruct o as [m'|]; simpl.
  - rewrite Z.eqb_eq. split; [intros ->; reflexivity | intros H; inversion H; reflexivity].
  - split; discriminate.
Qed.

(* H_nodes_nodup + H_nodes_consistent : the code's node load is the true node load *)
Theorem code_load_is_true_load : forall L,
  nodes_nodup L = true -> nodes_consistent L = true ->
  forall m, node_true_load L m = node_code_load L m.
Proof.
  intros L Hnd Hc m. unfold nodes_consistent in Hc.
  apply andb_true_iff in Hc. destruct Hc as [Hc C4]. apply andb_true_iff in Hc. destruct Hc as [Hc C3].
  apply andb_true_iff in Hc. destruct Hc as [C1 C2].
  apply znodup_NoDup in C1. rewrite forallb_forall in C3, C4.
  unfold node_true_load, node_code_load.
  set (F := filter (fun kv => node_is (i_node (snd kv)) m) (l_insts L)).
  assert (map (fun kv => i_load (snd kv)) F = map (inst_load L) (map fst F)) as Hm.
  { rewrite map_map. apply map_ext_in. intros [k v] Hin. apply filter_In in Hin. destruct Hin as [Hin _].
    unfold inst_load. simpl. rewrite (aget_nodup_In _ _ _ C1 Hin). reflexivity. }
  rewrite Hm. destruct (aget m (l_nodes L)) as [ids|] eqn:Em.
  - apply zsum_perm. apply Permutation_map. apply NoDup_Permutation.
    + apply NoDup_map_fst_filter. exact C1.
    + unfold nodes_nodup in Hnd. rewrite forallb_forall in Hnd. apply aget_In in Em as Hin.
      apply znodup_NoDup. exact (Hnd _ Hin).
    + intros x. split.
      * intros Hx. apply in_map_iff in Hx. destruct Hx as [[k v] [Hk Hin]]. simpl in Hk. subst k.
        apply filter_In in Hin. destruct Hin as [Hin Hp]. simpl in Hp. apply node_is_some in Hp.
        specialize (C4 _ Hin). simpl in C4. rewrite Hp in C4. unfold dget in C4. rewrite Em in C4.
        apply zmem_In. exact C4.
      * intros Hx. apply aget_In in Em as Hin. specialize (C3 _ Hin). simpl in C3.
        rewrite forallb_forall in C3. specialize (C3 _ Hx). apply node_is_some in C3.
        unfold node_opt in C3. destruct (aget x (l_insts L)) as [v|] eqn:Ex; [|discriminate].
        apply aget_In in Ex. apply in_map_iff. exists (x, v). split; [reflexivity|].
        apply filter_In. split; [exact Ex|]. simpl. apply node_is_some. exact C3.
  - assert (F = []) as ->; [|reflexivity].
    unfold F. destruct (filter _ _) as [|[k v] r] eqn:EF; [reflexivity|]. exfalso.
    assert (In (k, v) (filter (fun kv => node_is (i_node (snd kv)) m) (l_insts L))) as Hin
      by (rewrite EF; left; reflexivity).
    apply filter_In in Hin. destruct Hin as [Hin Hp]. simpl in Hp. apply node_is_some in Hp.
    specialize (C4 _ Hin). simpl in C4. rewrite Hp in C4. unfold dget in C4. rewrite Em in C4. discriminate.
Qed.

(* the refinement for the true reading, under the two named hypotheses *)
Theorem model_refines_spec_true : forall s local L ids e reqs r,
  nodes_nodup L = true ->            (* H_nodes_nodup *)
  nodes_consistent L = true ->       (* H_nodes_consistent *)
  get_supvisors_instance s local L ids e reqs = Ok r ->
  spec_accepts (node_true_load L) s local L ids e reqs r = true.
Proof.
  intros s local L ids e reqs r Hnd Hc H. apply model_refines_spec; [|exact H].
  apply code_load_is_true_load; assumption.
Qed.

(* H_nodes_nodup cannot be dropped from the pure strategy theorems: on a node list where an identifier is repeated,
   get_nodes_load counts its load twice; here instance 1 (load 60) is alone on its node, a process of load 10 fits
   (70 <= 100), yet the strategy finds nobody (120 + 10 > 100). This was reachable before fix 428ae17
   (SupvisorsMapper.identify appended at every handshake — former candidate finding F6); since that fix mapper.nodes is
   duplicate free by construction: see handshakes_nodup below, and the T3 suite 'identify' for the real code. *)
Definition f6_layout : layout :=
  mkLayout [(1, mkInst gen_SupvisorsInstanceStates_RUNNING (Some 1) 60);
            (2, mkInst gen_SupvisorsInstanceStates_RUNNING (Some 2) 0)] [(1, [1; 1]); (2, [2])].

Theorem nodes_nodup_needed :
  exists L ids e reqs,
    layout_wf L reqs = true /\ nodes_consistent L = true /\ nodes_nodup L = false
    /\ get_supvisors_instance S_CONFIG 1 L ids e reqs = Ok None
    /\ spec_accepts (node_true_load L) S_CONFIG 1 L ids e reqs None = false
    /\ spec_accepts (node_true_load L) S_CONFIG 1 L ids e reqs (Some 1) = true
    /\ node_code_load L 1 = 2 * node_true_load L 1.
Proof. exists f6_layout, [1], 10, []. vm_compute. repeat split. Qed.

(* ------------------------------------------------------------------ well-formed layouts never raise *)
Lemma amem_aget : forall {V} k (l : alist V), amem k l = true <-> exists v, aget k l = Some v.
Proof.
  intros V k l. unfold amem. destruct (aget k l) as [v|]; split; intros H.
  - exists v. reflexivity.
  - reflexivity.
  - discriminate.
  - destruct H as [v H]. discriminate.
Qed.

Lemma sum_loads_total : forall L ids, (forall i, In i ids -> amem i (l_insts L) = true) ->
  exists s, sum_loads L ids = Ok s.
Proof.
  intros L ids. induction ids as [|i r IH]; intros H; simpl.
  - exists 0. reflexivity.
  - destruct (proj1 (amem_aget _ _) (H i (or_introl eq_refl))) as [x Hx].
    destruct (IH (fun j Hj => H j (or_intror Hj))) as [s Hs].
    unfold inst_of. rewrite Hx. simpl. rewrite Hs. simpl. eexists. reflexivity.
Qed.

Lemma nodes_load_from_total : forall L nodes,
  (forall kv, In kv nodes -> forall i, In i (snd kv) -> amem i (l_insts L) = true) ->
  exists a, nodes_load_from L nodes = Ok a.
Proof.
  intros L nodes. induction nodes as [|[m ids] r IH]; intros H; simpl.
  - eexists. reflexivity.
  - destruct (sum_loads_total L ids (H (m, ids) (or_introl eq_refl))) as [s Hs].
    destruct (IH (fun kv Hkv => H kv (or_intror Hkv))) as [a Ha].
    rewrite Hs. simpl. rewrite Ha. simpl. eexists. reflexivity.
Qed.

Lemma node_requests_from_total : forall L reqs acc,
  (forall kv, In kv reqs -> exists m, node_opt L (fst kv) = Some m /\ amem m acc = true) ->
  exists a, node_requests_from L acc reqs = Ok a.
Proof.
  intros L reqs. induction reqs as [|[i ld] r IH]; intros acc H; simpl.
  - eexists. reflexivity.
  - destruct (H (i, ld) (or_introl eq_refl)) as [m [Hm Ha]]. simpl in Hm.
    assert (machine_of L i = Ok m) as ->.
    { unfold machine_of, inst_of. unfold node_opt in Hm. destruct (aget i (l_insts L)) as [x|]; [|discriminate].
      simpl. rewrite Hm. reflexivity. }
    simpl. apply amem_aget in Ha. destruct Ha as [v Hv]. rewrite Hv. apply IH.
    intros kv Hkv. destruct (H kv (or_intror Hkv)) as [m' [Hm' Ha']]. exists m'. split; [exact Hm'|].
    apply amem_aget. destruct (Z.eq_dec m' m) as [E|E].
    + subst. rewrite aget_aset_same. eexists. reflexivity.
    + rewrite aget_aset_other by exact E. apply amem_aget. exact Ha'.
Qed.

Lemma loading_validity_from_total : forall (f : Z -> result lvalid) ids acc,
  (forall i, In i ids -> exists v, f i = Ok v) -> exists m, loading_validity_from f acc ids = Ok m.
Proof.
  intros f ids. induction ids as [|i r IH]; intros acc H; simpl.
  - eexists. reflexivity.
  - destruct (H i (or_introl eq_refl)) as [v Hv]. rewrite Hv. simpl. apply IH.
    intros j Hj. apply H. right. exact Hj.
Qed.

Theorem wf_no_crash : forall s local L ids e reqs,
  layout_wf L reqs = true -> exists r, get_supvisors_instance s local L ids e reqs = Ok r.
Proof.
  intros s local L ids e reqs Hwf. unfold layout_wf in Hwf.
  apply andb_true_iff in Hwf. destruct Hwf as [Hwf W3]. apply andb_true_iff in Hwf. destruct Hwf as [W1 W2].
  rewrite forallb_forall in W1, W2, W3.
  unfold get_supvisors_instance.
  set (cands := filter (fun i => zmem i (running_identifiers L)) ids).
  destruct cands as [|c cs] eqn:Ec; [eexists; reflexivity|]. rewrite <- Ec. clear Ec c cs.
  destruct (node_requests_from_total L reqs (map (fun kv => (fst kv, 0)) (l_nodes L))) as [nreq Hreq].
  { intros kv Hkv. specialize (W3 _ Hkv). destruct (node_opt L (fst kv)) as [m|]; [|discriminate].
    exists m. split; [reflexivity|]. apply amem_aget. rewrite aget_map_zero.
    apply amem_aget in W3. destruct W3 as [v Hv]. rewrite Hv. eexists. reflexivity. }
  destruct (nodes_load_from_total L (l_nodes L)) as [nload Hload].
  { intros kv Hkv i Hi. specialize (W1 _ Hkv). rewrite forallb_forall in W1. apply W1. exact Hi. }
  fold (node_requests L reqs) in Hreq. fold (nodes_load L) in Hload. rewrite Hreq, Hload. simpl.
  destruct (loading_validity_from_total (is_loading_valid L e reqs nreq nload) cands []) as [m Hm].
  { intros i Hi. unfold cands in Hi. apply filter_In in Hi. destruct Hi as [_ Hi]. apply zmem_In in Hi.
    specialize (W2 _ Hi). unfold is_loading_valid, inst_of. unfold node_opt in W2.
    destruct (aget i (l_insts L)) as [x|]; [|discriminate]. simpl.
    destruct (i_node x); [eexists; reflexivity | discriminate]. }
  unfold apply_strategy. destruct s; try (rewrite Hm; simpl; eexists; reflexivity).
  destruct (zmem local cands) eqn:El; simpl; [|eexists; reflexivity].
  rewrite Hm. simpl.
  rewrite (lvmap_ok (node_code_load L) L e reqs nreq nload cands m (fun _ => eq_refl) Hreq Hload Hm).
  rewrite aget_map_G by (apply zdedup_In, zmem_In; exact El). eexists. reflexivity.
Qed.

(* ------------------------------------------------------------------ where H_nodes_nodup comes from *)
(* mapper.nodes is only ever modified by SupvisorsMapper.identify (identify_nodes): every node list stays duplicate free *)
Lemma znodup_app_one : forall l i, znodup l = true -> zmem i l = false -> znodup (l ++ [i]) = true.
Proof.
  intros l i. induction l as [|x r IH]; simpl; intros Hn Hm; [reflexivity|].
  apply andb_true_iff in Hn. destruct Hn as [Hx Hr]. unfold zmem in Hm. simpl in Hm.
  apply orb_false_iff in Hm. destruct Hm as [Hix Hir].
  apply andb_true_iff. split; [|apply IH; assumption].
  apply negb_true_iff. rewrite zmem_app. apply negb_true_iff in Hx. rewrite Hx. simpl.
  unfold zmem. simpl. rewrite orb_false_r. rewrite Z.eqb_sym. exact Hix.
Qed.

Lemma forallb_aset : forall {V} (p : V -> bool) k v (l : alist V),
  forallb (fun kv => p (snd kv)) l = true -> p v = true -> forallb (fun kv => p (snd kv)) (aset k v l) = true.
Proof.
  intros V p k v l. induction l as [|[k' v'] r IH]; simpl; intros Hl Hv.
  - rewrite Hv. reflexivity.
  - apply andb_true_iff in Hl. destruct Hl as [H1 H2]. destruct (Z.eqb k k'); simpl.
    + rewrite Hv, H2. reflexivity.
    + rewrite H1. simpl. apply IH; assumption.
Qed.

Lemma dget_forallb : forall {V} (p : V -> bool) k (l : alist V) d,
  forallb (fun kv => p (snd kv)) l = true -> p d = true -> p (dget k l d) = true.
Proof.
  intros V p k l d Hl Hd. unfold dget. destruct (aget k l) as [v|] eqn:E; [|exact Hd].
  apply aget_In in E. rewrite forallb_forall in Hl. exact (Hl _ E).
Qed.

Theorem identify_preserves_nodup : forall nodes m i,
  forallb (fun kv => znodup (snd kv)) nodes = true ->
  forallb (fun kv => znodup (snd kv)) (identify_nodes nodes m i) = true.
Proof.
  intros nodes m i H. unfold identify_nodes. apply (forallb_aset znodup); [exact H|].
  pose proof (dget_forallb znodup m nodes [] H eq_refl) as Hd.
  destruct (zmem i (dget m nodes [])) eqn:E; [exact Hd | apply znodup_app_one; assumption].
Qed.

(* any history of handshakes from the empty map: H_nodes_nodup holds of the result *)
Theorem handshakes_nodup : forall ops insts,
  nodes_nodup (mkLayout insts (snd (hs_run ops))) = true.
Proof.
  intros ops insts. unfold nodes_nodup, hs_run. simpl.
  assert (forall st, forallb (fun kv => znodup (snd kv)) (snd st) = true ->
                     forallb (fun kv => znodup (snd kv)) (snd (fold_left hs_step ops st)) = true) as K.
  { induction ops as [|o r IH]; intros st H; [exact H|]. simpl. apply IH.
    unfold hs_step. destruct (h_accepted o); [simpl; apply identify_preserves_nodup; exact H | exact H]. }
  apply K. reflexivity.
Qed.

(* ================================================================== distribution rules *)
Lemma mapM_forall2 : forall {A B} (f : A -> result B) l l',
  mapM f l = Ok l' -> Forall2 (fun x y => f x = Ok y) l l'.
Proof.
  intros A B f l. induction l as [|x r IH]; intros l' H; simpl in H.
  - inversion H. constructor.
  - apply bind_ok in H. destruct H as [y [Hy H]]. apply bind_ok in H. destruct H as [ys [Hys H]].
    inversion H. constructor; [exact Hy | apply IH; exact Hys].
Qed.

Lemma mapM_total : forall {A B} (f : A -> result B) l,
  (forall x, In x l -> exists y, f x = Ok y) -> exists l', mapM f l = Ok l'.
Proof.
  intros A B f l. induction l as [|x r IH]; intros H; simpl; [eexists; reflexivity|].
  destruct (H x (or_introl eq_refl)) as [y Hy]. destruct (IH (fun z Hz => H z (or_intror Hz))) as [ys Hys].
  rewrite Hy. simpl. rewrite Hys. simpl. eexists. reflexivity.
Qed.

Lemma Forall2_impl : forall {A B} (P Q : A -> B -> Prop) l l',
  (forall a b, P a b -> Q a b) -> Forall2 P l l' -> Forall2 Q l l'.
Proof. intros A B P Q l l' H HF. induction HF; constructor; auto. Qed.

Lemma update_identifier_ok : forall L c r c',
  update_identifier L c r = Ok c' ->
  exists t, r = Some t /\ c' = retarget c t /\ zmem t (c_known c) = true /\ amem t (l_insts L) = true.
Proof.
  intros L c r c' H. unfold update_identifier in H. destruct r as [t|]; [|discriminate].
  destruct (amem t (l_insts L)) eqn:Ea; [|discriminate].
  destruct (zmem t (c_known c)) eqn:Ek; [|discriminate].
  inversion H. exists t. auto.
Qed.

Lemma running_known : forall L i, In i (running_identifiers L) -> amem i (l_insts L) = true.
Proof.
  intros L i H. unfold running_identifiers in H. apply in_map_iff in H. destruct H as [[k v] [Hk Hin]].
  simpl in Hk. subst k. apply filter_In in Hin. destruct Hin as [Hin _]. apply amem_aget.
  clear -Hin. induction (l_insts L) as [|[k' v'] r IH]; [contradiction|]. simpl.
  destruct (Z.eqb i k') eqn:E; [eexists; reflexivity|]. apply IH. destruct Hin as [Hin|Hin]; [|exact Hin].
  inversion Hin. subst. rewrite Z.eqb_refl in E. discriminate.
Qed.

Lemma eligible_known : forall c i, eligible c i = true -> zmem i (c_known c) = true /\ zmem i (c_disabled c) = false.
Proof.
  intros c i H. unfold eligible in H. apply andb_true_iff in H. destruct H as [Hk Hd]. split; [exact Hk|].
  rewrite Hk in Hd. simpl in Hd. apply negb_true_iff. exact Hd.
Qed.

Section Distribution.
  Variable nl : Z -> Z.
  Variable L : layout.
  Hypothesis Hnl : forall m, nl m = node_code_load L m.

  (* one command placed among the chosen identifiers (SINGLE_NODE loop body, on_command_added): either nobody
     among the identifiers that know the program and have it enabled can take its load and the command is left
     as it is, or it is targeted at what the strategy picks among them — an eligible identifier. *)
  Lemma place_among_ok : forall s local idents reqs c c',
    place_among s local L idents reqs c = Ok c' ->
    (c' = c /\ forall i, (s = S_LOCAL -> i = local) ->
                         ~ Valid nl L (filter (eligible c) idents) (c_load c) reqs i)
    \/ (exists t, c' = retarget c t /\ In t idents /\ eligible c t = true
                  /\ Valid nl L (filter (eligible c) idents) (c_load c) reqs t
                  /\ spec_accepts nl s local L (filter (eligible c) idents) (c_load c) reqs (Some t) = true).
  Proof.
    intros s local idents reqs c c' H. unfold place_among in H. apply bind_ok in H. destruct H as [r [Hr H]].
    destruct r as [t|].
    - right. apply update_identifier_ok in H. destruct H as [t' [Et [Hc _]]]. inversion Et. subst t'.
      exists t. split; [exact Hc|].
      pose proof (result_valid nl L Hnl _ _ _ _ _ _ Hr) as Hv. pose proof Hv as [Hin _].
      apply filter_In in Hin. destruct Hin as [Hin He]. split; [exact Hin|]. split; [exact He|]. split; [exact Hv|].
      apply model_refines_spec; assumption.
    - left. injection H as E. subst c'. split; [reflexivity|]. exact (proj1 (none_iff_no_valid nl L Hnl _ _ _ _ _ _ Hr) eq_refl).
  Qed.

  (* SINGLE_INSTANCE: every command of the job gets the same instance, chosen by the requested strategy among the
     APPLICATION's identifiers for the load of the whole start sequence, and every program is known there;
     otherwise nothing is assigned and no instance could carry it. *)
  Theorem single_instance_one_target : forall s local app_ids app_load J J',
    distribute_to_single_instance s local L app_ids app_load J = Ok J' ->
    (exists t,
        j_identifiers J' = [t]
        /\ Forall2 (fun c c' => c' = retarget c t /\ In t (c_known c)) (j_planned J) (j_planned J')
        /\ In t app_ids
        /\ Valid nl L app_ids app_load (load_requests J) t
        /\ spec_accepts nl s local L app_ids app_load (load_requests J) (Some t) = true)
    \/ (J' = J
        /\ forall i, (s = S_LOCAL -> i = local) -> ~ Valid nl L app_ids app_load (load_requests J) i).
  Proof.
    intros s local app_ids app_load J J' H. unfold distribute_to_single_instance in H.
    apply bind_ok in H. destruct H as [r [Hr H]]. destruct r as [t|].
    - left. apply bind_ok in H. destruct H as [pl [Hpl H]]. inversion H. subst J'. simpl.
      exists t. split; [reflexivity|]. split.
      + apply mapM_forall2 in Hpl. eapply Forall2_impl; [|exact Hpl]. intros c c' Hc. cbv beta in Hc.
        apply update_identifier_ok in Hc. destruct Hc as [t' [Et [Hc [Hk _]]]]. inversion Et. subst t'.
        split; [exact Hc | apply zmem_In; exact Hk].
      + pose proof (result_valid nl L Hnl _ _ _ _ _ _ Hr) as Hv. split; [apply Hv|]. split; [exact Hv|].
        apply model_refines_spec; assumption.
    - right. inversion H. subst J'. split; [reflexivity|].
      apply (none_iff_no_valid nl L Hnl _ _ _ _ _ _ Hr). reflexivity.
  Qed.

  Lemma get_node_some : forall s local ids e reqs m,
    get_node s local L ids e reqs = Ok (Some m) ->
    exists i0, get_supvisors_instance s local L ids e reqs = Ok (Some i0) /\ node_opt L i0 = Some m.
  Proof.
    intros s local ids e reqs m H. unfold get_node in H. apply bind_ok in H. destruct H as [r [Hr H]].
    destruct r as [i0|]; [|discriminate]. apply bind_ok in H. destruct H as [m' [Hm' H]]. inversion H. subst m'.
    exists i0. split; [exact Hr | apply machine_of_ok; exact Hm'].
  Qed.

  (* SINGLE_NODE: either nothing is assigned, or identifiers = the application identifiers listed in ONE node's
     identifier list — the node of the instance the strategy picks for the whole start-sequence load — and every
     command is placed among them as place_among_ok says (eligible target picked by the strategy for that command's
     load, or no target when nobody qualifies). *)
  Theorem single_node_one_node : forall s local app_ids app_load J J',
    distribute_to_single_node s local L app_ids app_load J = Ok J' ->
    (j_identifiers J' = [] /\ j_planned J' = j_planned J)
    \/ (exists m ids_m i0,
           aget m (l_nodes L) = Some ids_m
           /\ node_opt L i0 = Some m /\ Valid nl L app_ids app_load (load_requests J) i0
           /\ j_identifiers J' = filter (fun i => zmem i ids_m) app_ids
           /\ Forall2 (fun c c' =>
                         (c' = c /\ forall i, (s = S_LOCAL -> i = local) ->
                                      ~ Valid nl L (filter (eligible c) (j_identifiers J')) (c_load c) (load_requests J) i)
                         \/ (exists t, c' = retarget c t
                                       /\ In t ids_m /\ In t app_ids /\ eligible c t = true
                                       /\ spec_accepts nl s local L (filter (eligible c) (j_identifiers J'))
                                                       (c_load c) (load_requests J) (Some t) = true))
                      (j_planned J) (j_planned J')).
  Proof.
    intros s local app_ids app_load J J' H. unfold distribute_to_single_node in H.
    apply bind_ok in H. destruct H as [mo [Hmo H]].
    set (nids := match mo with Some m => dget m (l_nodes L) [] | None => [] end) in H.
    destruct (filter (fun i => zmem i nids) app_ids) as [|x xs] eqn:Eid.
    - left. inversion H. simpl. auto.
    - right. rewrite <- Eid in H. apply bind_ok in H. destruct H as [pl [Hpl H]]. inversion H. subst J'. simpl.
      destruct mo as [m|]; [|simpl in nids; subst nids; clear -Eid; exfalso; induction app_ids; simpl in Eid; auto; discriminate].
      destruct (get_node_some _ _ _ _ _ _ Hmo) as [i0 [Hi0 Hn0]].
      unfold dget in nids. destruct (aget m (l_nodes L)) as [ids_m|] eqn:Em;
        [|subst nids; clear -Eid; exfalso; induction app_ids; simpl in Eid; auto; discriminate].
      subst nids. exists m, ids_m, i0. split; [exact Em|]. split; [exact Hn0|].
      split; [exact (result_valid nl L Hnl _ _ _ _ _ _ Hi0)|]. split; [reflexivity|].
      apply mapM_forall2 in Hpl. eapply Forall2_impl; [|exact Hpl]. intros c c' Hc. cbv beta in Hc.
      apply place_among_ok in Hc. destruct Hc as [Hc|[t [Hc [Hin [He [_ Hs]]]]]]; [left; exact Hc|].
      right. exists t. apply filter_In in Hin. destruct Hin as [Hin Hz].
      split; [exact Hc|]. split; [apply zmem_In; exact Hz|]. split; [exact Hin|]. split; [exact He | exact Hs].
  Qed.

  (* with consistent node lists, "listed in one node's identifier list" means "located on one single node" *)
  Corollary single_node_targets_same_node : forall s local app_ids app_load J J',
    nodes_consistent L = true ->
    (forall c, In c (j_planned J) -> c_target c = None) ->
    distribute_to_single_node s local L app_ids app_load J = Ok J' ->
    j_identifiers J' <> [] ->
    exists m, forall c' t, In c' (j_planned J') -> c_target c' = Some t -> node_opt L t = Some m.
  Proof.
    intros s local app_ids app_load J J' Hc Hnone H Hne.
    destruct (single_node_one_node _ _ _ _ _ _ H) as [[He _]|[m [ids_m [i0 [Em [_ [_ [_ HF]]]]]]]]; [congruence|].
    exists m. intros c' t Hin Ht.
    unfold nodes_consistent in Hc. apply andb_true_iff in Hc. destruct Hc as [Hc _].
    apply andb_true_iff in Hc. destruct Hc as [_ C3]. rewrite forallb_forall in C3.
    apply aget_In in Em. specialize (C3 _ Em). simpl in C3. rewrite forallb_forall in C3.
    clear -HF Hin Ht C3 Hnone. induction HF as [|c c2 l l' Hcc HF IH]; [contradiction|].
    destruct Hin as [Hin|Hin].
    - subst c2. destruct Hcc as [[Ec _]|[t' [Ec [Hm _]]]].
      + subst c'. rewrite (Hnone c (or_introl eq_refl)) in Ht. discriminate.
      + subst c'. simpl in Ht. inversion Ht. subst t'. apply node_is_some. apply C3. exact Hm.
    - apply IH; [intros c0 Hc0; apply Hnone; right; exact Hc0 | exact Hin].
  Qed.

  (* a command added later to a non-distributed job stays on the chosen instance(s), on an eligible one *)
  Theorem on_command_added_in_identifiers : forall d s local J c c',
    on_command_added d s local L J c = Ok c' ->
    c' = c
    \/ (d <> D_ALL_INSTANCES /\ exists t,
           c' = retarget c t /\ In t (j_identifiers J) /\ eligible c t = true
           /\ spec_accepts nl s local L (filter (eligible c) (j_identifiers J)) (c_load c) (load_requests J) (Some t) = true).
  Proof.
    intros d s local J c c' H. unfold on_command_added in H.
    assert (d <> D_ALL_INSTANCES ->
            match j_identifiers J with
            | [] => Ok c
            | _ :: _ => place_among s local L (j_identifiers J) (load_requests J) c
            end = Ok c' ->
            c' = c \/ (d <> D_ALL_INSTANCES /\ exists t,
                         c' = retarget c t /\ In t (j_identifiers J) /\ eligible c t = true
                         /\ spec_accepts nl s local L (filter (eligible c) (j_identifiers J)) (c_load c)
                                         (load_requests J) (Some t) = true)) as K.
    { intros Hd H2. destruct (j_identifiers J) as [|x xs] eqn:Ej; [inversion H2; auto|]. rewrite <- Ej in *.
      apply place_among_ok in H2. destruct H2 as [[Hc _]|[t [Hc [Hin [He [_ Hs]]]]]]; [left; exact Hc|].
      right. split; [exact Hd|]. exists t. auto. }
    destruct d; [inversion H; auto | apply K; [discriminate | exact H] | apply K; [discriminate | exact H]].
  Qed.
End Distribution.

(* ------------------------------------------------------------------ the distribution rules raise nothing *)
Lemma place_among_total : forall L s local idents reqs c,
  layout_wf L reqs = true -> exists c', place_among s local L idents reqs c = Ok c'.
Proof.
  intros L s local idents reqs c Hwf. unfold place_among.
  destruct (wf_no_crash s local L (filter (eligible c) idents) (c_load c) reqs Hwf) as [r Hr]. rewrite Hr. simpl.
  destruct r as [t|]; [|eexists; reflexivity].
  pose proof (result_valid (node_code_load L) L (fun _ => eq_refl) _ _ _ _ _ _ Hr) as [Hin [Hrun _]].
  apply filter_In in Hin. destruct Hin as [_ He]. apply eligible_known in He. destruct He as [Hk _].
  unfold update_identifier. rewrite (running_known _ _ Hrun), Hk. eexists. reflexivity.
Qed.

(* SINGLE_NODE (after fix b1324b8): a well-formed layout is enough — no hypothesis on which instance knows which
   program (former H_node_knows_all, candidate finding F7) nor on the command loads (former H_cmd_in_sequence). *)
Theorem single_node_no_crash : forall L s local app_ids app_load J,
  layout_wf L (load_requests J) = true ->
  exists J', distribute_to_single_node s local L app_ids app_load J = Ok J'.
Proof.
  intros L s local app_ids app_load J Hwf. unfold distribute_to_single_node.
  destruct (wf_no_crash s local L app_ids app_load (load_requests J) Hwf) as [r Hr].
  unfold get_node. rewrite Hr. simpl.
  assert (exists mo, match r with
                     | Some i => bind (machine_of L i) (fun m => Ok (Some m))
                     | None => Ok None
                     end = Ok mo) as [mo Hmo].
  { destruct r as [i0|]; [|eexists; reflexivity].
    pose proof (result_valid (node_code_load L) L (fun _ => eq_refl) _ _ _ _ _ _ Hr) as [_ [Hrun _]].
    pose proof Hwf as Hwf'. unfold layout_wf in Hwf'. apply andb_true_iff in Hwf'. destruct Hwf' as [Hwf' _].
    apply andb_true_iff in Hwf'. destruct Hwf' as [_ W2]. rewrite forallb_forall in W2.
    specialize (W2 _ Hrun). unfold machine_of, inst_of. unfold node_opt in W2.
    destruct (aget i0 (l_insts L)) as [x|]; [|discriminate]. simpl.
    destruct (i_node x); [eexists; reflexivity | discriminate]. }
  rewrite Hmo. simpl.
  destruct (filter _ app_ids) as [|x xs] eqn:Eid; [eexists; reflexivity|]. rewrite <- Eid.
  destruct (mapM_total (place_among s local L (filter (fun i => zmem i match mo with
                                                                        | Some m => dget m (l_nodes L) []
                                                                        | None => []
                                                                        end) app_ids) (load_requests J))
                       (j_planned J)) as [pl Hpl].
  { intros c _. apply place_among_total. exact Hwf. }
  rewrite Hpl. simpl. eexists. reflexivity.
Qed.

(* SINGLE_INSTANCE raises nothing when every program of the job is known by every application identifier
   (what ApplicationStatus.possible_identifiers guarantees: it intersects the info_map keys of all processes) *)
Theorem single_instance_no_crash : forall L s local app_ids app_load J,
  layout_wf L (load_requests J) = true ->
  (forall c i, In c (j_planned J) -> In i app_ids -> In i (c_known c)) ->
  exists J', distribute_to_single_instance s local L app_ids app_load J = Ok J'.
Proof.
  intros L s local app_ids app_load J Hwf Hknown. unfold distribute_to_single_instance.
  destruct (wf_no_crash s local L app_ids app_load (load_requests J) Hwf) as [r Hr]. rewrite Hr.
  cbv beta iota delta [bind].
  destruct r as [t|]; [|eexists; reflexivity].
  pose proof (result_valid (node_code_load L) L (fun _ => eq_refl) _ _ _ _ _ _ Hr) as [Hin [Hrun _]].
  destruct (mapM_total (fun c => update_identifier L c (Some t)) (j_planned J)) as [pl Hpl].
  { intros c Hc. unfold update_identifier. rewrite (running_known _ _ Hrun).
    assert (zmem t (c_known c) = true) as -> by (apply zmem_In; apply Hknown; assumption).
    eexists. reflexivity. }
  rewrite Hpl. eexists. reflexivity.
Qed.

(* on_command_added raises nothing either *)
Theorem on_command_added_no_crash : forall L d s local J c,
  layout_wf L (load_requests J) = true -> exists c', on_command_added d s local L J c = Ok c'.
Proof.
  intros L d s local J c Hwf. unfold on_command_added.
  destruct d; [eexists; reflexivity | |]; (destruct (j_identifiers J); [eexists; reflexivity|]; apply place_among_total; exact Hwf).
Qed.

(* the former witnesses of the two SINGLE_NODE exceptions (before fix b1324b8), now placed or left without target *)
Definition RUN := gen_SupvisorsInstanceStates_RUNNING.

Definition f7_layout : layout :=
  mkLayout [(1, mkInst RUN (Some 1) 0); (3, mkInst RUN (Some 1) 0)] [(1, [1; 3])].

Example single_node_unknown_process_placed :
  distribute_to_single_node S_CONFIG 1 f7_layout [1; 3] 20
                            (mkJobs [] [mkCmd 0 10 true None [1] []; mkCmd 1 10 true None [3] []] [])
  = Ok (mkJobs [] [mkCmd 0 10 true (Some 1) [1] []; mkCmd 1 10 true (Some 3) [3] []] [1; 3]).
Proof. vm_compute. reflexivity. Qed.

Example single_node_overload_left_untargeted :
  distribute_to_single_node S_CONFIG 1 (mkLayout [(1, mkInst RUN (Some 1) 60)] [(1, [1])]) [1] 10
                            (mkJobs [] [mkCmd 0 50 true None [1] []] [])
  = Ok (mkJobs [] [mkCmd 0 50 true None [1] []] [1]).
Proof. vm_compute. reflexivity. Qed.

(* ================================================================== property-level statements: true node load *)
Section TrueReading.
  Variable L : layout.
  Hypothesis H_nodes_nodup : nodes_nodup L = true.
  Hypothesis H_nodes_consistent : nodes_consistent L = true.

  Definition Htrue := code_load_is_true_load L H_nodes_nodup H_nodes_consistent.

  Definition result_valid_true := result_valid (node_true_load L) L Htrue.
  Definition none_iff_no_valid_true := none_iff_no_valid (node_true_load L) L Htrue.
  Definition local_only_true := local_only (node_true_load L) L Htrue.
  Definition config_first_true := config_first (node_true_load L) L Htrue.
  Definition less_loaded_optimal_true := less_loaded_optimal (node_true_load L) L Htrue.
  Definition most_loaded_optimal_true := most_loaded_optimal (node_true_load L) L Htrue.
  Definition less_loaded_node_optimal_true := less_loaded_node_optimal (node_true_load L) L Htrue.
  Definition most_loaded_node_optimal_true := most_loaded_node_optimal (node_true_load L) L Htrue.
  Definition single_instance_one_target_true := single_instance_one_target (node_true_load L) L Htrue.
  Definition single_node_one_node_true := single_node_one_node (node_true_load L) L Htrue.
  Definition on_command_added_in_identifiers_true := on_command_added_in_identifiers (node_true_load L) L Htrue.
End TrueReading.

(* ================================================================== examples: the hypotheses are satisfiable *)
(* six instances on two nodes, instance 5 not running, a pending request of 5 on instance 3 *)
Definition ex_layout : layout :=
  mkLayout [(1, mkInst RUN (Some 1) 20); (2, mkInst RUN (Some 2) 10); (3, mkInst RUN (Some 1) 10);
            (4, mkInst RUN (Some 2) 40); (5, mkInst 0 (Some 1) 0); (6, mkInst RUN (Some 2) 10)]
           [(1, [1; 3; 5]); (2, [2; 4; 6])].
Definition ex_reqs : alist Z := [(3, 5)].
Definition ex_ids : list Z := [1; 2; 3; 4; 5; 6].

Example ex_hypotheses :
  nodes_nodup ex_layout = true /\ nodes_consistent ex_layout = true /\ layout_wf ex_layout ex_reqs = true.
Proof. vm_compute. auto. Qed.

(* keys (instance load, node load): 1 (20,35)  2 (10,60)  3 (15,35)  4 (40,60)  6 (10,60); all valid for +30 *)
Example ex_config : get_supvisors_instance S_CONFIG 1 ex_layout ex_ids 30 ex_reqs = Ok (Some 1).
Proof. vm_compute. reflexivity. Qed.
Example ex_less_loaded : get_supvisors_instance S_LESS_LOADED 1 ex_layout ex_ids 30 ex_reqs = Ok (Some 2).
Proof. vm_compute. reflexivity. Qed.   (* tie 2 / 6 on (10,60): the first in declared order *)
Example ex_most_loaded : get_supvisors_instance S_MOST_LOADED 1 ex_layout ex_ids 30 ex_reqs = Ok (Some 4).
Proof. vm_compute. reflexivity. Qed.
Example ex_less_loaded_node : get_supvisors_instance S_LESS_LOADED_NODE 1 ex_layout ex_ids 30 ex_reqs = Ok (Some 3).
Proof. vm_compute. reflexivity. Qed.   (* node 1 (35): instance 3 (15) before instance 1 (20) *)
Example ex_most_loaded_node : get_supvisors_instance S_MOST_LOADED_NODE 1 ex_layout ex_ids 30 ex_reqs = Ok (Some 4).
Proof. vm_compute. reflexivity. Qed.
Example ex_most_loaded_tie : get_supvisors_instance S_MOST_LOADED 1 ex_layout [2; 6; 2] 30 ex_reqs = Ok (Some 6).
Proof. vm_compute. reflexivity. Qed.   (* tie 2 / 6: the last in declared order, a repeated candidate counting once *)
Example ex_local : get_supvisors_instance S_LOCAL 3 ex_layout ex_ids 30 ex_reqs = Ok (Some 3).
Proof. vm_compute. reflexivity. Qed.
Example ex_none : get_supvisors_instance S_LESS_LOADED 1 ex_layout ex_ids 70 ex_reqs = Ok None.
Proof. vm_compute. reflexivity. Qed.   (* 35 + 70 > 100 and 60 + 70 > 100 *)

(* program 0 is known everywhere, program 1 is not known on instance 3 and disabled on instance 1 *)
Definition ex_jobs : jobs :=
  mkJobs [] [mkCmd 0 10 true None ex_ids []; mkCmd 1 20 true None [1; 2; 4; 5; 6] [1]] [].

Example ex_single_instance :
  distribute_to_single_instance S_LESS_LOADED 1 ex_layout [2; 4; 6] 30 ex_jobs
  = Ok (mkJobs [] [mkCmd 0 10 true (Some 2) ex_ids []; mkCmd 1 20 true (Some 2) [1; 2; 4; 5; 6] [1]] [2]).
Proof. vm_compute. reflexivity. Qed.

Example ex_single_node :
  distribute_to_single_node S_LESS_LOADED 1 ex_layout ex_ids 30 ex_jobs
  = Ok (mkJobs [] [mkCmd 0 10 true (Some 3) ex_ids []; mkCmd 1 20 true None [1; 2; 4; 5; 6] [1]] [1; 3; 5]).
Proof. vm_compute. reflexivity. Qed.
(* no pending request here: 2, 3, 6 tie on load 10, node load 30 < 60 picks 3, hence node 1; identifiers = application
   ids listed on node 1; program 1 has no eligible instance there (unknown on 3, disabled on 1, 5 not RUNNING) *)

Example ex_single_node_hypotheses : layout_wf ex_layout (load_requests ex_jobs) = true.
Proof. reflexivity. Qed.

Example ex_on_command_added :
  on_command_added D_SINGLE_NODE S_LESS_LOADED 1 ex_layout
                   (mkJobs [mkCmd 0 10 true (Some 2) ex_ids []] [mkCmd 1 20 true None ex_ids []] [2; 4; 6])
                   (mkCmd 1 20 true None ex_ids [])
  = Ok (mkCmd 1 20 true (Some 6) ex_ids []).
Proof. vm_compute. reflexivity. Qed.   (* the pending 10 on instance 2 makes 6 the less loaded *)

Example ex_handshakes :
  snd (hs_run [mkHs 2 1 true; mkHs 3 1 true; mkHs 2 1 true; mkHs 2 1 false]) = [(1, [2; 3])].
Proof. vm_compute. reflexivity. Qed.   (* instance 2 identified twice (and once refused): listed once *)
