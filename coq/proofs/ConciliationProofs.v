(* ConciliationProofs.v — proofs about model/Conciliation.v (C05). *)
From Sup Require Import GenProc Conciliation.
From Sup Require ProcStatus ProcStatusProofs.
Open Scope Z_scope.

(* ====================================================================== *)
(* 0. list / set helpers                                                    *)
(* ====================================================================== *)
Lemma cz_zmem_In : forall k l, zmem k l = true <-> In k l.
Proof.
  intros k l. unfold zmem. rewrite existsb_exists. split.
  - intros [x [Hx He]]. apply Z.eqb_eq in He. subst. exact Hx.
  - intros H. exists k. split; [exact H|apply Z.eqb_refl].
Qed.

Lemma cz_zmem_false : forall k l, zmem k l = false <-> ~ In k l.
Proof.
  intros k l. rewrite <- cz_zmem_In. destruct (zmem k l); split; intros H; try discriminate; auto.
  exfalso. apply H. reflexivity.
Qed.

Lemma cz_In_zdiscard : forall k j l, In j (zdiscard k l) <-> j <> k /\ In j l.
Proof.
  intros k j l. unfold zdiscard. rewrite filter_In. split.
  - intros [H1 H2]. split; [|exact H1]. intros He. subst. rewrite Z.eqb_refl in H2. discriminate.
  - intros [H1 H2]. split; [exact H2|]. destruct (Z.eqb k j) eqn:E; [|reflexivity].
    apply Z.eqb_eq in E. subst. contradiction.
Qed.

Lemma cz_zinsert_In : forall x y l, In y (zinsert x l) <-> y = x \/ In y l.
Proof.
  intros x y l. induction l as [|z r IH]; simpl.
  - split; intros [H|H]; auto.
  - destruct (Z.leb x z); simpl; [split; intros [H|H]; auto|].
    rewrite IH. split; intros H; [destruct H as [H|[H|H]]|destruct H as [H|[H|H]]]; auto.
Qed.

Lemma cz_zsort_In : forall y l, In y (zsort l) <-> In y l.
Proof.
  intros y l. induction l as [|x r IH]; simpl; [reflexivity|].
  unfold zsort in *. simpl. rewrite cz_zinsert_In, IH. split; intros [H|H]; auto.
Qed.

Lemma cz_NoDup_zinsert : forall x l, NoDup l -> ~ In x l -> NoDup (zinsert x l).
Proof.
  intros x l. induction l as [|z r IH]; intros Hn Hx; simpl.
  - constructor; [intros []|constructor].
  - destruct (Z.leb x z).
    + constructor; assumption.
    + inversion Hn as [|? ? Hz Hr]; subst. constructor.
      * rewrite cz_zinsert_In. intros [H|H]; [subst; apply Hx; left; reflexivity|contradiction].
      * apply IH; [exact Hr|]. intros H. apply Hx. right. exact H.
Qed.

Lemma cz_NoDup_zsort : forall l, NoDup l -> NoDup (zsort l).
Proof.
  intros l H. induction l as [|x r IH]; simpl; [constructor|].
  inversion H as [|? ? Hx Hr]; subst. unfold zsort in *. simpl.
  apply cz_NoDup_zinsert; [apply IH; exact Hr|]. rewrite (cz_zsort_In x r). exact Hx.
Qed.

Lemma pinsert_In : forall x y l, In y (pinsert x l) <-> y = x \/ In y l.
Proof.
  intros x y l. induction l as [|z r IH]; simpl.
  - split; intros [H|H]; auto.
  - destruct (pair_leb x z); simpl; [split; intros [H|H]; auto|].
    rewrite IH. split; intros H; [destruct H as [H|[H|H]]|destruct H as [H|[H|H]]]; auto.
Qed.

Lemma psort_In : forall y l, In y (psort l) <-> In y l.
Proof.
  intros y l. induction l as [|x r IH]; simpl; [reflexivity|].
  unfold psort in *. simpl. rewrite pinsert_In, IH. split; intros [H|H]; auto.
Qed.

Lemma NoDup_pinsert : forall x l, NoDup l -> ~ In x l -> NoDup (pinsert x l).
Proof.
  intros x l. induction l as [|z r IH]; intros Hn Hx; simpl.
  - constructor; [intros []|constructor].
  - destruct (pair_leb x z).
    + constructor; assumption.
    + inversion Hn as [|? ? Hz Hr]; subst. constructor.
      * rewrite pinsert_In. intros [H|H]; [subst; apply Hx; left; reflexivity|contradiction].
      * apply IH; [exact Hr|]. intros H. apply Hx. right. exact H.
Qed.

Lemma NoDup_psort : forall l, NoDup l -> NoDup (psort l).
Proof.
  intros l H. induction l as [|x r IH]; simpl; [constructor|].
  inversion H as [|? ? Hx Hr]; subst. unfold psort in *. simpl.
  apply NoDup_pinsert; [apply IH; exact Hr|]. rewrite (psort_In x r). exact Hx.
Qed.

Lemma nodupb_NoDup : forall l, nodupb l = true <-> NoDup l.
Proof.
  induction l as [|x r IH]; simpl.
  - split; [constructor|reflexivity].
  - rewrite andb_true_iff, negb_true_iff, cz_zmem_false, IH. split.
    + intros [H1 H2]. constructor; assumption.
    + intros H. inversion H; subst. split; assumption.
Qed.

Lemma pair_eqb_eq : forall a b, pair_eqb a b = true <-> a = b.
Proof.
  intros [a1 a2] [b1 b2]. unfold pair_eqb. simpl. rewrite andb_true_iff, !Z.eqb_eq. split.
  - intros [H1 H2]. subst. reflexivity.
  - intros H. inversion H. auto.
Qed.

Lemma pnodupb_NoDup : forall l, pnodupb l = true <-> NoDup l.
Proof.
  induction l as [|x r IH]; simpl.
  - split; [constructor|reflexivity].
  - rewrite andb_true_iff, negb_true_iff, IH. split.
    + intros [H1 H2]. constructor; [|exact H2]. intros Hi.
      assert (E : existsb (pair_eqb x) r = true).
      { apply existsb_exists. exists x. split; [exact Hi|apply pair_eqb_eq; reflexivity]. }
      rewrite E in H1. discriminate.
    + intros H. inversion H as [|? ? Hx Hr]; subst. split; [|exact Hr].
      destruct (existsb (pair_eqb x) r) eqn:E; [|reflexivity]. apply existsb_exists in E.
      destruct E as [y [Hy He]]. apply pair_eqb_eq in He. subst. contradiction.
Qed.

Lemma zset_eqb_iff : forall a b, zset_eqb a b = true <-> (forall x, In x a <-> In x b).
Proof.
  intros a b. unfold zset_eqb. rewrite andb_true_iff, !forallb_forall. split.
  - intros [H1 H2] x. split; intros H; [apply cz_zmem_In, H1, H|apply cz_zmem_In, H2, H].
  - intros H. split; intros x Hx; apply cz_zmem_In, H, Hx.
Qed.

Lemma NoDup_app_iff : forall (A : Type) (l1 l2 : list A),
  NoDup (l1 ++ l2) <-> NoDup l1 /\ NoDup l2 /\ (forall x, In x l1 -> ~ In x l2).
Proof.
  intros A l1 l2. induction l1 as [|a r IH]; simpl.
  - split; [intros H; repeat split; [constructor|exact H|intros x []]|intros [_ [H _]]; exact H].
  - split.
    + intros H. inversion H as [|? ? Ha Hr]; subst. apply IH in Hr. destruct Hr as [H1 [H2 H3]].
      rewrite in_app_iff in Ha. repeat split.
      * constructor; [tauto|exact H1].
      * exact H2.
      * intros x [Hx|Hx]; [subst; tauto|apply H3; exact Hx].
    + intros [H1 [H2 H3]]. inversion H1 as [|? ? Ha Hr]; subst. constructor.
      * rewrite in_app_iff. intros [Hi|Hi]; [contradiction|]. exact (H3 a (or_introl eq_refl) Hi).
      * apply IH. repeat split; [exact Hr|exact H2|]. intros x Hx. apply H3. right. exact Hx.
Qed.

(* two duplicate-free lists with the same elements have the same length *)
Lemma NoDup_same_length : forall (l1 l2 : list Z), NoDup l1 -> NoDup l2 ->
  (forall x, In x l1 <-> In x l2) -> length l1 = length l2.
Proof.
  intros l1 l2 H1 H2 H. apply Nat.le_antisymm; apply NoDup_incl_length; auto; intros x Hx; apply H; exact Hx.
Qed.

(* ====================================================================== *)
(* 1. conflict detection                                                    *)
(* ====================================================================== *)
Lemma p_conflicting_iff : forall p, p_conflicting p = true <-> (2 <= length (pv_running p))%nat.
Proof.
  intros p. unfold p_conflicting. destruct (pv_running p) as [|a [|b r]]; simpl; split; intros H;
    try discriminate; try lia; reflexivity.
Qed.

Lemma In_conflicts : forall c v, In v (conflicts c) <->
  exists a, In a c /\ av_managed a = true /\ In v (av_procs a) /\ p_conflicting v = true.
Proof.
  intros c v. unfold conflicts. rewrite in_flat_map. split.
  - intros [a [Ha Hv]]. destruct (av_managed a) eqn:Em; [|destruct Hv].
    apply filter_In in Hv. exists a. tauto.
  - intros [a [Ha [Hm [Hv Hc]]]]. exists a. split; [exact Ha|]. rewrite Hm. apply filter_In. tauto.
Qed.

(* P0 conflict_detection : Context.conflicting() is true iff some process of a MANAGED application has two
   or more running identifiers; unmanaged applications never contribute *)
Theorem conflict_detection : forall c, conflicting c = true <->
  exists a p, In a c /\ av_managed a = true /\ In p (av_procs a) /\ (2 <= length (pv_running p))%nat.
Proof.
  intros c. unfold conflicting. rewrite existsb_exists. split.
  - intros [a [Ha H]]. apply andb_true_iff in H. destruct H as [Hm He]. apply existsb_exists in He.
    destruct He as [p [Hp Hc]]. exists a, p. rewrite <- p_conflicting_iff. tauto.
  - intros [a [p [Ha [Hm [Hp Hl]]]]]. exists a. split; [exact Ha|]. rewrite Hm. simpl.
    apply existsb_exists. exists p. rewrite p_conflicting_iff. tauto.
Qed.

Lemma conflicting_conflicts : forall c, conflicting c = true <-> conflicts c <> [].
Proof.
  intros c. rewrite conflict_detection. split.
  - intros [a [p [Ha [Hm [Hp Hl]]]]] E.
    assert (Hi : In p (conflicts c)). { apply In_conflicts. exists a. rewrite p_conflicting_iff. tauto. }
    rewrite E in Hi. destruct Hi.
  - intros H. destruct (conflicts c) as [|v r] eqn:E; [contradiction|].
    assert (Hi : In v (conflicts c)) by (rewrite E; left; reflexivity).
    apply In_conflicts in Hi. destruct Hi as [a [Ha [Hm [Hv Hc]]]]. exists a, v. rewrite <- p_conflicting_iff. tauto.
Qed.

Lemma unmanaged_never_conflicting : forall c, (forall a, In a c -> av_managed a = false) -> conflicting c = false.
Proof.
  intros c H. destruct (conflicting c) eqn:E; [|reflexivity]. apply conflict_detection in E.
  destruct E as [a [p [Ha [Hm _]]]]. rewrite (H a Ha) in Hm. discriminate.
Qed.

(* ====================================================================== *)
(* 2. the Master's decisions                                                *)
(* ====================================================================== *)
(* P0 operation_to_conciliation *)
Theorem operation_to_conciliation : forall sb pb cf,
  operation_next sb pb cf = CConciliation <-> sb = false /\ pb = false /\ cf = true.
Proof. intros sb pb cf. destruct sb, pb, cf; simpl; split; intros H; try discriminate; try tauto; destruct H as [? [? ?]]; discriminate. Qed.

(* back to OPERATION exactly when idle and no conflict is left; conciliate again exactly when idle and a
   conflict is left *)
Theorem conciliation_next_spec : forall sb pb cf,
  (fst (conciliation_next sb pb cf) = COperation <-> sb = false /\ pb = false /\ cf = false)
  /\ (snd (conciliation_next sb pb cf) = true <-> sb = false /\ pb = false /\ cf = true).
Proof.
  intros sb pb cf. destruct sb, pb, cf; simpl; split; split; intros H; try discriminate; try tauto;
    destruct H as [? [? ?]]; discriminate.
Qed.

(* ====================================================================== *)
(* 3. Python's min / max                                                    *)
(* ====================================================================== *)
Lemma min_by_spec : forall (A : Type) (key : A -> Z) l cur,
  In (min_by key cur l) (cur :: l) /\ forall y, In y (cur :: l) -> key (min_by key cur l) <= key y.
Proof.
  intros A key l. induction l as [|x r IH]; intros cur; simpl.
  - split; [auto|]. intros y [H|[]]. subst. lia.
  - destruct (Z.ltb (key x) (key cur)) eqn:E.
    + apply Z.ltb_lt in E. destruct (IH x) as [H1 H2]. split.
      * destruct H1 as [H1|H1]; auto.
      * intros y [Hy|[Hy|Hy]]; subst.
        -- pose proof (H2 x (or_introl eq_refl)). lia.
        -- apply H2. left. reflexivity.
        -- apply H2. right. exact Hy.
    + apply Z.ltb_ge in E. destruct (IH cur) as [H1 H2]. split.
      * destruct H1 as [H1|H1]; auto.
      * intros y [Hy|[Hy|Hy]]; subst.
        -- apply H2. left. reflexivity.
        -- pose proof (H2 cur (or_introl eq_refl)). lia.
        -- apply H2. right. exact Hy.
Qed.

Lemma max_by_spec : forall (A : Type) (key : A -> Z) l cur,
  In (max_by key cur l) (cur :: l) /\ forall y, In y (cur :: l) -> key y <= key (max_by key cur l).
Proof.
  intros A key l. induction l as [|x r IH]; intros cur; simpl.
  - split; [auto|]. intros y [H|[]]. subst. lia.
  - destruct (Z.ltb (key cur) (key x)) eqn:E.
    + apply Z.ltb_lt in E. destruct (IH x) as [H1 H2]. split.
      * destruct H1 as [H1|H1]; auto.
      * intros y [Hy|[Hy|Hy]]; subst.
        -- pose proof (H2 x (or_introl eq_refl)). lia.
        -- apply H2. left. reflexivity.
        -- apply H2. right. exact Hy.
    + apply Z.ltb_ge in E. destruct (IH cur) as [H1 H2]. split.
      * destruct H1 as [H1|H1]; auto.
      * intros y [Hy|[Hy|Hy]]; subst.
        -- apply H2. left. reflexivity.
        -- pose proof (H2 cur (or_introl eq_refl)). lia.
        -- apply H2. right. exact Hy.
Qed.

Lemma py_min_spec : forall (A : Type) (key : A -> Z) l, l <> [] ->
  exists x, py_min key l = Some x /\ In x l /\ forall y, In y l -> key x <= key y.
Proof.
  intros A key l H. destruct l as [|a r]; [contradiction|]. simpl. eexists. split; [reflexivity|].
  apply min_by_spec.
Qed.

Lemma py_max_spec : forall (A : Type) (key : A -> Z) l, l <> [] ->
  exists x, py_max key l = Some x /\ In x l /\ forall y, In y l -> key y <= key x.
Proof.
  intros A key l H. destruct l as [|a r]; [contradiction|]. simpl. eexists. split; [reflexivity|].
  apply max_by_spec.
Qed.

(* `pick` behaves like min (dir = false) or max (dir = true) *)
Definition extremal (dir : bool) (a b : Z) : Prop := if dir then b <= a else a <= b.

Definition pick_of (dir : bool) : (Z * Z -> Z) -> list (Z * Z) -> option (Z * Z) :=
  if dir then @py_max (Z * Z) else @py_min (Z * Z).

Lemma pick_spec : forall dir l, l <> [] ->
  exists x, pick_of dir snd l = Some x /\ In x l /\ forall y, In y l -> extremal dir (snd x) (snd y).
Proof.
  intros dir l H. destruct dir; simpl.
  - destruct (py_max_spec _ snd l H) as [x [H1 [H2 H3]]]. exists x. auto.
  - destruct (py_min_spec _ snd l H) as [x [H1 [H2 H3]]]. exists x. auto.
Qed.

(* ====================================================================== *)
(* 4. the strategies, process by process                                    *)
(* ====================================================================== *)
Lemma uptimes_ok : forall p run,
  (forall i, In i run -> exists su, aget i (pv_info p) = Some su) ->
  exists l, uptimes (pv_info p) run = Ok l /\ map fst l = run
            /\ forall x, In x l -> snd x = uptime_of p (fst x).
Proof.
  intros p run. induction run as [|i r IH]; intros H; simpl.
  - exists []. repeat split. intros x [].
  - destruct (H i (or_introl eq_refl)) as [su Esu]. rewrite Esu.
    destruct IH as [l [E [Hm Hu]]]; [intros j Hj; apply H; right; exact Hj|].
    rewrite E. simpl. exists ((i, snd su) :: l). split; [reflexivity|]. split; [simpl; rewrite Hm; reflexivity|].
    intros x [Hx|Hx]; [subst x; simpl; unfold uptime_of; rewrite Esu; reflexivity|apply Hu; exact Hx].
Qed.

(* the copy kept by SENICIDE (dir = false) / INFANTICIDE (dir = true), when defined *)
Definition kept (dir : bool) (p : pview) : option Z :=
  match uptimes (pv_info p) (pv_running p) with
  | Ok l => match pick_of dir snd l with Some (k, _) => Some k | None => None end
  | Crash _ => None
  end.

Lemma keep_one_ok : forall dir p,
  pv_running p <> [] ->
  (forall i, In i (pv_running p) -> exists su, aget i (pv_info p) = Some su) ->
  exists k, kept dir p = Some k
    /\ keep_one (pick_of dir) p = Ok [CStop (pv_id p) (Some (zsort (zdiscard k (pv_running p))))]
    /\ In k (pv_running p)
    /\ forall j, In j (pv_running p) -> extremal dir (uptime_of p k) (uptime_of p j).
Proof.
  intros dir p Hne Hinfo. destruct (uptimes_ok p (pv_running p) Hinfo) as [l [E [Hm Hu]]].
  assert (Hl : l <> []). { intros El. subst l. simpl in Hm. symmetry in Hm. contradiction. }
  destruct (pick_spec dir l Hl) as [[k u] [Hp [Hin Hext]]].
  exists k. unfold kept. rewrite E, Hp. split; [reflexivity|]. split.
  { unfold keep_one. destruct (pv_running p) as [|i0 r0] eqn:Er; [contradiction|].
    rewrite E. simpl. rewrite Hp. reflexivity. }
  assert (Hk : In k (pv_running p)). { rewrite <- Hm. apply in_map_iff. exists (k, u). auto. }
  split; [exact Hk|]. intros j Hj. rewrite <- Hm in Hj. apply in_map_iff in Hj. destruct Hj as [[j' uj] [Ej Hj]].
  simpl in Ej. subst j'. pose proof (Hext _ Hj) as Hx. rewrite (Hu _ Hin), (Hu _ Hj) in Hx. exact Hx.
Qed.

Lemma each_ok : forall f g l, (forall p, In p l -> f p = Ok (g p)) -> each f l = (flat_map g l, None).
Proof.
  intros f g l. induction l as [|p r IH]; intros H; simpl; [reflexivity|].
  rewrite (H p (or_introl eq_refl)). rewrite IH by (intros q Hq; apply H; right; exact Hq). reflexivity.
Qed.

(* the calls of one process, strategy by strategy (SENICIDE / INFANTICIDE: k is the copy kept) *)
Definition gcalls (s : cstrat) (p : pview) : list call :=
  match s with
  | Senicide => match kept false p with
                | Some k => [CStop (pv_id p) (Some (zsort (zdiscard k (pv_running p))))] | None => [] end
  | Infanticide => match kept true p with
                   | Some k => [CStop (pv_id p) (Some (zsort (zdiscard k (pv_running p))))] | None => [] end
  | User => []
  | Stop => [CStop (pv_id p) None]
  | Restart => [CRestart (pv_id p)]
  | RunningFailure => [CStop (pv_id p) None; CAddDefault (pv_id p)]
  end.

Definition tail_calls (s : cstrat) : list call :=
  match s with
  | User => []
  | RunningFailure => [CStopperNext; CTriggerJobs]
  | _ => [CStopperNext]
  end.

(* the processes handed to the strategy are fit for min / max: non-empty running set, known uptimes *)
Definition fit (p : pview) : Prop :=
  pv_running p <> [] /\ forall i, In i (pv_running p) -> exists su, aget i (pv_info p) = Some su.

Lemma conciliate_ok : forall s confl, (forall p, In p confl -> fit p) ->
  conciliate s confl = (flat_map (gcalls s) confl ++ tail_calls s, None).
Proof.
  intros s confl H. destruct s; simpl.
  - rewrite (each_ok _ (gcalls Senicide) confl); [reflexivity|]. intros p Hp. destruct (H p Hp) as [H1 H2].
    destruct (keep_one_ok false p H1 H2) as [k [Ek [Eo _]]]. simpl in Eo. simpl. rewrite Ek. exact Eo.
  - rewrite (each_ok _ (gcalls Infanticide) confl); [reflexivity|]. intros p Hp. destruct (H p Hp) as [H1 H2].
    destruct (keep_one_ok true p H1 H2) as [k [Ek [Eo _]]]. simpl in Eo. simpl. rewrite Ek. exact Eo.
  - induction confl as [|p r IH]; simpl; [reflexivity|]. rewrite app_nil_r in *.
    symmetry. apply (f_equal fst) in IH; [|intros q Hq; apply H; right; exact Hq]. simpl in IH.
    clear. induction r; simpl; auto.
  - rewrite (each_ok _ (gcalls Stop) confl); [reflexivity|]. intros; reflexivity.
  - rewrite (each_ok _ (gcalls Restart) confl); [reflexivity|]. intros; reflexivity.
  - rewrite (each_ok _ (gcalls RunningFailure) confl); [reflexivity|]. intros; reflexivity.
Qed.

(* ====================================================================== *)
(* 5. what the Stopper plans                                                *)
(* ====================================================================== *)
Definition call_stops (ps : list pview) (c : call) : list (Z * Z) :=
  match c with
  | CStop p ids => match find_pv ps p with
                   | Some v => map (fun i => (p, i)) (stop_cmds (pv_running v) ids) | None => [] end
  | CRestart p => match find_pv ps p with
                  | Some v => if pv_is_running v then map (fun i => (p, i)) (pv_running v) else []
                  | None => [] end
  | _ => []
  end.
Definition call_deferred (ps : list pview) (c : call) : list Z :=
  match c with
  | CRestart p => match find_pv ps p with Some v => if pv_is_running v then [p] else [] | None => [] end
  | _ => []
  end.
Definition call_direct (ps : list pview) (c : call) : list Z :=
  match c with
  | CRestart p => match find_pv ps p with Some v => if pv_is_running v then [] else [p] | None => [] end
  | _ => []
  end.
Definition call_failure (c : call) : list Z := match c with CAddDefault p => [p] | _ => [] end.

Lemma plan_of_gen : forall ps calls pl,
  fold_left (plan_call ps) calls pl =
  mkPlan (pl_stops pl ++ flat_map (call_stops ps) calls) (pl_deferred pl ++ flat_map (call_deferred ps) calls)
         (pl_direct pl ++ flat_map (call_direct ps) calls) (pl_failure pl ++ flat_map call_failure calls).
Proof.
  intros ps calls. induction calls as [|c r IH]; intros pl; simpl.
  - rewrite !app_nil_r. destruct pl; reflexivity.
  - rewrite IH. destruct c as [p ids|p| |p|]; simpl.
    + destruct (find_pv ps p) as [v|]; simpl; rewrite ?app_assoc, ?app_nil_r; reflexivity.
    + destruct (find_pv ps p) as [v|]; simpl; [destruct (pv_is_running v); simpl|];
        rewrite <- ?app_assoc, ?app_nil_r; reflexivity.
    + reflexivity.
    + rewrite <- ?app_assoc. reflexivity.
    + reflexivity.
Qed.

Lemma plan_of_spec : forall ps calls,
  plan_of ps calls = mkPlan (flat_map (call_stops ps) calls) (flat_map (call_deferred ps) calls)
                            (flat_map (call_direct ps) calls) (flat_map call_failure calls).
Proof. intros. unfold plan_of. rewrite plan_of_gen. reflexivity. Qed.

Lemma flat_map_flat_map : forall (A B C : Type) (f : B -> list C) (g : A -> list B) l,
  flat_map f (flat_map g l) = flat_map (fun x => flat_map f (g x)) l.
Proof.
  intros. induction l as [|x r IH]; simpl; [reflexivity|]. rewrite flat_map_app, IH. reflexivity.
Qed.

Lemma flat_map_ext_In : forall (A B : Type) (f g : A -> list B) l,
  (forall x, In x l -> f x = g x) -> flat_map f l = flat_map g l.
Proof.
  intros A B f g l H. induction l as [|x r IH]; simpl; [reflexivity|].
  rewrite (H x (or_introl eq_refl)), IH; [reflexivity|]. intros y Hy. apply H. right. exact Hy.
Qed.

Lemma find_pv_In : forall ps v, NoDup (map pv_id ps) -> In v ps -> find_pv ps (pv_id v) = Some v.
Proof.
  intros ps v. unfold find_pv. induction ps as [|w r IH]; intros Hn Hv; [destruct Hv|]. simpl.
  inversion Hn as [|? ? Hw Hr]; subst. destruct Hv as [Hv|Hv].
  - subst w. rewrite Z.eqb_refl. reflexivity.
  - destruct (Z.eqb (pv_id w) (pv_id v)) eqn:E; [|apply IH; assumption].
    apply Z.eqb_eq in E. exfalso. apply Hw. rewrite E. apply in_map. exact Hv.
Qed.

(* the identifiers where a stop is planned for one process *)
Definition stop_set (s : cstrat) (v : pview) : list Z :=
  let run := pv_running v in
  match s with
  | Senicide => match kept false v with Some k => stop_cmds run (Some (zsort (zdiscard k run))) | None => [] end
  | Infanticide => match kept true v with Some k => stop_cmds run (Some (zsort (zdiscard k run))) | None => [] end
  | User => []
  | Stop | RunningFailure => run
  | Restart => if pv_is_running v then run else []
  end.

Lemma gcalls_stops : forall ps s v, find_pv ps (pv_id v) = Some v ->
  flat_map (call_stops ps) (gcalls s v) = map (fun i => (pv_id v, i)) (stop_set s v).
Proof.
  intros ps s v Hf. destruct s; simpl.
  - destruct (kept false v); simpl; [rewrite Hf, app_nil_r; reflexivity|reflexivity].
  - destruct (kept true v); simpl; [rewrite Hf, app_nil_r; reflexivity|reflexivity].
  - reflexivity.
  - rewrite Hf, app_nil_r. reflexivity.
  - rewrite Hf, app_nil_r. destruct (pv_is_running v); reflexivity.
  - rewrite Hf, app_nil_r. reflexivity.
Qed.

Lemma gcalls_deferred : forall ps s v, find_pv ps (pv_id v) = Some v ->
  flat_map (call_deferred ps) (gcalls s v) =
  match s with Restart => if pv_is_running v then [pv_id v] else [] | _ => [] end.
Proof.
  intros ps s v Hf. destruct s; simpl; try reflexivity.
  - destruct (kept false v); reflexivity.
  - destruct (kept true v); reflexivity.
  - rewrite Hf, app_nil_r. reflexivity.
Qed.

Lemma gcalls_direct : forall ps s v, find_pv ps (pv_id v) = Some v ->
  flat_map (call_direct ps) (gcalls s v) =
  match s with Restart => if pv_is_running v then [] else [pv_id v] | _ => [] end.
Proof.
  intros ps s v Hf. destruct s; simpl; try reflexivity.
  - destruct (kept false v); reflexivity.
  - destruct (kept true v); reflexivity.
  - rewrite Hf, app_nil_r. reflexivity.
Qed.

Lemma gcalls_failure : forall s v,
  flat_map call_failure (gcalls s v) = match s with RunningFailure => [pv_id v] | _ => [] end.
Proof.
  intros s v. destruct s; simpl; try reflexivity.
  - destruct (kept false v); reflexivity.
  - destruct (kept true v); reflexivity.
Qed.

Lemma tail_nothing : forall ps s,
  flat_map (call_stops ps) (tail_calls s) = [] /\ flat_map (call_deferred ps) (tail_calls s) = []
  /\ flat_map (call_direct ps) (tail_calls s) = [] /\ flat_map call_failure (tail_calls s) = [].
Proof. intros ps s. destruct s; simpl; auto. Qed.

(* the plan of a whole conciliation, as a function of the conflicts *)
Lemma plan_regular : forall ps s confl,
  NoDup (map pv_id ps) -> (forall v, In v confl -> In v ps) ->
  plan_of ps (flat_map (gcalls s) confl ++ tail_calls s) =
  mkPlan (flat_map (fun v => map (fun i => (pv_id v, i)) (stop_set s v)) confl)
         (flat_map (fun v => match s with Restart => if pv_is_running v then [pv_id v] else [] | _ => [] end) confl)
         (flat_map (fun v => match s with Restart => if pv_is_running v then [] else [pv_id v] | _ => [] end) confl)
         (flat_map (fun v => match s with RunningFailure => [pv_id v] | _ => [] end) confl).
Proof.
  intros ps s confl Hn Hsub. rewrite plan_of_spec. rewrite !flat_map_app.
  destruct (tail_nothing ps s) as [T1 [T2 [T3 T4]]]. rewrite T1, T2, T3, T4, !app_nil_r.
  rewrite !flat_map_flat_map. f_equal.
  - apply flat_map_ext_In. intros v Hv. apply gcalls_stops. apply find_pv_In; auto.
  - apply flat_map_ext_In. intros v Hv. apply gcalls_deferred. apply find_pv_In; auto.
  - apply flat_map_ext_In. intros v Hv. apply gcalls_direct. apply find_pv_In; auto.
  - apply flat_map_ext_In. intros v Hv. apply gcalls_failure.
Qed.

Lemma In_stop_cmds : forall run l i, l <> [] -> (In i (stop_cmds run (Some l)) <-> In i run /\ In i l).
Proof.
  intros run l i Hl. unfold stop_cmds. destruct l as [|x r]; [contradiction|].
  rewrite filter_In, cz_zmem_In. reflexivity.
Qed.

Lemma NoDup_stop_cmds : forall run ids, NoDup run -> NoDup (stop_cmds run ids).
Proof.
  intros run ids H. unfold stop_cmds. destruct ids as [[|x r]|]; try exact H. apply NoDup_filter. exact H.
Qed.

(* ====================================================================== *)
(* 6. stops exactly where the strategy says                                 *)
(* ====================================================================== *)
(* what C11 (PS-inv) guarantees about the process table *)
Record Hyp (c : cctx) : Prop := mkHyp {
  hyp_ids : NoDup (map pv_id (all_procs c));                                   (* one ProcessStatus per namespec *)
  hyp_run : forall v, In v (all_procs c) -> NoDup (pv_running v);              (* running_identifiers is a set *)
  hyp_info : forall v i, In v (all_procs c) -> In i (pv_running v) ->
                         exists su, aget i (pv_info v) = Some su              (* running_identifiers in info_map *)
}.

Lemma conflicts_sub : forall c v, In v (conflicts c) -> In v (all_procs c).
Proof.
  intros c v H. apply In_conflicts in H. destruct H as [a [Ha [_ [Hv _]]]].
  unfold all_procs. apply in_flat_map. exists a. auto.
Qed.

Lemma map_inj_In : forall (A : Type) (f : A -> Z) l x y,
  NoDup (map f l) -> In x l -> In y l -> f x = f y -> x = y.
Proof.
  intros A f l. induction l as [|a r IH]; intros x y Hn Hx Hy E; [destruct Hx|].
  simpl in Hn. inversion Hn as [|? ? Ha Hr]; subst. destruct Hx as [Hx|Hx], Hy as [Hy|Hy]; subst.
  - reflexivity.
  - exfalso. apply Ha. rewrite E. apply in_map. exact Hy.
  - exfalso. apply Ha. rewrite <- E. apply in_map. exact Hx.
  - apply IH; assumption.
Qed.

Lemma In_pairs : forall (S : pview -> list Z) confl p i,
  In (p, i) (flat_map (fun v => map (fun j => (pv_id v, j)) (S v)) confl) <->
  exists v, In v confl /\ pv_id v = p /\ In i (S v).
Proof.
  intros S confl p i. rewrite in_flat_map. split.
  - intros [v [Hv Hi]]. apply in_map_iff in Hi. destruct Hi as [j [Ej Hj]]. inversion Ej; subst. exists v. auto.
  - intros [v [Hv [Ep Hi]]]. exists v. split; [exact Hv|]. apply in_map_iff. exists i. subst. auto.
Qed.

Lemma In_pairs_own : forall (S : pview -> list Z) confl v i, NoDup (map pv_id confl) -> In v confl ->
  (In (pv_id v, i) (flat_map (fun w => map (fun j => (pv_id w, j)) (S w)) confl) <-> In i (S v)).
Proof.
  intros S confl v i Hn Hv. rewrite In_pairs. split.
  - intros [w [Hw [E Hi]]]. rewrite (map_inj_In _ pv_id confl v w Hn Hv Hw (eq_sym E)). exact Hi.
  - intros Hi. exists v. auto.
Qed.

Lemma two_distinct : forall (run : list Z) k, NoDup run -> (2 <= length run)%nat -> exists j, In j run /\ j <> k.
Proof.
  intros run k Hn Hl. destruct run as [|a [|b r]]; simpl in Hl; try lia.
  inversion Hn as [|? ? Ha _]; subst. destruct (Z.eq_dec a k) as [E|E].
  - exists b. split; [right; left; reflexivity|]. intros Eb. subst. apply Ha. left. reflexivity.
  - exists a. split; [left; reflexivity|exact E].
Qed.

(* SENICIDE / INFANTICIDE on one conflicting process *)
Lemma keep_one_stop_set : forall dir v, NoDup (pv_running v) -> (2 <= length (pv_running v))%nat ->
  (forall i, In i (pv_running v) -> exists su, aget i (pv_info v) = Some su) ->
  exists k, kept dir v = Some k /\ In k (pv_running v)
    /\ (forall j, In j (pv_running v) -> extremal dir (uptime_of v k) (uptime_of v j))
    /\ forall i, In i (stop_cmds (pv_running v) (Some (zsort (zdiscard k (pv_running v))))) <->
                 In i (pv_running v) /\ i <> k.
Proof.
  intros dir v Hn Hl Hinfo.
  assert (Hne : pv_running v <> []) by (intros E; rewrite E in Hl; simpl in Hl; lia).
  destruct (keep_one_ok dir v Hne Hinfo) as [k [Ek [_ [Hk Hext]]]]. exists k.
  split; [exact Ek|]. split; [exact Hk|]. split; [exact Hext|]. intros i.
  assert (Hnn : zsort (zdiscard k (pv_running v)) <> []).
  { destruct (two_distinct (pv_running v) k Hn Hl) as [j [Hj Hjk]]. intros E.
    assert (Hi : In j (zsort (zdiscard k (pv_running v)))) by (apply cz_zsort_In, cz_In_zdiscard; auto).
    rewrite E in Hi. destruct Hi. }
  rewrite (In_stop_cmds _ _ i Hnn), cz_zsort_In, cz_In_zdiscard. tauto.
Qed.

Lemma NoDup_map_sub : forall c, NoDup (map pv_id (all_procs c)) -> NoDup (map pv_id (conflicts c)).
Proof.
  intros c. unfold all_procs, conflicts. induction c as [|a r IH]; intros H; simpl; [constructor|].
  simpl in H. rewrite map_app in *. apply NoDup_app_iff in H. destruct H as [H1 [H2 H3]].
  apply NoDup_app_iff. split; [|split].
  - destruct (av_managed a); [|constructor]. clear - H1. induction (av_procs a) as [|p q IHq]; simpl; [constructor|].
    simpl in H1. inversion H1 as [|? ? Hp Hq]; subst. destruct (p_conflicting p); simpl.
    + constructor; [|apply IHq; exact Hq]. intros Hi. apply Hp. apply in_map_iff in Hi.
      destruct Hi as [w [Ew Hw]]. apply filter_In in Hw. apply in_map_iff. exists w. tauto.
    + apply IHq; exact Hq.
  - apply IH; exact H2.
  - intros x Hx Hy. apply (H3 x).
    + destruct (av_managed a); [|destruct Hx]. apply in_map_iff in Hx. destruct Hx as [w [Ew Hw]].
      apply filter_In in Hw. apply in_map_iff. exists w. tauto.
    + apply in_map_iff in Hy. destruct Hy as [w [Ew Hw]]. apply in_map_iff. exists w. split; [exact Ew|].
      apply in_flat_map in Hw. destruct Hw as [b [Hb Hw]]. apply in_flat_map. exists b. split; [exact Hb|].
      destruct (av_managed b); [|destruct Hw]. apply filter_In in Hw. tauto.
Qed.

Lemma conflicts_fit : forall c, Hyp c -> forall v, In v (conflicts c) -> fit v.
Proof.
  intros c H v Hv. pose proof (conflicts_sub c v Hv) as Hs. apply In_conflicts in Hv.
  destruct Hv as [a [_ [_ [_ Hc]]]]. apply p_conflicting_iff in Hc. split.
  - intros E. rewrite E in Hc. simpl in Hc. lia.
  - intros i Hi. exact (hyp_info c H v i Hs Hi).
Qed.

(* the result of conciliating the conflicts of a context *)
Definition outcome (c : cctx) (s : cstrat) : list call * option crash * plan :=
  let r := conciliate s (conflicts c) in (fst r, snd r, plan_of (all_procs c) (fst r)).

Lemma outcome_eq : forall c s, Hyp c ->
  outcome c s =
  (flat_map (gcalls s) (conflicts c) ++ tail_calls s, None,
   mkPlan (flat_map (fun v => map (fun i => (pv_id v, i)) (stop_set s v)) (conflicts c))
          (flat_map (fun v => match s with Restart => if pv_is_running v then [pv_id v] else [] | _ => [] end) (conflicts c))
          (flat_map (fun v => match s with Restart => if pv_is_running v then [] else [pv_id v] | _ => [] end) (conflicts c))
          (flat_map (fun v => match s with RunningFailure => [pv_id v] | _ => [] end) (conflicts c))).
Proof.
  intros c s H. unfold outcome. rewrite (conciliate_ok s (conflicts c) (conflicts_fit c H)). simpl.
  rewrite (plan_regular (all_procs c) s (conflicts c) (hyp_ids c H) (conflicts_sub c)). reflexivity.
Qed.

(* P0 stops_exactly_strategy *)
Theorem stops_exactly_strategy : forall c s, Hyp c ->
  let '(calls, e, pl) := outcome c s in
  e = None
  (* no stop request targets a process that is not in conflict, nor an instance where it is not listed *)
  /\ (forall p i, In (p, i) (pl_stops pl) ->
        exists v, In v (conflicts c) /\ pv_id v = p /\ In i (pv_running v) /\ (2 <= length (pv_running v))%nat)
  (* and, for every conflicting process, exactly what the strategy says *)
  /\ (forall v, In v (conflicts c) ->
        match s with
        | Senicide =>
            exists k, In k (pv_running v)
              /\ (forall j, In j (pv_running v) -> uptime_of v k <= uptime_of v j)
              /\ forall i, In (pv_id v, i) (pl_stops pl) <-> In i (pv_running v) /\ i <> k
        | Infanticide =>
            exists k, In k (pv_running v)
              /\ (forall j, In j (pv_running v) -> uptime_of v j <= uptime_of v k)
              /\ forall i, In (pv_id v, i) (pl_stops pl) <-> In i (pv_running v) /\ i <> k
        | User => forall i, ~ In (pv_id v, i) (pl_stops pl)
        | Stop | RunningFailure => forall i, In (pv_id v, i) (pl_stops pl) <-> In i (pv_running v)
        | Restart => pv_is_running v = true -> forall i, In (pv_id v, i) (pl_stops pl) <-> In i (pv_running v)
        end)
  (* USER requests nothing at all *)
  /\ (s = User -> calls = [] /\ pl = plan_empty).
Proof.
  intros c s H. rewrite (outcome_eq c s H). cbn [pl_stops].
  pose proof (NoDup_map_sub c (hyp_ids c H)) as Hnd.
  split; [reflexivity|]. split; [|split].
  - intros p i Hi. apply In_pairs in Hi. destruct Hi as [v [Hv [Ep Hi]]]. exists v.
    pose proof (conflicts_sub c v Hv) as Hs. pose proof Hv as Hv'. apply In_conflicts in Hv'.
    destruct Hv' as [a [_ [_ [_ Hc]]]]. apply p_conflicting_iff in Hc.
    split; [exact Hv|]. split; [exact Ep|]. split; [|exact Hc].
    unfold stop_set in Hi. destruct s.
    + destruct (kept false v) as [k|]; [|destruct Hi].
      unfold stop_cmds in Hi. destruct (zsort (zdiscard k (pv_running v))); [exact Hi|]. apply filter_In in Hi. tauto.
    + destruct (kept true v) as [k|]; [|destruct Hi].
      unfold stop_cmds in Hi. destruct (zsort (zdiscard k (pv_running v))); [exact Hi|]. apply filter_In in Hi. tauto.
    + destruct Hi.
    + exact Hi.
    + destruct (pv_is_running v); [exact Hi|destruct Hi].
    + exact Hi.
  - intros v Hv. pose proof (conflicts_sub c v Hv) as Hs. pose proof Hv as Hv'. apply In_conflicts in Hv'.
    destruct Hv' as [a [_ [_ [_ Hc]]]]. apply p_conflicting_iff in Hc.
    pose proof (hyp_run c H v Hs) as Hr. pose proof (fun i => hyp_info c H v i Hs) as Hinf.
    destruct s.
    + destruct (keep_one_stop_set false v Hr Hc Hinf) as [k [Ek [Hk [Hext Hset]]]]. exists k.
      split; [exact Hk|]. split; [exact Hext|]. intros i. rewrite (In_pairs_own _ _ v i Hnd Hv).
      unfold stop_set. rewrite Ek. apply Hset.
    + destruct (keep_one_stop_set true v Hr Hc Hinf) as [k [Ek [Hk [Hext Hset]]]]. exists k.
      split; [exact Hk|]. split; [exact Hext|]. intros i. rewrite (In_pairs_own _ _ v i Hnd Hv).
      unfold stop_set. rewrite Ek. apply Hset.
    + intros i. rewrite (In_pairs_own _ _ v i Hnd Hv). simpl. tauto.
    + intros i. rewrite (In_pairs_own _ _ v i Hnd Hv). simpl. tauto.
    + intros Hrun i. rewrite (In_pairs_own _ _ v i Hnd Hv). simpl. rewrite Hrun. tauto.
    + intros i. rewrite (In_pairs_own _ _ v i Hnd Hv). simpl. tauto.
  - intros E. subst s. simpl. clear Hnd. split.
    + rewrite app_nil_r. induction (conflicts c); simpl; auto.
    + unfold plan_empty. f_equal; induction (conflicts c); simpl; auto.
Qed.

(* ====================================================================== *)
(* 7. RESTART starts one copy again, RUNNING_FAILURE hands the process to the failure handler *)
(* ====================================================================== *)
Lemma flat_map_singleton_if : forall (confl : list pview),
  (forall v, In v confl -> pv_is_running v = true) ->
  flat_map (fun v => if pv_is_running v then [pv_id v] else []) confl = map pv_id confl
  /\ flat_map (fun v => if pv_is_running v then [] else [pv_id v]) confl = [].
Proof.
  intros confl. induction confl as [|v r IH]; intros H; simpl; [auto|].
  rewrite (H v (or_introl eq_refl)).
  assert (Hr : forall w, In w r -> pv_is_running w = true) by (intros w Hw; apply H; right; exact Hw).
  destruct (IH Hr) as [I1 I2]. simpl. rewrite I1, I2. auto.
Qed.

Lemma flat_map_singleton : forall (A : Type) (f : A -> Z) l, flat_map (fun v => [f v]) l = map f l.
Proof. intros. induction l as [|x r IH]; simpl; [reflexivity|]. rewrite IH. reflexivity. Qed.

Lemma flat_map_nil : forall (A B : Type) (l : list A), flat_map (fun _ => @nil B) l = [].
Proof. intros. induction l; simpl; auto. Qed.

(* P0 restart_starts_one: as far as strategy.py and Stopper.restart_process go, RESTART stops every copy and
   stores exactly one deferred start per conflicting process (Stopper.process_start_requests), nothing else *)
Theorem restart_starts_one : forall c, Hyp c ->
  (forall v, In v (conflicts c) -> pv_is_running v = true) ->
  let '(_, _, pl) := outcome c Restart in
  pl_deferred pl = map pv_id (conflicts c) /\ NoDup (pl_deferred pl) /\ pl_direct pl = [] /\ pl_failure pl = [].
Proof.
  intros c H Hr. rewrite (outcome_eq c Restart H). cbn [pl_deferred pl_direct pl_failure].
  destruct (flat_map_singleton_if (conflicts c) Hr) as [E1 E2]. rewrite E1, E2.
  split; [reflexivity|]. split; [apply NoDup_map_sub, (hyp_ids c H)|]. split; [reflexivity|]. apply flat_map_nil.
Qed.

(* the other strategies never start anything *)
Theorem only_restart_starts : forall c s, Hyp c -> s <> Restart ->
  let '(_, _, pl) := outcome c s in pl_deferred pl = [] /\ pl_direct pl = [].
Proof.
  intros c s H Hs. rewrite (outcome_eq c s H). cbn [pl_deferred pl_direct].
  destruct s; try contradiction; split; apply flat_map_nil.
Qed.

(* RUNNING_FAILURE: every copy is stopped (stops_exactly_strategy) and each conflicting process is handed once to
   the failure handler, which is then triggered (the strategy it applies is C06's business) *)
Theorem failure_strategy_delegates : forall c, Hyp c ->
  let '(calls, _, pl) := outcome c RunningFailure in
  pl_failure pl = map pv_id (conflicts c) /\ NoDup (pl_failure pl) /\ In CTriggerJobs calls.
Proof.
  intros c H. rewrite (outcome_eq c RunningFailure H). cbn [pl_failure].
  rewrite flat_map_singleton. split; [reflexivity|]. split; [apply NoDup_map_sub, (hyp_ids c H)|].
  apply in_app_iff. right. simpl. auto.
Qed.

(* ====================================================================== *)
(* 8. once the stops are reported no conflict remains                        *)
(* ====================================================================== *)
(* the running identifiers after the STOPPED events of the requested stops (C11: a STOPPED event discards) *)
Definition ack (run stops : list Z) : list Z := fold_left (fun r i => zdiscard i r) stops run.

Lemma In_ack : forall stops run x, In x (ack run stops) <-> In x run /\ ~ In x stops.
Proof.
  intros stops. unfold ack. induction stops as [|i r IH]; intros run x; simpl; [tauto|].
  rewrite IH, cz_In_zdiscard. intuition.
Qed.

Lemma NoDup_ack : forall stops run, NoDup run -> NoDup (ack run stops).
Proof.
  intros stops. unfold ack. induction stops as [|i r IH]; intros run H; simpl; [exact H|].
  apply IH. unfold zdiscard. apply NoDup_filter. exact H.
Qed.

Lemma filter_length_le' : forall (A : Type) (f : A -> bool) l, (length (filter f l) <= length l)%nat.
Proof. intros. induction l as [|x r IH]; simpl; [lia|]. destruct (f x); simpl; lia. Qed.

Lemma length_ack : forall stops run, (length (ack run stops) <= length run)%nat.
Proof.
  intros stops. unfold ack. induction stops as [|i r IH]; intros run; simpl; [lia|].
  eapply Nat.le_trans; [apply IH|]. unfold zdiscard. apply filter_length_le'.
Qed.

Lemma NoDup_at_most_one : forall (l : list Z) k, NoDup l -> (forall x, In x l -> x = k) -> (length l <= 1)%nat.
Proof.
  intros l k Hn H. destruct l as [|a [|b r]]; simpl; try lia.
  inversion Hn as [|? ? Ha _]; subst. exfalso. apply Ha. left.
  rewrite (H a (or_introl eq_refl)), (H b (or_intror (or_introl eq_refl))). reflexivity.
Qed.

Definition stops_for (pl : plan) (p : Z) : list Z := stops_of (pl_stops pl) p.

Lemma In_stops_of : forall stops p i, In i (stops_of stops p) <-> In (p, i) stops.
Proof.
  intros stops p i. unfold stops_of. rewrite in_map_iff. split.
  - intros [[q j] [E H]]. simpl in E. subst j. apply filter_In in H. destruct H as [H Hq]. simpl in Hq.
    apply Z.eqb_eq in Hq. subst q. exact H.
  - intros H. exists (p, i). split; [reflexivity|]. apply filter_In. split; [exact H|]. simpl. apply Z.eqb_refl.
Qed.

(* P0 conflict_cleared, per process *)
Theorem conflict_cleared : forall c s v, Hyp c -> s <> User ->
  (s = Restart -> pv_is_running v = true) -> In v (conflicts c) ->
  let '(_, _, pl) := outcome c s in
  (length (ack (pv_running v) (stops_for pl (pv_id v))) <= 1)%nat.
Proof.
  intros c s v H Hs Hr Hv. pose proof (stops_exactly_strategy c s H) as T.
  destruct (outcome c s) as [[calls e] pl]. destruct T as [_ [_ [T _]]]. specialize (T v Hv).
  pose proof (hyp_run c H v (conflicts_sub c v Hv)) as Hn.
  assert (Hall : (forall i, In (pv_id v, i) (pl_stops pl) <-> In i (pv_running v)) ->
                 (length (ack (pv_running v) (stops_for pl (pv_id v))) <= 1)%nat).
  { intros Hi. apply (NoDup_at_most_one _ 0); [apply NoDup_ack; exact Hn|]. intros x Hx. apply In_ack in Hx.
    destruct Hx as [Hx1 Hx2]. exfalso. apply Hx2. apply In_stops_of. apply Hi. exact Hx1. }
  assert (Hone : forall k, (forall i, In (pv_id v, i) (pl_stops pl) <-> In i (pv_running v) /\ i <> k) ->
                 (length (ack (pv_running v) (stops_for pl (pv_id v))) <= 1)%nat).
  { intros k Hi. apply (NoDup_at_most_one _ k); [apply NoDup_ack; exact Hn|]. intros x Hx. apply In_ack in Hx.
    destruct Hx as [Hx1 Hx2]. destruct (Z.eq_dec x k) as [E|E]; [exact E|]. exfalso. apply Hx2.
    apply In_stops_of. apply Hi. auto. }
  destruct s.
  - destruct T as [k [_ [_ T]]]. exact (Hone k T).
  - destruct T as [k [_ [_ T]]]. exact (Hone k T).
  - contradiction.
  - exact (Hall T).
  - exact (Hall (T (Hr eq_refl))).
  - exact (Hall T).
Qed.

(* the whole table after the acknowledgements *)
Definition apply_acks (stops : list (Z * Z)) (c : cctx) : cctx :=
  map (fun a => mkAv (av_managed a)
                     (map (fun v => mkPv (pv_id v) (ack (pv_running v) (stops_of stops (pv_id v)))
                                         (pv_info v) (pv_is_running v)) (av_procs a))) c.

(* P0 conflict_cleared, context level: no conflict remains, so ConciliationState returns OPERATION *)
Theorem conflict_cleared_ctx : forall c s, Hyp c -> s <> User ->
  (s = Restart -> forall v, In v (conflicts c) -> pv_is_running v = true) ->
  let '(_, _, pl) := outcome c s in
  conflicting (apply_acks (pl_stops pl) c) = false
  /\ conciliation_next false false (conflicting (apply_acks (pl_stops pl) c)) = (COperation, false).
Proof.
  intros c s H Hs Hr.
  assert (G : forall v, In v (conflicts c) ->
              let '(_, _, pl) := outcome c s in
              (length (ack (pv_running v) (stops_for pl (pv_id v))) <= 1)%nat).
  { intros v Hv. apply conflict_cleared; auto. }
  destruct (outcome c s) as [[calls e] pl].
  assert (E : conflicting (apply_acks (pl_stops pl) c) = false).
  { destruct (conflicting (apply_acks (pl_stops pl) c)) eqn:E; [|reflexivity]. exfalso.
    apply conflict_detection in E. destruct E as [a' [p' [Ha' [Hm [Hp' Hl]]]]].
    unfold apply_acks in Ha'. apply in_map_iff in Ha'. destruct Ha' as [a [Ea Ha]]. subst a'.
    simpl in Hm, Hp'. apply in_map_iff in Hp'. destruct Hp' as [v [Ev Hv]]. subst p'. simpl in Hl.
    destruct (p_conflicting v) eqn:Ec.
    - assert (Hin : In v (conflicts c)). { apply In_conflicts. exists a. auto. }
      specialize (G v Hin). unfold stops_for in G. lia.
    - pose proof (length_ack (stops_of (pl_stops pl) (pv_id v)) (pv_running v)) as Hle.
      assert ((length (pv_running v) < 2)%nat).
      { destruct (le_lt_dec 2 (length (pv_running v))) as [L|L]; [|exact L].
        apply p_conflicting_iff in L. rewrite L in Ec. discriminate. }
      lia. }
  split; [exact E|]. rewrite E. reflexivity.
Qed.

(* P1 user_stays: USER requests nothing (stops_exactly_strategy), the table is unchanged, and the Master stays in
   CONCILIATION for as long as the conflict is there; it returns to OPERATION when the conflict has disappeared *)
Theorem user_stays : forall c, Hyp c ->
  let '(calls, _, pl) := outcome c User in
  calls = [] /\ pl = plan_empty
  /\ (conflicting c = true -> fst (conciliation_next false false (conflicting c)) = CConciliation)
  /\ (conflicting c = false -> fst (conciliation_next false false (conflicting c)) = COperation).
Proof.
  intros c H. pose proof (stops_exactly_strategy c User H) as T. destruct (outcome c User) as [[calls e] pl].
  destruct T as [_ [_ [_ T]]]. destruct (T eq_refl) as [T1 T2]. split; [exact T1|]. split; [exact T2|].
  split; intros E; rewrite E; reflexivity.
Qed.

(* ====================================================================== *)
(* 9. model |= Spec_C05 (the boolean specification used as failing-input oracle) *)
(* ====================================================================== *)
Lemma In_aget_some : forall (V : Type) (k : Z) (v : V) l, In (k, v) l -> exists v', aget k l = Some v'.
Proof.
  intros V k v l. induction l as [|[k' w] r IH]; intros H; [destruct H|]. simpl.
  destruct (Z.eqb k k') eqn:E; [eexists; reflexivity|]. destruct H as [H|H]; [|apply IH; exact H].
  inversion H; subst. rewrite Z.eqb_refl in E. discriminate.
Qed.

Lemma NoDup_keys_filter : forall (V : Type) (f : Z * V -> bool) (l : alist V),
  NoDup (akeys l) -> NoDup (map fst (filter f l)).
Proof.
  intros V f l. unfold akeys. induction l as [|x r IH]; intros H; simpl; [constructor|].
  simpl in H. inversion H as [|? ? Hx Hr]; subst. destruct (f x); simpl; [|apply IH; exact Hr].
  constructor; [|apply IH; exact Hr]. intros Hi. apply Hx. apply in_map_iff in Hi.
  destruct Hi as [y [Ey Hy]]. apply filter_In in Hy. apply in_map_iff. exists y. tauto.
Qed.

Record Facts (c : cctx) : Prop := mkFacts {
  f_hyp : Hyp c;
  f_copies_nodup : forall v, In v (all_procs c) -> NoDup (copies v);
  f_listed : forall v i, In v (all_procs c) -> (In i (pv_running v) <-> In i (copies v));
  f_state : forall v, In v (all_procs c) -> p_conflicting v = true -> pv_is_running v = true
}.

Lemma H_c05_facts : forall c, H_c05 c = true -> Facts c.
Proof.
  intros c H. unfold H_c05, wf_ctx in H. rewrite !andb_true_iff in H. destruct H as [[H1 H2] H3].
  rewrite forallb_forall in H2, H3.
  assert (L : forall v i, In v (all_procs c) -> (In i (pv_running v) <-> In i (copies v))).
  { intros v i Hv. specialize (H3 v Hv). rewrite !andb_true_iff in H3. destruct H3 as [[_ H3] _].
    rewrite zset_eqb_iff in H3. apply H3. }
  constructor; [constructor|..].
  - apply nodupb_NoDup. exact H1.
  - intros v Hv. apply nodupb_NoDup. apply H2. exact Hv.
  - intros v i Hv Hi. apply (L v i Hv) in Hi. unfold copies in Hi. apply in_map_iff in Hi.
    destruct Hi as [[k su] [Ek Hk]]. simpl in Ek. subst k. apply filter_In in Hk. destruct Hk as [Hk _].
    exact (In_aget_some _ i su _ Hk).
  - intros v Hv. specialize (H3 v Hv). rewrite !andb_true_iff in H3. destruct H3 as [[H3 _] _].
    unfold copies. apply NoDup_keys_filter. apply nodupb_NoDup. exact H3.
  - exact L.
  - intros v Hv Hc. specialize (H3 v Hv). rewrite !andb_true_iff in H3. destruct H3 as [_ H3].
    rewrite Hc in H3. simpl in H3. exact H3.
Qed.

Lemma spec_conflicts_eq : forall c, Facts c -> spec_conflicts c = conflicts c.
Proof.
  intros c F.
  assert (P : forall v, In v (all_procs c) -> Nat.ltb 1 (length (copies v)) = p_conflicting v).
  { intros v Hv. rewrite (NoDup_same_length (copies v) (pv_running v) (f_copies_nodup c F v Hv)
                            (hyp_run c (f_hyp c F) v Hv)) by (intros x; symmetry; apply (f_listed c F v x Hv)).
    unfold p_conflicting. destruct (pv_running v) as [|a [|b r]]; reflexivity. }
  clear F. unfold spec_conflicts, conflicts. unfold all_procs in P. induction c as [|a r IH]; simpl; [reflexivity|].
  rewrite IH by (intros v Hv; apply P; simpl; apply in_app_iff; right; exact Hv).
  f_equal. destruct (av_managed a); [|reflexivity]. apply filter_ext_in. intros v Hv. apply P. simpl.
  apply in_app_iff. left. exact Hv.
Qed.

Lemma passed_conflicts : forall c, NoDup (map pv_id (all_procs c)) ->
  flat_map (fun p => match find_pv (all_procs c) p with Some v => [v] | None => [] end) (map pv_id (conflicts c))
  = conflicts c.
Proof.
  intros c Hn. assert (S : forall v, In v (conflicts c) -> In v (all_procs c)) by apply conflicts_sub.
  induction (conflicts c) as [|v r IH]; simpl; [reflexivity|].
  rewrite (find_pv_In _ v Hn (S v (or_introl eq_refl))). simpl. f_equal. apply IH. intros w Hw. apply S. right. exact Hw.
Qed.

Lemma run_case_regular : forall c s, Hyp c ->
  run_case c s (map pv_id (conflicts c)) =
  let '(calls, e, pl) := outcome c s in
  (conflicting c, map pv_id (conflicts c), calls, psort (pl_stops pl), zsort (pl_deferred pl), pl_direct pl, e).
Proof.
  intros c s H. unfold run_case, outcome. rewrite (passed_conflicts c (hyp_ids c H)).
  destruct (conciliate s (conflicts c)) as [calls e]. reflexivity.
Qed.

Lemma NoDup_map_pair : forall (p : Z) (l : list Z), NoDup l -> NoDup (map (fun j => (p, j)) l).
Proof.
  intros p l H. induction l as [|x r IH]; simpl; [constructor|]. inversion H as [|? ? Hx Hr]; subst.
  constructor; [|apply IH; exact Hr]. intros Hi. apply in_map_iff in Hi. destruct Hi as [j [Ej Hj]].
  inversion Ej; subst. contradiction.
Qed.

Lemma NoDup_pairs : forall (S : pview -> list Z) confl, NoDup (map pv_id confl) ->
  (forall v, In v confl -> NoDup (S v)) ->
  NoDup (flat_map (fun v => map (fun j => (pv_id v, j)) (S v)) confl).
Proof.
  intros S confl. induction confl as [|v r IH]; intros Hn Hs; simpl; [constructor|].
  simpl in Hn. inversion Hn as [|? ? Hv Hr]; subst. apply NoDup_app_iff. split; [|split].
  - apply NoDup_map_pair. apply Hs. left. reflexivity.
  - apply IH; [exact Hr|]. intros w Hw. apply Hs. right. exact Hw.
  - intros [p i] H1 H2. apply in_map_iff in H1. destruct H1 as [j [Ej _]]. inversion Ej; subst.
    apply In_pairs in H2. destruct H2 as [w [Hw [Ew _]]]. apply Hv. rewrite <- Ew. apply in_map. exact Hw.
Qed.

Lemma NoDup_stop_set : forall s v, NoDup (pv_running v) -> NoDup (stop_set s v).
Proof.
  intros s v H. unfold stop_set. destruct s.
  - destruct (kept false v); [apply NoDup_stop_cmds; exact H|constructor].
  - destruct (kept true v); [apply NoDup_stop_cmds; exact H|constructor].
  - constructor.
  - exact H.
  - destruct (pv_is_running v); [exact H|constructor].
  - exact H.
Qed.

Lemma stop_set_sub : forall s v i, In i (stop_set s v) -> In i (pv_running v).
Proof.
  intros s v i H. unfold stop_set in H. destruct s.
  - destruct (kept false v) as [k|]; [|destruct H]. unfold stop_cmds in H.
    destruct (zsort (zdiscard k (pv_running v))); [exact H|]. apply filter_In in H. tauto.
  - destruct (kept true v) as [k|]; [|destruct H]. unfold stop_cmds in H.
    destruct (zsort (zdiscard k (pv_running v))); [exact H|]. apply filter_In in H. tauto.
  - destruct H.
  - exact H.
  - destruct (pv_is_running v); [exact H|destruct H].
  - exact H.
Qed.

Lemma extremal_leb : forall a b, extremal false a b -> Z.leb a b = true.
Proof. intros a b H. apply Z.leb_le. exact H. Qed.
Lemma extremal_geb : forall a b, extremal true a b -> Z.geb a b = true.
Proof. intros a b H. apply Z.geb_le. exact H. Qed.

Lemma keeps_extremal_ok : forall dir (better : Z -> Z -> bool) v sp k,
  (forall a b, extremal dir a b -> better a b = true) ->
  (forall i, In i (pv_running v) <-> In i (copies v)) ->
  In k (pv_running v) ->
  (forall j, In j (pv_running v) -> extremal dir (uptime_of v k) (uptime_of v j)) ->
  (forall i, In i sp <-> In i (pv_running v) /\ i <> k) ->
  keeps_extremal better v sp = true.
Proof.
  intros dir better v sp k Hb Hl Hk Hext Hsp. unfold keeps_extremal. apply existsb_exists. exists k.
  split; [apply Hl; exact Hk|]. apply andb_true_iff. split.
  - apply forallb_forall. intros j Hj. apply Hb. apply Hext. apply Hl. exact Hj.
  - apply zset_eqb_iff. intros i. rewrite Hsp, cz_In_zdiscard, <- Hl. tauto.
Qed.

(* model |= spec: on every process table that satisfies H_c05 and for each of the six strategies, what the model
   does with context.conflicts() is accepted by the specification written from the property text *)
Theorem model_refines_spec : forall c s, H_c05 c = true ->
  spec_accepts c s (run_case c s (map pv_id (conflicts c))) = true.
Proof.
  intros c s HH. pose proof (H_c05_facts c HH) as F. pose proof (f_hyp c F) as H.
  rewrite (run_case_regular c s H). pose proof (stops_exactly_strategy c s H) as T.
  destruct (outcome c s) as [[calls e] pl] eqn:OE. rewrite (outcome_eq c s H) in OE.
  injection OE as Ecalls Ee Epl. symmetry in Ecalls, Epl. subst e.
  destruct T as [_ [Tin [Tper Tuser]]].
  unfold spec_accepts. cbv zeta. rewrite (spec_conflicts_eq c F).
  pose proof (NoDup_map_sub c (hyp_ids c H)) as Hnd.
  assert (Hrun : forall v, In v (conflicts c) -> pv_is_running v = true).
  { intros v Hv. apply (f_state c F v (conflicts_sub c v Hv)). apply In_conflicts in Hv.
    destruct Hv as [a [_ [_ [_ Hc]]]]. exact Hc. }
  assert (Estops : pl_stops pl = flat_map (fun v => map (fun i => (pv_id v, i)) (stop_set s v)) (conflicts c))
    by (rewrite Epl; reflexivity).
  assert (Edef : pl_deferred pl = match s with Restart => map pv_id (conflicts c) | _ => [] end).
  { rewrite Epl. cbn [pl_deferred]. destruct s; try apply flat_map_nil.
    apply (flat_map_singleton_if (conflicts c) Hrun). }
  assert (Edir : pl_direct pl = []).
  { rewrite Epl. cbn [pl_direct]. destruct s; try apply flat_map_nil.
    apply (flat_map_singleton_if (conflicts c) Hrun). }
  assert (Efail : flat_map (fun x => match x with CAddDefault p => [p] | _ => [] end) calls
                  = match s with RunningFailure => map pv_id (conflicts c) | _ => [] end).
  { change (flat_map call_failure calls = match s with RunningFailure => map pv_id (conflicts c) | _ => [] end).
    pose proof (plan_of_spec (all_procs c) calls) as P.
    assert (pl_failure pl = flat_map call_failure calls).
    { rewrite Ecalls. rewrite Epl. cbn [pl_failure]. rewrite flat_map_app.
      destruct (tail_nothing (all_procs c) s) as [_ [_ [_ T4]]]. rewrite T4, app_nil_r, flat_map_flat_map.
      apply flat_map_ext_In. intros v _. symmetry. apply gcalls_failure. }
    rewrite <- H0. rewrite Epl. cbn [pl_failure]. destruct s; try apply flat_map_nil. apply flat_map_singleton. }
  rewrite Efail, Edef, Edir, app_nil_r.
  assert (Hstarts : forall l, NoDup l -> nodupb (zsort l) = true).
  { intros l Hl. apply nodupb_NoDup, cz_NoDup_zsort. exact Hl. }
  repeat (apply andb_true_iff; split).
  - reflexivity.
  - apply Bool.eqb_true_iff. destruct (conflicts c) eqn:Ec.
    + destruct (conflicting c) eqn:E; [|reflexivity]. apply conflicting_conflicts in E. rewrite Ec in E. contradiction.
    + apply conflicting_conflicts. rewrite Ec. discriminate.
  - apply forallb_forall. intros x Hx. apply cz_zmem_In. exact Hx.
  - apply forallb_forall. intros x Hx. apply cz_zmem_In. exact Hx.
  - apply nodupb_NoDup. exact Hnd.
  - apply pnodupb_NoDup, NoDup_psort. rewrite Estops. apply NoDup_pairs; [exact Hnd|].
    intros v Hv. apply NoDup_stop_set. apply (hyp_run c H v (conflicts_sub c v Hv)).
  - destruct s; try reflexivity. apply Hstarts. exact Hnd.
  - destruct s; try reflexivity. apply nodupb_NoDup. exact Hnd.
  - apply forallb_forall. intros [p i] Hi. rewrite psort_In in Hi. destruct (Tin p i Hi) as [v [Hv [Ep [Hr _]]]].
    apply existsb_exists. exists v. split; [exact Hv|]. simpl. rewrite Ep, Z.eqb_refl. simpl.
    apply cz_zmem_In. apply (f_listed c F v i (conflicts_sub c v Hv)). exact Hr.
  - apply forallb_forall. intros v Hv. pose proof (Tper v Hv) as Tv.
    pose proof (f_listed c F v) as Hl. specialize (fun i => Hl i (conflicts_sub c v Hv)).
    assert (Hsp : forall i, In i (stops_of (psort (pl_stops pl)) (pv_id v)) <-> In (pv_id v, i) (pl_stops pl)).
    { intros i. rewrite In_stops_of, psort_In. reflexivity. }
    destruct s; cbv beta zeta.
    + destruct Tv as [k [Hk [Hext Hset]]].
      apply (keeps_extremal_ok false Z.leb v _ k extremal_leb Hl Hk Hext). intros i. rewrite Hsp. apply Hset.
    + destruct Tv as [k [Hk [Hext Hset]]].
      apply (keeps_extremal_ok true Z.geb v _ k extremal_geb Hl Hk Hext). intros i. rewrite Hsp. apply Hset.
    + destruct (stops_of (psort (pl_stops pl)) (pv_id v)) as [|x r] eqn:Es; [reflexivity|]. exfalso.
      apply (Tv x). apply Hsp. rewrite ?Es. left. reflexivity.
    + apply zset_eqb_iff. intros i. rewrite Hsp, Tv. apply Hl.
    + apply zset_eqb_iff. intros i. rewrite Hsp, (Tv (Hrun v Hv)). apply Hl.
    + apply zset_eqb_iff. intros i. rewrite Hsp, Tv. apply Hl.
  - destruct s; try reflexivity. apply forallb_forall. intros x Hx. apply cz_zmem_In. rewrite cz_zsort_In in Hx. exact Hx.
  - destruct s; try reflexivity. apply forallb_forall. intros x Hx. apply cz_zmem_In. rewrite cz_zsort_In. exact Hx.
  - destruct s; try reflexivity. apply forallb_forall. intros x Hx. apply cz_zmem_In. exact Hx.
  - destruct s; try reflexivity. apply forallb_forall. intros x Hx. apply cz_zmem_In. exact Hx.
  - destruct s; try reflexivity. apply orb_true_iff. left. rewrite Ecalls, existsb_app. apply orb_true_iff.
    right. reflexivity.
Qed.

(* ====================================================================== *)
(* 10. the acknowledgements, on the C11 model of ProcessStatus              *)
(* ====================================================================== *)
(* a STOPPED event from instance i removes i from running_identifiers, and nothing else *)
Lemma stopped_event_discards : forall p i e nm now ext p',
  ProcStatus.update_info p i ProcStatus.STOPPED e nm now ext = Ok p' ->
  ProcStatus.p_running p' = zdiscard i (ProcStatus.p_running p).
Proof.
  intros p i e nm now ext p' H. unfold ProcStatus.update_info in H.
  destruct (aget i (ProcStatus.p_infos p)) as [old|]; [|discriminate].
  rewrite ProcStatusProofs.reset_set_eq in H. apply ProcStatusProofs.update_status_frame in H.
  destruct H as [_ [H _]]. rewrite H. simpl. unfold ProcStatusProofs.new_run.
  rewrite (ProcStatusProofs.is_stopped_spec ProcStatus.STOPPED). reflexivity.
Qed.

Fixpoint stop_events (p : ProcStatus.proc) (stops : list Z) (now : Z) : result ProcStatus.proc :=
  match stops with
  | [] => Ok p
  | i :: r => bind (ProcStatus.update_info p i ProcStatus.STOPPED true 0 now true) (fun p' => stop_events p' r now)
  end.

(* `ack` is what the real status synthesis does with the STOPPED events of the requested stops *)
Lemma stop_events_ack : forall stops p now p', stop_events p stops now = Ok p' ->
  ProcStatus.p_running p' = ack (ProcStatus.p_running p) stops.
Proof.
  intros stops. induction stops as [|i r IH]; intros p now p' H; simpl in H.
  - inversion H; subst. reflexivity.
  - destruct (ProcStatus.update_info p i ProcStatus.STOPPED true 0 now true) as [p1|k] eqn:E; [|discriminate].
    simpl in H. rewrite (IH p1 now p' H). rewrite (stopped_event_discards _ _ _ _ _ _ _ E). reflexivity.
Qed.

(* ====================================================================== *)
(* 11. a copy that is STOPPING is still listed: the code's conflict is not the property's *)
(* ====================================================================== *)
(* process 10 of a managed application: RUNNING on instance 1 for 100 s, the copy on instance 2 (10 s) is being
   stopped outside Supvisors and is still in running_identifiers *)
Definition stopping_witness : cctx :=
  [mkAv true [mkPv 10 [1; 2] [(1, (gen_code_RUNNING, 100)); (2, (gen_code_STOPPING, 10))] true]].

Lemma stopping_copy_refuted :
  wf_ctx stopping_witness = true /\ has_stopping_listed stopping_witness = true
  /\ spec_conflicts stopping_witness = []                       (* the property sees no conflict ... *)
  /\ conflicting stopping_witness = true                         (* ... the code does *)
  /\ (let '(_, _, _, stops, _, _, _) := run_case stopping_witness Senicide (map pv_id (conflicts stopping_witness))
      in stops = [(10, 1)])                                      (* SENICIDE stops the only RUNNING copy *)
  /\ spec_accepts stopping_witness Senicide
       (run_case stopping_witness Senicide (map pv_id (conflicts stopping_witness))) = false.
Proof. vm_compute. repeat split; reflexivity. Qed.

Lemma model_refines_spec_needs_H :
  exists c s, wf_ctx c = true /\ spec_accepts c s (run_case c s (map pv_id (conflicts c))) = false.
Proof. exists stopping_witness, Senicide. vm_compute. split; reflexivity. Qed.

(* H_c05 excludes that class *)
Lemma H_c05_no_stopping : forall c, H_c05 c = true -> has_stopping_listed c = false.
Proof.
  intros c HH. pose proof (H_c05_facts c HH) as F. destruct (has_stopping_listed c) eqn:E; [|reflexivity].
  exfalso. unfold has_stopping_listed in E. apply existsb_exists in E. destruct E as [v [Hv E]].
  apply existsb_exists in E. destruct E as [i [Hi E]].
  pose proof Hi as Hc. apply (f_listed c F v i Hv) in Hc. unfold copies in Hc. apply in_map_iff in Hc.
  destruct Hc as [[k su] [Ek Hk]]. simpl in Ek. subst k. apply filter_In in Hk. destruct Hk as [Hk Hr]. simpl in Hr.
  assert (Hnd : NoDup (akeys (pv_info v))).
  { unfold H_c05 in HH. rewrite !andb_true_iff in HH. destruct HH as [_ HH]. rewrite forallb_forall in HH.
    specialize (HH v Hv). rewrite !andb_true_iff in HH. destruct HH as [[HH _] _]. apply nodupb_NoDup. exact HH. }
  assert (Ea : aget i (pv_info v) = Some su).
  { clear - Hk Hnd. unfold akeys in Hnd. induction (pv_info v) as [|[k w] r IH]; [destruct Hk|]. simpl in *.
    inversion Hnd as [|? ? Hx Hr]; subst. destruct Hk as [Hk|Hk].
    - inversion Hk; subst. rewrite Z.eqb_refl. reflexivity.
    - destruct (Z.eqb i k) eqn:E; [|apply IH; assumption]. apply Z.eqb_eq in E. subst k. exfalso. apply Hx.
      apply in_map_iff. exists (i, su). auto. }
  rewrite Ea, Hr in E. discriminate.
Qed.

(* ====================================================================== *)
(* 12. the hypotheses are satisfiable                                        *)
(* ====================================================================== *)
(* application 1 (managed): process 10 on instances 3 (uptime 50), 1 (uptime 7), 2 (uptime 7: a tie);
   process 11 on instance 4 only. application 2 (unmanaged): process 20 duplicated on 1 and 2. *)
Definition demo_ctx : cctx :=
  [mkAv true [mkPv 10 [3; 1; 2] [(1, (gen_code_RUNNING, 7)); (2, (gen_code_RUNNING, 7)); (3, (gen_code_RUNNING, 50));
                                 (5, (gen_code_STOPPED, 0))] true;
              mkPv 11 [4] [(4, (gen_code_RUNNING, 30))] true];
   mkAv false [mkPv 20 [1; 2] [(1, (gen_code_RUNNING, 5)); (2, (gen_code_STARTING, 0))] true]].

Example demo_H : H_c05 demo_ctx = true.
Proof. vm_compute. reflexivity. Qed.

Example demo_conflicts : map pv_id (conflicts demo_ctx) = [10] /\ conflicting demo_ctx = true.
Proof. vm_compute. split; reflexivity. Qed.

(* SENICIDE keeps the FIRST copy of minimal uptime in the iteration order of the set (instance 1) *)
Example demo_senicide :
  run_case demo_ctx Senicide [10] =
  (true, [10], [CStop 10 (Some [2; 3]); CStopperNext], [(10, 2); (10, 3)], [], [], None).
Proof. vm_compute. reflexivity. Qed.

Example demo_infanticide :
  run_case demo_ctx Infanticide [10] =
  (true, [10], [CStop 10 (Some [1; 2]); CStopperNext], [(10, 1); (10, 2)], [], [], None).
Proof. vm_compute. reflexivity. Qed.

Example demo_restart :
  run_case demo_ctx Restart [10] =
  (true, [10], [CRestart 10; CStopperNext], [(10, 1); (10, 2); (10, 3)], [10], [], None).
Proof. vm_compute. reflexivity. Qed.

Example demo_cleared :
  conflicting (apply_acks [(10, 2); (10, 3)] demo_ctx) = false.
Proof. vm_compute. reflexivity. Qed.

(* robustness note (hostile stream): handed a process with ONE running copy, SENICIDE stops that copy
   (an empty identifier set means "everywhere" to Stopper.stop_process); with none it raises ValueError.
   ConciliationState only passes context.conflicts(), where this cannot happen (conflicts_fit). *)
Example demo_single_copy :
  run_case demo_ctx Senicide [11] = (true, [10], [CStop 11 (Some []); CStopperNext], [(11, 4)], [], [], None).
Proof. vm_compute. reflexivity. Qed.
