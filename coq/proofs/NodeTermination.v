(* NodeTermination.v — POSITIVE termination of FiniteStateMachine.set_state (the `while` loop of statemachine.py,
   made explicit with fuel in model/Node.v): under consistent options the loop takes at most 9 transitions, so
   `set_state loop_fuel` / `fsm_run` / `step` never return Crash OutOfFuel.

   Shape of the argument.
   * After the first evaluation of instance.next() inside the loop no instance is FAILED any more; after the first
     evaluation in a state other than DISTRIBUTION none is CHECKED either (DISTRIBUTION does not activate): the node is
     `quiet` from the third evaluation on at the latest, and `check_instances` is then the identity.
   * On a quiet node one evaluation changes neither the instance statuses, nor the views of the other instances, nor
     (except accept_master in SYNCHRONIZATION with the USER option, and select_master in ELECTION, which returns
     ELECTION = the current state and so ENDS the loop) the Master. The decision is then a function of the FSM state,
     of constant facts (local instance RUNNING, decision of the failure strategy on the stable identifiers, Master
     checked, local instance Master / state of the Master) and of the oracle: `fsm_next_settled`.
   * A rank on (constant facts, state to enter) strictly decreases at every transition: `settled_step`; it is at
     most 7; the two possibly unquiet evaluations add 2.
   Hypotheses: WF (NodeFsmProofs), `loop_coherent` (implied by `opts_consistent`), and a constant `or_conflict`
   along the oracle list (implied by `oracles_constant`): OPERATION <-> CONCILIATION alternate as long as the
   conflict oracle alternates (`alternating_conflicts_exhaust_fuel`). *)
From Sup Require Import Base GenEnums GenNode Node NodeSpec NodeFsmProofs ClusterProofs.
From Coq Require Import List ZArith Bool Lia.
Import ListNotations.
Open Scope Z_scope.

(* ====================================================================== *)
(* 1. The loop, one transition at a time                                   *)
(* ====================================================================== *)
(* the state the loop enters next, if it goes on *)
Definition contS (s : sstate) (d : option sstate) : option sstate :=
  match d with
  | None => None
  | Some ns => if sstate_eqb ns s then None else if fsm_transition_ok s ns then Some ns else None
  end.
Definition cont (n : node) (d : option sstate) : option sstate := contS (fsm_state n) d.

(* enter ns, then evaluate instance.next() there *)
Definition loop_step (n : node) (ns : sstate) (orc : oracle) (now : Z) : eval :=
  fsm_next (fst (enter_state (fst (set_fsm n ns)) ns now)) orc now.

Lemma set_state_stop : forall fuel n d orcs now acc, cont n d = None -> set_state fuel n d orcs now acc = Ok (n, acc).
Proof.
  intros fuel n d orcs now acc H. unfold cont, contS in H.
  destruct fuel; simpl; (destruct d as [ns|]; [|reflexivity]);
    (destruct (sstate_eqb ns (fsm_state n)); [reflexivity|]);
    (destruct (fsm_transition_ok (fsm_state n) ns); [discriminate|reflexivity]).
Qed.

Lemma cont_some : forall n d ns, cont n d = Some ns ->
  d = Some ns /\ sstate_eqb ns (fsm_state n) = false /\ fsm_transition_ok (fsm_state n) ns = true.
Proof.
  intros n d ns H. unfold cont, contS in H. destruct d as [x|]; [|discriminate].
  destruct (sstate_eqb x (fsm_state n)) eqn:E1; [discriminate|].
  destruct (fsm_transition_ok (fsm_state n) x) eqn:E2; [|discriminate].
  inversion H; subst. repeat split; assumption.
Qed.

Lemma set_state_zero : forall n d ns orcs now acc, cont n d = Some ns -> set_state 0 n d orcs now acc = Crash OutOfFuel.
Proof.
  intros n d ns orcs now acc H. apply cont_some in H. destruct H as [Ed [E1 E2]]. subst d.
  simpl. rewrite E1, E2. reflexivity.
Qed.

Lemma set_state_go : forall fuel n d ns orcs now acc, cont n d = Some ns ->
  set_state (S fuel) n d orcs now acc =
  match loop_step n ns (fst (next_orcs orcs)) now with
  | Crash k => Crash k
  | Ok (n3, o3, d3) =>
      set_state fuel n3 d3 (snd (next_orcs orcs)) now
                (acc ++ exit_outputs (fsm_state n) ++ snd (set_fsm n ns)
                     ++ snd (enter_state (fst (set_fsm n ns)) ns now) ++ o3)
  end.
Proof.
  intros fuel n d ns orcs now acc H. apply cont_some in H. destruct H as [Ed [E1 E2]]. subst d.
  unfold loop_step. cbn [set_state]. rewrite E1, E2. simpl negb. cbv beta iota.
  destruct (set_fsm n ns) as [n1 o1]. simpl fst. simpl snd.
  destruct (enter_state n1 ns now) as [n2 o2]. destruct (next_orcs orcs) as [orc rest]. reflexivity.
Qed.

(* once the loop has ended within some fuel, more fuel changes nothing *)
Lemma set_state_fuel_mono : forall f n d orcs now acc r, set_state f n d orcs now acc = r -> r <> Crash OutOfFuel ->
  forall f', (f <= f')%nat -> set_state f' n d orcs now acc = r.
Proof.
  induction f as [|f IH]; intros n d orcs now acc r H Hr f' Hle.
  - destruct (cont n d) as [ns|] eqn:Ec.
    + rewrite (set_state_zero _ _ _ _ _ _ Ec) in H. congruence.
    + rewrite set_state_stop in H by exact Ec. rewrite set_state_stop by exact Ec. exact H.
  - destruct (cont n d) as [ns|] eqn:Ec.
    + destruct f' as [|f']; [lia|]. rewrite (set_state_go _ _ _ _ _ _ _ Ec) in H. rewrite (set_state_go _ _ _ _ _ _ _ Ec).
      destruct (loop_step n ns (fst (next_orcs orcs)) now) as [[[n3 o3] d3]|k]; [|exact H].
      eapply IH; [exact H|exact Hr|lia].
    + rewrite set_state_stop in H by exact Ec. rewrite set_state_stop by exact Ec. exact H.
Qed.

(* a ranked relation on (node, state to enter) that decreases at every transition bounds the loop *)
Section Ranked.
  Variable R : node -> sstate -> nat -> Prop.
  Variable okorc : oracle -> Prop.
  Hypothesis R_pos : forall n ns k, R n ns k -> (1 <= k)%nat.
  Hypothesis R_eval : forall n ns k orc now, R n ns k -> cont n (Some ns) = Some ns ->
    loop_step n ns orc now <> Crash OutOfFuel.
  Hypothesis R_step : forall n ns k orc now n3 o3 d3 ns', R n ns k -> okorc orc -> cont n (Some ns) = Some ns ->
    loop_step n ns orc now = Ok (n3, o3, d3) -> cont n3 d3 = Some ns' -> exists k', (k' < k)%nat /\ R n3 ns' k'.

  Fixpoint okorcs (fuel : nat) (orcs : list oracle) : Prop :=
    match fuel with
    | O => True
    | S f => okorc (fst (next_orcs orcs)) /\ okorcs f (snd (next_orcs orcs))
    end.

  Lemma ranked_terminates : forall fuel n d orcs now acc,
    (forall ns, cont n d = Some ns -> exists k, (k <= fuel)%nat /\ R n ns k) -> okorcs fuel orcs ->
    set_state fuel n d orcs now acc <> Crash OutOfFuel.
  Proof.
    induction fuel as [|fuel IH]; intros n d orcs now acc HR Ho.
    - destruct (cont n d) as [ns|] eqn:Ec.
      + destruct (HR ns eq_refl) as [k [Hk Rk]]. apply R_pos in Rk. lia.
      + rewrite set_state_stop by exact Ec. discriminate.
    - destruct (cont n d) as [ns|] eqn:Ec.
      + rewrite (set_state_go _ _ _ _ _ _ _ Ec). destruct Ho as [Ho1 Ho2].
        destruct (HR ns eq_refl) as [k [Hk Rk]].
        assert (Ec' : cont n (Some ns) = Some ns) by (destruct (cont_some _ _ _ Ec) as [Ed _]; rewrite Ed in Ec; exact Ec).
        destruct (loop_step n ns (fst (next_orcs orcs)) now) as [[[n3 o3] d3]|kk] eqn:E3.
        * apply IH; [|exact Ho2]. intros ns' Ec3.
          destruct (R_step _ _ _ _ _ _ _ _ _ Rk Ho1 Ec' E3 Ec3) as [k' [Hlt Rk']]. exists k'. split; [lia|exact Rk'].
        * intro X. inversion X as [Ek]. subst kk. exact (R_eval _ _ _ _ _ Rk Ec' E3).
      + rewrite set_state_stop by exact Ec. discriminate.
  Qed.
End Ranked.

(* ====================================================================== *)
(* 2. After an evaluation: nothing left to invalidate / to activate        *)
(* ====================================================================== *)
Definition NoChecked (n : node) : Prop := forall j s, aget j (n_insts n) = Some s -> is_state s <> CHECKED.

Lemma quiet_iff : forall n, quiet n <-> NoFailed n /\ NoChecked n.
Proof.
  intros n. split.
  - intros Q. split; intros j s Hj E; destruct (Q j) as [A B]; unfold inst_state in A, B; rewrite Hj in A, B;
      [apply A|apply B]; rewrite E; reflexivity.
  - intros [F C] j. unfold inst_state. destruct (aget j (n_insts n)) as [s|] eqn:E; [|split; discriminate].
    split; intro X; inversion X as [X1]; [eapply F|eapply C]; eassumption.
Qed.

Lemma quiet_insts : forall n n', n_insts n' = n_insts n -> quiet n -> quiet n'.
Proof. intros n n' E Q j. unfold inst_state. rewrite E. apply Q. Qed.

Lemma activate_checked_aux_NoChecked : forall ids n acc act now n' outs act',
  activate_checked_aux ids n acc act now = Ok (n', outs, act') ->
  (forall k s, aget k (n_insts n) = Some s -> is_state s = CHECKED -> In k ids) -> NoChecked n'.
Proof.
  induction ids as [|j r IH]; simpl; intros n acc act now n' outs act' H Hin.
  - inversion H; subst. intros k s Hk Hc. eapply Hin; eassumption.
  - unfold inst_state in H. destruct (aget j (n_insts n)) as [sj|] eqn:Ej.
    + destruct (is_state sj) eqn:Esj;
        try (eapply IH; [exact H|]; intros k s Hk Hc; destruct (Hin k s Hk Hc) as [X|X]; [subst; congruence|exact X]).
      destruct (set_inst_state n j IRUNNING now) as [[n1 o1]|kk] eqn:E; [|discriminate].
      eapply IH; [exact H|]. intros k s Hk Hc.
      destruct (Z.eq_dec k j) as [->|Hne].
      * exfalso. rewrite (set_inst_state_insts_self _ _ _ _ _ _ E s Hk) in Hc. discriminate.
      * rewrite (set_inst_state_insts_other _ _ _ _ _ _ E k Hne) in Hk.
        destruct (Hin k s Hk Hc) as [X|X]; [congruence|exact X].
    + eapply IH; [exact H|]. intros k s Hk Hc. destruct (Hin k s Hk Hc) as [X|X]; [subst; congruence|exact X].
Qed.

(* every state but DISTRIBUTION activates the CHECKED instances *)
Lemma check_instances_settles : forall n now n' o lost lostp d,
  check_instances n now = Ok (n', o, lost, lostp, d) -> act_of (fsm_state n) <> ActNone -> quiet n'.
Proof.
  intros n now n' o lost lostp d H Ha. apply quiet_iff. unfold check_instances in H.
  destruct (invalidate_failed n now) as [[[[n1 o1] l1] lp1]|k] eqn:E1; [|discriminate].
  assert (N1 := invalidate_failed_NoFailed _ _ _ _ _ _ E1).
  unfold activate_checked in H.
  destruct (act_of (fsm_state n)); [| |contradiction].
  - destruct (activate_checked_aux _ _ _ _ _) as [[[n2 o2] act]|k] eqn:E2; [|discriminate].
    inversion H; subst. split.
    + apply (activate_checked_aux_V _ _ _ _ _ _ _ _ E2). exact N1.
    + eapply activate_checked_aux_NoChecked; [exact E2|]. intros k s Hk _. eapply aget_In_keys. exact Hk.
  - destruct (activate_checked_aux _ _ _ _ _) as [[[n2 o2] act]|k] eqn:E2; [|discriminate].
    inversion H; subst. split.
    + apply (activate_checked_aux_V _ _ _ _ _ _ _ _ E2). exact N1.
    + eapply activate_checked_aux_NoChecked; [exact E2|]. intros k s Hk _. eapply aget_In_keys. exact Hk.
Qed.

(* past check_instances, an evaluation does not touch the instance statuses *)
Lemma fsm_next_insts : forall n orc now n' o d, fsm_next n orc now = Ok (n', o, d) ->
  exists n1 o1 lost lostp d1, check_instances n now = Ok (n1, o1, lost, lostp, d1) /\ n_insts n' = n_insts n1.
Proof.
  intros n orc now n' o d H. unfold fsm_next in H.
  destruct (check_instances n now) as [[[[[n1 o1] lost] lostp] d1]|k] eqn:E1; [|discriminate].
  exists n1, o1, lost, lostp, d1. split; [reflexivity|].
  destruct d1 as [d1|]; [inversion H; reflexivity|].
  destruct (evaluate_stability n1) as [n2|k] eqn:E2; [|discriminate].
  apply NodeFsmProofs.evaluate_stability_shape in E2. destruct E2 as [s En2].
  assert (I2 : n_insts n2 = n_insts n1) by (subst n2; reflexivity). clear En2.
  assert (MS : forall (P : node * list output * option sstate -> result (node * list output * option sstate)),
             (forall x, P x = Crash OutOfFuel \/ (exists k, P x = Crash k) \/ exists oo dd, P x = Ok (fst (fst x), oo, dd)) ->
             match ms_consistence n2 lost with Crash k => Crash k | Ok x => P x end = Ok (n', o, d) ->
             n_insts n' = n_insts n1).
  { intros P HP HH. destruct (ms_consistence n2 lost) as [[[n3 o3] d3]|k] eqn:E3; [|discriminate].
    apply ms_consistence_V in E3. destruct E3 as [_ [I3 _]].
    destruct (HP (n3, o3, d3)) as [X|[[k X]|[oo [dd X]]]]; rewrite X in HH; try discriminate.
    inversion HH; subst. simpl. congruence. }
  destruct (fsm_state n) eqn:Est.
  - inversion H; subst. exact I2.
  - (* SYNCHRONIZATION *)
    destruct (on_consistence n2) as [x|]; [inversion H; subst; exact I2|].
    match type of H with match ?u with _ => _ end = _ => destruct u as [[[n3 o3] us]|k] eqn:E3; [|discriminate] end.
    assert (I3 : n_insts n3 = n_insts n2).
    { destruct (o_user (n_opts n2)); [|inversion E3; reflexivity].
      destruct (accept_master n2 (or_pick orc)) as [[n3' o3']|k] eqn:E4; [|discriminate].
      assert (I4 := accept_master_insts _ _ _ _ E4).
      destruct (master n3' =? 0); [inversion E3; subst; exact I4|].
      destruct (inst_state n3' (master n3')); inversion E3; subst; exact I4. }
    match type of H with (let '(_, _) := set_degraded n3 ?b in _) = _ =>
      assert (X := set_degraded_V n3 b); destruct (set_degraded n3 b) as [n4 o4] end.
    simpl in X. destruct X as [_ X]. inversion H; subst. congruence.
  - (* ELECTION *)
    destruct (sync_consistence n2 lost) as [[n3 o3] d3] eqn:E3. apply sync_consistence_V in E3.
    destruct E3 as [_ [I3 _]].
    assert (SMb : forall oa ob, bind (select_master n3) (fun r => Ok (fst r, oa ++ ob ++ snd r, Some ELECTION)) = Ok (n', o, d) ->
                  n_insts n' = n_insts n1).
    { intros oa ob Hb. destruct (select_master n3) as [[n4 o4]|k] eqn:E4; [|discriminate]. simpl in Hb. inversion Hb; subst.
      rewrite (select_master_insts _ _ _ E4). congruence. }
    destruct d3 as [x|]; [inversion H; subst; congruence|].
    destruct (is_stable n3); [|inversion H; subst; congruence].
    destruct (check_master n3) as [[|]|k]; [| |discriminate].
    + destruct (is_master n3); [inversion H; subst; congruence|].
      destruct (master_state n3) as [[]|];
        first [apply (SMb o1 o3); exact H | inversion H; subst; congruence].
    + apply (SMb o1 o3); exact H.
  - (* DISTRIBUTION *)
    eapply MS; [|exact H]. intros [[n3 o3] d3]. right. right. simpl.
    destruct d3; [eexists; eexists; reflexivity|]. destruct (is_master n3); eexists; eexists; reflexivity.
  - (* OPERATION *)
    eapply MS; [|exact H]. intros [[n3 o3] d3]. right. right. simpl.
    destruct d3; [eexists; eexists; reflexivity|]. destruct (is_master n3); eexists; eexists; reflexivity.
  - (* CONCILIATION *)
    eapply MS; [|exact H]. intros [[n3 o3] d3]. right. right. simpl.
    destruct d3; [eexists; eexists; reflexivity|]. destruct (is_master n3); [|eexists; eexists; reflexivity].
    destruct (or_starting orc || or_stopping orc); [eexists; eexists; reflexivity|].
    destruct (negb (or_conflict orc)); eexists; eexists; reflexivity.
  - (* RESTARTING *)
    eapply MS; [|exact H]. intros [[n3 o3] d3]. right. right. simpl.
    destruct d3; [eexists; eexists; reflexivity|]. destruct (is_master n3); eexists; eexists; reflexivity.
  - (* SHUTTING_DOWN *)
    eapply MS; [|exact H]. intros [[n3 o3] d3]. right. right. simpl.
    destruct d3; [eexists; eexists; reflexivity|]. destruct (is_master n3); eexists; eexists; reflexivity.
  - inversion H; subst. exact I2.
Qed.

(* after an evaluation in a state other than DISTRIBUTION the node is quiet; after any evaluation nothing is FAILED *)
Lemma fsm_next_quiet : forall n orc now n' o d, fsm_next n orc now = Ok (n', o, d) ->
  fsm_state n <> DISTRIBUTION -> quiet n'.
Proof.
  intros n orc now n' o d H Hs. apply fsm_next_insts in H. destruct H as [n1 [o1 [lost [lostp [d1 [E1 I]]]]]].
  eapply quiet_insts; [exact I|]. eapply check_instances_settles; [exact E1|].
  destruct (fsm_state n); simpl; try discriminate. congruence.
Qed.

(* ====================================================================== *)
(* 3. What a quiet evaluation leaves unchanged                             *)
(* ====================================================================== *)
(* keep: everything but the own (fsm, degraded, master) and the stable set / mark / start date *)
Record keep (n n' : node) : Prop := mkKeep {
  k_me : n_me n' = n_me n;
  k_opts : n_opts n' = n_opts n;
  k_core : n_core n' = n_core n;
  k_initial : n_initial n' = n_initial n;
  k_insts : n_insts n' = n_insts n;
  k_wf : own_wf n';
  k_oi : sm_insts (own n') = sm_insts (own n);
  k_vi : vmap sm_insts (n_views n') = vmap sm_insts (n_views n);
  k_oth : forall k, k <> n_me n -> aget k (n_views n') = aget k (n_views n)
}.
(* keepm: moreover the same Master *)
Record keepm (n n' : node) : Prop := mkKeepm {
  km_keep : keep n n';
  km_master : master n' = master n;
  km_vm : vmap sm_master (n_views n') = vmap sm_master (n_views n)
}.

Lemma keep_refl : forall n, own_wf n -> keep n n.
Proof. intros n H. constructor; auto. Qed.
Lemma keepm_refl : forall n, own_wf n -> keepm n n.
Proof. intros n H. constructor; auto. apply keep_refl. exact H. Qed.
Lemma keep_trans : forall a b c, keep a b -> keep b c -> keep a c.
Proof.
  intros a b c [] []. constructor; try congruence.
  intros k Hk. rewrite k_oth1; [apply k_oth0; exact Hk|congruence].
Qed.
Lemma keepm_trans : forall a b c, keepm a b -> keepm b c -> keepm a c.
Proof. intros a b c [K1 M1 V1] [K2 M2 V2]. constructor; [eapply keep_trans; eassumption|congruence|congruence]. Qed.

Lemma WF_own_wf : forall n, WF n -> own_wf n.
Proof. intros n W. apply own_wf_b_sound. unfold own_wf_b. apply WF_me_views. exact W. Qed.

Lemma keep_set_own : forall n s, own_wf n -> sm_insts s = sm_insts (own n) -> keep n (set_own n s).
Proof.
  intros n s Hwf Hi. constructor; try reflexivity.
  - unfold own_wf. rewrite ClusterProofs.own_set_own. simpl. apply aget_aset_eq.
  - rewrite ClusterProofs.own_set_own. exact Hi.
  - simpl. rewrite aset_vmap. apply aset_same. rewrite aget_vmap, Hwf. simpl. f_equal. symmetry. exact Hi.
  - intros k Hk. simpl. apply aget_aset_neq. exact Hk.
Qed.

Lemma keepm_set_own : forall n s, own_wf n -> sm_insts s = sm_insts (own n) -> sm_master s = master n ->
  keepm n (set_own n s).
Proof.
  intros n s Hwf Hi Hm. constructor.
  - apply keep_set_own; assumption.
  - unfold master. rewrite ClusterProofs.own_set_own. exact Hm.
  - simpl. rewrite aset_vmap. apply aset_same. rewrite aget_vmap, Hwf. simpl. f_equal. symmetry. exact Hm.
Qed.

(* changes outside the views and the instance statuses *)
Lemma keepm_silent : forall n n', own_wf n -> n_me n' = n_me n -> n_opts n' = n_opts n -> n_core n' = n_core n ->
  n_initial n' = n_initial n -> n_insts n' = n_insts n -> n_views n' = n_views n -> keepm n n'.
Proof.
  intros n n' Hwf E1 E2 E3 E4 E5 E6.
  assert (Eo : own n' = own n) by (unfold own; rewrite E1, E6; reflexivity).
  constructor; [constructor; try assumption| |].
  - unfold own_wf. rewrite Eo, E1, E6. exact Hwf.
  - rewrite Eo. reflexivity.
  - rewrite E6. reflexivity.
  - intros k _. rewrite E6. reflexivity.
  - unfold master. rewrite Eo. reflexivity.
  - rewrite E6. reflexivity.
Qed.

Lemma set_degraded_keepm : forall n b, own_wf n ->
  keepm n (fst (set_degraded n b)) /\ fsm_state (fst (set_degraded n b)) = fsm_state n
  /\ n_stable (fst (set_degraded n b)) = n_stable n.
Proof.
  intros n b Hwf. unfold set_degraded. destruct (Bool.eqb (sm_degraded (own n)) b); simpl.
  - split; [apply keepm_refl; exact Hwf|split; reflexivity].
  - split; [apply keepm_set_own; [exact Hwf|reflexivity|reflexivity]|].
    split; [unfold fsm_state; rewrite ClusterProofs.own_set_own; reflexivity|reflexivity].
Qed.

Lemma set_fsm_keepm : forall n st, own_wf n ->
  keepm n (fst (set_fsm n st)) /\ fsm_state (fst (set_fsm n st)) = st.
Proof.
  intros n st Hwf. unfold set_fsm. destruct (sstate_eqb (fsm_state n) st) eqn:E; simpl.
  - split; [apply keepm_refl; exact Hwf|]. apply NodeFsmProofs.sstate_eqb_eq. exact E.
  - split; [apply keepm_set_own; [exact Hwf|reflexivity|reflexivity]|].
    unfold fsm_state. rewrite ClusterProofs.own_set_own. reflexivity.
Qed.

Lemma set_master_keep : forall n m, own_wf n ->
  keep n (fst (set_master n m)) /\ fsm_state (fst (set_master n m)) = fsm_state n.
Proof.
  intros n m Hwf. unfold set_master. destruct (Z.eqb (master n) m); simpl.
  - split; [apply keep_refl; exact Hwf|reflexivity].
  - split; [apply keep_set_own; [exact Hwf|reflexivity]|].
    unfold fsm_state. rewrite ClusterProofs.own_set_own. reflexivity.
Qed.

Lemma enter_state_keepm : forall n st now, own_wf n ->
  keepm n (fst (enter_state n st now)) /\ fsm_state (fst (enter_state n st now)) = fsm_state n.
Proof.
  intros n st now Hwf. destruct st; simpl; try (split; [apply keepm_refl; exact Hwf|reflexivity]).
  split; [apply keepm_silent; try reflexivity; exact Hwf|reflexivity].
Qed.

Lemma accept_master_shape : forall n p n' o, accept_master n p = Ok (n', o) ->
  (n', o) = (n, []) \/ exists m, (n', o) = set_master n m.
Proof.
  intros n p n' o H. unfold accept_master in H. destruct (master_identifiers n) as [ms|k]; [|discriminate]. simpl in H.
  destruct (zdiscard 0 ms) as [|m [|m2 r]]; inversion H; [left; reflexivity|right; eexists; reflexivity|right; eexists; reflexivity].
Qed.

Lemma select_master_shape : forall n n' o, select_master n = Ok (n', o) -> exists m, (n', o) = set_master n m.
Proof.
  intros n n' o H. unfold select_master in H. destruct (master_identifiers n) as [ms|k]; [|discriminate]. simpl in H.
  match type of H with bind ?x _ = _ => destruct x as [[[m rk]|]|k] end; simpl in H; try discriminate.
  inversion H. eexists. reflexivity.
Qed.

Lemma accept_master_keep : forall n p n' o, own_wf n -> accept_master n p = Ok (n', o) ->
  keep n n' /\ fsm_state n' = fsm_state n.
Proof.
  intros n p n' o Hwf H. apply accept_master_shape in H. destruct H as [H|[m H]].
  - inversion H; subst. split; [apply keep_refl; exact Hwf|reflexivity].
  - assert (X := set_master_keep n m Hwf). rewrite <- H in X. exact X.
Qed.

Lemma select_master_keep : forall n n' o, own_wf n -> select_master n = Ok (n', o) ->
  keep n n' /\ fsm_state n' = fsm_state n.
Proof.
  intros n n' o Hwf H. apply select_master_shape in H. destruct H as [m H].
  assert (X := set_master_keep n m Hwf). rewrite <- H in X. exact X.
Qed.

(* --- what depends on `keep` only --- *)
Lemma keep_local_running : forall n n', keep n n' -> local_running n' = local_running n.
Proof. intros n n' K. unfold local_running, inst_state. rewrite (k_me _ _ K), (k_insts _ _ K). reflexivity. Qed.
Lemma keep_quiet : forall n n', keep n n' -> quiet n -> quiet n'.
Proof. intros n n' K. apply quiet_insts. apply (k_insts _ _ K). Qed.
Lemma keep_views_length : forall n n', keep n n' -> length (n_views n') = length (n_views n).
Proof.
  intros n n' K. assert (X := f_equal (@length _) (k_vi _ _ K)). unfold vmap in X. rewrite !map_length in X. exact X.
Qed.

(* --- what depends on `keepm` --- *)
Lemma keepm_is_master : forall n n', keepm n n' -> is_master n' = is_master n.
Proof. intros n n' [K M _]. unfold is_master. rewrite M, (k_me _ _ K). reflexivity. Qed.
Lemma keepm_check_master : forall n n', keepm n n' -> check_master n' = check_master n.
Proof. intros n n' [K M V]. rewrite !check_master_cm, (k_oi _ _ K), V. reflexivity. Qed.
Lemma keepm_master_state : forall n n', keepm n n' -> is_master n = false -> master_state n' = master_state n.
Proof.
  intros n n' [K M _] Hm. unfold master_state. rewrite M. rewrite (k_oth _ _ K); [reflexivity|].
  unfold is_master in Hm. apply Z.eqb_neq. exact Hm.
Qed.

(* ====================================================================== *)
(* 4. The stable identifiers and the failure strategy as functions of constant data *)
(* ====================================================================== *)
(* the stable identifiers evaluate_stability computes *)
Definition stabF (n : node) : list Z := match evaluate_stability n with Ok n' => n_stable n' | Crash _ => [] end.

Lemma evaluate_stability_stabF : forall n n2, evaluate_stability n = Ok n2 -> n2 = set_stable n (stabF n).
Proof.
  intros n n2 H. unfold stabF. rewrite H. apply NodeFsmProofs.evaluate_stability_shape in H. destruct H as [s H].
  subst n2. reflexivity.
Qed.

(* the views of the instances seen RUNNING, projected *)
Fixpoint rvx {V} (insts : alist istate) (l : alist V) : result (list V) :=
  match l with
  | [] => Ok []
  | (j, v) :: r =>
      match aget j insts with
      | None => Crash KeyError
      | Some st => bind (rvx insts r) (fun t => Ok (if istate_eqb st IRUNNING then v :: t else t))
      end
  end.

Lemma running_views_rvx : forall {V} (f : smodes -> V) n l,
  bind (running_views n l) (fun rv => Ok (map (fun js => f (snd js)) rv)) = rvx (sm_insts (own n)) (vmap f l).
Proof.
  intros V f n l. induction l as [|[j s] r IH]; simpl; [reflexivity|].
  destruct (aget j (sm_insts (own n))) as [st|]; [|reflexivity].
  rewrite <- IH. destruct (running_views n r); simpl; [|reflexivity].
  destruct (istate_eqb st IRUNNING); reflexivity.
Qed.

Definition stabG (insts : alist istate) (vi : alist (alist istate)) : list Z :=
  match rvx insts vi with
  | Crash _ => []
  | Ok li =>
      let sets := map (fun i => stable_running i []) li in
      match sets with
      | [] => []
      | s0 :: _ => if forallb (fun s => zset_eq s s0) sets then s0 else []
      end
  end.

Lemma stabF_G : forall n, stabF n = stabG (sm_insts (own n)) (vmap sm_insts (n_views n)).
Proof.
  intros n. unfold stabF, evaluate_stability, stabG. rewrite <- (running_views_rvx sm_insts).
  destruct (running_views n (n_views n)) as [rv|k]; simpl; [|reflexivity].
  rewrite map_map.
  destruct (map (fun x : Z * smodes => stable_running (sm_insts (snd x)) []) rv) as [|s0 t]; [reflexivity|].
  destruct (forallb _ _); reflexivity.
Qed.

Lemma keep_stabF : forall n n', keep n n' -> stabF n' = stabF n.
Proof. intros n n' K. rewrite !stabF_G, (k_oi _ _ K), (k_vi _ _ K). reflexivity. Qed.

(* --- the synchronization options and the failure strategy, on explicit data --- *)
Definition run_on (l S : list Z) : bool := match l with [] => false | _ => subset l S end.

Lemma initial_running_on : forall n, initial_running n = run_on (n_initial n) (n_stable n).
Proof. intros n. unfold initial_running, run_on. destruct (n_initial n); reflexivity. Qed.
Lemma core_running_on : forall n, core_running n = run_on (n_core n) (n_stable n).
Proof. intros n. unfold core_running, run_on. destruct (n_core n); reflexivity. Qed.

(* the global failure of _check_failure_strategy when no instance has just been lost *)
Definition gfail_on (o : options) (ini core S : list Z) (V : nat) : bool :=
  if o_user o then false
  else if o_core o then negb (run_on core S)
  else if o_strict o then negb (run_on ini S)
  else if o_list o then negb (Nat.eqb (length S) V)
  else false.
Definition strat_of (o : options) : option sstate :=
  match o_fstrategy o with
  | FS_RESYNC => Some SYNCHRONIZATION | FS_SHUTDOWN => Some SHUTTING_DOWN | FS_CONTINUE => None
  end.
Definition cfs_on (o : options) (ini core S : list Z) (V : nat) : option sstate :=
  if gfail_on o ini core S V then strat_of o else None.
(* ... on the node as it is (n_stable possibly stale), and on the freshly computed stable identifiers *)
Definition Gs (n : node) : option sstate :=
  cfs_on (n_opts n) (n_initial n) (n_core n) (n_stable n) (length (n_views n)).
Definition Gx (n : node) : option sstate :=
  cfs_on (n_opts n) (n_initial n) (n_core n) (stabF n) (length (n_views n)).

Lemma cfs_spec : forall n n1 o1 d, check_failure_strategy n [] = (n1, o1, d) ->
  d = Gs n /\ exists b, set_degraded n b = (n1, o1).
Proof.
  intros n n1 o1 d H. unfold check_failure_strategy in H.
  match type of H with (let '(_, _) := set_degraded n ?b in _) = _ => destruct (set_degraded n b) as [n1' o1'] eqn:E end.
  inversion H; subst. split; [|eexists; exact E].
  unfold Gs, cfs_on, gfail_on, strat_of, user_failure, core_failure, strict_failure, list_failure, all_running.
  rewrite core_running_on, initial_running_on.
  destruct (o_user (n_opts n)); [reflexivity|]. destruct (o_core (n_opts n)); [reflexivity|].
  destruct (o_strict (n_opts n)); [reflexivity|]. destruct (o_list (n_opts n)); reflexivity.
Qed.

Lemma Gx_cases : forall n, Gx n = None \/ Gx n = Some SYNCHRONIZATION \/ Gx n = Some SHUTTING_DOWN.
Proof.
  intros n. unfold Gx, cfs_on, strat_of. destruct (gfail_on _ _ _ _ _); [|left; reflexivity].
  destruct (o_fstrategy (n_opts n)); auto.
Qed.

Lemma keep_Gx : forall n n', keep n n' -> Gx n' = Gx n.
Proof.
  intros n n' K. unfold Gx. rewrite (keep_stabF _ _ K), (keep_views_length _ _ K), (k_opts _ _ K), (k_initial _ _ K),
    (k_core _ _ K). reflexivity.
Qed.

(* the stale value is the fresh one right after evaluate_stability *)
Lemma Gs_fresh : forall n n2, keep n n2 -> n_stable n2 = stabF n -> Gs n2 = Gx n.
Proof.
  intros n n2 K S. unfold Gs, Gx. rewrite S, (keep_views_length _ _ K), (k_opts _ _ K), (k_initial _ _ K), (k_core _ _ K).
  reflexivity.
Qed.

(* SYNCHRONIZATION may decide ELECTION only if one of these holds (uptime conditions dropped) *)
Definition ready_on (o : options) (ini core S : list Z) (V : nat) : bool :=
  (o_strict o && run_on ini S) || (o_list o && Nat.eqb (length S) V) || o_timeout o || (o_core o && run_on core S)
  || o_user o.

(* THE hypothesis on options and static configuration: under the RESYNC strategy, whenever the exit condition of
   SYNCHRONIZATION can hold, the failure check of ELECTION passes (quantified over every candidate set of stable
   identifiers S and every number of instances V: a condition on options, core and initial identifiers only) *)
Definition loop_coherent (n : node) : Prop :=
  o_fstrategy (n_opts n) = FS_RESYNC ->
  forall S V, ready_on (n_opts n) (n_initial n) (n_core n) S V = true ->
              gfail_on (n_opts n) (n_initial n) (n_core n) S V = false.

Lemma loop_coherent_static : forall n n', n_opts n' = n_opts n -> n_core n' = n_core n -> n_initial n' = n_initial n ->
  loop_coherent n -> loop_coherent n'.
Proof. intros n n' E1 E2 E3 H. unfold loop_coherent. rewrite E1, E2, E3. exact H. Qed.

Lemma loop_coherent_keeps : forall n n', keeps n n' -> loop_coherent n -> loop_coherent n'.
Proof. intros n n' [_ [E1 [E2 [E3 _]]]]. apply loop_coherent_static; assumption. Qed.

Lemma coherent_Gx : forall n, loop_coherent n ->
  ready_on (n_opts n) (n_initial n) (n_core n) (stabF n) (length (n_views n)) = true -> Gx n <> Some SYNCHRONIZATION.
Proof.
  intros n C Hr. unfold Gx, cfs_on. destruct (gfail_on _ _ _ _ _) eqn:Eg; [|discriminate].
  unfold strat_of. destruct (o_fstrategy (n_opts n)) eqn:Ef; try discriminate.
  rewrite (C Ef _ _ Hr) in Eg. discriminate.
Qed.

(* ====================================================================== *)
(* 5. One evaluation on a quiet node                                       *)
(* ====================================================================== *)
Definition inDOC (s : sstate) : bool :=
  match s with DISTRIBUTION | OPERATION | CONCILIATION => true | _ => false end.

(* the Master is agreed upon, and it is the local instance or an instance seen in a working state *)
Definition anchored (n : node) : bool :=
  match check_master n with
  | Ok true => is_master n || match master_state n with Some ms => inDOC ms | None => false end
  | _ => false
  end.

(* the decision of the Master in the working states *)
Definition mdec (s : sstate) (orc : oracle) : sstate :=
  match s with
  | DISTRIBUTION => if or_starting orc then DISTRIBUTION else OPERATION
  | OPERATION => if or_starting orc || or_stopping orc then OPERATION
                 else if or_conflict orc then CONCILIATION else OPERATION
  | _ => if or_starting orc || or_stopping orc then CONCILIATION
         else if negb (or_conflict orc) then OPERATION else CONCILIATION
  end.

Lemma keepm_anchored : forall n n', keepm n n' -> anchored n' = anchored n.
Proof.
  intros n n' K. unfold anchored. rewrite (keepm_check_master _ _ K), (keepm_is_master _ _ K).
  destruct (is_master n) eqn:M; [reflexivity|]. rewrite (keepm_master_state _ _ K M). reflexivity.
Qed.

Lemma sync_consistence_settled : forall n n3 o3 d3, own_wf n -> sync_consistence n [] = (n3, o3, d3) ->
  keepm n n3 /\ fsm_state n3 = fsm_state n /\ n_stable n3 = n_stable n /\
  d3 = if local_running n then Gs n else Some OFF.
Proof.
  intros n n3 o3 d3 Hwf H. unfold sync_consistence, on_consistence in H. destruct (local_running n).
  - apply cfs_spec in H. destruct H as [Ed [b Eb]]. assert (X := set_degraded_keepm n b Hwf). rewrite Eb in X.
    simpl in X. destruct X as [X1 [X2 X3]]. split; [exact X1|]. split; [exact X2|]. split; [exact X3|exact Ed].
  - inversion H; subst. split; [apply keepm_refl; exact Hwf|]. split; [reflexivity|]. split; reflexivity.
Qed.

Lemma ms_consistence_settled : forall n n3 o3 d3, own_wf n -> ms_consistence n [] = Ok (n3, o3, d3) ->
  keepm n n3 /\ fsm_state n3 = fsm_state n /\ n_stable n3 = n_stable n /\
  d3 = if local_running n then
         match Gs n with
         | Some x => Some x
         | None => match check_master n with Ok true => None | _ => Some ELECTION end
         end
       else Some OFF.
Proof.
  intros n n3 o3 d3 Hwf H. unfold ms_consistence in H.
  destruct (sync_consistence n []) as [[n1 o1] d1] eqn:E. apply sync_consistence_settled in E; [|exact Hwf].
  destruct E as [K [F [S Ed]]]. destruct d1 as [x|].
  - inversion H; subst n3 o3 d3. split; [exact K|]. split; [exact F|]. split; [exact S|].
    destruct (local_running n); [rewrite <- Ed; reflexivity|exact Ed].
  - destruct (check_master n1) as [ok|k] eqn:Ecm; [|discriminate]. simpl in H. inversion H; subst n3 o3 d3.
    rewrite (keepm_check_master _ _ K) in Ecm.
    split; [exact K|]. split; [exact F|]. split; [exact S|].
    destruct (local_running n); [|discriminate]. rewrite <- Ed, Ecm. destruct ok; reflexivity.
Qed.

(* the exit condition of SYNCHRONIZATION implies ready_on *)
Lemma go_ready : forall n2 (b1 b2 : bool) us,
  is_true (match strict_failure n2 with Some f => Some (negb f) | None => None end)
  || is_true (match list_failure n2 with Some f => Some (negb f) | None => None end)
  || is_true (if o_timeout (n_opts n2) then Some b1 else None)
  || is_true (match core_failure n2 with Some false => Some b2 | Some true => Some false | None => None end)
  || is_true us = true ->
  (is_true us = true -> o_user (n_opts n2) = true) ->
  ready_on (n_opts n2) (n_initial n2) (n_core n2) (n_stable n2) (length (n_views n2)) = true.
Proof.
  intros n2 b1 b2 us H Hu. unfold ready_on.
  unfold strict_failure, list_failure, core_failure, all_running in H.
  rewrite core_running_on, initial_running_on in H.
  destruct (is_true us); [rewrite Hu by reflexivity; apply orb_true_r|].
  destruct (o_strict (n_opts n2)), (o_list (n_opts n2)), (o_timeout (n_opts n2)), (o_core (n_opts n2));
    destruct (run_on (n_initial n2) (n_stable n2)), (run_on (n_core n2) (n_stable n2)),
             (Nat.eqb (length (n_stable n2)) (length (n_views n2)));
    simpl in *; try reflexivity; try discriminate; destruct b2; discriminate.
Qed.

(* what one evaluation decides on a quiet node, state by state *)
Definition settled_spec (n : node) (orc : oracle) (n' : node) (d : option sstate) : Prop :=
  match fsm_state n with
  | OFF => d = Some (if local_running n then SYNCHRONIZATION else OFF)
  | FINAL => d = None
  | SYNCHRONIZATION =>
      if local_running n then d = Some SYNCHRONIZATION \/ (d = Some ELECTION /\ Gx n <> Some SYNCHRONIZATION)
      else d = Some OFF
  | ELECTION =>
      if local_running n then
        match Gx n with
        | Some x => d = Some x
        | None => d = Some ELECTION \/ (d = Some DISTRIBUTION /\ keepm n n' /\ anchored n' = true)
        end
      else d = Some OFF
  | DISTRIBUTION | OPERATION | CONCILIATION =>
      keepm n n' /\
      if local_running n then
        match Gx n with
        | Some x => d = Some x
        | None => match check_master n with
                  | Ok true => if is_master n then d = Some (mdec (fsm_state n) orc) else d = master_state n
                  | _ => d = Some ELECTION
                  end
        end
      else d = Some OFF
  | RESTARTING | SHUTTING_DOWN => d = Some FINAL \/ d = Some (fsm_state n)
  end.

Lemma fsm_next_settled : forall n orc now n' o d, WF n -> quiet n -> loop_coherent n ->
  fsm_next n orc now = Ok (n', o, d) -> keep n n' /\ settled_spec n orc n' d.
Proof.
  intros n orc now n' o d W Q C H. assert (Hwf := WF_own_wf n W).
  unfold fsm_next in H. rewrite (check_instances_quiet n now Q) in H. cbv beta iota zeta in H.
  destruct (evaluate_stability n) as [n2|k] eqn:E2; [|discriminate]. apply evaluate_stability_stabF in E2.
  assert (K2 : keepm n n2) by (subst n2; apply keepm_silent; try reflexivity; exact Hwf).
  assert (S2 : n_stable n2 = stabF n) by (subst n2; reflexivity).
  assert (L2 : local_running n2 = local_running n) by (apply keep_local_running; apply K2).
  assert (Hwf2 : own_wf n2) by (apply (k_wf _ _ (km_keep _ _ K2))).
  assert (G2 : Gs n2 = Gx n) by (apply Gs_fresh; [apply K2|exact S2]).
  clear E2.
  unfold settled_spec. destruct (fsm_state n) eqn:Est.
  - (* OFF *) inversion H; subst n' d. split; [apply K2|]. rewrite L2. reflexivity.
  - (* SYNCHRONIZATION *)
    unfold on_consistence in H. rewrite L2 in H. destruct (local_running n) eqn:L; cbv beta iota in H.
    2:{ inversion H; subst. split; [apply K2|reflexivity]. }
    match type of H with match ?u with _ => _ end = _ => destruct u as [[[n3 o3] us]|k] eqn:E3; [|discriminate] end.
    assert (K3 : keep n2 n3 /\ (is_true us = true -> o_user (n_opts n2) = true)).
    { destruct (o_user (n_opts n2)) eqn:U.
      - destruct (accept_master n2 (or_pick orc)) as [[n3' o3']|k] eqn:E4; [|discriminate].
        apply accept_master_keep in E4; [|exact Hwf2]. split; [|intros _; reflexivity].
        destruct (master n3' =? 0); [inversion E3; subst; apply E4|].
        destruct (inst_state n3' (master n3')); inversion E3; subst; apply E4.
      - inversion E3; subst. split; [apply keep_refl; exact Hwf2|intro X; discriminate X]. }
    destruct K3 as [K3 U3].
    match type of H with (let '(_, _) := set_degraded n3 ?b in _) = _ =>
      assert (X := set_degraded_keepm n3 b (k_wf _ _ K3)); destruct (set_degraded n3 b) as [n4 o4] end.
    simpl in X. destruct X as [K4 _]. inversion H; subst n' o d. clear H.
    split; [eapply keep_trans; [apply K2|]; eapply keep_trans; [exact K3|apply K4]|].
    match goal with |- context [if ?g then ELECTION else SYNCHRONIZATION] => destruct g eqn:Ego end;
      [right|left; reflexivity].
    split; [reflexivity|]. apply coherent_Gx; [exact C|].
    apply go_ready in Ego; [|exact U3].
    rewrite S2, (keep_views_length _ _ (km_keep _ _ K2)), (k_opts _ _ (km_keep _ _ K2)),
      (k_initial _ _ (km_keep _ _ K2)), (k_core _ _ (km_keep _ _ K2)) in Ego. exact Ego.
  - (* ELECTION *)
    destruct (sync_consistence n2 []) as [[n3 o3] d3] eqn:E3. apply sync_consistence_settled in E3; [|exact Hwf2].
    destruct E3 as [K3 [F3 [S3 Ed3]]]. rewrite L2, G2 in Ed3.
    assert (KK : keepm n n3) by (eapply keepm_trans; eassumption).
    assert (SMb : forall oa ob, bind (select_master n3) (fun r => Ok (fst r, oa ++ ob ++ snd r, Some ELECTION)) = Ok (n', o, d) ->
                  keep n n' /\ d = Some ELECTION).
    { intros oa ob Hb. destruct (select_master n3) as [[n4 o4]|k] eqn:E4; [|discriminate]. simpl in Hb.
      inversion Hb; subst. apply select_master_keep in E4; [|apply (k_wf _ _ (km_keep _ _ KK))].
      split; [eapply keep_trans; [apply KK|apply E4]|reflexivity]. }
    destruct (local_running n) eqn:L.
    2:{ subst d3. inversion H; subst. split; [apply KK|reflexivity]. }
    destruct (Gx n) as [x|] eqn:EG; subst d3.
    { inversion H; subst. split; [apply KK|reflexivity]. }
    destruct (is_stable n3); [|inversion H; subst; split; [apply KK|left; reflexivity]].
    destruct (check_master n3) as [[|]|k] eqn:Ecm; [| |discriminate].
    + destruct (is_master n3) eqn:M.
      * inversion H; subst. split; [apply KK|]. right. split; [reflexivity|]. split; [exact KK|].
        unfold anchored. rewrite Ecm, M. reflexivity.
      * destruct (master_state n3) as [ms|] eqn:Ems.
        -- destruct ms;
             first [ destruct (SMb _ _ H) as [A B]; split; [exact A|left; exact B]
                   | inversion H; subst; split; [apply KK|]; right; split; [reflexivity|]; split; [exact KK|];
                     unfold anchored; rewrite Ecm, M, Ems; reflexivity ].
        -- destruct (SMb _ _ H) as [A B]. split; [exact A|left; exact B].
    + destruct (SMb _ _ H) as [A B]. split; [exact A|left; exact B].
  - (* DISTRIBUTION *)
    destruct (ms_consistence n2 []) as [[[n3 o3] d3]|k] eqn:E3; [|discriminate].
    apply ms_consistence_settled in E3; [|exact Hwf2]. destruct E3 as [K3 [F3 [S3 Ed3]]].
    rewrite L2, G2, (keepm_check_master _ _ K2) in Ed3.
    assert (KK : keepm n n3) by (eapply keepm_trans; eassumption).
    assert (R : n' = n3 /\ d = match d3 with Some x => Some x | None =>
                  if is_master n3 then Some (mdec DISTRIBUTION orc) else master_state n3 end).
    { destruct d3; [inversion H; subst; split; reflexivity|]. destruct (is_master n3); inversion H; subst; split; reflexivity. }
    destruct R as [R1 R2]. subst n'. split; [apply KK|]. split; [exact KK|].
    rewrite (keepm_is_master _ _ KK) in R2.
    destruct (local_running n); [|subst d3; exact R2].
    destruct (Gx n) as [x|]; [subst d3; exact R2|].
    destruct (check_master n) as [[|]|kk]; try (subst d3; exact R2).
    subst d3. destruct (is_master n) eqn:M; [exact R2|]. rewrite (keepm_master_state _ _ KK M) in R2. exact R2.
  - (* OPERATION *)
    destruct (ms_consistence n2 []) as [[[n3 o3] d3]|k] eqn:E3; [|discriminate].
    apply ms_consistence_settled in E3; [|exact Hwf2]. destruct E3 as [K3 [F3 [S3 Ed3]]].
    rewrite L2, G2, (keepm_check_master _ _ K2) in Ed3.
    assert (KK : keepm n n3) by (eapply keepm_trans; eassumption).
    assert (R : n' = n3 /\ d = match d3 with Some x => Some x | None =>
                  if is_master n3 then Some (mdec OPERATION orc) else master_state n3 end).
    { destruct d3; [inversion H; subst; split; reflexivity|]. destruct (is_master n3); inversion H; subst; split; reflexivity. }
    destruct R as [R1 R2]. subst n'. split; [apply KK|]. split; [exact KK|].
    rewrite (keepm_is_master _ _ KK) in R2.
    destruct (local_running n); [|subst d3; exact R2].
    destruct (Gx n) as [x|]; [subst d3; exact R2|].
    destruct (check_master n) as [[|]|kk]; try (subst d3; exact R2).
    subst d3. destruct (is_master n) eqn:M; [exact R2|]. rewrite (keepm_master_state _ _ KK M) in R2. exact R2.
  - (* CONCILIATION *)
    destruct (ms_consistence n2 []) as [[[n3 o3] d3]|k] eqn:E3; [|discriminate].
    apply ms_consistence_settled in E3; [|exact Hwf2]. destruct E3 as [K3 [F3 [S3 Ed3]]].
    rewrite L2, G2, (keepm_check_master _ _ K2) in Ed3.
    assert (KK : keepm n n3) by (eapply keepm_trans; eassumption).
    assert (R : n' = n3 /\ d = match d3 with Some x => Some x | None =>
                  if is_master n3 then Some (mdec CONCILIATION orc) else master_state n3 end).
    { destruct d3; [inversion H; subst; split; reflexivity|].
      destruct (is_master n3); [|inversion H; subst; split; reflexivity]. unfold mdec.
      destruct (or_starting orc || or_stopping orc); [inversion H; subst; split; reflexivity|].
      destruct (or_conflict orc); simpl in H; inversion H; subst; split; reflexivity. }
    destruct R as [R1 R2]. subst n'. split; [apply KK|]. split; [exact KK|].
    rewrite (keepm_is_master _ _ KK) in R2.
    destruct (local_running n); [|subst d3; exact R2].
    destruct (Gx n) as [x|]; [subst d3; exact R2|].
    destruct (check_master n) as [[|]|kk]; try (subst d3; exact R2).
    subst d3. destruct (is_master n) eqn:M; [exact R2|]. rewrite (keepm_master_state _ _ KK M) in R2. exact R2.
  - (* RESTARTING *)
    destruct (ms_consistence n2 []) as [[[n3 o3] d3]|k] eqn:E3; [|discriminate].
    apply ms_consistence_settled in E3; [|exact Hwf2]. destruct E3 as [K3 _].
    assert (KK : keepm n n3) by (eapply keepm_trans; eassumption).
    destruct d3; [inversion H; subst; split; [apply KK|left; reflexivity]|].
    destruct (is_master n3); inversion H; subst; (split; [apply KK|]).
    + destruct (or_stopping orc); [right|left]; reflexivity.
    + destruct (ending_slave_next_dec n' RESTARTING) as [E|E]; rewrite E; [right|left]; reflexivity.
  - (* SHUTTING_DOWN *)
    destruct (ms_consistence n2 []) as [[[n3 o3] d3]|k] eqn:E3; [|discriminate].
    apply ms_consistence_settled in E3; [|exact Hwf2]. destruct E3 as [K3 _].
    assert (KK : keepm n n3) by (eapply keepm_trans; eassumption).
    destruct d3; [inversion H; subst; split; [apply KK|left; reflexivity]|].
    destruct (is_master n3); inversion H; subst; (split; [apply KK|]).
    + destruct (or_stopping orc); [right|left]; reflexivity.
    + destruct (ending_slave_next_dec n' SHUTTING_DOWN) as [E|E]; rewrite E; [right|left]; reflexivity.
  - (* FINAL *) inversion H; subst. split; [apply K2|reflexivity].
Qed.

(* ====================================================================== *)
(* 6. The rank of a quiet node about to enter a state                      *)
(* ====================================================================== *)
(* number of transitions still possible, this one included, as a function of the constant facts:
   L local instance RUNNING, G decision of the failure strategy, A anchored, M local instance Master,
   ms state of the Master, c the conflict oracle *)
Definition rkA (M : bool) (ms : option sstate) (c : bool) (ns : sstate) : nat :=
  if M then match ns with
            | DISTRIBUTION => 3
            | OPERATION => if c then 2 else 1
            | CONCILIATION => if c then 1 else 2
            | _ => 1
            end
  else match ms, ns with
       | Some OPERATION, DISTRIBUTION | Some OPERATION, CONCILIATION | Some CONCILIATION, OPERATION => 2
       | _, _ => 1
       end.

Definition rkf (L : bool) (G : option sstate) (A M : bool) (ms : option sstate) (c : bool) (ns : sstate) : nat :=
  match ns with
  | FINAL => 1
  | RESTARTING | SHUTTING_DOWN => 2
  | _ =>
    if L then
      match G with
      | Some SYNCHRONIZATION => match ns with SYNCHRONIZATION | DISTRIBUTION => 1 | _ => 2 end
      | Some _ => match ns with OFF => 5 | SYNCHRONIZATION => 4 | _ => 3 end
      | None => match ns with
                | OFF => 6 | SYNCHRONIZATION => 5 | ELECTION => 4
                | _ => if A then rkA M ms c ns else 7
                end
      end
    else match ns with OFF => 1 | _ => 2 end
  end.

Definition rk (n : node) (c : bool) (ns : sstate) : nat :=
  rkf (local_running n) (Gx n) (anchored n) (is_master n) (master_state n) c ns.

Lemma rk_bounds : forall n c ns, (1 <= rk n c ns <= 7)%nat.
Proof.
  intros n c ns. unfold rk, rkf.
  destruct ns; simpl; try lia; destruct (local_running n); try lia; destruct (Gx n) as [[]|]; try lia;
    (destruct (anchored n); [|lia]); unfold rkA; (destruct (is_master n); [destruct c; lia|]);
    destruct (master_state n) as [[]|]; lia.
Qed.

(* one transition on a quiet node: still quiet, and the rank decreases *)
Lemma settled_step : forall n ns c orc now n3 o3 d3, WF n -> quiet n -> loop_coherent n -> or_conflict orc = c ->
  cont n (Some ns) = Some ns -> loop_step n ns orc now = Ok (n3, o3, d3) ->
  WF n3 /\ quiet n3 /\ loop_coherent n3 /\ forall ns', cont n3 d3 = Some ns' -> (rk n3 c ns' < rk n c ns)%nat.
Proof.
  intros n ns c orc now n3 o3 d3 W Q C Hc Hcont H. assert (Hwf := WF_own_wf n W).
  unfold loop_step in H.
  destruct (set_fsm_keepm n ns Hwf) as [K1 F1].
  assert (W1 := set_fsm_WF n ns W).
  set (n1 := fst (set_fsm n ns)) in *.
  assert (Hwf1 : own_wf n1) by (apply (k_wf _ _ (km_keep _ _ K1))).
  destruct (enter_state_keepm n1 ns now Hwf1) as [K2 F2].
  assert (W2 := enter_state_WF n1 ns now W1).
  set (n2 := fst (enter_state n1 ns now)) in *.
  assert (KK : keepm n n2) by (eapply keepm_trans; eassumption).
  assert (F : fsm_state n2 = ns) by congruence. clear F1 F2 K1 K2 W1 Hwf1.
  assert (Q2 : quiet n2) by (eapply keep_quiet; [apply KK|exact Q]).
  assert (C2 : loop_coherent n2).
  { eapply loop_coherent_static; [| | |exact C]; [apply (k_opts _ _ (km_keep _ _ KK))|apply (k_core _ _ (km_keep _ _ KK))|apply (k_initial _ _ (km_keep _ _ KK))]. }
  assert (W3 := fsm_next_okW n2 orc now W2). rewrite H in W3. simpl in W3.
  assert (F3 : fsm_state n3 = ns) by (destruct (fsm_next_FR _ _ _ _ _ _ H) as [_ [X _]]; congruence).
  destruct (fsm_next_settled _ _ _ _ _ _ W2 Q2 C2 H) as [K3 Sp].
  assert (KK3 : keep n n3) by (eapply keep_trans; [apply KK|exact K3]).
  split; [exact W3|]. split; [eapply keep_quiet; [exact KK3|exact Q]|].
  split; [eapply loop_coherent_static; [| | |exact C]; [apply (k_opts _ _ KK3)|apply (k_core _ _ KK3)|apply (k_initial _ _ KK3)]|].
  intros ns' Hc3. unfold cont in Hc3. rewrite F3 in Hc3.
  unfold settled_spec in Sp. rewrite F in Sp.
  rewrite (keep_local_running _ _ (km_keep _ _ KK)), (keep_Gx _ _ (km_keep _ _ KK)), (keepm_check_master _ _ KK),
    (keepm_is_master _ _ KK) in Sp.
  unfold rk. rewrite (keep_local_running _ _ KK3), (keep_Gx _ _ KK3).
  subst c.
  assert (CL : forall x, contS ns (Some x) = Some ns' -> x = ns').
  { intros x Hx. unfold contS in Hx. destruct (sstate_eqb x ns); [discriminate|].
    destruct (fsm_transition_ok ns x); [inversion Hx; reflexivity|discriminate]. }
  destruct ns.
  - (* OFF *)
    destruct (local_running n); subst d3; vm_compute in Hc3; try discriminate Hc3. inversion Hc3; subst ns'.
    destruct (Gx_cases n) as [E|[E|E]]; rewrite E; simpl; lia.
  - (* SYNCHRONIZATION *)
    destruct (local_running n).
    + destruct Sp as [Sp|[Sp Hg]]; subst d3; vm_compute in Hc3; try discriminate Hc3. inversion Hc3; subst ns'.
      destruct (Gx_cases n) as [E|[E|E]]; rewrite E in *; simpl; try lia. congruence.
    + subst d3; vm_compute in Hc3. inversion Hc3; subst ns'. simpl. lia.
  - (* ELECTION *)
    destruct (local_running n).
    + destruct (Gx_cases n) as [E|[E|E]]; rewrite E in *.
      * destruct Sp as [Sp|[Sp [KM An]]]; subst d3; vm_compute in Hc3; try discriminate Hc3. inversion Hc3; subst ns'.
        rewrite An. simpl. unfold rkA. destruct (is_master n3); [lia|].
        destruct (master_state n3) as [[]|]; lia.
      * subst d3; vm_compute in Hc3. inversion Hc3; subst ns'. simpl. lia.
      * subst d3; vm_compute in Hc3. inversion Hc3; subst ns'. simpl. lia.
    + subst d3; vm_compute in Hc3. inversion Hc3; subst ns'. simpl. lia.
  - (* DISTRIBUTION *)
    destruct Sp as [KM Sp]. assert (KM3 : keepm n n3) by (eapply keepm_trans; eassumption).
    rewrite (keepm_anchored _ _ KM3), (keepm_is_master _ _ KM3).
    destruct (local_running n).
    2:{ subst d3; vm_compute in Hc3. inversion Hc3; subst ns'. simpl. lia. }
    destruct (Gx_cases n) as [E|[E|E]]; rewrite E in *.
    2:{ subst d3; vm_compute in Hc3; try discriminate Hc3; inversion Hc3; subst ns'; simpl; lia. }
    2:{ subst d3; vm_compute in Hc3; try discriminate Hc3; inversion Hc3; subst ns'; simpl; lia. }
    unfold anchored. destruct (check_master n) as [[|]|kk] eqn:Ecm.
    2:{ subst d3; vm_compute in Hc3; inversion Hc3; subst ns'; simpl; lia. }
    2:{ subst d3; vm_compute in Hc3; inversion Hc3; subst ns'; simpl; lia. }
    destruct (is_master n) eqn:M.
    + subst d3. unfold mdec in Hc3.
      destruct (or_starting orc), (or_stopping orc), (or_conflict orc); vm_compute in Hc3; try discriminate Hc3;
        inversion Hc3; subst ns'; simpl; lia.
    + rewrite (keepm_master_state _ _ KK M) in Sp. rewrite (keepm_master_state _ _ KM3 M).
      destruct (master_state n) as [[]|] eqn:Ems; subst d3; vm_compute in Hc3; try discriminate Hc3;
        inversion Hc3; subst ns'; simpl; lia.
  - (* OPERATION *)
    destruct Sp as [KM Sp]. assert (KM3 : keepm n n3) by (eapply keepm_trans; eassumption).
    rewrite (keepm_anchored _ _ KM3), (keepm_is_master _ _ KM3).
    destruct (local_running n).
    2:{ subst d3; vm_compute in Hc3. inversion Hc3; subst ns'. simpl. lia. }
    destruct (Gx_cases n) as [E|[E|E]]; rewrite E in *.
    2:{ subst d3; vm_compute in Hc3; try discriminate Hc3; inversion Hc3; subst ns'; simpl; lia. }
    2:{ subst d3; vm_compute in Hc3; try discriminate Hc3; inversion Hc3; subst ns'; simpl; lia. }
    unfold anchored. destruct (check_master n) as [[|]|kk] eqn:Ecm.
    2:{ subst d3; vm_compute in Hc3; inversion Hc3; subst ns'; simpl; lia. }
    2:{ subst d3; vm_compute in Hc3; inversion Hc3; subst ns'; simpl; lia. }
    destruct (is_master n) eqn:M.
    + subst d3. unfold mdec in Hc3.
      destruct (or_starting orc), (or_stopping orc), (or_conflict orc); vm_compute in Hc3; try discriminate Hc3;
        inversion Hc3; subst ns'; simpl; lia.
    + rewrite (keepm_master_state _ _ KK M) in Sp. rewrite (keepm_master_state _ _ KM3 M).
      destruct (master_state n) as [[]|] eqn:Ems; subst d3; vm_compute in Hc3; try discriminate Hc3;
        inversion Hc3; subst ns'; simpl; lia.
  - (* CONCILIATION *)
    destruct Sp as [KM Sp]. assert (KM3 : keepm n n3) by (eapply keepm_trans; eassumption).
    rewrite (keepm_anchored _ _ KM3), (keepm_is_master _ _ KM3).
    destruct (local_running n).
    2:{ subst d3; vm_compute in Hc3. inversion Hc3; subst ns'. simpl. lia. }
    destruct (Gx_cases n) as [E|[E|E]]; rewrite E in *.
    2:{ subst d3; vm_compute in Hc3; try discriminate Hc3; inversion Hc3; subst ns'; simpl; lia. }
    2:{ subst d3; vm_compute in Hc3; try discriminate Hc3; inversion Hc3; subst ns'; simpl; lia. }
    unfold anchored. destruct (check_master n) as [[|]|kk] eqn:Ecm.
    2:{ subst d3; vm_compute in Hc3; inversion Hc3; subst ns'; simpl; lia. }
    2:{ subst d3; vm_compute in Hc3; inversion Hc3; subst ns'; simpl; lia. }
    destruct (is_master n) eqn:M.
    + subst d3. unfold mdec in Hc3.
      destruct (or_starting orc), (or_stopping orc), (or_conflict orc); vm_compute in Hc3; try discriminate Hc3;
        inversion Hc3; subst ns'; simpl; lia.
    + rewrite (keepm_master_state _ _ KK M) in Sp. rewrite (keepm_master_state _ _ KM3 M).
      destruct (master_state n) as [[]|] eqn:Ems; subst d3; vm_compute in Hc3; try discriminate Hc3;
        inversion Hc3; subst ns'; simpl; lia.
  - (* RESTARTING *)
    destruct Sp as [Sp|Sp]; subst d3; vm_compute in Hc3; try discriminate Hc3. inversion Hc3; subst ns'. simpl. lia.
  - (* SHUTTING_DOWN *)
    destruct Sp as [Sp|Sp]; subst d3; vm_compute in Hc3; try discriminate Hc3. inversion Hc3; subst ns'. simpl. lia.
  - (* FINAL *) subst d3. discriminate Hc3.
Qed.

(* ====================================================================== *)
(* 7. The bound                                                            *)
(* ====================================================================== *)
(* facts about any transition of the loop, quiet node or not *)
Lemma loop_step_facts : forall n ns orc now n3 o3 d3, WF n -> loop_coherent n ->
  loop_step n ns orc now = Ok (n3, o3, d3) ->
  WF n3 /\ loop_coherent n3 /\ NoFailed n3 /\ fsm_state n3 = ns /\ (ns <> DISTRIBUTION -> quiet n3).
Proof.
  intros n ns orc now n3 o3 d3 W C H. assert (Hwf := WF_own_wf n W). unfold loop_step in H.
  destruct (set_fsm_keepm n ns Hwf) as [K1 F1]. assert (W1 := set_fsm_WF n ns W).
  set (n1 := fst (set_fsm n ns)) in *.
  assert (Hwf1 : own_wf n1) by (apply (k_wf _ _ (km_keep _ _ K1))).
  destruct (enter_state_keepm n1 ns now Hwf1) as [K2 F2]. assert (W2 := enter_state_WF n1 ns now W1).
  set (n2 := fst (enter_state n1 ns now)) in *.
  assert (KK : keepm n n2) by (eapply keepm_trans; eassumption).
  assert (F : fsm_state n2 = ns) by congruence.
  assert (W3 := fsm_next_okW n2 orc now W2). rewrite H in W3. simpl in W3.
  destruct (fsm_next_FR _ _ _ _ _ _ H) as [Kp [F3 _]].
  split; [exact W3|]. split.
  - eapply loop_coherent_keeps; [exact Kp|].
    eapply loop_coherent_static; [| | |exact C];
      [apply (k_opts _ _ (km_keep _ _ KK))|apply (k_core _ _ (km_keep _ _ KK))|apply (k_initial _ _ (km_keep _ _ KK))].
  - split; [apply (fsm_next_F _ _ _ _ _ _ H)|]. split; [congruence|].
    intros Hd. eapply fsm_next_quiet; [exact H|congruence].
Qed.

(* the ranked relation: 9 for any node, 8 once nothing is FAILED while in DISTRIBUTION, then the rank of quiet nodes *)
Inductive Rk (c : bool) : node -> sstate -> nat -> Prop :=
| Rk0 : forall n ns, WF n -> loop_coherent n -> Rk c n ns 9
| Rk1 : forall n ns, WF n -> loop_coherent n -> fsm_state n = DISTRIBUTION -> Rk c n ns 8
| Rk2 : forall n ns, WF n -> loop_coherent n -> quiet n -> Rk c n ns (rk n c ns).

Lemma Rk_pos : forall c n ns k, Rk c n ns k -> (1 <= k)%nat.
Proof. intros c n ns k H. destruct H; try lia. apply rk_bounds. Qed.

Lemma Rk_WF : forall c n ns k, Rk c n ns k -> WF n /\ loop_coherent n.
Proof. intros c n ns k H. destruct H; split; assumption. Qed.

Lemma Rk_eval : forall c n ns k orc now, Rk c n ns k -> cont n (Some ns) = Some ns ->
  loop_step n ns orc now <> Crash OutOfFuel.
Proof.
  intros c n ns k orc now H _. apply Rk_WF in H. destruct H as [W _]. unfold loop_step.
  assert (X := fsm_next_okW _ orc now (enter_state_WF _ ns now (set_fsm_WF n ns W))).
  destruct (fsm_next _ orc now) as [r|kk]; [discriminate|]. simpl in X. contradiction.
Qed.

Lemma Rk_step : forall c n ns k orc now n3 o3 d3 ns', Rk c n ns k -> or_conflict orc = c ->
  cont n (Some ns) = Some ns -> loop_step n ns orc now = Ok (n3, o3, d3) -> cont n3 d3 = Some ns' ->
  exists k', (k' < k)%nat /\ Rk c n3 ns' k'.
Proof.
  intros c n ns k orc now n3 o3 d3 ns' HR Hc Hcont H Hc3.
  assert (Hne : forall s, fsm_state n = s -> ns <> s).
  { intros s Es Ens. apply cont_some in Hcont. destruct Hcont as [_ [X _]]. rewrite Es, Ens, NodeFsmProofs.sstate_eqb_refl in X.
    discriminate. }
  destruct HR as [n ns W C|n ns W C Fd|n ns W C Q].
  - destruct (loop_step_facts _ _ _ _ _ _ _ W C H) as [W3 [C3 [_ [F3 Q3]]]].
    destruct (sstate_eqb ns DISTRIBUTION) eqn:Ed.
    + apply NodeFsmProofs.sstate_eqb_eq in Ed. exists 8%nat. split; [lia|]. apply Rk1; [exact W3|exact C3|congruence].
    + apply NodeFsmProofs.sstate_eqb_neq in Ed. exists (rk n3 c ns'). split; [assert (X := rk_bounds n3 c ns'); lia|].
      apply Rk2; [exact W3|exact C3|apply Q3; exact Ed].
  - destruct (loop_step_facts _ _ _ _ _ _ _ W C H) as [W3 [C3 [_ [F3 Q3]]]].
    exists (rk n3 c ns'). split; [assert (X := rk_bounds n3 c ns'); lia|].
    apply Rk2; [exact W3|exact C3|apply Q3; apply Hne; exact Fd].
  - destruct (settled_step _ _ _ _ _ _ _ _ W Q C Hc Hcont H) as [W3 [Q3 [C3 Hlt]]].
    exists (rk n3 c ns'). split; [apply Hlt; exact Hc3|]. apply Rk2; assumption.
Qed.

(* --- the oracles --- *)
Definition oracles_constant (orcs : list oracle) : Prop := forall a b, In a orcs -> In b orcs -> a = b.
(* all that matters: the conflict oracle does not change along the loop *)
Definition conflict_constant (orcs : list oracle) : Prop :=
  forall a b, In a orcs -> In b orcs -> or_conflict a = or_conflict b.

Lemma oracles_constant_conflict : forall orcs, oracles_constant orcs -> conflict_constant orcs.
Proof. intros orcs H a b Ha Hb. rewrite (H a b Ha Hb). reflexivity. Qed.

Lemma next_orcs_conflict : forall orcs, conflict_constant orcs ->
  conflict_constant (snd (next_orcs orcs))
  /\ or_conflict (fst (next_orcs (snd (next_orcs orcs)))) = or_conflict (fst (next_orcs orcs)).
Proof.
  intros orcs H. destruct orcs as [|o [|o2 r]]; simpl.
  - split; [intros a b []|reflexivity].
  - split; [exact H|reflexivity].
  - split.
    + intros a b Ha Hb. apply H; right; assumption.
    + transitivity (or_conflict o2).
      * destruct r; reflexivity.
      * apply H; [right; left; reflexivity|left; reflexivity].
Qed.

Lemma okorcs_conflict : forall fuel orcs c, conflict_constant orcs -> or_conflict (fst (next_orcs orcs)) = c ->
  okorcs (fun o => or_conflict o = c) fuel orcs.
Proof.
  induction fuel as [|fuel IH]; intros orcs c H Hc; simpl; [exact I|].
  destruct (next_orcs_conflict orcs H) as [H1 H2]. split; [exact Hc|]. apply IH; [exact H1|congruence].
Qed.

(* ---------- main theorem: at most 9 transitions ---------- *)
Definition loop_bound : nat := 9.

Theorem set_state_bounded_gen : forall fuel n d orcs now acc, WF n -> loop_coherent n -> conflict_constant orcs ->
  (loop_bound <= fuel)%nat ->
  set_state fuel n d orcs now acc = set_state loop_bound n d orcs now acc
  /\ exists n' outs, set_state loop_bound n d orcs now acc = Ok (n', outs) /\ WF n'.
Proof.
  intros fuel n d orcs now acc W C Ho Hf.
  assert (T : set_state loop_bound n d orcs now acc <> Crash OutOfFuel).
  { apply (ranked_terminates (Rk (or_conflict (fst (next_orcs orcs)))) (fun o => or_conflict o = or_conflict (fst (next_orcs orcs)))).
    - apply Rk_pos.
    - apply Rk_eval.
    - intros. eapply Rk_step; eassumption.
    - intros ns _. exists 9%nat. split; [unfold loop_bound; lia|]. apply Rk0; assumption.
    - apply okorcs_conflict; [exact Ho|reflexivity]. }
  split.
  - eapply set_state_fuel_mono; [reflexivity|exact T|exact Hf].
  - assert (X := set_state_okF loop_bound n d orcs now acc W).
    destruct (set_state loop_bound n d orcs now acc) as [[n' outs]|k]; simpl in X.
    + exists n', outs. split; [reflexivity|exact X].
    + subst k. contradiction.
Qed.

(* ====================================================================== *)
(* 8. Consistent options; the loop of the model (fuel 40), fsm_run, step, run *)
(* ====================================================================== *)
(* the conditions on the stable identifiers under which SYNCHRONIZATION may decide ELECTION *)
Definition sready_on (o : options) (ini core S : list Z) (V : nat) : bool :=
  (o_strict o && run_on ini S) || (o_list o && Nat.eqb (length S) V) || (o_core o && run_on core S).

(* consistent options:
   (1) what SupvisorsOptions.check_options enforces: TIMEOUT among the synchro options forces the CONTINUE strategy;
   (2) under RESYNC, a satisfied synchronization condition (STRICT / LIST / CORE) implies that _check_failure_strategy
       (first of USER, CORE, STRICT, LIST that is configured) reports no failure, whatever the stable identifiers *)
Definition opts_consistent (n : node) : Prop :=
  (o_timeout (n_opts n) = true -> o_fstrategy (n_opts n) = FS_CONTINUE) /\
  (o_fstrategy (n_opts n) = FS_RESYNC ->
   forall S V, sready_on (n_opts n) (n_initial n) (n_core n) S V = true ->
               gfail_on (n_opts n) (n_initial n) (n_core n) S V = false).

Lemma opts_consistent_coherent : forall n, opts_consistent n -> loop_coherent n.
Proof.
  intros n [H1 H2] Hr S V Hrd. unfold ready_on in Hrd.
  destruct (o_timeout (n_opts n)) eqn:T; [rewrite (H1 eq_refl) in Hr; discriminate|].
  destruct (o_user (n_opts n)) eqn:U; [unfold gfail_on; rewrite U; reflexivity|].
  apply H2; [exact Hr|]. unfold sready_on. rewrite !orb_false_r in Hrd. exact Hrd.
Qed.

Lemma opts_consistent_keeps : forall n n', keeps n n' -> opts_consistent n -> opts_consistent n'.
Proof. intros n n' [_ [E1 [E2 [E3 _]]]] H. unfold opts_consistent. rewrite E1, E2, E3. exact H. Qed.

(* --- natural sufficient conditions --- *)
(* the default (TIMEOUT, hence CONTINUE) and every configuration whose strategy is not RESYNC *)
Lemma opts_consistent_not_resync : forall n, (o_timeout (n_opts n) = true -> o_fstrategy (n_opts n) = FS_CONTINUE) ->
  o_fstrategy (n_opts n) <> FS_RESYNC -> opts_consistent n.
Proof. intros n H1 H2. split; [exact H1|]. intros X. contradiction. Qed.

Lemma opts_consistent_continue : forall n, o_fstrategy (n_opts n) = FS_CONTINUE -> opts_consistent n.
Proof. intros n H. apply opts_consistent_not_resync; [intros _; exact H|rewrite H; discriminate]. Qed.

(* USER among the synchro options: _check_user_failure answers first, and fails only when an instance was just lost *)
Lemma opts_consistent_user : forall n, o_timeout (n_opts n) = false -> o_user (n_opts n) = true -> opts_consistent n.
Proof.
  intros n T U. split; [rewrite T; discriminate|]. intros _ S V _. unfold gfail_on. rewrite U. reflexivity.
Qed.

(* at most one of STRICT / LIST / CORE (and no TIMEOUT) *)
Lemma opts_consistent_single : forall n, o_timeout (n_opts n) = false ->
  (o_strict (n_opts n) && o_list (n_opts n) || o_strict (n_opts n) && o_core (n_opts n)
   || o_list (n_opts n) && o_core (n_opts n)) = false -> opts_consistent n.
Proof.
  intros n T H. split; [rewrite T; discriminate|]. intros _ S V. unfold sready_on, gfail_on.
  destruct (o_user (n_opts n)); [reflexivity|].
  destruct (o_strict (n_opts n)), (o_list (n_opts n)), (o_core (n_opts n)); simpl in *; try discriminate;
    rewrite ?orb_false_r; intros X; rewrite X; reflexivity.
Qed.

Lemma subset_run_on : forall core ini S, core <> [] -> subset core ini = true -> run_on ini S = true -> run_on core S = true.
Proof.
  intros core ini S Hne Hs Hr. unfold run_on in *. destruct core as [|c r]; [contradiction|].
  destruct ini as [|i ri]; [discriminate|]. unfold subset in *. rewrite forallb_forall in *.
  intros x Hx. specialize (Hs x Hx). apply NodeFsmProofs.zmem_In in Hs. apply Hr. exact Hs.
Qed.

(* STRICT and CORE (no LIST, no TIMEOUT) when the core identifiers are declared (initial) instances *)
Lemma opts_consistent_strict_core : forall n, o_timeout (n_opts n) = false -> o_list (n_opts n) = false ->
  n_core n <> [] -> subset (n_core n) (n_initial n) = true -> opts_consistent n.
Proof.
  intros n T Li Hne Hs. split; [rewrite T; discriminate|]. intros _ S V. unfold sready_on, gfail_on. rewrite Li.
  destruct (o_user (n_opts n)); [reflexivity|].
  destruct (o_core (n_opts n)), (o_strict (n_opts n)); simpl; rewrite ?orb_false_r; intros X; try discriminate.
  - apply orb_true_iff in X. destruct X as [X|X]; [|rewrite X; reflexivity].
    rewrite (subset_run_on _ _ _ Hne Hs X). reflexivity.
  - rewrite X. reflexivity.
  - rewrite X. reflexivity.
Qed.

(* --- the loop --- *)
Theorem set_state_bounded : forall fuel n d orcs now acc, WF n -> opts_consistent n -> oracles_constant orcs ->
  (loop_bound <= fuel)%nat ->
  set_state fuel n d orcs now acc = set_state loop_bound n d orcs now acc
  /\ exists n' outs, set_state loop_bound n d orcs now acc = Ok (n', outs) /\ WF n'.
Proof.
  intros fuel n d orcs now acc W C Ho Hf.
  apply set_state_bounded_gen; [exact W|apply opts_consistent_coherent; exact C|apply oracles_constant_conflict; exact Ho|exact Hf].
Qed.

Lemma loop_fuel_enough : (loop_bound <= loop_fuel)%nat.
Proof. unfold loop_bound, loop_fuel. lia. Qed.

Theorem set_state_terminates_gen : forall n d orcs now acc, WF n -> loop_coherent n -> conflict_constant orcs ->
  exists n' outs, set_state loop_fuel n d orcs now acc = Ok (n', outs) /\ WF n'.
Proof.
  intros n d orcs now acc W C Ho.
  destruct (set_state_bounded_gen loop_fuel n d orcs now acc W C Ho loop_fuel_enough) as [E [n' [outs [E2 W']]]].
  exists n', outs. split; [congruence|exact W'].
Qed.

Theorem set_state_terminates : forall n d orcs now acc, WF n -> opts_consistent n -> oracles_constant orcs ->
  exists n' outs, set_state loop_fuel n d orcs now acc = Ok (n', outs) /\ WF n'.
Proof.
  intros n d orcs now acc W C Ho.
  apply set_state_terminates_gen; [exact W|apply opts_consistent_coherent; exact C|apply oracles_constant_conflict; exact Ho].
Qed.

(* the statement as first asked (`partial`: under the hypotheses on options and oracles) *)
Theorem set_state_terminates_partial : forall n d orcs now acc, WF n -> opts_consistent n -> oracles_constant orcs ->
  exists r, set_state loop_fuel n d orcs now acc = r /\ r <> Crash OutOfFuel.
Proof.
  intros n d orcs now acc W C Ho. destruct (set_state_terminates n d orcs now acc W C Ho) as [n' [outs [E _]]].
  eexists. split; [exact E|discriminate].
Qed.

(* --- FiniteStateMachine.next --- *)
Lemma fsm_run_okW : forall n orcs now, WF n -> loop_coherent n -> conflict_constant orcs ->
  okW (fsm_run n orcs now) (fun r => WF (fst r)).
Proof.
  intros n orcs now W C Ho. unfold fsm_run.
  destruct (next_orcs_conflict orcs Ho) as [Ho' _]. destruct (next_orcs orcs) as [orc rest]. simpl in Ho'.
  assert (X := fsm_next_okW n orc now W).
  destruct (fsm_next n orc now) as [[[n1 o1] d]|k] eqn:E1; simpl in X; [|contradiction].
  assert (C1 : loop_coherent n1).
  { eapply loop_coherent_keeps; [|exact C]. apply (fsm_next_FR _ _ _ _ _ _ E1). }
  destruct (set_state_terminates_gen n1 d rest now o1 X C1 Ho') as [n' [outs [E W']]]. rewrite E. exact W'.
Qed.

Theorem fsm_run_terminates_gen : forall n orcs now, WF n -> loop_coherent n -> conflict_constant orcs ->
  exists n' outs, fsm_run n orcs now = Ok (n', outs) /\ WF n'.
Proof.
  intros n orcs now W C Ho. assert (X := fsm_run_okW n orcs now W C Ho).
  destruct (fsm_run n orcs now) as [[n' outs]|k]; simpl in X; [|contradiction].
  exists n', outs. split; [reflexivity|exact X].
Qed.

Theorem fsm_run_terminates : forall n orcs now, WF n -> opts_consistent n -> oracles_constant orcs ->
  exists n' outs, fsm_run n orcs now = Ok (n', outs) /\ WF n'.
Proof.
  intros n orcs now W C Ho.
  apply fsm_run_terminates_gen; [exact W|apply opts_consistent_coherent; exact C|apply oracles_constant_conflict; exact Ho].
Qed.

Corollary fsm_run_never_out_of_fuel : forall n orcs now, WF n -> opts_consistent n -> oracles_constant orcs ->
  fsm_run n orcs now <> Crash OutOfFuel.
Proof.
  intros n orcs now W C Ho. destruct (fsm_run_terminates n orcs now W C Ho) as [n' [outs [E _]]]. rewrite E. discriminate.
Qed.

(* --- events --- *)
Definition event_orcs (e : event) : list oracle :=
  match e with
  | LocalTick _ _ o | PeerState _ _ _ _ _ _ o | ProcCrash _ _ _ o | ReqRestart _ o | ReqShutdown _ o
  | ReqEndSync _ _ o => o
  | _ => []
  end.
Definition event_oracles_constant (e : event) : Prop := oracles_constant (event_orcs e).
Definition event_conflict_constant (e : event) : Prop := conflict_constant (event_orcs e).

Lemma on_ending_okW : forall n t orcs now err, WF n -> loop_coherent n -> conflict_constant orcs ->
  (is_master n || negb (Z.eqb (master n) 0)) = true -> okW (on_ending n t orcs now err) (fun r => WF (fst r)).
Proof.
  intros n t orcs now err W C Ho H. unfold on_ending. destruct (is_master n).
  - destruct (set_state_terminates_gen n (Some t) orcs now [] W C Ho) as [n' [outs [E W']]]. rewrite E. exact W'.
  - simpl in H. rewrite H. exact W.
Qed.

Lemma okW_bind_snd : forall (r : result (node * list output)) (f : node * list output -> list output),
  okW r (fun x => WF (fst x)) -> okW (bind r (fun x => Ok (fst x, f x))) (fun x => WF (fst x)).
Proof. intros [[n o]|k] f H; simpl in *; exact H. Qed.

Lemma keeps_set_insts : forall n i, keeps n (set_insts n i).
Proof. intros. repeat split. Qed.

(* every event a well-formed node can receive is handled, the set_state loop included: node_no_crash without its carve-out *)
Theorem step_okW : forall n e, WF n -> wf_event n e = true -> loop_coherent n -> event_conflict_constant e ->
  okW (step n e) (fun r => WF (fst r)).
Proof.
  intros n e W He C Ho. unfold event_conflict_constant in Ho. destruct e; simpl in *.
  - (* LocalTick *)
    assert (Hme : amem (n_me n) (n_insts n) = true) by apply W.
    apply amem_aget in Hme. destruct Hme as [s Es]. rewrite Es.
    assert (W1 := WF_tick n (n_me n) s (update_tick s cnt (-1)) W Es eq_refl).
    match goal with |- context [set_inst_state ?x _ _ _] => set (n1 := x) in * end.
    assert (C1 : loop_coherent n1) by (eapply loop_coherent_keeps; [apply keeps_set_insts|exact C]).
    match goal with |- okW (match ?u with _ => _ end) _ =>
      assert (X2 : okW u (fun r => WF (fst r) /\ loop_coherent (fst r))) end.
    { destruct (istate_eqb (is_state s) ISTOPPED) eqn:E0; [|split; [exact W1|exact C1]].
      assert (X : okW (set_inst_state n1 (n_me n) CHECKING now) (fun r => WF (fst r))).
      { eapply (set_inst_state_okW n1 (n_me n) CHECKING now (update_tick s cnt (-1))); [exact W1| |].
        - unfold n1. simpl. rewrite aget_aset, Z.eqb_refl. reflexivity.
        - simpl. apply istate_eqb_eq in E0. rewrite E0. vm_compute. auto. }
      destruct (set_inst_state n1 (n_me n) CHECKING now) as [[n2 o2]|k] eqn:E2; simpl in *; [|exact X].
      split; [exact X|]. eapply loop_coherent_keeps; [|exact C1]. apply (set_inst_state_FR _ _ _ _ _ _ E2). }
    match goal with |- okW (match ?u with _ => _ end) _ => destruct u as [[n2 o2]|k] end; simpl in X2; [|contradiction].
    destruct X2 as [X2 C2].
    assert (X3 := on_timer_okW n2 cnt now X2).
    destruct (on_timer n2 cnt now) as [[n3 o3]|k] eqn:E3; simpl in X3; [|contradiction].
    assert (C3 : loop_coherent n3) by (eapply loop_coherent_keeps; [|exact C2]; apply (on_timer_FR _ _ _ _ _ E3)).
    assert (X4 : WF (fst (if n_mark n3 then (set_mark n3 false, [publish n3]) else (n3, [])))
                 /\ loop_coherent (fst (if n_mark n3 then (set_mark n3 false, [publish n3]) else (n3, [])))).
    { destruct (n_mark n3); simpl; [|split; assumption]. split; [eapply WF_same; [exact X3| | | |]; reflexivity|exact C3]. }
    destruct (if n_mark n3 then (set_mark n3 false, [publish n3]) else (n3, [])) as [n4 o4]. simpl in X4.
    apply okW_bind_snd. apply fsm_run_okW; [apply X4|apply X4|exact Ho].
  - (* PeerTick *)
    destruct (resolve n og) as [j|] eqn:Er; [|exact W].
    destruct (local_checked_or_running n); [|exact W].
    apply resolve_some in Er. destruct Er as [_ [_ [s [Es _]]]]. rewrite Es.
    assert (W1 := WF_tick n j s (update_tick s cnt (local_cnt n)) W Es eq_refl).
    destruct (istate_eqb (is_state s) ISTOPPED) eqn:E0; [|exact W1].
    match goal with |- context [set_inst_state ?x _ _ _] => set (n1 := x) in * end.
    assert (X : okW (set_inst_state n1 j CHECKING now) (fun r => WF (fst r))).
    { eapply (set_inst_state_okW n1 j CHECKING now (update_tick s cnt (local_cnt n))); [exact W1| |].
      - unfold n1. simpl. rewrite aget_aset, Z.eqb_refl. reflexivity.
      - simpl. apply istate_eqb_eq in E0. rewrite E0. vm_compute. auto. }
    destruct (set_inst_state n1 j CHECKING now) as [[n2 o2]|k]; simpl in *; exact X.
  - (* PeerState *)
    destruct (resolve n og) as [j|] eqn:Er; [|exact W].
    apply resolve_some in Er. destruct Er as [_ [_ [s [Es _]]]].
    match goal with |- context [fsm_run ?x _ _] => set (n1 := x) in * end.
    assert (W1 : WF n1).
    { unfold n1. destruct (Z.eqb j (n_me n)) eqn:E; [exact W|].
      assert (Hj : amem j (n_views n) = true).
      { destruct W as [_ [_ [W3 _]]]. rewrite W3. unfold amem. rewrite Es. reflexivity. }
      apply (WF_fields n); try reflexivity; [exact W| |].
      - intros k. simpl. apply amem_aset_same. exact Hj.
      - intros k. rewrite own_set_views_other; [|apply Z.eqb_neq; exact E]. destruct W as [_ [W2 _]]. apply W2. }
    assert (C1 : loop_coherent n1).
    { unfold n1. destruct (Z.eqb j (n_me n)); [exact C|]. eapply loop_coherent_static; [| | |exact C]; reflexivity. }
    destruct (Z.eqb j (master n1)); [apply fsm_run_okW; assumption|exact W1].
  - (* Ident *) exact W.
  - (* Auth *)
    destruct (resolve n og) as [j|] eqn:Er; [|exact W].
    apply resolve_some in Er. destruct Er as [_ [_ [s [Es _]]]]. rewrite Es.
    destruct (is_checking s ts) eqn:Ec; [|exact W].
    unfold is_checking in Ec. apply andb_prop in Ec. destruct Ec as [Ec _]. apply istate_eqb_eq in Ec.
    destruct a.
    + eapply set_inst_state_okW; [exact W|exact Es|]. rewrite Ec. vm_compute. auto.
    + eapply set_inst_state_okW; [exact W|exact Es|]. rewrite Ec. vm_compute. auto.
    + eapply invalidate_okW; [exact W|exact Es|]. right. exact Ec.
    + eapply invalidate_okW; [exact W|exact Es|]. right. exact Ec.
  - (* AllInfo *)
    destruct (resolve n og) as [j|] eqn:Er; [|exact W].
    destruct info as [b|].
    + destruct (inst_state n j) as [[]|]; try exact W. destruct b; [|exact W].
      eapply WF_same; [exact W| | | |]; reflexivity.
    + apply resolve_some in Er. destruct Er as [Eo [Ea [s [Es Hiso]]]].
      rewrite Ea, Eo, ist_state_init, Es in He. simpl in He.
      eapply set_inst_state_okW; [exact W|exact Es|].
      destruct (is_state s); try discriminate He; try contradiction; vm_compute; auto.
  - (* InstFailure *)
    destruct (resolve n og) as [j|] eqn:Er; [|exact W].
    apply resolve_some in Er. destruct Er as [_ [_ [s [Es _]]]].
    unfold inst_state. rewrite Es. destruct (has_active_state (is_state s)) eqn:Ea; [|exact W].
    eapply set_inst_state_okW; [exact W|exact Es|].
    destruct (is_state s); try discriminate; vm_compute; auto.
  - (* ProcCrash *)
    destruct (is_master n) eqn:M; [|exact W].
    destruct strat; try exact W; apply on_ending_okW; try assumption; rewrite M; reflexivity.
  - (* ReqRestart *) apply on_ending_okW; assumption.
  - (* ReqShutdown *) apply on_ending_okW; assumption.
  - (* ReqEndSync *)
    match goal with |- okW (match ?u with _ => _ end) _ =>
      assert (X1 : okW u (fun r => WF (fst r) /\ loop_coherent (fst r))) end.
    { destruct (Z.eqb m 0) eqn:E0.
      - assert (Y : okW (select_master n) (fun r => WF (fst r))).
        { apply select_master_okW; [exact W|]. intros ms Ems. unfold endsync_ok in He. rewrite E0, Ems in He.
          simpl in He. destruct (sel_pool n ms); [discriminate|discriminate]. }
        destruct (select_master n) as [[n1 o1]|k] eqn:E1; simpl in *; [|exact Y].
        split; [exact Y|]. eapply loop_coherent_keeps; [|exact C]. apply (select_master_FR _ _ _ E1).
      - simpl. split; [apply set_master_WF; exact W|].
        eapply loop_coherent_keeps; [|exact C]. destruct (set_master n m) as [n1 o1] eqn:E1.
        apply (set_master_FR _ _ _ _ E1). }
    match goal with |- okW (match ?u with _ => _ end) _ => destruct u as [[n1 o1]|k] end; simpl in X1; [|contradiction].
    apply okW_bind_snd. apply fsm_run_okW; [apply X1|apply X1|exact Ho].
Qed.

(* the events outside wf_event raise, but never OutOfFuel *)
Lemma not_wf_crashes_kind : forall n e, WF n -> wf_event n e = false -> exists k, step n e = Crash k /\ k <> OutOfFuel.
Proof.
  intros n e W He. destruct e; simpl in He; try discriminate.
  - (* AllInfo None *)
    destruct info as [b|]; [discriminate|]. apply negb_false_iff in He. simpl in He.
    destruct (og_addr_ok og) eqn:Ea; [|discriminate].
    destruct (og_resolved og) as [j|] eqn:Eo; [|discriminate].
    rewrite ist_state_init in He. destruct (aget j (n_insts n)) as [s|] eqn:Es; [|discriminate]. simpl in He.
    simpl. unfold resolve, inst_state. rewrite Eo, Es, Ea.
    unfold set_inst_state.
    destruct (is_state s) eqn:E; try discriminate He; rewrite Es, E; vm_compute; eexists; (split; [reflexivity|discriminate]).
  - (* ReqRestart *)
    apply orb_false_iff in He. destruct He as [M H0]. apply negb_false_iff in H0.
    simpl. unfold on_ending. rewrite M, H0. simpl. eexists. split; [reflexivity|discriminate].
  - apply orb_false_iff in He. destruct He as [M H0]. apply negb_false_iff in H0.
    simpl. unfold on_ending. rewrite M, H0. simpl. eexists. split; [reflexivity|discriminate].
  - (* ReqEndSync *)
    unfold endsync_ok in He. apply orb_false_iff in He. destruct He as [E0 He]. apply negb_false_iff in E0.
    simpl. rewrite E0. destruct (master_identifiers_WF n W) as [ms Ems]. rewrite Ems in He.
    rewrite (select_master_unfold n ms Ems). unfold sel_cands.
    destruct (sel_pool n ms); [|discriminate]. simpl.
    replace (filter (fun _ : Z => false) (n_core n)) with (@nil Z).
    + simpl. eexists. split; [reflexivity|discriminate].
    + induction (n_core n) as [|c r IH]; simpl; [reflexivity|exact IH].
Qed.

Theorem step_never_out_of_fuel_gen : forall n e, WF n -> loop_coherent n -> event_conflict_constant e ->
  step n e <> Crash OutOfFuel.
Proof.
  intros n e W C Ho. destruct (wf_event n e) eqn:He.
  - assert (X := step_okW n e W He C Ho). destruct (step n e) as [r|k]; [discriminate|]. simpl in X. contradiction.
  - destruct (not_wf_crashes_kind n e W He) as [k [E Hk]]. rewrite E. congruence.
Qed.

(* (2) of the task: the carve-out `Crash OutOfFuel` of C16 is void under consistent options and constant oracles *)
Theorem step_never_out_of_fuel : forall n e, WF n -> opts_consistent n -> event_oracles_constant e ->
  step n e <> Crash OutOfFuel.
Proof.
  intros n e W C Ho. apply step_never_out_of_fuel_gen; [exact W|apply opts_consistent_coherent; exact C|].
  apply oracles_constant_conflict. exact Ho.
Qed.

Theorem node_no_crash : forall n e, WF n -> wf_event n e = true -> opts_consistent n -> event_oracles_constant e ->
  exists n' outs, step n e = Ok (n', outs) /\ WF n' /\ opts_consistent n'.
Proof.
  intros n e W He C Ho.
  assert (X := step_okW n e W He (opts_consistent_coherent n C) (oracles_constant_conflict _ Ho)).
  destruct (step n e) as [[n' outs]|k] eqn:E; simpl in X; [|contradiction].
  exists n', outs. split; [reflexivity|]. split; [exact X|].
  eapply opts_consistent_keeps; [|exact C]. apply (step_TR0 _ _ _ _ E).
Qed.

(* along any history *)
Theorem run_never_out_of_fuel : forall evs n, WF n -> opts_consistent n -> Forall event_oracles_constant evs ->
  ~ In (NCrash OutOfFuel) (run n evs).
Proof.
  induction evs as [|e r IH]; intros n W C Ho Hin; simpl in Hin; [exact Hin|].
  inversion Ho as [|e' r' Ho1 Ho2]; subst.
  assert (X := step_never_out_of_fuel n e W C Ho1).
  destruct (step n e) as [[n' outs]|k] eqn:E.
  - destruct Hin as [Hin|Hin]; [discriminate|].
    eapply IH; [eapply step_WF; eassumption| |exact Ho2|exact Hin].
    eapply opts_consistent_keeps; [|exact C]. apply (step_TR0 _ _ _ _ E).
  - destruct Hin as [Hin|[]]. inversion Hin; subst. apply X. reflexivity.
Qed.

(* C16 without carve-out: along a well-formed history nothing at all is raised *)
Theorem run_no_crash_total : forall evs n, WF n -> wf_hist n evs -> opts_consistent n ->
  Forall event_oracles_constant evs -> forall k, ~ In (NCrash k) (run n evs).
Proof.
  intros evs n W Hh C Ho k Hin. assert (Ek := run_no_crash evs n W Hh k Hin). subst k.
  exact (run_never_out_of_fuel evs n W C Ho Hin).
Qed.

(* ====================================================================== *)
(* 9. Concrete nodes: the hypotheses hold, long loops are taken; each hypothesis is needed *)
(* ====================================================================== *)
Ltac wf3 := repeat split;
  [ intros j; simpl; destruct (Z.eqb j 1); [reflexivity|]; destruct (Z.eqb j 2); [reflexivity|]; destruct (Z.eqb j 3); reflexivity
  | intros j; unfold amem; simpl; destruct (Z.eqb j 1); [reflexivity|]; destruct (Z.eqb j 2); [reflexivity|]; destruct (Z.eqb j 3); reflexivity
  | intros j; unfold amem; simpl; destruct (Z.eqb j 1); [reflexivity|]; destruct (Z.eqb j 2); [reflexivity|];
    destruct (Z.eqb j 3); [reflexivity|discriminate] ].

(* the node reached along a history *)
Fixpoint run_node (n : node) (evs : list event) : node :=
  match evs with
  | [] => n
  | e :: r => match step n e with Ok (n', _) => run_node n' r | Crash _ => n end
  end.

Lemma run_node_WF : forall evs n, WF n -> WF (run_node n evs).
Proof.
  induction evs as [|e r IH]; intros n W; simpl; [exact W|].
  destruct (step n e) as [[n' outs]|k] eqn:E; [|exact W]. apply IH. eapply step_WF; eassumption.
Qed.

(* the FSM states published during each step of a run, followed by the final one *)
Definition pubs (l : list obs) : list (list Z) :=
  map (fun o => match o with NOk x => map (fun t => fst (fst t)) (pub_chain x) | NCrash _ => [] end) l.

(* (a) a late joiner (USER + TIMEOUT synchro options, CONTINUE): instance 1 starts while instance 2 is the Master, in
   OPERATION. The tick that finds both handshakes done runs OFF -> SYNCHRONIZATION -> ELECTION -> DISTRIBUTION ->
   OPERATION in ONE call of FiniteStateMachine.next: four transitions of the set_state loop *)
Definition late_hist : list event :=
  [LocalTick 1 10 [orc0]; Auth og1 A_AUTHORIZED 11 12; PeerTick og2 1 13; Auth og2 A_AUTHORIZED 14 15;
   PeerState og2 OPERATION false 2 ins12 16 [orc0]; LocalTick 2 20 [orc0]].
Definition late_node : node := run_node (ex3_node true) (firstn 5 late_hist).

Example ex_long_loop :
  WF late_node /\ opts_consistent late_node /\ event_oracles_constant (LocalTick 2 20 [orc0]) /\
  pubs (run late_node [LocalTick 2 20 [orc0]]) = [[0; 1; 1; 2; 3; 4; 4]] /\
  pubs (run (ex3_node true) late_hist) = [[0; 0]; [0]; [0]; [0]; [0]; [0; 1; 1; 2; 3; 4; 4]].
Proof.
  split; [apply run_node_WF; apply ex3_node_WF|].
  split; [apply opts_consistent_continue; vm_compute; reflexivity|].
  split; [intros a b [Ha|[]] [Hb|[]]; congruence|].
  split; vm_compute; reflexivity.
Qed.

Example ex_long_loop_never_out_of_fuel : forall e, event_oracles_constant e -> step late_node e <> Crash OutOfFuel.
Proof.
  intros e He. apply step_never_out_of_fuel; [apply run_node_WF; apply ex3_node_WF| |exact He].
  apply opts_consistent_continue. vm_compute. reflexivity.
Qed.

(* (b) the RESYNC strategy with a coherent option set (STRICT alone): the Master in OPERATION loses the STRICT
   condition (instance 3 is not RUNNING): OPERATION -> SYNCHRONIZATION, and the loop stops there *)
Definition rs_opts : options := mkOpts 2 false true false false false false 20 FS_RESYNC.
Definition rs_insts : alist istate := [(1, IRUNNING); (2, IRUNNING); (3, ISTOPPED)].
Definition rs_node : node :=
  mkNode 1 rs_opts [] [1; 2; 3] [(1, 1); (2, 2); (3, 3)]
         [(1, mkIst IRUNNING 5 5 0); (2, mkIst IRUNNING 5 5 0); (3, mkIst ISTOPPED 0 0 0)]
         [(1, mkSm OPERATION false 1 rs_insts); (2, mkSm OPERATION false 1 rs_insts); (3, sm_fresh)] [] false 0 [].

Example ex_resync_coherent :
  WF rs_node /\ opts_consistent rs_node /\ o_fstrategy (n_opts rs_node) = FS_RESYNC /\
  final_state (fsm_run rs_node [orc0] 100) = Some (SYNCHRONIZATION, 1).
Proof.
  split; [wf3|]. split; [apply opts_consistent_single; reflexivity|]. split; vm_compute; reflexivity.
Qed.

(* (c) STRICT + CORE under RESYNC with the core identifiers among the declared ones: coherent *)
Example ex_strict_core_coherent :
  opts_consistent (mkNode 1 (mkOpts 2 false true false false true false 20 FS_RESYNC) [2] [1; 2; 3] [] [] [] [] false 0 []).
Proof. apply opts_consistent_strict_core; try reflexivity. discriminate. Qed.

(* ---------- each conjunct of opts_consistent is needed ---------- *)
Lemma loopA_WF : WF loopA.
Proof.
  repeat split.
  - intros j. simpl. destruct (Z.eqb j 1); [reflexivity|]. destruct (Z.eqb j 2); reflexivity.
  - intros j. unfold amem. simpl. destruct (Z.eqb j 1); [reflexivity|]. destruct (Z.eqb j 2); reflexivity.
  - intros j. unfold amem. simpl. destruct (Z.eqb j 1); [reflexivity|]. destruct (Z.eqb j 2); [reflexivity|discriminate].
Qed.

Lemma lv_node_WF : WF (lv_node []).
Proof. wf3. Qed.

Lemma lv_S_WF : WF lv_S.
Proof.
  destruct lv_first as [o E]. assert (X := fsm_next_okW (lv_node []) px_orc 100 lv_node_WF). rewrite E in X. exact X.
Qed.

Definition conj_timeout (n : node) : Prop := o_timeout (n_opts n) = true -> o_fstrategy (n_opts n) = FS_CONTINUE.
Definition conj_resync (n : node) : Prop :=
  o_fstrategy (n_opts n) = FS_RESYNC ->
  forall S V, sready_on (n_opts n) (n_initial n) (n_core n) S V = true ->
              gfail_on (n_opts n) (n_initial n) (n_core n) S V = false.

Lemma opts_consistent_conj : forall n, opts_consistent n <-> conj_timeout n /\ conj_resync n.
Proof. intros n. reflexivity. Qed.

(* (4) of the task. Dropping either conjunct makes termination false, on well-formed nodes with constant oracles:
   - loopA (NodeFsmProofs.set_state_loops_on_inconsistent_options): STRICT + TIMEOUT, RESYNC: satisfies the second
     conjunct (STRICT alone is coherent), violates the first (what check_options forbids);
   - lv_S (ClusterProofs.set_state_livelock): STRICT + CORE, RESYNC, no TIMEOUT, core identifiers not among the
     running ones: satisfies the first conjunct, violates the second.
   In both the loop never ends, whatever the fuel *)
Theorem opts_consistent_needed :
  (exists n d orcs now, WF n /\ oracles_constant orcs /\ conj_resync n /\ ~ conj_timeout n /\
     forall fuel acc, set_state fuel n d orcs now acc = Crash OutOfFuel)
  /\
  (exists n d orcs now, WF n /\ oracles_constant orcs /\ conj_timeout n /\ ~ conj_resync n /\
     forall fuel acc, set_state fuel n d orcs now acc = Crash OutOfFuel).
Proof.
  split.
  - exists loopA, (Some ELECTION), [orc0], 15.
    split; [exact loopA_WF|]. split; [intros a b [Ha|[]] [Hb|[]]; congruence|].
    split.
    + intros _ S V. unfold sready_on, gfail_on. simpl. rewrite !orb_false_r. intros X. rewrite X. reflexivity.
    + split; [intros X; specialize (X eq_refl); discriminate X|].
      intros fuel acc. apply (proj1 (loop_diverges fuel)).
  - exists lv_S, (Some ELECTION), [px_orc], 100.
    split; [exact lv_S_WF|]. split; [intros a b [Ha|[]] [Hb|[]]; congruence|].
    split; [intros X; vm_compute in X; discriminate X|].
    split.
    + intros X. assert (Y : conj_resync (lv_node [])).
      { intros Hr S V. apply (X Hr S V). }
      specialize (Y eq_refl [1; 2] 0%nat). vm_compute in Y. specialize (Y eq_refl). discriminate Y.
    + apply set_state_livelock.
Qed.

(* the theorem does refute both witnesses' consistency (sanity: the hypotheses are not vacuous on them) *)
Corollary witnesses_inconsistent : ~ opts_consistent loopA /\ ~ opts_consistent lv_S.
Proof.
  split; intros C.
  - destruct (set_state_terminates loopA (Some ELECTION) [orc0] 15 [] loopA_WF C) as [n' [outs [E _]]].
    + intros a b [Ha|[]] [Hb|[]]; congruence.
    + rewrite (proj1 (loop_diverges loop_fuel)) in E. discriminate.
  - destruct (set_state_terminates lv_S (Some ELECTION) [px_orc] 100 [] lv_S_WF C) as [n' [outs [E _]]].
    + intros a b [Ha|[]] [Hb|[]]; congruence.
    + rewrite set_state_livelock in E. discriminate.
Qed.

(* ---------- the oracle hypothesis is needed too ---------- *)
(* the Master in OPERATION, with a conflict oracle that alternates at every evaluation: OPERATION -> CONCILIATION ->
   OPERATION -> ... one transition per oracle; 42 oracles exhaust the 40 units of fuel. (For any FINITE oracle list the
   Python loop ends, since the last oracle is reused; but no bound independent of the list exists.) *)
Fixpoint alt_orcs (k : nat) (b : bool) : list oracle :=
  match k with O => [] | S k' => mkOr false false b 0 :: alt_orcs k' (negb b) end.
Definition alt_node : node := px_node OPERATION 1 (px_sm OPERATION 1) (px_sm OPERATION 1).

Theorem alternating_conflicts_exhaust_fuel :
  WF alt_node /\ opts_consistent alt_node /\ fsm_run alt_node (alt_orcs 42 true) 100 = Crash OutOfFuel.
Proof.
  split; [wf3|]. split; [apply opts_consistent_continue; reflexivity|]. vm_compute. reflexivity.
Qed.

(* ---------- what remains: LIST combined with STRICT / CORE under RESYNC ---------- *)
(* Such option sets are not `opts_consistent` (the quantification over every S, V ignores that "all instances RUNNING"
   implies "the declared ones RUNNING" when the declared instances are known ones). Some static fact of that kind IS
   needed: with a declared identifier (4) that is not a known instance, LIST is satisfied, STRICT never, and the loop
   SYNCHRONIZATION <-> ELECTION never ends (model-level witness; mapper.initial_identifiers are always known
   instances in Supvisors). Termination of LIST + STRICT / CORE under RESYNC when initial / core identifiers are keys of
   the (duplicate-free) instance tables is not proved here. *)
Definition ls_opts : options := mkOpts 2 false true true false false false 20 FS_RESYNC.
Definition ls_own (s : sstate) : smodes := mkSm s false 0 px_insts.
Definition ls_node (ini : list Z) : node :=
  mkNode 1 ls_opts [] ini [(1, 1); (2, 2); (3, 3)] px_ist
         [(1, ls_own SYNCHRONIZATION); (2, ls_own SYNCHRONIZATION); (3, ls_own SYNCHRONIZATION)] [] false 0 [].

Example list_strict_needs_known_initial :
  WF (ls_node [1; 2; 4]) /\ conj_timeout (ls_node [1; 2; 4]) /\
  fsm_run (ls_node [1; 2; 4]) [orc0] 100 = Crash OutOfFuel /\
  (* with declared identifiers that are known instances the same node goes on to ELECTION and stops there (no Master yet) *)
  final_state (fsm_run (ls_node [1; 2; 3]) [orc0] 100) = Some (ELECTION, 1).
Proof.
  split; [wf3|]. split; [intros X; vm_compute in X; discriminate X|]. split; vm_compute; reflexivity.
Qed.
