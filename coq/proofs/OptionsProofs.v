(* OptionsProofs.v — proofs about model/Options.v (C18, options part). No float axiom is used: every statement
   about floats is in terms of the primitive comparison, which computes. *)
From Sup Require Import Options GenOptions.
From Coq Require Import Lia PrimFloat FloatOps SpecFloat.

(* ================================================================ the measured ranges are the documented ones *)
Lemma ranges_as_documented :
  (go_ttl_min, go_ttl_max) = doc_ttl /\ (go_port_min, go_port_max) = doc_port
  /\ (go_timeout_min, go_timeout_max) = doc_timeout /\ (go_ticks_min, go_ticks_max) = doc_ticks
  /\ (go_histo_min, go_histo_max) = doc_histo
  /\ (go_SYNCHRO_TIMEOUT_MIN, go_SYNCHRO_TIMEOUT_MAX) = doc_timeout
  /\ (go_INACTIVITY_TICKS_MIN, go_INACTIVITY_TICKS_MAX) = doc_ticks
  /\ go_SYNCHRO_DEFAULT_OPTIONS = doc_synchro_default
  /\ float_same go_period_min doc_period_min = true /\ float_same go_period_max doc_period_max = true.
Proof. vm_compute. repeat split; reflexivity. Qed.

Lemma period_bounds_eq : go_period_min = doc_period_min /\ go_period_max = doc_period_max.
Proof. split; vm_compute; reflexivity. Qed.

(* docs/configuration.rst announces 10 for stats_collecting_period; the code (and its tests) use 5 *)
Example collecting_period_default_differs_from_doc : go_default_collecting_period = 5 /\ go_default_collecting_period <> 10.
Proof. vm_compute. split; [reflexivity|discriminate]. Qed.

(* ================================================================ options_in_range : the converters *)
Theorem conv_int_in_range : forall lo hi dflt v,
  let r := conv_int lo hi dflt v in (lo <= r <= hi) \/ r = dflt.
Proof.
  intros lo hi dflt [|z|]; simpl; auto.
  destruct (Z.ltb z lo) eqn:E1; simpl; auto. destruct (Z.ltb hi z) eqn:E2; simpl; auto.
  left. apply Z.ltb_ge in E1. apply Z.ltb_ge in E2. lia.
Qed.

(* a value is kept exactly when it lies in the range *)
Theorem conv_int_spec : forall lo hi dflt v, conv_int lo hi dflt v = spec_int (lo, hi) dflt v.
Proof.
  intros lo hi dflt [|z|]; simpl; auto. unfold in_range. simpl.
  destruct (Z.ltb z lo) eqn:E1; destruct (Z.ltb hi z) eqn:E2; simpl;
    destruct (Z.leb lo z) eqn:E3; destruct (Z.leb z hi) eqn:E4; simpl; auto;
    try apply Z.ltb_lt in E1; try apply Z.ltb_ge in E1; try apply Z.ltb_lt in E2; try apply Z.ltb_ge in E2;
    try apply Z.leb_le in E3; try apply Z.leb_gt in E3; try apply Z.leb_le in E4; try apply Z.leb_gt in E4; lia.
Qed.

Lemma zmem_In : forall x l, zmem x l = true <-> In x l.
Proof.
  intros x l. unfold zmem. rewrite existsb_exists. split.
  - intros (y & Hy & E). apply Z.eqb_eq in E. subst. exact Hy.
  - intros H. exists x. split; auto. apply Z.eqb_refl.
Qed.

Theorem conv_enum_in_domain : forall values dflt v,
  let r := conv_enum values dflt v in In r values \/ r = dflt.
Proof.
  intros values dflt [|c|]; simpl; auto. destruct (zmem c values) eqn:E; auto. left. apply zmem_In. exact E.
Qed.

Theorem conv_bool_total : forall dflt v, conv_bool dflt v = match v with BVal b => b | _ => dflt end.
Proof. reflexivity. Qed.

(* periods *)
Theorem conv_period_accepts_or_default : forall dflt v,
  let r := conv_period dflt v in period_refused r = false \/ r = dflt.
Proof. intros dflt [|p|]; simpl; auto. destruct (period_refused p) eqn:E; auto. Qed.

(* every accepted period lies in [1 ; 3600] (no exception any more: a nan is refused) *)
Theorem accepted_period_in_range : forall p, period_refused p = false -> period_in_range p = true.
Proof.
  intros p H. unfold period_refused in H. apply negb_false_iff in H.
  unfold period_in_range. destruct period_bounds_eq as (<- & <-). exact H.
Qed.

Theorem refused_period_out_of_range : forall p, period_refused p = true -> period_in_range p = false.
Proof.
  intros p H. unfold period_refused in H. apply negb_true_iff in H.
  unfold period_in_range. destruct period_bounds_eq as (<- & <-). exact H.
Qed.

(* F21 repaired (cc4fad9): a nan falls back to the default in to_period and in to_periods *)
Theorem to_period_nan_rejected : forall dflt, conv_period dflt (FVal nan) = dflt.
Proof. intros dflt. vm_compute. reflexivity. Qed.

Theorem to_periods_nan_rejected : forall dflt l, In (Some nan) l -> conv_periods dflt (PToks l) = dflt.
Proof.
  intros dflt l Hin. simpl. destruct (Nat.eqb (length l) 0 || Nat.ltb 3 (length l)); auto.
  destruct (all_some l) as [ps|] eqn:Ea; auto.
  assert (Hn : In nan ps).
  { clear - Hin Ea. revert ps Ea. induction l as [|[a|] l IH]; intros ps Ea; simpl in *; try discriminate.
    - destruct Hin.
    - destruct (all_some l) as [r|]; [|discriminate]. inversion Ea; subst.
      destruct Hin as [H|H]; [inversion H; left; reflexivity|right; apply IH; auto]. }
  assert (existsb period_refused ps = true) as ->; [|reflexivity].
  apply existsb_exists. exists nan. split; [exact Hn|vm_compute; reflexivity].
Qed.

Example to_periods_nan_rejected_example :
  conv_periods [10%float] (PToks [Some 5%float; Some nan; Some 2%float]) = [10%float].
Proof. vm_compute. reflexivity. Qed.

(* py_sorted3 only rearranges *)
Lemma py_sorted3_perm : forall l x, In x (py_sorted3 l) <-> In x l.
Proof.
  intros l x. destruct l as [|a0 [|a1 [|a2 [|a3 l]]]]; simpl; try tauto.
  - destruct (flt a1 a0); simpl; tauto.
  - destruct (flt a1 a0); destruct (flt a2 a1); simpl; try tauto;
      destruct (flt a2 a0); simpl; tauto.
Qed.
Lemma py_sorted3_length : forall l, length (py_sorted3 l) = length l.
Proof.
  intros l. destruct l as [|a0 [|a1 [|a2 [|a3 l]]]]; simpl; auto.
  - destruct (flt a1 a0); reflexivity.
  - destruct (flt a1 a0); destruct (flt a2 a1); simpl; auto; destruct (flt a2 a0); reflexivity.
Qed.

Lemma all_some_in : forall {A} (l : list (option A)) r x, all_some l = Some r -> In x r -> In (Some x) l.
Proof.
  intros A l. induction l as [|[a|] l IH]; intros r x H Hx; simpl in H.
  - inversion H; subst. destruct Hx.
  - destruct (all_some l) as [r'|]; [|discriminate]. inversion H; subst.
    destruct Hx as [<-|Hx]; [left; reflexivity|right; eapply IH; eauto].
  - discriminate.
Qed.
Lemma all_some_length : forall {A} (l : list (option A)) r, all_some l = Some r -> length r = length l.
Proof.
  intros A l. induction l as [|[a|] l IH]; intros r H; simpl in H.
  - inversion H; reflexivity.
  - destruct (all_some l) as [r'|]; [|discriminate]. inversion H; subst. simpl. f_equal. apply IH. reflexivity.
  - discriminate.
Qed.

Theorem conv_periods_accepts_or_default : forall dflt v,
  let r := conv_periods dflt v in
  r = dflt \/ ((1 <= length r <= 3)%nat /\ forall p, In p r -> period_refused p = false).
Proof.
  intros dflt [|l]; simpl; auto.
  destruct (Nat.eqb (length l) 0) eqn:E0; simpl; auto. destruct (Nat.ltb 3 (length l)) eqn:E3; simpl; auto.
  destruct (all_some l) as [ps|] eqn:Ea; auto. destruct (existsb period_refused ps) eqn:Ee; auto.
  right. rewrite py_sorted3_length, (all_some_length l ps Ea).
  apply Nat.eqb_neq in E0. apply Nat.ltb_ge in E3. split; [lia|].
  intros p Hp. apply (proj1 (py_sorted3_perm ps p)) in Hp. destruct (period_refused p) eqn:E; auto.
  assert (existsb period_refused ps = true) by (apply existsb_exists; exists p; split; assumption). congruence.
Qed.

(* ================================================================ check_options *)
Lemma remove_first_notin : forall x l, NoDup l -> ~ In x (remove_first x l).
Proof.
  intros x l H. induction H as [|y l Hy Hl IH]; simpl; auto.
  destruct (Z.eqb x y) eqn:E.
  - apply Z.eqb_eq in E. subst. exact Hy.
  - intros [->|Hin]; [rewrite Z.eqb_refl in E; discriminate|auto].
Qed.
Lemma remove_first_incl : forall x l y, In y (remove_first x l) -> In y l.
Proof.
  intros x l. induction l as [|z l IH]; intros y H; simpl in *; auto.
  destruct (Z.eqb x z); [right; exact H|]. destruct H as [<-|H]; auto.
Qed.
Lemma remove_first_NoDup : forall x l, NoDup l -> NoDup (remove_first x l).
Proof.
  intros x l H. induction H as [|y l Hy Hl IH]; simpl; [constructor|].
  destruct (Z.eqb x y); auto. constructor; auto. intros Hin. apply Hy. eapply remove_first_incl; eauto.
Qed.
Lemma remove_first_filter : forall x l, NoDup l -> remove_first x l = filter (fun y => negb (Z.eqb y x)) l.
Proof.
  intros x l H. induction H as [|y l Hy Hl IH]; simpl; auto.
  rewrite (Z.eqb_sym y x). destruct (Z.eqb x y) eqn:E; simpl.
  - apply Z.eqb_eq in E. subst. clear IH Hl. induction l as [|z l IH]; simpl; auto.
    destruct (Z.eqb z y) eqn:Ez.
    + apply Z.eqb_eq in Ez. subst. exfalso. apply Hy. left; reflexivity.
    + simpl. f_equal. apply IH. intros Hin. apply Hy. right; exact Hin.
  - f_equal. exact IH.
Qed.
Lemma filter_notin_id : forall x l, ~ In x l -> filter (fun y => negb (Z.eqb y x)) l = l.
Proof.
  intros x l. induction l as [|z l IH]; intros H; simpl; auto.
  destruct (Z.eqb z x) eqn:E.
  - apply Z.eqb_eq in E. subst. exfalso. apply H. left; reflexivity.
  - simpl. f_equal. apply IH. intros Hin. apply H. right; exact Hin.
Qed.

Lemma NoDup_filter : forall {A} (f : A -> bool) l, NoDup l -> NoDup (filter f l).
Proof.
  intros A f l H. induction H as [|x l Hx Hl IH]; simpl; [constructor|].
  destruct (f x); auto. constructor; auto. intros Hin. apply filter_In in Hin. tauto.
Qed.
Lemma dedup_NoDup : forall l, NoDup (dedup_keep_first l).
Proof.
  induction l as [|y r IH]; simpl; constructor.
  - intros H. apply filter_In in H. destruct H as (_ & H). rewrite Z.eqb_refl in H. discriminate.
  - apply NoDup_filter. exact IH.
Qed.

Lemma conv_synchro_NoDup : forall v l, conv_synchro v = Some l -> NoDup l.
Proof.
  intros [|toks] l H; simpl in H; [discriminate|].
  destruct (all_some toks) as [codes|]; [|discriminate].
  destruct (forallb _ codes); [|discriminate]. inversion H; subst. apply dedup_NoDup.
Qed.

(* the list of synchro_options that check_options ends with, as a function of the list it starts from *)
Definition checked_synchro (sync0 : list Z) (c : config) : list Z :=
  let s1 := if strs_empty (c_core_identifiers c) && zmem go_SynchronizationOptions_CORE sync0
            then remove_first go_SynchronizationOptions_CORE sync0 else sync0 in
  if strs_empty (c_supvisors_list c) && zmem go_SynchronizationOptions_STRICT s1
  then remove_first go_SynchronizationOptions_STRICT s1 else s1.

Definition start_synchro (class_default : list Z) (c : config) : list Z :=
  match conv_synchro (c_synchro_options c) with Some l => l | None => class_default end.

Lemma zmem_false : forall x l, zmem x l = false <-> ~ In x l.
Proof.
  intros x l. rewrite <- zmem_In. destruct (zmem x l); split; intros; try discriminate; auto. exfalso; auto.
Qed.

(* CORE / STRICT are dropped when their lists are empty; an empty result is refused (ValueError) and it is the
   only refusal; TIMEOUT forces CONTINUE *)
Theorem check_options_rules : forall cd c,
  NoDup (start_synchro cd c) ->
  let sync := checked_synchro (start_synchro cd c) c in
  (strs_empty (c_core_identifiers c) = true -> ~ In go_SynchronizationOptions_CORE sync)
  /\ (strs_empty (c_supvisors_list c) = true -> ~ In go_SynchronizationOptions_STRICT sync)
  /\ (forall x, In x sync -> In x (start_synchro cd c))
  /\ match fst (build cd c) with
     | Crash k => k = ValueError /\ sync = []
     | Ok o => sync <> [] /\ o_synchro_options o = sync
               /\ (In go_SynchronizationOptions_TIMEOUT sync -> o_failure o = go_SupvisorsFailureStrategies_CONTINUE)
               /\ (~ In go_SynchronizationOptions_TIMEOUT sync ->
                   o_failure o = conv_enum go_SupvisorsFailureStrategies_values go_default_failure (c_failure c))
     end.
Proof.
  intros cd c Hnd sync. unfold sync, checked_synchro. set (s0 := start_synchro cd c) in *.
  set (s1 := if strs_empty (c_core_identifiers c) && zmem go_SynchronizationOptions_CORE s0
             then remove_first go_SynchronizationOptions_CORE s0 else s0).
  assert (Hnd1 : NoDup s1).
  { unfold s1. destruct (strs_empty (c_core_identifiers c) && zmem go_SynchronizationOptions_CORE s0); auto.
    apply remove_first_NoDup. exact Hnd. }
  assert (Hincl1 : forall x, In x s1 -> In x s0).
  { unfold s1. intros x. destruct (strs_empty (c_core_identifiers c) && zmem go_SynchronizationOptions_CORE s0); auto.
    apply remove_first_incl. }
  set (s2 := if strs_empty (c_supvisors_list c) && zmem go_SynchronizationOptions_STRICT s1
             then remove_first go_SynchronizationOptions_STRICT s1 else s1).
  assert (Hincl2 : forall x, In x s2 -> In x s1).
  { unfold s2. intros x. destruct (strs_empty (c_supvisors_list c) && zmem go_SynchronizationOptions_STRICT s1); auto.
    apply remove_first_incl. }
  repeat split.
  - intros He Hin. apply Hincl2 in Hin. unfold s1 in Hin. rewrite He in Hin. simpl in Hin.
    destruct (zmem go_SynchronizationOptions_CORE s0) eqn:Ez.
    + revert Hin. apply remove_first_notin. exact Hnd.
    + apply zmem_false in Ez. contradiction.
  - intros He Hin. unfold s2 in Hin. rewrite He in Hin. simpl in Hin.
    destruct (zmem go_SynchronizationOptions_STRICT s1) eqn:Ez.
    + revert Hin. apply remove_first_notin. exact Hnd1.
    + apply zmem_false in Ez. contradiction.
  - intros x Hx. apply Hincl1, Hincl2. exact Hx.
  - unfold build. fold (start_synchro cd c). fold s0. fold s1. fold s2.
    destruct s2 as [|y ys] eqn:Es2; cbn [fst o_synchro_options o_failure].
    + split; reflexivity.
    + split; [discriminate|]. split; [reflexivity|]. split.
      * intros Hin. apply zmem_In in Hin. rewrite Hin. cbn [andb].
        destruct (Z.eqb (conv_enum go_SupvisorsFailureStrategies_values go_default_failure (c_failure c))
                        go_SupvisorsFailureStrategies_CONTINUE) eqn:E; cbn [negb]; auto.
        apply Z.eqb_eq in E. exact E.
      * intros Hin. apply zmem_false in Hin. rewrite Hin. reflexivity.
Qed.

(* `synchro-default-aliasing` repaired (e7bba65): no construction alters the class-level default, so that
   constructions in a row are independent of each other *)
Theorem class_default_frame : forall cd c, snd (build cd c) = cd.
Proof.
  intros cd c. unfold build.
  destruct (if strs_empty (c_supvisors_list c) && _ then _ else _); reflexivity.
Qed.

Theorem constructions_independent : forall cs, run cs = map (build go_SYNCHRO_DEFAULT_OPTIONS) cs.
Proof.
  intros cs. unfold run. generalize go_SYNCHRO_DEFAULT_OPTIONS. induction cs as [|c cs IH]; intros cd; simpl; [reflexivity|].
  rewrite class_default_frame, IH. reflexivity.
Qed.

Definition empty_config : config :=
  mkConfig IAbsent GAbsent FAbsentI EAbsent IAbsent BAbsent SAbsent IAbsent IAbsent LAbsent LAbsent
           EAbsent EAbsent EAbsent TAbsent FAbsent PAbsent IAbsent BAbsent IAbsent IAbsent.
Definition lists_config : config :=
  mkConfig IAbsent GAbsent FAbsentI EAbsent IAbsent BAbsent SAbsent IAbsent IAbsent (LToks [7]) (LToks [7])
           EAbsent EAbsent EAbsent TAbsent FAbsent PAbsent IAbsent BAbsent IAbsent IAbsent.

(* the former witness: after a construction without lists, a construction with both lists and no synchro_options
   gets the documented default STRICT,TIMEOUT,CORE *)
Example synchro_default_kept :
  exists o1 o2, map fst (run [empty_config; lists_config]) = [Ok o1; Ok o2]
    /\ o_synchro_options o1 = [go_SynchronizationOptions_TIMEOUT]
    /\ o_synchro_options o2 = doc_synchro_default.
Proof. eexists. eexists. split; [vm_compute; reflexivity|]. split; vm_compute; reflexivity. Qed.

(* ================================================================ model_refines_spec (options) *)
Lemma sf_eqb_refl : forall x, sf_eqb x x = true.
Proof.
  intros [s|s| |s m e]; simpl; auto; try (destruct s; reflexivity).
  rewrite Pos.eqb_refl, Z.eqb_refl. destruct s; reflexivity.
Qed.
Lemma float_same_refl : forall x, float_same x x = true.
Proof. intros x. unfold float_same. apply sf_eqb_refl. Qed.
Lemma list_float_same_refl : forall l, list_eqb float_same l l = true.
Proof. induction l as [|x l IH]; simpl; auto. rewrite float_same_refl, IH. reflexivity. Qed.

Lemma same_multiset3_sorted : forall l, same_multiset3 (py_sorted3 l) l = true.
Proof.
  intros l. unfold same_multiset3. rewrite py_sorted3_length, Nat.eqb_refl. simpl.
  apply andb_true_intro. split; apply forallb_forall; intros x Hx; apply existsb_exists; exists x;
    (split; [|apply float_same_refl]).
  - apply py_sorted3_perm. exact Hx.
  - apply py_sorted3_perm. exact Hx.
Qed.

Lemma zl_eqb_eq : forall a b, zl_eqb a b = true -> a = b.
Proof.
  induction a as [|x a IH]; intros [|y b] H; simpl in H; try discriminate; auto.
  apply andb_prop in H. destruct H as (H1 & H2). apply Z.eqb_eq in H1. subst. f_equal. auto.
Qed.
Lemma zl_eqb_refl : forall a, zl_eqb a a = true.
Proof. unfold zl_eqb. induction a as [|x a IH]; simpl; auto. rewrite Z.eqb_refl. exact IH. Qed.

Lemma doc_default_NoDup : NoDup doc_synchro_default.
Proof.
  unfold doc_synchro_default. repeat constructor; simpl; intros H;
    repeat (destruct H as [H|H]; [vm_compute in H; discriminate|]); exact H.
Qed.

Lemma drop_when_empty : forall (e : bool) x s, NoDup s ->
  (if e && zmem x s then remove_first x s else s) = (if e then filter (fun y => negb (Z.eqb y x)) s else s).
Proof.
  intros e x s H. destruct e; simpl; auto. destruct (zmem x s) eqn:E.
  - apply remove_first_filter. exact H.
  - symmetry. apply filter_notin_id. apply zmem_false. exact E.
Qed.

Lemma checked_is_spec : forall s0 c, NoDup s0 ->
  checked_synchro s0 c =
  (let s1 := if strs_empty (c_core_identifiers c)
             then filter (fun x => negb (Z.eqb x go_SynchronizationOptions_CORE)) s0 else s0 in
   if strs_empty (c_supvisors_list c)
   then filter (fun x => negb (Z.eqb x go_SynchronizationOptions_STRICT)) s1 else s1).
Proof.
  intros s0 c H. unfold checked_synchro. rewrite (drop_when_empty _ _ s0 H). cbv zeta.
  apply drop_when_empty. destruct (strs_empty (c_core_identifiers c)); auto. apply NoDup_filter. exact H.
Qed.

Lemma byte_ok_spec : forall lo hi b, byte_ok lo hi b = true -> exists z, b = ZOk z /\ in_range (lo, hi) z = true.
Proof. intros lo hi [z|] H; simpl in H; [|discriminate]. exists z. split; auto. Qed.

Lemma conv_group_valid : forall v a p, conv_group v = Some (a, p) ->
  in_range doc_port p && Nat.eqb (length a) 4 && forallb (in_range (0, 255)) a
  && match a with b0 :: _ => in_range (224, 239) b0 | [] => false end = true.
Proof.
  intros [|two res addr port] a p H; simpl in H; [discriminate|].
  destruct (negb two || res); [discriminate|].
  destruct addr as [|b0 [|b1 [|b2 [|b3 [|b4 l]]]]]; try discriminate.
  destruct (byte_ok 224 239 b0) eqn:E0; simpl in H; [|discriminate].
  destruct (byte_ok 0 255 b1) eqn:E1; simpl in H; [|discriminate].
  destruct (byte_ok 0 255 b2) eqn:E2; simpl in H; [|discriminate].
  destruct (byte_ok 0 255 b3) eqn:E3; simpl in H; [|discriminate].
  destruct (byte_ok go_port_min go_port_max port) eqn:E4; simpl in H; [|discriminate].
  destruct (byte_ok_spec _ _ _ E0) as (z0 & -> & R0). destruct (byte_ok_spec _ _ _ E1) as (z1 & -> & R1).
  destruct (byte_ok_spec _ _ _ E2) as (z2 & -> & R2). destruct (byte_ok_spec _ _ _ E3) as (z3 & -> & R3).
  destruct (byte_ok_spec _ _ _ E4) as (zp & -> & Rp). injection H as Ha Hp. subst a p. simpl.
  assert (R0' : in_range (0, 255) z0 = true).
  { unfold in_range in *. simpl in *. apply andb_prop in R0. destruct R0 as (A & B).
    apply Z.leb_le in A. apply Z.leb_le in B. apply andb_true_intro. split; apply Z.leb_le; lia. }
  change (in_range doc_port zp) with (in_range (go_port_min, go_port_max) zp).
  rewrite Rp, R0', R1, R2, R3, R0. reflexivity.
Qed.

Lemma conv_iface_valid : forall v a, conv_iface v = Some a ->
  Nat.eqb (length a) 4 && forallb (in_range (0, 255)) a = true.
Proof.
  intros [| |addr] a H; simpl in H; try discriminate.
  destruct addr as [|b0 [|b1 [|b2 [|b3 [|b4 l]]]]]; try discriminate.
  destruct (byte_ok 0 255 b0) eqn:E0; simpl in H; [|discriminate].
  destruct (byte_ok 0 255 b1) eqn:E1; simpl in H; [|discriminate].
  destruct (byte_ok 0 255 b2) eqn:E2; simpl in H; [|discriminate].
  destruct (byte_ok 0 255 b3) eqn:E3; simpl in H; [|discriminate].
  destruct (byte_ok_spec _ _ _ E0) as (z0 & -> & R0). destruct (byte_ok_spec _ _ _ E1) as (z1 & -> & R1).
  destruct (byte_ok_spec _ _ _ E2) as (z2 & -> & R2). destruct (byte_ok_spec _ _ _ E3) as (z3 & -> & R3).
  inversion H; subst. simpl. rewrite R0, R1, R2, R3. reflexivity.
Qed.

Lemma start_synchro_NoDup : forall c, NoDup (start_synchro doc_synchro_default c).
Proof.
  intros c. unfold start_synchro. destruct (conv_synchro (c_synchro_options c)) as [l|] eqn:E.
  - eapply conv_synchro_NoDup; eauto.
  - apply doc_default_NoDup.
Qed.

(* MAIN (options), everything but the periods: a construction yields exactly what the specification demands: every
   option in its documented range or at its default, CORE / STRICT dropped with empty lists, refusal exactly when
   nothing is left, TIMEOUT forcing CONTINUE *)
Theorem options_core_refine_spec : forall c,
  spec_accepts_core doc_synchro_default c (fst (build doc_synchro_default c)) = true.
Proof.
  intros c. pose proof (start_synchro_NoDup c) as Hnd. set (cd := doc_synchro_default) in *.
  assert (Hs : spec_synchro cd c = checked_synchro (start_synchro cd c) c).
  { rewrite (checked_is_spec _ c Hnd). reflexivity. }
  unfold spec_accepts_core. rewrite Hs. unfold build. fold (start_synchro cd c). fold (checked_synchro (start_synchro cd c) c).
  set (sync := checked_synchro (start_synchro cd c) c).
  destruct sync as [|y ys] eqn:Esync; cbn [fst]; [reflexivity|].
  cbn [is_nil_sync negb o_synchro_options o_ttl o_event_port o_synchro_timeout o_inactivity_ticks o_stats_histo
       o_auto_fence o_irix o_event_link o_conciliation o_starting o_failure o_host_stats o_proc_stats o_group o_iface].
  rewrite zl_eqb_refl, !conv_int_spec, !Z.eqb_refl, !Bool.eqb_reflx. cbn [andb].
  repeat (apply andb_true_intro; split); try reflexivity.
  - (* supvisors_failure_strategy *)
    destruct (zmem go_SynchronizationOptions_TIMEOUT (y :: ys)); cbn [andb]; [|apply Z.eqb_refl].
    destruct (Z.eqb (conv_enum go_SupvisorsFailureStrategies_values go_default_failure (c_failure c))
                    go_SupvisorsFailureStrategies_CONTINUE) eqn:E; cbn [negb]; [exact E|apply Z.eqb_refl].
  - destruct (conv_group (c_group c)) as [[a p]|] eqn:Eg; [|reflexivity]. apply (conv_group_valid _ _ _ Eg).
  - destruct (conv_iface (c_iface c)) as [a|] eqn:Ei; [|reflexivity]. apply (conv_iface_valid _ _ Ei).
Qed.

(* MAIN (options), the periods: each period is the given value if it lies in [1 ; 3600] and the default otherwise
   (a nan lies in no range); stats_periods is a rearrangement of the given values *)
Theorem options_periods_refine_spec : forall cd c, spec_accepts_periods c (fst (build cd c)) = true.
Proof.
  intros cd c. unfold spec_accepts_periods, build.
  destruct (if strs_empty (c_supvisors_list c) && _ then _ else _) as [|y ys]; cbn [fst]; [reflexivity|].
  cbn [o_collecting_period o_stats_periods].
  apply andb_true_intro. split.
  - set (d1 := float_of_Z go_default_collecting_period) in *. clearbody d1.
    destruct (c_collecting_period c) as [|p|]; simpl; try apply float_same_refl.
    destruct (period_refused p) eqn:E.
    + rewrite (refused_period_out_of_range p E). apply float_same_refl.
    + rewrite (accepted_period_in_range p E). apply float_same_refl.
  - set (dl := map float_of_Z go_default_stats_periods) in *. clearbody dl.
    destruct (c_stats_periods c) as [|l]; simpl; [apply list_float_same_refl|].
    destruct (all_some l) as [ps|] eqn:Ea.
    2:{ destruct (Nat.eqb (length l) 0 || Nat.ltb 3 (length l)); apply list_float_same_refl. }
    rewrite (all_some_length l ps Ea).
    destruct (Nat.eqb (length l) 0) eqn:E0; simpl.
    { apply Nat.eqb_eq in E0. rewrite E0. simpl. apply list_float_same_refl. }
    destruct (Nat.ltb 3 (length l)) eqn:E3; simpl.
    { apply Nat.ltb_lt in E3. assert (Nat.leb (length l) 3 = false) by (apply Nat.leb_gt; lia).
      rewrite H, andb_false_r. simpl. apply list_float_same_refl. }
    apply Nat.eqb_neq in E0. apply Nat.ltb_ge in E3.
    assert (H3 : Nat.leb (length l) 3 = true) by (apply Nat.leb_le; lia).
    destruct (length l) as [|n] eqn:El; [congruence|]. rewrite H3. cbn [andb].
    destruct (existsb period_refused ps) eqn:Ee.
    + assert (forallb period_in_range ps = false) as ->.
      { apply existsb_exists in Ee. destruct Ee as (p & Hp & Er).
        destruct (forallb period_in_range ps) eqn:Ef; auto. rewrite forallb_forall in Ef.
        specialize (Ef p Hp). rewrite (refused_period_out_of_range p Er) in Ef. discriminate. }
      apply list_float_same_refl.
    + assert (forallb period_in_range ps = true) as ->.
      { apply forallb_forall. intros p Hp. apply accepted_period_in_range.
        destruct (period_refused p) eqn:E; auto.
        assert (existsb period_refused ps = true) by (apply existsb_exists; exists p; split; assumption). congruence. }
      apply same_multiset3_sorted.
Qed.

(* the failing-input oracle accepts the model on EVERY configuration and EVERY sequence of constructions *)
Theorem options_refine_spec : forall c, check_one c (build doc_synchro_default c) = true.
Proof.
  intros c. unfold check_one.
  rewrite (options_core_refine_spec c), (options_periods_refine_spec doc_synchro_default c), class_default_frame.
  apply zl_eqb_refl.
Qed.

Theorem options_sequences_refine_spec : forall cs, check_all cs (run cs) = true.
Proof.
  intros cs. rewrite constructions_independent.
  assert (E : go_SYNCHRO_DEFAULT_OPTIONS = doc_synchro_default) by (vm_compute; reflexivity). rewrite E.
  induction cs as [|c cs IH]; simpl; [reflexivity|]. rewrite options_refine_spec, IH. reflexivity.
Qed.

Example options_refine_spec_example :
  check_all [empty_config; lists_config] (run [empty_config; lists_config]) = true.
Proof. vm_compute. reflexivity. Qed.

(* the defaults read from an options object built with an empty configuration are the documented ones
   (stats_collecting_period excepted: see collecting_period_default_differs_from_doc) *)
Lemma defaults_as_documented :
  go_default_ttl = 1 /\ go_default_timeout = 15 /\ go_default_ticks = 2 /\ go_default_histo = 200
  /\ go_default_auto_fence = false /\ go_default_irix = false
  /\ go_default_event_link = go_EventLinks_NONE /\ go_default_conciliation = go_ConciliationStrategies_USER
  /\ go_default_starting = go_StartingStrategies_CONFIG
  /\ go_default_failure = go_SupvisorsFailureStrategies_CONTINUE
  /\ go_default_host_stats = true /\ go_default_proc_stats = true
  /\ go_default_stats_periods = [10] /\ go_default_tail_limit = 1024.
Proof. vm_compute. repeat split; reflexivity. Qed.
