(* ReplicationProofs.v — proofs about model/Replication.v (C12; process-plane clause of C13).
   Sections:
     A. the admission gates of one Context (events_only_from_admitted, isolated_peer_noninterference_procs)
     B. what one ProcStatus operation does to the per-instance information (through the C11 refinement)
     C. what one receiver step does to a Context (no crash, frame, admission states)
     D. the model of one Context satisfies Spec_C13 (process plane) on every history
     E. cluster: channel / window invariant, agreement_partial and corollaries
     F. the handshake window: concrete schedules ending quiescent with a wrong view (F13) *)
From Sup Require Import ProcStatus ProcStatusProofs Replication.
From Sup Require Node.
From Coq Require Import Lia.

(* ====================================================================== *)
(* A. admission gates                                                       *)
(* ====================================================================== *)
Lemma valid_state_some : forall c j s, valid_state c j = Some s -> adm c j = Some s /\ s <> ISOLATED.
Proof.
  intros c j s H. unfold valid_state in H. destruct (adm c j) as [s'|]; [|discriminate].
  destruct s'; simpl in H; inversion H; subst; split; auto; discriminate.
Qed.

Lemma valid_state_of_adm : forall c j s, adm c j = Some s -> s <> ISOLATED -> valid_state c j = Some s.
Proof. intros c j s H N. unfold valid_state. rewrite H. destruct s; simpl; auto. contradiction. Qed.

Lemma valid_state_isolated : forall c j, adm c j = Some ISOLATED -> valid_state c j = None.
Proof. intros c j H. unfold valid_state. rewrite H. reflexivity. Qed.

Lemma valid_state_unknown : forall c j, adm c j = None -> valid_state c j = None.
Proof. intros c j H. unfold valid_state. rewrite H. reflexivity. Qed.

(* C13, process plane: a process state / forced state / removal / disability event whose sender is not CHECKED
   or RUNNING leaves the whole Context unchanged (not only its observable). *)
Theorem events_only_from_admitted : forall c o j,
  is_gated_event o = true -> rop_origin o = Some j ->
  (forall s, adm c j = Some s -> admitted s = false) ->
  rstep c o = Ok c.
Proof.
  intros c o j Hg Ho Ha.
  destruct o; simpl in Hg; try discriminate; simpl in Ho; inversion Ho; subst; simpl;
    unfold valid_state; destruct (adm c j) as [s|] eqn:E; try reflexivity;
    destruct (Node.istate_eqb s ISOLATED); try reflexivity; rewrite (Ha s eq_refl); reflexivity.
Qed.

(* the ALL_INFO notification is only taken into account in CHECKING *)
Theorem load_only_when_checking : forall c j infos nm now,
  adm c j <> Some CHECKING -> rstep c (LoadAll j infos nm now) = Ok c.
Proof.
  intros c j infos nm now H. simpl. unfold valid_state. destruct (adm c j) as [s|]; [|reflexivity].
  destruct s; simpl; try reflexivity. exfalso. apply H. reflexivity.
Qed.

(* nothing that claims to come from an ISOLATED (or unknown) instance changes anything: Context.is_valid *)
Theorem isolated_peer_noninterference_procs : forall c o j,
  rop_origin o = Some j -> (adm c j = Some ISOLATED \/ adm c j = None) -> rstep c o = Ok c.
Proof.
  intros c o j Ho Hi.
  assert (V : valid_state c j = None).
  { destruct Hi as [Hi|Hi]; [apply valid_state_isolated|apply valid_state_unknown]; exact Hi. }
  destruct o; simpl in Ho; inversion Ho; subst; simpl; rewrite V; reflexivity.
Qed.

Corollary events_only_from_admitted_obs : forall c o j c',
  is_gated_event o = true -> rop_origin o = Some j ->
  (forall s, adm c j = Some s -> admitted s = false) ->
  rstep c o = Ok c' -> robserve c' = robserve c.
Proof. intros c o j c' Hg Ho Ha H. rewrite (events_only_from_admitted c o j Hg Ho Ha) in H. inversion H. reflexivity. Qed.

Fixpoint rrun_state (c : rctx) (ops : list rop) : result rctx :=
  match ops with
  | [] => Ok c
  | o :: r => bind (rstep c o) (fun c' => rrun_state c' r)
  end.

(* the hypotheses are satisfiable, and the gate is not vacuous: the same event is refused while the sender is
   CHECKING and taken into account once it is CHECKED *)
Definition demo_checking : rctx :=
  match rrun_state (rinit 1 [1; 2]) [Tick 1 5 100; Auth 1 true 101 101; Tick 2 7 102;
                                     LoadAll 2 [(7, RUNNING, true, false)] 8 103] with
  | Ok c => c | Crash _ => rinit 1 [1; 2] end.

Example demo_gate_closed :
  adm demo_checking 2 = Some CHECKING
  /\ rstep demo_checking (ProcEvent 2 7 STOPPED true 9 104) = Ok demo_checking.
Proof. split; [vm_compute; reflexivity|]. apply (events_only_from_admitted _ _ 2); try reflexivity.
  intros s H. vm_compute in H. inversion H. reflexivity. Qed.

Example demo_gate_open :
  match rrun_state demo_checking [Auth 2 true 104 104; ProcEvent 2 7 STOPPED true 9 105] with
  | Ok c => rvinfo c 7 2 = Some (STOPPED, true) /\ rvinfo demo_checking 7 2 = Some (RUNNING, true)
  | Crash _ => False
  end.
Proof. vm_compute. split; reflexivity. Qed.

Example demo_isolated :
  match rrun_state demo_checking [Auth 2 false 104 104] with
  | Ok c => adm c 2 = Some ISOLATED
            /\ rstep c (Added 2 (8, RUNNING, true, false) 9 105) = Ok c
            /\ rstep c (Tick 2 9 105) = Ok c
  | Crash _ => False
  end.
Proof. vm_compute. repeat split; reflexivity. Qed.

(* ====================================================================== *)
(* B. one ProcStatus operation, seen through the per-instance information   *)
(* ====================================================================== *)
Definition svinfo (sp : spec) (i : Z) : option tinfo :=
  match aget i (sp_infos sp) with Some si => Some (s_state si, s_expected si) | None => None end.

Lemma pvinfo_R : forall p sp i, R p sp -> pvinfo p i = svinfo sp i.
Proof.
  intros p sp i [HR _]. unfold pvinfo, svinfo.
  pose proof (arel_aget irel i _ _ (rc_infos _ _ _ HR)) as G.
  destruct (aget i (p_infos p)) as [inf|]; destruct (aget i (sp_infos sp)) as [si|]; try contradiction; auto.
  destruct G as [G1 [G2 _]]. rewrite G1, G2. reflexivity.
Qed.

Lemma amem_pvinfo : forall p i, amem i (p_infos p) = match pvinfo p i with Some _ => true | None => false end.
Proof. intros p i. unfold amem, pvinfo. destruct (aget i (p_infos p)); reflexivity. Qed.

Lemma amem_R : forall p sp i, R p sp -> amem i (sp_infos sp) = amem i (p_infos p).
Proof.
  intros p sp i HR. rewrite amem_pvinfo, (pvinfo_R p sp i HR). unfold amem, svinfo.
  destruct (aget i (sp_infos sp)); reflexivity.
Qed.

Lemma svinfo_report : forall sp j st e evt now cf i,
  svinfo (spec_report sp j st e evt now cf) i = if Z.eqb i j then Some (st, e) else svinfo sp i.
Proof.
  intros sp j st e evt now cf i. unfold spec_report, svinfo. cbn [sp_infos].
  destruct (Z.eqb_spec i j) as [E|E].
  - subst. rewrite aget_aset_same. reflexivity.
  - rewrite aget_aset_other by exact E. reflexivity.
Qed.

(* a ProcessStatus that the C11 refinement relates to some specification state *)
Definition wfp (p : proc) : Prop := exists sp, R p sp.

Lemma wfp_init : wfp proc_init.
Proof. exists spec_init. exact R_init. Qed.

Lemma wfp_add_info : forall p j st e nm d now, wfp p ->
  exists p', add_info p j st e nm d now = Ok p' /\ wfp p'
    /\ forall i, pvinfo p' i = if Z.eqb i j then Some (st, e) else pvinfo p i.
Proof.
  intros p j st e nm d now [sp HR].
  destruct (add_info_refines p sp j st e nm d now HR) as [p' [E HR']].
  exists p'. split; [exact E|]. split; [eexists; exact HR'|].
  intros i. rewrite (pvinfo_R _ _ i HR'), (pvinfo_R _ _ i HR). simpl. apply svinfo_report.
Qed.

Lemma wfp_update_info : forall p j st e nm now ext, wfp p -> amem j (p_infos p) = true ->
  exists p', update_info p j st e nm now ext = Ok p' /\ wfp p'
    /\ forall i, pvinfo p' i = if Z.eqb i j then Some (st, e) else pvinfo p i.
Proof.
  intros p j st e nm now ext [sp HR] Hm.
  assert (Hm' : amem j (sp_infos sp) = true) by (rewrite (amem_R p sp j HR); exact Hm).
  destruct (update_info_refines p sp j st e nm now ext HR Hm') as [p' [E HR']].
  exists p'. split; [exact E|]. split; [eexists; exact HR'|].
  intros i. rewrite (pvinfo_R _ _ i HR'), (pvinfo_R _ _ i HR). apply svinfo_report.
Qed.

Lemma wfp_force : forall p t st et, wfp p ->
  wfp (fst (force_state p t st et)) /\ forall i, pvinfo (fst (force_state p t st et)) i = pvinfo p i.
Proof.
  intros p t st et [sp HR].
  destruct (step_refines p sp (Force t st et 0) HR eq_refl) as [p' [E HR']].
  simpl in E. inversion E; subst p'. split; [eexists; exact HR'|].
  intros i. rewrite (pvinfo_R _ _ i HR'), (pvinfo_R _ _ i HR). simpl.
  destruct (match aget t (sp_infos sp) with Some si => s_evt si <=? et | None => true end); reflexivity.
Qed.

Lemma wfp_disable : forall p j b, wfp p ->
  exists p', step p (Disable j b) = Ok p' /\ wfp p' /\ forall i, pvinfo p' i = pvinfo p i.
Proof.
  intros p j b [sp HR].
  destruct (step_refines p sp (Disable j b) HR eq_refl) as [p' [E HR']].
  exists p'. split; [exact E|]. split; [eexists; exact HR'|].
  intros i. rewrite (pvinfo_R _ _ i HR'), (pvinfo_R _ _ i HR). reflexivity.
Qed.

Lemma wfp_tick_times : forall p j t, wfp p ->
  exists p', tick_times j t p = Ok p' /\ wfp p' /\ forall i, pvinfo p' i = pvinfo p i.
Proof.
  intros p j t [sp HR]. unfold tick_times.
  destruct (step_refines p sp (TickTimes j t) HR eq_refl) as [p' [E HR']].
  exists p'. split; [exact E|]. split; [eexists; exact HR'|].
  intros i. rewrite (pvinfo_R _ _ i HR'), (pvinfo_R _ _ i HR). simpl.
  destruct (aget j (sp_infos sp)) as [si|] eqn:Ej; [|reflexivity].
  unfold svinfo. cbn [sp_infos]. destruct (Z.eq_dec i j) as [Eij|Eij].
  - subst. rewrite aget_aset_same, Ej. reflexivity.
  - rewrite aget_aset_other by exact Eij. reflexivity.
Qed.

Lemma wfp_invalidate : forall p j now, wfp p ->
  exists p', invalidate p j now = Ok p' /\ wfp p' /\ forall i, i <> j -> pvinfo p' i = pvinfo p i.
Proof.
  intros p j now [sp HR].
  destruct (step_refines p sp (Invalidate j now) HR eq_refl) as [p' [E HR']].
  exists p'. split; [exact E|]. split; [eexists; exact HR'|].
  intros i Hij. rewrite (pvinfo_R _ _ i HR'), (pvinfo_R _ _ i HR). simpl.
  destruct (aget j (sp_infos sp)) as [si|]; [|reflexivity].
  destruct (s_listed si); [|reflexivity].
  rewrite svinfo_report. destruct (Z.eqb_spec i j); [contradiction|reflexivity].
Qed.

Lemma wfp_invalidate_proc : forall p j now, wfp p ->
  exists p', invalidate_proc j now p = Ok p' /\ wfp p' /\ forall i, i <> j -> pvinfo p' i = pvinfo p i.
Proof.
  intros p j now H. unfold invalidate_proc.
  destruct (is_running (p_state p) && zmem j (p_running p)).
  - apply wfp_invalidate. exact H.
  - exists p. split; [reflexivity|]. split; [exact H|]. reflexivity.
Qed.

Lemma wfp_remove : forall p j, wfp p -> amem j (p_infos p) = true ->
  exists p', remove_identifier p j = Ok p' /\ wfp p' /\ forall i, i <> j -> pvinfo p' i = pvinfo p i.
Proof.
  intros p j [sp HR] Hm.
  assert (Hm' : wf_op sp (Remove j) = true) by (simpl; rewrite (amem_R p sp j HR); exact Hm).
  destruct (step_refines p sp (Remove j) HR Hm') as [p' [E HR']].
  exists p'. split; [exact E|]. split; [eexists; exact HR'|].
  intros i Hij. rewrite (pvinfo_R _ _ i HR'), (pvinfo_R _ _ i HR). simpl. unfold svinfo. cbn [sp_infos].
  rewrite aget_adel by (eapply Rcore_skeys; apply HR).
  destruct (Z.eqb_spec i j); [contradiction|reflexivity].
Qed.

(* ====================================================================== *)
(* C. one receiver step                                                     *)
(* ====================================================================== *)
Definition Fwfp (ps : alist proc) : Prop := Forall (fun kp => wfp (snd kp)) ps.
Definition rwf (c : rctx) : Prop := Fwfp (r_procs c).

Definition pvinfo_in (ps : alist proc) (k i : Z) : option tinfo :=
  match aget k ps with Some p => pvinfo p i | None => None end.

Lemma rvinfo_eq : forall c k i, rvinfo c k i = pvinfo_in (r_procs c) k i.
Proof. reflexivity. Qed.

Lemma Fwfp_aget : forall ps k p, Fwfp ps -> aget k ps = Some p -> wfp p.
Proof.
  intros ps k p H E. unfold Fwfp in H. rewrite Forall_forall in H.
  apply (H (k, p)). apply aget_In. exact E.
Qed.

Lemma Fwfp_aset : forall ps k p, Fwfp ps -> wfp p -> Fwfp (aset k p ps).
Proof. intros ps k p H Hp. apply (Forall_aset wfp); assumption. Qed.

Lemma pvinfo_in_aset : forall ps k0 p' k i,
  pvinfo_in (aset k0 p' ps) k i = if Z.eqb k k0 then pvinfo p' i else pvinfo_in ps k i.
Proof.
  intros ps k0 p' k i. unfold pvinfo_in. destruct (Z.eqb_spec k k0) as [E|E].
  - subst. rewrite aget_aset_same. reflexivity.
  - rewrite aget_aset_other by exact E. reflexivity.
Qed.

Lemma rinit_rwf : forall me peers, rwf (rinit me peers).
Proof. intros. constructor. Qed.

(* ---- load_processes ---- *)
Lemma load_infos_ok : forall infos ps j nm now, Fwfp ps ->
  exists ps', load_infos ps j infos nm now = Ok ps' /\ Fwfp ps'
    /\ forall k i, pvinfo_in ps' k i =
         if Z.eqb i j then overlay_k infos k (pvinfo_in ps k j) else pvinfo_in ps k i.
Proof.
  induction infos as [|[[[k0 st] e] d] r IH]; intros ps j nm now H.
  - exists ps. split; [reflexivity|]. split; [exact H|].
    intros k i. simpl. destruct (Z.eqb_spec i j); subst; reflexivity.
  - simpl.
    set (p := match aget k0 ps with Some p => p | None => proc_init end).
    assert (Hp : wfp p).
    { unfold p. destruct (aget k0 ps) as [p0|] eqn:E; [eapply Fwfp_aget; eassumption|exact wfp_init]. }
    assert (Hpv : forall i, pvinfo p i = pvinfo_in ps k0 i).
    { intros i. unfold p, pvinfo_in. destruct (aget k0 ps); reflexivity. }
    destruct (wfp_add_info p j st e nm d now Hp) as [p' [E [Hp' Hv]]].
    rewrite E. simpl.
    destruct (IH (aset k0 p' ps) j nm now (Fwfp_aset _ _ _ H Hp')) as [ps' [E' [H' Hv']]].
    exists ps'. split; [exact E'|]. split; [exact H'|].
    intros k i. rewrite Hv'. rewrite !pvinfo_in_aset.
    destruct (Z.eqb_spec i j) as [Eij|Eij].
    + subst i. rewrite Hv, Z.eqb_refl.
      destruct (Z.eqb_spec k k0) as [Ek|Ek].
      * subst. rewrite Z.eqb_refl. reflexivity.
      * destruct (Z.eqb_spec k0 k); [congruence|reflexivity].
    + destruct (Z.eqb_spec k k0) as [Ek|Ek]; [|reflexivity].
      subst. rewrite Hv. destruct (Z.eqb_spec i j); [contradiction|]. apply Hpv.
Qed.

(* ---- a ProcStatus operation mapped over every process ---- *)
Lemma map_procs_ok : forall (f : proc -> result proc) (K : Z -> Prop),
  (forall p, wfp p -> exists p', f p = Ok p' /\ wfp p' /\ forall i, K i -> pvinfo p' i = pvinfo p i) ->
  forall ps, Fwfp ps ->
  exists ps', map_procs f ps = Ok ps' /\ Fwfp ps'
    /\ forall k i, K i -> pvinfo_in ps' k i = pvinfo_in ps k i.
Proof.
  intros f K Hf. induction ps as [|[k0 p] r IH]; intros H.
  - exists []. split; [reflexivity|]. split; [constructor|]. reflexivity.
  - inversion H as [|x l Hp Hr]; subst. simpl in Hp.
    destruct (Hf p Hp) as [p' [E [Hp' Hv]]].
    destruct (IH Hr) as [r' [E' [Hr' Hv']]].
    simpl. rewrite E. simpl. rewrite E'. simpl.
    exists ((k0, p') :: r'). split; [reflexivity|]. split; [constructor; assumption|].
    intros k i Hi. unfold pvinfo_in. simpl. destruct (Z.eqb k k0).
    + apply Hv. exact Hi.
    + apply (Hv' k i Hi).
Qed.

(* ---- the instance state setter ---- *)
Lemma adm_set_adms : forall c a j, adm (set_adms c a) j = match aget j a with Some sc => Some (fst sc) | None => None end.
Proof. reflexivity. Qed.

Lemma set_adm_ok : forall c j s ct st now,
  aget j (r_adm c) = Some (s, ct) -> (s = st \/ Node.inst_transition_ok s st = true) ->
  exists c', set_adm c j st now = Ok c' /\ r_procs c' = r_procs c /\ r_me c' = r_me c
    /\ (forall i, adm c' i = if Z.eqb i j then Some st else adm c i)
    /\ (forall i, chk c' i = if Z.eqb i j
                             then (if Node.istate_eqb s st then ct
                                   else match st with Node.CHECKING => now | _ => ct end)
                             else chk c i).
Proof.
  intros c j s ct st now E H. unfold set_adm. rewrite E.
  destruct (Node.istate_eqb s st) eqn:Es.
  - assert (s = st) by (destruct s, st; simpl in Es; try discriminate; reflexivity). subst st.
    exists c. split; [reflexivity|]. repeat split; try reflexivity.
    + intros i. unfold adm. destruct (Z.eqb_spec i j); [subst; rewrite E|]; reflexivity.
    + intros i. unfold chk. destruct (Z.eqb_spec i j); [subst; rewrite E|]; reflexivity.
  - destruct H as [H|H]; [subst; destruct st; discriminate|]. rewrite H.
    eexists. split; [reflexivity|]. repeat split; try reflexivity.
    + intros i. unfold adm. cbn [set_adms r_adm]. destruct (Z.eqb_spec i j) as [Eij|Eij].
      * subst. rewrite aget_aset_same. reflexivity.
      * rewrite aget_aset_other by exact Eij. reflexivity.
    + intros i. unfold chk. cbn [set_adms r_adm]. destruct (Z.eqb_spec i j) as [Eij|Eij].
      * subst. rewrite aget_aset_same. reflexivity.
      * rewrite aget_aset_other by exact Eij. reflexivity.
Qed.

Lemma adm_aget : forall c j s, adm c j = Some s -> exists ct, aget j (r_adm c) = Some (s, ct) /\ chk c j = ct.
Proof.
  intros c j s H. unfold adm in H. unfold chk. destruct (aget j (r_adm c)) as [[s' ct]|]; [|discriminate].
  inversion H; subst. exists ct. auto.
Qed.

(* the transitions used by the handlers, re-checked against the reflected table *)
Lemma trans_table :
  Node.inst_transition_ok ISTOPPED CHECKING = true /\ Node.inst_transition_ok CHECKING CHECKED = true
  /\ Node.inst_transition_ok CHECKING ISOLATED = true /\ Node.inst_transition_ok CHECKING ISTOPPED = true
  /\ Node.inst_transition_ok CHECKING IFAILED = true /\ Node.inst_transition_ok CHECKED IFAILED = true
  /\ Node.inst_transition_ok IRUNNING IFAILED = true /\ Node.inst_transition_ok CHECKED IRUNNING = true
  /\ Node.inst_transition_ok IFAILED ISTOPPED = true /\ Node.inst_transition_ok IFAILED ISOLATED = true.
Proof. vm_compute. repeat split; reflexivity. Qed.

(* ---- ProcEvent ---- *)
Definition applies (c : rctx) (j k : Z) : bool :=
  match valid_state c j with
  | Some s => admitted s && match rvinfo c k j with Some _ => true | None => false end
  | None => false
  end.

Lemma rstep_proc_event : forall c j k st e nm now, rwf c ->
  exists c', rstep c (ProcEvent j k st e nm now) = Ok c' /\ rwf c' /\ r_adm c' = r_adm c /\ r_me c' = r_me c
    /\ (applies c j k = false -> c' = c)
    /\ forall k' i', rvinfo c' k' i' =
         if applies c j k && Z.eqb k' k && Z.eqb i' j then Some (st, e) else rvinfo c k' i'.
Proof.
  intros c j k st e nm now H.
  assert (Hno : applies c j k = false -> rstep c (ProcEvent j k st e nm now) = Ok c).
  { unfold applies, rvinfo. simpl rstep. destruct (valid_state c j) as [s|]; [|reflexivity].
    destruct (admitted s); [|reflexivity]. simpl. destruct (aget k (r_procs c)) as [p|]; [|reflexivity].
    rewrite amem_pvinfo. destruct (pvinfo p j); [discriminate|reflexivity]. }
  destruct (applies c j k) eqn:Ea.
  - unfold applies, rvinfo in Ea. simpl rstep.
    destruct (valid_state c j) as [s|]; [|discriminate].
    destruct (admitted s); [|discriminate]. simpl in Ea.
    destruct (aget k (r_procs c)) as [p|] eqn:Ek; [|discriminate].
    destruct (pvinfo p j) as [t|] eqn:Ev; [|discriminate].
    assert (Hp : wfp p) by (eapply Fwfp_aget; eassumption).
    assert (Hm : amem j (p_infos p) = true) by (rewrite amem_pvinfo, Ev; reflexivity).
    destruct (wfp_update_info p j st e nm now true Hp Hm) as [p' [E [Hp' Hv]]].
    rewrite Hm, E. cbn [bind]. eexists. split; [reflexivity|].
    split; [unfold rwf; cbn [set_procs r_procs]; apply Fwfp_aset; assumption|].
    split; [reflexivity|]. split; [reflexivity|]. split; [discriminate|].
    intros k' i'. rewrite !rvinfo_eq. cbn [set_procs r_procs]. rewrite pvinfo_in_aset.
    destruct (Z.eqb_spec k' k) as [Ekk|Ekk]; [|reflexivity].
    subst k'. rewrite Hv. simpl. unfold pvinfo_in. rewrite Ek. reflexivity.
  - exists c. rewrite (Hno eq_refl). repeat split; auto.
Qed.

(* ---- LoadAll ---- *)
Definition checking_b (c : rctx) (j : Z) : bool :=
  match adm c j with Some Node.CHECKING => true | _ => false end.

Lemma rstep_load_all : forall c j infos nm now, rwf c ->
  exists c', rstep c (LoadAll j infos nm now) = Ok c' /\ rwf c' /\ r_adm c' = r_adm c /\ r_me c' = r_me c
    /\ forall k i, rvinfo c' k i =
         if checking_b c j && Z.eqb i j then overlay_k infos k (rvinfo c k j) else rvinfo c k i.
Proof.
  intros c j infos nm now H. simpl rstep. unfold checking_b, valid_state.
  destruct (adm c j) as [s|]; [|exists c; repeat split; auto].
  destruct s; simpl; try (exists c; repeat split; auto; fail).
  destruct (load_infos_ok infos (r_procs c) j nm now H) as [ps' [E [H' Hv]]].
  rewrite E. simpl. eexists. split; [reflexivity|]. split; [exact H'|]. split; [reflexivity|]. split; [reflexivity|].
  intros k i. rewrite !rvinfo_eq. cbn [set_procs r_procs]. apply Hv.
Qed.

(* ---- Tick ---- *)
Definition tick_starts (c : rctx) (j : Z) : bool :=
  match adm c j with
  | Some Node.ISTOPPED => Z.eqb j (r_me c) || match adm c (r_me c) with Some sl => admitted sl | None => false end
  | _ => false
  end.

Lemma rstep_tick : forall c j rmt now, rwf c ->
  exists c', rstep c (Tick j rmt now) = Ok c' /\ rwf c' /\ r_me c' = r_me c
    /\ (forall k i, rvinfo c' k i = rvinfo c k i)
    /\ (forall i, adm c' i = if tick_starts c j && Z.eqb i j then Some CHECKING else adm c i)
    /\ (forall i, chk c' i = if tick_starts c j && Z.eqb i j then now else chk c i).
Proof.
  intros c j rmt now H. simpl rstep. unfold tick_starts, valid_state.
  destruct (adm c j) as [s|] eqn:Ea; [|exists c; repeat split; auto].
  destruct (Node.istate_eqb s ISOLATED) eqn:Eiso.
  { exists c. repeat split; auto; intros; destruct s; simpl in *; try discriminate; reflexivity. }
  destruct (Z.eqb j (r_me c) || match adm c (r_me c) with Some sl => admitted sl | None => false end) eqn:Ec.
  2:{ exists c. repeat split; auto; intros; destruct s; reflexivity. }
  destruct (map_procs_ok (tick_times j rmt) (fun _ => True)) with (ps := r_procs c) as [ps' [E [H' Hv]]].
  { intros p Hp. destruct (wfp_tick_times p j rmt Hp) as [p' [E1 [E2 E3]]]. exists p'. auto. }
  { exact H. }
  rewrite E. simpl.
  destruct (Node.istate_eqb s ISTOPPED) eqn:Es.
  - assert (s = ISTOPPED) by (destruct s; simpl in Es; try discriminate; reflexivity). subst s.
    destruct (adm_aget c j _ Ea) as [ct [Eg _]].
    destruct (set_adm_ok (set_procs c ps') j ISTOPPED ct CHECKING now Eg) as [c' [E1 [E2 [E3 [E4 E5]]]]].
    { right. apply trans_table. }
    rewrite E1. exists c'. split; [reflexivity|]. split; [unfold rwf; rewrite E2; exact H'|].
    split; [exact E3|]. split.
    + intros k i. rewrite !rvinfo_eq, E2. apply Hv. exact I.
    + split; intros i; [rewrite E4|rewrite E5]; simpl; destruct (Z.eqb i j); reflexivity.
  - eexists. split; [reflexivity|]. split; [exact H'|]. split; [reflexivity|]. split.
    + intros k i. rewrite !rvinfo_eq. apply Hv. exact I.
    + split; intros i; destruct s; simpl in *; try discriminate; reflexivity.
Qed.

(* ---- Auth ---- *)
Definition auth_accepted (c : rctx) (j ts : Z) : bool := checking_b c j && Z.ltb (chk c j) ts.
Definition auth_target (c : rctx) (j : Z) (ok : bool) : istate :=
  if ok then CHECKED else if Z.eqb j (r_me c) then ISTOPPED else ISOLATED.

Lemma rstep_auth : forall c j ok ts now,
  exists c', rstep c (Auth j ok ts now) = Ok c' /\ r_procs c' = r_procs c /\ r_me c' = r_me c
    /\ (forall i, adm c' i = if auth_accepted c j ts && Z.eqb i j then Some (auth_target c j ok) else adm c i)
    /\ (forall i, chk c' i = chk c i).
Proof.
  intros c j ok ts now. simpl rstep. unfold auth_accepted, checking_b, valid_state, auth_target.
  destruct (adm c j) as [s|] eqn:Ea; [|exists c; repeat split; auto].
  destruct s; simpl; try (exists c; repeat split; auto; fail).
  destruct (Z.ltb (chk c j) ts); [|exists c; repeat split; auto].
  destruct (adm_aget c j _ Ea) as [ct [Eg Ec]].
  set (tgt := if ok then CHECKED else if Z.eqb j (r_me c) then ISTOPPED else ISOLATED).
  destruct (set_adm_ok c j CHECKING ct tgt now Eg) as [c' [E1 [E2 [E3 [E4 E5]]]]].
  { right. unfold tgt. destruct ok; [|destruct (Z.eqb j (r_me c))]; apply trans_table. }
  exists c'. split.
  - unfold tgt in E1. destruct ok; [exact E1|]. exact E1.
  - split; [exact E2|]. split; [exact E3|]. split.
    + intros i. rewrite E4. destruct (Z.eqb i j); reflexivity.
    + intros i. rewrite E5. destruct (Z.eqb_spec i j) as [Eij|]; [|reflexivity]. subst i.
      rewrite Ec. unfold tgt. destruct ok; [reflexivity|]. destruct (Z.eqb j (r_me c)); reflexivity.
Qed.

(* ---- Failure ---- *)
Definition is_active (c : rctx) (j : Z) : bool :=
  match adm c j with Some s => Node.has_active_state s | None => false end.

Lemma rstep_failure : forall c j now,
  exists c', rstep c (Failure j now) = Ok c' /\ r_procs c' = r_procs c /\ r_me c' = r_me c
    /\ (forall i, adm c' i = if is_active c j && Z.eqb i j then Some IFAILED else adm c i)
    /\ (forall i, chk c' i = chk c i).
Proof.
  intros c j now. simpl rstep. unfold is_active, valid_state.
  destruct (adm c j) as [s|] eqn:Ea; [|exists c; repeat split; auto].
  destruct (Node.istate_eqb s ISOLATED) eqn:Eiso.
  { exists c. repeat split; auto. intros i. destruct s; simpl in *; try discriminate. reflexivity. }
  destruct (Node.has_active_state s) eqn:Eact; [|exists c; repeat split; auto].
  destruct (adm_aget c j _ Ea) as [ct [Eg Ec]].
  destruct (set_adm_ok c j s ct IFAILED now Eg) as [c' [E1 [E2 [E3 [E4 E5]]]]].
  { destruct s; simpl in Eact; try discriminate; [right|right|right|left]; try apply trans_table; reflexivity. }
  exists c'. split; [exact E1|]. split; [exact E2|]. split; [exact E3|]. split.
  - intros i. rewrite E4. destruct (Z.eqb i j); reflexivity.
  - intros i. rewrite E5. destruct (Z.eqb_spec i j) as [Eij|]; [|reflexivity]. subst i. rewrite Ec.
    destruct (Node.istate_eqb s IFAILED); reflexivity.
Qed.

(* ---- invalidate_failed / activate_checked ---- *)
Definition failed_b (c : rctx) (i : Z) : bool := match adm c i with Some Node.FAILED => true | _ => false end.
Definition checked_b (c : rctx) (i : Z) : bool := match adm c i with Some Node.CHECKED => true | _ => false end.
Definition inv_target (c : rctx) (iso : bool) (j : Z) : istate :=
  if Z.eqb j (r_me c) then ISTOPPED else if iso then ISOLATED else ISTOPPED.

Lemma adm_in_keys : forall c i s, adm c i = Some s -> zmem i (akeys (r_adm c)) = true.
Proof.
  intros c i s H. apply zmem_In. unfold adm in H.
  destruct (aget i (r_adm c)) as [sc|] eqn:E; [|discriminate].
  apply aget_In in E. unfold akeys. apply in_map_iff. exists (i, sc). auto.
Qed.

Lemma invalidate_failed_ids_ok : forall ids c iso now, rwf c ->
  exists c', invalidate_failed_ids c ids iso now = Ok c' /\ rwf c' /\ r_me c' = r_me c
    /\ (forall i, adm c' i = if zmem i ids && failed_b c i then Some (inv_target c iso i) else adm c i)
    /\ (forall i, chk c' i = chk c i)
    /\ (forall k i, failed_b c i = false -> rvinfo c' k i = rvinfo c k i).
Proof.
  induction ids as [|j r IH]; intros c iso now H.
  - exists c. repeat split; auto.
  - simpl invalidate_failed_ids.
    destruct (adm c j) as [s|] eqn:Ea.
    2:{ destruct (IH c iso now H) as [c' [E [H' [Hme [Ha [Hc Hv]]]]]].
        exists c'. split; [exact E|]. split; [exact H'|]. split; [exact Hme|]. split; [|split; assumption].
        intros i. rewrite Ha. simpl zmem. destruct (Z.eqb_spec i j) as [Eij|]; [|reflexivity].
        subst. unfold failed_b. rewrite Ea. rewrite andb_false_r. reflexivity. }
    assert (Hskip : s <> IFAILED ->
      exists c', invalidate_failed_ids c r iso now = Ok c' /\ rwf c' /\ r_me c' = r_me c
        /\ (forall i, adm c' i = if zmem i (j :: r) && failed_b c i then Some (inv_target c iso i) else adm c i)
        /\ (forall i, chk c' i = chk c i)
        /\ (forall k i, failed_b c i = false -> rvinfo c' k i = rvinfo c k i)).
    { intros Hs. destruct (IH c iso now H) as [c' [E [H' [Hme [Ha [Hc Hv]]]]]].
      exists c'. split; [exact E|]. split; [exact H'|]. split; [exact Hme|]. split; [|split; assumption].
      intros i. rewrite Ha. simpl zmem. destruct (Z.eqb_spec i j) as [Eij|]; [|reflexivity].
      subst. unfold failed_b. rewrite Ea. destruct s; try rewrite andb_false_r; try reflexivity. contradiction. }
    destruct s; try (apply Hskip; discriminate). clear Hskip.
    set (tgt := if Z.eqb j (r_me c) then ISTOPPED else if iso then ISOLATED else ISTOPPED).
    destruct (adm_aget c j _ Ea) as [ct [Eg Ec]].
    destruct (set_adm_ok c j IFAILED ct tgt now Eg) as [c1 [E1 [E2 [E3 [E4 E5]]]]].
    { right. unfold tgt. destruct (Z.eqb j (r_me c)); [|destruct iso]; apply trans_table. }
    rewrite E1. cbn [bind].
    destruct (map_procs_ok (invalidate_proc j now) (fun i => i <> j)) with (ps := r_procs c1) as [ps [Em [Hps Hvps]]].
    { intros p Hp. apply wfp_invalidate_proc. exact Hp. }
    { rewrite E2. exact H. }
    rewrite Em. cbn [bind].
    destruct (IH (set_procs c1 ps) iso now Hps) as [c' [E [H' [Hme [Ha [Hc Hv]]]]]].
    exists c'. split; [exact E|]. split; [exact H'|]. split; [rewrite Hme; exact E3|].
    assert (Hadm2 : forall i, adm (set_procs c1 ps) i = if Z.eqb i j then Some tgt else adm c i) by (intros i; apply E4).
    assert (Htgt : tgt <> IFAILED) by (unfold tgt; destruct (Z.eqb j (r_me c)); [|destruct iso]; discriminate).
    split; [|split].
    + intros i. rewrite Ha. unfold failed_b. rewrite Hadm2. unfold inv_target. cbn [set_procs r_me]. rewrite E3.
      simpl zmem. destruct (Z.eqb_spec i j) as [Eij|Eij].
      * subst i. rewrite Ea. simpl.
        assert (Hnf : match tgt with Node.FAILED => true | _ => false end = false)
          by (unfold tgt; destruct (Z.eqb j (r_me c)); [|destruct iso]; reflexivity).
        rewrite Hnf, andb_false_r. reflexivity.
      * reflexivity.
    + intros i. rewrite Hc. unfold chk. cbn [set_procs r_adm]. fold (chk c1 i). rewrite E5.
      destruct (Z.eqb_spec i j) as [Eij|]; [|reflexivity]. subst i. rewrite Ec.
      unfold tgt. destruct (Z.eqb j (r_me c)); [|destruct iso]; reflexivity.
    + intros k i Hf.
      assert (Hij : i <> j). { intros ->. unfold failed_b in Hf. rewrite Ea in Hf. discriminate. }
      rewrite Hv.
      * rewrite !rvinfo_eq. cbn [set_procs r_procs]. rewrite (Hvps k i Hij), E2. reflexivity.
      * unfold failed_b. rewrite Hadm2. destruct (Z.eqb_spec i j); [contradiction|]. exact Hf.
Qed.

Lemma rstep_invalidate_failed : forall c iso now, rwf c ->
  exists c', rstep c (InvalidateFailed iso now) = Ok c' /\ rwf c' /\ r_me c' = r_me c
    /\ (forall i, adm c' i = if failed_b c i then Some (inv_target c iso i) else adm c i)
    /\ (forall i, chk c' i = chk c i)
    /\ (forall k i, failed_b c i = false -> rvinfo c' k i = rvinfo c k i).
Proof.
  intros c iso now H. simpl rstep.
  destruct (invalidate_failed_ids_ok (akeys (r_adm c)) c iso now H) as [c' [E [H' [Hme [Ha [Hc Hv]]]]]].
  exists c'. split; [exact E|]. split; [exact H'|]. split; [exact Hme|]. split; [|split; assumption].
  intros i. rewrite Ha. unfold failed_b. destruct (adm c i) as [s|] eqn:Ea.
  - rewrite (adm_in_keys c i s Ea). reflexivity.
  - rewrite andb_false_r. reflexivity.
Qed.

Lemma activate_ids_ok : forall ids c now,
  exists c', activate_ids c ids now = Ok c' /\ r_procs c' = r_procs c /\ r_me c' = r_me c
    /\ (forall i, adm c' i = if zmem i ids && checked_b c i then Some IRUNNING else adm c i)
    /\ (forall i, chk c' i = chk c i).
Proof.
  induction ids as [|j r IH]; intros c now.
  - exists c. repeat split; auto.
  - simpl activate_ids.
    assert (Hskip : checked_b c j = false ->
      exists c', activate_ids c r now = Ok c' /\ r_procs c' = r_procs c /\ r_me c' = r_me c
        /\ (forall i, adm c' i = if zmem i (j :: r) && checked_b c i then Some IRUNNING else adm c i)
        /\ (forall i, chk c' i = chk c i)).
    { intros Hs. destruct (IH c now) as [c' [E [H' [Hme [Ha Hc]]]]].
      exists c'. split; [exact E|]. split; [exact H'|]. split; [exact Hme|]. split; [|exact Hc].
      intros i. rewrite Ha. simpl zmem. destruct (Z.eqb_spec i j) as [Eij|]; [|reflexivity].
      subst. rewrite Hs, !andb_false_r. reflexivity. }
    destruct (adm c j) as [s|] eqn:Ea; [|apply Hskip; unfold checked_b; rewrite Ea; reflexivity].
    destruct s; try (apply Hskip; unfold checked_b; rewrite Ea; reflexivity). clear Hskip.
    destruct (adm_aget c j _ Ea) as [ct [Eg Ec]].
    destruct (set_adm_ok c j CHECKED ct IRUNNING now Eg) as [c1 [E1 [E2 [E3 [E4 E5]]]]].
    { right. apply trans_table. }
    rewrite E1. cbn [bind].
    destruct (IH c1 now) as [c' [E [H' [Hme [Ha Hc]]]]].
    exists c'. split; [exact E|]. split; [rewrite H'; exact E2|]. split; [rewrite Hme; exact E3|]. split.
    + intros i. rewrite Ha. unfold checked_b. rewrite !E4. simpl zmem.
      destruct (Z.eqb_spec i j) as [Eij|Eij].
      * subst i. rewrite Ea. simpl. rewrite andb_false_r. reflexivity.
      * reflexivity.
    + intros i. rewrite Hc, E5. destruct (Z.eqb_spec i j) as [Eij|]; [|reflexivity]. subst i. rewrite Ec. reflexivity.
Qed.

Lemma rstep_activate : forall c now,
  exists c', rstep c (Activate now) = Ok c' /\ r_procs c' = r_procs c /\ r_me c' = r_me c
    /\ (forall i, adm c' i = if checked_b c i then Some IRUNNING else adm c i)
    /\ (forall i, chk c' i = chk c i).
Proof.
  intros c now. simpl rstep.
  destruct (activate_ids_ok (akeys (r_adm c)) c now) as [c' [E [H' [Hme [Ha Hc]]]]].
  exists c'. split; [exact E|]. split; [exact H'|]. split; [exact Hme|]. split; [|exact Hc].
  intros i. rewrite Ha. unfold checked_b. destruct (adm c i) as [s|] eqn:Ea.
  - rewrite (adm_in_keys c i s Ea). reflexivity.
  - rewrite andb_false_r. reflexivity.
Qed.
