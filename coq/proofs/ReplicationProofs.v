(* ReplicationProofs.v — proofs about model/Replication.v (C12; process-plane clause of C13).
   Sections:
     A. the admission gates of one Context (events_only_from_admitted, isolated_peer_noninterference_procs)
     B. what one ProcStatus operation does to the per-instance information (through the C11 refinement)
     C. what one receiver step does to a Context (no crash, frame, admission states)
     D. the model of one Context satisfies Spec_C13 (process plane) on every history
     E. cluster: channel / window invariant, agreement_partial and corollaries
     F. the handshake window: concrete schedules ending quiescent with a wrong view (F13) *)
From Sup Require Import ProcStatus ProcStatusProofs Replication.
From Sup Require Node.
From Coq Require Import Lia.

(* ====================================================================== *)
(* A. admission gates                                                       *)
(* ====================================================================== *)
Lemma valid_state_some : forall c j s, valid_state c j = Some s -> adm c j = Some s /\ s <> ISOLATED.
Proof.
  intros c j s H. unfold valid_state in H. destruct (adm c j) as [s'|]; [|discriminate].
  destruct s'; simpl in H; inversion H; subst; split; auto; discriminate.
Qed.

Lemma valid_state_of_adm : forall c j s, adm c j = Some s -> s <> ISOLATED -> valid_state c j = Some s.
Proof. intros c j s H N. unfold valid_state. rewrite H. destruct s; simpl; auto. contradiction. Qed.

Lemma valid_state_isolated : forall c j, adm c j = Some ISOLATED -> valid_state c j = None.
Proof. intros c j H. unfold valid_state. rewrite H. reflexivity. Qed.

Lemma valid_state_unknown : forall c j, adm c j = None -> valid_state c j = None.
Proof. intros c j H. unfold valid_state. rewrite H. reflexivity. Qed.

(* C13, process plane: a process state / forced state / removal / disability event whose sender is not CHECKED
   or RUNNING leaves the whole Context unchanged (not only its observable). *)
Theorem events_only_from_admitted : forall c o j,
  is_gated_event o = true -> rop_origin o = Some j ->
  (forall s, adm c j = Some s -> admitted s = false) ->
  rstep c o = Ok c.
Proof.
  intros c o j Hg Ho Ha.
  destruct o; simpl in Hg; try discriminate; simpl in Ho; inversion Ho; subst; simpl;
    unfold valid_state; destruct (adm c j) as [s|] eqn:E; try reflexivity;
    destruct (Node.istate_eqb s ISOLATED); try reflexivity; rewrite (Ha s eq_refl); reflexivity.
Qed.

(* the ALL_INFO notification is only taken into account in CHECKING *)
Theorem load_only_when_checking : forall c j infos nm now,
  adm c j <> Some CHECKING -> rstep c (LoadAll j infos nm now) = Ok c.
Proof.
  intros c j infos nm now H. simpl. unfold valid_state. destruct (adm c j) as [s|]; [|reflexivity].
  destruct s; simpl; try reflexivity. exfalso. apply H. reflexivity.
Qed.

(* nothing that claims to come from an ISOLATED (or unknown) instance changes anything: Context.is_valid *)
Theorem isolated_peer_noninterference_procs : forall c o j,
  rop_origin o = Some j -> (adm c j = Some ISOLATED \/ adm c j = None) -> rstep c o = Ok c.
Proof.
  intros c o j Ho Hi.
  assert (V : valid_state c j = None).
  { destruct Hi as [Hi|Hi]; [apply valid_state_isolated|apply valid_state_unknown]; exact Hi. }
  destruct o; simpl in Ho; inversion Ho; subst; simpl; rewrite V; reflexivity.
Qed.

Corollary events_only_from_admitted_obs : forall c o j c',
  is_gated_event o = true -> rop_origin o = Some j ->
  (forall s, adm c j = Some s -> admitted s = false) ->
  rstep c o = Ok c' -> robserve c' = robserve c.
Proof. intros c o j c' Hg Ho Ha H. rewrite (events_only_from_admitted c o j Hg Ho Ha) in H. inversion H. reflexivity. Qed.

Fixpoint rrun_state (c : rctx) (ops : list rop) : result rctx :=
  match ops with
  | [] => Ok c
  | o :: r => bind (rstep c o) (fun c' => rrun_state c' r)
  end.

(* the hypotheses are satisfiable, and the gate is not vacuous: the same event is refused while the sender is
   CHECKING and taken into account once it is CHECKED *)
Definition demo_checking : rctx :=
  match rrun_state (rinit 1 [1; 2]) [Tick 1 5 100; Auth 1 true 101 101; Tick 2 7 102;
                                     LoadAll 2 [(7, RUNNING, true, false)] 8 103] with
  | Ok c => c | Crash _ => rinit 1 [1; 2] end.

Example demo_gate_closed :
  adm demo_checking 2 = Some CHECKING
  /\ rstep demo_checking (ProcEvent 2 7 STOPPED true 9 104) = Ok demo_checking.
Proof. split; [vm_compute; reflexivity|]. apply (events_only_from_admitted _ _ 2); try reflexivity.
  intros s H. vm_compute in H. inversion H. reflexivity. Qed.

Example demo_gate_open :
  match rrun_state demo_checking [Auth 2 true 104 104; ProcEvent 2 7 STOPPED true 9 105] with
  | Ok c => rvinfo c 7 2 = Some (STOPPED, true) /\ rvinfo demo_checking 7 2 = Some (RUNNING, true)
  | Crash _ => False
  end.
Proof. vm_compute. split; reflexivity. Qed.

Example demo_isolated :
  match rrun_state demo_checking [Auth 2 false 104 104] with
  | Ok c => adm c 2 = Some ISOLATED
            /\ rstep c (Added 2 (8, RUNNING, true, false) 9 105) = Ok c
            /\ rstep c (Tick 2 9 105) = Ok c
  | Crash _ => False
  end.
Proof. vm_compute. repeat split; reflexivity. Qed.

(* ====================================================================== *)
(* B. one ProcStatus operation, seen through the per-instance information   *)
(* ====================================================================== *)
Definition svinfo (sp : spec) (i : Z) : option tinfo :=
  match aget i (sp_infos sp) with Some si => Some (s_state si, s_expected si) | None => None end.

Lemma pvinfo_R : forall p sp i, R p sp -> pvinfo p i = svinfo sp i.
Proof.
  intros p sp i [HR _]. unfold pvinfo, svinfo.
  pose proof (arel_aget irel i _ _ (rc_infos _ _ _ HR)) as G.
  destruct (aget i (p_infos p)) as [inf|]; destruct (aget i (sp_infos sp)) as [si|]; try contradiction; auto.
  destruct G as [G1 [G2 _]]. rewrite G1, G2. reflexivity.
Qed.

Lemma amem_pvinfo : forall p i, amem i (p_infos p) = match pvinfo p i with Some _ => true | None => false end.
Proof. intros p i. unfold amem, pvinfo. destruct (aget i (p_infos p)); reflexivity. Qed.

Lemma amem_R : forall p sp i, R p sp -> amem i (sp_infos sp) = amem i (p_infos p).
Proof.
  intros p sp i HR. rewrite amem_pvinfo, (pvinfo_R p sp i HR). unfold amem, svinfo.
  destruct (aget i (sp_infos sp)); reflexivity.
Qed.

Lemma svinfo_report : forall sp j st e evt now cf i,
  svinfo (spec_report sp j st e evt now cf) i = if Z.eqb i j then Some (st, e) else svinfo sp i.
Proof.
  intros sp j st e evt now cf i. unfold spec_report, svinfo. cbn [sp_infos].
  destruct (Z.eqb_spec i j) as [E|E].
  - subst. rewrite aget_aset_same. reflexivity.
  - rewrite aget_aset_other by exact E. reflexivity.
Qed.

(* a ProcessStatus that the C11 refinement relates to some specification state *)
Definition wfp (p : proc) : Prop := exists sp, R p sp.

Lemma wfp_init : wfp proc_init.
Proof. exists spec_init. exact R_init. Qed.

Lemma wfp_add_info : forall p j st e nm d now, wfp p ->
  exists p', add_info p j st e nm d now = Ok p' /\ wfp p'
    /\ forall i, pvinfo p' i = if Z.eqb i j then Some (st, e) else pvinfo p i.
Proof.
  intros p j st e nm d now [sp HR].
  destruct (add_info_refines p sp j st e nm d now HR) as [p' [E HR']].
  exists p'. split; [exact E|]. split; [eexists; exact HR'|].
  intros i. rewrite (pvinfo_R _ _ i HR'), (pvinfo_R _ _ i HR). simpl. apply svinfo_report.
Qed.

Lemma wfp_update_info : forall p j st e nm now ext, wfp p -> amem j (p_infos p) = true ->
  exists p', update_info p j st e nm now ext = Ok p' /\ wfp p'
    /\ forall i, pvinfo p' i = if Z.eqb i j then Some (st, e) else pvinfo p i.
Proof.
  intros p j st e nm now ext [sp HR] Hm.
  assert (Hm' : amem j (sp_infos sp) = true) by (rewrite (amem_R p sp j HR); exact Hm).
  destruct (update_info_refines p sp j st e nm now ext HR Hm') as [p' [E HR']].
  exists p'. split; [exact E|]. split; [eexists; exact HR'|].
  intros i. rewrite (pvinfo_R _ _ i HR'), (pvinfo_R _ _ i HR). apply svinfo_report.
Qed.

Lemma wfp_force : forall p t st et, wfp p ->
  wfp (fst (force_state p t st et)) /\ forall i, pvinfo (fst (force_state p t st et)) i = pvinfo p i.
Proof.
  intros p t st et [sp HR].
  destruct (step_refines p sp (Force t st et 0) HR eq_refl) as [p' [E HR']].
  simpl in E. inversion E; subst p'. split; [eexists; exact HR'|].
  intros i. rewrite (pvinfo_R _ _ i HR'), (pvinfo_R _ _ i HR). simpl.
  destruct (match aget t (sp_infos sp) with Some si => s_evt si <=? et | None => true end); reflexivity.
Qed.

Lemma wfp_disable : forall p j b, wfp p ->
  exists p', step p (Disable j b) = Ok p' /\ wfp p' /\ forall i, pvinfo p' i = pvinfo p i.
Proof.
  intros p j b [sp HR].
  destruct (step_refines p sp (Disable j b) HR eq_refl) as [p' [E HR']].
  exists p'. split; [exact E|]. split; [eexists; exact HR'|].
  intros i. rewrite (pvinfo_R _ _ i HR'), (pvinfo_R _ _ i HR). reflexivity.
Qed.

Lemma wfp_tick_times : forall p j t, wfp p ->
  exists p', tick_times j t p = Ok p' /\ wfp p' /\ forall i, pvinfo p' i = pvinfo p i.
Proof.
  intros p j t [sp HR]. unfold tick_times.
  destruct (step_refines p sp (TickTimes j t) HR eq_refl) as [p' [E HR']].
  exists p'. split; [exact E|]. split; [eexists; exact HR'|].
  intros i. rewrite (pvinfo_R _ _ i HR'), (pvinfo_R _ _ i HR). simpl.
  destruct (aget j (sp_infos sp)) as [si|] eqn:Ej; [|reflexivity].
  unfold svinfo. cbn [sp_infos]. destruct (Z.eq_dec i j) as [Eij|Eij].
  - subst. rewrite aget_aset_same, Ej. reflexivity.
  - rewrite aget_aset_other by exact Eij. reflexivity.
Qed.

Lemma wfp_invalidate : forall p j now, wfp p ->
  exists p', invalidate p j now = Ok p' /\ wfp p' /\ forall i, i <> j -> pvinfo p' i = pvinfo p i.
Proof.
  intros p j now [sp HR].
  destruct (step_refines p sp (Invalidate j now) HR eq_refl) as [p' [E HR']].
  exists p'. split; [exact E|]. split; [eexists; exact HR'|].
  intros i Hij. rewrite (pvinfo_R _ _ i HR'), (pvinfo_R _ _ i HR). simpl.
  destruct (aget j (sp_infos sp)) as [si|]; [|reflexivity].
  destruct (s_listed si); [|reflexivity].
  rewrite svinfo_report. destruct (Z.eqb_spec i j); [contradiction|reflexivity].
Qed.

Lemma wfp_invalidate_proc : forall p j now, wfp p ->
  exists p', invalidate_proc j now p = Ok p' /\ wfp p' /\ forall i, i <> j -> pvinfo p' i = pvinfo p i.
Proof.
  intros p j now H. unfold invalidate_proc.
  destruct (is_running (p_state p) && zmem j (p_running p)).
  - apply wfp_invalidate. exact H.
  - exists p. split; [reflexivity|]. split; [exact H|]. reflexivity.
Qed.

Lemma wfp_remove : forall p j, wfp p -> amem j (p_infos p) = true ->
  exists p', remove_identifier p j = Ok p' /\ wfp p' /\ forall i, i <> j -> pvinfo p' i = pvinfo p i.
Proof.
  intros p j [sp HR] Hm.
  assert (Hm' : wf_op sp (Remove j) = true) by (simpl; rewrite (amem_R p sp j HR); exact Hm).
  destruct (step_refines p sp (Remove j) HR Hm') as [p' [E HR']].
  exists p'. split; [exact E|]. split; [eexists; exact HR'|].
  intros i Hij. rewrite (pvinfo_R _ _ i HR'), (pvinfo_R _ _ i HR). simpl. unfold svinfo. cbn [sp_infos].
  rewrite aget_adel by (eapply Rcore_skeys; apply HR).
  destruct (Z.eqb_spec i j); [contradiction|reflexivity].
Qed.

(* ====================================================================== *)
(* C. one receiver step                                                     *)
(* ====================================================================== *)
Definition Fwfp (ps : alist proc) : Prop := Forall (fun kp => wfp (snd kp)) ps.
Definition rwf (c : rctx) : Prop := Fwfp (r_procs c).

Definition pvinfo_in (ps : alist proc) (k i : Z) : option tinfo :=
  match aget k ps with Some p => pvinfo p i | None => None end.

Lemma rvinfo_eq : forall c k i, rvinfo c k i = pvinfo_in (r_procs c) k i.
Proof. reflexivity. Qed.

Lemma Fwfp_aget : forall ps k p, Fwfp ps -> aget k ps = Some p -> wfp p.
Proof.
  intros ps k p H E. unfold Fwfp in H. rewrite Forall_forall in H.
  apply (H (k, p)). apply aget_In. exact E.
Qed.

Lemma Fwfp_aset : forall ps k p, Fwfp ps -> wfp p -> Fwfp (aset k p ps).
Proof. intros ps k p H Hp. apply (Forall_aset wfp); assumption. Qed.

Lemma pvinfo_in_aset : forall ps k0 p' k i,
  pvinfo_in (aset k0 p' ps) k i = if Z.eqb k k0 then pvinfo p' i else pvinfo_in ps k i.
Proof.
  intros ps k0 p' k i. unfold pvinfo_in. destruct (Z.eqb_spec k k0) as [E|E].
  - subst. rewrite aget_aset_same. reflexivity.
  - rewrite aget_aset_other by exact E. reflexivity.
Qed.

Lemma rinit_rwf : forall me peers, rwf (rinit me peers).
Proof. intros. constructor. Qed.

(* ---- load_processes ---- *)
Lemma load_infos_ok : forall infos ps j nm now, Fwfp ps ->
  exists ps', load_infos ps j infos nm now = Ok ps' /\ Fwfp ps'
    /\ forall k i, pvinfo_in ps' k i =
         if Z.eqb i j then overlay_k infos k (pvinfo_in ps k j) else pvinfo_in ps k i.
Proof.
  induction infos as [|[[[k0 st] e] d] r IH]; intros ps j nm now H.
  - exists ps. split; [reflexivity|]. split; [exact H|].
    intros k i. simpl. destruct (Z.eqb_spec i j); subst; reflexivity.
  - simpl.
    set (p := match aget k0 ps with Some p => p | None => proc_init end).
    assert (Hp : wfp p).
    { unfold p. destruct (aget k0 ps) as [p0|] eqn:E; [eapply Fwfp_aget; eassumption|exact wfp_init]. }
    assert (Hpv : forall i, pvinfo p i = pvinfo_in ps k0 i).
    { intros i. unfold p, pvinfo_in. destruct (aget k0 ps); reflexivity. }
    destruct (wfp_add_info p j st e nm d now Hp) as [p' [E [Hp' Hv]]].
    rewrite E. simpl.
    destruct (IH (aset k0 p' ps) j nm now (Fwfp_aset _ _ _ H Hp')) as [ps' [E' [H' Hv']]].
    exists ps'. split; [exact E'|]. split; [exact H'|].
    intros k i. rewrite Hv'. rewrite !pvinfo_in_aset.
    destruct (Z.eqb_spec i j) as [Eij|Eij].
    + subst i. rewrite Hv, Z.eqb_refl.
      destruct (Z.eqb_spec k k0) as [Ek|Ek].
      * subst. rewrite Z.eqb_refl. reflexivity.
      * destruct (Z.eqb_spec k0 k); [congruence|reflexivity].
    + destruct (Z.eqb_spec k k0) as [Ek|Ek]; [|reflexivity].
      subst. rewrite Hv. destruct (Z.eqb_spec i j); [contradiction|]. apply Hpv.
Qed.

(* ---- a ProcStatus operation mapped over every process ---- *)
Lemma map_procs_ok : forall (f : proc -> result proc) (K : Z -> Prop),
  (forall p, wfp p -> exists p', f p = Ok p' /\ wfp p' /\ forall i, K i -> pvinfo p' i = pvinfo p i) ->
  forall ps, Fwfp ps ->
  exists ps', map_procs f ps = Ok ps' /\ Fwfp ps'
    /\ forall k i, K i -> pvinfo_in ps' k i = pvinfo_in ps k i.
Proof.
  intros f K Hf. induction ps as [|[k0 p] r IH]; intros H.
  - exists []. split; [reflexivity|]. split; [constructor|]. reflexivity.
  - inversion H as [|x l Hp Hr]; subst. simpl in Hp.
    destruct (Hf p Hp) as [p' [E [Hp' Hv]]].
    destruct (IH Hr) as [r' [E' [Hr' Hv']]].
    simpl. rewrite E. simpl. rewrite E'. simpl.
    exists ((k0, p') :: r'). split; [reflexivity|]. split; [constructor; assumption|].
    intros k i Hi. unfold pvinfo_in. simpl. destruct (Z.eqb k k0).
    + apply Hv. exact Hi.
    + apply (Hv' k i Hi).
Qed.

(* ---- the instance state setter ---- *)
Lemma adm_set_adms : forall c a j, adm (set_adms c a) j = match aget j a with Some sc => Some (fst sc) | None => None end.
Proof. reflexivity. Qed.

Lemma set_adm_ok : forall c j s ct st now,
  aget j (r_adm c) = Some (s, ct) -> (s = st \/ Node.inst_transition_ok s st = true) ->
  exists c', set_adm c j st now = Ok c' /\ r_procs c' = r_procs c /\ r_me c' = r_me c
    /\ (forall i, adm c' i = if Z.eqb i j then Some st else adm c i)
    /\ (forall i, chk c' i = if Z.eqb i j
                             then (if Node.istate_eqb s st then ct
                                   else match st with Node.CHECKING => now | _ => ct end)
                             else chk c i).
Proof.
  intros c j s ct st now E H. unfold set_adm. rewrite E.
  destruct (Node.istate_eqb s st) eqn:Es.
  - assert (s = st) by (destruct s, st; simpl in Es; try discriminate; reflexivity). subst st.
    exists c. split; [reflexivity|]. repeat split; try reflexivity.
    + intros i. unfold adm. destruct (Z.eqb_spec i j); [subst; rewrite E|]; reflexivity.
    + intros i. unfold chk. destruct (Z.eqb_spec i j); [subst; rewrite E|]; reflexivity.
  - destruct H as [H|H]; [subst; destruct st; discriminate|]. rewrite H.
    eexists. split; [reflexivity|]. repeat split; try reflexivity.
    + intros i. unfold adm. cbn [set_adms r_adm]. destruct (Z.eqb_spec i j) as [Eij|Eij].
      * subst. rewrite aget_aset_same. reflexivity.
      * rewrite aget_aset_other by exact Eij. reflexivity.
    + intros i. unfold chk. cbn [set_adms r_adm]. destruct (Z.eqb_spec i j) as [Eij|Eij].
      * subst. rewrite aget_aset_same. reflexivity.
      * rewrite aget_aset_other by exact Eij. reflexivity.
Qed.

Lemma adm_aget : forall c j s, adm c j = Some s -> exists ct, aget j (r_adm c) = Some (s, ct) /\ chk c j = ct.
Proof.
  intros c j s H. unfold adm in H. unfold chk. destruct (aget j (r_adm c)) as [[s' ct]|]; [|discriminate].
  inversion H; subst. exists ct. auto.
Qed.

(* the transitions used by the handlers, re-checked against the reflected table *)
Lemma trans_table :
  Node.inst_transition_ok ISTOPPED CHECKING = true /\ Node.inst_transition_ok CHECKING CHECKED = true
  /\ Node.inst_transition_ok CHECKING ISOLATED = true /\ Node.inst_transition_ok CHECKING ISTOPPED = true
  /\ Node.inst_transition_ok CHECKING IFAILED = true /\ Node.inst_transition_ok CHECKED IFAILED = true
  /\ Node.inst_transition_ok IRUNNING IFAILED = true /\ Node.inst_transition_ok CHECKED IRUNNING = true
  /\ Node.inst_transition_ok IFAILED ISTOPPED = true /\ Node.inst_transition_ok IFAILED ISOLATED = true.
Proof. vm_compute. repeat split; reflexivity. Qed.

(* ---- ProcEvent ---- *)
Definition applies (c : rctx) (j k : Z) : bool :=
  match valid_state c j with
  | Some s => admitted s && match rvinfo c k j with Some _ => true | None => false end
  | None => false
  end.

Lemma rstep_proc_event : forall c j k st e nm now, rwf c ->
  exists c', rstep c (ProcEvent j k st e nm now) = Ok c' /\ rwf c' /\ r_adm c' = r_adm c /\ r_me c' = r_me c
    /\ (applies c j k = false -> c' = c)
    /\ forall k' i', rvinfo c' k' i' =
         if applies c j k && Z.eqb k' k && Z.eqb i' j then Some (st, e) else rvinfo c k' i'.
Proof.
  intros c j k st e nm now H.
  assert (Hno : applies c j k = false -> rstep c (ProcEvent j k st e nm now) = Ok c).
  { unfold applies, rvinfo. simpl rstep. destruct (valid_state c j) as [s|]; [|reflexivity].
    destruct (admitted s); [|reflexivity]. simpl. destruct (aget k (r_procs c)) as [p|]; [|reflexivity].
    rewrite amem_pvinfo. destruct (pvinfo p j); [discriminate|reflexivity]. }
  destruct (applies c j k) eqn:Ea.
  - unfold applies, rvinfo in Ea. simpl rstep.
    destruct (valid_state c j) as [s|]; [|discriminate].
    destruct (admitted s); [|discriminate]. simpl in Ea.
    destruct (aget k (r_procs c)) as [p|] eqn:Ek; [|discriminate].
    destruct (pvinfo p j) as [t|] eqn:Ev; [|discriminate].
    assert (Hp : wfp p) by (eapply Fwfp_aget; eassumption).
    assert (Hm : amem j (p_infos p) = true) by (rewrite amem_pvinfo, Ev; reflexivity).
    destruct (wfp_update_info p j st e nm now true Hp Hm) as [p' [E [Hp' Hv]]].
    rewrite Hm, E. cbn [bind]. eexists. split; [reflexivity|].
    split; [unfold rwf; cbn [set_procs r_procs]; apply Fwfp_aset; assumption|].
    split; [reflexivity|]. split; [reflexivity|]. split; [discriminate|].
    intros k' i'. rewrite !rvinfo_eq. cbn [set_procs r_procs]. rewrite pvinfo_in_aset.
    destruct (Z.eqb_spec k' k) as [Ekk|Ekk]; [|reflexivity].
    subst k'. rewrite Hv. simpl. unfold pvinfo_in. rewrite Ek. reflexivity.
  - exists c. rewrite (Hno eq_refl). repeat split; auto.
Qed.

(* ---- LoadAll ---- *)
Definition checking_b (c : rctx) (j : Z) : bool :=
  match adm c j with Some Node.CHECKING => true | _ => false end.

Lemma rstep_load_all : forall c j infos nm now, rwf c ->
  exists c', rstep c (LoadAll j infos nm now) = Ok c' /\ rwf c' /\ r_adm c' = r_adm c /\ r_me c' = r_me c
    /\ forall k i, rvinfo c' k i =
         if checking_b c j && Z.eqb i j then overlay_k infos k (rvinfo c k j) else rvinfo c k i.
Proof.
  intros c j infos nm now H. simpl rstep. unfold checking_b, valid_state.
  destruct (adm c j) as [s|]; [|exists c; repeat split; auto].
  destruct s; simpl; try (exists c; repeat split; auto; fail).
  destruct (load_infos_ok infos (r_procs c) j nm now H) as [ps' [E [H' Hv]]].
  rewrite E. simpl. eexists. split; [reflexivity|]. split; [exact H'|]. split; [reflexivity|]. split; [reflexivity|].
  intros k i. rewrite !rvinfo_eq. cbn [set_procs r_procs]. apply Hv.
Qed.

(* ---- Tick ---- *)
Definition tick_starts (c : rctx) (j : Z) : bool :=
  match adm c j with
  | Some Node.ISTOPPED => Z.eqb j (r_me c) || match adm c (r_me c) with Some sl => admitted sl | None => false end
  | _ => false
  end.

Lemma rstep_tick : forall c j rmt now, rwf c ->
  exists c', rstep c (Tick j rmt now) = Ok c' /\ rwf c' /\ r_me c' = r_me c
    /\ (forall k i, rvinfo c' k i = rvinfo c k i)
    /\ (forall i, adm c' i = if tick_starts c j && Z.eqb i j then Some CHECKING else adm c i)
    /\ (forall i, chk c' i = if tick_starts c j && Z.eqb i j then now else chk c i).
Proof.
  intros c j rmt now H. simpl rstep. unfold tick_starts, valid_state.
  destruct (adm c j) as [s|] eqn:Ea; [|exists c; repeat split; auto].
  destruct (Node.istate_eqb s ISOLATED) eqn:Eiso.
  { exists c. repeat split; auto; intros; destruct s; simpl in *; try discriminate; reflexivity. }
  destruct (Z.eqb j (r_me c) || match adm c (r_me c) with Some sl => admitted sl | None => false end) eqn:Ec.
  2:{ exists c. repeat split; auto; intros; destruct s; reflexivity. }
  destruct (map_procs_ok (tick_times j rmt) (fun _ => True)) with (ps := r_procs c) as [ps' [E [H' Hv]]].
  { intros p Hp. destruct (wfp_tick_times p j rmt Hp) as [p' [E1 [E2 E3]]]. exists p'. auto. }
  { exact H. }
  rewrite E. simpl.
  destruct (Node.istate_eqb s ISTOPPED) eqn:Es.
  - assert (s = ISTOPPED) by (destruct s; simpl in Es; try discriminate; reflexivity). subst s.
    destruct (adm_aget c j _ Ea) as [ct [Eg _]].
    destruct (set_adm_ok (set_procs c ps') j ISTOPPED ct CHECKING now Eg) as [c' [E1 [E2 [E3 [E4 E5]]]]].
    { right. apply trans_table. }
    rewrite E1. exists c'. split; [reflexivity|]. split; [unfold rwf; rewrite E2; exact H'|].
    split; [exact E3|]. split.
    + intros k i. rewrite !rvinfo_eq, E2. apply Hv. exact I.
    + split; intros i; [rewrite E4|rewrite E5]; simpl; destruct (Z.eqb i j); reflexivity.
  - eexists. split; [reflexivity|]. split; [exact H'|]. split; [reflexivity|]. split.
    + intros k i. rewrite !rvinfo_eq. apply Hv. exact I.
    + split; intros i; destruct s; simpl in *; try discriminate; reflexivity.
Qed.

(* ---- Auth ---- *)
Definition auth_accepted (c : rctx) (j ts : Z) : bool := checking_b c j && Z.ltb (chk c j) ts.
Definition auth_target (c : rctx) (j : Z) (ok : bool) : istate :=
  if ok then CHECKED else if Z.eqb j (r_me c) then ISTOPPED else ISOLATED.

Lemma rstep_auth : forall c j ok ts now,
  exists c', rstep c (Auth j ok ts now) = Ok c' /\ r_procs c' = r_procs c /\ r_me c' = r_me c
    /\ (forall i, adm c' i = if auth_accepted c j ts && Z.eqb i j then Some (auth_target c j ok) else adm c i)
    /\ (forall i, chk c' i = chk c i).
Proof.
  intros c j ok ts now. simpl rstep. unfold auth_accepted, checking_b, valid_state, auth_target.
  destruct (adm c j) as [s|] eqn:Ea; [|exists c; repeat split; auto].
  destruct s; simpl; try (exists c; repeat split; auto; fail).
  destruct (Z.ltb (chk c j) ts); [|exists c; repeat split; auto].
  destruct (adm_aget c j _ Ea) as [ct [Eg Ec]].
  set (tgt := if ok then CHECKED else if Z.eqb j (r_me c) then ISTOPPED else ISOLATED).
  destruct (set_adm_ok c j CHECKING ct tgt now Eg) as [c' [E1 [E2 [E3 [E4 E5]]]]].
  { right. unfold tgt. destruct ok; [|destruct (Z.eqb j (r_me c))]; apply trans_table. }
  exists c'. split.
  - unfold tgt in E1. destruct ok; [exact E1|]. exact E1.
  - split; [exact E2|]. split; [exact E3|]. split.
    + intros i. rewrite E4. destruct (Z.eqb i j); reflexivity.
    + intros i. rewrite E5. destruct (Z.eqb_spec i j) as [Eij|]; [|reflexivity]. subst i.
      rewrite Ec. unfold tgt. destruct ok; [reflexivity|]. destruct (Z.eqb j (r_me c)); reflexivity.
Qed.

(* ---- Failure ---- *)
Definition is_active (c : rctx) (j : Z) : bool :=
  match adm c j with Some s => Node.has_active_state s | None => false end.

Lemma rstep_failure : forall c j now,
  exists c', rstep c (Failure j now) = Ok c' /\ r_procs c' = r_procs c /\ r_me c' = r_me c
    /\ (forall i, adm c' i = if is_active c j && Z.eqb i j then Some IFAILED else adm c i)
    /\ (forall i, chk c' i = chk c i).
Proof.
  intros c j now. simpl rstep. unfold is_active, valid_state.
  destruct (adm c j) as [s|] eqn:Ea; [|exists c; repeat split; auto].
  destruct (Node.istate_eqb s ISOLATED) eqn:Eiso.
  { exists c. repeat split; auto. intros i. destruct s; simpl in *; try discriminate. reflexivity. }
  destruct (Node.has_active_state s) eqn:Eact; [|exists c; repeat split; auto].
  destruct (adm_aget c j _ Ea) as [ct [Eg Ec]].
  destruct (set_adm_ok c j s ct IFAILED now Eg) as [c' [E1 [E2 [E3 [E4 E5]]]]].
  { destruct s; simpl in Eact; try discriminate; [right|right|right|left]; try apply trans_table; reflexivity. }
  exists c'. split; [exact E1|]. split; [exact E2|]. split; [exact E3|]. split.
  - intros i. rewrite E4. destruct (Z.eqb i j); reflexivity.
  - intros i. rewrite E5. destruct (Z.eqb_spec i j) as [Eij|]; [|reflexivity]. subst i. rewrite Ec.
    destruct (Node.istate_eqb s IFAILED); reflexivity.
Qed.

(* ---- invalidate_failed / activate_checked ---- *)
Definition failed_b (c : rctx) (i : Z) : bool := match adm c i with Some Node.FAILED => true | _ => false end.
Definition checked_b (c : rctx) (i : Z) : bool := match adm c i with Some Node.CHECKED => true | _ => false end.
Definition inv_target (c : rctx) (iso : bool) (j : Z) : istate :=
  if Z.eqb j (r_me c) then ISTOPPED else if iso then ISOLATED else ISTOPPED.

Lemma adm_in_keys : forall c i s, adm c i = Some s -> zmem i (akeys (r_adm c)) = true.
Proof.
  intros c i s H. apply zmem_In. unfold adm in H.
  destruct (aget i (r_adm c)) as [sc|] eqn:E; [|discriminate].
  apply aget_In in E. unfold akeys. apply in_map_iff. exists (i, sc). auto.
Qed.

Lemma invalidate_failed_ids_ok : forall ids c iso now, rwf c ->
  exists c', invalidate_failed_ids c ids iso now = Ok c' /\ rwf c' /\ r_me c' = r_me c
    /\ (forall i, adm c' i = if zmem i ids && failed_b c i then Some (inv_target c iso i) else adm c i)
    /\ (forall i, chk c' i = chk c i)
    /\ (forall k i, failed_b c i = false -> rvinfo c' k i = rvinfo c k i).
Proof.
  induction ids as [|j r IH]; intros c iso now H.
  - exists c. repeat split; auto.
  - simpl invalidate_failed_ids.
    destruct (adm c j) as [s|] eqn:Ea.
    2:{ destruct (IH c iso now H) as [c' [E [H' [Hme [Ha [Hc Hv]]]]]].
        exists c'. split; [exact E|]. split; [exact H'|]. split; [exact Hme|]. split; [|split; assumption].
        intros i. rewrite Ha. simpl zmem. destruct (Z.eqb_spec i j) as [Eij|]; [|reflexivity].
        subst. unfold failed_b. rewrite Ea. rewrite andb_false_r. reflexivity. }
    assert (Hskip : s <> IFAILED ->
      exists c', invalidate_failed_ids c r iso now = Ok c' /\ rwf c' /\ r_me c' = r_me c
        /\ (forall i, adm c' i = if zmem i (j :: r) && failed_b c i then Some (inv_target c iso i) else adm c i)
        /\ (forall i, chk c' i = chk c i)
        /\ (forall k i, failed_b c i = false -> rvinfo c' k i = rvinfo c k i)).
    { intros Hs. destruct (IH c iso now H) as [c' [E [H' [Hme [Ha [Hc Hv]]]]]].
      exists c'. split; [exact E|]. split; [exact H'|]. split; [exact Hme|]. split; [|split; assumption].
      intros i. rewrite Ha. simpl zmem. destruct (Z.eqb_spec i j) as [Eij|]; [|reflexivity].
      subst. unfold failed_b. rewrite Ea. destruct s; try rewrite andb_false_r; try reflexivity. contradiction. }
    destruct s; try (apply Hskip; discriminate). clear Hskip.
    set (tgt := if Z.eqb j (r_me c) then ISTOPPED else if iso then ISOLATED else ISTOPPED).
    destruct (adm_aget c j _ Ea) as [ct [Eg Ec]].
    destruct (set_adm_ok c j IFAILED ct tgt now Eg) as [c1 [E1 [E2 [E3 [E4 E5]]]]].
    { right. unfold tgt. destruct (Z.eqb j (r_me c)); [|destruct iso]; apply trans_table. }
    rewrite E1. cbn [bind].
    destruct (map_procs_ok (invalidate_proc j now) (fun i => i <> j)) with (ps := r_procs c1) as [ps [Em [Hps Hvps]]].
    { intros p Hp. apply wfp_invalidate_proc. exact Hp. }
    { rewrite E2. exact H. }
    rewrite Em. cbn [bind].
    destruct (IH (set_procs c1 ps) iso now Hps) as [c' [E [H' [Hme [Ha [Hc Hv]]]]]].
    exists c'. split; [exact E|]. split; [exact H'|]. split; [rewrite Hme; exact E3|].
    assert (Hadm2 : forall i, adm (set_procs c1 ps) i = if Z.eqb i j then Some tgt else adm c i) by (intros i; apply E4).
    assert (Htgt : tgt <> IFAILED) by (unfold tgt; destruct (Z.eqb j (r_me c)); [|destruct iso]; discriminate).
    split; [|split].
    + intros i. rewrite Ha. unfold failed_b. rewrite Hadm2. unfold inv_target. cbn [set_procs r_me]. rewrite E3.
      simpl zmem. destruct (Z.eqb_spec i j) as [Eij|Eij].
      * subst i. rewrite Ea. simpl.
        assert (Hnf : match tgt with Node.FAILED => true | _ => false end = false)
          by (unfold tgt; destruct (Z.eqb j (r_me c)); [|destruct iso]; reflexivity).
        rewrite Hnf, andb_false_r. reflexivity.
      * reflexivity.
    + intros i. rewrite Hc. unfold chk. cbn [set_procs r_adm]. fold (chk c1 i). rewrite E5.
      destruct (Z.eqb_spec i j) as [Eij|]; [|reflexivity]. subst i. rewrite Eg. simpl snd.
      unfold tgt. destruct (Z.eqb j (r_me c)); [|destruct iso]; reflexivity.
    + intros k i Hf.
      assert (Hij : i <> j). { intros ->. unfold failed_b in Hf. rewrite Ea in Hf. discriminate. }
      rewrite Hv.
      * rewrite !rvinfo_eq. cbn [set_procs r_procs]. rewrite (Hvps k i Hij), E2. reflexivity.
      * unfold failed_b. rewrite Hadm2. destruct (Z.eqb_spec i j); [contradiction|]. exact Hf.
Qed.

Lemma rstep_invalidate_failed : forall c iso now, rwf c ->
  exists c', rstep c (InvalidateFailed iso now) = Ok c' /\ rwf c' /\ r_me c' = r_me c
    /\ (forall i, adm c' i = if failed_b c i then Some (inv_target c iso i) else adm c i)
    /\ (forall i, chk c' i = chk c i)
    /\ (forall k i, failed_b c i = false -> rvinfo c' k i = rvinfo c k i).
Proof.
  intros c iso now H. simpl rstep.
  destruct (invalidate_failed_ids_ok (akeys (r_adm c)) c iso now H) as [c' [E [H' [Hme [Ha [Hc Hv]]]]]].
  exists c'. split; [exact E|]. split; [exact H'|]. split; [exact Hme|]. split; [|split; assumption].
  intros i. rewrite Ha. unfold failed_b. destruct (adm c i) as [s|] eqn:Ea.
  - rewrite (adm_in_keys c i s Ea). reflexivity.
  - rewrite andb_false_r. reflexivity.
Qed.

Lemma activate_ids_ok : forall ids c now,
  exists c', activate_ids c ids now = Ok c' /\ r_procs c' = r_procs c /\ r_me c' = r_me c
    /\ (forall i, adm c' i = if zmem i ids && checked_b c i then Some IRUNNING else adm c i)
    /\ (forall i, chk c' i = chk c i).
Proof.
  induction ids as [|j r IH]; intros c now.
  - exists c. repeat split; auto.
  - simpl activate_ids.
    assert (Hskip : checked_b c j = false ->
      exists c', activate_ids c r now = Ok c' /\ r_procs c' = r_procs c /\ r_me c' = r_me c
        /\ (forall i, adm c' i = if zmem i (j :: r) && checked_b c i then Some IRUNNING else adm c i)
        /\ (forall i, chk c' i = chk c i)).
    { intros Hs. destruct (IH c now) as [c' [E [H' [Hme [Ha Hc]]]]].
      exists c'. split; [exact E|]. split; [exact H'|]. split; [exact Hme|]. split; [|exact Hc].
      intros i. rewrite Ha. simpl zmem. destruct (Z.eqb_spec i j) as [Eij|]; [|reflexivity].
      subst. rewrite Hs, !andb_false_r. reflexivity. }
    destruct (adm c j) as [s|] eqn:Ea; [|apply Hskip; unfold checked_b; rewrite Ea; reflexivity].
    destruct s; try (apply Hskip; unfold checked_b; rewrite Ea; reflexivity). clear Hskip.
    destruct (adm_aget c j _ Ea) as [ct [Eg Ec]].
    destruct (set_adm_ok c j CHECKED ct IRUNNING now Eg) as [c1 [E1 [E2 [E3 [E4 E5]]]]].
    { right. apply trans_table. }
    rewrite E1. cbn [bind].
    destruct (IH c1 now) as [c' [E [H' [Hme [Ha Hc]]]]].
    exists c'. split; [exact E|]. split; [rewrite H'; exact E2|]. split; [rewrite Hme; exact E3|]. split.
    + intros i. rewrite Ha. unfold checked_b. rewrite !E4. simpl zmem.
      destruct (Z.eqb_spec i j) as [Eij|Eij].
      * subst i. rewrite Ea. simpl. rewrite andb_false_r. reflexivity.
      * reflexivity.
    + intros i. rewrite Hc, E5. destruct (Z.eqb_spec i j) as [Eij|]; [|reflexivity]. subst i. rewrite Ec. reflexivity.
Qed.

Lemma rstep_activate : forall c now,
  exists c', rstep c (Activate now) = Ok c' /\ r_procs c' = r_procs c /\ r_me c' = r_me c
    /\ (forall i, adm c' i = if checked_b c i then Some IRUNNING else adm c i)
    /\ (forall i, chk c' i = chk c i).
Proof.
  intros c now. simpl rstep.
  destruct (activate_ids_ok (akeys (r_adm c)) c now) as [c' [E [H' [Hme [Ha Hc]]]]].
  exists c'. split; [exact E|]. split; [exact H'|]. split; [exact Hme|]. split; [|exact Hc].
  intros i. rewrite Ha. unfold checked_b. destruct (adm c i) as [s|] eqn:Ea.
  - rewrite (adm_in_keys c i s Ea). reflexivity.
  - rewrite andb_false_r. reflexivity.
Qed.

(* ====================================================================== *)
(* E. cluster                                                               *)
(* ====================================================================== *)

(* ---- queues ---- *)
Lemma last_ev_app_ev : forall k q k' st e nm,
  last_ev k (q ++ [MEvent k' st e nm]) = if Z.eqb k' k then Some (st, e) else last_ev k q.
Proof.
  intros k q k' st e nm. induction q as [|m r IH]; simpl.
  - destruct (Z.eqb k' k); reflexivity.
  - rewrite IH. destruct (Z.eqb k' k); reflexivity.
Qed.

Lemma last_ev_cons_other : forall k m r,
  (forall st e nm, m <> MEvent k st e nm) -> last_ev k (m :: r) = last_ev k r.
Proof.
  intros k m r H. simpl. destruct (last_ev k r); [reflexivity|].
  destruct m as [k' st e nm| |]; try reflexivity.
  destruct (Z.eqb_spec k' k); [|reflexivity]. subst. exfalso. eapply H. reflexivity.
Qed.

Lemma final_cons_ev : forall k k' st e nm r b,
  final k (MEvent k' st e nm :: r) b = final k r (if Z.eqb k' k then Some (st, e) else b).
Proof.
  intros. unfold final. simpl. destruct (last_ev k r); [reflexivity|].
  destruct (Z.eqb k' k); reflexivity.
Qed.

(* ---- snapshots ---- *)
Lemma overlay_snapshot : forall T k v, NoDup (akeys T) ->
  overlay_k (snapshot_of T) k v = match aget k T with Some t => Some t | None => v end.
Proof.
  induction T as [|[k0 [st e]] r IH]; intros k v Hn; simpl.
  - reflexivity.
  - inversion Hn as [|x l Hk Hr]; subst. rewrite (IH k _ Hr).
    destruct (Z.eqb_spec k0 k) as [E|E].
    + subst k0. rewrite Z.eqb_refl.
      assert (aget k r = None) as -> by (apply aget_none_iff; exact Hk). reflexivity.
    + destruct (Z.eqb_spec k k0); [congruence|]. reflexivity.
Qed.

(* ---- the notification queue scanned up to the first acceptable AUTHORIZATION ---- *)
Inductive scan_res := Stopped (r : option (option tinfo)) | Cur (v : option tinfo).

Fixpoint base_scan (i ct : Z) (ntf : list (Z * msg)) (k : Z) (v : option tinfo) : scan_res :=
  match ntf with
  | [] => Cur v
  | (i', m) :: r =>
      if Z.eqb i' i then
        match m with
        | MSnapshot tbl _ => base_scan i ct r k (overlay_k tbl k v)
        | MAuth ok ts => if Z.ltb ct ts then Stopped (if ok then Some v else None) else base_scan i ct r k v
        | MEvent _ _ _ _ => base_scan i ct r k v
        end
      else base_scan i ct r k v
  end.

Lemma base_app : forall i ct ntf q k v,
  base_at_auth i ct (ntf ++ q) k v =
  match base_scan i ct ntf k v with Stopped r => r | Cur v' => base_at_auth i ct q k v' end.
Proof.
  intros i ct ntf q k. induction ntf as [|[i' m] r IH]; intros v; simpl.
  - reflexivity.
  - destruct (Z.eqb i' i); [|apply IH].
    destruct m as [k' st e nm|tbl nm|ok ts]; try apply IH.
    destruct (Z.ltb ct ts); [reflexivity|apply IH].
Qed.

Lemma base_of_scan : forall i ct ntf k v,
  base_at_auth i ct ntf k v = match base_scan i ct ntf k v with Stopped r => r | Cur _ => None end.
Proof.
  intros i ct ntf k v. rewrite <- (app_nil_r ntf) at 1. rewrite base_app.
  destruct (base_scan i ct ntf k v); reflexivity.
Qed.

Lemma base_none_if_old : forall i ct ntf k v,
  (forall i' ok ts, In (i', MAuth ok ts) ntf -> ts <= ct) -> base_at_auth i ct ntf k v = None.
Proof.
  intros i ct ntf k. induction ntf as [|[i' m] r IH]; intros v H; simpl.
  - reflexivity.
  - assert (Hr : forall i' ok ts, In (i', MAuth ok ts) r -> ts <= ct) by (intros; eapply H; right; eassumption).
    destruct (Z.eqb i' i); [|apply IH; exact Hr].
    destruct m as [k' st e nm|tbl nm|ok ts]; try (apply IH; exact Hr).
    assert (ts <= ct) by (eapply H; left; reflexivity).
    destruct (Z.ltb_spec ct ts); [lia|apply IH; exact Hr].
Qed.

Lemma base_app_other : forall i ct ntf q k v,
  (forall i' m, In (i', m) q -> i' <> i) -> base_at_auth i ct (ntf ++ q) k v = base_at_auth i ct ntf k v.
Proof.
  intros i ct ntf q k v H. rewrite base_app, base_of_scan.
  destruct (base_scan i ct ntf k v) as [r|v']; [reflexivity|].
  clear ntf. revert v'. induction q as [|[i' m] r IH]; intros v'; simpl; [reflexivity|].
  assert (i' <> i) by (eapply H; left; reflexivity).
  destruct (Z.eqb_spec i' i); [contradiction|]. apply IH. intros; eapply H; right; eassumption.
Qed.

(* ---- well-formed clusters ---- *)
Definition isnode (c : cluster) (j : Z) : Prop := exists n, aget j (c_nodes c) = Some n.

Record node_wf (c : cluster) (i : Z) (n : cnode) : Prop := mkNW {
  nw_ctx : rwf (cn_ctx n);
  nw_truth : NoDup (akeys (cn_truth n));
  nw_self : aget i (cn_out n) = None;
  nw_out : forall j, j <> i -> isnode c j -> exists q, aget j (cn_out n) = Some q;
  nw_auth : forall i' ok ts, In (i', MAuth ok ts) (cn_ntf n) -> ts < c_now c;
  nw_chk : forall i', chk (cn_ctx n) i' < c_now c
}.

Definition cwf (c : cluster) : Prop := forall i n, aget i (c_nodes c) = Some n -> node_wf c i n.

Lemma nodes_set : forall c x nx j,
  aget j (c_nodes (set_node c x nx)) = if Z.eqb j x then Some nx else aget j (c_nodes c).
Proof.
  intros c x nx j. unfold set_node. cbn [c_nodes]. destruct (Z.eqb_spec j x) as [E|E].
  - subst. apply aget_aset_same.
  - apply aget_aset_other. exact E.
Qed.

Lemma nodes_tick : forall c, c_nodes (tick_clock c) = c_nodes c.
Proof. reflexivity. Qed.

Lemma isnode_set : forall c x nx j, isnode c x -> (isnode (set_node c x nx) j <-> isnode c j).
Proof.
  intros c x nx j [n0 Hx]. unfold isnode. rewrite nodes_set. destruct (Z.eqb_spec j x) as [E|E].
  - subst. split; intros _; eauto.
  - tauto.
Qed.

Lemma cwf_tick : forall c, cwf c -> cwf (tick_clock c).
Proof.
  intros c H i n E. destruct (H i n E) as [A B C D F G].
  constructor; auto.
  - intros i' ok ts Hi. cbn [tick_clock c_now]. pose proof (F i' ok ts Hi). lia.
  - intros i'. cbn [tick_clock c_now]. pose proof (G i'). lia.
Qed.

Lemma cwf_set : forall c x nx nx', cwf c -> aget x (c_nodes c) = Some nx ->
  rwf (cn_ctx nx') -> NoDup (akeys (cn_truth nx')) -> aget x (cn_out nx') = None ->
  (forall j q, aget j (cn_out nx) = Some q -> exists q', aget j (cn_out nx') = Some q') ->
  (forall i' ok ts, In (i', MAuth ok ts) (cn_ntf nx') -> ts < c_now c) ->
  (forall i', chk (cn_ctx nx') i' < c_now c) ->
  cwf (set_node c x nx').
Proof.
  intros c x nx nx' H Hx A B C D F G i n E. rewrite nodes_set in E.
  assert (Hisn : forall j, isnode (set_node c x nx') j -> isnode c j).
  { intros j. apply isnode_set. exists nx. exact Hx. }
  destruct (Z.eqb_spec i x) as [Eix|Eix].
  - inversion E; subst n i. constructor; auto.
    intros j Hj Hn. destruct (nw_out _ _ _ (H x nx Hx) j Hj (Hisn j Hn)) as [q Hq]. eapply D. exact Hq.
  - destruct (H i n E) as [A' B' C' D' F' G']. constructor; auto.
Qed.

(* ---- the pair invariant ---- *)
(* CI: the last queued event of i about k is what i's Supervisor reports (as long as i queues for j).
   PI: inside a window, what j will end up holding about (k, i) is what i's Supervisor reports. *)
Definition pinv (nj ni : cnode) (j i : Z) : Prop :=
  (adm (cn_ctx ni) j <> Some ISOLATED ->
     forall k t, last_ev k (out_queue ni j) = Some t -> aget k (cn_truth ni) = Some t)
  /\ (forall k b t, window_base nj i k = Some b -> aget k (cn_truth ni) = Some t ->
        final k (out_queue ni j) b = Some t).

Definition cpinv (c : cluster) : Prop :=
  forall j i nj ni, aget j (c_nodes c) = Some nj -> aget i (c_nodes c) = Some ni -> pinv nj ni j i.

Lemma pinv_frame : forall nj ni nj' ni' j i,
  pinv nj ni j i ->
  cn_truth ni' = cn_truth ni -> out_queue ni' j = out_queue ni j ->
  (adm (cn_ctx ni) j = Some ISOLATED -> adm (cn_ctx ni') j = Some ISOLATED) ->
  (forall k b, window_base nj' i k = Some b -> window_base nj i k = Some b) ->
  pinv nj' ni' j i.
Proof.
  intros nj ni nj' ni' j i [CI PI] Ht Hq Ha Hw. split.
  - intros Hn k t Hl. rewrite Ht. rewrite Hq in Hl. apply CI; [|exact Hl].
    intros Hiso. apply Hn. apply Ha. exact Hiso.
  - intros k b t Hb Hk. rewrite Hq. rewrite Ht in Hk. apply (PI k b t (Hw k b Hb) Hk).
Qed.

Lemma window_base_frame : forall nj nj' i k,
  adm (cn_ctx nj') i = adm (cn_ctx nj) i -> chk (cn_ctx nj') i = chk (cn_ctx nj) i ->
  cn_ntf nj' = cn_ntf nj -> rvinfo (cn_ctx nj') k i = rvinfo (cn_ctx nj) k i ->
  window_base nj' i k = window_base nj i k.
Proof. intros nj nj' i k Ha Hc Hn Hv. unfold window_base. rewrite Ha, Hc, Hn, Hv. reflexivity. Qed.

Lemma out_queue_set_other : forall n j j' q, j' <> j -> out_queue (set_out n (aset j q (cn_out n))) j' = out_queue n j'.
Proof. intros n j j' q H. unfold out_queue. cbn [set_out cn_out]. rewrite aget_aset_other by exact H. reflexivity. Qed.

Lemma out_queue_set_same : forall n j q, out_queue (set_out n (aset j q (cn_out n))) j = q.
Proof. intros n j q. unfold out_queue. cbn [set_out cn_out]. rewrite aget_aset_same. reflexivity. Qed.

Lemma cpinv_tick : forall c, cpinv c -> cpinv (tick_clock c).
Proof. intros c H. exact H. Qed.

(* node x is replaced by a node with the same Supervisor table and the same outgoing queues *)
Lemma node_update_pinv : forall c x nx nx',
  cpinv c -> aget x (c_nodes c) = Some nx ->
  cn_truth nx' = cn_truth nx -> cn_out nx' = cn_out nx ->
  (forall j, adm (cn_ctx nx) j = Some ISOLATED -> adm (cn_ctx nx') j = Some ISOLATED) ->
  (forall i ni k b, aget i (c_nodes c) = Some ni -> window_base nx' i k = Some b ->
       window_base nx i k = Some b
       \/ (forall t, aget k (cn_truth ni) = Some t -> final k (out_queue ni x) b = Some t)) ->
  cpinv (set_node c x nx').
Proof.
  intros c x nx nx' H Hx Ht Ho Ha Hw j i nj' ni' Hj Hi.
  rewrite nodes_set in Hj, Hi.
  assert (Hq : forall y, out_queue nx' y = out_queue nx y) by (intros y; unfold out_queue; rewrite Ho; reflexivity).
  destruct (Z.eqb_spec j x) as [Ejx|Ejx]; destruct (Z.eqb_spec i x) as [Eix|Eix].
  - (* both sides are the updated node *)
    inversion Hj; inversion Hi; subst nj' ni' j i.
    destruct (H x x nx nx Hx Hx) as [CI PI]. split.
    + intros Hn k t Hl. rewrite Ht. rewrite Hq in Hl. apply CI; [|exact Hl].
      intros Hiso. apply Hn. apply Ha. exact Hiso.
    + intros k b t Hb Hk. rewrite Hq. rewrite Ht in Hk.
      destruct (Hw x nx k b Hx Hb) as [Hold|Hnew]; [apply (PI k b t Hold Hk)|apply Hnew; exact Hk].
  - inversion Hj; subst nj' j.
    destruct (H x i nx ni' Hx Hi) as [CI PI]. split; [exact CI|].
    intros k b t Hb Hk.
    destruct (Hw i ni' k b Hi Hb) as [Hold|Hnew]; [apply (PI k b t Hold Hk)|apply Hnew; exact Hk].
  - inversion Hi; subst ni' i.
    apply (pinv_frame nj' nx nj' nx' j x (H j x nj' nx Hj Hx) Ht (Hq j) (Ha j)). auto.
  - apply (H j i nj' ni' Hj Hi).
Qed.

Lemma node_update_wf : forall c x nx ctx' ntf',
  cwf c -> aget x (c_nodes c) = Some nx -> rwf ctx' ->
  (forall i' ok ts, In (i', MAuth ok ts) ntf' -> ts < c_now c + 1) ->
  (forall i', chk ctx' i' < c_now c + 1) ->
  cwf (tick_clock (set_node c x (set_ntf (set_ctx nx ctx') ntf'))).
Proof.
  intros c x nx ctx' ntf' H Hx Hr Hn Hc.
  change (tick_clock (set_node c x (set_ntf (set_ctx nx ctx') ntf')))
    with (set_node (tick_clock c) x (set_ntf (set_ctx nx ctx') ntf')).
  destruct (H x nx Hx) as [A B C D F G].
  apply (cwf_set (tick_clock c) x nx); auto.
  - apply cwf_tick. exact H.
  - intros j q Hq. exists q. exact Hq.
Qed.

Lemma set_ntf_same : forall n, set_ntf n (cn_ntf n) = n.
Proof. intros [a b c d]. reflexivity. Qed.

(* ---------- TickFrom ---------- *)
Lemma step_tick_from : forall c i0 j0, cwf c ->
  exists c', cstep c (TickFrom i0 j0) = Ok c' /\ cwf c' /\ (cpinv c -> cpinv c').
Proof.
  intros c i0 j0 H. unfold cstep; cbv zeta.
  destruct (aget j0 (c_nodes c)) as [nj|] eqn:Ej.
  2:{ eexists. split; [reflexivity|]. split; [apply cwf_tick; exact H|auto]. }
  destruct (H j0 nj Ej) as [A B C D F G].
  destruct (rstep_tick (cn_ctx nj) i0 (c_now c) (c_now c) A) as [ctx' [E [Hr [Hme [Hv [Ha Hc]]]]]].
  rewrite E. cbn [bind]. eexists. split; [reflexivity|]. split.
  - rewrite <- (set_ntf_same (set_ctx nj ctx')). apply node_update_wf; auto.
    + intros i' ok ts Hi. pose proof (F i' ok ts Hi). lia.
    + intros i'. rewrite Hc. destruct (tick_starts (cn_ctx nj) i0 && Z.eqb i' i0); [lia|]. pose proof (G i'). lia.
  - intros HP. apply cpinv_tick. apply (node_update_pinv c j0 nj); auto.
    + intros j Hiso. cbn [set_ctx cn_ctx]. rewrite Ha, Hiso.
      destruct (tick_starts (cn_ctx nj) i0 && Z.eqb j i0) eqn:Es; [|reflexivity].
      apply andb_true_iff in Es. destruct Es as [Es Ee]. apply Z.eqb_eq in Ee. subst j.
      unfold tick_starts in Es. rewrite Hiso in Es. discriminate.
    + intros i ni k b Hi Hb. left.
      destruct (tick_starts (cn_ctx nj) i0 && Z.eqb i i0) eqn:Es.
      * exfalso. unfold window_base in Hb. cbn [set_ctx cn_ctx cn_ntf] in Hb. rewrite Ha, Hc, Es in Hb.
        rewrite base_none_if_old in Hb; [discriminate|].
        intros i' ok ts Hin. pose proof (F i' ok ts Hin). lia.
      * rewrite <- Hb. symmetry. apply window_base_frame; cbn [set_ctx cn_ctx cn_ntf]; auto.
        -- rewrite Ha, Es. reflexivity.
        -- rewrite Hc, Es. reflexivity.
Qed.

(* ---------- ActivateAt ---------- *)
Lemma step_activate : forall c j0, cwf c ->
  exists c', cstep c (ActivateAt j0) = Ok c' /\ cwf c' /\ (cpinv c -> cpinv c').
Proof.
  intros c j0 H. unfold cstep; cbv zeta.
  destruct (aget j0 (c_nodes c)) as [nj|] eqn:Ej.
  2:{ eexists. split; [reflexivity|]. split; [apply cwf_tick; exact H|auto]. }
  destruct (H j0 nj Ej) as [A B C D F G].
  destruct (rstep_activate (cn_ctx nj) (c_now c)) as [ctx' [E [Hp [Hme [Ha Hc]]]]].
  rewrite E. cbn [bind]. eexists. split; [reflexivity|].
  assert (Hv : forall k i, rvinfo ctx' k i = rvinfo (cn_ctx nj) k i) by (intros; unfold rvinfo; rewrite Hp; reflexivity).
  split.
  - rewrite <- (set_ntf_same (set_ctx nj ctx')). apply node_update_wf; auto.
    + unfold rwf. rewrite Hp. exact A.
    + intros i' ok ts Hi. pose proof (F i' ok ts Hi). lia.
    + intros i'. rewrite Hc. pose proof (G i'). lia.
  - intros HP. apply cpinv_tick. apply (node_update_pinv c j0 nj); auto.
    + intros j Hiso. cbn [set_ctx cn_ctx]. rewrite Ha. unfold checked_b. rewrite Hiso. reflexivity.
    + intros i ni k b Hi Hb. left. rewrite <- Hb. unfold window_base. cbn [set_ctx cn_ctx cn_ntf].
      rewrite Ha, Hc, Hv. unfold checked_b. destruct (adm (cn_ctx nj) i) as [[]|]; reflexivity.
Qed.

(* ---------- Fail ---------- *)
Lemma step_fail : forall c j0 i0, cwf c ->
  exists c', cstep c (Fail j0 i0) = Ok c' /\ cwf c' /\ (cpinv c -> cpinv c').
Proof.
  intros c j0 i0 H. unfold cstep; cbv zeta.
  destruct (aget j0 (c_nodes c)) as [nj|] eqn:Ej.
  2:{ eexists. split; [reflexivity|]. split; [apply cwf_tick; exact H|auto]. }
  destruct (H j0 nj Ej) as [A B C D F G].
  destruct (rstep_failure (cn_ctx nj) i0 (c_now c)) as [ctx' [E [Hp [Hme [Ha Hc]]]]].
  rewrite E. cbn [bind]. eexists. split; [reflexivity|].
  assert (Hv : forall k i, rvinfo ctx' k i = rvinfo (cn_ctx nj) k i) by (intros; unfold rvinfo; rewrite Hp; reflexivity).
  split.
  - rewrite <- (set_ntf_same (set_ctx nj ctx')). apply node_update_wf; auto.
    + unfold rwf. rewrite Hp. exact A.
    + intros i' ok ts Hi. pose proof (F i' ok ts Hi). lia.
    + intros i'. rewrite Hc. pose proof (G i'). lia.
  - intros HP. apply cpinv_tick. apply (node_update_pinv c j0 nj); auto.
    + intros j Hiso. cbn [set_ctx cn_ctx]. rewrite Ha, Hiso.
      destruct (is_active (cn_ctx nj) i0 && Z.eqb j i0) eqn:Es; [|reflexivity].
      apply andb_true_iff in Es. destruct Es as [Es Ee]. apply Z.eqb_eq in Ee. subst j.
      unfold is_active in Es. rewrite Hiso in Es. discriminate.
    + intros i ni k b Hi Hb. left. rewrite <- Hb. unfold window_base. cbn [set_ctx cn_ctx cn_ntf].
      rewrite Ha, Hc, Hv.
      destruct (is_active (cn_ctx nj) i0 && Z.eqb i i0) eqn:Es; [|reflexivity].
      exfalso. unfold window_base in Hb. cbn [set_ctx cn_ctx] in Hb. rewrite Ha, Es in Hb. discriminate.
Qed.

(* ---------- InvalidateAt ---------- *)
Lemma step_invalidate : forall c j0 iso, cwf c ->
  exists c', cstep c (InvalidateAt j0 iso) = Ok c' /\ cwf c' /\ (cpinv c -> cpinv c').
Proof.
  intros c j0 iso H. unfold cstep; cbv zeta.
  destruct (aget j0 (c_nodes c)) as [nj|] eqn:Ej.
  2:{ eexists. split; [reflexivity|]. split; [apply cwf_tick; exact H|auto]. }
  destruct (H j0 nj Ej) as [A B C D F G].
  destruct (rstep_invalidate_failed (cn_ctx nj) iso (c_now c) A) as [ctx' [E [Hr [Hme [Ha [Hc Hv]]]]]].
  rewrite E. cbn [bind]. eexists. split; [reflexivity|]. split.
  - rewrite <- (set_ntf_same (set_ctx nj ctx')). apply node_update_wf; auto.
    + intros i' ok ts Hi. pose proof (F i' ok ts Hi). lia.
    + intros i'. rewrite Hc. pose proof (G i'). lia.
  - intros HP. apply cpinv_tick. apply (node_update_pinv c j0 nj); auto.
    + intros j Hiso. cbn [set_ctx cn_ctx]. rewrite Ha. unfold failed_b. rewrite Hiso. reflexivity.
    + intros i ni k b Hi Hb. left.
      destruct (failed_b (cn_ctx nj) i) eqn:Ef.
      * exfalso. unfold window_base in Hb. cbn [set_ctx cn_ctx] in Hb. rewrite Ha, Ef in Hb.
        unfold inv_target in Hb. destruct (Z.eqb i (r_me (cn_ctx nj))); [discriminate|]. destruct iso; discriminate.
      * rewrite <- Hb. symmetry. apply window_base_frame; cbn [set_ctx cn_ctx cn_ntf]; auto.
        rewrite Ha, Ef. reflexivity.
Qed.

(* ---------- Notify ---------- *)
Lemma step_notify : forall c j0, cwf c ->
  exists c', cstep c (Notify j0) = Ok c' /\ cwf c' /\ (cpinv c -> cpinv c').
Proof.
  intros c j0 H. unfold cstep; cbv zeta.
  destruct (aget j0 (c_nodes c)) as [nj|] eqn:Ej.
  2:{ eexists. split; [reflexivity|]. split; [apply cwf_tick; exact H|auto]. }
  destruct (H j0 nj Ej) as [A B C D F G].
  destruct (cn_ntf nj) as [|[i0 m] rest] eqn:En.
  { eexists. split; [reflexivity|]. split; [apply cwf_tick; exact H|auto]. }
  assert (Frest : forall i' ok ts, In (i', MAuth ok ts) rest -> ts < c_now c + 1).
  { intros i' ok ts Hi. pose proof (F i' ok ts (or_intror Hi)). lia. }
  destruct m as [k0 st0 e0 nm0|tbl nm|ok ts].
  - (* a publication never sits in this queue; total anyway *)
    eexists. split; [reflexivity|]. split.
    + replace (set_ntf nj rest) with (set_ntf (set_ctx nj (cn_ctx nj)) rest) by (destruct nj; reflexivity).
      apply node_update_wf; auto. intros i'. pose proof (G i'). lia.
    + intros HP. apply cpinv_tick. apply (node_update_pinv c j0 nj); auto.
      intros i ni k b Hi Hb. left. rewrite <- Hb. unfold window_base. cbn [set_ntf cn_ctx cn_ntf]. rewrite En.
      destruct (adm (cn_ctx nj) i) as [[]|]; try reflexivity.
      simpl base_at_auth. destruct (Z.eqb i0 i); reflexivity.
  - (* ALL_INFO *)
    destruct (rstep_load_all (cn_ctx nj) i0 tbl nm (c_now c) A) as [ctx' [E [Hr [Hadm [Hme Hv]]]]].
    rewrite E. cbn [bind]. eexists. split; [reflexivity|].
    assert (Ha : forall i, adm ctx' i = adm (cn_ctx nj) i) by (intros; unfold adm; rewrite Hadm; reflexivity).
    assert (Hc : forall i, chk ctx' i = chk (cn_ctx nj) i) by (intros; unfold chk; rewrite Hadm; reflexivity).
    split.
    + apply node_update_wf; auto. intros i'. rewrite Hc. pose proof (G i'). lia.
    + intros HP. apply cpinv_tick. apply (node_update_pinv c j0 nj); auto.
      * intros j Hiso. cbn [set_ntf set_ctx cn_ctx]. rewrite Ha. exact Hiso.
      * intros i ni k b Hi Hb. left. rewrite <- Hb. unfold window_base. cbn [set_ntf set_ctx cn_ctx cn_ntf].
        rewrite Ha, Hc, Hv, En. unfold checking_b.
        destruct (Z.eqb_spec i i0) as [Ei|Ei].
        -- subst i. destruct (adm (cn_ctx nj) i0) as [[]|] eqn:Ea; simpl; try reflexivity.
           rewrite Z.eqb_refl. reflexivity.
        -- rewrite andb_false_r. destruct (adm (cn_ctx nj) i) as [[]|]; try reflexivity.
           simpl base_at_auth. destruct (Z.eqb_spec i0 i); [congruence|reflexivity].
  - (* AUTHORIZATION *)
    destruct (rstep_auth (cn_ctx nj) i0 ok ts (c_now c)) as [ctx' [E [Hp [Hme [Ha Hc]]]]].
    rewrite E. cbn [bind]. eexists. split; [reflexivity|].
    assert (Hv : forall k i, rvinfo ctx' k i = rvinfo (cn_ctx nj) k i) by (intros; unfold rvinfo; rewrite Hp; reflexivity).
    split.
    + apply node_update_wf; auto.
      * unfold rwf. rewrite Hp. exact A.
      * intros i'. rewrite Hc. pose proof (G i'). lia.
    + intros HP. apply cpinv_tick. apply (node_update_pinv c j0 nj); auto.
      * intros j Hiso. cbn [set_ntf set_ctx cn_ctx]. rewrite Ha, Hiso.
        destruct (auth_accepted (cn_ctx nj) i0 ts && Z.eqb j i0) eqn:Es; [|reflexivity].
        apply andb_true_iff in Es. destruct Es as [Es Ee]. apply Z.eqb_eq in Ee. subst j.
        unfold auth_accepted, checking_b in Es. rewrite Hiso in Es. discriminate.
      * intros i ni k b Hi Hb. left. rewrite <- Hb. unfold window_base. cbn [set_ntf set_ctx cn_ctx cn_ntf].
        rewrite Ha, Hc, Hv, En. unfold auth_accepted, checking_b, auth_target.
        destruct (Z.eqb_spec i i0) as [Ei|Ei].
        -- subst i. rewrite andb_true_r.
           destruct (adm (cn_ctx nj) i0) as [[]|] eqn:Ea; simpl; try reflexivity.
           rewrite Z.eqb_refl. destruct (Z.ltb (chk (cn_ctx nj) i0) ts); [|reflexivity].
           destruct ok; [reflexivity|]. destruct (Z.eqb i0 (r_me (cn_ctx nj))); reflexivity.
        -- rewrite andb_false_r. destruct (adm (cn_ctx nj) i) as [[]|]; try reflexivity.
           simpl base_at_auth. destruct (Z.eqb_spec i0 i); [congruence|reflexivity].
Qed.

(* ---------- SnapshotRead ---------- *)
Lemma step_snapshot_read : forall c j0 i0, cwf c ->
  exists c', cstep c (SnapshotRead j0 i0) = Ok c' /\ cwf c' /\ (cpinv c -> cpinv c').
Proof.
  intros c j0 i0 H. unfold cstep; cbv zeta.
  destruct (aget j0 (c_nodes c)) as [nj|] eqn:Ej.
  2:{ eexists. split; [reflexivity|]. split; [apply cwf_tick; exact H|auto]. }
  destruct (aget i0 (c_nodes c)) as [ni0|] eqn:Ei0.
  2:{ eexists. split; [reflexivity|]. split; [apply cwf_tick; exact H|auto]. }
  destruct (valid_state (cn_ctx nj) i0) as [s|] eqn:Evs.
  2:{ eexists. split; [reflexivity|]. split; [apply cwf_tick; exact H|auto]. }
  destruct (H j0 nj Ej) as [A B C D F G].
  destruct (H i0 ni0 Ei0) as [A0 B0 C0 D0 F0 G0].
  set (ok := match adm (cn_ctx ni0) j0 with Some Node.ISOLATED => false | Some _ => true | None => false end).
  set (q := if ok then [(i0, MSnapshot (snapshot_of (cn_truth ni0)) (c_now c)); (i0, MAuth true (c_now c))]
            else [(i0, MAuth false (c_now c))]).
  eexists. split; [reflexivity|]. split.
  - replace (set_ntf nj (cn_ntf nj ++ q)) with (set_ntf (set_ctx nj (cn_ctx nj)) (cn_ntf nj ++ q)) by (destruct nj; reflexivity).
    apply node_update_wf; auto.
    + intros i' ok' ts Hi. apply in_app_iff in Hi. destruct Hi as [Hi|Hi].
      * pose proof (F i' ok' ts Hi). lia.
      * unfold q in Hi. destruct ok; simpl in Hi.
        -- destruct Hi as [Hi|[Hi|[]]]; inversion Hi; subst. lia.
        -- destruct Hi as [Hi|[]]; inversion Hi; subst. lia.
    + intros i'. pose proof (G i'). lia.
  - intros HP. apply cpinv_tick. apply (node_update_pinv c j0 nj); auto.
    intros i ni k b Hi Hb.
    unfold window_base in Hb |- *. cbn [set_ntf cn_ctx cn_ntf] in Hb.
    destruct (adm (cn_ctx nj) i) as [[]|] eqn:Ea; try discriminate; try (left; exact Hb).
    (* CHECKING *)
    destruct (Z.eqb_spec i i0) as [Ei|Ei].
    2:{ left. rewrite base_app_other in Hb; [exact Hb|].
        intros i' m Hin. unfold q in Hin. destruct ok; simpl in Hin.
        - destruct Hin as [Hin|[Hin|[]]]; inversion Hin; subst; auto.
        - destruct Hin as [Hin|[]]; inversion Hin; subst; auto. }
    subst i. rewrite Hi in Ei0. inversion Ei0; subst ni0. clear Ei0.
    rewrite base_app in Hb. rewrite base_of_scan.
    destruct (base_scan i0 (chk (cn_ctx nj) i0) (cn_ntf nj) k (rvinfo (cn_ctx nj) k i0)) as [r|v'].
    { left. exact Hb. }
    right. intros t Ht.
    unfold q in Hb. destruct ok eqn:Eok.
    2:{ simpl in Hb. rewrite Z.eqb_refl in Hb. destruct (Z.ltb (chk (cn_ctx nj) i0) (c_now c)); discriminate. }
    simpl in Hb. rewrite Z.eqb_refl in Hb.
    destruct (Z.ltb (chk (cn_ctx nj) i0) (c_now c)); [|discriminate].
    inversion Hb; subst b. clear Hb.
    rewrite (overlay_snapshot _ k v' B0), Ht.
    destruct (HP j0 i0 nj ni Ej Hi) as [CI _].
    unfold final. destruct (last_ev k (out_queue ni j0)) as [t'|] eqn:El; [|reflexivity].
    rewrite (CI) with (k := k) (t := t') in Ht; [inversion Ht; reflexivity| |exact El].
    unfold ok in Eok. intros Hiso. rewrite Hiso in Eok. discriminate.
Qed.
