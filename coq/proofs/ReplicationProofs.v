(* ReplicationProofs.v — proofs about model/Replication.v (C12; process-plane clause of C13).
   Sections:
     A. the admission gates of one Context (events_only_from_admitted, isolated_peer_noninterference_procs)
     B. what one ProcStatus operation does to the per-instance information (through the C11 refinement)
     C. what one receiver step does to a Context (no crash, frame, admission states)
     D. the model of one Context satisfies Spec_C13 (process plane) on every history
     E. cluster: channel / window invariant, agreement_partial and corollaries
     F. the handshake window: concrete schedules ending quiescent with a wrong view (F13) *)
From Sup Require Import ProcStatus ProcStatusProofs Replication.
From Sup Require Node.
From Coq Require Import Lia.

(* ====================================================================== *)
(* A. admission gates                                                       *)
(* ====================================================================== *)
Lemma valid_state_some : forall c j s, valid_state c j = Some s -> adm c j = Some s /\ s <> ISOLATED.
Proof.
  intros c j s H. unfold valid_state in H. destruct (adm c j) as [s'|]; [|discriminate].
  destruct s'; simpl in H; inversion H; subst; split; auto; discriminate.
Qed.

Lemma valid_state_of_adm : forall c j s, adm c j = Some s -> s <> ISOLATED -> valid_state c j = Some s.
Proof. intros c j s H N. unfold valid_state. rewrite H. destruct s; simpl; auto. contradiction. Qed.

Lemma valid_state_isolated : forall c j, adm c j = Some ISOLATED -> valid_state c j = None.
Proof. intros c j H. unfold valid_state. rewrite H. reflexivity. Qed.

Lemma valid_state_unknown : forall c j, adm c j = None -> valid_state c j = None.
Proof. intros c j H. unfold valid_state. rewrite H. reflexivity. Qed.

(* C13, process plane: a process state / forced state / removal / disability event whose sender is not CHECKED
   or RUNNING leaves the whole Context unchanged (not only its observable). *)
Theorem events_only_from_admitted : forall c o j,
  is_gated_event o = true -> rop_origin o = Some j ->
  (forall s, adm c j = Some s -> admitted s = false) ->
  rstep c o = Ok c.
Proof.
  intros c o j Hg Ho Ha.
  destruct o; simpl in Hg; try discriminate; simpl in Ho; inversion Ho; subst; simpl;
    unfold valid_state; destruct (adm c j) as [s|] eqn:E; try reflexivity;
    destruct (Node.istate_eqb s ISOLATED); try reflexivity; rewrite (Ha s eq_refl); reflexivity.
Qed.

(* the ALL_INFO notification is only taken into account in CHECKING *)
Theorem load_only_when_checking : forall c j infos nm now,
  adm c j <> Some CHECKING -> rstep c (LoadAll j infos nm now) = Ok c.
Proof.
  intros c j infos nm now H. simpl. unfold valid_state. destruct (adm c j) as [s|]; [|reflexivity].
  destruct s; simpl; try reflexivity. exfalso. apply H. reflexivity.
Qed.

(* nothing that claims to come from an ISOLATED (or unknown) instance changes anything: Context.is_valid *)
Theorem isolated_peer_noninterference_procs : forall c o j,
  rop_origin o = Some j -> (adm c j = Some ISOLATED \/ adm c j = None) -> rstep c o = Ok c.
Proof.
  intros c o j Ho Hi.
  assert (V : valid_state c j = None).
  { destruct Hi as [Hi|Hi]; [apply valid_state_isolated|apply valid_state_unknown]; exact Hi. }
  destruct o; simpl in Ho; inversion Ho; subst; simpl; rewrite V; reflexivity.
Qed.

Corollary events_only_from_admitted_obs : forall c o j c',
  is_gated_event o = true -> rop_origin o = Some j ->
  (forall s, adm c j = Some s -> admitted s = false) ->
  rstep c o = Ok c' -> robserve c' = robserve c.
Proof. intros c o j c' Hg Ho Ha H. rewrite (events_only_from_admitted c o j Hg Ho Ha) in H. inversion H. reflexivity. Qed.

Fixpoint rrun_state (c : rctx) (ops : list rop) : result rctx :=
  match ops with
  | [] => Ok c
  | o :: r => bind (rstep c o) (fun c' => rrun_state c' r)
  end.

(* the hypotheses are satisfiable, and the gate is not vacuous: the same event is refused while the sender is
   CHECKING and taken into account once it is CHECKED *)
Definition demo_checking : rctx :=
  match rrun_state (rinit 1 [1; 2]) [Tick 1 5 100; Auth 1 true 101 101; Tick 2 7 102;
                                     LoadAll 2 [(7, RUNNING, true, false)] 8 103] with
  | Ok c => c | Crash _ => rinit 1 [1; 2] end.

Example demo_gate_closed :
  adm demo_checking 2 = Some CHECKING
  /\ rstep demo_checking (ProcEvent 2 7 STOPPED true 9 104) = Ok demo_checking.
Proof. split; [vm_compute; reflexivity|]. apply (events_only_from_admitted _ _ 2); try reflexivity.
  intros s H. vm_compute in H. inversion H. reflexivity. Qed.

Example demo_gate_open :
  match rrun_state demo_checking [Auth 2 true 104 104; ProcEvent 2 7 STOPPED true 9 105] with
  | Ok c => rvinfo c 7 2 = Some (STOPPED, true) /\ rvinfo demo_checking 7 2 = Some (RUNNING, true)
  | Crash _ => False
  end.
Proof. vm_compute. split; reflexivity. Qed.

Example demo_isolated :
  match rrun_state demo_checking [Auth 2 false 104 104] with
  | Ok c => adm c 2 = Some ISOLATED
            /\ rstep c (Added 2 (8, RUNNING, true, false) 9 105) = Ok c
            /\ rstep c (Tick 2 9 105) = Ok c
  | Crash _ => False
  end.
Proof. vm_compute. repeat split; reflexivity. Qed.

(* ====================================================================== *)
(* B. one ProcStatus operation, seen through the per-instance information   *)
(* ====================================================================== *)
Definition svinfo (sp : spec) (i : Z) : option tinfo :=
  match aget i (sp_infos sp) with Some si => Some (s_state si, s_expected si) | None => None end.

Lemma pvinfo_R : forall p sp i, R p sp -> pvinfo p i = svinfo sp i.
Proof.
  intros p sp i [HR _]. unfold pvinfo, svinfo.
  pose proof (arel_aget irel i _ _ (rc_infos _ _ _ HR)) as G.
  destruct (aget i (p_infos p)) as [inf|]; destruct (aget i (sp_infos sp)) as [si|]; try contradiction; auto.
  destruct G as [G1 [G2 _]]. rewrite G1, G2. reflexivity.
Qed.

Lemma amem_pvinfo : forall p i, amem i (p_infos p) = match pvinfo p i with Some _ => true | None => false end.
Proof. intros p i. unfold amem, pvinfo. destruct (aget i (p_infos p)); reflexivity. Qed.

Lemma amem_R : forall p sp i, R p sp -> amem i (sp_infos sp) = amem i (p_infos p).
Proof.
  intros p sp i HR. rewrite amem_pvinfo, (pvinfo_R p sp i HR). unfold amem, svinfo.
  destruct (aget i (sp_infos sp)); reflexivity.
Qed.

Lemma svinfo_report : forall sp j st e evt now cf i,
  svinfo (spec_report sp j st e evt now cf) i = if Z.eqb i j then Some (st, e) else svinfo sp i.
Proof.
  intros sp j st e evt now cf i. unfold spec_report, svinfo. cbn [sp_infos].
  destruct (Z.eqb_spec i j) as [E|E].
  - subst. rewrite aget_aset_same. reflexivity.
  - rewrite aget_aset_other by exact E. reflexivity.
Qed.

(* a ProcessStatus that the C11 refinement relates to some specification state *)
Definition wfp (p : proc) : Prop := exists sp, R p sp.

Lemma wfp_init : wfp proc_init.
Proof. exists spec_init. exact R_init. Qed.

Lemma wfp_add_info : forall p j st e nm d now, wfp p ->
  exists p', add_info p j st e nm d now = Ok p' /\ wfp p'
    /\ forall i, pvinfo p' i = if Z.eqb i j then Some (st, e) else pvinfo p i.
Proof.
  intros p j st e nm d now [sp HR].
  destruct (add_info_refines p sp j st e nm d now HR) as [p' [E HR']].
  exists p'. split; [exact E|]. split; [eexists; exact HR'|].
  intros i. rewrite (pvinfo_R _ _ i HR'), (pvinfo_R _ _ i HR). simpl. apply svinfo_report.
Qed.

Lemma wfp_update_info : forall p j st e nm now ext, wfp p -> amem j (p_infos p) = true ->
  exists p', update_info p j st e nm now ext = Ok p' /\ wfp p'
    /\ forall i, pvinfo p' i = if Z.eqb i j then Some (st, e) else pvinfo p i.
Proof.
  intros p j st e nm now ext [sp HR] Hm.
  assert (Hm' : amem j (sp_infos sp) = true) by (rewrite (amem_R p sp j HR); exact Hm).
  destruct (update_info_refines p sp j st e nm now ext HR Hm') as [p' [E HR']].
  exists p'. split; [exact E|]. split; [eexists; exact HR'|].
  intros i. rewrite (pvinfo_R _ _ i HR'), (pvinfo_R _ _ i HR). apply svinfo_report.
Qed.

Lemma wfp_force : forall p t st et, wfp p ->
  wfp (fst (force_state p t st et)) /\ forall i, pvinfo (fst (force_state p t st et)) i = pvinfo p i.
Proof.
  intros p t st et [sp HR].
  destruct (step_refines p sp (Force t st et 0) HR eq_refl) as [p' [E HR']].
  simpl in E. inversion E; subst p'. split; [eexists; exact HR'|].
  intros i. rewrite (pvinfo_R _ _ i HR'), (pvinfo_R _ _ i HR). simpl.
  destruct (match aget t (sp_infos sp) with Some si => s_evt si <=? et | None => true end); reflexivity.
Qed.

Lemma wfp_disable : forall p j b, wfp p ->
  exists p', step p (Disable j b) = Ok p' /\ wfp p' /\ forall i, pvinfo p' i = pvinfo p i.
Proof.
  intros p j b [sp HR].
  destruct (step_refines p sp (Disable j b) HR eq_refl) as [p' [E HR']].
  exists p'. split; [exact E|]. split; [eexists; exact HR'|].
  intros i. rewrite (pvinfo_R _ _ i HR'), (pvinfo_R _ _ i HR). reflexivity.
Qed.

Lemma wfp_tick_times : forall p j t, wfp p ->
  exists p', tick_times j t p = Ok p' /\ wfp p' /\ forall i, pvinfo p' i = pvinfo p i.
Proof.
  intros p j t [sp HR]. unfold tick_times.
  destruct (step_refines p sp (TickTimes j t) HR eq_refl) as [p' [E HR']].
  exists p'. split; [exact E|]. split; [eexists; exact HR'|].
  intros i. rewrite (pvinfo_R _ _ i HR'), (pvinfo_R _ _ i HR). simpl.
  destruct (aget j (sp_infos sp)) as [si|] eqn:Ej; [|reflexivity].
  unfold svinfo. cbn [sp_infos]. destruct (Z.eq_dec i j) as [Eij|Eij].
  - subst. rewrite aget_aset_same, Ej. reflexivity.
  - rewrite aget_aset_other by exact Eij. reflexivity.
Qed.

Lemma wfp_invalidate : forall p j now, wfp p ->
  exists p', invalidate p j now = Ok p' /\ wfp p' /\ forall i, i <> j -> pvinfo p' i = pvinfo p i.
Proof.
  intros p j now [sp HR].
  destruct (step_refines p sp (Invalidate j now) HR eq_refl) as [p' [E HR']].
  exists p'. split; [exact E|]. split; [eexists; exact HR'|].
  intros i Hij. rewrite (pvinfo_R _ _ i HR'), (pvinfo_R _ _ i HR). simpl.
  destruct (aget j (sp_infos sp)) as [si|]; [|reflexivity].
  destruct (s_listed si); [|reflexivity].
  rewrite svinfo_report. destruct (Z.eqb_spec i j); [contradiction|reflexivity].
Qed.

Lemma wfp_invalidate_proc : forall p j now, wfp p ->
  exists p', invalidate_proc j now p = Ok p' /\ wfp p' /\ forall i, i <> j -> pvinfo p' i = pvinfo p i.
Proof.
  intros p j now H. unfold invalidate_proc.
  assert (H1 : exists p1, (if is_running (p_state p) && zmem j (p_running p) then invalidate p j now else Ok p) = Ok p1
                          /\ wfp p1 /\ forall i, i <> j -> pvinfo p1 i = pvinfo p i).
  { destruct (is_running (p_state p) && zmem j (p_running p)).
    - apply wfp_invalidate. exact H.
    - exists p. split; [reflexivity|]. split; [exact H|]. reflexivity. }
  destruct H1 as [p1 [E1 [W1 V1]]]. rewrite E1. cbn [bind].
  destruct (wfp_invalidate p1 j now W1) as [p' [E2 [W2 V2]]].
  exists p'. split; [exact E2|]. split; [exact W2|]. intros i Hi. rewrite (V2 i Hi). apply V1. exact Hi.
Qed.

Lemma wfp_remove : forall p j, wfp p -> amem j (p_infos p) = true ->
  exists p', remove_identifier p j = Ok p' /\ wfp p' /\ forall i, i <> j -> pvinfo p' i = pvinfo p i.
Proof.
  intros p j [sp HR] Hm.
  assert (Hm' : wf_op sp (Remove j) = true) by (simpl; rewrite (amem_R p sp j HR); exact Hm).
  destruct (step_refines p sp (Remove j) HR Hm') as [p' [E HR']].
  exists p'. split; [exact E|]. split; [eexists; exact HR'|].
  intros i Hij. rewrite (pvinfo_R _ _ i HR'), (pvinfo_R _ _ i HR). simpl. unfold svinfo. cbn [sp_infos].
  rewrite aget_adel by (eapply Rcore_skeys; apply HR).
  destruct (Z.eqb_spec i j); [contradiction|reflexivity].
Qed.

(* ====================================================================== *)
(* C. one receiver step                                                     *)
(* ====================================================================== *)
Definition Fwfp (ps : alist proc) : Prop := Forall (fun kp => wfp (snd kp)) ps.
Definition rwf (c : rctx) : Prop := Fwfp (r_procs c).

Definition pvinfo_in (ps : alist proc) (k i : Z) : option tinfo :=
  match aget k ps with Some p => pvinfo p i | None => None end.

Lemma rvinfo_eq : forall c k i, rvinfo c k i = pvinfo_in (r_procs c) k i.
Proof. reflexivity. Qed.

Lemma Fwfp_aget : forall ps k p, Fwfp ps -> aget k ps = Some p -> wfp p.
Proof.
  intros ps k p H E. unfold Fwfp in H. rewrite Forall_forall in H.
  apply (H (k, p)). apply aget_In. exact E.
Qed.

Lemma Fwfp_aset : forall ps k p, Fwfp ps -> wfp p -> Fwfp (aset k p ps).
Proof. intros ps k p H Hp. apply (Forall_aset wfp); assumption. Qed.

Lemma pvinfo_in_aset : forall ps k0 p' k i,
  pvinfo_in (aset k0 p' ps) k i = if Z.eqb k k0 then pvinfo p' i else pvinfo_in ps k i.
Proof.
  intros ps k0 p' k i. unfold pvinfo_in. destruct (Z.eqb_spec k k0) as [E|E].
  - subst. rewrite aget_aset_same. reflexivity.
  - rewrite aget_aset_other by exact E. reflexivity.
Qed.

Lemma rinit_rwf : forall me peers, rwf (rinit me peers).
Proof. intros. constructor. Qed.

(* ---- load_processes ---- *)
Lemma load_infos_ok : forall infos ps j nm now, Fwfp ps ->
  exists ps', load_infos ps j infos nm now = Ok ps' /\ Fwfp ps'
    /\ forall k i, pvinfo_in ps' k i =
         if Z.eqb i j then overlay_k infos k (pvinfo_in ps k j) else pvinfo_in ps k i.
Proof.
  induction infos as [|[[[k0 st] e] d] r IH]; intros ps j nm now H.
  - exists ps. split; [reflexivity|]. split; [exact H|].
    intros k i. simpl. destruct (Z.eqb_spec i j); subst; reflexivity.
  - simpl.
    set (p := match aget k0 ps with Some p => p | None => proc_init end).
    assert (Hp : wfp p).
    { unfold p. destruct (aget k0 ps) as [p0|] eqn:E; [eapply Fwfp_aget; eassumption|exact wfp_init]. }
    assert (Hpv : forall i, pvinfo p i = pvinfo_in ps k0 i).
    { intros i. unfold p, pvinfo_in. destruct (aget k0 ps); reflexivity. }
    destruct (wfp_add_info p j st e nm d now Hp) as [p' [E [Hp' Hv]]].
    rewrite E. simpl.
    destruct (IH (aset k0 p' ps) j nm now (Fwfp_aset _ _ _ H Hp')) as [ps' [E' [H' Hv']]].
    exists ps'. split; [exact E'|]. split; [exact H'|].
    intros k i. rewrite Hv'. rewrite !pvinfo_in_aset.
    destruct (Z.eqb_spec i j) as [Eij|Eij].
    + subst i. rewrite Hv, Z.eqb_refl.
      destruct (Z.eqb_spec k k0) as [Ek|Ek].
      * subst. rewrite Z.eqb_refl. reflexivity.
      * destruct (Z.eqb_spec k0 k); [congruence|reflexivity].
    + destruct (Z.eqb_spec k k0) as [Ek|Ek]; [|reflexivity].
      subst. rewrite Hv. destruct (Z.eqb_spec i j); [contradiction|]. apply Hpv.
Qed.

(* ---- a ProcStatus operation mapped over every process ---- *)
Lemma map_procs_ok : forall (f : proc -> result proc) (K : Z -> Prop),
  (forall p, wfp p -> exists p', f p = Ok p' /\ wfp p' /\ forall i, K i -> pvinfo p' i = pvinfo p i) ->
  forall ps, Fwfp ps ->
  exists ps', map_procs f ps = Ok ps' /\ Fwfp ps'
    /\ forall k i, K i -> pvinfo_in ps' k i = pvinfo_in ps k i.
Proof.
  intros f K Hf. induction ps as [|[k0 p] r IH]; intros H.
  - exists []. split; [reflexivity|]. split; [constructor|]. reflexivity.
  - inversion H as [|x l Hp Hr]; subst. simpl in Hp.
    destruct (Hf p Hp) as [p' [E [Hp' Hv]]].
    destruct (IH Hr) as [r' [E' [Hr' Hv']]].
    simpl. rewrite E. simpl. rewrite E'. simpl.
    exists ((k0, p') :: r'). split; [reflexivity|]. split; [constructor; assumption|].
    intros k i Hi. unfold pvinfo_in. simpl. destruct (Z.eqb k k0).
    + apply Hv. exact Hi.
    + apply (Hv' k i Hi).
Qed.

(* ---- the instance state setter ---- *)
Lemma adm_set_adms : forall c a j, adm (set_adms c a) j = match aget j a with Some sc => Some (fst sc) | None => None end.
Proof. reflexivity. Qed.

Lemma set_adm_ok : forall c j s ct st now,
  aget j (r_adm c) = Some (s, ct) -> (s = st \/ Node.inst_transition_ok s st = true) ->
  exists c', set_adm c j st now = Ok c' /\ r_procs c' = r_procs c /\ r_me c' = r_me c
    /\ (forall i, adm c' i = if Z.eqb i j then Some st else adm c i)
    /\ (forall i, chk c' i = if Z.eqb i j
                             then (if Node.istate_eqb s st then ct
                                   else match st with Node.CHECKING => now | _ => ct end)
                             else chk c i).
Proof.
  intros c j s ct st now E H. unfold set_adm. rewrite E.
  destruct (Node.istate_eqb s st) eqn:Es.
  - assert (s = st) by (destruct s, st; simpl in Es; try discriminate; reflexivity). subst st.
    exists c. split; [reflexivity|]. repeat split; try reflexivity.
    + intros i. unfold adm. destruct (Z.eqb_spec i j); [subst; rewrite E|]; reflexivity.
    + intros i. unfold chk. destruct (Z.eqb_spec i j); [subst; rewrite E|]; reflexivity.
  - destruct H as [H|H]; [subst; destruct st; discriminate|]. rewrite H.
    eexists. split; [reflexivity|]. repeat split; try reflexivity.
    + intros i. unfold adm. cbn [set_adms r_adm]. destruct (Z.eqb_spec i j) as [Eij|Eij].
      * subst. rewrite aget_aset_same. reflexivity.
      * rewrite aget_aset_other by exact Eij. reflexivity.
    + intros i. unfold chk. cbn [set_adms r_adm]. destruct (Z.eqb_spec i j) as [Eij|Eij].
      * subst. rewrite aget_aset_same. reflexivity.
      * rewrite aget_aset_other by exact Eij. reflexivity.
Qed.

Lemma adm_aget : forall c j s, adm c j = Some s -> exists ct, aget j (r_adm c) = Some (s, ct) /\ chk c j = ct.
Proof.
  intros c j s H. unfold adm in H. unfold chk. destruct (aget j (r_adm c)) as [[s' ct]|]; [|discriminate].
  inversion H; subst. exists ct. auto.
Qed.

(* the transitions used by the handlers, re-checked against the reflected table *)
Lemma trans_table :
  Node.inst_transition_ok ISTOPPED CHECKING = true /\ Node.inst_transition_ok CHECKING CHECKED = true
  /\ Node.inst_transition_ok CHECKING ISOLATED = true /\ Node.inst_transition_ok CHECKING ISTOPPED = true
  /\ Node.inst_transition_ok CHECKING IFAILED = true /\ Node.inst_transition_ok CHECKED IFAILED = true
  /\ Node.inst_transition_ok IRUNNING IFAILED = true /\ Node.inst_transition_ok CHECKED IRUNNING = true
  /\ Node.inst_transition_ok IFAILED ISTOPPED = true /\ Node.inst_transition_ok IFAILED ISOLATED = true.
Proof. vm_compute. repeat split; reflexivity. Qed.

(* ---- ProcEvent ---- *)
Definition applies (c : rctx) (j k : Z) : bool :=
  match valid_state c j with
  | Some s => admitted s && match rvinfo c k j with Some _ => true | None => false end
  | None => false
  end.

Lemma rstep_proc_event : forall c j k st e nm now, rwf c ->
  exists c', rstep c (ProcEvent j k st e nm now) = Ok c' /\ rwf c' /\ r_adm c' = r_adm c /\ r_me c' = r_me c
    /\ (applies c j k = false -> c' = c)
    /\ forall k' i', rvinfo c' k' i' =
         if applies c j k && Z.eqb k' k && Z.eqb i' j then Some (st, e) else rvinfo c k' i'.
Proof.
  intros c j k st e nm now H.
  assert (Hno : applies c j k = false -> rstep c (ProcEvent j k st e nm now) = Ok c).
  { unfold applies, rvinfo. simpl rstep. destruct (valid_state c j) as [s|]; [|reflexivity].
    destruct (admitted s); [|reflexivity]. simpl. destruct (aget k (r_procs c)) as [p|]; [|reflexivity].
    rewrite amem_pvinfo. destruct (pvinfo p j); [discriminate|reflexivity]. }
  destruct (applies c j k) eqn:Ea.
  - unfold applies, rvinfo in Ea. simpl rstep.
    destruct (valid_state c j) as [s|]; [|discriminate].
    destruct (admitted s); [|discriminate]. simpl in Ea.
    destruct (aget k (r_procs c)) as [p|] eqn:Ek; [|discriminate].
    destruct (pvinfo p j) as [t|] eqn:Ev; [|discriminate].
    assert (Hp : wfp p) by (eapply Fwfp_aget; eassumption).
    assert (Hm : amem j (p_infos p) = true) by (rewrite amem_pvinfo, Ev; reflexivity).
    destruct (wfp_update_info p j st e nm now true Hp Hm) as [p' [E [Hp' Hv]]].
    rewrite Hm, E. cbn [bind]. eexists. split; [reflexivity|].
    split; [unfold rwf; cbn [set_procs r_procs]; apply Fwfp_aset; assumption|].
    split; [reflexivity|]. split; [reflexivity|]. split; [discriminate|].
    intros k' i'. rewrite !rvinfo_eq. cbn [set_procs r_procs]. rewrite pvinfo_in_aset.
    destruct (Z.eqb_spec k' k) as [Ekk|Ekk]; [|reflexivity].
    subst k'. rewrite Hv. simpl. unfold pvinfo_in. rewrite Ek. reflexivity.
  - exists c. rewrite (Hno eq_refl). repeat split; auto.
Qed.

(* ---- LoadAll ---- *)
Definition checking_b (c : rctx) (j : Z) : bool :=
  match adm c j with Some Node.CHECKING => true | _ => false end.

Lemma rstep_load_all : forall c j infos nm now, rwf c ->
  exists c', rstep c (LoadAll j infos nm now) = Ok c' /\ rwf c' /\ r_adm c' = r_adm c /\ r_me c' = r_me c
    /\ forall k i, rvinfo c' k i =
         if checking_b c j && Z.eqb i j then overlay_k infos k (rvinfo c k j) else rvinfo c k i.
Proof.
  intros c j infos nm now H. simpl rstep. unfold checking_b, valid_state.
  destruct (adm c j) as [s|]; [|exists c; repeat split; auto].
  destruct s; simpl; try (exists c; repeat split; auto; fail).
  destruct (load_infos_ok infos (r_procs c) j nm now H) as [ps' [E [H' Hv]]].
  rewrite E. simpl. eexists. split; [reflexivity|]. split; [exact H'|]. split; [reflexivity|]. split; [reflexivity|].
  intros k i. rewrite !rvinfo_eq. cbn [set_procs r_procs]. apply Hv.
Qed.

(* ---- Tick ---- *)
Definition tick_starts (c : rctx) (j : Z) : bool :=
  match adm c j with
  | Some Node.ISTOPPED => Z.eqb j (r_me c) || match adm c (r_me c) with Some sl => admitted sl | None => false end
  | _ => false
  end.

Lemma rstep_tick : forall c j rmt now, rwf c ->
  exists c', rstep c (Tick j rmt now) = Ok c' /\ rwf c' /\ r_me c' = r_me c
    /\ (forall k i, rvinfo c' k i = rvinfo c k i)
    /\ (forall i, adm c' i = if tick_starts c j && Z.eqb i j then Some CHECKING else adm c i)
    /\ (forall i, chk c' i = if tick_starts c j && Z.eqb i j then now else chk c i).
Proof.
  intros c j rmt now H. simpl rstep. unfold tick_starts, valid_state.
  destruct (adm c j) as [s|] eqn:Ea; [|exists c; repeat split; auto].
  destruct (Node.istate_eqb s ISOLATED) eqn:Eiso.
  { exists c. repeat split; auto; intros; destruct s; simpl in *; try discriminate; reflexivity. }
  destruct (Z.eqb j (r_me c) || match adm c (r_me c) with Some sl => admitted sl | None => false end) eqn:Ec.
  2:{ exists c. repeat split; auto; intros; destruct s; reflexivity. }
  destruct (map_procs_ok (tick_times j rmt) (fun _ => True)) with (ps := r_procs c) as [ps' [E [H' Hv]]].
  { intros p Hp. destruct (wfp_tick_times p j rmt Hp) as [p' [E1 [E2 E3]]]. exists p'. auto. }
  { exact H. }
  rewrite E. simpl.
  destruct (Node.istate_eqb s ISTOPPED) eqn:Es.
  - assert (s = ISTOPPED) by (destruct s; simpl in Es; try discriminate; reflexivity). subst s.
    destruct (adm_aget c j _ Ea) as [ct [Eg _]].
    destruct (set_adm_ok (set_procs c ps') j ISTOPPED ct CHECKING now Eg) as [c' [E1 [E2 [E3 [E4 E5]]]]].
    { right. apply trans_table. }
    rewrite E1. exists c'. split; [reflexivity|]. split; [unfold rwf; rewrite E2; exact H'|].
    split; [exact E3|]. split.
    + intros k i. rewrite !rvinfo_eq, E2. apply Hv. exact I.
    + split; intros i; [rewrite E4|rewrite E5]; simpl; destruct (Z.eqb i j); reflexivity.
  - eexists. split; [reflexivity|]. split; [exact H'|]. split; [reflexivity|]. split.
    + intros k i. rewrite !rvinfo_eq. apply Hv. exact I.
    + split; intros i; destruct s; simpl in *; try discriminate; reflexivity.
Qed.

(* ---- Auth ---- *)
Definition auth_accepted (c : rctx) (j ts : Z) : bool := checking_b c j && Z.ltb (chk c j) ts.
Definition auth_target (c : rctx) (j : Z) (ok : bool) : istate :=
  if ok then CHECKED else if Z.eqb j (r_me c) then ISTOPPED else ISOLATED.

Lemma rstep_auth : forall c j ok ts now,
  exists c', rstep c (Auth j ok ts now) = Ok c' /\ r_procs c' = r_procs c /\ r_me c' = r_me c
    /\ (forall i, adm c' i = if auth_accepted c j ts && Z.eqb i j then Some (auth_target c j ok) else adm c i)
    /\ (forall i, chk c' i = chk c i).
Proof.
  intros c j ok ts now. simpl rstep. unfold auth_accepted, checking_b, valid_state, auth_target.
  destruct (adm c j) as [s|] eqn:Ea; [|exists c; repeat split; auto].
  destruct s; simpl; try (exists c; repeat split; auto; fail).
  destruct (Z.ltb (chk c j) ts); [|exists c; repeat split; auto].
  destruct (adm_aget c j _ Ea) as [ct [Eg Ec]].
  set (tgt := if ok then CHECKED else if Z.eqb j (r_me c) then ISTOPPED else ISOLATED).
  destruct (set_adm_ok c j CHECKING ct tgt now Eg) as [c' [E1 [E2 [E3 [E4 E5]]]]].
  { right. unfold tgt. destruct ok; [|destruct (Z.eqb j (r_me c))]; apply trans_table. }
  exists c'. split.
  - unfold tgt in E1. destruct ok; [exact E1|]. exact E1.
  - split; [exact E2|]. split; [exact E3|]. split.
    + intros i. rewrite E4. destruct (Z.eqb i j); reflexivity.
    + intros i. rewrite E5. destruct (Z.eqb_spec i j) as [Eij|]; [|reflexivity]. subst i.
      rewrite Ec. unfold tgt. destruct ok; [reflexivity|]. destruct (Z.eqb j (r_me c)); reflexivity.
Qed.

(* ---- Failure ---- *)
Definition is_active (c : rctx) (j : Z) : bool :=
  match adm c j with Some s => Node.has_active_state s | None => false end.

Lemma rstep_failure : forall c j now,
  exists c', rstep c (Failure j now) = Ok c' /\ r_procs c' = r_procs c /\ r_me c' = r_me c
    /\ (forall i, adm c' i = if is_active c j && Z.eqb i j then Some IFAILED else adm c i)
    /\ (forall i, chk c' i = chk c i).
Proof.
  intros c j now. simpl rstep. unfold is_active, valid_state.
  destruct (adm c j) as [s|] eqn:Ea; [|exists c; repeat split; auto].
  destruct (Node.istate_eqb s ISOLATED) eqn:Eiso.
  { exists c. repeat split; auto. intros i. destruct s; simpl in *; try discriminate. reflexivity. }
  destruct (Node.has_active_state s) eqn:Eact; [|exists c; repeat split; auto].
  destruct (adm_aget c j _ Ea) as [ct [Eg Ec]].
  destruct (set_adm_ok c j s ct IFAILED now Eg) as [c' [E1 [E2 [E3 [E4 E5]]]]].
  { destruct s; simpl in Eact; try discriminate; [right|right|right|left]; try apply trans_table; reflexivity. }
  exists c'. split; [exact E1|]. split; [exact E2|]. split; [exact E3|]. split.
  - intros i. rewrite E4. destruct (Z.eqb i j); reflexivity.
  - intros i. rewrite E5. destruct (Z.eqb_spec i j) as [Eij|]; [|reflexivity]. subst i. rewrite Ec.
    destruct (Node.istate_eqb s IFAILED); reflexivity.
Qed.

(* ---- invalidate_failed / activate_checked ---- *)
Definition failed_b (c : rctx) (i : Z) : bool := match adm c i with Some Node.FAILED => true | _ => false end.
Definition checked_b (c : rctx) (i : Z) : bool := match adm c i with Some Node.CHECKED => true | _ => false end.
Definition inv_target (c : rctx) (iso : bool) (j : Z) : istate :=
  if Z.eqb j (r_me c) then ISTOPPED else if iso then ISOLATED else ISTOPPED.

Lemma adm_in_keys : forall c i s, adm c i = Some s -> zmem i (akeys (r_adm c)) = true.
Proof.
  intros c i s H. apply zmem_In. unfold adm in H.
  destruct (aget i (r_adm c)) as [sc|] eqn:E; [|discriminate].
  apply aget_In in E. unfold akeys. apply in_map_iff. exists (i, sc). auto.
Qed.

Lemma invalidate_failed_ids_ok : forall ids c iso now, rwf c ->
  exists c', invalidate_failed_ids c ids iso now = Ok c' /\ rwf c' /\ r_me c' = r_me c
    /\ (forall i, adm c' i = if zmem i ids && failed_b c i then Some (inv_target c iso i) else adm c i)
    /\ (forall i, chk c' i = chk c i)
    /\ (forall k i, failed_b c i = false -> rvinfo c' k i = rvinfo c k i).
Proof.
  induction ids as [|j r IH]; intros c iso now H.
  - exists c. repeat split; auto.
  - simpl invalidate_failed_ids.
    destruct (adm c j) as [s|] eqn:Ea.
    2:{ destruct (IH c iso now H) as [c' [E [H' [Hme [Ha [Hc Hv]]]]]].
        exists c'. split; [exact E|]. split; [exact H'|]. split; [exact Hme|]. split; [|split; assumption].
        intros i. rewrite Ha. simpl zmem. destruct (Z.eqb_spec i j) as [Eij|]; [|reflexivity].
        subst. unfold failed_b. rewrite Ea. rewrite andb_false_r. reflexivity. }
    assert (Hskip : s <> IFAILED ->
      exists c', invalidate_failed_ids c r iso now = Ok c' /\ rwf c' /\ r_me c' = r_me c
        /\ (forall i, adm c' i = if zmem i (j :: r) && failed_b c i then Some (inv_target c iso i) else adm c i)
        /\ (forall i, chk c' i = chk c i)
        /\ (forall k i, failed_b c i = false -> rvinfo c' k i = rvinfo c k i)).
    { intros Hs. destruct (IH c iso now H) as [c' [E [H' [Hme [Ha [Hc Hv]]]]]].
      exists c'. split; [exact E|]. split; [exact H'|]. split; [exact Hme|]. split; [|split; assumption].
      intros i. rewrite Ha. simpl zmem. destruct (Z.eqb_spec i j) as [Eij|]; [|reflexivity].
      subst. unfold failed_b. rewrite Ea. destruct s; try rewrite andb_false_r; try reflexivity. contradiction. }
    destruct s; try (apply Hskip; discriminate). clear Hskip.
    set (tgt := if Z.eqb j (r_me c) then ISTOPPED else if iso then ISOLATED else ISTOPPED).
    destruct (adm_aget c j _ Ea) as [ct [Eg Ec]].
    destruct (set_adm_ok c j IFAILED ct tgt now Eg) as [c1 [E1 [E2 [E3 [E4 E5]]]]].
    { right. unfold tgt. destruct (Z.eqb j (r_me c)); [|destruct iso]; apply trans_table. }
    rewrite E1. cbn [bind].
    destruct (map_procs_ok (invalidate_proc j now) (fun i => i <> j)) with (ps := r_procs c1) as [ps [Em [Hps Hvps]]].
    { intros p Hp. apply wfp_invalidate_proc. exact Hp. }
    { rewrite E2. exact H. }
    rewrite Em. cbn [bind].
    destruct (IH (set_procs c1 ps) iso now Hps) as [c' [E [H' [Hme [Ha [Hc Hv]]]]]].
    exists c'. split; [exact E|]. split; [exact H'|]. split; [rewrite Hme; exact E3|].
    assert (Hadm2 : forall i, adm (set_procs c1 ps) i = if Z.eqb i j then Some tgt else adm c i) by (intros i; apply E4).
    assert (Htgt : tgt <> IFAILED) by (unfold tgt; destruct (Z.eqb j (r_me c)); [|destruct iso]; discriminate).
    split; [|split].
    + intros i. rewrite Ha. unfold failed_b. rewrite Hadm2. unfold inv_target. cbn [set_procs r_me]. rewrite E3.
      simpl zmem. destruct (Z.eqb_spec i j) as [Eij|Eij].
      * subst i. rewrite Ea. simpl.
        assert (Hnf : match tgt with Node.FAILED => true | _ => false end = false)
          by (unfold tgt; destruct (Z.eqb j (r_me c)); [|destruct iso]; reflexivity).
        rewrite Hnf, andb_false_r. reflexivity.
      * reflexivity.
    + intros i. rewrite Hc. unfold chk. cbn [set_procs r_adm]. fold (chk c1 i). rewrite E5.
      destruct (Z.eqb_spec i j) as [Eij|]; [|reflexivity]. subst i. rewrite Eg. simpl snd.
      unfold tgt. destruct (Z.eqb j (r_me c)); [|destruct iso]; reflexivity.
    + intros k i Hf.
      assert (Hij : i <> j). { intros ->. unfold failed_b in Hf. rewrite Ea in Hf. discriminate. }
      rewrite Hv.
      * rewrite !rvinfo_eq. cbn [set_procs r_procs]. rewrite (Hvps k i Hij), E2. reflexivity.
      * unfold failed_b. rewrite Hadm2. destruct (Z.eqb_spec i j); [contradiction|]. exact Hf.
Qed.

Lemma rstep_invalidate_failed : forall c iso now, rwf c ->
  exists c', rstep c (InvalidateFailed iso now) = Ok c' /\ rwf c' /\ r_me c' = r_me c
    /\ (forall i, adm c' i = if failed_b c i then Some (inv_target c iso i) else adm c i)
    /\ (forall i, chk c' i = chk c i)
    /\ (forall k i, failed_b c i = false -> rvinfo c' k i = rvinfo c k i).
Proof.
  intros c iso now H. simpl rstep.
  destruct (invalidate_failed_ids_ok (akeys (r_adm c)) c iso now H) as [c' [E [H' [Hme [Ha [Hc Hv]]]]]].
  exists c'. split; [exact E|]. split; [exact H'|]. split; [exact Hme|]. split; [|split; assumption].
  intros i. rewrite Ha. unfold failed_b. destruct (adm c i) as [s|] eqn:Ea.
  - rewrite (adm_in_keys c i s Ea). reflexivity.
  - rewrite andb_false_r. reflexivity.
Qed.

Lemma activate_ids_ok : forall ids c now,
  exists c', activate_ids c ids now = Ok c' /\ r_procs c' = r_procs c /\ r_me c' = r_me c
    /\ (forall i, adm c' i = if zmem i ids && checked_b c i then Some IRUNNING else adm c i)
    /\ (forall i, chk c' i = chk c i).
Proof.
  induction ids as [|j r IH]; intros c now.
  - exists c. repeat split; auto.
  - simpl activate_ids.
    assert (Hskip : checked_b c j = false ->
      exists c', activate_ids c r now = Ok c' /\ r_procs c' = r_procs c /\ r_me c' = r_me c
        /\ (forall i, adm c' i = if zmem i (j :: r) && checked_b c i then Some IRUNNING else adm c i)
        /\ (forall i, chk c' i = chk c i)).
    { intros Hs. destruct (IH c now) as [c' [E [H' [Hme [Ha Hc]]]]].
      exists c'. split; [exact E|]. split; [exact H'|]. split; [exact Hme|]. split; [|exact Hc].
      intros i. rewrite Ha. simpl zmem. destruct (Z.eqb_spec i j) as [Eij|]; [|reflexivity].
      subst. rewrite Hs, !andb_false_r. reflexivity. }
    destruct (adm c j) as [s|] eqn:Ea; [|apply Hskip; unfold checked_b; rewrite Ea; reflexivity].
    destruct s; try (apply Hskip; unfold checked_b; rewrite Ea; reflexivity). clear Hskip.
    destruct (adm_aget c j _ Ea) as [ct [Eg Ec]].
    destruct (set_adm_ok c j CHECKED ct IRUNNING now Eg) as [c1 [E1 [E2 [E3 [E4 E5]]]]].
    { right. apply trans_table. }
    rewrite E1. cbn [bind].
    destruct (IH c1 now) as [c' [E [H' [Hme [Ha Hc]]]]].
    exists c'. split; [exact E|]. split; [rewrite H'; exact E2|]. split; [rewrite Hme; exact E3|]. split.
    + intros i. rewrite Ha. unfold checked_b. rewrite !E4. simpl zmem.
      destruct (Z.eqb_spec i j) as [Eij|Eij].
      * subst i. rewrite Ea. simpl. rewrite andb_false_r. reflexivity.
      * reflexivity.
    + intros i. rewrite Hc, E5. destruct (Z.eqb_spec i j) as [Eij|]; [|reflexivity]. subst i. rewrite Ec. reflexivity.
Qed.

Lemma rstep_activate : forall c now,
  exists c', rstep c (Activate now) = Ok c' /\ r_procs c' = r_procs c /\ r_me c' = r_me c
    /\ (forall i, adm c' i = if checked_b c i then Some IRUNNING else adm c i)
    /\ (forall i, chk c' i = chk c i).
Proof.
  intros c now. simpl rstep.
  destruct (activate_ids_ok (akeys (r_adm c)) c now) as [c' [E [H' [Hme [Ha Hc]]]]].
  exists c'. split; [exact E|]. split; [exact H'|]. split; [exact Hme|]. split; [|exact Hc].
  intros i. rewrite Ha. unfold checked_b. destruct (adm c i) as [s|] eqn:Ea.
  - rewrite (adm_in_keys c i s Ea). reflexivity.
  - rewrite andb_false_r. reflexivity.
Qed.

(* ====================================================================== *)
(* E. cluster                                                               *)
(* ====================================================================== *)

(* ---- queues ---- *)
Lemma last_ev_app_ev : forall k q k' st e nm,
  last_ev k (q ++ [MEvent k' st e nm]) = if Z.eqb k' k then Some (st, e) else last_ev k q.
Proof.
  intros k q k' st e nm. induction q as [|m r IH]; simpl.
  - destruct (Z.eqb k' k); reflexivity.
  - rewrite IH. destruct (Z.eqb k' k); reflexivity.
Qed.

Lemma last_ev_cons_other : forall k m r,
  (forall st e nm, m <> MEvent k st e nm) -> last_ev k (m :: r) = last_ev k r.
Proof.
  intros k m r H. simpl. destruct (last_ev k r); [reflexivity|].
  destruct m as [k' st e nm| |]; try reflexivity.
  destruct (Z.eqb_spec k' k); [|reflexivity]. subst. exfalso. eapply H. reflexivity.
Qed.

Lemma final_cons_ev : forall k k' st e nm r b,
  final k (MEvent k' st e nm :: r) b = final k r (if Z.eqb k' k then Some (st, e) else b).
Proof.
  intros. unfold final. simpl. destruct (last_ev k r); [reflexivity|].
  destruct (Z.eqb k' k); reflexivity.
Qed.

(* ---- snapshots ---- *)
Lemma overlay_snapshot : forall T k v, NoDup (akeys T) ->
  overlay_k (snapshot_of T) k v = match aget k T with Some t => Some t | None => v end.
Proof.
  induction T as [|[k0 [st e]] r IH]; intros k v Hn; simpl.
  - reflexivity.
  - inversion Hn as [|x l Hk Hr]; subst. rewrite (IH k _ Hr).
    destruct (Z.eqb_spec k0 k) as [E|E].
    + subst k0. rewrite Z.eqb_refl.
      assert (aget k r = None) as -> by (apply aget_none_iff; exact Hk). reflexivity.
    + destruct (Z.eqb_spec k k0); [congruence|]. reflexivity.
Qed.

(* ---- the notification queue scanned up to the first acceptable AUTHORIZATION ---- *)
Inductive scan_res := Stopped (r : option (option tinfo)) | Cur (v : option tinfo).

Fixpoint base_scan (i ct : Z) (ntf : list (Z * msg)) (k : Z) (v : option tinfo) : scan_res :=
  match ntf with
  | [] => Cur v
  | (i', m) :: r =>
      if Z.eqb i' i then
        match m with
        | MSnapshot tbl _ => base_scan i ct r k (overlay_k tbl k v)
        | MAuth ok ts => if Z.ltb ct ts then Stopped (if ok then Some v else None) else base_scan i ct r k v
        | MEvent _ _ _ _ => base_scan i ct r k v
        end
      else base_scan i ct r k v
  end.

Lemma base_app : forall i ct ntf q k v,
  base_at_auth i ct (ntf ++ q) k v =
  match base_scan i ct ntf k v with Stopped r => r | Cur v' => base_at_auth i ct q k v' end.
Proof.
  intros i ct ntf q k. induction ntf as [|[i' m] r IH]; intros v; simpl.
  - reflexivity.
  - destruct (Z.eqb i' i); [|apply IH].
    destruct m as [k' st e nm|tbl nm|ok ts]; try apply IH.
    destruct (Z.ltb ct ts); [reflexivity|apply IH].
Qed.

Lemma base_of_scan : forall i ct ntf k v,
  base_at_auth i ct ntf k v = match base_scan i ct ntf k v with Stopped r => r | Cur _ => None end.
Proof.
  intros i ct ntf k v. rewrite <- (app_nil_r ntf) at 1. rewrite base_app.
  destruct (base_scan i ct ntf k v); reflexivity.
Qed.

Lemma base_none_if_old : forall i ct ntf k v,
  (forall i' ok ts, In (i', MAuth ok ts) ntf -> ts <= ct) -> base_at_auth i ct ntf k v = None.
Proof.
  intros i ct ntf k. induction ntf as [|[i' m] r IH]; intros v H; simpl.
  - reflexivity.
  - assert (Hr : forall i' ok ts, In (i', MAuth ok ts) r -> ts <= ct) by (intros; eapply H; right; eassumption).
    destruct (Z.eqb i' i); [|apply IH; exact Hr].
    destruct m as [k' st e nm|tbl nm|ok ts]; try (apply IH; exact Hr).
    assert (ts <= ct) by (eapply H; left; reflexivity).
    destruct (Z.ltb_spec ct ts); [lia|apply IH; exact Hr].
Qed.

Lemma base_app_other : forall i ct ntf q k v,
  (forall i' m, In (i', m) q -> i' <> i) -> base_at_auth i ct (ntf ++ q) k v = base_at_auth i ct ntf k v.
Proof.
  intros i ct ntf q k v H. rewrite base_app, base_of_scan.
  destruct (base_scan i ct ntf k v) as [r|v']; [reflexivity|].
  clear ntf. revert v'. induction q as [|[i' m] r IH]; intros v'; simpl; [reflexivity|].
  assert (i' <> i) by (eapply H; left; reflexivity).
  destruct (Z.eqb_spec i' i); [contradiction|]. apply IH. intros; eapply H; right; eassumption.
Qed.

(* ---- well-formed clusters ---- *)
Definition isnode (c : cluster) (j : Z) : Prop := exists n, aget j (c_nodes c) = Some n.

Record node_wf (c : cluster) (i : Z) (n : cnode) : Prop := mkNW {
  nw_ctx : rwf (cn_ctx n);
  nw_truth : NoDup (akeys (cn_truth n));
  nw_self : aget i (cn_out n) = None;
  nw_out : forall j, j <> i -> isnode c j -> exists q, aget j (cn_out n) = Some q;
  nw_auth : forall i' ok ts, In (i', MAuth ok ts) (cn_ntf n) -> ts < c_now c;
  nw_chk : forall i', chk (cn_ctx n) i' < c_now c
}.

Definition cwf (c : cluster) : Prop := forall i n, aget i (c_nodes c) = Some n -> node_wf c i n.

Lemma nodes_set : forall c x nx j,
  aget j (c_nodes (set_node c x nx)) = if Z.eqb j x then Some nx else aget j (c_nodes c).
Proof.
  intros c x nx j. unfold set_node. cbn [c_nodes]. destruct (Z.eqb_spec j x) as [E|E].
  - subst. apply aget_aset_same.
  - apply aget_aset_other. exact E.
Qed.

Lemma nodes_tick : forall c, c_nodes (tick_clock c) = c_nodes c.
Proof. reflexivity. Qed.

Lemma isnode_set : forall c x nx j, isnode c x -> (isnode (set_node c x nx) j <-> isnode c j).
Proof.
  intros c x nx j [n0 Hx]. unfold isnode. rewrite nodes_set. destruct (Z.eqb_spec j x) as [E|E].
  - subst. split; intros _; eauto.
  - tauto.
Qed.

Lemma cwf_tick : forall c, cwf c -> cwf (tick_clock c).
Proof.
  intros c H i n E. destruct (H i n E) as [A B C D F G].
  constructor; auto.
  - intros i' ok ts Hi. cbn [tick_clock c_now]. pose proof (F i' ok ts Hi). lia.
  - intros i'. cbn [tick_clock c_now]. pose proof (G i'). lia.
Qed.

Lemma cwf_set : forall c x nx nx', cwf c -> aget x (c_nodes c) = Some nx ->
  rwf (cn_ctx nx') -> NoDup (akeys (cn_truth nx')) -> aget x (cn_out nx') = None ->
  (forall j q, aget j (cn_out nx) = Some q -> exists q', aget j (cn_out nx') = Some q') ->
  (forall i' ok ts, In (i', MAuth ok ts) (cn_ntf nx') -> ts < c_now c) ->
  (forall i', chk (cn_ctx nx') i' < c_now c) ->
  cwf (set_node c x nx').
Proof.
  intros c x nx nx' H Hx A B C D F G i n E. rewrite nodes_set in E.
  assert (Hisn : forall j, isnode (set_node c x nx') j -> isnode c j).
  { intros j. apply isnode_set. exists nx. exact Hx. }
  destruct (Z.eqb_spec i x) as [Eix|Eix].
  - inversion E; subst n i. constructor; auto.
    intros j Hj Hn. destruct (nw_out _ _ _ (H x nx Hx) j Hj (Hisn j Hn)) as [q Hq]. eapply D. exact Hq.
  - destruct (H i n E) as [A' B' C' D' F' G']. constructor; auto.
Qed.

(* ---- the pair invariant ---- *)
(* CI: the last queued event of i about k is what i's Supervisor reports (as long as i queues for j).
   PI: inside a window, what j will end up holding about (k, i) is what i's Supervisor reports. *)
Definition pinv (nj ni : cnode) (j i : Z) : Prop :=
  (adm (cn_ctx ni) j <> Some ISOLATED ->
     forall k t, last_ev k (out_queue ni j) = Some t -> aget k (cn_truth ni) = Some t)
  /\ (forall k b t, window_base nj i k = Some b -> aget k (cn_truth ni) = Some t ->
        final k (out_queue ni j) b = Some t).

Definition cpinv (c : cluster) : Prop :=
  forall j i nj ni, aget j (c_nodes c) = Some nj -> aget i (c_nodes c) = Some ni -> pinv nj ni j i.

Lemma pinv_frame : forall nj ni nj' ni' j i,
  pinv nj ni j i ->
  cn_truth ni' = cn_truth ni -> out_queue ni' j = out_queue ni j ->
  (adm (cn_ctx ni) j = Some ISOLATED -> adm (cn_ctx ni') j = Some ISOLATED) ->
  (forall k b, window_base nj' i k = Some b -> window_base nj i k = Some b) ->
  pinv nj' ni' j i.
Proof.
  intros nj ni nj' ni' j i [CI PI] Ht Hq Ha Hw. split.
  - intros Hn k t Hl. rewrite Ht. rewrite Hq in Hl. apply CI; [|exact Hl].
    intros Hiso. apply Hn. apply Ha. exact Hiso.
  - intros k b t Hb Hk. rewrite Hq. rewrite Ht in Hk. apply (PI k b t (Hw k b Hb) Hk).
Qed.

Lemma window_base_frame : forall nj nj' i k,
  adm (cn_ctx nj') i = adm (cn_ctx nj) i -> chk (cn_ctx nj') i = chk (cn_ctx nj) i ->
  cn_ntf nj' = cn_ntf nj -> rvinfo (cn_ctx nj') k i = rvinfo (cn_ctx nj) k i ->
  window_base nj' i k = window_base nj i k.
Proof. intros nj nj' i k Ha Hc Hn Hv. unfold window_base. rewrite Ha, Hc, Hn, Hv. reflexivity. Qed.

Lemma out_queue_set_other : forall n j j' q, j' <> j -> out_queue (set_out n (aset j q (cn_out n))) j' = out_queue n j'.
Proof. intros n j j' q H. unfold out_queue. cbn [set_out cn_out]. rewrite aget_aset_other by exact H. reflexivity. Qed.

Lemma out_queue_set_same : forall n j q, out_queue (set_out n (aset j q (cn_out n))) j = q.
Proof. intros n j q. unfold out_queue. cbn [set_out cn_out]. rewrite aget_aset_same. reflexivity. Qed.

Lemma cpinv_tick : forall c, cpinv c -> cpinv (tick_clock c).
Proof. intros c H. exact H. Qed.

(* node x is replaced by a node with the same Supervisor table and the same outgoing queues *)
Lemma node_update_pinv : forall c x nx nx',
  cpinv c -> aget x (c_nodes c) = Some nx ->
  cn_truth nx' = cn_truth nx -> cn_out nx' = cn_out nx ->
  (forall j, adm (cn_ctx nx) j = Some ISOLATED -> adm (cn_ctx nx') j = Some ISOLATED) ->
  (forall i ni k b, aget i (c_nodes c) = Some ni -> window_base nx' i k = Some b ->
       window_base nx i k = Some b
       \/ (forall t, aget k (cn_truth ni) = Some t -> final k (out_queue ni x) b = Some t)) ->
  cpinv (set_node c x nx').
Proof.
  intros c x nx nx' H Hx Ht Ho Ha Hw j i nj' ni' Hj Hi.
  rewrite nodes_set in Hj, Hi.
  assert (Hq : forall y, out_queue nx' y = out_queue nx y) by (intros y; unfold out_queue; rewrite Ho; reflexivity).
  destruct (Z.eqb_spec j x) as [Ejx|Ejx]; destruct (Z.eqb_spec i x) as [Eix|Eix].
  - (* both sides are the updated node *)
    inversion Hj; inversion Hi; subst nj' ni' j i.
    destruct (H x x nx nx Hx Hx) as [CI PI]. split.
    + intros Hn k t Hl. rewrite Ht. rewrite Hq in Hl. apply CI; [|exact Hl].
      intros Hiso. apply Hn. apply Ha. exact Hiso.
    + intros k b t Hb Hk. rewrite Hq. rewrite Ht in Hk.
      destruct (Hw x nx k b Hx Hb) as [Hold|Hnew]; [apply (PI k b t Hold Hk)|apply Hnew; exact Hk].
  - inversion Hj; subst nj' j.
    destruct (H x i nx ni' Hx Hi) as [CI PI]. split; [exact CI|].
    intros k b t Hb Hk.
    destruct (Hw i ni' k b Hi Hb) as [Hold|Hnew]; [apply (PI k b t Hold Hk)|apply Hnew; exact Hk].
  - inversion Hi; subst ni' i.
    apply (pinv_frame nj' nx nj' nx' j x (H j x nj' nx Hj Hx) Ht (Hq j) (Ha j)). auto.
  - apply (H j i nj' ni' Hj Hi).
Qed.

Lemma node_update_wf : forall c x nx ctx' ntf',
  cwf c -> aget x (c_nodes c) = Some nx -> rwf ctx' ->
  (forall i' ok ts, In (i', MAuth ok ts) ntf' -> ts < c_now c + 1) ->
  (forall i', chk ctx' i' < c_now c + 1) ->
  cwf (tick_clock (set_node c x (set_ntf (set_ctx nx ctx') ntf'))).
Proof.
  intros c x nx ctx' ntf' H Hx Hr Hn Hc.
  change (tick_clock (set_node c x (set_ntf (set_ctx nx ctx') ntf')))
    with (set_node (tick_clock c) x (set_ntf (set_ctx nx ctx') ntf')).
  destruct (H x nx Hx) as [A B C D F G].
  apply (cwf_set (tick_clock c) x nx); auto.
  - apply cwf_tick. exact H.
  - intros j q Hq. exists q. exact Hq.
Qed.

Lemma set_ntf_same : forall n, set_ntf n (cn_ntf n) = n.
Proof. intros [a b c d]. reflexivity. Qed.

(* ---------- TickFrom ---------- *)
Lemma step_tick_from : forall c i0 j0, cwf c ->
  exists c', cstep c (TickFrom i0 j0) = Ok c' /\ cwf c' /\ (cpinv c -> cpinv c').
Proof.
  intros c i0 j0 H. unfold cstep; cbv zeta.
  destruct (aget j0 (c_nodes c)) as [nj|] eqn:Ej.
  2:{ eexists. split; [reflexivity|]. split; [apply cwf_tick; exact H|auto]. }
  destruct (H j0 nj Ej) as [A B C D F G].
  destruct (rstep_tick (cn_ctx nj) i0 (c_now c) (c_now c) A) as [ctx' [E [Hr [Hme [Hv [Ha Hc]]]]]].
  rewrite E. cbn [bind]. eexists. split; [reflexivity|]. split.
  - rewrite <- (set_ntf_same (set_ctx nj ctx')). apply node_update_wf; auto.
    + intros i' ok ts Hi. pose proof (F i' ok ts Hi). lia.
    + intros i'. rewrite Hc. destruct (tick_starts (cn_ctx nj) i0 && Z.eqb i' i0); [lia|]. pose proof (G i'). lia.
  - intros HP. apply cpinv_tick. apply (node_update_pinv c j0 nj); auto.
    + intros j Hiso. cbn [set_ctx cn_ctx]. rewrite Ha, Hiso.
      destruct (tick_starts (cn_ctx nj) i0 && Z.eqb j i0) eqn:Es; [|reflexivity].
      apply andb_true_iff in Es. destruct Es as [Es Ee]. apply Z.eqb_eq in Ee. subst j.
      unfold tick_starts in Es. rewrite Hiso in Es. discriminate.
    + intros i ni k b Hi Hb. left.
      destruct (tick_starts (cn_ctx nj) i0 && Z.eqb i i0) eqn:Es.
      * exfalso. unfold window_base in Hb. cbn [set_ctx cn_ctx cn_ntf] in Hb. rewrite Ha, Hc, Es in Hb.
        rewrite base_none_if_old in Hb; [discriminate|].
        intros i' ok ts Hin. pose proof (F i' ok ts Hin). lia.
      * rewrite <- Hb. symmetry. apply window_base_frame; cbn [set_ctx cn_ctx cn_ntf]; auto.
        -- rewrite Ha, Es. reflexivity.
        -- rewrite Hc, Es. reflexivity.
Qed.

(* ---------- ActivateAt ---------- *)
Lemma step_activate : forall c j0, cwf c ->
  exists c', cstep c (ActivateAt j0) = Ok c' /\ cwf c' /\ (cpinv c -> cpinv c').
Proof.
  intros c j0 H. unfold cstep; cbv zeta.
  destruct (aget j0 (c_nodes c)) as [nj|] eqn:Ej.
  2:{ eexists. split; [reflexivity|]. split; [apply cwf_tick; exact H|auto]. }
  destruct (H j0 nj Ej) as [A B C D F G].
  destruct (rstep_activate (cn_ctx nj) (c_now c)) as [ctx' [E [Hp [Hme [Ha Hc]]]]].
  rewrite E. cbn [bind]. eexists. split; [reflexivity|].
  assert (Hv : forall k i, rvinfo ctx' k i = rvinfo (cn_ctx nj) k i) by (intros; unfold rvinfo; rewrite Hp; reflexivity).
  split.
  - rewrite <- (set_ntf_same (set_ctx nj ctx')). apply node_update_wf; auto.
    + unfold rwf. rewrite Hp. exact A.
    + intros i' ok ts Hi. pose proof (F i' ok ts Hi). lia.
    + intros i'. rewrite Hc. pose proof (G i'). lia.
  - intros HP. apply cpinv_tick. apply (node_update_pinv c j0 nj); auto.
    + intros j Hiso. cbn [set_ctx cn_ctx]. rewrite Ha. unfold checked_b. rewrite Hiso. reflexivity.
    + intros i ni k b Hi Hb. left. rewrite <- Hb. unfold window_base. cbn [set_ctx cn_ctx cn_ntf].
      rewrite Ha, Hc, Hv. unfold checked_b. destruct (adm (cn_ctx nj) i) as [[]|]; reflexivity.
Qed.

(* ---------- Fail ---------- *)
Lemma step_fail : forall c j0 i0, cwf c ->
  exists c', cstep c (Fail j0 i0) = Ok c' /\ cwf c' /\ (cpinv c -> cpinv c').
Proof.
  intros c j0 i0 H. unfold cstep; cbv zeta.
  destruct (aget j0 (c_nodes c)) as [nj|] eqn:Ej.
  2:{ eexists. split; [reflexivity|]. split; [apply cwf_tick; exact H|auto]. }
  destruct (H j0 nj Ej) as [A B C D F G].
  destruct (rstep_failure (cn_ctx nj) i0 (c_now c)) as [ctx' [E [Hp [Hme [Ha Hc]]]]].
  rewrite E. cbn [bind]. eexists. split; [reflexivity|].
  assert (Hv : forall k i, rvinfo ctx' k i = rvinfo (cn_ctx nj) k i) by (intros; unfold rvinfo; rewrite Hp; reflexivity).
  split.
  - rewrite <- (set_ntf_same (set_ctx nj ctx')). apply node_update_wf; auto.
    + unfold rwf. rewrite Hp. exact A.
    + intros i' ok ts Hi. pose proof (F i' ok ts Hi). lia.
    + intros i'. rewrite Hc. pose proof (G i'). lia.
  - intros HP. apply cpinv_tick. apply (node_update_pinv c j0 nj); auto.
    + intros j Hiso. cbn [set_ctx cn_ctx]. rewrite Ha, Hiso.
      destruct (is_active (cn_ctx nj) i0 && Z.eqb j i0) eqn:Es; [|reflexivity].
      apply andb_true_iff in Es. destruct Es as [Es Ee]. apply Z.eqb_eq in Ee. subst j.
      unfold is_active in Es. rewrite Hiso in Es. discriminate.
    + intros i ni k b Hi Hb. left. rewrite <- Hb. unfold window_base. cbn [set_ctx cn_ctx cn_ntf].
      rewrite Ha, Hc, Hv.
      destruct (is_active (cn_ctx nj) i0 && Z.eqb i i0) eqn:Es; [|reflexivity].
      exfalso. unfold window_base in Hb. cbn [set_ctx cn_ctx] in Hb. rewrite Ha, Es in Hb. discriminate.
Qed.

(* ---------- InvalidateAt ---------- *)
Lemma step_invalidate : forall c j0 iso, cwf c ->
  exists c', cstep c (InvalidateAt j0 iso) = Ok c' /\ cwf c' /\ (cpinv c -> cpinv c').
Proof.
  intros c j0 iso H. unfold cstep; cbv zeta.
  destruct (aget j0 (c_nodes c)) as [nj|] eqn:Ej.
  2:{ eexists. split; [reflexivity|]. split; [apply cwf_tick; exact H|auto]. }
  destruct (H j0 nj Ej) as [A B C D F G].
  destruct (rstep_invalidate_failed (cn_ctx nj) iso (c_now c) A) as [ctx' [E [Hr [Hme [Ha [Hc Hv]]]]]].
  rewrite E. cbn [bind]. eexists. split; [reflexivity|]. split.
  - rewrite <- (set_ntf_same (set_ctx nj ctx')). apply node_update_wf; auto.
    + intros i' ok ts Hi. pose proof (F i' ok ts Hi). lia.
    + intros i'. rewrite Hc. pose proof (G i'). lia.
  - intros HP. apply cpinv_tick. apply (node_update_pinv c j0 nj); auto.
    + intros j Hiso. cbn [set_ctx cn_ctx]. rewrite Ha. unfold failed_b. rewrite Hiso. reflexivity.
    + intros i ni k b Hi Hb. left.
      destruct (failed_b (cn_ctx nj) i) eqn:Ef.
      * exfalso. unfold window_base in Hb. cbn [set_ctx cn_ctx] in Hb. rewrite Ha, Ef in Hb.
        unfold inv_target in Hb. destruct (Z.eqb i (r_me (cn_ctx nj))); [discriminate|]. destruct iso; discriminate.
      * rewrite <- Hb. symmetry. apply window_base_frame; cbn [set_ctx cn_ctx cn_ntf]; auto.
        rewrite Ha, Ef. reflexivity.
Qed.

(* ---------- Notify ---------- *)
Lemma step_notify : forall c j0, cwf c ->
  exists c', cstep c (Notify j0) = Ok c' /\ cwf c' /\ (cpinv c -> cpinv c').
Proof.
  intros c j0 H. unfold cstep; cbv zeta.
  destruct (aget j0 (c_nodes c)) as [nj|] eqn:Ej.
  2:{ eexists. split; [reflexivity|]. split; [apply cwf_tick; exact H|auto]. }
  destruct (H j0 nj Ej) as [A B C D F G].
  destruct (cn_ntf nj) as [|[i0 m] rest] eqn:En.
  { eexists. split; [reflexivity|]. split; [apply cwf_tick; exact H|auto]. }
  assert (Frest : forall i' ok ts, In (i', MAuth ok ts) rest -> ts < c_now c + 1).
  { intros i' ok ts Hi. pose proof (F i' ok ts (or_intror Hi)). lia. }
  destruct m as [k0 st0 e0 nm0|tbl nm|ok ts].
  - (* a publication never sits in this queue; total anyway *)
    eexists. split; [reflexivity|]. split.
    + replace (set_ntf nj rest) with (set_ntf (set_ctx nj (cn_ctx nj)) rest) by (destruct nj; reflexivity).
      apply node_update_wf; auto. intros i'. pose proof (G i'). lia.
    + intros HP. apply cpinv_tick. apply (node_update_pinv c j0 nj); auto.
      intros i ni k b Hi Hb. left. rewrite <- Hb. unfold window_base. cbn [set_ntf cn_ctx cn_ntf]. rewrite En.
      destruct (adm (cn_ctx nj) i) as [[]|]; try reflexivity.
      simpl base_at_auth. destruct (Z.eqb i0 i); reflexivity.
  - (* ALL_INFO *)
    destruct (rstep_load_all (cn_ctx nj) i0 tbl nm (c_now c) A) as [ctx' [E [Hr [Hadm [Hme Hv]]]]].
    rewrite E. cbn [bind]. eexists. split; [reflexivity|].
    assert (Ha : forall i, adm ctx' i = adm (cn_ctx nj) i) by (intros; unfold adm; rewrite Hadm; reflexivity).
    assert (Hc : forall i, chk ctx' i = chk (cn_ctx nj) i) by (intros; unfold chk; rewrite Hadm; reflexivity).
    split.
    + apply node_update_wf; auto. intros i'. rewrite Hc. pose proof (G i'). lia.
    + intros HP. apply cpinv_tick. apply (node_update_pinv c j0 nj); auto.
      * intros j Hiso. cbn [set_ntf set_ctx cn_ctx]. rewrite Ha. exact Hiso.
      * intros i ni k b Hi Hb. left. rewrite <- Hb. unfold window_base. cbn [set_ntf set_ctx cn_ctx cn_ntf].
        rewrite Ha, Hc, Hv, En. unfold checking_b.
        destruct (Z.eqb_spec i i0) as [Ei|Ei].
        -- subst i. destruct (adm (cn_ctx nj) i0) as [[]|] eqn:Ea; simpl; try reflexivity.
           rewrite Z.eqb_refl. reflexivity.
        -- rewrite andb_false_r. destruct (adm (cn_ctx nj) i) as [[]|]; try reflexivity.
           simpl base_at_auth. destruct (Z.eqb_spec i0 i); [congruence|reflexivity].
  - (* AUTHORIZATION *)
    destruct (rstep_auth (cn_ctx nj) i0 ok ts (c_now c)) as [ctx' [E [Hp [Hme [Ha Hc]]]]].
    rewrite E. cbn [bind]. eexists. split; [reflexivity|].
    assert (Hv : forall k i, rvinfo ctx' k i = rvinfo (cn_ctx nj) k i) by (intros; unfold rvinfo; rewrite Hp; reflexivity).
    split.
    + apply node_update_wf; auto.
      * unfold rwf. rewrite Hp. exact A.
      * intros i'. rewrite Hc. pose proof (G i'). lia.
    + intros HP. apply cpinv_tick. apply (node_update_pinv c j0 nj); auto.
      * intros j Hiso. cbn [set_ntf set_ctx cn_ctx]. rewrite Ha, Hiso.
        destruct (auth_accepted (cn_ctx nj) i0 ts && Z.eqb j i0) eqn:Es; [|reflexivity].
        apply andb_true_iff in Es. destruct Es as [Es Ee]. apply Z.eqb_eq in Ee. subst j.
        unfold auth_accepted, checking_b in Es. rewrite Hiso in Es. discriminate.
      * intros i ni k b Hi Hb. left. rewrite <- Hb. unfold window_base. cbn [set_ntf set_ctx cn_ctx cn_ntf].
        rewrite Ha, Hc, Hv, En. unfold auth_accepted, checking_b, auth_target.
        destruct (Z.eqb_spec i i0) as [Ei|Ei].
        -- subst i. rewrite andb_true_r.
           destruct (adm (cn_ctx nj) i0) as [[]|] eqn:Ea; simpl; try reflexivity.
           rewrite Z.eqb_refl. destruct (Z.ltb (chk (cn_ctx nj) i0) ts); [|reflexivity].
           destruct ok; [reflexivity|]. destruct (Z.eqb i0 (r_me (cn_ctx nj))); reflexivity.
        -- rewrite andb_false_r. destruct (adm (cn_ctx nj) i) as [[]|]; try reflexivity.
           simpl base_at_auth. destruct (Z.eqb_spec i0 i); [congruence|reflexivity].
Qed.

(* ---------- SnapshotRead ---------- *)
Lemma step_snapshot_read : forall c j0 i0, cwf c ->
  exists c', cstep c (SnapshotRead j0 i0) = Ok c' /\ cwf c' /\ (cpinv c -> cpinv c').
Proof.
  intros c j0 i0 H. unfold cstep; cbv zeta.
  destruct (aget j0 (c_nodes c)) as [nj|] eqn:Ej.
  2:{ eexists. split; [reflexivity|]. split; [apply cwf_tick; exact H|auto]. }
  destruct (aget i0 (c_nodes c)) as [ni0|] eqn:Ei0.
  2:{ eexists. split; [reflexivity|]. split; [apply cwf_tick; exact H|auto]. }
  destruct (valid_state (cn_ctx nj) i0) as [s|] eqn:Evs.
  2:{ eexists. split; [reflexivity|]. split; [apply cwf_tick; exact H|auto]. }
  destruct (H j0 nj Ej) as [A B C D F G].
  destruct (H i0 ni0 Ei0) as [A0 B0 C0 D0 F0 G0].
  set (ok := match adm (cn_ctx ni0) j0 with Some Node.ISOLATED => false | Some _ => true | None => false end).
  set (q := if ok then [(i0, MSnapshot (snapshot_of (cn_truth ni0)) (c_now c)); (i0, MAuth true (c_now c))]
            else [(i0, MAuth false (c_now c))]).
  eexists. split; [reflexivity|]. split.
  - replace (set_ntf nj (cn_ntf nj ++ q)) with (set_ntf (set_ctx nj (cn_ctx nj)) (cn_ntf nj ++ q)) by (destruct nj; reflexivity).
    apply node_update_wf; auto.
    + intros i' ok' ts Hi. apply in_app_iff in Hi. destruct Hi as [Hi|Hi].
      * pose proof (F i' ok' ts Hi). lia.
      * unfold q in Hi. destruct ok; simpl in Hi.
        -- destruct Hi as [Hi|[Hi|[]]]; inversion Hi; subst. lia.
        -- destruct Hi as [Hi|[]]; inversion Hi; subst. lia.
    + intros i'. pose proof (G i'). lia.
  - intros HP. apply cpinv_tick. apply (node_update_pinv c j0 nj); auto.
    intros i ni k b Hi Hb.
    unfold window_base in Hb |- *. cbn [set_ntf cn_ctx cn_ntf] in Hb.
    destruct (adm (cn_ctx nj) i) as [[]|] eqn:Ea; try discriminate; try (left; exact Hb).
    (* CHECKING *)
    destruct (Z.eqb_spec i i0) as [Ei|Ei].
    2:{ left. rewrite base_app_other in Hb; [exact Hb|].
        intros i' m Hin. unfold q in Hin. destruct ok; simpl in Hin.
        - destruct Hin as [Hin|[Hin|[]]]; inversion Hin; subst; auto.
        - destruct Hin as [Hin|[]]; inversion Hin; subst; auto. }
    subst i. rewrite Hi in Ei0. inversion Ei0; subst ni0. clear Ei0.
    rewrite base_app in Hb. rewrite base_of_scan.
    destruct (base_scan i0 (chk (cn_ctx nj) i0) (cn_ntf nj) k (rvinfo (cn_ctx nj) k i0)) as [r|v'].
    { left. exact Hb. }
    right. intros t Ht.
    unfold q in Hb. destruct ok eqn:Eok.
    2:{ simpl in Hb. rewrite Z.eqb_refl in Hb. destruct (Z.ltb (chk (cn_ctx nj) i0) (c_now c)); discriminate. }
    simpl in Hb. rewrite Z.eqb_refl in Hb.
    destruct (Z.ltb (chk (cn_ctx nj) i0) (c_now c)); [|discriminate].
    inversion Hb; subst b. clear Hb.
    rewrite (overlay_snapshot _ k v' B0), Ht.
    destruct (HP j0 i0 nj ni Ej Hi) as [CI _].
    unfold final. destruct (last_ev k (out_queue ni j0)) as [t'|] eqn:El; [|reflexivity].
    rewrite (CI) with (k := k) (t := t') in Ht; [inversion Ht; reflexivity| |exact El].
    unfold ok in Eok. intros Hiso. rewrite Hiso in Eok. discriminate.
Qed.

(* ---------- publications: Drop / Deliver ---------- *)
Lemma tinfo_eqb_eq : forall a b, tinfo_eqb a b = true <-> a = b.
Proof.
  intros [s1 e1] [s2 e2]. unfold tinfo_eqb. simpl. rewrite andb_true_iff, pstate_eqb_eq, Bool.eqb_true_iff.
  split; [intros [-> ->]; reflexivity|intros H; inversion H; auto].
Qed.

Lemma otinfo_eqb_eq : forall a b, option_eqb tinfo_eqb a b = true <-> a = b.
Proof.
  intros [a|] [b|]; simpl; try (split; [discriminate|intros H; inversion H]); try tauto.
  rewrite tinfo_eqb_eq. split; [intros ->; reflexivity|intros H; inversion H; reflexivity].
Qed.

Lemma loss_harmless : forall nj i k tr rest b,
  loss_harmful nj i k tr rest = false -> window_base nj i k = Some b -> final k rest b = Some tr.
Proof.
  intros nj i k tr rest b H Hb. unfold loss_harmful in H. rewrite Hb in H.
  apply negb_false_iff in H. apply otinfo_eqb_eq in H. exact H.
Qed.

(* In a window the two readings of "harmless" coincide: the lost event is superseded by a queued one, or it is
   already contained in the snapshot / view. (Statement of what `loss_harmful` means for a discarded event;
   `tr` is the true state, equal to the event's payload when nothing supersedes it.) *)
Lemma loss_harmless_iff : forall nj i k t rest b, window_base nj i k = Some b ->
  (loss_harmful nj i k t rest = false <->
   (last_ev k rest = Some t \/ (last_ev k rest = None /\ b = Some t))).
Proof.
  intros nj i k t rest b Hb. unfold loss_harmful. rewrite Hb, negb_false_iff, otinfo_eqb_eq. unfold final.
  destruct (last_ev k rest) as [t'|]; split.
  - intros H. left. exact H.
  - intros [H|[H _]]; [exact H|discriminate].
  - intros H. right. auto.
  - intros [H|[_ H]]; [discriminate|exact H].
Qed.

(* the pair (receiver j, sender i) when the head of i's queue towards j is consumed *)
Lemma pinv_pop : forall nj ni nj' ni' j i k st e nm rest (applied : bool),
  pinv nj ni j i ->
  out_queue ni j = MEvent k st e nm :: rest -> out_queue ni' j = rest ->
  cn_truth ni' = cn_truth ni -> adm (cn_ctx ni') j = adm (cn_ctx ni) j ->
  adm (cn_ctx nj') i = adm (cn_ctx nj) i -> chk (cn_ctx nj') i = chk (cn_ctx nj) i -> cn_ntf nj' = cn_ntf nj ->
  (forall k', rvinfo (cn_ctx nj') k' i =
              if applied && Z.eqb k' k then Some (st, e) else rvinfo (cn_ctx nj) k' i) ->
  (applied = true -> exists s, adm (cn_ctx nj) i = Some s /\ admitted s = true) ->
  (applied = false -> forall tr, aget k (cn_truth ni) = Some tr -> loss_harmful nj i k tr rest = false) ->
  pinv nj' ni' j i.
Proof.
  intros nj ni nj' ni' j i k st e nm rest applied [CI PI] Hq Hq' Ht Has Ha Hc Hn Hv Happ Hloss. split.
  - intros Hiso k' t Hl. rewrite Ht. apply CI; [rewrite <- Has; exact Hiso|].
    rewrite Hq. simpl. rewrite <- Hq'. rewrite Hl. reflexivity.
  - intros k' b t Hb Hk. rewrite Hq'. rewrite Ht in Hk.
    destruct applied.
    + destruct (Happ eq_refl) as [s [Es Hs]].
      assert (Hwb : window_base nj i k' = Some (rvinfo (cn_ctx nj) k' i)).
      { unfold window_base. rewrite Es. destruct s; simpl in Hs; try discriminate; reflexivity. }
      assert (Hwb' : window_base nj' i k' = Some (rvinfo (cn_ctx nj') k' i)).
      { unfold window_base. rewrite Ha, Es. destruct s; simpl in Hs; try discriminate; reflexivity. }
      rewrite Hwb' in Hb. inversion Hb; subst b. clear Hb.
      pose proof (PI k' _ t Hwb Hk) as P. rewrite Hq, final_cons_ev in P.
      rewrite Hv. simpl andb. rewrite (Z.eqb_sym k' k). exact P.
    + assert (Hwb : window_base nj i k' = Some b).
      { rewrite <- Hb. symmetry. apply window_base_frame; auto. rewrite Hv. reflexivity. }
      destruct (Z.eqb_spec k k') as [Ek|Ek].
      * subst k'. apply (loss_harmless nj i k t rest b); [apply (Hloss eq_refl); exact Hk|exact Hwb].
      * pose proof (PI k' b t Hwb Hk) as P. rewrite Hq, final_cons_ev in P.
        destruct (Z.eqb_spec k k'); [contradiction|]. exact P.
Qed.

Lemma pinv_pop_other : forall nj ni ni' j i m rest,
  pinv nj ni j i -> (forall k st e nm, m <> MEvent k st e nm) ->
  out_queue ni j = m :: rest -> out_queue ni' j = rest ->
  cn_truth ni' = cn_truth ni -> adm (cn_ctx ni') j = adm (cn_ctx ni) j ->
  pinv nj ni' j i.
Proof.
  intros nj ni ni' j i m rest [CI PI] Hm Hq Hq' Ht Has. split.
  - intros Hiso k t Hl. rewrite Ht. apply CI; [rewrite <- Has; exact Hiso|].
    rewrite Hq, last_ev_cons_other; [rewrite <- Hq'; exact Hl|]. intros; apply Hm.
  - intros k b t Hb Hk. rewrite Ht in Hk. pose proof (PI k b t Hb Hk) as P.
    unfold final in *. rewrite Hq, last_ev_cons_other in P; [rewrite Hq'; exact P|]. intros; apply Hm.
Qed.

(* what a step that consumes the head of i0's queue towards j0 does to the cluster: i0's node loses the head,
   j0's Context may change by a process event of i0 *)
Lemma pop_cluster : forall c i0 j0 ni nj m rest ctx' (applied : bool) k st e nm,
  cwf c -> i0 <> j0 ->
  aget i0 (c_nodes c) = Some ni -> aget j0 (c_nodes c) = Some nj ->
  out_queue ni j0 = m :: rest ->
  rwf ctx' -> r_adm ctx' = r_adm (cn_ctx nj) ->
  (forall k' i', rvinfo ctx' k' i' =
       if applied && Z.eqb k' k && Z.eqb i' i0 then Some (st, e) else rvinfo (cn_ctx nj) k' i') ->
  (applied = true -> m = MEvent k st e nm /\ exists s, adm (cn_ctx nj) i0 = Some s /\ admitted s = true) ->
  let c' := tick_clock (set_node (set_node c i0 (set_out ni (aset j0 rest (cn_out ni)))) j0 (set_ctx nj ctx')) in
  cwf c' /\
  ((applied = false -> forall k st e nm, m = MEvent k st e nm ->
       forall tr, aget k (cn_truth ni) = Some tr -> loss_harmful nj i0 k tr rest = false) ->
   cpinv c -> cpinv c').
Proof.
  intros c i0 j0 ni nj m rest ctx' applied k st e nm H Hij Ei Ej Hq Hr Hadm Hv Happ c'.
  set (ni' := set_out ni (aset j0 rest (cn_out ni))).
  set (nj' := set_ctx nj ctx').
  assert (Ha : forall i, adm ctx' i = adm (cn_ctx nj) i) by (intros; unfold adm; rewrite Hadm; reflexivity).
  assert (Hc : forall i, chk ctx' i = chk (cn_ctx nj) i) by (intros; unfold chk; rewrite Hadm; reflexivity).
  destruct (H i0 ni Ei) as [A B C D F G].
  destruct (H j0 nj Ej) as [A1 B1 C1 D1 F1 G1].
  assert (Hq0 : exists q0, aget j0 (cn_out ni) = Some q0).
  { unfold out_queue in Hq. destruct (aget j0 (cn_out ni)) as [q0|]; [eauto|discriminate]. }
  split.
  - unfold c'. fold ni'. fold nj'.
    change (tick_clock (set_node (set_node c i0 ni') j0 nj'))
      with (set_node (set_node (tick_clock c) i0 ni') j0 nj').
    assert (W1 : cwf (set_node (tick_clock c) i0 ni')).
    { apply (cwf_set (tick_clock c) i0 ni); auto.
      - apply cwf_tick. exact H.
      - unfold ni'. cbn [set_out cn_out]. rewrite aget_aset_other by exact Hij. exact C.
      - intros j q Hjq. unfold ni'. cbn [set_out cn_out]. destruct (Z.eq_dec j j0) as [->|N].
        + rewrite aget_aset_same. eauto.
        + rewrite aget_aset_other by exact N. eauto.
      - intros i' ok ts Hi. cbn [tick_clock c_now]. pose proof (F i' ok ts Hi). lia.
      - intros i'. cbn [tick_clock c_now]. unfold ni'. cbn [set_out cn_ctx]. pose proof (G i'). lia. }
    apply (cwf_set _ j0 nj); auto.
    + rewrite nodes_set. destruct (Z.eqb_spec j0 i0); [congruence|]. exact Ej.
    + intros j q Hjq. eauto.
    + intros i' ok ts Hi. cbn [set_node tick_clock c_now]. pose proof (F1 i' ok ts Hi). lia.
    + intros i'. cbn [set_node tick_clock c_now]. unfold nj'. cbn [set_ctx cn_ctx]. rewrite Hc. pose proof (G1 i'). lia.
  - intros Hloss HP. unfold c'. fold ni'. fold nj'. apply cpinv_tick.
    intros j i nj2 ni2 Hj Hi. rewrite !nodes_set in Hj, Hi.
    (* old nodes corresponding to the new ones *)
    set (oldn := fun (x : Z) (n2 : cnode) => if Z.eqb x j0 then nj else if Z.eqb x i0 then ni else n2).
    assert (Holdj : aget j (c_nodes c) = Some (oldn j nj2)).
    { unfold oldn. destruct (Z.eqb_spec j j0); [subst; exact Ej|]. destruct (Z.eqb_spec j i0); [subst; exact Ei|exact Hj]. }
    assert (Holdi : aget i (c_nodes c) = Some (oldn i ni2)).
    { unfold oldn. destruct (Z.eqb_spec i j0); [subst; exact Ej|]. destruct (Z.eqb_spec i i0); [subst; exact Ei|exact Hi]. }
    pose proof (HP j i _ _ Holdj Holdi) as P.
    (* source side facts *)
    assert (St : cn_truth ni2 = cn_truth (oldn i ni2)).
    { unfold oldn. destruct (Z.eqb_spec i j0); [inversion Hi; reflexivity|].
      destruct (Z.eqb_spec i i0); [inversion Hi; reflexivity|reflexivity]. }
    assert (Sa : forall y, adm (cn_ctx ni2) y = adm (cn_ctx (oldn i ni2)) y).
    { intros y. unfold oldn. destruct (Z.eqb_spec i j0); [inversion Hi; subst ni2; apply Ha|].
      destruct (Z.eqb_spec i i0); [inversion Hi; reflexivity|reflexivity]. }
    (* view side facts *)
    assert (Va : forall y, adm (cn_ctx nj2) y = adm (cn_ctx (oldn j nj2)) y).
    { intros y. unfold oldn. destruct (Z.eqb_spec j j0); [inversion Hj; subst nj2; apply Ha|].
      destruct (Z.eqb_spec j i0); [inversion Hj; reflexivity|reflexivity]. }
    assert (Vc : forall y, chk (cn_ctx nj2) y = chk (cn_ctx (oldn j nj2)) y).
    { intros y. unfold oldn. destruct (Z.eqb_spec j j0); [inversion Hj; subst nj2; apply Hc|].
      destruct (Z.eqb_spec j i0); [inversion Hj; reflexivity|reflexivity]. }
    assert (Vn : cn_ntf nj2 = cn_ntf (oldn j nj2)).
    { unfold oldn. destruct (Z.eqb_spec j j0); [inversion Hj; reflexivity|].
      destruct (Z.eqb_spec j i0); [inversion Hj; reflexivity|reflexivity]. }
    destruct (Z.eqb_spec j j0) as [Ejj|Ejj]; destruct (Z.eqb_spec i i0) as [Eii|Eii].
    + (* the pair (j0, i0) *)
      subst j i. inversion Hj; subst nj2. destruct (Z.eqb_spec i0 j0); [congruence|]. inversion Hi; subst ni2.
      assert (On : oldn j0 nj' = nj) by (unfold oldn; rewrite Z.eqb_refl; reflexivity).
      assert (Oi : oldn i0 ni' = ni).
      { unfold oldn. destruct (Z.eqb_spec i0 j0); [congruence|]. rewrite Z.eqb_refl. reflexivity. }
      rewrite On, Oi in P.
      assert (Hq' : out_queue ni' j0 = rest) by apply out_queue_set_same.
      destruct applied.
      * destruct (Happ eq_refl) as [Em Hs]. subst m.
        apply (pinv_pop nj ni nj' ni' j0 i0 k st e nm rest true P Hq Hq'); auto.
        -- intros k'. unfold nj'. cbn [set_ctx cn_ctx]. rewrite Hv, Z.eqb_refl, andb_true_r. reflexivity.
        -- discriminate.
      * assert (Hv0 : forall k' i', rvinfo (cn_ctx nj') k' i' = rvinfo (cn_ctx nj) k' i') by (intros; apply Hv).
        destruct m as [k1 st1 e1 nm1|tbl nm1|ok1 ts1].
        -- apply (pinv_pop nj ni nj' ni' j0 i0 k1 st1 e1 nm1 rest false P Hq Hq'); auto.
           ++ intros k'. apply Hv0.
           ++ discriminate.
           ++ intros _ tr Htr. apply (Hloss eq_refl k1 st1 e1 nm1 eq_refl tr Htr).
        -- apply (pinv_frame nj ni' nj' ni' j0 i0); auto.
           ++ apply (pinv_pop_other nj ni ni' j0 i0 (MSnapshot tbl nm1) rest P); auto. discriminate.
           ++ intros k' b Hb. rewrite <- Hb. symmetry. apply window_base_frame; auto.
        -- apply (pinv_frame nj ni' nj' ni' j0 i0); auto.
           ++ apply (pinv_pop_other nj ni ni' j0 i0 (MAuth ok1 ts1) rest P); auto. discriminate.
           ++ intros k' b Hb. rewrite <- Hb. symmetry. apply window_base_frame; auto.
    + (* view side is j0, another source *)
      subst j. inversion Hj; subst nj2.
      apply (pinv_frame _ _ nj' ni2 j0 i P); auto.
      * unfold oldn. destruct (Z.eqb_spec i j0) as [Eij0|Eij0]; [inversion Hi; reflexivity|].
        destruct (Z.eqb_spec i i0); [contradiction|reflexivity].
      * intros Hiso. rewrite Sa. exact Hiso.
      * intros k' b Hb. rewrite <- Hb. symmetry. apply window_base_frame; auto.
        unfold nj', oldn. rewrite Z.eqb_refl. cbn [set_ctx cn_ctx]. rewrite Hv.
        destruct (Z.eqb_spec i i0); [contradiction|]. rewrite andb_false_r. reflexivity.
    + (* source side is i0, another receiver *)
      subst i. destruct (Z.eqb_spec i0 j0); [congruence|]. inversion Hi; subst ni2.
      apply (pinv_frame _ _ nj2 ni' j i0 P); auto.
      * unfold oldn at 1. destruct (Z.eqb_spec i0 j0); [congruence|]. rewrite Z.eqb_refl.
        unfold ni'. apply out_queue_set_other. exact Ejj.
      * intros Hiso. rewrite Sa. exact Hiso.
      * intros k' b Hb. rewrite <- Hb. symmetry. apply window_base_frame; auto.
        unfold oldn. destruct (Z.eqb_spec j j0); [contradiction|].
        destruct (Z.eqb_spec j i0); [inversion Hj; reflexivity|reflexivity].
    + apply (pinv_frame _ _ nj2 ni2 j i P); auto.
      * unfold oldn. destruct (Z.eqb_spec i j0); [inversion Hi; reflexivity|].
        destruct (Z.eqb_spec i i0); [contradiction|reflexivity].
      * intros Hiso. rewrite Sa. exact Hiso.
      * intros k' b Hb. rewrite <- Hb. symmetry. apply window_base_frame; auto.
        unfold oldn. destruct (Z.eqb_spec j j0); [contradiction|].
        destruct (Z.eqb_spec j i0); [inversion Hj; reflexivity|reflexivity].
Qed.

Lemma set_node_id : forall c x n, aget x (c_nodes c) = Some n -> set_node c x (set_ctx n (cn_ctx n)) = c.
Proof.
  intros [nodes now] x [t cx o q] H. unfold set_node, set_ctx. cbn [c_nodes c_now cn_truth cn_ctx cn_out cn_ntf] in *.
  rewrite (aset_aget_id x _ nodes H). reflexivity.
Qed.

Lemma self_queue_empty : forall c i n, cwf c -> aget i (c_nodes c) = Some n -> out_queue n i = [].
Proof. intros c i n H E. unfold out_queue. rewrite (nw_self _ _ _ (H i n E)). reflexivity. Qed.

(* ---------- Drop ---------- *)
Lemma step_drop : forall c i0 j0, cwf c ->
  exists c', cstep c (Drop i0 j0) = Ok c' /\ cwf c' /\ (cpinv c -> harmful c (Drop i0 j0) = false -> cpinv c').
Proof.
  intros c i0 j0 H. unfold cstep; cbv zeta.
  destruct (aget i0 (c_nodes c)) as [ni|] eqn:Ei.
  2:{ eexists. split; [reflexivity|]. split; [apply cwf_tick; exact H|auto]. }
  destruct (aget j0 (c_nodes c)) as [nj|] eqn:Ej.
  2:{ eexists. split; [reflexivity|]. split; [apply cwf_tick; exact H|auto]. }
  destruct (out_queue ni j0) as [|m rest] eqn:Eq.
  { eexists. split; [reflexivity|]. split; [apply cwf_tick; exact H|auto]. }
  assert (Hij : i0 <> j0).
  { intros ->. rewrite Ej in Ei. inversion Ei; subst ni. rewrite (self_queue_empty c j0 nj H Ej) in Eq. discriminate. }
  eexists. split; [reflexivity|].
  set (c1 := set_node c i0 (set_out ni (aset j0 rest (cn_out ni)))).
  assert (Ej1 : aget j0 (c_nodes c1) = Some nj).
  { unfold c1. rewrite nodes_set. destruct (Z.eqb_spec j0 i0); [congruence|exact Ej]. }
  rewrite <- (set_node_id c1 j0 nj Ej1).
  destruct (pop_cluster c i0 j0 ni nj m rest (cn_ctx nj) false 0 STOPPED true 0 H Hij Ei Ej Eq) as [W P]; auto.
  - apply (nw_ctx _ _ _ (H j0 nj Ej)).
  - discriminate.
  - split; [exact W|]. intros HP Hh. apply P; [|exact HP].
    intros _ k st e nm -> tr Htr. unfold harmful in Hh. rewrite Ei, Ej, Eq in Hh. simpl in Hh.
    rewrite Htr in Hh. exact Hh.
Qed.

(* ---------- Deliver ---------- *)
Lemma step_deliver : forall c i0 j0, cwf c ->
  exists c', cstep c (Deliver i0 j0) = Ok c' /\ cwf c' /\ (cpinv c -> harmful c (Deliver i0 j0) = false -> cpinv c').
Proof.
  intros c i0 j0 H. unfold cstep; cbv zeta.
  destruct (aget i0 (c_nodes c)) as [ni|] eqn:Ei.
  2:{ eexists. split; [reflexivity|]. split; [apply cwf_tick; exact H|auto]. }
  destruct (aget j0 (c_nodes c)) as [nj|] eqn:Ej.
  2:{ eexists. split; [reflexivity|]. split; [apply cwf_tick; exact H|auto]. }
  destruct (out_queue ni j0) as [|m rest] eqn:Eq.
  { eexists. split; [reflexivity|]. split; [apply cwf_tick; exact H|auto]. }
  assert (Hij : i0 <> j0).
  { intros ->. rewrite Ej in Ei. inversion Ei; subst ni. rewrite (self_queue_empty c j0 nj H Ej) in Eq. discriminate. }
  set (c1 := set_node c i0 (set_out ni (aset j0 rest (cn_out ni)))).
  assert (Ej1 : aget j0 (c_nodes c1) = Some nj).
  { unfold c1. rewrite nodes_set. destruct (Z.eqb_spec j0 i0); [congruence|exact Ej]. }
  pose proof (nw_ctx _ _ _ (H j0 nj Ej)) as Aj.
  (* the cases where j0's Context is not touched *)
  assert (Hidle : forall (Hh : harmful c (Deliver i0 j0) = false ->
                    forall k st e nm, m = MEvent k st e nm ->
                    forall tr, aget k (cn_truth ni) = Some tr -> loss_harmful nj i0 k tr rest = false),
            cwf (tick_clock c1) /\ (cpinv c -> harmful c (Deliver i0 j0) = false -> cpinv (tick_clock c1))).
  { intros Hh. rewrite <- (set_node_id c1 j0 nj Ej1).
    destruct (pop_cluster c i0 j0 ni nj m rest (cn_ctx nj) false 0 STOPPED true 0 H Hij Ei Ej Eq) as [W P]; auto.
    - discriminate.
    - split; [exact W|]. intros HP Hf. apply P; [|exact HP]. intros _. apply Hh. exact Hf. }
  destruct m as [k st e nm|tbl nm|ok ts].
  2:{ eexists. split; [reflexivity|]. apply Hidle. intros _ k st e nm0 Hm. discriminate. }
  2:{ eexists. split; [reflexivity|]. apply Hidle. intros _ k st e nm0 Hm. discriminate. }
  destruct (sender_active ni j0) eqn:Esa.
  2:{ eexists. split; [reflexivity|]. apply Hidle.
      intros Hf k' st' e' nm' Hm tr Htr. inversion Hm; subst k' st' e' nm'.
      unfold harmful in Hf. rewrite Ei, Ej, Eq, Esa in Hf. simpl in Hf. rewrite Htr in Hf. exact Hf. }
  destruct (rstep_proc_event (cn_ctx nj) i0 k st e nm (c_now c) Aj) as [ctx' [E [Hr [Hadm [Hme [Hsame Hv]]]]]].
  rewrite E. cbn [bind]. eexists. split; [reflexivity|].
  destruct (pop_cluster c i0 j0 ni nj (MEvent k st e nm) rest ctx' (applies (cn_ctx nj) i0 k) k st e nm
              H Hij Ei Ej Eq Hr Hadm Hv) as [W P].
  - intros Ha. split; [reflexivity|]. unfold applies in Ha.
    destruct (valid_state (cn_ctx nj) i0) as [s|] eqn:Evs; [|discriminate].
    apply andb_true_iff in Ha. destruct Ha as [Ha _].
    exists s. split; [apply (valid_state_some _ _ _ Evs)|exact Ha].
  - split; [exact W|]. intros HP Hf. apply P; [|exact HP].
    intros Hna k' st' e' nm' Hm tr Htr. inversion Hm; subst k' st' e' nm'.
    unfold harmful in Hf. rewrite Ei, Ej, Eq, Esa in Hf.
    change (would_apply nj i0 k) with (applies (cn_ctx nj) i0 k) in Hf. rewrite Hna in Hf. simpl in Hf.
    rewrite Htr in Hf. exact Hf.
Qed.

(* ---------- LocalChange ---------- *)
Lemma aget_map_val : forall {V W} (f : Z -> V -> W) (l : alist V) j,
  aget j (map (fun jq => (fst jq, f (fst jq) (snd jq))) l) = match aget j l with Some q => Some (f j q) | None => None end.
Proof.
  intros V W f l j. induction l as [|[j' q] r IH]; simpl; [reflexivity|].
  destruct (Z.eqb_spec j j'); [subst; reflexivity|exact IH].
Qed.

Lemma aget_aset_eq : forall {V} (l : alist V) k v k',
  aget k' (aset k v l) = if Z.eqb k' k then Some v else aget k' l.
Proof.
  intros V l k v k'. destruct (Z.eqb_spec k' k); [subst; apply aget_aset_same|apply aget_aset_other; assumption].
Qed.

Lemma pinv_push_remote : forall nj ni ni' j i k st e nm,
  pinv nj ni j i ->
  cn_truth ni' = aset k (st, e) (cn_truth ni) ->
  out_queue ni' j = (match adm (cn_ctx ni) j with
                     | Some Node.ISOLATED => out_queue ni j
                     | _ => out_queue ni j ++ [MEvent k st e nm] end) ->
  adm (cn_ctx ni') j = adm (cn_ctx ni) j ->
  (adm (cn_ctx ni) j = Some ISOLATED -> loss_harmful nj i k (st, e) (out_queue ni j) = false) ->
  pinv nj ni' j i.
Proof.
  intros nj ni ni' j i k st e nm [CI PI] Ht Hq Ha Hl. split.
  - intros Hiso k' t Hle. rewrite Ha in Hiso. rewrite Ht, aget_aset_eq.
    assert (Hq2 : out_queue ni' j = out_queue ni j ++ [MEvent k st e nm]).
    { rewrite Hq. destruct (adm (cn_ctx ni) j) as [[]|]; try reflexivity. contradiction. }
    rewrite Hq2, last_ev_app_ev in Hle. rewrite (Z.eqb_sym k' k).
    destruct (Z.eqb k k'); [exact Hle|]. apply CI; assumption.
  - intros k' b t Hb Hk. rewrite Ht, aget_aset_eq in Hk. rewrite Hq.
    destruct (Z.eqb_spec k' k) as [Ek|Ek].
    + subst k'. inversion Hk; subst t.
      assert (Hnon : final k (out_queue ni j ++ [MEvent k st e nm]) b = Some (st, e)).
      { unfold final. rewrite last_ev_app_ev, Z.eqb_refl. reflexivity. }
      destruct (adm (cn_ctx ni) j) as [[]|] eqn:Ea; try exact Hnon.
      apply (loss_harmless nj i k (st, e) _ b (Hl eq_refl) Hb).
    + assert (Hnon : final k' (out_queue ni j ++ [MEvent k st e nm]) b = Some t).
      { unfold final. rewrite last_ev_app_ev. destruct (Z.eqb_spec k k'); [congruence|]. apply (PI k' b t Hb Hk). }
      destruct (adm (cn_ctx ni) j) as [[]|] eqn:Ea; try exact Hnon.
      apply (PI k' b t Hb Hk).
Qed.

Lemma pinv_push_local : forall n n' i k st e (applied : bool),
  pinv n n i i -> out_queue n i = [] -> out_queue n' i = [] ->
  cn_truth n' = aset k (st, e) (cn_truth n) ->
  (forall y, adm (cn_ctx n') y = adm (cn_ctx n) y) -> (forall y, chk (cn_ctx n') y = chk (cn_ctx n) y) ->
  cn_ntf n' = cn_ntf n ->
  (forall k', rvinfo (cn_ctx n') k' i = if applied && Z.eqb k' k then Some (st, e) else rvinfo (cn_ctx n) k' i) ->
  (applied = true -> exists s, adm (cn_ctx n) i = Some s /\ admitted s = true) ->
  (applied = false -> loss_harmful n i k (st, e) [] = false) ->
  pinv n' n' i i.
Proof.
  intros n n' i k st e applied [CI PI] Hq Hq' Ht Ha Hc Hn Hv Happ Hloss. split.
  - intros _ k' t Hl. rewrite Hq' in Hl. discriminate.
  - intros k' b t Hb Hk. rewrite Hq'. unfold final. simpl. rewrite Ht, aget_aset_eq in Hk.
    destruct applied.
    + destruct (Happ eq_refl) as [s [Es Hs]].
      assert (Hwb' : window_base n' i k' = Some (rvinfo (cn_ctx n') k' i)).
      { unfold window_base. rewrite Ha, Es. destruct s; simpl in Hs; try discriminate; reflexivity. }
      rewrite Hwb' in Hb. inversion Hb; subst b. clear Hb. rewrite Hv. simpl andb.
      destruct (Z.eqb_spec k' k) as [Ek|Ek]; [exact Hk|].
      assert (Hwb : window_base n i k' = Some (rvinfo (cn_ctx n) k' i)).
      { unfold window_base. rewrite Es. destruct s; simpl in Hs; try discriminate; reflexivity. }
      pose proof (PI k' _ t Hwb Hk) as P. rewrite Hq in P. exact P.
    + assert (Hwb : window_base n i k' = Some b).
      { rewrite <- Hb. symmetry. apply window_base_frame; auto. rewrite Hv. reflexivity. }
      destruct (Z.eqb_spec k' k) as [Ek|Ek].
      * subst k'. inversion Hk; subst t.
        pose proof (loss_harmless n i k (st, e) [] b (Hloss eq_refl) Hwb) as P. exact P.
      * pose proof (PI k' b t Hwb Hk) as P. rewrite Hq in P. exact P.
Qed.

Lemma existsb_false : forall {A} (f : A -> bool) l, existsb f l = false -> forall x, In x l -> f x = false.
Proof.
  intros A f l H x Hx. destruct (f x) eqn:E; [|reflexivity].
  assert (existsb f l = true) by (apply existsb_exists; exists x; auto). congruence.
Qed.

Lemma step_local_change : forall c i0 k st e, cwf c ->
  exists c', cstep c (LocalChange i0 k st e) = Ok c' /\ cwf c'
    /\ (cpinv c -> harmful c (LocalChange i0 k st e) = false -> cpinv c').
Proof.
  intros c i0 k st e H. unfold cstep; cbv zeta.
  destruct (aget i0 (c_nodes c)) as [n|] eqn:Ei.
  2:{ eexists. split; [reflexivity|]. split; [apply cwf_tick; exact H|auto]. }
  destruct (amem k (cn_truth n)) eqn:Ek.
  2:{ eexists. split; [reflexivity|]. split; [apply cwf_tick; exact H|auto]. }
  destruct (H i0 n Ei) as [A B C D F G].
  destruct (rstep_proc_event (cn_ctx n) i0 k st e (c_now c) (c_now c) A) as [ctx' [E [Hr [Hadm [Hme [Hsame Hv]]]]]].
  rewrite E. cbn [bind].
  set (n1 := set_ctx (set_truth n (aset k (st, e) (cn_truth n))) ctx').
  set (ev := MEvent k st e (c_now c)).
  set (n2 := set_out n1 (enqueue_pub n1 ev)).
  assert (Ha : forall y, adm ctx' y = adm (cn_ctx n) y) by (intros; unfold adm; rewrite Hadm; reflexivity).
  assert (Hc : forall y, chk ctx' y = chk (cn_ctx n) y) by (intros; unfold chk; rewrite Hadm; reflexivity).
  assert (Hout : forall j, aget j (cn_out n2) =
            match aget j (cn_out n) with
            | Some q => Some (match adm (cn_ctx n) j with Some Node.ISOLATED => q | _ => q ++ [ev] end)
            | None => None end).
  { intros j. unfold n2. cbn [set_out cn_out]. unfold enqueue_pub.
    rewrite (aget_map_val (fun j q => match adm (cn_ctx n1) j with Some Node.ISOLATED => q | _ => q ++ [ev] end)).
    unfold n1. cbn [set_ctx set_truth cn_ctx cn_out]. destruct (aget j (cn_out n)); [|reflexivity]. rewrite Ha. reflexivity. }
  assert (Hoq : forall j, j <> i0 -> isnode c j ->
            out_queue n2 j = match adm (cn_ctx n) j with
                             | Some Node.ISOLATED => out_queue n j | _ => out_queue n j ++ [ev] end).
  { intros j Hj Hn. destruct (D j Hj Hn) as [q Eq]. unfold out_queue. rewrite Hout, Eq. reflexivity. }
  assert (Hself : out_queue n2 i0 = []) by (unfold out_queue; rewrite Hout, C; reflexivity).
  eexists. split; [reflexivity|]. fold n1. fold ev. fold n2. split.
  - change (tick_clock (set_node c i0 n2)) with (set_node (tick_clock c) i0 n2).
    apply (cwf_set (tick_clock c) i0 n); auto.
    + apply cwf_tick. exact H.
    + unfold n2, n1. cbn [set_out set_ctx set_truth cn_truth]. apply NoDup_akeys_aset. exact B.
    + rewrite Hout, C. reflexivity.
    + intros j q Hq. rewrite Hout, Hq. eauto.
    + intros i' ok ts Hi. cbn [tick_clock c_now]. pose proof (F i' ok ts Hi). lia.
    + intros i'. cbn [tick_clock c_now]. unfold n2, n1. cbn [set_out set_ctx cn_ctx]. rewrite Hc. pose proof (G i'). lia.
  - intros HP Hh. apply cpinv_tick.
    unfold harmful in Hh. rewrite Ei, Ek in Hh. apply orb_false_iff in Hh. destruct Hh as [Hh1 Hh2].
    change (would_apply n i0 k) with (applies (cn_ctx n) i0 k) in Hh1.
    intros j i nj2 ni2 Hj Hi. rewrite nodes_set in Hj, Hi.
    destruct (Z.eqb_spec i i0) as [Eii|Eii].
    + subst i. inversion Hi; subst ni2. clear Hi.
      destruct (Z.eqb_spec j i0) as [Ejj|Ejj].
      * (* the local Context *)
        subst j. inversion Hj; subst nj2. clear Hj.
        apply (pinv_push_local n n2 i0 k st e (applies (cn_ctx n) i0 k) (HP i0 i0 n n Ei Ei)).
        -- apply (self_queue_empty c i0 n H Ei).
        -- exact Hself.
        -- reflexivity.
        -- intros y. unfold n2, n1. cbn [set_out set_ctx cn_ctx]. apply Ha.
        -- intros y. unfold n2, n1. cbn [set_out set_ctx cn_ctx]. apply Hc.
        -- reflexivity.
        -- intros k'. unfold n2, n1. cbn [set_out set_ctx cn_ctx]. rewrite Hv, Z.eqb_refl, andb_true_r. reflexivity.
        -- intros Hap. unfold applies in Hap. destruct (valid_state (cn_ctx n) i0) as [s|] eqn:Evs; [|discriminate].
           apply andb_true_iff in Hap. destruct Hap as [Hap _].
           exists s. split; [apply (valid_state_some _ _ _ Evs)|exact Hap].
        -- intros Hap. rewrite Hap in Hh1. simpl in Hh1. exact Hh1.
      * (* a remote Context *)
        assert (Hnj : isnode c j) by (exists nj2; exact Hj).
        apply (pinv_push_remote nj2 n n2 j i0 k st e (c_now c) (HP j i0 nj2 n Hj Ei)).
        -- reflexivity.
        -- apply (Hoq j Ejj Hnj).
        -- unfold n2, n1. cbn [set_out set_ctx cn_ctx]. apply Ha.
        -- intros Hiso.
           assert (Hin : In (j, nj2) (c_nodes c)) by (apply aget_In; exact Hj).
           pose proof (existsb_false _ _ Hh2 (j, nj2) Hin) as Hh3. cbn [fst snd] in Hh3. clear Hh2. rename Hh3 into Hh2.
           rewrite Hiso in Hh2. destruct (Z.eqb_spec j i0); [contradiction|]. simpl in Hh2. exact Hh2.
    + destruct (Z.eqb_spec j i0) as [Ejj|Ejj].
      * subst j. inversion Hj; subst nj2. clear Hj.
        apply (pinv_frame n ni2 n2 ni2 i0 i (HP i0 i n ni2 Ei Hi)); [reflexivity|reflexivity|auto|].
        intros k' b Hb. rewrite <- Hb. symmetry. apply window_base_frame.
        -- unfold n2, n1. cbn [set_out set_ctx cn_ctx]. apply Ha.
        -- unfold n2, n1. cbn [set_out set_ctx cn_ctx]. apply Hc.
        -- reflexivity.
        -- unfold n2, n1. cbn [set_out set_ctx cn_ctx]. rewrite Hv.
           destruct (Z.eqb_spec i i0); [contradiction|]. rewrite andb_false_r. reflexivity.
      * apply (HP j i nj2 ni2 Hj Hi).
Qed.

(* ---------- every action ---------- *)
Lemma cstep_inv : forall c a, cwf c ->
  exists c', cstep c a = Ok c' /\ cwf c' /\ (cpinv c -> harmful c a = false -> cpinv c').
Proof.
  intros c a H. destruct a as [i k st e|i j|i j|i j|j i|j|j|j i|j iso].
  - apply step_local_change. exact H.
  - apply step_deliver. exact H.
  - apply step_drop. exact H.
  - destruct (step_tick_from c i j H) as [c' [E [W P]]]. exists c'. auto.
  - destruct (step_snapshot_read c j i H) as [c' [E [W P]]]. exists c'. auto.
  - destruct (step_notify c j H) as [c' [E [W P]]]. exists c'. auto.
  - destruct (step_activate c j H) as [c' [E [W P]]]. exists c'. auto.
  - destruct (step_fail c j i H) as [c' [E [W P]]]. exists c'. auto.
  - destruct (step_invalidate c j iso H) as [c' [E [W P]]]. exists c'. auto.
Qed.

(* no schedule makes a well-formed cluster raise *)
Theorem cluster_no_crash : forall tr c, cwf c -> exists c', crun c tr = Ok c' /\ cwf c'.
Proof.
  induction tr as [|a r IH]; intros c H; simpl.
  - exists c. auto.
  - destruct (cstep_inv c a H) as [c1 [E [W _]]]. rewrite E. simpl. apply IH. exact W.
Qed.

Lemma clean_inv : forall tr c c', cwf c -> cpinv c -> clean c tr = true -> crun c tr = Ok c' -> cwf c' /\ cpinv c'.
Proof.
  induction tr as [|a r IH]; intros c c' H HP Hc Hr; simpl in *.
  - inversion Hr; subst. auto.
  - apply andb_true_iff in Hc. destruct Hc as [Hh Hc]. apply negb_true_iff in Hh.
    destruct (cstep_inv c a H) as [c1 [E [W P]]]. rewrite E in Hc, Hr. simpl in Hr.
    apply (IH c1 c' W (P HP Hh) Hc Hr).
Qed.

(* ---------- the initial cluster ---------- *)
Lemma aget_map_key : forall {V W} (f : Z -> V -> W) (l : alist V) j,
  aget j (map (fun kv => (fst kv, f (fst kv) (snd kv))) l) = match aget j l with Some v => Some (f j v) | None => None end.
Proof. intros. apply aget_map_val. Qed.

Lemma aget_const_map : forall {W} (w : W) (l : list Z) j,
  aget j (map (fun x => (x, w)) l) = if zmem j l then Some w else None.
Proof.
  intros W w l j. induction l as [|x r IH]; simpl; [reflexivity|].
  destruct (Z.eqb j x); [reflexivity|exact IH].
Qed.

Lemma cinit_node : forall truths i n, aget i (c_nodes (cinit truths)) = Some n ->
  exists t, aget i truths = Some t /\ n = node_init (akeys truths) i t.
Proof.
  intros truths i n H. unfold cinit in H. cbn [c_nodes] in H.
  rewrite (aget_map_key (fun i t => node_init (akeys truths) i t)) in H.
  destruct (aget i truths) as [t|]; [|discriminate]. inversion H. eauto.
Qed.

Lemma cinit_inv : forall truths, (forall i t, aget i truths = Some t -> NoDup (akeys t)) ->
  cwf (cinit truths) /\ cpinv (cinit truths).
Proof.
  intros truths Ht. split.
  - intros i n E. destruct (cinit_node truths i n E) as [t [Et ->]]. constructor.
    + apply rinit_rwf.
    + apply (Ht i t Et).
    + unfold node_init. cbn [cn_out]. rewrite aget_const_map.
      destruct (zmem i (filter (fun j => negb (Z.eqb j i)) (akeys truths))) eqn:Ez; [|reflexivity].
      apply zmem_In in Ez. apply filter_In in Ez. destruct Ez as [_ Ez]. rewrite Z.eqb_refl in Ez. discriminate.
    + intros j Hj [nj Hn]. destruct (cinit_node truths j nj Hn) as [tj [Etj _]].
      unfold node_init. cbn [cn_out]. rewrite aget_const_map.
      assert (Hz : zmem j (filter (fun j0 => negb (Z.eqb j0 i)) (akeys truths)) = true).
      { apply zmem_In. apply filter_In. split.
        - apply aget_In in Etj. unfold akeys. apply in_map_iff. exists (j, tj). auto.
        - destruct (Z.eqb_spec j i); [contradiction|reflexivity]. }
      rewrite Hz. eauto.
    + intros i' ok ts [].
    + intros i'. unfold node_init, rinit, chk. cbn [cn_ctx r_adm c_now cinit].
      rewrite (aget_const_map (ISTOPPED, 0)). destruct (zmem i' (akeys truths)); simpl; lia.
  - intros j i nj ni Ej Ei.
    destruct (cinit_node truths j nj Ej) as [tj [_ ->]]. destruct (cinit_node truths i ni Ei) as [ti [_ ->]].
    split.
    + intros _ k t Hl. unfold node_init, out_queue in Hl. cbn [cn_out] in Hl. rewrite aget_const_map in Hl.
      destruct (zmem j _); discriminate.
    + intros k b t Hb. unfold window_base, node_init, rinit, adm in Hb. cbn [cn_ctx r_adm] in Hb.
      rewrite (aget_const_map (ISTOPPED, 0)) in Hb. destruct (zmem i (akeys truths)); discriminate.
Qed.

(* ---------- agreement ---------- *)
(* C12, information level. For EVERY schedule in which no process event is lost inside a handshake window
   (`clean`), at every point of the schedule: whenever i's publication queue towards j is empty and j sees i
   RUNNING, what j holds about every process of i is exactly what i's Supervisor reports (state and expected
   flag). Quiescence of the whole cluster is a special case; pending handshakes elsewhere do not matter. *)
Theorem agreement_partial : forall truths tr c,
  (forall i t, aget i truths = Some t -> NoDup (akeys t)) ->
  clean (cinit truths) tr = true -> crun (cinit truths) tr = Ok c ->
  forall j i nj ni, aget j (c_nodes c) = Some nj -> aget i (c_nodes c) = Some ni ->
    adm (cn_ctx nj) i = Some IRUNNING -> out_queue ni j = [] ->
    forall k t, aget k (cn_truth ni) = Some t -> rvinfo (cn_ctx nj) k i = Some t.
Proof.
  intros truths tr c Ht Hc Hr j i nj ni Ej Ei Ha Hq k t Hk.
  destruct (cinit_inv truths Ht) as [W0 P0].
  destruct (clean_inv tr _ c W0 P0 Hc Hr) as [W P].
  destruct (P j i nj ni Ej Ei) as [_ PI].
  assert (Hb : window_base nj i k = Some (rvinfo (cn_ctx nj) k i)) by (unfold window_base; rewrite Ha; reflexivity).
  pose proof (PI k _ t Hb Hk) as F. rewrite Hq in F. exact F.
Qed.

(* from the per-instance information to the running set (through the C11 refinement) *)
Lemma wfp_membership : forall p i st e, wfp p -> pvinfo p i = Some (st, e) ->
  (is_running_like st = true -> zmem i (p_running p) = true)
  /\ (is_stopped_like st = true -> zmem i (p_running p) = false).
Proof.
  intros p i st e [sp HR] Hv. rewrite (pvinfo_R p sp i HR) in Hv. unfold svinfo in Hv.
  destruct (aget i (sp_infos sp)) as [si|] eqn:Ei; [|discriminate]. inversion Hv; subst. clear Hv.
  destruct HR as [HR _].
  assert (Hok : listed_ok si).
  { pose proof (rc_listed _ _ _ HR) as HF. rewrite Forall_forall in HF. apply (HF (i, si)). apply aget_In. exact Ei. }
  destruct Hok as [O1 O2]. split.
  - intros Hrl. apply (rc_run _ _ _ HR). exists si. auto.
  - intros Hsl. destruct (zmem i (p_running p)) eqn:Ez; [|reflexivity].
    apply (rc_run _ _ _ HR) in Ez. destruct Ez as [si' [E' L']]. rewrite Ei in E'. inversion E'; subst si'.
    destruct (O1 L') as [X|X]; [destruct (s_state si); simpl in *; discriminate|rewrite X in Hsl; discriminate].
Qed.

(* C12 as the property words it: "the set of instances where it runs ... is exactly what the Supervisors of the
   instances it sees RUNNING actually report", for the instances seen RUNNING. STOPPING is in neither of
   Supervisor's RUNNING_STATES / STOPPED_STATES: membership is then left open (see stopping_membership_differs). *)
Theorem running_agreement : forall truths tr c,
  (forall i t, aget i truths = Some t -> NoDup (akeys t)) ->
  clean (cinit truths) tr = true -> crun (cinit truths) tr = Ok c ->
  forall j i nj ni, aget j (c_nodes c) = Some nj -> aget i (c_nodes c) = Some ni ->
    adm (cn_ctx nj) i = Some IRUNNING -> out_queue ni j = [] ->
    forall k st e, aget k (cn_truth ni) = Some (st, e) ->
      exists p, aget k (r_procs (cn_ctx nj)) = Some p
        /\ (is_running_like st = true -> zmem i (p_running p) = true)
        /\ (is_stopped_like st = true -> zmem i (p_running p) = false).
Proof.
  intros truths tr c Ht Hc Hr j i nj ni Ej Ei Ha Hq k st e Hk.
  pose proof (agreement_partial truths tr c Ht Hc Hr j i nj ni Ej Ei Ha Hq k (st, e) Hk) as Hv.
  destruct (cinit_inv truths Ht) as [W0 P0].
  destruct (clean_inv tr _ c W0 P0 Hc Hr) as [W _].
  unfold rvinfo in Hv. destruct (aget k (r_procs (cn_ctx nj))) as [p|] eqn:Ep; [|discriminate].
  exists p. split; [reflexivity|].
  apply (wfp_membership p i st e); [|exact Hv].
  apply (Fwfp_aget _ k p (nw_ctx _ _ _ (W j nj Ej)) Ep).
Qed.

(* two instances that both see i RUNNING, with nothing of i in flight towards them, agree on whether process k
   runs on i (the stopped-like flavour held for i is even the same: both hold i's true state) *)
Corollary pairwise_agreement : forall truths tr c,
  (forall i t, aget i truths = Some t -> NoDup (akeys t)) ->
  clean (cinit truths) tr = true -> crun (cinit truths) tr = Ok c ->
  forall a b i na nb ni, aget a (c_nodes c) = Some na -> aget b (c_nodes c) = Some nb -> aget i (c_nodes c) = Some ni ->
    adm (cn_ctx na) i = Some IRUNNING -> adm (cn_ctx nb) i = Some IRUNNING ->
    out_queue ni a = [] -> out_queue ni b = [] ->
    forall k st e, aget k (cn_truth ni) = Some (st, e) ->
      rvinfo (cn_ctx na) k i = rvinfo (cn_ctx nb) k i
      /\ (st <> STOPPING ->
          exists pa pb, aget k (r_procs (cn_ctx na)) = Some pa /\ aget k (r_procs (cn_ctx nb)) = Some pb
            /\ zmem i (p_running pa) = zmem i (p_running pb)).
Proof.
  intros truths tr c Ht Hc Hr a b i na nb ni Ea Eb Ei Haa Hab Hqa Hqb k st e Hk. split.
  - rewrite (agreement_partial truths tr c Ht Hc Hr a i na ni Ea Ei Haa Hqa k _ Hk).
    rewrite (agreement_partial truths tr c Ht Hc Hr b i nb ni Eb Ei Hab Hqb k _ Hk). reflexivity.
  - intros Hns.
    destruct (running_agreement truths tr c Ht Hc Hr a i na ni Ea Ei Haa Hqa k st e Hk) as [pa [Epa [A1 A2]]].
    destruct (running_agreement truths tr c Ht Hc Hr b i nb ni Eb Ei Hab Hqb k st e Hk) as [pb [Epb [B1 B2]]].
    exists pa, pb. split; [exact Epa|]. split; [exact Epb|].
    destruct st; try (rewrite A1, B1 by reflexivity; reflexivity); try (rewrite A2, B2 by reflexivity; reflexivity).
    contradiction.
Qed.

(* ====================================================================== *)
(* D. one Context: no crash, and Spec_C13 (process plane) on every history   *)
(* ====================================================================== *)
Lemma rstep_total : forall c o, rwf c -> exists c', rstep c o = Ok c' /\ rwf c'.
Proof.
  intros c o H. destruct o as [j infos nm now|j inf nm now|j k st e nm now|j k tg st et now|j k|j k b|j rmt now
                              |j ok ts now|j now|iso now|now].
  - destruct (rstep_load_all c j infos nm now H) as [c' [E [W _]]]. eauto.
  - unfold rstep. destruct (valid_state c j); [|eauto].
    destruct (load_infos_ok [inf] (r_procs c) j nm now H) as [ps [E [W _]]]. rewrite E. simpl. eauto.
  - destruct (rstep_proc_event c j k st e nm now H) as [c' [E [W _]]]. eauto.
  - unfold rstep. destruct (valid_state c j) as [s|]; [|eauto]. destruct (admitted s); [|eauto].
    destruct (aget k (r_procs c)) as [p|] eqn:Ek; [|eauto].
    eexists. split; [reflexivity|]. apply Fwfp_aset; [exact H|].
    apply wfp_force. eapply Fwfp_aget; eassumption.
  - unfold rstep. destruct (valid_state c j) as [s|]; [|eauto]. destruct (admitted s); [|eauto].
    destruct (aget k (r_procs c)) as [p|] eqn:Ek; [|eauto].
    destruct (amem j (p_infos p)) eqn:Em; [|eauto].
    destruct (wfp_remove p j (Fwfp_aget _ _ _ H Ek) Em) as [p' [E [W _]]]. rewrite E. simpl.
    eexists. split; [reflexivity|]. unfold rwf. cbn [set_procs r_procs].
    destruct (p_infos p'); [apply Forall_adel; exact H|apply Fwfp_aset; assumption].
  - unfold rstep. destruct (valid_state c j) as [s|]; [|eauto]. destruct (admitted s); [|eauto].
    destruct (aget k (r_procs c)) as [p|] eqn:Ek; [|eauto].
    destruct (amem j (p_infos p)) eqn:Em; [|eauto].
    destruct (wfp_disable p j b (Fwfp_aget _ _ _ H Ek)) as [p' [E [W _]]]. rewrite E. simpl.
    eexists. split; [reflexivity|]. apply Fwfp_aset; assumption.
  - destruct (rstep_tick c j rmt now H) as [c' [E [W _]]]. eauto.
  - destruct (rstep_auth c j ok ts now) as [c' [E [Hp _]]]. exists c'. split; [exact E|]. unfold rwf. rewrite Hp. exact H.
  - destruct (rstep_failure c j now) as [c' [E [Hp _]]]. exists c'. split; [exact E|]. unfold rwf. rewrite Hp. exact H.
  - destruct (rstep_invalidate_failed c iso now H) as [c' [E [W _]]]. eauto.
  - destruct (rstep_activate c now) as [c' [E [Hp _]]]. exists c'. split; [exact E|]. unfold rwf. rewrite Hp. exact H.
Qed.

Theorem receiver_no_crash : forall ops me peers, exists c, rrun_state (rinit me peers) ops = Ok c /\ rwf c.
Proof.
  intros ops me peers. generalize (rinit_rwf me peers). generalize (rinit me peers).
  induction ops as [|o r IH]; intros c H; simpl.
  - eauto.
  - destruct (rstep_total c o H) as [c' [E W]]. rewrite E. simpl. apply IH. exact W.
Qed.

Lemma list_eqb_refl : forall {A} (eqb : A -> A -> bool) l, (forall x, eqb x x = true) -> list_eqb eqb l l = true.
Proof. intros A eqb l H. induction l as [|x r IH]; simpl; [reflexivity|]. rewrite H, IH. reflexivity. Qed.

Lemma pobs_eqb_refl : forall o, pobs_eqb o o = true.
Proof.
  intros [[[[[[r c] s] d] e] f] l]. simpl.
  rewrite (list_eqb_refl Z.eqb r Z.eqb_refl), !Bool.eqb_reflx, !Z.eqb_refl. simpl.
  apply list_eqb_refl. intros [[[[[i1 s1] e1] h1] d1] t1]. simpl.
  rewrite !Z.eqb_refl, !Bool.eqb_reflx. reflexivity.
Qed.

Lemma robs_eqb_refl : forall o, robs_eqb o o = true.
Proof.
  intros [a p]. unfold robs_eqb. simpl. rewrite list_eqb_refl, list_eqb_refl; [reflexivity| |].
  - intros [k o]. unfold kp_eqb. simpl. rewrite Z.eqb_refl, pobs_eqb_refl. reflexivity.
  - intros [x y]. unfold zz_eqb. simpl. rewrite !Z.eqb_refl. reflexivity.
Qed.

Lemma obs_state_robserve : forall c j,
  obs_state (robserve c) j = match adm c j with Some s => Some (Node.icode s) | None => None end.
Proof.
  intros c j. unfold obs_state, robserve, adm. cbn [fst].
  induction (r_adm c) as [|[j' [s ct]] r IH]; simpl; [reflexivity|].
  rewrite (Z.eqb_sym j' j). destruct (Z.eqb j j'); [reflexivity|exact IH].
Qed.

Lemma icode_isolated : forall s, Z.eqb (Node.icode s) (Node.icode ISOLATED) = true -> s = ISOLATED.
Proof. destruct s; vm_compute; intros H; try discriminate; reflexivity. Qed.

Lemma code_admitted_spec : forall s, code_admitted (Node.icode s) = admitted s.
Proof. destruct s; vm_compute; reflexivity. Qed.

Lemma inert_ok : forall c o, must_be_inert (robserve c) o = true -> rstep c o = Ok c.
Proof.
  intros c o H. unfold must_be_inert in H. destruct (rop_origin o) as [j|] eqn:Eo; [|discriminate].
  rewrite obs_state_robserve in H. destruct (adm c j) as [s|] eqn:Ea.
  - apply orb_true_iff in H. destruct H as [H|H].
    + apply icode_isolated in H. subst s. apply (isolated_peer_noninterference_procs c o j Eo). left. exact Ea.
    + apply andb_true_iff in H. destruct H as [Hg Hn]. rewrite code_admitted_spec in Hn.
      apply (events_only_from_admitted c o j Hg Eo). intros s' Es'. rewrite Ea in Es'. inversion Es'; subst s'.
      apply negb_true_iff in Hn. exact Hn.
  - apply (isolated_peer_noninterference_procs c o j Eo). right. exact Ea.
Qed.

(* the model of one Context satisfies Spec_C13 (process plane) on every history, from every well-formed state *)
Theorem receiver_refines_spec_gen : forall ops c, rwf c -> rspec_violated (robserve c) ops (rrun c ops) = false.
Proof.
  induction ops as [|o r IH]; intros c H; simpl; [reflexivity|].
  destruct (rstep_total c o H) as [c' [E W]]. rewrite E.
  destruct (must_be_inert (robserve c) o) eqn:Ei.
  - rewrite (inert_ok c o Ei) in E. inversion E; subst c'. rewrite robs_eqb_refl. simpl. apply IH. exact W.
  - simpl. apply IH. exact W.
Qed.

Theorem receiver_refines_spec : forall me peers ops,
  rspec_violated (robserve (rinit me peers)) ops (rrun (rinit me peers) ops) = false.
Proof. intros. apply receiver_refines_spec_gen. apply rinit_rwf. Qed.

(* ====================================================================== *)
(* F. the handshake window (DESIGN §6 F13)                                  *)
(* ====================================================================== *)
Definition handshake_self (i : Z) : list action := [TickFrom i i; SnapshotRead i i; Notify i; Notify i; ActivateAt i].
(* j admits i: i's TICK reaches j, j's proxy reads i, j handles ALL_INFO and AUTHORIZATION, then activates *)
Definition handshake (j i : Z) : list action := [TickFrom i j; SnapshotRead j i; Notify j; Notify j; ActivateAt j].

Definition w_truths : alist (alist tinfo) := [(1, []); (2, [(7, (RUNNING, true))])].

(* receiver side: the event reaches 1 after 1's proxy has read 2's processes and before 1 handles AUTHORIZATION *)
Definition w_receiver : list action :=
  handshake_self 1 ++ handshake_self 2 ++ handshake 2 1 ++
  [ TickFrom 2 1; SnapshotRead 1 2; LocalChange 2 7 STOPPED true; Deliver 2 1; Notify 1; Notify 1; ActivateAt 1 ].

(* sender side: 2 does not regard 1 as active yet when its proxy handles the event (publish drops it) *)
Definition w_sender : list action :=
  handshake_self 1 ++ handshake_self 2 ++
  [ TickFrom 2 1; SnapshotRead 1 2; LocalChange 2 7 STOPPED true; Deliver 2 1; Notify 1; Notify 1; ActivateAt 1 ]
  ++ handshake 2 1.

(* one instance alone: a local process event between the local snapshot and the local AUTHORIZATION *)
Definition w_local_truths : alist (alist tinfo) := [(1, [(7, (STOPPED, true))])].
Definition w_local : list action :=
  [ TickFrom 1 1; SnapshotRead 1 1; LocalChange 1 7 STARTING true; Notify 1; Notify 1; ActivateAt 1 ].

Definition final_of (truths : alist (alist tinfo)) (tr : list action) : cluster :=
  match crun (cinit truths) tr with Ok c => c | Crash _ => cinit truths end.

Definition view_of (c : cluster) (j k i : Z) : option tinfo :=
  match aget j (c_nodes c) with Some nj => rvinfo (cn_ctx nj) k i | None => None end.
Definition truth_of (c : cluster) (i k : Z) : option tinfo :=
  match aget i (c_nodes c) with Some ni => aget k (cn_truth ni) | None => None end.
Definition running_at (c : cluster) (j k : Z) : list Z :=
  match aget j (c_nodes c) with
  | Some nj => match aget k (r_procs (cn_ctx nj)) with Some p => p_running p | None => [] end
  | None => []
  end.
Definition sees (c : cluster) (j i : Z) : option istate :=
  match aget j (c_nodes c) with Some nj => adm (cn_ctx nj) i | None => None end.

(* The full-strength statement (agreement without the `clean` hypothesis) is FALSE of the model: a schedule that
   ends with every queue empty and no handshake in progress, where instance 1 sees instance 2 RUNNING and
   reports process 7 as RUNNING on 2, while 2's Supervisor reports it STOPPED. *)
Theorem handshake_window_refuted :
  exists truths tr c, crun (cinit truths) tr = Ok c /\ quiescent c = true
    /\ view_true c = false /\ running_true c = false
    /\ sees c 1 2 = Some IRUNNING
    /\ view_of c 1 7 2 = Some (RUNNING, true) /\ truth_of c 2 7 = Some (STOPPED, true)
    /\ running_at c 1 7 = [2] /\ running_at c 2 7 = [].
Proof. exists w_truths, w_receiver. eexists. vm_compute. repeat split; reflexivity. Qed.

Theorem handshake_window_sender_refuted :
  exists truths tr c, crun (cinit truths) tr = Ok c /\ quiescent c = true
    /\ view_true c = false /\ running_true c = false
    /\ sees c 1 2 = Some IRUNNING /\ sees c 2 1 = Some IRUNNING
    /\ view_of c 1 7 2 = Some (RUNNING, true) /\ truth_of c 2 7 = Some (STOPPED, true).
Proof. exists w_truths, w_sender. eexists. vm_compute. repeat split; reflexivity. Qed.

Theorem handshake_window_local_refuted :
  exists truths tr c, crun (cinit truths) tr = Ok c /\ quiescent c = true
    /\ view_true c = false /\ running_true c = false
    /\ sees c 1 1 = Some IRUNNING
    /\ view_of c 1 7 1 = Some (STOPPED, true) /\ truth_of c 1 7 = Some (STARTING, true)
    /\ running_at c 1 7 = [].
Proof. exists w_local_truths, w_local. eexists. vm_compute. repeat split; reflexivity. Qed.

(* the three schedules are exactly outside the hypothesis of agreement_partial *)
Example witnesses_not_clean :
  clean (cinit w_truths) w_receiver = false /\ clean (cinit w_truths) w_sender = false
  /\ clean (cinit w_local_truths) w_local = false.
Proof. vm_compute. repeat split; reflexivity. Qed.

(* ... and the hypotheses of agreement_partial are satisfiable on a non-trivial schedule: the same story with the
   process change after the handshake; every view is then true *)
Definition w_clean : list action :=
  handshake_self 1 ++ handshake_self 2 ++ handshake 2 1 ++ handshake 1 2 ++
  [ LocalChange 2 7 STOPPING true; Deliver 2 1; LocalChange 2 7 STOPPED true; Deliver 2 1 ].

Example agreement_hypotheses_satisfiable :
  (forall i t, aget i w_truths = Some t -> NoDup (akeys t))
  /\ clean (cinit w_truths) w_clean = true
  /\ (let c := final_of w_truths w_clean in
      quiescent c = true /\ view_true c = true /\ running_true c = true
      /\ sees c 1 2 = Some IRUNNING /\ view_of c 1 7 2 = Some (STOPPED, true) /\ running_at c 1 7 = []).
Proof.
  split.
  - intros i t H. unfold w_truths in H. simpl in H.
    destruct (Z.eqb i 1); [inversion H; constructor|].
    destruct (Z.eqb i 2); [inversion H; repeat constructor; intros []|discriminate].
  - vm_compute. repeat split; reflexivity.
Qed.

(* Observation (not a handshake-window effect): while a process is STOPPING on i, an instance that admitted i
   earlier lists i in the running set (it saw RUNNING then STOPPING), an instance that admits i now does not
   (add_info of a STOPPING entry does not list it). Both hold the true state STOPPING and both synthesize
   STOPPING; only `running_identifiers` differs. STOPPING is neither running nor stopped for Supervisor, and
   Spec_C12 leaves it open. *)
Definition w_stopping_truths : alist (alist tinfo) := [(1, []); (2, [(7, (RUNNING, true))]); (3, [])].
Definition w_stopping : list action :=
  handshake_self 1 ++ handshake_self 2 ++ handshake_self 3 ++ handshake 2 1 ++ handshake 1 2 ++ handshake 2 3 ++
  [ LocalChange 2 7 STOPPING true; Deliver 2 1; Deliver 2 3 ] ++ handshake 3 2.

Example stopping_membership_differs :
  clean (cinit w_stopping_truths) w_stopping = true
  /\ (let c := final_of w_stopping_truths w_stopping in
      quiescent c = true /\ view_true c = true /\ running_true c = true
      /\ view_of c 1 7 2 = Some (STOPPING, true) /\ view_of c 3 7 2 = Some (STOPPING, true)
      /\ running_at c 1 7 = [2] /\ running_at c 3 7 = []).
Proof. vm_compute. repeat split; reflexivity. Qed.

(* ====================================================================== *)
(* G. the boolean specification at quiescent points                         *)
(* ====================================================================== *)
Lemma akeys_aset_present : forall {V} (l : alist V) k v v', aget k l = Some v -> akeys (aset k v' l) = akeys l.
Proof.
  intros V l k v v'. induction l as [|[k' w] r IH]; simpl; intros H; [discriminate|].
  destruct (Z.eqb k k'); simpl; [reflexivity|]. rewrite IH; auto.
Qed.

Lemma keys_set_node : forall c x n n', aget x (c_nodes c) = Some n ->
  akeys (c_nodes (tick_clock (set_node c x n'))) = akeys (c_nodes c).
Proof. intros c x n n' H. cbn [tick_clock set_node c_nodes]. apply (akeys_aset_present _ x n n' H). Qed.

Lemma cstep_keys : forall c a c', cstep c a = Ok c' -> akeys (c_nodes c') = akeys (c_nodes c).
Proof.
  intros c a c' H. unfold cstep in H. cbv zeta in H.
  destruct a as [i k st e|i j|i j|i j|j i|j|j|j i|j iso].
  - destruct (aget i (c_nodes c)) as [n|] eqn:Ei; [|inversion H; reflexivity].
    destruct (amem k (cn_truth n)); [|inversion H; reflexivity].
    destruct (rstep (cn_ctx n) _) as [ctx'|]; simpl in H; [|discriminate]. inversion H. eapply keys_set_node; eassumption.
  - destruct (aget i (c_nodes c)) as [ni|] eqn:Ei; [|inversion H; reflexivity].
    destruct (aget j (c_nodes c)) as [nj|] eqn:Ej; [|inversion H; reflexivity].
    destruct (out_queue ni j) as [|m rest]; [inversion H; reflexivity|].
    assert (K1 : forall n', akeys (c_nodes (set_node c i n')) = akeys (c_nodes c)).
    { intros n'. apply (akeys_aset_present _ i ni n' Ei). }
    destruct m as [k st e nm| |]; try (inversion H; apply K1).
    destruct (sender_active ni j); [|inversion H; apply K1].
    destruct (rstep (cn_ctx nj) _) as [ctx'|]; simpl in H; [|discriminate]. inversion H.
    cbn [tick_clock c_nodes]. unfold set_node at 1. cbn [c_nodes].
    destruct (aget j (c_nodes (set_node c i (set_out ni (aset j rest (cn_out ni)))))) as [x|] eqn:Ex.
    + rewrite (akeys_aset_present _ j x _ Ex). apply K1.
    + exfalso. rewrite nodes_set in Ex. destruct (Z.eqb j i); [discriminate|congruence].
  - destruct (aget i (c_nodes c)) as [ni|] eqn:Ei; [|inversion H; reflexivity].
    destruct (aget j (c_nodes c)) as [nj|] eqn:Ej; [|inversion H; reflexivity].
    destruct (out_queue ni j) as [|m rest]; inversion H; [reflexivity|]. eapply keys_set_node; eassumption.
  - destruct (aget j (c_nodes c)) as [nj|] eqn:Ej; [|inversion H; reflexivity].
    destruct (rstep (cn_ctx nj) _) as [ctx'|]; simpl in H; [|discriminate]. inversion H. eapply keys_set_node; eassumption.
  - destruct (aget j (c_nodes c)) as [nj|] eqn:Ej; [|inversion H; reflexivity].
    destruct (aget i (c_nodes c)) as [ni|] eqn:Ei; [|inversion H; reflexivity].
    destruct (valid_state (cn_ctx nj) i); inversion H; [|reflexivity]. eapply keys_set_node; eassumption.
  - destruct (aget j (c_nodes c)) as [nj|] eqn:Ej; [|inversion H; reflexivity].
    destruct (cn_ntf nj) as [|[i m] rest]; [inversion H; reflexivity|].
    destruct m as [k st e nm|tbl nm|ok ts].
    + inversion H. eapply keys_set_node; eassumption.
    + destruct (rstep (cn_ctx nj) _) as [ctx'|]; simpl in H; [|discriminate]. inversion H. eapply keys_set_node; eassumption.
    + destruct (rstep (cn_ctx nj) _) as [ctx'|]; simpl in H; [|discriminate]. inversion H. eapply keys_set_node; eassumption.
  - destruct (aget j (c_nodes c)) as [nj|] eqn:Ej; [|inversion H; reflexivity].
    destruct (rstep (cn_ctx nj) _) as [ctx'|]; simpl in H; [|discriminate]. inversion H. eapply keys_set_node; eassumption.
  - destruct (aget j (c_nodes c)) as [nj|] eqn:Ej; [|inversion H; reflexivity].
    destruct (rstep (cn_ctx nj) _) as [ctx'|]; simpl in H; [|discriminate]. inversion H. eapply keys_set_node; eassumption.
  - destruct (aget j (c_nodes c)) as [nj|] eqn:Ej; [|inversion H; reflexivity].
    destruct (rstep (cn_ctx nj) _) as [ctx'|]; simpl in H; [|discriminate]. inversion H. eapply keys_set_node; eassumption.
Qed.

Lemma crun_keys : forall tr c c', crun c tr = Ok c' -> akeys (c_nodes c') = akeys (c_nodes c).
Proof.
  induction tr as [|a r IH]; intros c c' H; simpl in H.
  - inversion H. reflexivity.
  - destruct (cstep c a) as [c1|] eqn:E; simpl in H; [|discriminate].
    rewrite (IH c1 c' H). apply (cstep_keys c a c1 E).
Qed.

Lemma cinit_keys : forall truths, akeys (c_nodes (cinit truths)) = akeys truths.
Proof. intros truths. unfold cinit, akeys. cbn [c_nodes]. rewrite map_map. reflexivity. Qed.

Lemma quiescent_out : forall c i ni j, In (i, ni) (c_nodes c) -> quiescent c = true -> out_queue ni j = [].
Proof.
  intros c i ni j Hin Hq. unfold quiescent in Hq. rewrite forallb_forall in Hq.
  specialize (Hq (i, ni) Hin). cbn [snd] in Hq.
  apply andb_true_iff in Hq. destruct Hq as [Hq _]. apply andb_true_iff in Hq. destruct Hq as [Hq _].
  rewrite forallb_forall in Hq. unfold out_queue. destruct (aget j (cn_out ni)) as [q|] eqn:E; [|reflexivity].
  specialize (Hq (j, q) (aget_In _ _ _ E)). cbn [snd] in Hq. destruct q; [reflexivity|discriminate].
Qed.

(* Spec_C12 as evaluated by the check (the boolean functions of the model), at every quiescent point of a clean
   schedule: every view of a RUNNING instance is true, and so is every running set. *)
Theorem agreement_at_quiescence : forall truths tr c,
  NoDup (akeys truths) -> (forall i t, aget i truths = Some t -> NoDup (akeys t)) ->
  clean (cinit truths) tr = true -> crun (cinit truths) tr = Ok c ->
  quiescent c = true -> view_true c = true /\ running_true c = true.
Proof.
  intros truths tr c Hnd Ht Hc Hr Hq.
  assert (Hk : NoDup (akeys (c_nodes c))) by (rewrite (crun_keys tr _ c Hr), cinit_keys; exact Hnd).
  destruct (cinit_inv truths Ht) as [W0 P0].
  destruct (clean_inv tr _ c W0 P0 Hc Hr) as [W _].
  split.
  - unfold view_true. apply forallb_forall. intros [j nj] Hin. cbn [fst snd].
    assert (Ej : aget j (c_nodes c) = Some nj) by (apply In_aget; assumption).
    unfold view_true_at. apply forallb_forall. intros [i sc] _. cbn [fst].
    destruct (adm (cn_ctx nj) i) as [[]|] eqn:Ea; try reflexivity.
    destruct (aget i (c_nodes c)) as [ni|] eqn:Ei; [|reflexivity].
    apply forallb_forall. intros [k t] Hin3. cbn [fst snd].
    assert (Ek : aget k (cn_truth ni) = Some t) by (apply In_aget; [apply (nw_truth _ _ _ (W i ni Ei))|exact Hin3]).
    rewrite (agreement_partial truths tr c Ht Hc Hr j i nj ni Ej Ei Ea
               (quiescent_out c i ni j (aget_In _ _ _ Ei) Hq) k t Ek).
    apply otinfo_eqb_eq. reflexivity.
  - unfold running_true. apply forallb_forall. intros [j nj] Hin. cbn [snd].
    assert (Ej : aget j (c_nodes c) = Some nj) by (apply In_aget; assumption).
    unfold running_true_at. apply forallb_forall. intros [i sc] _. cbn [fst].
    destruct (adm (cn_ctx nj) i) as [[]|] eqn:Ea; try reflexivity.
    destruct (aget i (c_nodes c)) as [ni|] eqn:Ei; [|reflexivity].
    apply forallb_forall. intros [k [st e]] Hin3. cbn [fst snd].
    assert (Ek : aget k (cn_truth ni) = Some (st, e)) by (apply In_aget; [apply (nw_truth _ _ _ (W i ni Ei))|exact Hin3]).
    destruct (running_agreement truths tr c Ht Hc Hr j i nj ni Ej Ei Ea
                (quiescent_out c i ni j (aget_In _ _ _ Ei) Hq) k st e Ek) as [p [Ep [R1 R2]]].
    rewrite Ep. destruct (is_running_like st) eqn:E1; [apply R1; reflexivity|].
    destruct (is_stopped_like st) eqn:E2; [rewrite (R2 eq_refl); reflexivity|reflexivity].
Qed.

(* ====================================================================== *)
(* H. nothing lingers from a lost instance (after fix 04680dd, DESIGN §6 F11) *)
(* ====================================================================== *)
(* "i is not in the running set of this process" *)
Definition nr (i : Z) (kp : Z * proc) : Prop := zmem i (p_running (snd kp)) = false.

Lemma invalidate_subset : forall p j now p' i, invalidate p j now = Ok p' ->
  zmem i (p_running p) = false -> zmem i (p_running p') = false.
Proof.
  intros p j now p' i H Hi. destruct (zmem j (p_running p)) eqn:Hz.
  - destruct (invalidate_inv p j now p' Hz H) as [inf' [_ [_ Hr]]]. rewrite Hr.
    apply zmem_false. intros HI. apply In_zdiscard in HI. destruct HI as [_ HI].
    apply zmem_false in Hi. contradiction.
  - unfold invalidate in H. rewrite Hz in H. inversion H; subst. exact Hi.
Qed.

Lemma invalidate_clears : forall p j now p', invalidate p j now = Ok p' -> zmem j (p_running p') = false.
Proof.
  intros p j now p' H. destruct (zmem j (p_running p)) eqn:Hz.
  - apply (loss_makes_fatal p j now p' Hz H).
  - unfold invalidate in H. rewrite Hz in H. inversion H; subst. exact Hz.
Qed.

Lemma invalidate_proc_running : forall p j now p', invalidate_proc j now p = Ok p' ->
  zmem j (p_running p') = false /\ forall i, zmem i (p_running p) = false -> zmem i (p_running p') = false.
Proof.
  intros p j now p' H. unfold invalidate_proc in H.
  destruct (if is_running (p_state p) && zmem j (p_running p) then invalidate p j now else Ok p) as [p1|] eqn:E1;
    simpl in H; [|discriminate].
  split; [apply (invalidate_clears p1 j now p' H)|].
  intros i Hi. apply (invalidate_subset p1 j now p' i H).
  destruct (is_running (p_state p) && zmem j (p_running p)).
  - apply (invalidate_subset p j now p1 i E1 Hi).
  - inversion E1; subst. exact Hi.
Qed.

Lemma map_procs_rel : forall f ps ps', map_procs f ps = Ok ps' ->
  Forall2 (fun kp kp' => fst kp = fst kp' /\ f (snd kp) = Ok (snd kp')) ps ps'.
Proof.
  intros f. induction ps as [|[k p] r IH]; intros ps' H; simpl in H.
  - inversion H. constructor.
  - destruct (f p) as [p'|] eqn:E; simpl in H; [|discriminate].
    destruct (map_procs f r) as [r'|] eqn:Er; simpl in H; [|discriminate].
    inversion H; subst. constructor; [simpl; auto|apply IH; reflexivity].
Qed.

Lemma Forall2_transfer : forall {A B} (Rel : A -> B -> Prop) (P : A -> Prop) (Q : B -> Prop) l l',
  Forall2 Rel l l' -> (forall a b, Rel a b -> P a -> Q b) -> Forall P l -> Forall Q l'.
Proof.
  intros A B Rel P Q l l' H Hpq. induction H as [|a b l l' Hab Hr IH]; intros Hall; [constructor|].
  inversion Hall; subst. constructor; [eapply Hpq; eassumption|apply IH; assumption].
Qed.

Lemma Forall2_all : forall {A B} (Rel : A -> B -> Prop) (Q : B -> Prop) l l',
  Forall2 Rel l l' -> (forall a b, Rel a b -> Q b) -> Forall Q l'.
Proof.
  intros A B Rel Q l l' H Hq. induction H as [|a b l l' Hab Hr IH]; constructor; [eapply Hq; eassumption|exact IH].
Qed.

Lemma invalidate_failed_ids_running : forall ids c iso now c',
  invalidate_failed_ids c ids iso now = Ok c' ->
  (forall i, Forall (nr i) (r_procs c) -> Forall (nr i) (r_procs c'))
  /\ (forall i, In i ids -> failed_b c i = true -> Forall (nr i) (r_procs c')).
Proof.
  induction ids as [|j r IH]; intros c iso now c' H; simpl in H.
  - inversion H; subst. split; [auto|intros i []].
  - assert (Hskip : failed_b c j = false -> invalidate_failed_ids c r iso now = Ok c' ->
        (forall i, Forall (nr i) (r_procs c) -> Forall (nr i) (r_procs c'))
        /\ (forall i, In i (j :: r) -> failed_b c i = true -> Forall (nr i) (r_procs c'))).
    { intros Hf H'. destruct (IH c iso now c' H') as [I1 I2]. split; [exact I1|].
      intros i [->|Hi] Hfi; [congruence|apply I2; assumption]. }
    destruct (adm c j) as [s|] eqn:Ea; [|apply Hskip; [unfold failed_b; rewrite Ea; reflexivity|exact H]].
    destruct s; try (apply Hskip; [unfold failed_b; rewrite Ea; reflexivity|exact H]). clear Hskip.
    destruct (set_adm c j _ now) as [c1|] eqn:E1; simpl in H; [|discriminate].
    destruct (map_procs (invalidate_proc j now) (r_procs c1)) as [ps|] eqn:Em; simpl in H; [|discriminate].
    assert (Hp1 : r_procs c1 = r_procs c).
    { unfold set_adm in E1. destruct (aget j (r_adm c)) as [[s ct]|]; [|discriminate].
      destruct (Node.istate_eqb s _); [inversion E1; reflexivity|].
      destruct (Node.inst_transition_ok s _); [inversion E1; reflexivity|discriminate]. }
    pose proof (map_procs_rel _ _ _ Em) as Hrel. rewrite Hp1 in Hrel.
    assert (Hmono : forall i, Forall (nr i) (r_procs c) -> Forall (nr i) ps).
    { intros i Hall. apply (Forall2_transfer _ (nr i) (nr i) _ _ Hrel); [|exact Hall].
      intros a b [_ Hf] Ha. unfold nr in *. apply (proj2 (invalidate_proc_running _ _ _ _ Hf)). exact Ha. }
    assert (Hclear : Forall (nr j) ps).
    { apply (Forall2_all _ (nr j) _ _ Hrel). intros a b [_ Hf]. unfold nr.
      apply (proj1 (invalidate_proc_running _ _ _ _ Hf)). }
    destruct (IH (set_procs c1 ps) iso now c' H) as [I1 I2]. cbn [set_procs r_procs] in I1.
    split.
    + intros i Hall. apply I1. apply Hmono. exact Hall.
    + intros i [->|Hi] Hfi.
      * apply I1. exact Hclear.
      * destruct (Z.eq_dec i j) as [->|Nij]; [apply I1; exact Hclear|].
        apply I2; [exact Hi|].
        unfold failed_b in *. unfold adm in *. cbn [set_procs r_adm].
        unfold set_adm in E1. destruct (aget j (r_adm c)) as [[s ct]|] eqn:Eg; [|discriminate].
        destruct (Node.istate_eqb s _); [inversion E1; subst; exact Hfi|].
        destruct (Node.inst_transition_ok s _); [|discriminate]. inversion E1; subst.
        cbn [set_adms r_adm]. rewrite aget_aset_other by exact Nij. exact Hfi.
Qed.

(* After Context.invalidate_failed no process lists a lost instance any more — whatever its state there was
   (RUNNING-like or STOPPING) — and the invalidation never adds anybody to a running set. *)
Theorem invalidate_clears_lost : forall c iso now c', rstep c (InvalidateFailed iso now) = Ok c' ->
  forall i, failed_b c i = true -> forall k p, aget k (r_procs c') = Some p -> zmem i (p_running p) = false.
Proof.
  intros c iso now c' H i Hf k p Ep. simpl in H.
  destruct (invalidate_failed_ids_running _ c iso now c' H) as [_ I2].
  assert (Hin : In i (akeys (r_adm c))).
  { unfold failed_b in Hf. destruct (adm c i) as [s|] eqn:Ea; [|discriminate].
    apply zmem_In. apply (adm_in_keys c i s Ea). }
  pose proof (I2 i Hin Hf) as HF. rewrite Forall_forall in HF. apply (HF (k, p)). apply aget_In. exact Ep.
Qed.

(* ---- the receiver invariant: an instance seen STOPPED (other than the local one) is in no running set ---- *)
Definition nores (c : rctx) : Prop :=
  forall i, i <> r_me c -> adm c i = Some ISTOPPED -> Forall (nr i) (r_procs c).

Definition not_added (o : rop) : bool := match o with Added _ _ _ _ => false | _ => true end.

Lemma step_running_frame : forall p sp o p' i, R p sp -> wf_op sp o = true -> step p o = Ok p' ->
  aget i (sp_infos (spec_step sp o)) = aget i (sp_infos sp) ->
  zmem i (p_running p') = zmem i (p_running p).
Proof.
  intros p sp o p' i HR Hwf E Hg.
  destruct (step_refines p sp o HR Hwf) as [p'' [E' HR']]. rewrite E in E'. inversion E'; subst p''.
  destruct HR as [HR _]. destruct HR' as [HR' _].
  pose proof (rc_run _ _ _ HR i) as A. pose proof (rc_run _ _ _ HR' i) as B.
  unfold listed_in in *. rewrite Hg in B.
  destruct (zmem i (p_running p')); destruct (zmem i (p_running p)); try reflexivity.
  - symmetry. apply A. apply B. reflexivity.
  - apply B. apply A. reflexivity.
Qed.

Lemma add_info_running_frame : forall p j st e nm d now p' i, wfp p -> add_info p j st e nm d now = Ok p' ->
  i <> j -> zmem i (p_running p') = zmem i (p_running p).
Proof.
  intros p j st e nm d now p' i [sp HR] E Hij.
  apply (step_running_frame p sp (AddInfo j st e nm d now) p' i HR eq_refl E).
  simpl. unfold spec_report. cbn [sp_infos]. apply aget_aset_other. exact Hij.
Qed.

Lemma update_info_running_frame : forall p j st e nm now p' i, wfp p -> amem j (p_infos p) = true ->
  update_info p j st e nm now true = Ok p' -> i <> j -> zmem i (p_running p') = zmem i (p_running p).
Proof.
  intros p j st e nm now p' i [sp HR] Hm E Hij.
  apply (step_running_frame p sp (UpdateInfo j st e nm now) p' i HR); [|exact E|].
  - simpl. rewrite (amem_R p sp j HR). exact Hm.
  - simpl. unfold spec_report. cbn [sp_infos]. apply aget_aset_other. exact Hij.
Qed.

Lemma remove_running_frame : forall p j p' i, wfp p -> amem j (p_infos p) = true ->
  remove_identifier p j = Ok p' -> i <> j -> zmem i (p_running p') = zmem i (p_running p).
Proof.
  intros p j p' i [sp HR] Hm E Hij.
  apply (step_running_frame p sp (Remove j) p' i HR); [|exact E|].
  - simpl. rewrite (amem_R p sp j HR). exact Hm.
  - simpl. rewrite aget_adel by (eapply Rcore_skeys; apply HR). destruct (Z.eqb_spec i j); [contradiction|reflexivity].
Qed.

Lemma load_infos_running : forall infos ps j nm now ps' i, Fwfp ps -> load_infos ps j infos nm now = Ok ps' ->
  i <> j -> Forall (nr i) ps -> Forall (nr i) ps'.
Proof.
  induction infos as [|[[[k0 st] e] d] r IH]; intros ps j nm now ps' i H E Hij Hall; simpl in E.
  - inversion E; subst. exact Hall.
  - set (p := match aget k0 ps with Some p => p | None => proc_init end) in *.
    assert (Hp : wfp p).
    { unfold p. destruct (aget k0 ps) as [p0|] eqn:Eg; [eapply Fwfp_aget; eassumption|exact wfp_init]. }
    assert (Hnp : zmem i (p_running p) = false).
    { unfold p. destruct (aget k0 ps) as [p0|] eqn:Eg; [|reflexivity].
      rewrite Forall_forall in Hall. apply (Hall (k0, p0)). apply aget_In. exact Eg. }
    destruct (add_info p j st e nm d now) as [p'|] eqn:Ea; simpl in E; [|discriminate].
    destruct (wfp_add_info p j st e nm d now Hp) as [p2 [Ea2 [Wp' _]]]. rewrite Ea in Ea2. inversion Ea2; subst p2.
    apply (IH (aset k0 p' ps) j nm now ps' i); auto.
    + apply Fwfp_aset; assumption.
    + apply (Forall_aset (fun q => zmem i (p_running q) = false)); [exact Hall|].
      rewrite (add_info_running_frame p j st e nm d now p' i Hp Ea Hij). exact Hnp.
Qed.

Lemma Forall_nr_aset : forall i ps k p, Forall (nr i) ps -> zmem i (p_running p) = false -> Forall (nr i) (aset k p ps).
Proof. intros i ps k p H Hp. apply (Forall_aset (fun q => zmem i (p_running q) = false)); assumption. Qed.

Lemma nr_aget : forall i ps k p, Forall (nr i) ps -> aget k ps = Some p -> zmem i (p_running p) = false.
Proof. intros i ps k p H E. rewrite Forall_forall in H. apply (H (k, p)). apply aget_In. exact E. Qed.

Lemma set_adm_procs : forall c j st now c', set_adm c j st now = Ok c' -> r_procs c' = r_procs c /\ r_me c' = r_me c.
Proof.
  intros c j st now c' H. unfold set_adm in H. destruct (aget j (r_adm c)) as [[s ct]|]; [|discriminate].
  destruct (Node.istate_eqb s st); [inversion H; auto|].
  destruct (Node.inst_transition_ok s st); [inversion H; auto|discriminate].
Qed.

Lemma rstep_nores : forall c o c', rwf c -> nores c -> not_added o = true -> rstep c o = Ok c' ->
  nores c' /\ r_me c' = r_me c.
Proof.
  intros c o c' W N Hna H.
  destruct o as [j infos nm now|j inf nm now|j k st e nm now|j k tg st et now|j k|j k b|j rmt now
                |j ok ts now|j now|iso now|now]; try discriminate.
  - (* LoadAll *)
    unfold rstep in H. destruct (valid_state c j) as [s|] eqn:Ev; [|inversion H; subst; auto].
    destruct s; try (inversion H; subst; auto; fail).
    destruct (load_infos (r_procs c) j infos nm now) as [ps|] eqn:El; simpl in H; [|discriminate].
    inversion H; subst c'. split; [|reflexivity].
    intros i Hi Ha. cbn [set_procs r_procs r_adm adm] in *.
    assert (Hij : i <> j).
    { intros ->. destruct (valid_state_some _ _ _ Ev) as [Ea _]. unfold adm in Ea, Ha. cbn [set_procs r_adm] in Ha.
      rewrite Ea in Ha. discriminate. }
    apply (load_infos_running infos (r_procs c) j nm now ps i W El Hij). apply N; assumption.
  - (* ProcEvent *)
    unfold rstep in H. destruct (valid_state c j) as [s|] eqn:Ev; [|inversion H; subst; auto].
    destruct (admitted s) eqn:Es; [|inversion H; subst; auto].
    destruct (aget k (r_procs c)) as [p|] eqn:Ek; [|inversion H; subst; auto].
    destruct (amem j (p_infos p)) eqn:Em; [|inversion H; subst; auto].
    destruct (update_info p j st e nm now true) as [p'|] eqn:Eu; simpl in H; [|discriminate].
    inversion H; subst c'. split; [|reflexivity].
    intros i Hi Ha. cbn [set_procs r_procs] in *.
    assert (Hij : i <> j).
    { intros ->. destruct (valid_state_some _ _ _ Ev) as [Ea _]. unfold adm in Ea, Ha. cbn [set_procs r_adm] in Ha.
      rewrite Ea in Ha. inversion Ha; subst s. discriminate. }
    pose proof (N i Hi Ha) as Hall. apply Forall_nr_aset; [exact Hall|].
    rewrite (update_info_running_frame p j st e nm now p' i (Fwfp_aget _ _ _ W Ek) Em Eu Hij).
    apply (nr_aget i _ k p Hall Ek).
  - (* ForcedEvent *)
    unfold rstep in H. destruct (valid_state c j) as [s|]; [|inversion H; subst; auto].
    destruct (admitted s); [|inversion H; subst; auto].
    destruct (aget k (r_procs c)) as [p|] eqn:Ek; [|inversion H; subst; auto].
    inversion H; subst c'. split; [|reflexivity].
    intros i Hi Ha. cbn [set_procs r_procs] in *. pose proof (N i Hi Ha) as Hall.
    apply Forall_nr_aset; [exact Hall|].
    destruct (force_frame p tg st et) as [_ [Hr _]]. rewrite Hr. apply (nr_aget i _ k p Hall Ek).
  - (* Removed *)
    unfold rstep in H. destruct (valid_state c j) as [s|] eqn:Ev; [|inversion H; subst; auto].
    destruct (admitted s) eqn:Es; [|inversion H; subst; auto].
    destruct (aget k (r_procs c)) as [p|] eqn:Ek; [|inversion H; subst; auto].
    destruct (amem j (p_infos p)) eqn:Em; [|inversion H; subst; auto].
    destruct (remove_identifier p j) as [p'|] eqn:Er; simpl in H; [|discriminate].
    inversion H; subst c'. split; [|reflexivity].
    intros i Hi Ha. cbn [set_procs r_procs] in *.
    assert (Hij : i <> j).
    { intros ->. destruct (valid_state_some _ _ _ Ev) as [Ea _]. unfold adm in Ea, Ha. cbn [set_procs r_adm] in Ha.
      rewrite Ea in Ha. inversion Ha; subst s. discriminate. }
    pose proof (N i Hi Ha) as Hall.
    destruct (p_infos p'); [apply Forall_adel; exact Hall|].
    apply Forall_nr_aset; [exact Hall|].
    rewrite (remove_running_frame p j p' i (Fwfp_aget _ _ _ W Ek) Em Er Hij). apply (nr_aget i _ k p Hall Ek).
  - (* Disability *)
    unfold rstep in H. destruct (valid_state c j) as [s|]; [|inversion H; subst; auto].
    destruct (admitted s); [|inversion H; subst; auto].
    destruct (aget k (r_procs c)) as [p|] eqn:Ek; [|inversion H; subst; auto].
    destruct (amem j (p_infos p)); [|inversion H; subst; auto].
    destruct (step p (Disable j b)) as [p'|] eqn:Ed; simpl in H; [|discriminate].
    inversion H; subst c'. split; [|reflexivity].
    intros i Hi Ha. cbn [set_procs r_procs] in *. pose proof (N i Hi Ha) as Hall.
    apply Forall_nr_aset; [exact Hall|].
    assert (Hr : p_running p' = p_running p) by (simpl in Ed; destruct (aget j (p_infos p)); inversion Ed; reflexivity).
    rewrite Hr. apply (nr_aget i _ k p Hall Ek).
  - (* Tick *)
    destruct (rstep_tick c j rmt now W) as [c2 [E [_ [Hme [_ [Ha _]]]]]]. rewrite H in E. inversion E; subst c2.
    split; [|exact Hme]. intros i Hi Hai. rewrite Hme in Hi.
    assert (Hold : adm c i = Some ISTOPPED).
    { rewrite Ha in Hai. destruct (tick_starts c j && Z.eqb i j); [discriminate|exact Hai]. }
    pose proof (N i Hi Hold) as Hall.
    (* update_times never touches the running sets *)
    unfold rstep in H. destruct (valid_state c j) as [s|]; [|inversion H; subst; exact Hall].
    destruct (Z.eqb j (r_me c) || _); [|inversion H; subst; exact Hall].
    destruct (map_procs (tick_times j rmt) (r_procs c)) as [ps|] eqn:Em; simpl in H; [|discriminate].
    assert (Hps : Forall (nr i) ps).
    { apply (Forall2_transfer _ (nr i) (nr i) _ _ (map_procs_rel _ _ _ Em)); [|exact Hall].
      intros a b [_ Hf] Hnr. unfold nr in *. unfold tick_times in Hf. simpl in Hf.
      assert (Hr : p_running (snd b) = p_running (snd a)) by (destruct (aget j (p_infos (snd a))); inversion Hf; reflexivity).
      rewrite Hr. exact Hnr. }
    destruct (Node.istate_eqb s ISTOPPED).
    + destruct (set_adm_procs _ _ _ _ _ H) as [Hp _]. rewrite Hp. exact Hps.
    + inversion H; subst. exact Hps.
  - (* Auth *)
    destruct (rstep_auth c j ok ts now) as [c2 [E [Hp [Hme [Ha _]]]]]. rewrite H in E. inversion E; subst c2.
    split; [|exact Hme]. intros i Hi Hai. rewrite Hme in Hi. rewrite Hp. apply N; [exact Hi|].
    rewrite Ha in Hai. destruct (auth_accepted c j ts && Z.eqb i j) eqn:Eacc; [|exact Hai].
    exfalso. apply andb_true_iff in Eacc. destruct Eacc as [_ Eij]. apply Z.eqb_eq in Eij. subst i.
    unfold auth_target in Hai. destruct ok; [discriminate|].
    destruct (Z.eqb_spec j (r_me c)); [contradiction|discriminate].
  - (* Failure *)
    destruct (rstep_failure c j now) as [c2 [E [Hp [Hme [Ha _]]]]]. rewrite H in E. inversion E; subst c2.
    split; [|exact Hme]. intros i Hi Hai. rewrite Hme in Hi. rewrite Hp. apply N; [exact Hi|].
    rewrite Ha in Hai. destruct (is_active c j && Z.eqb i j); [discriminate|exact Hai].
  - (* InvalidateFailed *)
    destruct (rstep_invalidate_failed c iso now W) as [c2 [E [_ [Hme [Ha _]]]]]. rewrite H in E. inversion E; subst c2.
    split; [|exact Hme]. intros i Hi Hai. rewrite Hme in Hi. simpl in H.
    destruct (invalidate_failed_ids_running _ c iso now c' H) as [I1 I2].
    rewrite Ha in Hai. destruct (failed_b c i) eqn:Ef.
    + apply I2; [|exact Ef]. unfold failed_b in Ef. destruct (adm c i) as [s|] eqn:Ea; [|discriminate].
      apply zmem_In. apply (adm_in_keys c i s Ea).
    + apply I1. apply N; assumption.
  - (* Activate *)
    destruct (rstep_activate c now) as [c2 [E [Hp [Hme [Ha _]]]]]. rewrite H in E. inversion E; subst c2.
    split; [|exact Hme]. intros i Hi Hai. rewrite Hme in Hi. rewrite Hp. apply N; [exact Hi|].
    rewrite Ha in Hai. destruct (checked_b c i); [discriminate|exact Hai].
Qed.

(* ---- lifting a receiver invariant to every schedule of the cluster ---- *)
Definition ctx_rel (nj nj' : cnode) : Prop :=
  cn_ctx nj' = cn_ctx nj \/ exists o, not_added o = true /\ rstep (cn_ctx nj) o = Ok (cn_ctx nj').

Lemma ctx_rel_refl : forall n, ctx_rel n n.
Proof. intros n. left. reflexivity. Qed.

Lemma set1_ctx : forall c x nx nx' j nj', aget x (c_nodes c) = Some nx -> ctx_rel nx nx' ->
  aget j (c_nodes (set_node c x nx')) = Some nj' -> exists nj, aget j (c_nodes c) = Some nj /\ ctx_rel nj nj'.
Proof.
  intros c x nx nx' j nj' Hx Hr Hj. rewrite nodes_set in Hj. destruct (Z.eqb_spec j x) as [->|N].
  - inversion Hj; subst. eauto.
  - exists nj'. split; [exact Hj|apply ctx_rel_refl].
Qed.

Lemma cstep_ctx : forall c a c' j nj', cstep c a = Ok c' -> aget j (c_nodes c') = Some nj' ->
  exists nj, aget j (c_nodes c) = Some nj /\ ctx_rel nj nj'.
Proof.
  intros c a c' j nj' H Hj. unfold cstep in H. cbv zeta in H.
  assert (Hsame : c_nodes c' = c_nodes c -> exists nj, aget j (c_nodes c) = Some nj /\ ctx_rel nj nj').
  { intros E. rewrite E in Hj. exists nj'. split; [exact Hj|apply ctx_rel_refl]. }
  destruct a as [i k st e|i j0|i j0|i j0|j0 i|j0|j0|j0 i|j0 iso].
  - destruct (aget i (c_nodes c)) as [n|] eqn:Ei; [|inversion H; subst; apply Hsame; reflexivity].
    destruct (amem k (cn_truth n)); [|inversion H; subst; apply Hsame; reflexivity].
    destruct (rstep (cn_ctx n) _) as [ctx'|] eqn:Er; simpl in H; [|discriminate]. inversion H; subst c'.
    cbn [tick_clock c_nodes] in Hj. refine (set1_ctx c i n _ j nj' Ei _ Hj).
    right. eexists. split; [|exact Er]. reflexivity.
  - destruct (aget i (c_nodes c)) as [ni|] eqn:Ei; [|inversion H; subst; apply Hsame; reflexivity].
    destruct (aget j0 (c_nodes c)) as [nj0|] eqn:Ej0; [|inversion H; subst; apply Hsame; reflexivity].
    destruct (out_queue ni j0) as [|m rest]; [inversion H; subst; apply Hsame; reflexivity|].
    set (ni' := set_out ni (aset j0 rest (cn_out ni))) in *.
    assert (K1 : aget j (c_nodes (set_node c i ni')) = Some nj' -> exists nj, aget j (c_nodes c) = Some nj /\ ctx_rel nj nj').
    { apply (set1_ctx c i ni ni' j nj' Ei). left. reflexivity. }
    destruct m as [k st e nm| |]; try (inversion H; subst c'; apply K1; exact Hj).
    destruct (sender_active ni j0); [|inversion H; subst c'; apply K1; exact Hj].
    destruct (rstep (cn_ctx nj0) _) as [ctx'|] eqn:Er; simpl in H; [|discriminate]. inversion H; subst c'.
    cbn [tick_clock c_nodes] in Hj. rewrite nodes_set in Hj. destruct (Z.eqb_spec j j0) as [->|N].
    + inversion Hj; subst nj'. exists nj0. split; [exact Ej0|]. right. eexists. split; [|exact Er]. reflexivity.
    + apply K1. exact Hj.
  - destruct (aget i (c_nodes c)) as [ni|] eqn:Ei; [|inversion H; subst; apply Hsame; reflexivity].
    destruct (aget j0 (c_nodes c)) as [nj0|]; [|inversion H; subst; apply Hsame; reflexivity].
    destruct (out_queue ni j0) as [|m rest]; inversion H; subst c'; [apply Hsame; reflexivity|].
    cbn [tick_clock c_nodes] in Hj. refine (set1_ctx c i ni _ j nj' Ei _ Hj). left; reflexivity.
  - destruct (aget j0 (c_nodes c)) as [n|] eqn:En; [|inversion H; subst; apply Hsame; reflexivity].
    destruct (rstep (cn_ctx n) _) as [ctx'|] eqn:Er; simpl in H; [|discriminate]. inversion H; subst c'.
    cbn [tick_clock c_nodes] in Hj. refine (set1_ctx c j0 n _ j nj' En _ Hj).
    right. eexists. split; [|exact Er]. reflexivity.
  - destruct (aget j0 (c_nodes c)) as [n|] eqn:En; [|inversion H; subst; apply Hsame; reflexivity].
    destruct (aget i (c_nodes c)) as [ni|]; [|inversion H; subst; apply Hsame; reflexivity].
    destruct (valid_state (cn_ctx n) i); inversion H; subst c'; [|apply Hsame; reflexivity].
    cbn [tick_clock c_nodes] in Hj. refine (set1_ctx c j0 n _ j nj' En _ Hj). left; reflexivity.
  - destruct (aget j0 (c_nodes c)) as [n|] eqn:En; [|inversion H; subst; apply Hsame; reflexivity].
    destruct (cn_ntf n) as [|[i m] rest]; [inversion H; subst; apply Hsame; reflexivity|].
    destruct m as [k st e nm|tbl nm|ok ts].
    + inversion H; subst c'. cbn [tick_clock c_nodes] in Hj.
      refine (set1_ctx c j0 n _ j nj' En _ Hj). left; reflexivity.
    + destruct (rstep (cn_ctx n) _) as [ctx'|] eqn:Er; simpl in H; [|discriminate]. inversion H; subst c'.
      cbn [tick_clock c_nodes] in Hj. refine (set1_ctx c j0 n _ j nj' En _ Hj).
      right. eexists. split; [|exact Er]. reflexivity.
    + destruct (rstep (cn_ctx n) _) as [ctx'|] eqn:Er; simpl in H; [|discriminate]. inversion H; subst c'.
      cbn [tick_clock c_nodes] in Hj. refine (set1_ctx c j0 n _ j nj' En _ Hj).
      right. eexists. split; [|exact Er]. reflexivity.
  - destruct (aget j0 (c_nodes c)) as [n|] eqn:En; [|inversion H; subst; apply Hsame; reflexivity].
    destruct (rstep (cn_ctx n) _) as [ctx'|] eqn:Er; simpl in H; [|discriminate]. inversion H; subst c'.
    cbn [tick_clock c_nodes] in Hj. refine (set1_ctx c j0 n _ j nj' En _ Hj).
    right. eexists. split; [|exact Er]. reflexivity.
  - destruct (aget j0 (c_nodes c)) as [n|] eqn:En; [|inversion H; subst; apply Hsame; reflexivity].
    destruct (rstep (cn_ctx n) _) as [ctx'|] eqn:Er; simpl in H; [|discriminate]. inversion H; subst c'.
    cbn [tick_clock c_nodes] in Hj. refine (set1_ctx c j0 n _ j nj' En _ Hj).
    right. eexists. split; [|exact Er]. reflexivity.
  - destruct (aget j0 (c_nodes c)) as [n|] eqn:En; [|inversion H; subst; apply Hsame; reflexivity].
    destruct (rstep (cn_ctx n) _) as [ctx'|] eqn:Er; simpl in H; [|discriminate]. inversion H; subst c'.
    cbn [tick_clock c_nodes] in Hj. refine (set1_ctx c j0 n _ j nj' En _ Hj).
    right. eexists. split; [|exact Er]. reflexivity.
Qed.

Lemma crun_ctx_inv : forall (I : Z -> rctx -> Prop),
  (forall j c o c', I j c -> not_added o = true -> rstep c o = Ok c' -> I j c') ->
  forall tr c c', (forall j nj, aget j (c_nodes c) = Some nj -> I j (cn_ctx nj)) -> crun c tr = Ok c' ->
  forall j nj, aget j (c_nodes c') = Some nj -> I j (cn_ctx nj).
Proof.
  intros I Hstep. induction tr as [|a r IH]; intros c c' H0 Hr j nj Hj; simpl in Hr.
  - inversion Hr; subst. apply H0. exact Hj.
  - destruct (cstep c a) as [c1|] eqn:E; simpl in Hr; [|discriminate].
    apply (IH c1 c'); [|exact Hr|exact Hj].
    intros j1 nj1 Hj1. destruct (cstep_ctx c a c1 j1 nj1 E Hj1) as [n0 [E0 [Hs|[o [Hna Ho]]]]].
    + rewrite Hs. apply H0. exact E0.
    + apply (Hstep j1 (cn_ctx n0) o _ (H0 j1 n0 E0) Hna Ho).
Qed.

(* For EVERY schedule (clean or not), at every point: an instance that j sees STOPPED is in no running set of
   j's Context. With running_agreement this gives the "exactly" half of the property for STOPPED instances.
   What remains open: an instance that became ISOLATED through a refused AUTHORIZATION after a stale ALL_INFO was
   loaded in the same CHECKING period (Context.on_authorization isolates without invalidating processes);
   CHECKING / CHECKED / FAILED are transient (handshake or loss in progress, excluded by quiescence). *)
Theorem no_residue_stopped : forall truths tr c, crun (cinit truths) tr = Ok c ->
  forall j i nj, aget j (c_nodes c) = Some nj -> i <> j -> adm (cn_ctx nj) i = Some ISTOPPED ->
    forall k p, aget k (r_procs (cn_ctx nj)) = Some p -> zmem i (p_running p) = false.
Proof.
  intros truths tr c Hr j i nj Ej Hij Ha k p Ep.
  assert (HI : rwf (cn_ctx nj) /\ r_me (cn_ctx nj) = j /\ nores (cn_ctx nj)).
  { apply (crun_ctx_inv (fun j c => rwf c /\ r_me c = j /\ nores c)) with (tr := tr) (c := cinit truths) (c' := c); auto.
    - intros j1 c1 o c1' [W [Hme N]] Hna Ho. destruct (rstep_total c1 o W) as [c2 [E2 W2]].
      rewrite Ho in E2. inversion E2; subst c2. destruct (rstep_nores c1 o c1' W N Hna Ho) as [N' Hme'].
      split; [exact W2|]. split; [rewrite Hme'; exact Hme|exact N'].
    - intros j1 nj1 Hj1. destruct (cinit_node truths j1 nj1 Hj1) as [t [_ ->]].
      split; [apply rinit_rwf|]. split; [reflexivity|]. intros i1 _ _. constructor. }
  destruct HI as [_ [Hme N]]. rewrite <- Hme in Hij.
  apply (nr_aget i _ k p (N i Hij Ha) Ep).
Qed.

(* the schedule that used to leave a residue (a process STOPPING on an instance that is then lost) *)
Definition w_residue : list action :=
  handshake_self 1 ++ handshake_self 2 ++ handshake 2 1 ++ handshake 1 2 ++
  [ LocalChange 2 7 STOPPING true; Deliver 2 1; Fail 1 2; InvalidateAt 1 false ].

Example lost_stopping_cleared :
  clean (cinit w_truths) w_residue = true
  /\ (let c := final_of w_truths w_residue in
      quiescent c = true /\ sees c 1 2 = Some ISTOPPED /\ running_at c 1 7 = []
      /\ view_of c 1 7 2 = Some (FATAL, false)).
Proof. vm_compute. repeat split; reflexivity. Qed.

(* ---------- "whether a process is stopped or running is agreed" (forward direction) ---------- *)
Lemma most_advanced_running : forall l st, In st l -> is_running_like st = true ->
  is_running_like (most_advanced l) = true.
Proof.
  intros l st Hin Hr. unfold most_advanced.
  destruct (existsb (pstate_eqb RUNNING) l) eqn:E1; [reflexivity|].
  destruct (existsb (pstate_eqb BACKOFF) l) eqn:E2; [reflexivity|].
  destruct (existsb (pstate_eqb STARTING) l) eqn:E3; [reflexivity|].
  exfalso. destruct st; simpl in Hr; try discriminate.
  - apply existsb_pstate_In in Hin. congruence.
  - apply existsb_pstate_In in Hin. congruence.
  - apply existsb_pstate_In in Hin. congruence.
Qed.

Lemma wfp_running_status : forall p i st e, wfp p -> pvinfo p i = Some (st, e) -> is_running_like st = true ->
  is_running_like (p_state p) = true.
Proof.
  intros p i st e [sp HR] Hv Hr. rewrite (pvinfo_R p sp i HR) in Hv. unfold svinfo in Hv.
  destruct (aget i (sp_infos sp)) as [si|] eqn:Ei; [|discriminate]. inversion Hv; subst. clear Hv.
  destruct HR as [HR [_ Hst]].
  pose proof (Rcore_skeys _ _ _ HR) as Hsk.
  assert (Hok : listed_ok si).
  { pose proof (rc_listed _ _ _ HR) as HF. rewrite Forall_forall in HF. apply (HF (i, si)). apply aget_In. exact Ei. }
  assert (Hl : s_listed si = true) by (apply Hok; exact Hr).
  assert (Hin : In (i, si) (listedF (sp_infos sp))) by (apply In_listedF; auto).
  unfold state_agrees in Hst. rewrite spec_state_eq in Hst.
  destruct (listedF (sp_infos sp)) as [|kv1 [|kv2 F]] eqn:EF.
  - destruct Hin.
  - destruct (Hst _ _ eq_refl) as [E _]. rewrite E. destruct Hin as [Hin|[]]. subst kv1. exact Hr.
  - destruct (Hst _ _ eq_refl) as [E _]. rewrite E.
    apply (most_advanced_running _ (s_state si)); [|exact Hr].
    apply in_map_iff. exists (i, si). split; [reflexivity|exact Hin].
Qed.

(* if an instance that j sees RUNNING reports process k in a running state, j reports process k as running *)
Theorem running_status_agreement : forall truths tr c,
  (forall i t, aget i truths = Some t -> NoDup (akeys t)) ->
  clean (cinit truths) tr = true -> crun (cinit truths) tr = Ok c ->
  forall j i nj ni, aget j (c_nodes c) = Some nj -> aget i (c_nodes c) = Some ni ->
    adm (cn_ctx nj) i = Some IRUNNING -> out_queue ni j = [] ->
    forall k st e, aget k (cn_truth ni) = Some (st, e) -> is_running_like st = true ->
      exists p, aget k (r_procs (cn_ctx nj)) = Some p /\ is_running_like (p_state p) = true.
Proof.
  intros truths tr c Ht Hc Hr j i nj ni Ej Ei Ha Hq k st e Hk Hrl.
  pose proof (agreement_partial truths tr c Ht Hc Hr j i nj ni Ej Ei Ha Hq k (st, e) Hk) as Hv.
  destruct (cinit_inv truths Ht) as [W0 P0].
  destruct (clean_inv tr _ c W0 P0 Hc Hr) as [W _].
  unfold rvinfo in Hv. destruct (aget k (r_procs (cn_ctx nj))) as [p|] eqn:Ep; [|discriminate].
  exists p. split; [reflexivity|].
  apply (wfp_running_status p i st e); auto.
  apply (Fwfp_aget _ k p (nw_ctx _ _ _ (W j nj Ej)) Ep).
Qed.
