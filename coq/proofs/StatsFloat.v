(* StatsFloat.v — the numeric part of C20, proved with Flocq 4.1.0 (the ONLY file that imports Flocq / Reals).

   cpu_in_range_fixed : with the expression 100.0 * (work / total), finite non-negative non-decreasing
                        counters give a CPU percentage in [0,100] (including when work + idle overflows).
   io_rate_expr_sane  : x / duration / 128 is finite and >= 0 for finite x >= 0 and duration >= 1.

   Axioms reported by Print Assumptions (see props/C20.v): the specifications of the primitive float
   operations of Coq (FloatAxioms: mul_spec, div_spec, add_spec, sub_spec, leb_spec, eqb_spec, ...)
   and the classical axioms of the standard library of real numbers. *)
From Coq Require Import ZArith Reals Psatz Floats.
From Flocq Require Import Core BinarySingleNaN.
From Flocq Require IEEE754.PrimFloat.
From Sup Require Import Stats StatsProofs.

Module FP := Flocq.IEEE754.PrimFloat.

Local Open Scope R_scope.

(* ------------------------------------------------------------------ generic binary floats *)
Section Generic.
Variable prec emax : Z.
Context (prec_gt_0_ : Prec_gt_0 prec).
Context (prec_lt_emax_ : Prec_lt_emax prec emax).

Notation bf := (binary_float prec emax).
Notation fexp := (SpecFloat.fexp prec emax).
Notation rnd := (round radix2 fexp (round_mode mode_NE)).
Notation fmt := (generic_format radix2 fexp).
Notation R := (@B2R prec emax).

Local Instance fexp_ok : Valid_exp fexp := fexp_correct prec emax prec_gt_0_.

Lemma fmt_B2R : forall x : bf, fmt (R x).
Proof. intro x. apply generic_format_B2R. Qed.

Lemma fmt_1 : fmt 1.
Proof. rewrite <- (Bone_correct prec emax prec_gt_0_ prec_lt_emax_). apply fmt_B2R. Qed.

Lemma rnd_between : forall lo hi x, fmt lo -> fmt hi -> lo <= x <= hi -> lo <= rnd x <= hi.
Proof.
  intros lo hi x Hlo Hhi [H1 H2]. split.
  - apply round_ge_generic; auto with typeclass_instances.
  - apply round_le_generic; auto with typeclass_instances.
Qed.

Lemma below_emax : forall (y : bf) x, 0 <= x <= R y -> Rlt_bool (Rabs x) (bpow radix2 emax) = true.
Proof.
  intros y x [H1 H2]. apply Rlt_bool_true. rewrite Rabs_pos_eq by exact H1.
  eapply Rle_lt_trans; [exact H2|]. eapply Rle_lt_trans; [apply Rle_abs|]. apply abs_B2R_lt_emax.
Qed.

(* latest - ref for finite 0 <= ref <= latest: finite, in [0, latest] *)
Lemma Bminus_monotone_counters : forall x y : bf,
  is_finite x = true -> is_finite y = true -> 0 <= R y <= R x ->
  is_finite (Bminus mode_NE x y) = true /\ 0 <= R (Bminus mode_NE x y) <= R x.
Proof.
  intros x y Fx Fy [H0 H1].
  assert (Hr : 0 <= rnd (R x - R y) <= R x).
  { apply rnd_between; [apply generic_format_0 | apply fmt_B2R | lra]. }
  generalize (Bminus_correct prec emax prec_gt_0_ prec_lt_emax_ mode_NE x y Fx Fy).
  rewrite (below_emax x _ Hr). intros [E [F _]]. rewrite E. split; [exact F | exact Hr].
Qed.

(* work + idle for finite non-negative work, idle: either finite and >= work, or an infinity *)
Lemma Bplus_nonneg : forall x y : bf,
  is_finite x = true -> is_finite y = true -> 0 <= R x -> 0 <= R y ->
  (is_finite (Bplus mode_NE x y) = true /\ R x <= R (Bplus mode_NE x y))
  \/ (exists s, Bplus mode_NE x y = B754_infinity s).
Proof.
  intros x y Fx Fy Hx Hy.
  generalize (Bplus_correct prec emax prec_gt_0_ prec_lt_emax_ mode_NE x y Fx Fy).
  destruct (Rlt_bool _ _).
  - intros [E [F _]]. left. split; [exact F|]. rewrite E.
    apply round_ge_generic; auto with typeclass_instances; [apply fmt_B2R | lra].
  - intros [E _]. right. unfold binary_overflow in E. simpl in E.
    destruct (Bplus mode_NE x y) as [s|s| |s m e B]; simpl in E; try discriminate.
    exists s. reflexivity.
Qed.

(* c100 * (work / total) in [0, 100] *)
Lemma Bmult_Bdiv_in_range : forall c100 w t : bf,
  is_finite c100 = true -> R c100 = 100 ->
  is_finite w = true -> is_finite t = true -> 0 <= R w <= R t -> R t <> 0 ->
  let r := Bmult mode_NE c100 (Bdiv mode_NE w t) in
  is_finite r = true /\ 0 <= R r <= 100.
Proof.
  intros c100 w t Fc Hc Fw Ft [Hw Hwt] Ht0 r.
  assert (Htpos : 0 < R t) by lra.
  assert (Hq : 0 <= rnd (R w / R t) <= 1).
  { apply rnd_between; [apply generic_format_0 | apply fmt_1|]. split.
    - apply Rmult_le_pos; [exact Hw | left; apply Rinv_0_lt_compat; exact Htpos].
    - apply (Rmult_le_reg_r (R t)); [exact Htpos|]. unfold Rdiv. rewrite Rmult_assoc, Rinv_l by exact Ht0. lra. }
  generalize (Bdiv_correct prec emax prec_gt_0_ prec_lt_emax_ mode_NE w t Ht0).
  assert (Hlt1 : Rlt_bool (Rabs (rnd (R w / R t))) (bpow radix2 emax) = true).
  { apply (below_emax (Bone (prec:=prec) (emax:=emax))). rewrite Bone_correct. exact Hq. }
  rewrite Hlt1. intros [Eq [Fq _]]. rewrite Fw in Fq.
  assert (Hc100 : fmt 100). { rewrite <- Hc. apply fmt_B2R. }
  assert (Hr : 0 <= rnd (R c100 * R (Bdiv mode_NE w t)) <= 100).
  { apply rnd_between; [apply generic_format_0 | exact Hc100|]. rewrite Hc, Eq. lra. }
  generalize (Bmult_correct prec emax prec_gt_0_ prec_lt_emax_ mode_NE c100 (Bdiv mode_NE w t)).
  assert (Hlt2 : Rlt_bool (Rabs (rnd (R c100 * R (Bdiv mode_NE w t)))) (bpow radix2 emax) = true).
  { apply (below_emax c100). destruct Hr as [Hr1 Hr2]. split; [exact Hr1 | eapply Rle_trans; [exact Hr2 | rewrite Hc; apply Rle_refl]]. }
  rewrite Hlt2. intros [Er [Fr _]]. rewrite Fc, Fq in Fr. unfold r. rewrite Er. split; [exact Fr | exact Hr].
Qed.

(* x / d for finite x >= 0 and finite d >= 1 : finite, in [0, x] *)
Lemma Bdiv_by_ge_1 : forall x d : bf,
  is_finite x = true -> is_finite d = true -> 0 <= R x -> 1 <= R d ->
  is_finite (Bdiv mode_NE x d) = true /\ 0 <= R (Bdiv mode_NE x d) <= R x.
Proof.
  intros x d Fx Fd Hx Hd.
  assert (Hd0 : R d <> 0) by lra.
  assert (Hq : 0 <= rnd (R x / R d) <= R x).
  { apply rnd_between; [apply generic_format_0 | apply fmt_B2R|]. split.
    - apply Rmult_le_pos; [exact Hx | left; apply Rinv_0_lt_compat; lra].
    - apply (Rmult_le_reg_r (R d)); [lra|]. unfold Rdiv. rewrite Rmult_assoc, Rinv_l by exact Hd0.
      rewrite Rmult_1_r. rewrite <- (Rmult_1_r (R x)) at 1. apply Rmult_le_compat_l; assumption. }
  generalize (Bdiv_correct prec emax prec_gt_0_ prec_lt_emax_ mode_NE x d Hd0).
  rewrite (below_emax x _ Hq). intros [E [F _]]. rewrite E, F. split; [exact Fx | exact Hq].
Qed.

End Generic.

(* ------------------------------------------------------------------ link with Coq's primitive floats *)
Notation P2B := FP.Prim2B.
Notation RB := (@B2R FloatOps.prec FloatOps.emax).
Notation Hp := FP.Hprec.
Notation Hm := FP.Hmax.

Lemma f_is_finite_equiv : forall x, f_is_finite x = is_finite (P2B x).
Proof. intro x. unfold f_is_finite. rewrite <- FP.B2SF_Prim2B. destruct (P2B x); reflexivity. Qed.

Lemma P2B_f0 : P2B f0 = B754_zero false.
Proof. apply B2SF_inj. rewrite FP.B2SF_Prim2B. reflexivity. Qed.

Lemma RB_f0 : RB (P2B f0) = 0.
Proof. rewrite P2B_f0. reflexivity. Qed.

Lemma fin_f0 : is_finite (P2B f0) = true.
Proof. rewrite P2B_f0. reflexivity. Qed.

Lemma f_le_equiv : forall x y, is_finite (P2B x) = true -> is_finite (P2B y) = true ->
  f_le x y = Rle_bool (RB (P2B x)) (RB (P2B y)).
Proof. intros x y Fx Fy. unfold f_le. rewrite FP.leb_equiv. apply Bleb_correct; assumption. Qed.

Lemma f_le_real : forall x y, is_finite (P2B x) = true -> is_finite (P2B y) = true ->
  f_le x y = true -> RB (P2B x) <= RB (P2B y).
Proof.
  intros x y Fx Fy H. rewrite (f_le_equiv x y Fx Fy) in H.
  destruct (Rle_bool_spec (RB (P2B x)) (RB (P2B y))) as [H1 | H1]; [exact H1 | discriminate].
Qed.

Lemma f_le_of_real : forall x y, is_finite (P2B x) = true -> is_finite (P2B y) = true ->
  RB (P2B x) <= RB (P2B y) -> f_le x y = true.
Proof. intros x y Fx Fy H. rewrite (f_le_equiv x y Fx Fy). apply Rle_bool_true. exact H. Qed.

(* 0 <= x <= y with y finite: x is finite *)
Lemma between_finite : forall x y, f_le f0 x = true -> f_le x y = true -> is_finite (P2B y) = true ->
  is_finite (P2B x) = true.
Proof.
  intros x y H0 H1 Fy. unfold f_le in *. rewrite FP.leb_equiv in H0, H1. rewrite P2B_f0 in H0.
  destruct (P2B x) as [s|s| |s m e B]; try reflexivity.
  - destruct s; [discriminate H0|]. destruct (P2B y) as [s'|s'| |s' m' e' B']; try discriminate Fy; discriminate H1.
  - discriminate H0.
Qed.

Lemma f100_value : is_finite (P2B f100) = true /\ RB (P2B f100) = 100.
Proof.
  unfold FP.Prim2B. rewrite is_finite_SF2B, B2R_SF2B.
  change (Prim2SF f100) with (SpecFloat.S754_finite false 7036874417766400 (-46)).
  split; [reflexivity|]. unfold SF2R, cond_Zopp.
  unfold F2R, Fnum, Fexp, bpow. change (Z.pow_pos radix2 46) with 70368744177664%Z. lra.
Qed.

Lemma f128_value : is_finite (P2B f128) = true /\ RB (P2B f128) = 128.
Proof.
  unfold FP.Prim2B. rewrite is_finite_SF2B, B2R_SF2B.
  change (Prim2SF f128) with (SpecFloat.S754_finite false 4503599627370496 (-45)).
  split; [reflexivity|]. unfold SF2R, cond_Zopp.
  unfold F2R, Fnum, Fexp, bpow. change (Z.pow_pos radix2 45) with 35184372088832%Z. lra.
Qed.

Lemma f1_value : is_finite (P2B f1) = true /\ RB (P2B f1) = 1.
Proof.
  unfold FP.Prim2B. rewrite is_finite_SF2B, B2R_SF2B.
  change (Prim2SF f1) with (SpecFloat.S754_finite false 4503599627370496 (-52)).
  split; [reflexivity|]. unfold SF2R, cond_Zopp.
  unfold F2R, Fnum, Fexp, bpow. change (Z.pow_pos radix2 52) with 4503599627370496%Z. lra.
Qed.

(* a float whose binary image is finite with real value in [lo, hi] (bounds are floats) *)
Lemma in_range_of_real : forall v lo hi,
  is_finite (P2B v) = true -> is_finite (P2B lo) = true -> is_finite (P2B hi) = true ->
  RB (P2B lo) <= RB (P2B v) <= RB (P2B hi) -> f_le lo v && f_le v hi = true.
Proof.
  intros v lo hi Fv Fl Fh [H1 H2]. apply andb_true_intro. split; apply f_le_of_real; assumption.
Qed.

(* ------------------------------------------------------------------ cpu_in_range for the fixed expression *)
Theorem cpu_in_range_fixed : forall latest ref,
  counters_ok latest ref = true -> cpu_in_range (cpu_one_with cpu_pct_fixed latest ref) = true.
Proof.
  intros [lw li] [rw ri] H. unfold counters_ok in H. simpl in H.
  apply andb_prop in H. destruct H as [H Fli].
  apply andb_prop in H. destruct H as [H Hi].
  apply andb_prop in H. destruct H as [H H0i].
  apply andb_prop in H. destruct H as [H Flw].
  apply andb_prop in H. destruct H as [H0w Hw].
  rewrite f_is_finite_equiv in Flw, Fli.
  pose proof (between_finite rw lw H0w Hw Flw) as Frw.
  pose proof (between_finite ri li H0i Hi Fli) as Fri.
  pose proof (f_le_real _ _ fin_f0 Frw H0w) as R0w. rewrite RB_f0 in R0w.
  pose proof (f_le_real _ _ Frw Flw Hw) as Rw.
  pose proof (f_le_real _ _ fin_f0 Fri H0i) as R0i. rewrite RB_f0 in R0i.
  pose proof (f_le_real _ _ Fri Fli Hi) as Ri.
  destruct (Bminus_monotone_counters _ _ Hp Hm (P2B lw) (P2B rw) Flw Frw (conj R0w Rw)) as [Fwork [Wpos Wle]].
  destruct (Bminus_monotone_counters _ _ Hp Hm (P2B li) (P2B ri) Fli Fri (conj R0i Ri)) as [Fidle [Ipos Ile]].
  rewrite <- FP.sub_equiv in Fwork, Wpos, Wle, Fidle, Ipos, Ile.
  unfold cpu_one_with, cpu_in_range. simpl fst. simpl snd.
  set (work := fsub lw rw) in *. set (idle := fsub li ri) in *.
  destruct (f_truth (fadd work idle)) eqn:Et.
  2:{ apply in_range_of_real; try apply fin_f0; try apply f100_value.
      rewrite RB_f0. rewrite (proj2 f100_value). lra. }
  destruct f100_value as [F100 R100].
  assert (Hres : is_finite (P2B (cpu_pct_fixed work (fadd work idle))) = true
                 /\ 0 <= RB (P2B (cpu_pct_fixed work (fadd work idle))) <= 100).
  { unfold cpu_pct_fixed, fmul, fdivide. rewrite FP.mul_equiv, FP.div_equiv.
    destruct (Bplus_nonneg _ _ Hp Hm (P2B work) (P2B idle) Fwork Fidle Wpos Ipos) as [[Ftot Htot] | [s Hinf]].
    - rewrite <- FP.add_equiv in Ftot, Htot.
      apply (Bmult_Bdiv_in_range _ _ Hp Hm); try assumption.
      + split; assumption.
      + unfold f_truth, f_is_zero, fadd in Et. apply negb_true_iff in Et. rewrite FP.eqb_equiv in Et.
        rewrite (Beqb_correct _ _ _ _ Ftot fin_f0) in Et. rewrite RB_f0 in Et.
        intro Hz. unfold fadd in Hz. rewrite Hz in Et. rewrite Req_bool_true in Et by reflexivity. discriminate.
    - unfold fadd. rewrite FP.add_equiv, Hinf.
      assert (Hz : exists s', @Bdiv _ _ Hp Hm mode_NE (P2B work) (B754_infinity s) = B754_zero s').
      { pose proof Fwork as Fw'. change (is_finite (P2B work) = true) in Fw'.
        destruct (P2B work) as [sw|sw| |sw mw ew Bw]; try discriminate Fw'; simpl; eexists; reflexivity. }
      destruct Hz as [s' Hz]. rewrite Hz.
      assert (Hz2 : exists s2, @Bmult _ _ Hp Hm mode_NE (P2B f100) (B754_zero s') = B754_zero s2).
      { destruct (P2B f100) as [sc|sc| |sc mc ec Bc]; try discriminate F100; simpl; eexists; reflexivity. }
      destruct Hz2 as [s2 Hz2]. rewrite Hz2. simpl. split; [reflexivity | lra]. }
  destruct Hres as [Fres Rres].
  apply in_range_of_real; try assumption; try apply fin_f0.
  rewrite RB_f0, R100. exact Rres.
Qed.

(* ------------------------------------------------------------------ I/O rate expression *)
(* x / duration / 128 for a finite x >= 0 (the converted counter difference) and a duration >= 1
   (guaranteed by the gate when period >= 1; +infinity allowed) *)
Theorem io_rate_expr_sane : forall x d,
  f_is_finite x = true -> f_le f0 x = true -> f_le f1 d = true ->
  rate_sane (fdivide (fdivide x d) f128) = true.
Proof.
  intros x d Fx H0 Hd. rewrite f_is_finite_equiv in Fx.
  pose proof (f_le_real _ _ fin_f0 Fx H0) as Rx. rewrite RB_f0 in Rx.
  destruct f128_value as [F128 R128]. destruct f1_value as [F1 R1].
  assert (Hq : is_finite (P2B (fdivide x d)) = true /\ 0 <= RB (P2B (fdivide x d))).
  { unfold fdivide. rewrite FP.div_equiv.
    destruct (is_finite (P2B d)) eqn:Fd.
    - pose proof (f_le_real _ _ F1 Fd Hd) as Rd. rewrite R1 in Rd.
      destruct (Bdiv_by_ge_1 _ _ Hp Hm (P2B x) (P2B d) Fx Fd Rx Rd) as [Fq [Q0 _]]. split; assumption.
    - (* duration = +infinity: the quotient is a zero *)
      unfold f_le in Hd. rewrite FP.leb_equiv in Hd.
      destruct (P2B d) as [sd|sd| |sd md ed Bd]; try discriminate Fd.
      + destruct sd.
        * exfalso. destruct (P2B f1) as [s1|s1| |s1 m1 e1 B1]; try discriminate F1; discriminate Hd.
        * destruct (P2B x) as [sx|sx| |sx mx ex Bx]; try discriminate Fx; simpl; split; try reflexivity; lra.
      + exfalso. destruct (P2B f1) as [s1|s1| |s1 m1 e1 B1]; try discriminate F1; discriminate Hd. }
  destruct Hq as [Fq Q0].
  assert (R128' : 1 <= RB (P2B f128)) by (rewrite R128; lra).
  destruct (Bdiv_by_ge_1 _ _ Hp Hm (P2B (fdivide x d)) (P2B f128) Fq F128 Q0 R128') as [Fr [R0 _]].
  rewrite <- FP.div_equiv in Fr, R0.
  unfold rate_sane. rewrite f_is_finite_equiv. unfold fdivide in *. rewrite Fr. simpl.
  apply f_le_of_real; [apply fin_f0 | exact Fr | rewrite RB_f0; exact R0].
Qed.

(* ------------------------------------------------------------------ int -> float conversion of the model *)
Lemma overflow_not_finite : forall (z : binary_float FloatOps.prec FloatOps.emax) s,
  B2SF z = binary_overflow FloatOps.prec FloatOps.emax mode_NE s -> is_finite z = false.
Proof.
  intros z s E. unfold binary_overflow in E. simpl in E.
  destruct z as [sz|sz| |sz mz ez Bz]; simpl in E; try discriminate; reflexivity.
Qed.

Lemma of_uint63_nonneg : forall i, is_finite (P2B (of_uint63 i)) = true -> 0 <= RB (P2B (of_uint63 i)).
Proof.
  intros i F. rewrite FP.of_int63_equiv in *.
  generalize (binary_normalize_correct _ _ Hp Hm mode_NE (Uint63.to_Z i) 0 false).
  cbv zeta. destruct (Rlt_bool _ _).
  - intros [E _]. rewrite E. apply round_ge_generic; auto with typeclass_instances.
    + apply (fexp_correct _ _ Hp).
    + apply generic_format_0.
    + apply F2R_ge_0. simpl. destruct (Uint63.to_Z_bounded i) as [H _]. exact H.
  - intro E. apply overflow_not_finite in E. rewrite E in F. discriminate.
Qed.

Lemma z2f_nonneg_value : forall n,
  is_finite (P2B (z2f_nonneg n)) = true -> 0 <= RB (P2B (z2f_nonneg n)).
Proof.
  intros n F. unfold z2f_nonneg in *.
  destruct (Z.ltb n 9223372036854775808); [apply of_uint63_nonneg; exact F|].
  set (m := Uint63.of_Z _) in *. set (s := (Z.log2 n + 1 - 62)%Z) in *.
  rewrite FP.ldexp_equiv in *.
  generalize (Bldexp_correct _ _ Hp Hm mode_NE (P2B (of_uint63 m)) s).
  destruct (Rlt_bool _ _).
  - intros [E [Fm _]]. rewrite E. rewrite F in Fm. symmetry in Fm.
    apply round_ge_generic; auto with typeclass_instances.
    + apply (fexp_correct _ _ Hp).
    + apply generic_format_0.
    + apply Rmult_le_pos; [apply of_uint63_nonneg; exact Fm | apply bpow_ge_0].
  - intro E. apply overflow_not_finite in E. rewrite E in F. discriminate.
Qed.

(* io_rates_sane: a non-negative counter difference over a duration >= 1 gives a finite rate >= 0
   (an OverflowError / ZeroDivisionError gives no rate at all) *)
Theorem io_rates_sane : forall n d v,
  (0 <= n)%Z -> f_le f1 d = true -> io_rate n d = Ok v -> rate_sane v = true.
Proof.
  intros n d v Hn Hd H. unfold io_rate, z2f in H.
  destruct (Z.ltb n 0) eqn:En; [apply Z.ltb_lt in En; lia|].
  destruct (f_is_finite (z2f_nonneg n)) eqn:Fx; simpl in H; [|discriminate].
  unfold fdiv in H. destruct (f_is_zero d); simpl in H; [discriminate|].
  inversion H; subst. apply io_rate_expr_sane; [exact Fx | | exact Hd].
  rewrite f_is_finite_equiv in Fx.
  apply f_le_of_real; [apply fin_f0 | exact Fx | rewrite RB_f0; apply z2f_nonneg_value; exact Fx].
Qed.

(* ------------------------------------------------------------------ from the gate to the duration *)
Lemma f_le_trans_from_finite : forall a b c,
  is_finite (P2B a) = true -> f_le a b = true -> f_le b c = true -> f_le a c = true.
Proof.
  intros a b c Fa H1 H2.
  destruct (is_finite (P2B b)) eqn:Fb; destruct (is_finite (P2B c)) eqn:Fc.
  - apply f_le_of_real; try assumption.
    eapply Rle_trans; [apply (f_le_real a b) | apply (f_le_real b c)]; assumption.
  - unfold f_le in *. rewrite FP.leb_equiv in *.
    destruct (P2B c) as [sc|sc| |sc mc ec Bc]; try discriminate Fc.
    + destruct sc.
      * destruct (P2B b) as [sb|sb| |sb mb eb Bb]; try discriminate Fb; discriminate H2.
      * destruct (P2B a) as [sa|sa| |sa ma ea Ba]; try discriminate Fa; reflexivity.
    + destruct (P2B b) as [sb|sb| |sb mb eb Bb]; try discriminate Fb; discriminate H2.
  - unfold f_le in *. rewrite FP.leb_equiv in *.
    destruct (P2B b) as [sb|sb| |sb mb eb Bb]; try discriminate Fb.
    + destruct sb.
      * destruct (P2B a) as [sa|sa| |sa ma ea Ba]; try discriminate Fa; discriminate H1.
      * destruct (P2B c) as [sc|sc| |sc mc ec Bc]; try discriminate Fc; discriminate H2.
    + destruct (P2B a) as [sa|sa| |sa ma ea Ba]; try discriminate Fa; discriminate H1.
  - unfold f_le in *. rewrite FP.leb_equiv in *.
    destruct (P2B b) as [sb|sb| |sb mb eb Bb]; try discriminate Fb.
    + destruct sb.
      * destruct (P2B a) as [sa|sa| |sa ma ea Ba]; try discriminate Fa; discriminate H1.
      * destruct (P2B c) as [sc|sc| |sc mc ec Bc]; try discriminate Fc.
        -- destruct sc; [discriminate H2|].
           destruct (P2B a) as [sa|sa| |sa ma ea Ba]; try discriminate Fa; reflexivity.
        -- discriminate H2.
    + destruct (P2B a) as [sa|sa| |sa ma ea Ba]; try discriminate Fa; discriminate H1.
Qed.

(* period >= 1 and the gate open: the duration used by the rates is >= 1 (in particular not zero, not NaN) *)
Lemma gate_duration_ge_1 : forall period now ref_now,
  f_le f1 period = true -> gate period now ref_now = true -> f_le f1 (fsub now ref_now) = true.
Proof.
  intros period now ref_now Hp Hg. unfold gate, fge in Hg.
  apply (f_le_trans_from_finite f1 period); [apply f1_value | exact Hp | exact Hg].
Qed.

Lemma io_statistics_sane : forall last ref dur io,
  f_le f1 dur = true -> io_statistics last ref dur = Ok io -> rates_sane io = true.
Proof.
  intros last ref dur. induction last as [|[k [lin lout]] r IH]; simpl; intros io Hd H.
  - inversion H. reflexivity.
  - destruct (aget k ref) as [[rin rout]|]; [|apply IH; assumption].
    destruct (Z.leb rin lin && Z.leb rout lout) eqn:Em; [|apply IH; assumption].
    apply andb_prop in Em. destruct Em as [E1 E2]. apply Z.leb_le in E1. apply Z.leb_le in E2.
    destruct (io_rate (lin - rin) dur) as [a|] eqn:Ea; simpl in H; [|discriminate].
    destruct (io_rate (lout - rout) dur) as [b|] eqn:Eb; simpl in H; [|discriminate].
    destruct (io_statistics r ref dur) as [rest|] eqn:Er; simpl in H; [|discriminate].
    inversion H; subst. unfold rates_sane. simpl.
    rewrite (io_rates_sane (lin - rin)%Z dur a) by (try lia; assumption).
    rewrite (io_rates_sane (lout - rout)%Z dur b) by (try lia; assumption).
    simpl. apply (IH rest Hd eq_refl).
Qed.

(* io_rates_sane, end to end: every rate of every point produced by an instance whose period is >= 1 *)
Theorem host_point_rates_sane : forall h s h' upt cpu mem net disk usage,
  f_le f1 (h_period h) = true ->
  host_push h s = (h', HPoint (upt, cpu, mem, net, disk, usage)) ->
  rates_sane net = true /\ rates_sane disk = true.
Proof.
  intros h s h' upt cpu mem net disk usage Hp H. unfold host_push in H.
  destruct (h_ref h) as [r|]; [|inversion H].
  destruct (gate _ _ _) eqn:Eg; [|inversion H].
  pose proof (gate_duration_ge_1 _ _ _ Hp Eg) as Hd.
  destruct (host_integrate h r s) as [[[[[[upt' cpu'] mem'] net'] disk'] usage']|] eqn:Ei; [|inversion H].
  assert (E : net' = net /\ disk' = disk).
  { destruct (Z.ltb (h_depth h) 0); [inversion H|]. destruct (snd (push_cpu _ _ _)); inversion H; split; reflexivity. }
  destruct E; subst net' disk'. unfold host_integrate in Ei.
  destruct (io_statistics (s_net s) (s_net r) _) as [n|] eqn:En; simpl in Ei; [|discriminate].
  destruct (io_statistics (s_disk s) (s_disk r) _) as [dk|] eqn:Ed; simpl in Ei; [|discriminate].
  inversion Ei; subst. split; eapply io_statistics_sane; eassumption.
Qed.

(* ------------------------------------------------------------------ cpu_in_range at the level of the model *)
(* The model follows /repo through the one-line switch Stats.cpu_pct. *)
Theorem cpu_statistics_in_range_if_fixed : cpu_pct = cpu_pct_fixed ->
  forall latest ref, cpu_values_ok false (cpu_statistics latest ref) latest ref = true.
Proof.
  intros Hsw latest. unfold cpu_statistics, cpu_one. rewrite Hsw.
  induction latest as [|l ls IH]; intros ref; destruct ref as [|r rs]; simpl; try reflexivity.
  rewrite IH. destruct (counters_ok l r) eqn:Ec; [|reflexivity].
  rewrite (cpu_in_range_fixed l r Ec). reflexivity.
Qed.

(* since the fix of F25 the switch is turned: unconditional for the model.
   (`eq_refl` stops type-checking if the model is switched back to cpu_pct_current.) *)
Theorem cpu_statistics_in_range :
  forall latest ref, cpu_values_ok false (cpu_statistics latest ref) latest ref = true.
Proof. exact (cpu_statistics_in_range_if_fixed eq_refl). Qed.

Theorem cpu_one_in_range : forall latest ref,
  counters_ok latest ref = true -> cpu_in_range (cpu_one latest ref) = true.
Proof. exact cpu_in_range_fixed. Qed.

(* every CPU value of every point produced by an instance *)
Theorem host_point_cpu_in_range : forall h s h' r upt cpu mem net disk usage,
  h_ref h = Some r ->
  host_push h s = (h', HPoint (upt, cpu, mem, net, disk, usage)) ->
  cpu_values_ok false cpu (s_cpu s) (s_cpu r) = true.
Proof.
  intros h s h' r upt cpu mem net disk usage Hr H. unfold host_push in H. rewrite Hr in H.
  destruct (gate _ _ _); [|inversion H].
  destruct (host_integrate h r s) as [[[[[[upt' cpu'] mem'] net'] disk'] usage']|] eqn:Ei; [|inversion H].
  assert (E : cpu' = cpu).
  { destruct (Z.ltb (h_depth h) 0); [inversion H|]. destruct (snd (push_cpu _ _ _)); inversion H; reflexivity. }
  subst cpu'. apply StatsProofs.host_integrate_cpu in Ei. subst cpu. apply cpu_statistics_in_range.
Qed.
