(* AppMemberProofs.v — proofs about model/AppMember.v (property C16, additions and removals).
   The invariant [inv] holds initially, is preserved by every operation (whatever the history: induction, unbounded),
   under it no operation raises except the direct call remove_process(unknown name), and the observation of every
   reachable state satisfies the specification checker used on the implementation. *)
From Sup Require Import AppMember.
From Coq Require Import Permutation.

(* ================================================================ generic facts *)
Lemma ns_eqb_eq : forall x y : ns, ns_eqb x y = true <-> x = y.
Proof.
  intros [a b] [c d]. unfold ns_eqb. cbn. rewrite andb_true_iff, !Z.eqb_eq. split.
  - intros [H1 H2]. subst. reflexivity.
  - intros H. inversion H. split; reflexivity.
Qed.

Lemma ns_eqb_refl : forall x, ns_eqb x x = true.
Proof. intros x. apply ns_eqb_eq. reflexivity. Qed.

Lemma ns_eqb_neq : forall x y : ns, ns_eqb x y = false <-> x <> y.
Proof.
  intros x y. split.
  - intros H E. apply ns_eqb_eq in E. congruence.
  - intros H. destruct (ns_eqb x y) eqn:E; [apply ns_eqb_eq in E; contradiction | reflexivity].
Qed.

Lemma ns_mem_In : forall x l, ns_mem x l = true <-> In x l.
Proof.
  intros x l. unfold ns_mem. rewrite existsb_exists. split.
  - intros [y [H1 H2]]. apply ns_eqb_eq in H2. subst. exact H1.
  - intros H. exists x. split; [exact H | apply ns_eqb_refl].
Qed.

Lemma In_ns_add : forall x y l, In y (ns_add x l) <-> y = x \/ In y l.
Proof.
  intros x y l. unfold ns_add. destruct (ns_mem x l) eqn:E.
  - apply ns_mem_In in E. split; [intros H; right; exact H | intros [H | H]; [subst; exact E | exact H]].
  - rewrite in_app_iff. cbn. split; [intros [H | [H | []]]; auto | intros [H | H]; auto].
Qed.

Lemma In_ns_del : forall x y l, In y (ns_del x l) <-> y <> x /\ In y l.
Proof.
  intros x y l. unfold ns_del. rewrite filter_In, negb_true_iff, ns_eqb_neq. split.
  - intros [H1 H2]. split; [intros E; subst; apply H2; reflexivity | exact H1].
  - intros [H1 H2]. split; [exact H2 | intros E; subst; apply H1; reflexivity].
Qed.

Lemma In_ref_remove_other : forall e x l, x <> e -> In x l -> In x (ref_remove e l).
Proof.
  intros e x l Hne. induction l as [|y r IH]; cbn; intros H; [exact H|].
  destruct (ns_eqb e y) eqn:E.
  - apply ns_eqb_eq in E. subst y. destruct H as [H | H]; [congruence | exact H].
  - destruct H as [H | H]; [left; exact H | right; apply IH; exact H].
Qed.

Lemma zmem_In : forall k l, zmem k l = true <-> In k l.
Proof.
  intros k l. unfold zmem. rewrite existsb_exists. split.
  - intros [y [H1 H2]]. apply Z.eqb_eq in H2. subst. exact H1.
  - intros H. exists k. split; [exact H | apply Z.eqb_refl].
Qed.

Lemma zmem_false : forall k l, zmem k l = false <-> ~ In k l.
Proof.
  intros k l. split.
  - intros H E. apply zmem_In in E. congruence.
  - intros H. destruct (zmem k l) eqn:E; [apply zmem_In in E; contradiction | reflexivity].
Qed.

Lemma In_zadd : forall k j l, In j (zadd k l) <-> j = k \/ In j l.
Proof.
  intros k j l. unfold zadd. destruct (zmem k l) eqn:E.
  - apply zmem_In in E. split; [auto | intros [H | H]; [subst; exact E | exact H]].
  - rewrite in_app_iff. cbn. split; [intros [H | [H | []]]; auto | intros [H | H]; auto].
Qed.

Lemma In_zdiscard : forall k j l, In j (zdiscard k l) <-> j <> k /\ In j l.
Proof.
  intros k j l. unfold zdiscard. rewrite filter_In, negb_true_iff, Z.eqb_neq. split.
  - intros [H1 H2]. split; [intros E; subst; apply H2; reflexivity | exact H1].
  - intros [H1 H2]. split; [exact H2 | intros E; subst; apply H1; reflexivity].
Qed.

(* ---- association lists *)
Lemma aget_aset {V} : forall k j (v : V) l, aget k (aset j v l) = if Z.eqb k j then Some v else aget k l.
Proof.
  intros k j v l. induction l as [|[k' v'] r IH]; cbn.
  - destruct (Z.eqb k j); reflexivity.
  - destruct (Z.eqb j k') eqn:E1; cbn.
    + apply Z.eqb_eq in E1. subst k'. destruct (Z.eqb k j); reflexivity.
    + destruct (Z.eqb k k') eqn:E2.
      * apply Z.eqb_eq in E2. subst k'. rewrite Z.eqb_sym, E1. reflexivity.
      * exact IH.
Qed.

Lemma aget_In {V} : forall k (l : alist V) v, aget k l = Some v -> In (k, v) l.
Proof.
  intros k l v. induction l as [|[k' v'] r IH]; cbn; [discriminate|].
  destruct (Z.eqb k k') eqn:E.
  - apply Z.eqb_eq in E. intros H. inversion H. subst. left. reflexivity.
  - intros H. right. apply IH. exact H.
Qed.

Lemma In_akeys {V} : forall k (v : V) l, In (k, v) l -> In k (akeys l).
Proof. intros k v l H. unfold akeys. apply in_map_iff. exists (k, v). split; [reflexivity | exact H]. Qed.

Lemma In_aget {V} : forall k (l : alist V) v, NoDup (akeys l) -> In (k, v) l -> aget k l = Some v.
Proof.
  intros k l v. induction l as [|[k' v'] r IH]; cbn; intros Hnd H; [contradiction|].
  inversion Hnd as [|x xs Hnot Hnd']. subst.
  destruct H as [H | H].
  - inversion H. subst. rewrite Z.eqb_refl. reflexivity.
  - destruct (Z.eqb k k') eqn:E.
    + apply Z.eqb_eq in E. subst k'. exfalso. apply Hnot. apply In_akeys with v. exact H.
    + apply IH; assumption.
Qed.

Lemma aget_None_keys {V} : forall k (l : alist V), aget k l = None <-> ~ In k (akeys l).
Proof.
  intros k l. induction l as [|[k' v'] r IH]; cbn.
  - split; [intros _ [] | reflexivity].
  - destruct (Z.eqb k k') eqn:E.
    + apply Z.eqb_eq in E. subst. split; [discriminate | intros H; exfalso; apply H; left; reflexivity].
    + apply Z.eqb_neq in E. rewrite IH. split.
      * intros H [H' | H']; [congruence | contradiction].
      * intros H H'. apply H. right. exact H'.
Qed.

Lemma In_aset {V} : forall x (v : V) j w l, In (x, v) (aset j w l) -> (x = j /\ v = w) \/ In (x, v) l.
Proof.
  intros x v j w l. induction l as [|[k' v'] r IH]; cbn.
  - intros [H | []]. inversion H. left. split; reflexivity.
  - destruct (Z.eqb j k') eqn:E; cbn.
    + apply Z.eqb_eq in E. subst k'. intros [H | H]; [inversion H; left; split; reflexivity | right; right; exact H].
    + intros [H | H]; [right; left; exact H|]. destruct (IH H) as [H' | H']; [left; exact H' | right; right; exact H'].
Qed.

Lemma akeys_aset_In {V} : forall x j (w : V) l, In x (akeys (aset j w l)) <-> x = j \/ In x (akeys l).
Proof.
  intros x j w l. induction l as [|[k' v'] r IH]; cbn.
  - split; [intros [H | []]; left; symmetry; exact H | intros [H | []]; left; symmetry; exact H].
  - destruct (Z.eqb j k') eqn:E; cbn.
    + apply Z.eqb_eq in E. subst k'. split; [intros [H | H]; auto | intros [H | [H | H]]; auto].
    + rewrite IH. split; [intros [H | [H | H]]; auto | intros [H | [H | H]]; auto].
Qed.

Lemma NoDup_akeys_aset {V} : forall j (w : V) l, NoDup (akeys l) -> NoDup (akeys (aset j w l)).
Proof.
  intros j w l. induction l as [|[k' v'] r IH]; cbn; intros H.
  - constructor; [intros [] | constructor].
  - inversion H as [|x xs Hnot Hnd]. subst. destruct (Z.eqb j k') eqn:E; cbn.
    + constructor; assumption.
    + constructor; [|apply IH; exact Hnd]. intros Hin. apply akeys_aset_In in Hin. destruct Hin as [Hin | Hin].
      * subst. rewrite Z.eqb_refl in E. discriminate.
      * contradiction.
Qed.

Lemma In_adel {V} : forall x (v : V) j l, In (x, v) (adel j l) -> In (x, v) l.
Proof.
  intros x v j l. induction l as [|[k' v'] r IH]; cbn; [auto|].
  destruct (Z.eqb j k'); cbn; [intros H; right; exact H|].
  intros [H | H]; [left; exact H | right; apply IH; exact H].
Qed.

Lemma akeys_adel_In {V} : forall x j (l : alist V), In x (akeys (adel j l)) -> In x (akeys l).
Proof.
  intros x j l. induction l as [|[k' v'] r IH]; cbn; [auto|].
  destruct (Z.eqb j k'); cbn; [intros H; right; exact H|].
  intros [H | H]; [left; exact H | right; apply IH; exact H].
Qed.

Lemma NoDup_akeys_adel {V} : forall j (l : alist V), NoDup (akeys l) -> NoDup (akeys (adel j l)).
Proof.
  intros j l. induction l as [|[k' v'] r IH]; cbn; intros H; [exact H|].
  inversion H as [|x xs Hnot Hnd]. subst. destruct (Z.eqb j k'); cbn; [exact Hnd|].
  constructor; [|apply IH; exact Hnd]. intros Hin. apply Hnot. apply akeys_adel_In with j. exact Hin.
Qed.

Lemma adel_not_key {V} : forall j (l : alist V), NoDup (akeys l) -> ~ In j (akeys (adel j l)).
Proof.
  intros j l. induction l as [|[k' v'] r IH]; cbn; intros H; [intros []|].
  inversion H as [|x xs Hnot Hnd]. subst. destruct (Z.eqb j k') eqn:E; cbn.
  - apply Z.eqb_eq in E. subst. exact Hnot.
  - apply Z.eqb_neq in E. intros [H' | H']; [congruence | apply (IH Hnd); exact H'].
Qed.

Lemma aget_adel_other {V} : forall k j (l : alist V), k <> j -> aget k (adel j l) = aget k l.
Proof.
  intros k j l Hne. induction l as [|[k' v'] r IH]; cbn; [reflexivity|].
  destruct (Z.eqb j k') eqn:E; cbn.
  - apply Z.eqb_eq in E. subst k'. apply Z.eqb_neq in Hne. rewrite Hne. reflexivity.
  - destruct (Z.eqb k k'); [reflexivity | exact IH].
Qed.

Lemma amem_aget {V} : forall k (l : alist V) v, aget k l = Some v -> amem k l = true.
Proof. intros k l v H. unfold amem. rewrite H. reflexivity. Qed.

(* ================================================================ build_seq *)
Definition ent (x : Z * proc) : ns := (fst x, p_uid (snd x)).

Lemma aset_some_perm : forall k (e : ns) s l, aget k s = Some l ->
  Permutation (concat (avals (aset k (l ++ [e]) s))) (concat (avals s) ++ [e]).
Proof.
  intros k e s. unfold avals. induction s as [|[k' l'] r IH]; cbn; intros l G; [discriminate|].
  destruct (Z.eqb k k') eqn:E; cbn.
  - inversion G. subst l'. rewrite <- !app_assoc. apply Permutation_app_head. apply Permutation_app_comm.
  - rewrite <- app_assoc. apply Permutation_app_head. apply IH. exact G.
Qed.

Lemma aset_none_concat : forall k (e : ns) s, aget k s = None ->
  concat (avals (aset k [e] s)) = concat (avals s) ++ [e].
Proof.
  intros k e s. unfold avals. induction s as [|[k' l'] r IH]; cbn; intros G; [reflexivity|].
  destruct (Z.eqb k k') eqn:E; [discriminate|]. cbn. rewrite IH by exact G. rewrite app_assoc. reflexivity.
Qed.

Lemma seq_add_perm : forall k e s,
  Permutation (concat (avals (seq_add k e s))) (concat (avals s) ++ [e]).
Proof.
  intros k e s. unfold seq_add. destruct (aget k s) as [l|] eqn:G.
  - apply aset_some_perm. exact G.
  - rewrite aset_none_concat by exact G. apply Permutation_refl.
Qed.

Lemma build_seq_perm : forall key ps acc,
  Permutation (concat (avals (build_seq key ps acc))) (concat (avals acc) ++ map ent ps).
Proof.
  intros key ps. induction ps as [|[n p] r IH]; intros acc; cbn.
  - rewrite app_nil_r. apply Permutation_refl.
  - eapply Permutation_trans; [apply IH|].
    eapply Permutation_trans; [apply Permutation_app_tail; apply seq_add_perm|].
    rewrite <- app_assoc. apply Permutation_refl.
Qed.

Lemma seq_add_get : forall k e s, exists l, aget k (seq_add k e s) = Some l /\ In e l.
Proof.
  intros k e s. unfold seq_add. destruct (aget k s) as [l|] eqn:G.
  - exists (l ++ [e]). rewrite aget_aset, Z.eqb_refl. split; [reflexivity | apply in_or_app; right; left; reflexivity].
  - exists [e]. rewrite aget_aset, Z.eqb_refl. split; [reflexivity | left; reflexivity].
Qed.

Lemma seq_add_keeps : forall k e j s l x, aget j s = Some l -> In x l ->
  exists l', aget j (seq_add k e s) = Some l' /\ In x l'.
Proof.
  intros k e j s l x G Hx. unfold seq_add. destruct (Z.eqb j k) eqn:E.
  - apply Z.eqb_eq in E. subst j. rewrite G. exists (l ++ [e]). rewrite aget_aset, Z.eqb_refl.
    split; [reflexivity | apply in_or_app; left; exact Hx].
  - destruct (aget k s); rewrite aget_aset, E; exists l; split; assumption.
Qed.

Lemma build_seq_keeps : forall key ps acc j l x, aget j acc = Some l -> In x l ->
  exists l', aget j (build_seq key ps acc) = Some l' /\ In x l'.
Proof.
  intros key ps. induction ps as [|[n p] r IH]; intros acc j l x G Hx; cbn.
  - exists l. split; assumption.
  - destruct (seq_add_keeps (key p) (n, p_uid p) j acc l x G Hx) as [l' [G' Hx']].
    apply IH with l'; assumption.
Qed.

Lemma build_seq_has : forall key ps acc n p, In (n, p) ps ->
  exists l, aget (key p) (build_seq key ps acc) = Some l /\ In (n, p_uid p) l.
Proof.
  intros key ps. induction ps as [|[n' p'] r IH]; intros acc n p H; cbn; [contradiction|].
  destruct H as [H | H].
  - inversion H. subst. destruct (seq_add_get (key p) (n, p_uid p) acc) as [l [G Hx]].
    apply build_seq_keeps with l; assumption.
  - apply IH. exact H.
Qed.

Lemma In_aset_nodup {V} : forall x (v : V) j w l, NoDup (akeys l) -> In (x, v) (aset j w l) ->
  (x = j /\ v = w) \/ (x <> j /\ In (x, v) l).
Proof.
  intros x v j w l Hnd H. destruct (In_aset x v j w l H) as [H' | H']; [left; exact H'|].
  destruct (Z.eq_dec x j) as [E | E]; [|right; split; assumption].
  subst x. left. split; [reflexivity|].
  assert (G : aget j (aset j w l) = Some v).
  { apply In_aget; [apply NoDup_akeys_aset; exact Hnd | exact H]. }
  rewrite aget_aset, Z.eqb_refl in G. inversion G. reflexivity.
Qed.

Lemma In_adel_nodup {V} : forall x (v : V) j l, NoDup (akeys l) -> In (x, v) (adel j l) -> x <> j /\ In (x, v) l.
Proof.
  intros x v j l Hnd H. split; [|apply In_adel with j; exact H].
  intros E. subst x. apply (adel_not_key j l Hnd). apply In_akeys with v. exact H.
Qed.

Lemma In_aset_other {V} : forall x (v : V) j w l, x <> j -> In (x, v) l -> In (x, v) (aset j w l).
Proof.
  intros x v j w l Hne. induction l as [|[k' v'] r IH]; cbn; intros H; [contradiction|].
  destruct (Z.eqb j k') eqn:E; cbn.
  - apply Z.eqb_eq in E. subst k'. destruct H as [H | H]; [inversion H; congruence | right; exact H].
  - destruct H as [H | H]; [left; exact H | right; apply IH; exact H].
Qed.

Lemma In_aset_same {V} : forall j (w : V) l, In (j, w) (aset j w l).
Proof.
  intros j w l. induction l as [|[k' v'] r IH]; cbn; [left; reflexivity|].
  destruct (Z.eqb j k') eqn:E; cbn.
  - apply Z.eqb_eq in E. subst. left. reflexivity.
  - right. exact IH.
Qed.

Lemma In_adel_other {V} : forall x (v : V) j l, x <> j -> In (x, v) l -> In (x, v) (adel j l).
Proof.
  intros x v j l Hne. induction l as [|[k' v'] r IH]; cbn; intros H; [contradiction|].
  destruct (Z.eqb j k') eqn:E; cbn.
  - apply Z.eqb_eq in E. subst k'. destruct H as [H | H]; [inversion H; congruence | exact H].
  - destruct H as [H | H]; [left; exact H | right; apply IH; exact H].
Qed.

(* build_seq only reads the name, the uid and the key of each process *)
Lemma build_seq_ext : forall key ps ps' acc,
  map (fun x => (fst x, p_uid (snd x), key (snd x))) ps = map (fun x => (fst x, p_uid (snd x), key (snd x))) ps' ->
  build_seq key ps acc = build_seq key ps' acc.
Proof.
  intros key ps. induction ps as [|[n p] r IH]; intros ps' acc H; destruct ps' as [|[n' p'] r']; cbn in *;
    try discriminate; [reflexivity|].
  inversion H. subst. rewrite H3. apply IH. assumption.
Qed.

Lemma map_aset_same {V W} : forall (f : Z * V -> W) j v w (l : alist V), aget j l = Some v ->
  f (j, w) = f (j, v) -> map f (aset j w l) = map f l.
Proof.
  intros f j v w l. induction l as [|[k' v'] r IH]; cbn; intros G Hf; [discriminate|].
  destruct (Z.eqb j k') eqn:E; cbn.
  - apply Z.eqb_eq in E. subst k'. inversion G. subst. rewrite Hf. reflexivity.
  - rewrite IH by assumption. reflexivity.
Qed.

(* ================================================================ the invariant *)
Section Invariant.
Variable cfg : config.
Variable F : ns -> Z.      (* the program name of each namespec (the Supervisor configurations agree on it) *)

Record app_inv0 (a : Z) (ap : app) : Prop := {
  I_nodup : NoDup (akeys (a_procs ap));
  I_grp : forall n p, In (n, p) (a_procs ap) ->
          exists g, aget (p_prog p) (a_groups ap) = Some g /\ In (n, p_uid p) g;
  I_rules : forall n p, In (n, p) (a_procs ap) -> (p_sseq p, p_tseq p) = rules_of (a, n) (c_rules cfg);
  I_man : a_managed ap = zmem a (c_managed cfg);
  I_prog : forall n p, In (n, p) (a_procs ap) -> p_prog p = F (a, n) }.

Definition fresh_seqs (ap : app) : Prop :=
  a_start ap = (if a_managed ap then build_seq p_sseq (a_procs ap) [] else [])
  /\ a_stop ap = build_seq p_tseq (a_procs ap) [].

Definition app_inv (a : Z) (ap : app) : Prop := app_inv0 a ap /\ fresh_seqs ap.

Definition inst_inv (st : state) : Prop :=
  forall a ap n p i, In (a, ap) (s_apps st) -> In (n, p) (a_procs ap) -> In i (p_infos p) -> In (a, n) (inst_of i st).

Definition inv0 (st : state) : Prop :=
  NoDup (akeys (s_apps st)) /\ (forall a ap, In (a, ap) (s_apps st) -> app_inv0 a ap) /\ inst_inv st.

Definition inv (st : state) : Prop :=
  NoDup (akeys (s_apps st)) /\ (forall a ap, In (a, ap) (s_apps st) -> app_inv a ap) /\ inst_inv st.

Lemma inv_inv0 : forall st, inv st -> inv0 st.
Proof.
  intros st [H1 [H2 H3]]. split; [exact H1|]. split; [|exact H3]. intros a ap H. apply H2. exact H.
Qed.

Lemma inv_init : inv init_state.
Proof.
  split; [constructor|]. split; [intros a ap []|]. intros a ap n p i [].
Qed.

Lemma update_sequences_inv : forall a ap, app_inv0 a ap -> app_inv a (update_sequences ap).
Proof.
  intros a ap [H1 H2 H3 H4 H5]. split; [constructor; assumption|]. split; reflexivity.
Qed.

Lemma new_app_inv0 : forall a, app_inv0 a (new_app (zmem a (c_managed cfg))).
Proof.
  intros a. constructor; cbn; try (intros n p []); [constructor | reflexivity].
Qed.

Definition info_respects (info : Z * Z * Z) : Prop := snd info = F (fst info).

(* ---------------------------------------------------------------- load *)
Lemma inst_of_mk : forall apps i L insts nxt j,
  inst_of j (mkstate apps (aset i L insts) nxt) = if Z.eqb j i then L else match aget j insts with Some l => l | None => [] end.
Proof.
  intros apps i L insts nxt j. unfold inst_of. cbn. rewrite aget_aset. destruct (Z.eqb j i); reflexivity.
Qed.

Lemma load_one_inv0 : forall i info st, inv0 st -> info_respects info -> inv0 (load_one cfg i info st).
Proof.
  intros i [[a nm] prog] st [Hnd [Happs Hinst]] Hresp. unfold info_respects in Hresp. cbn in Hresp.
  unfold load_one.
  set (ap := match aget a (s_apps st) with Some ap => ap | None => new_app (zmem a (c_managed cfg)) end).
  assert (Hap : app_inv0 a ap).
  { unfold ap. destruct (aget a (s_apps st)) as [ap0|] eqn:G; [apply Happs; apply aget_In; exact G | apply new_app_inv0]. }
  assert (Hsrc : forall n q, In (n, q) (a_procs ap) -> In (a, ap) (s_apps st)).
  { unfold ap. destruct (aget a (s_apps st)) as [ap0|] eqn:G; [intros; apply aget_In; exact G | cbn; intros n q []]. }
  destruct Hap as [A1 A2 A3 A4 A5].
  destruct (aget nm (a_procs ap)) as [p|] eqn:Gp.
  - (* existing ProcessStatus *)
    pose proof (aget_In _ _ _ Gp) as Hp.
    set (p' := mkproc (p_uid p) prog (p_sseq p) (p_tseq p) (zadd i (p_infos p))).
    set (ap' := mkapp (a_managed ap) (aset nm p' (a_procs ap)) (a_groups ap) (a_start ap) (a_stop ap) (a_dead ap)).
    assert (Hap' : app_inv0 a ap').
    { constructor; cbn.
      - apply NoDup_akeys_aset. exact A1.
      - intros n q Hq. destruct (In_aset_nodup _ _ _ _ _ A1 Hq) as [[E1 E2] | [E1 E2]].
        + subst n q. cbn. rewrite Hresp, <- (A5 nm p Hp). apply A2. exact Hp.
        + apply A2. exact E2.
      - intros n q Hq. destruct (In_aset_nodup _ _ _ _ _ A1 Hq) as [[E1 E2] | [E1 E2]].
        + subst n q. cbn. apply A3. exact Hp.
        + apply A3. exact E2.
      - exact A4.
      - intros n q Hq. destruct (In_aset_nodup _ _ _ _ _ A1 Hq) as [[E1 E2] | [E1 E2]].
        + subst n q. cbn. exact Hresp.
        + apply A5. exact E2. }
    split; [cbn; apply NoDup_akeys_aset; exact Hnd|]. split.
    + cbn. intros x v Hx. destruct (In_aset_nodup _ _ _ _ _ Hnd Hx) as [[E1 E2] | [E1 E2]].
      * subst x v. exact Hap'.
      * apply Happs. exact E2.
    + intros x v n q j Hx Hq Hj. unfold inst_of. cbn [s_inst]. rewrite aget_aset. cbn [s_apps] in Hx.
      destruct (In_aset_nodup _ _ _ _ _ Hnd Hx) as [[E1 E2] | [E1 E2]].
      * subst x v. cbn in Hq. destruct (In_aset_nodup _ _ _ _ _ A1 Hq) as [[E3 E4] | [E3 E4]].
        -- subst n q. cbn in Hj. apply In_zadd in Hj. destruct (Z.eqb j i) eqn:Eji.
           ++ apply In_ns_add. left. reflexivity.
           ++ destruct Hj as [Hj | Hj]; [subst; rewrite Z.eqb_refl in Eji; discriminate|].
              apply (Hinst a ap nm p j (Hsrc nm p Hp) Hp Hj).
        -- destruct (Z.eqb j i) eqn:Eji.
           ++ apply Z.eqb_eq in Eji. subst j. apply In_ns_add. right.
              apply (Hinst a ap n q i (Hsrc n q E4) E4 Hj).
           ++ apply (Hinst a ap n q j (Hsrc n q E4) E4 Hj).
      * destruct (Z.eqb j i) eqn:Eji.
        -- apply Z.eqb_eq in Eji. subst j. apply In_ns_add. right. apply (Hinst x v n q i E2 Hq Hj).
        -- apply (Hinst x v n q j E2 Hq Hj).
  - (* new ProcessStatus *)
    destruct (rules_of (a, nm) (c_rules cfg)) as [ss ts] eqn:Er.
    set (e := (nm, s_next st)).
    set (g := match aget prog (a_groups ap) with Some g => g ++ [e] | None => [e] end).
    set (pn := mkproc (s_next st) prog ss ts [i]).
    set (ap' := mkapp (a_managed ap) (aset nm pn (a_procs ap)) (aset prog g (a_groups ap)) (a_start ap) (a_stop ap)
                      (a_dead ap)).
    assert (Hap' : app_inv0 a ap').
    { constructor; cbn.
      - apply NoDup_akeys_aset. exact A1.
      - intros n q Hq. rewrite aget_aset. destruct (In_aset_nodup _ _ _ _ _ A1 Hq) as [[E1 E2] | [E1 E2]].
        + subst n q. cbn. rewrite Z.eqb_refl. exists g. split; [reflexivity|]. unfold g.
          destruct (aget prog (a_groups ap)); [apply in_or_app; right; left; reflexivity | left; reflexivity].
        + destruct (A2 n q E2) as [g0 [G0 Hg0]]. destruct (Z.eqb (p_prog q) prog) eqn:Eq.
          * apply Z.eqb_eq in Eq. exists g. split; [reflexivity|]. unfold g. rewrite <- Eq, G0.
            apply in_or_app. left. exact Hg0.
          * exists g0. split; assumption.
      - intros n q Hq. destruct (In_aset_nodup _ _ _ _ _ A1 Hq) as [[E1 E2] | [E1 E2]].
        + subst n q. cbn. symmetry. exact Er.
        + apply A3. exact E2.
      - exact A4.
      - intros n q Hq. destruct (In_aset_nodup _ _ _ _ _ A1 Hq) as [[E1 E2] | [E1 E2]].
        + subst n q. cbn. exact Hresp.
        + apply A5. exact E2. }
    split; [cbn; apply NoDup_akeys_aset; exact Hnd|]. split.
    + cbn. intros x v Hx. destruct (In_aset_nodup _ _ _ _ _ Hnd Hx) as [[E1 E2] | [E1 E2]].
      * subst x v. exact Hap'.
      * apply Happs. exact E2.
    + intros x v n q j Hx Hq Hj. unfold inst_of. cbn [s_inst]. rewrite aget_aset. cbn [s_apps] in Hx.
      destruct (In_aset_nodup _ _ _ _ _ Hnd Hx) as [[E1 E2] | [E1 E2]].
      * subst x v. cbn in Hq. destruct (In_aset_nodup _ _ _ _ _ A1 Hq) as [[E3 E4] | [E3 E4]].
        -- subst n q. cbn in Hj. destruct Hj as [Hj | []]. subst j. rewrite Z.eqb_refl.
           apply In_ns_add. left. reflexivity.
        -- destruct (Z.eqb j i) eqn:Eji.
           ++ apply Z.eqb_eq in Eji. subst j. apply In_ns_add. right.
              apply (Hinst a ap n q i (Hsrc n q E4) E4 Hj).
           ++ apply (Hinst a ap n q j (Hsrc n q E4) E4 Hj).
      * destruct (Z.eqb j i) eqn:Eji.
        -- apply Z.eqb_eq in Eji. subst j. apply In_ns_add. right. apply (Hinst x v n q i E2 Hq Hj).
        -- apply (Hinst x v n q j E2 Hq Hj).
Qed.

Lemma load_all_inv0 : forall i infos st, inv0 st -> Forall info_respects infos -> inv0 (load_all cfg i infos st).
Proof.
  intros i infos. induction infos as [|info r IH]; intros st H HF; cbn; [exact H|].
  inversion HF as [|x xs Hx Hxs]. subst. apply IH; [apply load_one_inv0; assumption | exact Hxs].
Qed.

Lemma akeys_resequence : forall apps, akeys (resequence apps) = akeys apps.
Proof.
  intros apps. unfold resequence, akeys. rewrite map_map. cbn. reflexivity.
Qed.

Lemma In_resequence : forall a ap apps, In (a, ap) (resequence apps) ->
  exists ap0, In (a, ap0) apps /\ ap = update_sequences ap0.
Proof.
  intros a ap apps H. unfold resequence in H. apply in_map_iff in H. destruct H as [[a0 ap0] [E H]].
  cbn in E. inversion E. subst. exists ap0. split; [exact H | reflexivity].
Qed.

Lemma ctx_load_inv : forall i infos st, inv0 st -> Forall info_respects infos -> inv (ctx_load cfg i infos st).
Proof.
  intros i infos st H HF. pose proof (load_all_inv0 i infos st H HF) as [Hnd [Happs Hinst]].
  unfold ctx_load. split; [cbn [s_apps]; rewrite akeys_resequence; exact Hnd|]. split.
  - cbn. intros a ap Hin. destruct (In_resequence _ _ _ Hin) as [ap0 [H0 E]]. subst ap.
    apply update_sequences_inv. apply Happs. exact H0.
  - intros a ap n p j Hin Hp Hj. cbn in Hin. destruct (In_resequence _ _ _ Hin) as [ap0 [H0 E]]. subst ap.
    cbn in Hp. unfold inst_of. cbn. apply (Hinst a ap0 n p j H0 Hp Hj).
Qed.

(* ---------------------------------------------------------------- ApplicationStatus.remove_process *)
Lemma app_remove_ok : forall a ap n p, app_inv0 a ap -> aget n (a_procs ap) = Some p ->
  exists ap', app_remove n ap = Ok ap' /\ app_inv a ap' /\ a_procs ap' = adel n (a_procs ap).
Proof.
  intros a ap n p [A1 A2 A3 A4 A5] G. pose proof (aget_In _ _ _ G) as Hp.
  destruct (A2 n p Hp) as [g [Gg Hg]].
  unfold app_remove. rewrite G, Gg.
  assert (Hm : ns_mem (n, p_uid p) g = true) by (apply ns_mem_In; exact Hg).
  rewrite Hm. cbn [negb].
  eexists. split; [reflexivity|]. split; [|reflexivity].
  apply update_sequences_inv. constructor; cbn [a_procs a_groups a_managed].
  - apply NoDup_akeys_adel. exact A1.
  - intros n' q Hq. destruct (In_adel_nodup _ _ _ _ A1 Hq) as [Hne Hq'].
    destruct (A2 n' q Hq') as [g0 [G0 Hg0]].
    assert (Hent : (n', p_uid q) <> (n, p_uid p)) by (intros E; inversion E; contradiction).
    destruct (Z.eqb (p_prog q) (p_prog p)) eqn:Eq.
    + apply Z.eqb_eq in Eq. rewrite Eq in G0. rewrite Gg in G0. inversion G0. subst g0.
      pose proof (In_ref_remove_other _ _ _ Hent Hg0) as Hr.
      destruct (ref_remove (n, p_uid p) g) as [|y r] eqn:Er; [contradiction|].
      exists (y :: r). rewrite aget_aset, Eq, Z.eqb_refl. split; [reflexivity | exact Hr].
    + exists g0. split; [|exact Hg0].
      destruct (ref_remove (n, p_uid p) g) as [|y r].
      * rewrite aget_adel_other; [exact G0 | apply Z.eqb_neq; exact Eq].
      * rewrite aget_aset, Eq. exact G0.
  - intros n' q Hq. apply A3. apply In_adel with n. exact Hq.
  - exact A4.
  - intros n' q Hq. apply A5. apply In_adel with n. exact Hq.
Qed.

(* ---------------------------------------------------------------- Context.on_process_removed_event *)
Lemma NoDup_map_fst_filter {V} : forall (f : Z * V -> bool) (l : alist V),
  NoDup (map fst l) -> NoDup (map fst (filter f l)).
Proof.
  intros f l. induction l as [|x r IH]; cbn; intros H; [constructor|].
  inversion H as [|y ys Hnot Hnd]. subst. destruct (f x); cbn; [|apply IH; exact Hnd].
  constructor; [|apply IH; exact Hnd]. intros Hin. apply Hnot.
  apply in_map_iff in Hin. destruct Hin as [z [E Hz]]. apply filter_In in Hz. apply in_map_iff. exists z.
  split; [exact E | apply Hz].
Qed.

Lemma targets_spec : forall i n ap ts, NoDup (akeys (a_procs ap)) -> targets i n ap = Some ts ->
  NoDup (map fst ts) /\ forall nm p, In (nm, p) ts -> In (nm, p) (a_procs ap) /\ In i (p_infos p).
Proof.
  intros i n ap ts Hnd. unfold targets. destruct n as [nm|].
  - destruct (aget nm (a_procs ap)) as [p|] eqn:G; [|discriminate].
    destruct (zmem i (p_infos p)) eqn:Z; [|discriminate]. intros H. inversion H. subst ts. split.
    + cbn. constructor; [intros [] | constructor].
    + intros nm' p' [E | []]. inversion E. subst. split; [apply aget_In; exact G | apply zmem_In; exact Z].
  - intros H. inversion H. subst ts. split.
    + apply NoDup_map_fst_filter. exact Hnd.
    + intros nm p Hin. apply filter_In in Hin. destruct Hin as [H1 H2]. cbn in H2. split; [exact H1 | apply zmem_In; exact H2].
Qed.

Section Loop.
Variable st : state.
Variable i a : Z.

(* what holds between two iterations of the loop over the target processes *)
Record loop_inv (ts : list (Z * proc)) (il : list ns) (ap : app) : Prop := {
  L_app : app_inv a ap;
  L_ts : forall nm p, In (nm, p) ts -> In (nm, p) (a_procs ap) /\ In i (p_infos p);
  L_nd : NoDup (map fst ts);
  L_il : forall n q, In (n, q) (a_procs ap) -> In i (p_infos q) -> In (a, n) il;
  L_other : forall n q j, In (n, q) (a_procs ap) -> In j (p_infos q) -> j <> i -> In (a, n) (inst_of j st);
  L_keep : forall x n, x <> a -> In (x, n) (inst_of i st) -> In (x, n) il }.

Lemma remove_target_ok : forall pub nm p ts il ap imp pubs, loop_inv ((nm, p) :: ts) il ap ->
  exists il' ap' imp' pubs', remove_target pub i a (nm, p) (il, ap, imp, pubs) = Ok (il', ap', imp', pubs')
                             /\ loop_inv ts il' ap'.
Proof.
  intros pub nm p ts il ap imp pubs [[A0 [As At]] Lts Lnd Lil Lother Lkeep].
  destruct (Lts nm p (or_introl eq_refl)) as [Hp Hi].
  pose proof A0 as [A1 A2 A3 A4 A5].
  pose proof (In_aget _ _ _ A1 Hp) as Gp.
  inversion Lnd as [|x xs Hnot Lnd']. subst.
  assert (Hne : forall nm' p', In (nm', p') ts -> nm' <> nm).
  { intros nm' p' Hin E. subst nm'. apply Hnot. cbn. apply in_map_iff. exists (nm, p'). split; [reflexivity | exact Hin]. }
  unfold remove_target.
  assert (Hm : ns_mem (a, nm) il = true) by (apply ns_mem_In; apply (Lil nm p Hp Hi)).
  rewrite Hm. cbn [negb].
  assert (Hz : zmem i (p_infos p) = true) by (apply zmem_In; exact Hi).
  rewrite Hz. cbn [negb].
  destruct (zdiscard i (p_infos p)) as [|j0 rest] eqn:Ed.
  - (* the last instance holding the process: it leaves the application *)
    destruct (app_remove_ok a ap nm p A0 Gp) as [ap' [Er [Hinv' Hprocs']]].
    rewrite Er. cbn [bind]. do 4 eexists. split; [reflexivity|]. constructor.
    + exact Hinv'.
    + intros nm' p' Hin. destruct (Lts nm' p' (or_intror Hin)) as [H1 H2]. split; [|exact H2].
      rewrite Hprocs'. apply In_adel_other; [apply (Hne nm' p' Hin) | exact H1].
    + exact Lnd'.
    + intros n q Hq Hqi. rewrite Hprocs' in Hq. destruct (In_adel_nodup _ _ _ _ A1 Hq) as [Hn Hq'].
      apply In_ns_del. split; [intros E; inversion E; contradiction | apply (Lil n q Hq' Hqi)].
    + intros n q j Hq Hj Hji. rewrite Hprocs' in Hq. apply (Lother n q j (In_adel _ _ _ _ Hq) Hj Hji).
    + intros x n Hx Hin. apply In_ns_del. split; [intros E; inversion E; contradiction | apply Lkeep; assumption].
  - (* other instances still hold it *)
    set (p' := mkproc (p_uid p) (p_prog p) (p_sseq p) (p_tseq p) (j0 :: rest)).
    do 4 eexists. split; [reflexivity|].
    assert (Hinfos : forall j, In j (j0 :: rest) <-> j <> i /\ In j (p_infos p)).
    { intros j. rewrite <- Ed. apply In_zdiscard. }
    constructor.
    + split.
      * constructor; cbn [a_procs a_groups a_managed].
        -- apply NoDup_akeys_aset. exact A1.
        -- intros n q Hq. destruct (In_aset_nodup _ _ _ _ _ A1 Hq) as [[E1 E2] | [E1 E2]].
           ++ subst n q. cbn. apply A2. exact Hp.
           ++ apply A2. exact E2.
        -- intros n q Hq. destruct (In_aset_nodup _ _ _ _ _ A1 Hq) as [[E1 E2] | [E1 E2]].
           ++ subst n q. cbn. apply A3. exact Hp.
           ++ apply A3. exact E2.
        -- exact A4.
        -- intros n q Hq. destruct (In_aset_nodup _ _ _ _ _ A1 Hq) as [[E1 E2] | [E1 E2]].
           ++ subst n q. cbn. apply A5. exact Hp.
           ++ apply A5. exact E2.
      * unfold fresh_seqs. cbn [a_start a_stop a_procs a_managed]. rewrite As, At. split.
        -- destruct (a_managed ap); [|reflexivity]. apply build_seq_ext. symmetry.
           apply map_aset_same with p; [exact Gp | reflexivity].
        -- apply build_seq_ext. symmetry. apply map_aset_same with p; [exact Gp | reflexivity].
    + intros nm' p'' Hin. destruct (Lts nm' p'' (or_intror Hin)) as [H1 H2]. split; [|exact H2].
      cbn [a_procs]. apply In_aset_other; [apply (Hne nm' p'' Hin) | exact H1].
    + exact Lnd'.
    + intros n q Hq Hqi. cbn [a_procs] in Hq. destruct (In_aset_nodup _ _ _ _ _ A1 Hq) as [[E1 E2] | [E1 E2]].
      * subst n q. cbn in Hqi. apply Hinfos in Hqi. destruct Hqi as [Hqi _]. exfalso. apply Hqi. reflexivity.
      * apply In_ns_del. split; [intros E; inversion E; contradiction | apply (Lil n q E2 Hqi)].
    + intros n q j Hq Hj Hji. cbn [a_procs] in Hq. destruct (In_aset_nodup _ _ _ _ _ A1 Hq) as [[E1 E2] | [E1 E2]].
      * subst n q. cbn in Hj. apply Hinfos in Hj. apply (Lother nm p j Hp (proj2 Hj) Hji).
      * apply (Lother n q j E2 Hj Hji).
    + intros x n Hx Hin. apply In_ns_del. split; [intros E; inversion E; contradiction | apply Lkeep; assumption].
Qed.

Lemma remove_loop_ok : forall pub ts il ap imp pubs, loop_inv ts il ap ->
  exists il' ap' imp' pubs', remove_loop pub i a ts (il, ap, imp, pubs) = Ok (il', ap', imp', pubs')
                             /\ loop_inv [] il' ap'.
Proof.
  intros pub ts. induction ts as [|[nm p] r IH]; intros il ap imp pubs H; cbn [remove_loop].
  - do 4 eexists. split; [reflexivity | exact H].
  - destruct (remove_target_ok pub nm p r il ap imp pubs H) as [il1 [ap1 [imp1 [pubs1 [E1 H1]]]]].
    rewrite E1. cbn [bind]. apply IH. exact H1.
Qed.
End Loop.

Lemma inst_of_set : forall apps i L st j,
  inst_of j (mkstate apps (aset i L (s_inst st)) (s_next st)) = if Z.eqb j i then L else inst_of j st.
Proof.
  intros apps i L st j. unfold inst_of. cbn. rewrite aget_aset. destruct (Z.eqb j i); reflexivity.
Qed.

Lemma ctx_removed_ok : forall i a n st, inv st ->
  exists st' pubs, ctx_removed cfg i a n st = Ok (st', pubs) /\ inv st'.
Proof.
  intros i a n st Hinv. pose proof Hinv as [Hnd [Happs Hinst]]. unfold ctx_removed.
  destruct (zmem i (c_active cfg)); cbn [negb]; [|exists st, []; split; [reflexivity | exact Hinv]].
  destruct (aget a (s_apps st)) as [ap|] eqn:Ga; [|exists st, []; split; [reflexivity | exact Hinv]].
  pose proof (aget_In _ _ _ Ga) as Hap. pose proof (Happs a ap Hap) as Hai.
  destruct (targets i n ap) as [ts|] eqn:Et; [|exists st, []; split; [reflexivity | exact Hinv]].
  destruct (targets_spec i n ap ts (I_nodup _ _ (proj1 Hai)) Et) as [Tnd Tin].
  assert (HL : loop_inv st i a ts (inst_of i st) ap).
  { constructor.
    - exact Hai.
    - exact Tin.
    - exact Tnd.
    - intros n0 q Hq Hqi. apply (Hinst a ap n0 q i Hap Hq Hqi).
    - intros n0 q j Hq Hj _. apply (Hinst a ap n0 q j Hap Hq Hj).
    - intros x n0 _ H. exact H. }
  destruct (remove_loop_ok st i a (c_pub cfg) ts (inst_of i st) ap false [] HL) as [il' [ap' [imp' [pubs' [El HL']]]]].
  rewrite El. cbn [bind]. destruct HL' as [Lapp _ _ Lil Lother Lkeep].
  eexists. eexists. split; [reflexivity|].
  assert (Hinst_other : forall x v n0 q j, x <> a -> In (x, v) (s_apps st) -> In (n0, q) (a_procs v) -> In j (p_infos q) ->
            In (x, n0) (if Z.eqb j i then il' else inst_of j st)).
  { intros x v n0 q j Hx Hv Hq Hj. destruct (Z.eqb j i) eqn:Eji.
    - apply Z.eqb_eq in Eji. subst j. apply Lkeep; [exact Hx | apply (Hinst x v n0 q i Hv Hq Hj)].
    - apply (Hinst x v n0 q j Hv Hq Hj). }
  destruct (a_procs ap') as [|pr0 prs] eqn:Ep.
  - (* the application is deleted *)
    split; [cbn [s_apps]; apply NoDup_akeys_adel; exact Hnd|]. split.
    + cbn [s_apps]. intros x v Hx. apply Happs. apply In_adel with a. exact Hx.
    + intros x v n0 q j Hx Hq Hj. rewrite inst_of_set. cbn [s_apps] in Hx.
      destruct (In_adel_nodup _ _ _ _ Hnd Hx) as [Hne Hx']. apply (Hinst_other x v n0 q j Hne Hx' Hq Hj).
  - split; [cbn [s_apps]; apply NoDup_akeys_aset; exact Hnd|]. split.
    + cbn [s_apps]. intros x v Hx. destruct (In_aset_nodup _ _ _ _ _ Hnd Hx) as [[E1 E2] | [E1 E2]].
      * subst x v. exact Lapp.
      * apply Happs. exact E2.
    + intros x v n0 q j Hx Hq Hj. rewrite inst_of_set. cbn [s_apps] in Hx.
      destruct (In_aset_nodup _ _ _ _ _ Hnd Hx) as [[E1 E2] | [E1 E2]].
      * subst x v. rewrite Ep in Hq. destruct (Z.eqb j i) eqn:Eji.
        -- apply Z.eqb_eq in Eji. subst j. apply (Lil n0 q Hq Hj).
        -- apply Z.eqb_neq in Eji. apply (Lother n0 q j Hq Hj Eji).
      * apply (Hinst_other x v n0 q j E1 E2 Hq Hj).
Qed.

(* ---------------------------------------------------------------- the readers *)
Lemma build_seq_In : forall key ps e, In e (concat (avals (build_seq key ps []))) <-> In e (map ent ps).
Proof.
  intros key ps e. pose proof (build_seq_perm key ps []) as HP. cbn in HP. split; intros H.
  - apply (Permutation_in _ HP H).
  - apply (Permutation_in _ (Permutation_sym HP) H).
Qed.

Lemma seq_entries : forall a ap e, app_inv a ap ->
  In e (concat (avals (a_start ap))) \/ In e (concat (avals (a_stop ap))) ->
  exists n p, In (n, p) (a_procs ap) /\ e = (n, p_uid p).
Proof.
  intros a ap e [_ [Hs Ht]] H.
  assert (He : In e (map ent (a_procs ap))).
  { destruct H as [H | H].
    - rewrite Hs in H. destruct (a_managed ap); [apply build_seq_In in H; exact H | destruct H].
    - rewrite Ht in H. apply build_seq_In in H. exact H. }
  apply in_map_iff in He. destruct He as [[n p] [E Hin]]. exists n, p. split; [exact Hin | symmetry; exact E].
Qed.

Lemma ref_of_proc : forall a ap n p, app_inv0 a ap -> In (n, p) (a_procs ap) ->
  is_current ap (n, p_uid p) = true /\ ref_prog ap (n, p_uid p) = p_prog p.
Proof.
  intros a ap n p H Hp. pose proof (In_aget _ _ _ (I_nodup _ _ H) Hp) as G.
  unfold is_current, ref_prog. cbn. rewrite G, Z.eqb_refl. split; reflexivity.
Qed.

Lemma resolve_rules_ok : forall a ap, app_inv a ap -> resolve_rules ap = Ok tt.
Proof.
  intros a ap H. unfold resolve_rules.
  assert (E : forallb (fun e => amem (ref_prog ap e) (a_groups ap)) (concat (avals (a_start ap))) = true).
  { apply forallb_forall. intros e He. destruct (seq_entries a ap e H (or_introl He)) as [n [p [Hp Ee]]]. subst e.
    destruct (ref_of_proc a ap n p (proj1 H) Hp) as [_ Hr]. rewrite Hr.
    destruct (I_grp _ _ (proj1 H) n p Hp) as [g [G _]]. apply amem_aget with g. exact G. }
  rewrite E. reflexivity.
Qed.

Lemma store_application_ok : forall a ap, app_inv a ap -> exists q, store_application ap = Ok q.
Proof.
  intros a ap H. unfold store_application. destruct (has_pos_seq ap); [|exists false; reflexivity].
  rewrite (resolve_rules_ok a ap H). exists true. reflexivity.
Qed.

Lemma start_all_ok : forall l b, (forall a ap, In (a, ap) l -> app_inv a ap) -> exists q, start_all l b = Ok q.
Proof.
  intros l. induction l as [|[a ap] r IH]; intros b H; cbn [start_all]; [exists b; reflexivity|].
  assert (Hr : forall a0 ap0, In (a0, ap0) r -> app_inv a0 ap0) by (intros; apply H; right; assumption).
  destruct (a_managed ap); [|apply IH; exact Hr].
  destruct (store_application_ok a ap (H a ap (or_introl eq_refl))) as [q Eq]. rewrite Eq. cbn [bind].
  apply IH. exact Hr.
Qed.

(* ---------------------------------------------------------------- one operation *)
Definition op_respects (o : op) : Prop :=
  match o with
  | Load _ infos => Forall info_respects infos
  | _ => True
  end.

Definition is_read (o : op) : bool :=
  match o with Resolve _ | StartApp _ | RestartSeq => true | _ => false end.

Lemma step_inv : forall st o, inv st -> op_respects o ->
  (exists st' r pubs, step cfg st o = Ok (st', r, pubs) /\ inv st' /\ (is_read o = true -> st' = st /\ pubs = []))
  \/ (exists a n ap, o = AppRemove a n /\ aget a (s_apps st) = Some ap /\ aget n (a_procs ap) = None
                     /\ step cfg st o = Crash KeyError).
Proof.
  intros st o Hinv Hresp. pose proof Hinv as [Hnd [Happs Hinst]]. destruct o as [i infos | i a n | a n | a | a |]; cbn [step].
  - left. do 3 eexists. split; [reflexivity|]. split; [|discriminate].
    apply ctx_load_inv; [apply inv_inv0; exact Hinv | exact Hresp].
  - left. destruct (ctx_removed_ok i a n st Hinv) as [st' [pubs [E H']]]. rewrite E. cbn.
    do 3 eexists. split; [reflexivity|]. split; [exact H' | discriminate].
  - destruct (aget a (s_apps st)) as [ap|] eqn:Ga.
    + pose proof (aget_In _ _ _ Ga) as Hap. destruct (aget n (a_procs ap)) as [p|] eqn:Gp.
      * left. destruct (app_remove_ok a ap n p (proj1 (Happs a ap Hap)) Gp) as [ap' [E [Hi Hp]]]. rewrite E. cbn [bind].
        do 3 eexists. split; [reflexivity|]. split; [|discriminate].
        split; [cbn [s_apps]; apply NoDup_akeys_aset; exact Hnd|]. split.
        -- cbn [s_apps]. intros x v Hx. destruct (In_aset_nodup _ _ _ _ _ Hnd Hx) as [[E1 E2] | [E1 E2]].
           ++ subst x v. exact Hi.
           ++ apply Happs. exact E2.
        -- intros x v n0 q j Hx Hq Hj. unfold inst_of. cbn [s_inst]. cbn [s_apps] in Hx.
           destruct (In_aset_nodup _ _ _ _ _ Hnd Hx) as [[E1 E2] | [E1 E2]].
           ++ subst x v. rewrite Hp in Hq. apply (Hinst a ap n0 q j Hap (In_adel _ _ _ _ Hq) Hj).
           ++ apply (Hinst x v n0 q j E2 Hq Hj).
      * right. exists a, n, ap. split; [reflexivity|]. split; [exact Ga|]. split; [exact Gp|].
        unfold app_remove. rewrite Gp. reflexivity.
    + left. do 3 eexists. split; [reflexivity|]. split; [exact Hinv | discriminate].
  - left. destruct (aget a (s_apps st)) as [ap|] eqn:Ga.
    + rewrite (resolve_rules_ok a ap (Happs a ap (aget_In _ _ _ Ga))). cbn [bind].
      do 3 eexists. split; [reflexivity|]. split; [exact Hinv|]. intros _. split; reflexivity.
    + do 3 eexists. split; [reflexivity|]. split; [exact Hinv|]. intros _. split; reflexivity.
  - left. destruct (aget a (s_apps st)) as [ap|] eqn:Ga.
    + destruct (a_managed ap); cbn [negb].
      * destruct (store_application_ok a ap (Happs a ap (aget_In _ _ _ Ga))) as [q Eq]. rewrite Eq. cbn [bind].
        do 3 eexists. split; [reflexivity|]. split; [exact Hinv|]. intros _. split; reflexivity.
      * do 3 eexists. split; [reflexivity|]. split; [exact Hinv|]. intros _. split; reflexivity.
    + do 3 eexists. split; [reflexivity|]. split; [exact Hinv|]. intros _. split; reflexivity.
  - left. destruct (start_all_ok (s_apps st) false Happs) as [q Eq]. rewrite Eq. cbn [bind].
    do 3 eexists. split; [reflexivity|]. split; [exact Hinv|]. intros _. split; reflexivity.
Qed.

(* ---------------------------------------------------------------- the specification checker accepts the invariant *)
Lemma nodupb_NoDup : forall l, NoDup l -> nodupb l = true.
Proof.
  intros l H. induction H as [|x r Hnot Hnd IH]; cbn; [reflexivity|].
  rewrite IH, andb_true_r. apply negb_true_iff. apply zmem_false. exact Hnot.
Qed.

Lemma oflat_obs_seq : forall ap s, oflat (obs_seq ap s) = map (obs_ref ap) (concat (avals s)).
Proof.
  intros ap s. unfold oflat, obs_seq, avals. induction s as [|[k l] r IH]; cbn; [reflexivity|].
  rewrite map_app, <- IH. reflexivity.
Qed.

Lemma in_seq_obs : forall ap s k l n u, aget k s = Some l -> In (n, u) l -> in_seq k n (obs_seq ap s) = true.
Proof.
  intros ap s k l n u G Hin. unfold in_seq, obs_seq. apply existsb_exists. exists (k, map (obs_ref ap) l). split.
  - apply in_map_iff. exists (k, l). split; [reflexivity | apply aget_In; exact G].
  - cbn. rewrite Z.eqb_refl. cbn. apply existsb_exists. exists (obs_ref ap (n, u)). split.
    + apply in_map. exact Hin.
    + unfold obs_ref, or_name. cbn. apply Z.eqb_refl.
Qed.

Lemma seq_refs_ok_obs : forall a ap s, app_inv a ap ->
  (forall e, In e (concat (avals s)) -> In e (map ent (a_procs ap))) -> NoDup (map fst (concat (avals s))) ->
  seq_refs_ok (akeys (a_procs ap)) (akeys (a_groups ap)) (obs_seq ap s) = true.
Proof.
  intros a ap s H Hsub Hnd. unfold seq_refs_ok. rewrite oflat_obs_seq. apply andb_true_iff. split.
  - apply forallb_forall. intros o Ho. apply in_map_iff in Ho. destruct Ho as [e [Eo He]]. subst o.
    apply Hsub in He. apply in_map_iff in He. destruct He as [[n p] [Ee Hp]]. subst e. cbn [ent fst snd].
    destruct (ref_of_proc a ap n p (proj1 H) Hp) as [Hc Hr].
    unfold obs_ref, or_cur, or_name, or_prog. cbn [fst snd].
    change (ent (n, p)) with (n, p_uid p). cbn [fst snd]. rewrite Hc, Hr. cbn [andb].
    apply andb_true_iff. split.
    + apply zmem_In. apply In_akeys with p. exact Hp.
    + destruct (I_grp _ _ (proj1 H) n p Hp) as [g [G _]]. apply zmem_In. apply In_akeys with g. apply aget_In. exact G.
  - apply nodupb_NoDup. rewrite map_map.
    assert (E : map (fun x => or_name (obs_ref ap x)) (concat (avals s)) = map fst (concat (avals s))).
    { apply map_ext. intros x. reflexivity. }
    rewrite E. exact Hnd.
Qed.

Lemma build_seq_nodup : forall key ps, NoDup (akeys ps) -> NoDup (map fst (concat (avals (build_seq key ps [])))).
Proof.
  intros key ps H. pose proof (build_seq_perm key ps []) as HP. cbn in HP.
  apply (Permutation_NoDup (l := map fst (map ent ps))).
  - apply Permutation_map. apply Permutation_sym. exact HP.
  - rewrite map_map. cbn. exact H.
Qed.

Lemma oapp_ok_inv : forall a ap, app_inv a ap -> oapp_ok cfg (obs_app (a, ap)) = true.
Proof.
  intros a ap H. pose proof H as [H0 [Hs Ht]]. pose proof H0 as [A1 A2 A3 A4 A5].
  unfold obs_app, oapp_ok. cbn [fst snd]. rewrite !map_map. cbn [fst snd].
  change (map (fun x : Z * proc => fst x) (a_procs ap)) with (akeys (a_procs ap)).
  change (map (fun x : Z * list ns => fst x) (a_groups ap)) with (akeys (a_groups ap)).
  apply andb_true_iff. split; [apply andb_true_iff; split|].
  - apply (seq_refs_ok_obs a ap (a_start ap) H).
    + rewrite Hs. destruct (a_managed ap); [intros e He; apply build_seq_In in He; exact He | intros e []].
    + rewrite Hs. destruct (a_managed ap); [apply build_seq_nodup; exact A1 | constructor].
  - apply (seq_refs_ok_obs a ap (a_stop ap) H).
    + rewrite Ht. intros e He. apply build_seq_In in He. exact He.
    + rewrite Ht. apply build_seq_nodup. exact A1.
  - apply forallb_forall. intros n Hn. unfold akeys in Hn. apply in_map_iff in Hn. destruct Hn as [[n' p] [En Hp]].
    cbn in En. subst n'. rewrite <- (A3 n p Hp). apply andb_true_iff. split.
    + destruct (zmem a (c_managed cfg) && (0 <? p_sseq p)) eqn:Em; [|reflexivity]. cbn [negb orb].
      apply andb_true_iff in Em. destruct Em as [Em _]. rewrite <- A4 in Em. rewrite Em in Hs.
      destruct (build_seq_has p_sseq (a_procs ap) [] n p Hp) as [l [G Hl]]. rewrite <- Hs in G.
      apply in_seq_obs with l (p_uid p); assumption.
    + destruct (build_seq_has p_tseq (a_procs ap) [] n p Hp) as [l [G Hl]]. rewrite <- Ht in G.
      apply in_seq_obs with l (p_uid p); assumption.
Qed.

Lemma ostate_ok_inv : forall st, inv st -> ostate_ok cfg (observe cfg st) = true.
Proof.
  intros st [_ [Happs _]]. unfold ostate_ok, observe. cbn [fst]. apply forallb_forall. intros oa Hoa.
  apply in_map_iff in Hoa. destruct Hoa as [[a ap] [E Hin]]. subst oa. apply oapp_ok_inv. apply Happs. exact Hin.
Qed.

Lemma run_spec : forall ops st, inv st -> Forall op_respects ops ->
  spec_violated cfg (observe cfg st) ops (run cfg st ops) = false.
Proof.
  intros ops. induction ops as [|o r IH]; intros st Hinv HF; cbn [run spec_violated]; [reflexivity|].
  inversion HF as [|x xs Ho Hr]. subst.
  destruct (step_inv st o Hinv Ho) as [[st' [rep [pubs [E [Hinv' _]]]]] | [a [n [ap [Eo [Ga [Gn E]]]]]]].
  - rewrite E. cbn [spec_violated]. rewrite (ostate_ok_inv st' Hinv'). cbn [negb orb]. apply IH; assumption.
  - rewrite E. subst o. cbn [spec_violated crash_excused]. apply negb_false_iff. apply existsb_exists.
    exists (obs_app (a, ap)). split.
    + unfold observe. cbn [fst]. apply in_map. apply aget_In. exact Ga.
    + unfold obs_app, oapp_id, oapp_names. cbn [fst snd]. rewrite Z.eqb_refl. cbn [andb]. apply negb_true_iff.
      apply zmem_false. rewrite map_map. cbn [fst]. apply aget_None_keys. exact Gn.
Qed.

(* no exception at all, except remove_process(unknown name) *)
Lemma run_crash : forall ops st k, inv st -> Forall op_respects ops -> In (OCrash k) (run cfg st ops) ->
  k = KeyError /\ exists a n, In (AppRemove a n) ops.
Proof.
  intros ops. induction ops as [|o r IH]; intros st k Hinv HF Hin; cbn [run] in Hin; [destruct Hin|].
  inversion HF as [|x xs Ho Hr]. subst.
  destruct (step_inv st o Hinv Ho) as [[st' [rep [pubs [E [Hinv' _]]]]] | [a [n [ap [Eo [Ga [Gn E]]]]]]].
  - rewrite E in Hin. destruct Hin as [Hin | Hin]; [discriminate|].
    destruct (IH st' k Hinv' Hr Hin) as [Hk [a [n Han]]]. split; [exact Hk|]. exists a, n. right. exact Han.
  - rewrite E in Hin. destruct Hin as [Hin | []]. inversion Hin. split; [reflexivity|]. exists a, n. left. exact Eo.
Qed.

(* ---------------------------------------------------------------- reachable states *)
Inductive reachable : state -> Prop :=
| R_init : reachable init_state
| R_step : forall st o st' r pubs, reachable st -> op_respects o -> step cfg st o = Ok (st', r, pubs) -> reachable st'.

Lemma reachable_inv : forall st, reachable st -> inv st.
Proof.
  intros st H. induction H as [|st o st' r pubs Hreach IH Ho E]; [apply inv_init|].
  destruct (step_inv st o IH Ho) as [[st1 [r1 [pubs1 [E1 [H1 _]]]]] | [a [n [ap [_ [_ [_ E1]]]]]]].
  - rewrite E in E1. inversion E1. subst. exact H1.
  - rewrite E in E1. discriminate.
Qed.

End Invariant.

(* ================================================================ closed statements *)
Definition prog_table (ops : list op) : ns -> Z := fun k => first_prog k (all_infos ops).

Lemma respects_of_infos : forall F ops, (forall info, In info (all_infos ops) -> info_respects F info) ->
  Forall (op_respects F) ops.
Proof.
  intros F ops. induction ops as [|o r IH]; intros H; [constructor|].
  constructor.
  - destruct o; cbn; try exact I. apply Forall_forall. intros info Hin. apply H. cbn. apply in_or_app. left. exact Hin.
  - apply IH. intros info Hin. apply H. destruct o; cbn; try exact Hin. apply in_or_app. right. exact Hin.
Qed.

Lemma prog_consistent_respects : forall ops, prog_consistentb ops = true -> Forall (op_respects (prog_table ops)) ops.
Proof.
  intros ops H. apply respects_of_infos. intros info Hin. unfold prog_consistentb in H.
  rewrite forallb_forall in H. specialize (H info Hin). apply Z.eqb_eq in H. exact H.
Qed.

(* conversely a table respected by the whole history makes it consistent *)
Lemma first_prog_respects : forall F l k, (forall info, In info l -> info_respects F info) ->
  (exists g, In (k, g) l) -> first_prog k l = F k.
Proof.
  intros F l k. induction l as [|[[a n] g] r IH]; intros H [g0 Hin]; [destruct Hin|]. cbn.
  destruct (ns_eqb k (a, n)) eqn:E.
  - apply ns_eqb_eq in E. subst k. apply (H (a, n, g)). left. reflexivity.
  - apply IH.
    + intros info Hi. apply H. right. exact Hi.
    + destruct Hin as [Hin | Hin]; [inversion Hin; subst; rewrite ns_eqb_refl in E; discriminate | exists g0; exact Hin].
Qed.

Lemma respects_prog_consistent : forall F ops, (forall info, In info (all_infos ops) -> info_respects F info) ->
  prog_consistentb ops = true.
Proof.
  intros F ops H. unfold prog_consistentb. apply forallb_forall. intros [k g] Hin. cbn [fst snd].
  apply Z.eqb_eq. rewrite (first_prog_respects F (all_infos ops) k H); [|exists g; exact Hin].
  apply (H (k, g) Hin).
Qed.

Fixpoint no_same (os : list obs) : Prop :=
  match os with
  | [] => True
  | OSame _ :: _ => False
  | _ :: r => no_same r
  end.

Lemma run_no_same : forall cfg ops st, no_same (run cfg st ops).
Proof.
  intros cfg ops. induction ops as [|o r IH]; intros st; cbn; [exact I|].
  destruct (step cfg st o) as [[[st' rep] pubs]|k]; cbn; [apply IH | exact I].
Qed.

Lemma expand_no_same : forall os prev, no_same os -> expand prev os = os.
Proof.
  intros os. induction os as [|o r IH]; intros prev H; cbn; [reflexivity|].
  destruct o; cbn in H; [rewrite IH by exact H; reflexivity | destruct H | rewrite IH by exact H; reflexivity].
Qed.

(* the model satisfies the specification, for every configuration and every history (of any length) in which each
   namespec keeps one program name *)
Theorem model_satisfies_spec : forall cfg ops, prog_consistentb ops = true ->
  case_spec_violation (cfg, ops, run cfg init_state ops) = false.
Proof.
  intros cfg ops H. unfold case_spec_violation. rewrite expand_no_same by apply run_no_same.
  apply run_spec with (prog_table ops); [apply inv_init | apply prog_consistent_respects; exact H].
Qed.

Theorem no_internal_error : forall cfg ops k, prog_consistentb ops = true ->
  In (OCrash k) (run cfg init_state ops) -> k = KeyError /\ exists a n, In (AppRemove a n) ops.
Proof.
  intros cfg ops k H Hin.
  apply run_crash with cfg (prog_table ops) init_state; [apply inv_init | apply prog_consistent_respects; exact H | exact Hin].
Qed.

(* the history as Supvisors produces it (no direct call of remove_process): nothing is raised at all *)
Definition context_paths_only (ops : list op) : Prop := forall a n, ~ In (AppRemove a n) ops.

Theorem no_internal_error_context : forall cfg ops k, prog_consistentb ops = true -> context_paths_only ops ->
  ~ In (OCrash k) (run cfg init_state ops).
Proof.
  intros cfg ops k H Hc Hin. destruct (no_internal_error cfg ops k H Hin) as [_ [a [n Han]]]. apply (Hc a n Han).
Qed.

(* every reachable state satisfies the invariant; what it means for the users of the sequences *)
Theorem reachable_sequences_exact : forall cfg F st a ap, reachable cfg F st -> In (a, ap) (s_apps st) ->
  NoDup (akeys (a_procs ap))
  /\ Permutation (concat (avals (a_stop ap))) (map ent (a_procs ap))
  /\ Permutation (concat (avals (a_start ap))) (if a_managed ap then map ent (a_procs ap) else [])
  /\ (forall n p, In (n, p) (a_procs ap) -> amem (p_prog p) (a_groups ap) = true)
  /\ (forall e, In e (concat (avals (a_start ap)) ++ concat (avals (a_stop ap))) ->
        is_current ap e = true /\ amem (ref_prog ap e) (a_groups ap) = true).
Proof.
  intros cfg F st a ap Hr Hin. pose proof (reachable_inv cfg F st Hr) as [_ [Happs _]].
  pose proof (Happs a ap Hin) as Hai. pose proof Hai as [H0 [Hs Ht]].
  split; [apply (I_nodup _ _ _ _ H0)|]. split; [|split; [|split]].
  - rewrite Ht. pose proof (build_seq_perm p_tseq (a_procs ap) []) as HP. cbn in HP. exact HP.
  - rewrite Hs. destruct (a_managed ap); [|apply Permutation_refl].
    pose proof (build_seq_perm p_sseq (a_procs ap) []) as HP. cbn in HP. exact HP.
  - intros n p Hp. destruct (I_grp _ _ _ _ H0 n p Hp) as [g [G _]]. apply amem_aget with g. exact G.
  - intros e He. apply in_app_or in He.
    destruct (seq_entries cfg F a ap e Hai He) as [n [p [Hp Ee]]]. subst e.
    destruct (ref_of_proc cfg F a ap n p H0 Hp) as [Hc Hrp]. split; [exact Hc|]. rewrite Hrp.
    destruct (I_grp _ _ _ _ H0 n p Hp) as [g [G _]]. apply amem_aget with g. exact G.
Qed.

(* in a reachable state the start requests and resolve_rules answer (a result or a documented fault) and change
   nothing; PROCESS_REMOVED / PROCESS_ADDED / ALL_INFO never raise *)
Theorem reachable_reads_total : forall cfg F st o, reachable cfg F st -> is_read o = true ->
  exists r, step cfg st o = Ok (st, r, []).
Proof.
  intros cfg F st o Hr Ho. pose proof (reachable_inv cfg F st Hr) as Hinv.
  assert (Hresp : op_respects F o) by (destruct o; try discriminate; exact I).
  destruct (step_inv cfg F st o Hinv Hresp) as [[st' [r [pubs [E [_ Hsame]]]]] | [a [n [ap [Eo _]]]]].
  - destruct (Hsame Ho) as [E1 E2]. subst. exists r. exact E.
  - subst o. discriminate.
Qed.

Theorem reachable_events_total : forall cfg F st o, reachable cfg F st -> op_respects F o ->
  (forall a n, o <> AppRemove a n) -> exists st' r pubs, step cfg st o = Ok (st', r, pubs) /\ reachable cfg F st'.
Proof.
  intros cfg F st o Hr Ho Hne. pose proof (reachable_inv cfg F st Hr) as Hinv.
  destruct (step_inv cfg F st o Hinv Ho) as [[st' [r [pubs [E _]]]] | [a [n [ap [Eo _]]]]].
  - exists st', r, pubs. split; [exact E | apply R_step with st o r pubs; assumption].
  - exfalso. apply (Hne a n Eo).
Qed.

(* the only exception: the direct call remove_process(n) with n not in application.processes *)
Theorem reachable_direct_remove : forall cfg F st a n, reachable cfg F st ->
  (exists st', step cfg st (AppRemove a n) = Ok (st', (match aget a (s_apps st) with Some _ => RNone | None => RNoApp end), []))
  \/ (exists ap, aget a (s_apps st) = Some ap /\ aget n (a_procs ap) = None
                 /\ step cfg st (AppRemove a n) = Crash KeyError).
Proof.
  intros cfg F st a n Hr. pose proof (reachable_inv cfg F st Hr) as Hinv.
  destruct (step_inv cfg F st (AppRemove a n) Hinv I) as [[st' [r [pubs [E _]]]] | [a' [n' [ap [Eo [Ga [Gn E]]]]]]].
  - left. cbn [step] in E |- *. destruct (aget a (s_apps st)) as [ap|].
    + destruct (app_remove n ap); cbn in E |- *; [inversion E; eexists; reflexivity | discriminate].
    + inversion E. eexists. reflexivity.
  - inversion Eo. subst. right. exists ap. split; [exact Ga|]. split; [exact Gn | exact E].
Qed.

(* ---------------------------------------------------------------- the external publisher changes nothing else *)
Definition set_pub (b : bool) (cfg : config) : config :=
  mkconfig b (c_managed cfg) (c_rules cfg) (c_active cfg) (c_insts cfg).

Definition strip (r : result loop_acc) : result (list ns * app * bool) :=
  match r with Ok (il, ap, imp, _) => Ok (il, ap, imp) | Crash k => Crash k end.

Lemma remove_target_pub : forall pub pub' i a t il ap imp pubs pubs',
  strip (remove_target pub i a t (il, ap, imp, pubs)) = strip (remove_target pub' i a t (il, ap, imp, pubs')).
Proof.
  intros pub pub' i a [nm p] il ap imp pubs pubs'. unfold remove_target.
  destruct (ns_mem (a, nm) il); cbn [negb]; [|reflexivity].
  destruct (zmem i (p_infos p)); cbn [negb]; [|reflexivity].
  destruct (zdiscard i (p_infos p)); [|reflexivity].
  destruct (app_remove nm ap); reflexivity.
Qed.

Lemma remove_loop_pub : forall pub pub' i a ts il ap imp pubs pubs',
  strip (remove_loop pub i a ts (il, ap, imp, pubs)) = strip (remove_loop pub' i a ts (il, ap, imp, pubs')).
Proof.
  intros pub pub' i a ts. induction ts as [|t r IH]; intros il ap imp pubs pubs'; cbn [remove_loop]; [reflexivity|].
  pose proof (remove_target_pub pub pub' i a t il ap imp pubs pubs') as H.
  destruct (remove_target pub i a t (il, ap, imp, pubs)) as [[[[il1 ap1] imp1] pubs1]|k1];
    destruct (remove_target pub' i a t (il, ap, imp, pubs')) as [[[[il2 ap2] imp2] pubs2]|k2]; cbn in H; try discriminate.
  - inversion H. subst. cbn [bind]. apply IH.
  - inversion H. reflexivity.
Qed.

Definition drop_pubs (r : result (state * reply * list pubev)) : result (state * reply) :=
  match r with Ok (st, rep, _) => Ok (st, rep) | Crash k => Crash k end.

Lemma load_all_pub : forall b cfg i infos st, load_all (set_pub b cfg) i infos st = load_all cfg i infos st.
Proof.
  intros b cfg i infos. induction infos as [|info r IH]; intros st; cbn [load_all]; [reflexivity|].
  rewrite IH. reflexivity.
Qed.

Lemma step_pub : forall b cfg st o, drop_pubs (step (set_pub b cfg) st o) = drop_pubs (step cfg st o).
Proof.
  intros b cfg st o. destruct o as [i infos | i a n | a n | a | a |]; try reflexivity.
  { cbn [step]. unfold ctx_load. rewrite load_all_pub. reflexivity. }
  cbn [step]. unfold ctx_removed. cbn [set_pub c_active c_pub].
  destruct (zmem i (c_active cfg)); cbn [negb]; [|reflexivity].
  destruct (aget a (s_apps st)) as [ap|]; [|reflexivity].
  destruct (targets i n ap) as [ts|]; [|reflexivity].
  pose proof (remove_loop_pub b (c_pub cfg) i a ts (inst_of i st) ap false [] []) as H.
  destruct (remove_loop b i a ts (inst_of i st, ap, false, [])) as [[[[il1 ap1] imp1] pubs1]|k1];
    destruct (remove_loop (c_pub cfg) i a ts (inst_of i st, ap, false, [])) as [[[[il2 ap2] imp2] pubs2]|k2];
    cbn in H; try discriminate.
  - inversion H. subst. reflexivity.
  - inversion H. reflexivity.
Qed.

Definition obs_nopub (o : obs) : obs :=
  match o with OOk r _ st => OOk r [] st | other => other end.

Theorem publisher_irrelevant : forall b cfg ops st,
  map obs_nopub (run (set_pub b cfg) st ops) = map obs_nopub (run cfg st ops).
Proof.
  intros b cfg ops. induction ops as [|o r IH]; intros st; cbn [run]; [reflexivity|].
  pose proof (step_pub b cfg st o) as H.
  destruct (step (set_pub b cfg) st o) as [[[st1 r1] p1]|k1]; destruct (step cfg st o) as [[[st2 r2] p2]|k2];
    cbn in H; try discriminate.
  - inversion H. subst. cbn [map obs_nopub]. rewrite IH. reflexivity.
  - inversion H. reflexivity.
Qed.

(* ---------------------------------------------------------------- the hypothesis is needed: candidate finding
   One namespec announced with two program names (the Supervisor configurations of two instances disagree, or a
   program section was renamed on one of them): ProcessStatus.add_info overwrites program_name, process_groups keeps
   the first name: start_application raises KeyError. *)
Definition drift_cfg : config := mkconfig false [0] [((0, 0), (1, 1))] [1; 2] [1; 2].
Definition drift_ops : list op := [Load 1 [(0, 0, 0)]; Load 2 [(0, 0, 1)]; StartApp 0].

Theorem program_name_drift_refuted :
  context_paths_only drift_ops
  /\ case_spec_violation (drift_cfg, drift_ops, run drift_cfg init_state drift_ops) = true
  /\ In (OCrash KeyError) (run drift_cfg init_state drift_ops).
Proof.
  split; [|split].
  - intros a n [H | [H | [H | []]]]; discriminate.
  - vm_compute. reflexivity.
  - vm_compute. right. right. left. reflexivity.
Qed.

(* and PROCESS_REMOVED raises too (KeyError, or ValueError when another process holds the second program name) *)
Theorem program_name_drift_removal_refuted :
  In (OCrash KeyError) (run drift_cfg init_state [Load 1 [(0, 0, 0)]; Load 2 [(0, 0, 1)]; Removed 1 0 (Some 0);
                                                  Removed 2 0 (Some 0)])
  /\ In (OCrash ValueError) (run drift_cfg init_state [Load 1 [(0, 0, 0); (0, 1, 1)]; Load 2 [(0, 0, 1)];
                                                     Removed 1 0 (Some 0); Removed 2 0 (Some 0)]).
Proof.
  split; vm_compute.
  - right. right. right. left. reflexivity.
  - right. right. right. left. reflexivity.
Qed.

(* ---------------------------------------------------------------- the statements are not vacuous *)
Definition ex_cfg : config :=
  mkconfig false [0] [((0, 0), (1, 1)); ((0, 1), (2, 2)); ((0, 2), (0, 1))] [1; 2] [1; 2].
(* instance 2 is the only one knowing program 1 (process 1); it removes its group; the application survives; then
   removal of the last process of a program, re-addition, double removal, removal of everything *)
Definition ex_ops : list op :=
  [Load 1 [(0, 0, 0); (0, 2, 2)]; Load 2 [(0, 0, 0); (0, 1, 1)]; Removed 2 0 None; StartApp 0; RestartSeq; Resolve 0;
   Removed 1 0 (Some 2); Load 2 [(0, 1, 1)]; Removed 1 0 (Some 2); StartApp 0; Removed 2 0 None; Removed 1 0 None;
   StartApp 0].

Example ex_hypotheses_satisfiable :
  prog_consistentb ex_ops = true /\ context_paths_only ex_ops
  /\ map (fun o => match o with OOk r _ _ => Some r | _ => None end) (run ex_cfg init_state ex_ops)
     = [Some RNone; Some RNone; Some RNone; Some RDone; Some RDone; Some RNone; Some RNone; Some RNone; Some RNone;
        Some RDone; Some RNone; Some RNone; Some RBadName]
  /\ case_spec_violation (ex_cfg, ex_ops, run ex_cfg init_state ex_ops) = false.
Proof.
  split; [vm_compute; reflexivity|]. split; [|split; vm_compute; reflexivity].
  intros a n H. cbn in H. repeat (destruct H as [H | H]; [discriminate|]). exact H.
Qed.

Example ex_reachable : exists st, reachable ex_cfg (prog_table ex_ops) st /\ s_apps st <> [] /\ s_next st = 4.
Proof.
  assert (H : forall ops st, reachable ex_cfg (prog_table ex_ops) st -> Forall (op_respects (prog_table ex_ops)) ops ->
            forall st', fold_left (fun acc o => match acc with
                                                 | Some s => match step ex_cfg s o with Ok (s', _, _) => Some s' | Crash _ => None end
                                                 | None => None end) ops (Some st) = Some st' ->
            reachable ex_cfg (prog_table ex_ops) st').
  { intros ops. induction ops as [|o r IH]; intros st Hr HF st' E; cbn in E; [inversion E; subst; exact Hr|].
    inversion HF as [|x xs Ho Hxs]. subst.
    destruct (step ex_cfg st o) as [[[s1 r1] p1]|k] eqn:Es.
    - apply (IH s1); [apply R_step with st o r1 p1; assumption | exact Hxs | exact E].
    - exfalso. clear -E. induction r as [|o' r' IHr]; cbn in E; [discriminate | apply IHr; exact E]. }
  eexists. split.
  - apply (H [Load 1 [(0, 0, 0); (0, 2, 2)]; Load 2 [(0, 0, 0); (0, 1, 1)]; Removed 2 0 None; StartApp 0; RestartSeq;
              Resolve 0; Removed 1 0 (Some 2); Load 2 [(0, 1, 1)]] init_state (R_init _ _)).
    + repeat (constructor; try exact I); vm_compute; reflexivity.
    + vm_compute. reflexivity.
  - split; [discriminate | reflexivity].
Qed.

(* the direct remove_process on an unknown name is the excused exception (S1) *)
Example ex_direct_remove_unknown :
  run ex_cfg init_state [Load 1 [(0, 0, 0)]; AppRemove 0 5] <> [] /\
  last (run ex_cfg init_state [Load 1 [(0, 0, 0)]; AppRemove 0 5]) (OCrash OtherError) = OCrash KeyError /\
  case_spec_violation (ex_cfg, [Load 1 [(0, 0, 0)]; AppRemove 0 5], run ex_cfg init_state [Load 1 [(0, 0, 0)]; AppRemove 0 5])
  = false.
Proof. split; [vm_compute; discriminate|]. split; vm_compute; reflexivity. Qed.

(* the specification checker is not trivially true: a stale reference, a missing process, an unknown program
   name are rejected (observations that the code at HEAD never produces) *)
Example ex_spec_rejects :
  let ok := (0, true, [(0, 0, [1])], [(0, [(0, true)])], [(1, [(0, true, 0)])], [(1, [(0, true, 0)])]) : oapp in
  let stale := (0, true, [(0, 0, [1])], [(0, [(0, true)])], [(1, [(0, true, 0); (1, false, 1)])], [(1, [(0, true, 0)])]) : oapp in
  let missing := (0, true, [(0, 0, [1])], [(0, [(0, true)])], [], [(1, [(0, true, 0)])]) : oapp in
  let nogroup := (0, true, [(0, 0, [1])], [], [(1, [(0, true, 0)])], [(1, [(0, true, 0)])]) : oapp in
  oapp_ok ex_cfg ok = true /\ oapp_ok ex_cfg stale = false /\ oapp_ok ex_cfg missing = false
  /\ oapp_ok ex_cfg nogroup = false.
Proof. vm_compute. repeat split; reflexivity. Qed.
