(* EligibilityProofs.v — proofs about model/Eligibility.v (property C04).
   Placement facts come from proofs/StrategyProofs.v (C14), sequencing facts from proofs/SequencerProofs.v (C03).
   Plain Ltac, named hypotheses, arithmetic by lia. *)
From Coq Require Import List ZArith Bool Lia.
From Sup Require Import Base GenEnums Strategy StrategyProofs Eligibility.
From Sup Require Sequencer SequencerProofs.
Import ListNotations.
Open Scope Z_scope.

(* ================================================================== identifiers rules *)
Lemma mapper_filter_In : forall M rule i,
  In i (mapper_filter M rule) <-> exists x, In x rule /\ In i (resolve M x).
Proof.
  intros M rule i. unfold mapper_filter. rewrite zdedup_In, in_flat_map. tauto.
Qed.

(* mapper.filter returns no identifier twice *)
Lemma mapper_filter_NoDup : forall M rule, NoDup (mapper_filter M rule).
Proof. intros M rule. apply zdedup_NoDup. Qed.

(* the candidates of a rule are exactly the instances the rule permits *)
Lemma rule_candidates_spec : forall M rule i, In i (rule_candidates M rule) <-> permitted M rule i = true.
Proof.
  intros M rule i. unfold rule_candidates, permitted. destruct (zmem wildcard rule).
  - symmetry. apply zmem_In.
  - rewrite mapper_filter_In, existsb_exists. split.
    + intros [x [Hx Hi]]. exists x. split; [exact Hx | apply zmem_In; exact Hi].
    + intros [x [Hx Hi]]. exists x. split; [exact Hx | apply zmem_In; exact Hi].
Qed.

Lemma knows_enabled_iff : forall known disabled i,
  knows_enabled known disabled i = true <-> In i known /\ ~ In i disabled.
Proof.
  intros known disabled i. unfold knows_enabled.
  destruct (zmem i known) eqn:Ek; simpl.
  - rewrite negb_true_iff, zmem_false_In. apply zmem_In in Ek. tauto.
  - apply zmem_false_In in Ek. split; [discriminate | tauto].
Qed.

(* knows_enabled is Strategy.eligible *)
Lemma knows_enabled_eligible : forall c i, knows_enabled (c_known c) (c_disabled c) i = eligible c i.
Proof. reflexivity. Qed.

(* ProcessStatus.possible_identifiers = permitted by the rule, known, enabled *)
Theorem possible_identifiers_spec : forall M rule known disabled i,
  In i (possible_identifiers M rule known disabled)
  <-> permitted M rule i = true /\ In i known /\ ~ In i disabled.
Proof.
  intros M rule known disabled i. unfold possible_identifiers.
  rewrite filter_In, rule_candidates_spec, knows_enabled_iff. tauto.
Qed.

Lemma ap_enabled_on_iff : forall p i, ap_enabled_on p i = true <-> In i (ap_known p) /\ ~ In i (ap_disabled p).
Proof.
  intros p i. unfold ap_enabled_on. rewrite andb_true_iff, negb_true_iff, zmem_In, zmem_false_In. tauto.
Qed.

(* ApplicationStatus.possible_identifiers = permitted by the application's rule and fit for EVERY program *)
Theorem app_possible_identifiers_spec : forall M rule procs i,
  In i (app_possible_identifiers M rule procs)
  <-> procs <> [] /\ permitted M rule i = true
      /\ forall p, In p procs -> In i (ap_known p) /\ ~ In i (ap_disabled p).
Proof.
  intros M rule procs i. unfold app_possible_identifiers. destruct procs as [|p0 r].
  - split; [intros [] | intros [H _]; congruence].
  - rewrite filter_In, rule_candidates_spec, forallb_forall. split.
    + intros [Hp Ha]. split; [discriminate|]. split; [exact Hp|].
      intros p Hin. apply ap_enabled_on_iff. apply Ha. exact Hin.
    + intros [_ [Hp Ha]]. split; [exact Hp|]. intros p Hin. apply ap_enabled_on_iff. apply Ha. exact Hin.
Qed.

(* ApplicationStatus.possible_node_identifiers: every identifier returned is permitted by the application's rule and
   fit for at least one program (NOT for every program: each command is placed separately on the node) *)
Theorem app_possible_node_identifiers_sound : forall M nodes rule procs i,
  In i (app_possible_node_identifiers M nodes rule procs) ->
  permitted M rule i = true /\ exists p, In p procs /\ In i (ap_known p) /\ ~ In i (ap_disabled p).
Proof.
  intros M nodes rule procs i H. unfold app_possible_node_identifiers in H.
  apply filter_In in H. destruct H as [Hc He]. split; [apply rule_candidates_spec; exact Hc|].
  apply existsb_exists in He. destruct He as [[m ids] [_ Hs]]. simpl in Hs. apply zmem_In in Hs.
  unfold node_solution in Hs.
  destruct (forallb _ procs); [|contradiction].
  apply filter_In in Hs. destruct Hs as [_ Hs]. apply existsb_exists in Hs. destruct Hs as [p [Hp Hen]].
  exists p. split; [exact Hp | apply ap_enabled_on_iff; exact Hen].
Qed.

(* ================================================================== specification vs C14's validity *)
Lemma sees_running_iff : forall L i,
  NoDup (map fst (l_insts L)) -> (sees_running L i = true <-> In i (running_identifiers L)).
Proof.
  intros L i Hnd. unfold sees_running, running_identifiers. split.
  - intros H. destruct (aget i (l_insts L)) as [x|] eqn:E; [|discriminate].
    apply in_map_iff. exists (i, x). split; [reflexivity|]. apply filter_In. split; [apply aget_In; exact E | exact H].
  - intros H. apply in_map_iff in H. destruct H as [[k x] [Hk Hin]]. simpl in Hk. subst k.
    apply filter_In in Hin. destruct Hin as [Hin Hs]. rewrite (aget_nodup_In _ _ _ Hnd Hin). exact Hs.
Qed.

Lemma consistent_nodup_insts : forall L, nodes_consistent L = true -> NoDup (map fst (l_insts L)).
Proof.
  intros L Hc. unfold nodes_consistent in Hc.
  apply andb_true_iff in Hc. destruct Hc as [Hc _]. apply andb_true_iff in Hc. destruct Hc as [Hc _].
  apply andb_true_iff in Hc. destruct Hc as [C1 _]. apply znodup_NoDup. exact C1.
Qed.

Lemma wf_running_has_node : forall L reqs i,
  layout_wf L reqs = true -> In i (running_identifiers L) -> exists m, node_opt L i = Some m.
Proof.
  intros L reqs i Hwf Hin. unfold layout_wf in Hwf.
  apply andb_true_iff in Hwf. destruct Hwf as [Hwf _]. apply andb_true_iff in Hwf. destruct Hwf as [_ W2].
  rewrite forallb_forall in W2. specialize (W2 _ Hin). destruct (node_opt L i) as [m|]; [exists m; reflexivity | discriminate].
Qed.

(* On a well-formed layout with unique instance keys, "valid candidate among possible_identifiers" (C14) is
   "qualifies" (C04 spec), for any request map *)
Lemma valid_iff_qualifies : forall L M rule known disabled load reqs0 reqs i,
  nodes_consistent L = true -> layout_wf L reqs = true ->
  (Valid (node_true_load L) L (possible_identifiers M rule known disabled) load reqs i
   <-> qualifies (mkView L M rule known disabled load reqs0) reqs i = true).
Proof.
  intros L M rule known disabled load reqs0 reqs i Hc Hwf.
  pose proof (consistent_nodup_insts L Hc) as Hnd.
  unfold Valid, qualifies, static_ok, cap_ok. simpl.
  rewrite possible_identifiers_spec. rewrite !andb_true_iff, negb_true_iff, zmem_In, zmem_false_In.
  rewrite (sees_running_iff L i Hnd). split.
  - intros [[Hp [Hk Hd]] [Hr Hcap]]. destruct (wf_running_has_node L reqs i Hwf Hr) as [m Hm].
    unfold node_total in Hcap. rewrite Hm in *. split; [tauto|]. apply Z.leb_le. lia.
  - intros [[[[Hr Hk] Hd] Hp] Hcap]. split; [tauto|]. split; [exact Hr|].
    unfold node_total. destruct (node_opt L i) as [m|]; [|discriminate]. apply Z.leb_le in Hcap. lia.
Qed.

(* ================================================================== process_job *)
Lemma process_job_not_stopped : forall d s local L M prule J c,
  c_stopped c = false -> process_job d s local L M prule J c = Ok Skipped.
Proof. intros d s local L M prule J c H. unfold process_job. rewrite H. reflexivity. Qed.

Lemma process_job_never_skips_stopped : forall d s local L M prule J c o,
  c_stopped c = true -> process_job d s local L M prule J c = Ok o -> o <> Skipped.
Proof.
  intros d s local L M prule J c o Hs H. unfold process_job in H. rewrite Hs in H. cbn [negb] in H.
  apply bind_ok in H. destruct H as [c' [_ H]]. inversion H. destruct (c_target c'); discriminate.
Qed.

(* ALL_INSTANCES: the outcome is the answer of the placement for the program's possible identifiers, its load and
   the job's OWN pending requests *)
Lemma process_job_all_unfold : forall s local L M prule J c o,
  c_stopped c = true -> c_target c = None ->
  process_job D_ALL_INSTANCES s local L M prule J c = Ok o ->
  (exists t, o = Sent t
             /\ get_supvisors_instance s local L (possible_identifiers M prule (c_known c) (c_disabled c)) (c_load c)
                                       (load_requests J) = Ok (Some t))
  \/ (o = NoResource
      /\ get_supvisors_instance s local L (possible_identifiers M prule (c_known c) (c_disabled c)) (c_load c)
                                (load_requests J) = Ok None).
Proof.
  intros s local L M prule J c o Hs Ht H. unfold process_job in H. rewrite Hs in H. cbn [negb] in H.
  apply bind_ok in H. destruct H as [c' [Hc' H]]. apply bind_ok in Hc'. destruct Hc' as [r [Hr Hc']].
  destruct r as [t|].
  - left. apply update_identifier_ok in Hc'. destruct Hc' as [t' [Et [Hc' _]]]. inversion Et. subst t' c'.
    simpl in H. inversion H. exists t. split; [reflexivity | exact Hr].
  - right. inversion Hc'. subst c'. rewrite Ht in H. inversion H. split; [reflexivity | exact Hr].
Qed.

(* restricted distributions: the request goes to the identifier pre-assigned by before() / on_command_added, without
   any further check; no identifier = 'No resource available' *)
Theorem restricted_target_is_preassigned : forall d s local L M prule J c,
  d <> D_ALL_INSTANCES -> c_stopped c = true ->
  process_job d s local L M prule J c = Ok (match c_target c with Some t => Sent t | None => NoResource end).
Proof.
  intros d s local L M prule J c Hd Hs. unfold process_job. rewrite Hs. destruct d; [congruence | reflexivity | reflexivity].
Qed.

(* H_own_requests_are_all: on every node, the pending requests the code counts (the job's own) cover all the pending
   requests (the property's) *)
Definition own_requests_are_all (L : layout) (own all : alist Z) : bool :=
  forallb (fun kv => match i_node (snd kv) with
                     | Some m => Z.leb (node_req L all m) (node_req L own m)
                     | None => true
                     end) (l_insts L).

Lemma own_requests_are_all_node : forall L own all i m,
  own_requests_are_all L own all = true -> node_opt L i = Some m -> node_req L all m <= node_req L own m.
Proof.
  intros L own all i m H Hm. unfold own_requests_are_all in H. rewrite forallb_forall in H.
  unfold node_opt in Hm. destruct (aget i (l_insts L)) as [x|] eqn:E; [|discriminate].
  specialize (H _ (aget_In _ _ _ E)). simpl in H. rewrite Hm in H. apply Z.leb_le. exact H.
Qed.

(* P0 (partial): ALL_INSTANCES.  Missing for the full statement: (1) H_own_requests_are_all is FALSE when another
   application job has pending requests on the node (cross_application_pending_load_refuted); (2) restricted
   distributions (single_instance_on_demand_load_refuted, and the time between before() and the emission). *)
Theorem start_target_eligible_partial : forall s local L M prule J c all t,
  nodes_nodup L = true ->                               (* H_nodes_nodup *)
  nodes_consistent L = true ->                          (* H_nodes_consistent *)
  layout_wf L (load_requests J) = true ->               (* H_layout_wf *)
  own_requests_are_all L (load_requests J) all = true ->  (* H_own_requests_are_all *)
  c_target c = None ->                                  (* a command of a distributed job has no identifier yet *)
  process_job D_ALL_INSTANCES s local L M prule J c = Ok (Sent t) ->
  request_ok (mkView L M prule (c_known c) (c_disabled c) (c_load c) all) t = true.
Proof.
  intros s local L M prule J c all t Hnd Hc Hwf Hown Ht H.
  destruct (c_stopped c) eqn:Hs; [|rewrite (process_job_not_stopped _ _ _ _ _ _ _ _ Hs) in H; discriminate].
  destruct (process_job_all_unfold _ _ _ _ _ _ _ _ Hs Ht H) as [[t' [Et Hg]]|[E _]]; [|discriminate].
  inversion Et. subst t'.
  pose proof (result_valid_true L Hnd Hc _ _ _ _ _ _ Hg) as Hv.
  apply (valid_iff_qualifies L M prule (c_known c) (c_disabled c) (c_load c) all (load_requests J) t Hc Hwf) in Hv.
  unfold request_ok, qualifies in *. simpl in *. apply andb_true_iff in Hv. destruct Hv as [Hst Hcap].
  apply andb_true_iff. split; [exact Hst|].
  unfold cap_ok in *. destruct (node_opt L t) as [m|] eqn:Em; [|discriminate].
  apply Z.leb_le in Hcap. apply Z.leb_le.
  pose proof (own_requests_are_all_node L _ _ t m Hown Em). lia.
Qed.

(* the same without H_own_requests_are_all: the target qualifies for the requests the code counts *)
Theorem start_target_qualifies_for_own_requests : forall s local L M prule J c all t,
  nodes_nodup L = true -> nodes_consistent L = true -> layout_wf L (load_requests J) = true ->
  c_target c = None ->
  process_job D_ALL_INSTANCES s local L M prule J c = Ok (Sent t) ->
  qualifies (mkView L M prule (c_known c) (c_disabled c) (c_load c) all) (load_requests J) t = true.
Proof.
  intros s local L M prule J c all t Hnd Hc Hwf Ht H.
  destruct (c_stopped c) eqn:Hs; [|rewrite (process_job_not_stopped _ _ _ _ _ _ _ _ Hs) in H; discriminate].
  destruct (process_job_all_unfold _ _ _ _ _ _ _ _ Hs Ht H) as [[t' [Et Hg]]|[E _]]; [|discriminate].
  inversion Et. subst t'.
  pose proof (result_valid_true L Hnd Hc _ _ _ _ _ _ Hg) as Hv.
  apply (valid_iff_qualifies L M prule (c_known c) (c_disabled c) (c_load c) all (load_requests J) t Hc Hwf) in Hv.
  exact Hv.
Qed.

(* the instances among which the strategy may choose *)
Definition scope (s : strategy) (local : Z) (L : layout) : list Z :=
  match s with S_LOCAL => [local] | _ => map fst (l_insts L) end.

Lemma qualifies_in_insts : forall v reqs i, qualifies v reqs i = true -> In i (map fst (l_insts (v_layout v))).
Proof.
  intros v reqs i H. unfold qualifies, static_ok, sees_running in H.
  repeat (apply andb_true_iff in H; destruct H as [H _]).
  destruct (aget i (l_insts (v_layout v))) as [x|] eqn:E; [|discriminate].
  apply aget_In in E. apply (in_map fst) in E. exact E.
Qed.

(* P0: 'No resource available' — nothing is sent and a FATAL is forced — exactly when no instance in scope qualifies
   for the requests the code counts; otherwise a request is sent *)
Theorem no_resource_is_fatal : forall s local L M prule J c all o,
  nodes_nodup L = true -> nodes_consistent L = true -> layout_wf L (load_requests J) = true ->
  c_stopped c = true -> c_target c = None ->
  process_job D_ALL_INSTANCES s local L M prule J c = Ok o ->
  (o = NoResource
   <-> no_resource_ok (mkView L M prule (c_known c) (c_disabled c) (c_load c) all) (load_requests J)
                      (scope s local L) = true)
  /\ (o = NoResource \/ exists t, o = Sent t).
Proof.
  intros s local L M prule J c all o Hnd Hc Hwf Hs Ht H.
  set (v := mkView L M prule (c_known c) (c_disabled c) (c_load c) all).
  set (ids := possible_identifiers M prule (c_known c) (c_disabled c)).
  assert (forall i, Valid (node_true_load L) L ids (c_load c) (load_requests J) i
                    <-> qualifies v (load_requests J) i = true) as Hvq.
  { intros i. apply valid_iff_qualifies; assumption. }
  assert (no_resource_ok v (load_requests J) (scope s local L) = true
          <-> forall i, (s = S_LOCAL -> i = local) -> ~ Valid (node_true_load L) L ids (c_load c) (load_requests J) i)
    as Hno.
  { unfold no_resource_ok. rewrite forallb_forall. split.
    - intros Hall i Hl Hv. apply Hvq in Hv.
      assert (In i (scope s local L)) as Hin.
      { unfold scope. destruct s; try (apply (qualifies_in_insts v _ _ Hv)). left. symmetry. apply Hl. reflexivity. }
      specialize (Hall _ Hin). rewrite Hv in Hall. discriminate.
    - intros Hall i Hin. apply negb_true_iff. destruct (qualifies v (load_requests J) i) eqn:Eq; [|reflexivity].
      exfalso. apply (Hall i); [|apply Hvq; exact Eq].
      intros El. subst s. simpl in Hin. destruct Hin as [Hin|[]]. symmetry. exact Hin. }
  destruct (process_job_all_unfold _ _ _ _ _ _ _ _ Hs Ht H) as [[t [Et Hg]]|[E Hg]].
  - subst o. split; [|right; exists t; reflexivity]. split; [discriminate|].
    intros Hnr. exfalso. pose proof (proj1 Hno Hnr) as Hnr'.
    pose proof (proj2 (none_iff_no_valid_true L Hnd Hc _ _ _ _ _ _ Hg) Hnr'). discriminate.
  - subst o. split; [|left; reflexivity]. split; [|reflexivity]. intros _. apply (proj2 Hno).
    exact (proj1 (none_iff_no_valid_true L Hnd Hc _ _ _ _ _ _ Hg) eq_refl).
Qed.

(* ================================================================== restricted distributions (partial) *)
Lemma zsum_filter_le : forall (f : aproc -> bool) procs p,
  (forall q, In q procs -> 0 <= ap_load q) -> In p procs -> f p = true ->
  ap_load p <= zsum (map ap_load (filter f procs)).
Proof.
  intros f procs p Hpos. induction procs as [|q r IH]; intros Hin Hf; [contradiction|]. simpl.
  assert (0 <= zsum (map ap_load (filter f r))) as Hr.
  { clear -Hpos. induction r as [|x r IH]; simpl; [lia|].
    assert (forall q0, In q0 (q :: r) -> 0 <= ap_load q0) as Hpos' by (intros q0 H0; apply Hpos; simpl in *; tauto).
    specialize (IH Hpos'). destruct (f x); simpl; [|exact IH]. pose proof (Hpos x (or_intror (or_introl eq_refl))). lia. }
  destruct Hin as [E|Hin].
  - subst q. rewrite Hf. simpl. lia.
  - assert (ap_load p <= zsum (map ap_load (filter f r))) as Hle.
    { apply IH; [intros q0 H0; apply Hpos; right; exact H0 | exact Hin | exact Hf]. }
    destruct (f q); simpl; [|exact Hle]. pose proof (Hpos q (or_introl eq_refl)). lia.
Qed.

(* SINGLE_INSTANCE, at the moment before() assigns the instance: the instance chosen for the job qualifies — seen
   RUNNING, permitted by the APPLICATION's rule, node cap for the load of the whole start sequence and the job's own
   requests — for EVERY program of the application.
   Partial: this is the view at before(), not at the emission; the load checked is the start-sequence load, which
   covers a program only if it belongs to the start sequence (single_instance_on_demand_load_refuted). *)
Theorem single_instance_target_eligible_partial : forall s local L M arule managed procs J J' all,
  nodes_nodup L = true -> nodes_consistent L = true -> layout_wf L (load_requests J) = true ->
  j_identifiers J = [] ->                         (* a job enters before() without identifiers *)
  job_before D_SINGLE_INSTANCE s local L M arule managed procs J = Ok J' ->
  (J' = J)
  \/ (exists t, j_identifiers J' = [t]
                /\ Forall2 (fun c c' => c' = retarget c t) (j_planned J) (j_planned J')
                /\ forall p, In p procs ->
                     qualifies (mkView L M arule (ap_known p) (ap_disabled p) (app_start_load managed procs) all)
                               (load_requests J) t = true).
Proof.
  intros s local L M arule managed procs J J' all Hnd Hc Hwf Hid H.
  unfold job_before, before_start, app_identifiers in H.
  destruct (single_instance_one_target_true L Hnd Hc _ _ _ _ _ _ H) as [[t [Ht [HF [Hin [Hv _]]]]]|[E _]];
    [right | left; exact E].
  exists t. split; [exact Ht|]. split.
  - eapply Forall2_impl; [|exact HF]. intros c c' [E _]. exact E.
  - intros p Hp. apply app_possible_identifiers_spec in Hin. destruct Hin as [_ [Hperm Hall]].
    destruct (Hall p Hp) as [Hk Hd].
    pose proof (consistent_nodup_insts L Hc) as Hni.
    destruct Hv as [_ [Hr Hcap]].
    unfold qualifies, static_ok, cap_ok. simpl.
    destruct (wf_running_has_node L _ t Hwf Hr) as [m Hm]. unfold node_total in Hcap. rewrite Hm in *.
    apply (sees_running_iff L t Hni) in Hr. rewrite Hr, Hperm.
    apply zmem_In in Hk. apply zmem_false_In in Hd. rewrite Hk, Hd. simpl. apply Z.leb_le. lia.
Qed.

(* ... hence for a program of the start sequence (non-negative loads) the cap holds for the program's own load *)
Corollary single_instance_sequence_program_fits : forall s local L M arule procs J J' all t p,
  nodes_nodup L = true -> nodes_consistent L = true -> layout_wf L (load_requests J) = true ->
  j_identifiers J = [] ->
  job_before D_SINGLE_INSTANCE s local L M arule true procs J = Ok J' ->
  j_identifiers J' = [t] ->
  (forall q, In q procs -> 0 <= ap_load q) ->      (* H_loads_nonneg *)
  In p procs -> 0 < ap_seq p ->                    (* the program belongs to the start sequence *)
  qualifies (mkView L M arule (ap_known p) (ap_disabled p) (ap_load p) all) (load_requests J) t = true.
Proof.
  intros s local L M arule procs J J' all t p Hnd Hc Hwf Hid H Ht Hpos Hp Hseq.
  destruct (single_instance_target_eligible_partial s local L M arule true procs J J' all Hnd Hc Hwf Hid H)
    as [E|[t' [Ht' [_ Hq]]]].
  - subst J'. rewrite Hid in Ht. discriminate.
  - rewrite Ht in Ht'. inversion Ht'. subst t'. specialize (Hq p Hp).
    assert (ap_load p <= app_start_load true procs) as Hle.
    { unfold app_start_load. apply zsum_filter_le; [exact Hpos | exact Hp | apply Z.ltb_lt; exact Hseq]. }
    set (al := app_start_load true procs) in *. clearbody al.
    unfold qualifies in *. apply andb_true_iff in Hq. destruct Hq as [Hst Hcap]. apply andb_true_iff.
    split; [exact Hst|]. unfold cap_ok in *. cbn [v_layout v_load] in *. destruct (node_opt L t) as [m|]; [|discriminate].
    apply Z.leb_le in Hcap. apply Z.leb_le. lia.
Qed.

(* SINGLE_NODE and on_command_added: a command placed by place_among gets an identifier of the chosen list that knows
   the program, has it enabled, is seen RUNNING and whose node takes the program's load on top of the job's own
   requests *)
Theorem place_among_target_qualifies : forall s local L M arule idents reqs c c' t all,
  nodes_nodup L = true -> nodes_consistent L = true -> layout_wf L reqs = true ->
  (forall i, In i idents -> permitted M arule i = true) ->     (* the chosen identifiers come from the application's rule *)
  place_among s local L idents reqs c = Ok c' -> c_target c = None -> c_target c' = Some t ->
  qualifies (mkView L M arule (c_known c) (c_disabled c) (c_load c) all) reqs t = true.
Proof.
  intros s local L M arule idents reqs c c' t all Hnd Hc Hwf Hperm H Hnone Ht.
  destruct (place_among_ok (node_true_load L) L (Htrue L Hnd Hc) _ _ _ _ _ _ H) as [[E _]|[t' [E [Hin [He [Hv _]]]]]].
  - subst c'. rewrite Hnone in Ht. discriminate.
  - subst c'. simpl in Ht. inversion Ht. subst t'.
    pose proof (consistent_nodup_insts L Hc) as Hni. destruct Hv as [_ [Hr Hcap]].
    unfold qualifies, static_ok, cap_ok. simpl.
    destruct (wf_running_has_node L _ t Hwf Hr) as [m Hm]. unfold node_total in Hcap. rewrite Hm in *.
    apply (sees_running_iff L t Hni) in Hr. rewrite Hr, (Hperm t Hin).
    apply eligible_known in He. destruct He as [Hk Hd]. rewrite Hk, Hd. simpl. apply Z.leb_le. lia.
Qed.

(* ================================================================== add_commands: no duplicate *)
Lemma get_command_some : forall l p i c, get_command l p i = Some c ->
  In c l /\ c_proc c = p /\ (i = None \/ c_target c = i).
Proof.
  intros l p i c H. unfold get_command in H. apply find_some in H. destruct H as [Hin H].
  apply andb_true_iff in H. destruct H as [Hi Hp]. apply Z.eqb_eq in Hp. split; [exact Hin|]. split; [exact Hp|].
  destruct i as [x|]; [|left; reflexivity]. right.
  destruct (c_target c) as [y|]; simpl in Hi; [apply Z.eqb_eq in Hi; subst; reflexivity | discriminate].
Qed.

Lemma get_command_none : forall l p i, get_command l p i = None ->
  forall c, In c l -> c_proc c = p -> (i = None \/ c_target c = i) -> False.
Proof.
  intros l p i H c Hin Hp Hi. unfold get_command in H.
  pose proof (find_none _ _ H c Hin) as Hf. cbv beta in Hf.
  rewrite Hp, Z.eqb_refl, andb_true_r in Hf. destruct Hi as [E|E]; subst i; [discriminate|].
  destruct (c_target c) as [y|]; simpl in Hf; [rewrite Z.eqb_refl in Hf; discriminate | discriminate].
Qed.

(* add_commands never adds a command for a (process, identifier) already current or planned; a command without
   identifier (every start command) is refused as soon as ANY command of that process is current or planned *)
Theorem add_command_refuses_duplicate : forall J c c0,
  In c0 (j_current J ++ j_planned J) -> c_proc c0 = c_proc c -> (c_target c = None \/ c_target c0 = c_target c) ->
  add_command J c = (J, false).
Proof.
  intros J c c0 Hin Hp Hi. unfold add_command.
  destruct (get_command (j_current J) (c_proc c) (c_target c)) as [x|] eqn:E1; [reflexivity|].
  destruct (get_command (j_planned J) (c_proc c) (c_target c)) as [x|] eqn:E2; [reflexivity|].
  exfalso. apply in_app_or in Hin. destruct Hin as [Hin|Hin].
  - exact (get_command_none _ _ _ E1 c0 Hin Hp Hi).
  - exact (get_command_none _ _ _ E2 c0 Hin Hp Hi).
Qed.

Theorem add_command_adds_only_fresh : forall J c J',
  add_command J c = (J', true) ->
  J' = mkJobs (j_current J) (j_planned J ++ [c]) (j_identifiers J)
  /\ forall c0, In c0 (j_current J ++ j_planned J) -> c_proc c0 = c_proc c ->
       c_target c <> None /\ c_target c0 <> c_target c.
Proof.
  intros J c J' H. unfold add_command in H.
  destruct (get_command (j_current J) (c_proc c) (c_target c)) as [x|] eqn:E1; [inversion H|].
  destruct (get_command (j_planned J) (c_proc c) (c_target c)) as [x|] eqn:E2; [inversion H|].
  inversion H. split; [reflexivity|]. intros c0 Hin Hp.
  assert ((c_target c = None \/ c_target c0 = c_target c) -> False) as Hno.
  { intros Hi. apply in_app_or in Hin. destruct Hin as [Hin|Hin].
    - exact (get_command_none _ _ _ E1 c0 Hin Hp Hi).
    - exact (get_command_none _ _ _ E2 c0 Hin Hp Hi). }
  split; intros E; apply Hno; [left | right]; exact E.
Qed.

(* invariant: with start commands (created without identifier) a job never holds two commands of one process *)
Theorem add_command_one_command_per_process : forall J c J' b,
  c_target c = None -> NoDup (map c_proc (j_current J ++ j_planned J)) ->
  add_command J c = (J', b) -> NoDup (map c_proc (j_current J' ++ j_planned J')).
Proof.
  intros J c J' b Hn Hnd H. destruct b.
  - destruct (add_command_adds_only_fresh _ _ _ H) as [E Hf]. subst J'. simpl.
    rewrite app_assoc, map_app. simpl.
    assert (~ In (c_proc c) (map c_proc (j_current J ++ j_planned J))) as Hni.
    { intros Hin. apply in_map_iff in Hin. destruct Hin as [c0 [Hp Hin]]. destruct (Hf c0 Hin Hp) as [Hne _]. congruence. }
    clear -Hnd Hni. induction (map c_proc (j_current J ++ j_planned J)) as [|x r IH]; simpl.
    + constructor; [intros [] | constructor].
    + inversion Hnd as [|? ? Hx Hr]. subst. constructor.
      * rewrite in_app_iff. intros [Hin|[Hin|[]]]; [contradiction|]. apply Hni. left. symmetry. exact Hin.
      * apply IH; [exact Hr | intros Hin; apply Hni; right; exact Hin].
  - unfold add_command in H.
    destruct (get_command (j_current J) (c_proc c) (c_target c));
      [inversion H; subst; exact Hnd|].
    destruct (get_command (j_planned J) (c_proc c) (c_target c)); inversion H; subst; exact Hnd.
Qed.

(* ================================================================== the Sequencer model (C03): cited facts *)
(* In Sequencer.v the placement is an oracle ([take_place]); these two lemmas are the [fail_command] branch of its
   process_job ([step_aj_group]) and of force_process_state ([step_force]): when the oracle answers None for a start
   command without identifier, NO request is emitted and the forced FATAL with reason -1 ('No resource available') is
   the next thing executed; force_process_state always reports it. *)
Lemma sequencer_no_place_forces_fatal : forall jid cid rest s c pr push outs s',
  aget cid (Sequencer.s_cmds s) = Some c -> Sequencer.c_kind c = Sequencer.KStart -> Sequencer.c_ident c = None ->
  Sequencer.get_proc s (Sequencer.c_app c) (Sequencer.c_proc c) = Some pr -> Sequencer.sp_stopped pr = true ->
  (forall o r, Sequencer.s_oracle s = Sequencer.OPlace o :: r -> o = None) ->
  Sequencer.step_aj_group jid (cid :: rest) s = Ok ((push, outs), s') ->
  outs = []
  /\ push = [Sequencer.Force (Sequencer.c_app c) (Sequencer.c_proc c) None (Sequencer.s_now s) ProcStatus.FATAL (-1);
             Sequencer.ProcFailure jid (Sequencer.c_app c) (Sequencer.c_proc c); Sequencer.AJGroup jid rest].
Proof.
  intros jid cid rest s c pr push outs s' Hc Hk Hi Hp Hs Ho H.
  unfold Sequencer.step_aj_group in H.
  unfold Sequencer.mbind at 1 in H. unfold Sequencer.get_cmd, Sequencer.lift_opt in H. rewrite Hc in H.
  unfold Sequencer.ret at 1 in H.
  unfold Sequencer.mbind at 1 in H. unfold Sequencer.get_sproc, Sequencer.lift_opt in H. rewrite Hp in H.
  unfold Sequencer.ret at 1 in H. rewrite Hk, Hs in H.
  unfold Sequencer.mbind at 1 in H. unfold Sequencer.take_place in H.
  destruct (Sequencer.s_oracle s) as [|[o|l] r] eqn:Eo.
  - unfold Sequencer.mbind, Sequencer.ret, Sequencer.mget, Sequencer.put_cmd, Sequencer.mmod in H. rewrite Hi in H.
    inversion H. split; reflexivity.
  - rewrite (Ho o r eq_refl) in H.
    unfold Sequencer.mbind, Sequencer.ret, Sequencer.mget, Sequencer.put_cmd, Sequencer.mmod in H. rewrite Hi in H.
    inversion H. split; reflexivity.
  - unfold Sequencer.mbind, Sequencer.ret, Sequencer.mget, Sequencer.put_cmd, Sequencer.mmod in H. rewrite Hi in H.
    inversion H. split; reflexivity.
Qed.

Lemma sequencer_force_is_reported : forall a p target et fs reason s push outs s',
  Sequencer.step_force a p target et fs reason s = Ok ((push, outs), s') ->
  outs = [Sequencer.OForced a p fs reason target].
Proof.
  intros a p target et fs reason s push outs s' H. unfold Sequencer.step_force in H.
  SequencerProofs.chase H; reflexivity.
Qed.

(* ================================================================== refutations (witnesses replayed on the real code:
   seeded/c04_cap_replay.py, harness/drv_eligibility.py witness_a / witness_b / witness_b2) *)
Definition all6 : list Z := [1; 2; 3; 4; 5; 6].
Definition w_mapper : mapper := mkMapper all6 [] [].
(* only instance 1 is seen RUNNING; odd instances on node 1, even ones on node 2; [ld] = load running on instance 1 *)
Definition w_layout (ld : Z) : layout :=
  mkLayout [(1, mkInst RUN (Some 1) ld); (2, mkInst 0 (Some 2) 0); (3, mkInst 0 (Some 1) 0); (4, mkInst 0 (Some 2) 0);
            (5, mkInst 0 (Some 1) 0); (6, mkInst 0 (Some 2) 0)]
           [(1, [1; 3; 5]); (2, [2; 4; 6])].

(* finding B (c04-cross-application-pending-load). Two ALL_INSTANCES applications of the same start sequence, one
   process of load 60 each, CONFIG strategy. The job of the second application has no request of its own
   ([load_requests] of its empty job = []) while the start of the first application's process (60) is pending on
   instance 1: process_job sends the second process there as well, 60 + 60 = 120 > 100 on node 1. *)
Definition wb_cmd : cmd := mkCmd 1 60 true None all6 [].
Definition wb_jobs : jobs := mkJobs [] [] [].
Definition wb_all : alist Z := [(1, 60)].

Theorem cross_application_pending_load_refuted :
  exists s local L M prule J c all t,
    nodes_nodup L = true /\ nodes_consistent L = true /\ layout_wf L (load_requests J) = true /\ c_target c = None
    /\ process_job D_ALL_INSTANCES s local L M prule J c = Ok (Sent t)
    /\ request_ok (mkView L M prule (c_known c) (c_disabled c) (c_load c) all) t = false
    /\ qualifies (mkView L M prule (c_known c) (c_disabled c) (c_load c) all) (load_requests J) t = true
    /\ own_requests_are_all L (load_requests J) all = false.
Proof.
  exists S_CONFIG, 1, (w_layout 0), w_mapper, [wildcard], wb_jobs, wb_cmd, wb_all, 1.
  vm_compute. repeat split; reflexivity.
Qed.

(* finding A (c04-single-instance-on-demand-load). SINGLE_INSTANCE application {tool: start_sequence 0, load 50;
   main: start_sequence 1, load 10}; instance 1 already carries 60. start_process(tool): before() validates instance 1
   for the START-SEQUENCE load (10: 60 + 10 <= 100) and assigns it to the command; process_job then sends the request
   without any check: 60 + 50 = 110 > 100 — although no request at all is pending. *)
Definition wa_procs : list aproc := [mkAProc 50 0 all6 []; mkAProc 10 1 all6 []].
Definition wa_cmd : cmd := mkCmd 1 50 true None all6 [].
Definition wa_jobs : jobs := mkJobs [] [wa_cmd] [].

Theorem single_instance_on_demand_load_refuted :
  exists s local L M arule procs J c J' c' t,
    nodes_nodup L = true /\ nodes_consistent L = true /\ layout_wf L (load_requests J) = true
    /\ j_planned J = [c] /\ j_identifiers J = []
    /\ job_before D_SINGLE_INSTANCE s local L M arule true procs J = Ok J'      (* before() ... *)
    /\ j_identifiers J' = [t] /\ j_planned J' = [c']
    /\ process_job D_SINGLE_INSTANCE s local L M [wildcard] (mkJobs [] [] [t]) c' = Ok (Sent t)   (* ... then its group *)
    /\ request_ok (mkView L M arule (c_known c) (c_disabled c) (c_load c) []) t = false
    /\ static_ok (mkView L M arule (c_known c) (c_disabled c) (c_load c) []) t = true
    /\ qualifies (mkView L M arule (c_known c) (c_disabled c) (app_start_load true procs) []) [] t = true.
Proof.
  exists S_CONFIG, 1, (w_layout 60), w_mapper, [wildcard], wa_procs, wa_jobs, wa_cmd,
         (mkJobs [] [retarget wa_cmd 1] [1]), (retarget wa_cmd 1), 1.
  vm_compute. repeat split; reflexivity.
Qed.

(* finding C (c04-non-distributed-no-recheck). SINGLE_INSTANCE application {first: start_sequence 1, load 40; second:
   start_sequence 2, load 40}; at before() instance 1 carries 10: validated for the whole start sequence (10 + 80 <= 100)
   and assigned. While the first group starts, another application gets a process of load 20 started on the same node
   (its own check passes: 10 + 40 + 20 <= 100). When the second group is reached the node carries 70 and process_job
   sends the request (40) there without any check: 110 > 100, nothing pending anywhere, the program IS in the start
   sequence. *)
Definition wc_procs : list aproc := [mkAProc 40 1 all6 []; mkAProc 40 2 all6 []].
Definition wc_cmd : cmd := mkCmd 2 40 true None all6 [].
Definition wc_jobs : jobs := mkJobs [] [wc_cmd] [].

Theorem non_distributed_no_recheck_refuted :
  exists s local L0 L1 M arule procs J c J' c' t,
    nodes_nodup L1 = true /\ nodes_consistent L1 = true /\ layout_wf L1 [] = true
    /\ j_planned J = [c] /\ j_identifiers J = []
    /\ job_before D_SINGLE_INSTANCE s local L0 M arule true procs J = Ok J'      (* before(), node at 10 ... *)
    /\ j_identifiers J' = [t] /\ j_planned J' = [c']
    /\ qualifies (mkView L0 M arule (c_known c) (c_disabled c) (app_start_load true procs) []) [] t = true
    /\ process_job D_SINGLE_INSTANCE s local L1 M [wildcard] (mkJobs [] [] [t]) c' = Ok (Sent t)   (* ... later, node at 70 *)
    /\ request_ok (mkView L1 M arule (c_known c) (c_disabled c) (c_load c) []) t = false
    /\ static_ok (mkView L1 M arule (c_known c) (c_disabled c) (c_load c) []) t = true
    /\ existsb (fun p => Z.ltb 0 (ap_seq p) && Z.eqb (ap_load p) (c_load c)) procs = true.
Proof.
  exists S_CONFIG, 1, (w_layout 10), (w_layout 70), w_mapper, [wildcard], wc_procs, wc_jobs, wc_cmd,
         (mkJobs [] [retarget wc_cmd 1] [1]), (retarget wc_cmd 1), 1.
  vm_compute. repeat split; reflexivity.
Qed.

(* ================================================================== examples: the hypotheses are satisfiable *)
(* six instances on two nodes, instance 5 not running, nick identifiers 11..16, one stereotype 21 = {2, 4};
   rule: nick of 3, stereotype 21, an unknown name, identifier 2 (again)  ->  candidates 3, 2, 4 *)
Definition ex_mapper : mapper :=
  mkMapper all6 [(11, 1); (12, 2); (13, 3); (14, 4); (15, 5); (16, 6)] [(21, [2; 4])].
Definition ex_rule : list Z := [13; 21; 99; 2].
Definition ex_cmd : cmd := mkCmd 7 30 true None [1; 2; 3; 4] [2].
Definition ex_own_jobs : jobs := mkJobs [mkCmd 8 20 true (Some 3) all6 []] [] [].

Example ex_rule_candidates : rule_candidates ex_mapper ex_rule = [3; 2; 4]
                             /\ possible_identifiers ex_mapper ex_rule [1; 2; 3; 4] [2] = [3; 4].
Proof. vm_compute. split; reflexivity. Qed.

Example ex_start_target_hypotheses :
  nodes_nodup ex_layout = true /\ nodes_consistent ex_layout = true
  /\ layout_wf ex_layout (load_requests ex_own_jobs) = true
  /\ own_requests_are_all ex_layout (load_requests ex_own_jobs) [(3, 20)] = true
  /\ c_target ex_cmd = None /\ c_stopped ex_cmd = true
  /\ process_job D_ALL_INSTANCES S_LESS_LOADED 1 ex_layout ex_mapper ex_rule ex_own_jobs ex_cmd = Ok (Sent 3)
  /\ request_ok (mkView ex_layout ex_mapper ex_rule [1; 2; 3; 4] [2] 30 [(3, 20)]) 3 = true.
Proof. vm_compute. repeat split; reflexivity. Qed.

Example ex_no_resource :
  process_job D_ALL_INSTANCES S_LESS_LOADED 1 ex_layout ex_mapper ex_rule ex_own_jobs (mkCmd 7 70 true None [1; 2; 3; 4] [2])
  = Ok NoResource
  /\ no_resource_ok (mkView ex_layout ex_mapper ex_rule [1; 2; 3; 4] [2] 70 []) (load_requests ex_own_jobs)
                    (scope S_LESS_LOADED 1 ex_layout) = true.
Proof. vm_compute. split; reflexivity. Qed.

Example ex_single_instance_hypotheses :
  layout_wf (w_layout 60) (load_requests wa_jobs) = true /\ j_identifiers wa_jobs = []
  /\ exists J', job_before D_SINGLE_INSTANCE S_CONFIG 1 (w_layout 60) w_mapper [wildcard] true wa_procs wa_jobs = Ok J'
                /\ j_identifiers J' = [1].
Proof. split; [vm_compute; reflexivity|]. split; [reflexivity|]. eexists. vm_compute. split; reflexivity. Qed.

Example ex_add_command :
  add_command ex_own_jobs (mkCmd 8 20 true None all6 []) = (ex_own_jobs, false)
  /\ snd (add_command ex_own_jobs ex_cmd) = true.
Proof. vm_compute. split; reflexivity. Qed.

(* ================================================================== the full-strength statements *)
(* P0 start_target_eligible, full strength for ALL_INSTANCES: whatever the other pending requests are (the job's own
   requests being part of them), the target passes the property's check. It is FALSE (finding B): the hypothesis
   H_own_requests_are_all of start_target_eligible_partial cannot be dropped. *)
Definition start_target_eligible_statement : Prop :=
  forall s local L M prule J c all t,
    nodes_nodup L = true -> nodes_consistent L = true -> layout_wf L (load_requests J) = true -> c_target c = None ->
    (forall m, node_req L (load_requests J) m <= node_req L all m) ->      (* the job's own requests are pending requests *)
    process_job D_ALL_INSTANCES s local L M prule J c = Ok (Sent t) ->
    request_ok (mkView L M prule (c_known c) (c_disabled c) (c_load c) all) t = true.

Theorem start_target_eligible_refuted : ~ start_target_eligible_statement.
Proof.
  intros H.
  specialize (H S_CONFIG 1 (w_layout 0) w_mapper [wildcard] wb_jobs wb_cmd wb_all 1).
  assert (request_ok (mkView (w_layout 0) w_mapper [wildcard] (c_known wb_cmd) (c_disabled wb_cmd) (c_load wb_cmd) wb_all) 1
          = true) as K.
  { apply H; try (vm_compute; reflexivity).
    intros m. change (load_requests wb_jobs) with (@nil (Z * Z)). unfold node_req, wb_all.
    cbn [filter map fst snd zsum fold_right].
    destruct (node_is (node_opt (w_layout 0) 1) m); cbn [filter map fst snd zsum fold_right]; lia. }
  vm_compute in K. discriminate.
Qed.

(* P0 no_duplicate_request (the two local facts; the run-level fact is SequencerProofs.requests_only_from_groups) *)
Theorem no_duplicate_request :
  (forall d s local L M prule J c, c_stopped c = false -> process_job d s local L M prule J c = Ok Skipped)
  /\ (forall J c c0,
        In c0 (j_current J ++ j_planned J) -> c_proc c0 = c_proc c ->
        (c_target c = None \/ c_target c0 = c_target c) -> add_command J c = (J, false)).
Proof. split; [exact process_job_not_stopped | exact add_command_refuses_duplicate]. Qed.
