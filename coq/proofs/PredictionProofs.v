(* PredictionProofs.v — lemmas about model/Prediction.v (property C19).
   Part A: the heap layer (aliasing): a prediction built with fresh copies leaves the live view untouched,
           for every placement function, every request and any number of predictions; the shallow copy does not.
   Part B: the value machine: prediction = real start under the named hypotheses; refutations otherwise. *)
From Sup Require Import Base GenProc GenEnums ProcStatus Prediction.
From Sup Require Strategy.
From Coq Require Import Lia ZArith List Bool.
Import ListNotations.
Open Scope Z_scope.

(* ==================================================================================================== *)
(** * Part A — the heap layer *)

Lemma pr_aget_aset_eq {V} : forall k (v : V) l, aget k (aset k v l) = Some v.
Proof.
  intros k v l. induction l as [|[k' v'] r IH]; simpl.
  - rewrite Z.eqb_refl. reflexivity.
  - destruct (Z.eqb k k') eqn:E; simpl; rewrite E; [reflexivity | exact IH].
Qed.

Lemma pr_aget_aset_neq {V} : forall k j (v : V) l, k <> j -> aget k (aset j v l) = aget k l.
Proof.
  intros k j v l Hne. induction l as [|[k' v'] r IH]; simpl.
  - destruct (Z.eqb k j) eqn:E; [apply Z.eqb_eq in E; contradiction | reflexivity].
  - destruct (Z.eqb j k') eqn:E; simpl.
    + apply Z.eqb_eq in E. subst k'.
      destruct (Z.eqb k j) eqn:E2; [apply Z.eqb_eq in E2; contradiction | reflexivity].
    + destruct (Z.eqb k k'); [reflexivity | exact IH].
Qed.

Lemma pr_aget_in {V} : forall k (v : V) l, aget k l = Some v -> In (k, v) l.
Proof.
  intros k v l. induction l as [|[k' v'] r IH]; simpl; intros H; [discriminate|].
  destruct (Z.eqb k k') eqn:E.
  - apply Z.eqb_eq in E. inversion H. subst. left. reflexivity.
  - right. apply IH. exact H.
Qed.

(* [frame b h h'] : the two heaps agree on every location below b *)
Definition frame (b : Z) (h h' : heap) : Prop := forall l, l < b -> aget l h' = aget l h.

Lemma frame_refl : forall b h, frame b h h.
Proof. intros b h l _. reflexivity. Qed.

Lemma frame_trans : forall b h1 h2 h3, frame b h1 h2 -> frame b h2 h3 -> frame b h1 h3.
Proof. intros b h1 h2 h3 H12 H23 l Hl. rewrite (H23 l Hl). apply H12. exact Hl. Qed.

Lemma frame_aset : forall b h l v, b <= l -> frame b h (aset l v h).
Proof. intros b h l v Hle l' Hl'. apply pr_aget_aset_neq. lia. Qed.

(* every location held by a mock is at or above b *)
Definition locs_above (b : Z) (m : alist Z) : Prop := forall i l, In (i, l) m -> b <= l.
Definition mocks_above (b : Z) (ms : alist (alist Z)) : Prop := forall n m, In (n, m) ms -> locs_above b m.

(* ---- {identifier: info.copy()} allocates above the pointer and leaves everything below untouched *)
Lemma copy_infos_frame : forall infos h nx h' nx' m b,
    copy_infos h nx infos = (h', nx', m) -> b <= nx ->
    frame b h h' /\ nx <= nx' /\ locs_above b m.
Proof.
  induction infos as [|[i l] r IH]; intros h nx h' nx' m b Hc Hb; simpl in Hc.
  - injection Hc as <- <- <-. split; [apply frame_refl|]. split; [lia|]. intros ? ? [].
  - destruct (copy_infos _ (nx + 1) r) as [[h2 nx2] m2] eqn:E.
    injection Hc as <- <- <-.
    assert (Hb1 : b <= nx + 1) by lia.
    destruct (IH _ _ _ _ _ b E Hb1) as [Hf [Hn Hl]].
    split; [|split].
    + eapply frame_trans; [|exact Hf].
      destruct (aget l h); [apply frame_aset; exact Hb | apply frame_refl].
    + lia.
    + intros i' l' [Heq|Hin]; [inversion Heq; subst; exact Hb | eapply Hl; exact Hin].
Qed.

(* the fields of a context other than the heap *)
Definition same_frame_fields (cx cx' : ctx) : Prop :=
  cx_apps cx' = cx_apps cx /\ cx_insts cx' = cx_insts cx /\ cx_nodes cx' = cx_nodes cx
  /\ cx_jobs cx' = cx_jobs cx /\ cx_reqs cx' = cx_reqs cx /\ cx_rules cx' = cx_rules cx.

Lemma same_frame_fields_refl : forall cx, same_frame_fields cx cx.
Proof. intros cx. repeat split. Qed.

Lemma same_frame_fields_trans : forall a b c, same_frame_fields a b -> same_frame_fields b c -> same_frame_fields a c.
Proof.
  intros a b c (A1 & A2 & A3 & A4 & A5 & A6) (B1 & B2 & B3 & B4 & B5 & B6).
  repeat split; congruence.
Qed.

Lemma mk_mock_frame : forall cx lp cx' m b,
    mk_mock cx lp = (cx', m) -> b <= cx_next cx ->
    frame b (cx_heap cx) (cx_heap cx') /\ cx_next cx <= cx_next cx' /\ locs_above b m /\ same_frame_fields cx cx'.
Proof.
  intros cx lp cx' m b Hm Hb. unfold mk_mock in Hm.
  destruct (copy_infos (cx_heap cx) (cx_next cx) (lp_infos lp)) as [[h nx] m'] eqn:E.
  injection Hm as <- <-. simpl.
  destruct (copy_infos_frame _ _ _ _ _ _ b E Hb) as [Hf [Hn Hl]].
  split; [exact Hf|]. split; [exact Hn|]. split; [exact Hl|]. repeat split.
Qed.

Lemma mk_mocks_deep_frame : forall lps cx cx' ms b,
    mk_mocks current_code cx lps = (cx', ms) -> b <= cx_next cx ->
    frame b (cx_heap cx) (cx_heap cx') /\ cx_next cx <= cx_next cx' /\ mocks_above b ms /\ same_frame_fields cx cx'.
Proof.
  induction lps as [|lp r IH]; intros cx cx' ms b Hm Hb; simpl in Hm.
  - injection Hm as <- <-. split; [apply frame_refl|]. split; [lia|]. split; [intros ? ? []|].
    apply same_frame_fields_refl.
  - unfold mk_mock_of in Hm. simpl in Hm.
    destruct (mk_mock cx lp) as [cx1 m] eqn:E1.
    destruct (mk_mocks current_code cx1 r) as [cx2 ms2] eqn:E2.
    injection Hm as <- <-.
    destruct (mk_mock_frame _ _ _ _ b E1 Hb) as [Hf1 [Hn1 [Hl1 Hs1]]].
    assert (Hb1 : b <= cx_next cx1) by lia.
    destruct (IH _ _ _ b E2 Hb1) as [Hf2 [Hn2 [Hl2 Hs2]]].
    split; [eapply frame_trans; eassumption|]. split; [lia|]. split.
    + intros n m' [Heq|Hin]; [inversion Heq; subst; exact Hl1 | eapply Hl2; exact Hin].
    + eapply same_frame_fields_trans; eassumption.
Qed.

(* ---- feed_model's write through fresh locations *)
Lemma apply_write_frame : forall b ms h w, mocks_above b ms -> frame b h (apply_write ms h w).
Proof.
  intros b ms h [[n i] st] Hms. unfold apply_write.
  destruct (aget n ms) as [m|] eqn:En; [|apply frame_refl].
  destruct (aget i m) as [l|] eqn:Ei; [|apply frame_refl].
  destruct (aget l h) as [r|]; [|apply frame_refl].
  apply frame_aset. apply pr_aget_in in En. apply pr_aget_in in Ei. eapply Hms; eassumption.
Qed.

Lemma apply_writes_frame : forall b ms ws h, mocks_above b ms -> frame b h (apply_writes ms ws h).
Proof.
  intros b ms ws. unfold apply_writes. induction ws as [|w r IH]; intros h Hms; simpl.
  - apply frame_refl.
  - eapply frame_trans; [apply apply_write_frame; exact Hms | apply IH; exact Hms].
Qed.

(* ---- the live view only reads locations below the allocation pointer *)
Lemma forallb_In {A} : forall (f : A -> bool) l x, forallb f l = true -> In x l -> f x = true.
Proof. intros f l x H Hin. rewrite forallb_forall in H. apply H. exact Hin. Qed.

Lemma live_infos_frame : forall b h h' lp,
    frame b h h' -> forallb (fun il => Z.ltb (snd il) b) (lp_infos lp) = true ->
    live_infos h' lp = live_infos h lp.
Proof.
  intros b h h' lp Hf Hwf. unfold live_infos. apply map_ext_in. intros [i l] Hin.
  simpl. f_equal. apply Hf. apply (forallb_In _ _ _ Hwf) in Hin. simpl in Hin. apply Z.ltb_lt. exact Hin.
Qed.

Lemma view_app_frame : forall b h h' a,
    frame b h h' ->
    forallb (fun lp => forallb (fun il => Z.ltb (snd il) b) (lp_infos lp)) (la_procs a) = true ->
    view_app h' a = view_app h a.
Proof.
  intros b h h' a Hf Hwf. unfold view_app. f_equal. apply map_ext_in. intros lp Hin.
  f_equal. eapply live_infos_frame; [exact Hf|]. exact (forallb_In _ _ _ Hwf Hin).
Qed.

Lemma view_apps_frame : forall cx h',
    heap_wf cx = true -> frame (cx_next cx) (cx_heap cx) h' ->
    map (view_app h') (cx_apps cx) = map (view_app (cx_heap cx)) (cx_apps cx).
Proof.
  intros cx h' Hwf Hf. apply map_ext_in. intros a Hin. eapply view_app_frame; [exact Hf|].
  unfold heap_wf in Hwf. exact (forallb_In _ _ _ Hwf Hin).
Qed.

(* the live view without the reported rules *)
Definition status_view (cx : ctx) :=
  let v := view_of cx in (vw_apps v, vw_managed v, vw_insts v, vw_nodes v, vw_jobs v, vw_reqs v).

Lemma heap_wf_mono : forall cx cx', cx_apps cx' = cx_apps cx -> cx_next cx <= cx_next cx' ->
                                    heap_wf cx = true -> heap_wf cx' = true.
Proof.
  intros cx cx' Ha Hn Hwf. unfold heap_wf in *. rewrite Ha.
  rewrite forallb_forall in *. intros a Hin. specialize (Hwf a Hin).
  rewrite forallb_forall in *. intros lp Hlp. specialize (Hwf lp Hlp).
  rewrite forallb_forall in *. intros il Hil. specialize (Hwf il Hil).
  apply Z.ltb_lt in Hwf. apply Z.ltb_lt. lia.
Qed.

(* ---- one prediction with the current code: every placement function, every request *)
Lemma predict_current_pure : forall place ra a req cx,
    heap_wf cx = true ->
    let cx' := fst (predict current_code place ra a req cx) in
    heap_wf cx' = true /\ status_view cx' = status_view cx
    /\ cx_jobs cx' = cx_jobs cx /\ cx_reqs cx' = cx_reqs cx.
Proof.
  intros place ra a req cx Hwf. unfold predict.
  destruct (run place Model (inp_of_view (view_of cx) a) req) as [s|k]; simpl.
  2:{ split; [exact Hwf|]. repeat split. }
  destruct (mk_mocks current_code cx
              (filter (fun lp => zmem (lp_name lp) (targets_of (inp_of_view (view_of cx) a) req))
                      (app_lprocs cx a))) as [cx1 mocks] eqn:Em.
  assert (Hb : cx_next cx <= cx_next cx) by lia.
  destruct (mk_mocks_deep_frame _ _ _ _ _ Em Hb) as [Hf [Hn [Hms (S1 & S2 & S3 & S4 & S5 & S6)]]].
  simpl.
  split.
  - eapply heap_wf_mono; [| exact Hn | exact Hwf]. reflexivity.
  - split; [|split; reflexivity].
    unfold status_view, view_of. simpl.
    assert (Hfr : frame (cx_next cx) (cx_heap cx) (apply_writes mocks (vs_writes s) (cx_heap cx1))).
    { eapply frame_trans; [exact Hf | apply apply_writes_frame; exact Hms]. }
    pose proof (view_apps_frame cx _ Hwf Hfr) as Hv. rewrite Hv. reflexivity.
Qed.

(* the reported rules are only written by application.resolve_rules(): never for a process request, never when
   no '@' / '#' rule is pending (the oracle then returns the rules unchanged) *)
Definition H_rules_resolved (ra : option (list (Z * Z * list Z))) (req : request) (cx : ctx) : Prop :=
  ra = None \/ ra = Some (cx_rules cx) \/ (exists s names, req = RProcs s names).

Lemma predict_rules_pure : forall V place ra a req cx,
    H_rules_resolved ra req cx -> cx_rules (fst (predict V place ra a req cx)) = cx_rules cx.
Proof.
  intros V place ra a req cx H. unfold predict.
  destruct (run place Model (inp_of_view (view_of cx) a) req) as [s|k]; simpl; [|reflexivity].
  destruct (mk_mocks V cx _) as [cx1 mocks]. simpl.
  destruct H as [H|[H|[s' [names H]]]]; subst.
  - destruct req; reflexivity.
  - destruct req; [|reflexivity]. destruct (vi_app_stopped _); reflexivity.
  - reflexivity.
Qed.

(* ---- any sequence of predictions (requests, applications, placement functions and oracles may all differ) *)
Definition preq := ((Z -> list Z -> list Z -> Z -> alist Z -> result (option Z))
                    * option (list (Z * Z * list Z)) * Z * request)%type.

Definition predict_seq (V : variant) (l : list preq) (cx : ctx) : ctx :=
  fold_left (fun c (q : preq) => let '(pl, ra, a, rq) := q in fst (predict V pl ra a rq c)) l cx.

Lemma predict_seq_pure : forall l cx,
    heap_wf cx = true ->
    heap_wf (predict_seq current_code l cx) = true
    /\ status_view (predict_seq current_code l cx) = status_view cx.
Proof.
  induction l as [|[[[pl ra] a] rq] r IH]; intros cx Hwf; simpl.
  - split; [exact Hwf | reflexivity].
  - destruct (predict_current_pure pl ra a rq cx Hwf) as [Hwf1 [Hv1 _]].
    destruct (IH _ Hwf1) as [Hwf2 Hv2]. split; [exact Hwf2|]. unfold predict_seq in *. simpl in *.
    rewrite Hv2. exact Hv1.
Qed.

(* what Supvisors reports, rules apart *)
Definition status_of (o : oview) := (ov_apps o, ov_loads o, ov_jobs o, ov_reqs o).

Lemma status_of_view : forall cx cx', status_view cx' = status_view cx ->
                                      status_of (observe_ctx cx') = status_of (observe_ctx cx).
Proof.
  intros cx cx' H. unfold status_view in H. unfold observe_ctx, observe_view, status_of, base_load, all_vprocs.
  simpl. inversion H as [[H1 H2 H3 H4 H5 H6]]. rewrite H1, H3, H5, H6. reflexivity.
Qed.

(* ---- the machine input and the placement function only read the status view *)
Lemma inp_of_status_view : forall cx cx' a, status_view cx' = status_view cx ->
                                            inp_of_view (view_of cx') a = inp_of_view (view_of cx) a.
Proof.
  intros cx cx' a H. unfold status_view, view_of in H. simpl in H. inversion H as [[H1 H2 H3 H4 H5 H6]].
  unfold inp_of_view, find_app, view_of. simpl. rewrite H1, H2, H3. reflexivity.
Qed.

Lemma place_of_status_view : forall cx cx', status_view cx' = status_view cx ->
                                           place_of_view (view_of cx') = place_of_view (view_of cx).
Proof.
  intros cx cx' H. unfold status_view, view_of in H. simpl in H. inversion H as [[H1 H2 H3 H4 H5 H6]].
  unfold place_of_view, view_of. simpl. rewrite H1, H3, H4. reflexivity.
Qed.

(* ---- k predictions in a row with the standard placement *)
Lemma predict_n_pure : forall ra a req k cx,
    heap_wf cx = true ->
    heap_wf (fst (predict_n current_code ra a req k cx)) = true
    /\ status_view (fst (predict_n current_code ra a req k cx)) = status_view cx.
Proof.
  intros ra a req k. induction k as [|k IH]; intros cx Hwf; simpl.
  - split; [exact Hwf | reflexivity].
  - destruct (predict_std current_code ra a req cx) as [cx1 p] eqn:E1.
    destruct (predict_n current_code ra a req k cx1) as [cx2 ps] eqn:E2. simpl.
    unfold predict_std in E1.
    destruct (predict_current_pure (place_of_view (view_of cx)) ra a req cx Hwf) as [Hwf1 [Hv1 _]].
    rewrite E1 in Hwf1, Hv1. simpl in Hwf1, Hv1.
    destruct (IH cx1 Hwf1) as [Hwf2 Hv2]. rewrite E2 in Hwf2, Hv2. simpl in Hwf2, Hv2.
    split; [exact Hwf2 | congruence].
Qed.

(* the payload of a prediction is a function of the machine input and of the placement function *)
Lemma predict_payload : forall V place ra a req cx,
    snd (predict V place ra a req cx)
    = match run place Model (inp_of_view (view_of cx) a) req with
      | Ok s => Ok (payload_of (inp_of_view (view_of cx) a) req s)
      | Crash k => Crash k
      end.
Proof.
  intros V place ra a req cx. unfold predict.
  destruct (run place Model (inp_of_view (view_of cx) a) req) as [s|k]; [|reflexivity].
  destruct (mk_mocks V cx _) as [cx1 mocks]. reflexivity.
Qed.

Lemma predict_std_payload_view : forall V ra a req cx cx',
    status_view cx' = status_view cx ->
    snd (predict_std V ra a req cx') = snd (predict_std V ra a req cx).
Proof.
  intros V ra a req cx cx' H. unfold predict_std. rewrite !predict_payload.
  rewrite (inp_of_status_view cx cx' a H), (place_of_status_view cx cx' H). reflexivity.
Qed.

Lemma predict_n_repeat : forall ra a req k cx,
    heap_wf cx = true ->
    forall p, In p (snd (predict_n current_code ra a req k cx)) -> p = snd (predict_std current_code ra a req cx).
Proof.
  intros ra a req k. induction k as [|k IH]; intros cx Hwf p Hin; simpl in Hin; [contradiction|].
  destruct (predict_std current_code ra a req cx) as [cx1 p1] eqn:E1.
  destruct (predict_n current_code ra a req k cx1) as [cx2 ps] eqn:E2. simpl in Hin.
  destruct Hin as [<-|Hin]; [reflexivity|].
  assert (Hp : heap_wf cx1 = true /\ status_view cx1 = status_view cx).
  { unfold predict_std in E1.
    destruct (predict_current_pure (place_of_view (view_of cx)) ra a req cx Hwf) as [Hwf1 [Hv1 _]].
    rewrite E1 in Hwf1, Hv1. split; assumption. }
  destruct Hp as [Hwf1 Hv1].
  specialize (IH cx1 Hwf1 p). rewrite E2 in IH. simpl in IH. rewrite (IH Hin).
  simpl. rewrite (predict_std_payload_view current_code ra a req cx cx1 Hv1), E1. reflexivity.
Qed.

(* ---- witnesses (all replayed on the real classes, harness/corpus/prediction.json) *)
Definition w_info (i : Z) : Z * (pstate * bool * bool * Z) := (i, (STOPPED, true, false, 0)).
Definition w_proc (n : Z) : oproc := mkOP n STOPPED None [] [w_info 1; w_info 2] 0.
Definition w_insts : list (Z * Z * option Z) := [(1, 3, Some 1); (2, 3, Some 2)].
Definition w_nodes : alist (list Z) := [(1, [1]); (2, [2])].

(* F22 / F23: A1 = {p1 seq 1 load 60, p2 seq 2 load 60}, both known on instances 1 and 2 *)
Definition w_cd_two_groups : cdesc :=
  mkCD [(1, 0, 0, [w_proc 1; w_proc 2])] [1]
       [mkPRl 1 1 1 false false 60 0 [1; 2]; mkPRl 1 2 2 false false 60 0 [1; 2]]
       w_insts w_nodes [] [] [].

(* N1: A1 = {p1 RUNNING on 1, load 10 ; p2 seq 2, required, starting_failure_strategy STOP, load 200} *)
Definition w_cd_stop : cdesc :=
  mkCD [(1, 2, 0, [mkOP 1 RUNNING None [1] [(1, (RUNNING, true, false, 0)); w_info 2] 0; w_proc 2])] [1]
       [mkPRl 1 1 1 false false 10 0 [1; 2];
        mkPRl 1 2 2 true false 200 gen_StartingFailureStrategies_STOP [1; 2]]
       w_insts w_nodes [] [] [].

Example w_two_groups_wf : heap_wf (build_ctx w_cd_two_groups) = true.
Proof. vm_compute. reflexivity. Qed.
Example w_stop_wf : heap_wf (build_ctx w_cd_stop) = true.
Proof. vm_compute. reflexivity. Qed.

(* the shallow copy (code before 6a6da35): a live info dictionary is RUNNING after the prediction *)
Lemma shallow_changes_live_info :
  status_eqb (observe_ctx (fst (predict_std shallow_code None 1 (RApp 0) (build_ctx w_cd_two_groups))))
             (observe_ctx (build_ctx w_cd_two_groups)) = false.
Proof. vm_compute. reflexivity. Qed.

Lemma shallow_live_info_is_running :
  ov_apps (observe_ctx (fst (predict_std shallow_code None 1 (RApp 0) (build_ctx w_cd_two_groups))))
  = [(1, 0, 0, [mkOP 1 STOPPED None [] [(1, (RUNNING, true, false, 0)); w_info 2] 0;
                mkOP 2 STOPPED None [] [(1, (RUNNING, true, false, 0)); w_info 2] 0])].
Proof. vm_compute. reflexivity. Qed.

(* the inherited Starter.after (code before e8a69e6): the prediction reaches the real Stopper *)
Lemma inherited_after_sends_stop :
  cx_reqs (fst (predict_std inherited_after_code None 1 (RProcs 0 [2]) (build_ctx w_cd_stop))) = [stop_token 1]
  /\ snd (predict_std inherited_after_code None 1 (RProcs 0 [2]) (build_ctx w_cd_stop))
     = Ok [(2, FATAL, true, [])].
Proof. vm_compute. split; reflexivity. Qed.

Lemma current_code_on_stop_witness :
  cx_reqs (fst (predict_std current_code None 1 (RProcs 0 [2]) (build_ctx w_cd_stop))) = [].
Proof. vm_compute. reflexivity. Qed.

(* ==================================================================================================== *)
(** * Part B — the value machine: prediction = real start *)

Lemma stopped_not_running : forall s, is_stopped s = true -> is_running s = false.
Proof. intros s; destruct s; vm_compute; intros H; try reflexivity; discriminate. Qed.

Lemma find_t_in : forall inp n t, find_t inp n = Some t -> In t (vi_procs inp) /\ t_name t = n.
Proof.
  intros inp n t H. unfold find_t in H. apply find_some in H. destruct H as [Hin He].
  split; [exact Hin | apply Z.eqb_eq; exact He].
Qed.

Lemma zero_name_load : forall inp n t, zero_name inp n = true -> In t (vi_procs inp) -> t_name t = n -> t_load t = 0.
Proof.
  intros inp n t Hz Hin Hn. unfold zero_name in Hz. apply (forallb_In _ _ _ Hz) in Hin.
  rewrite Hn, Z.eqb_refl in Hin. simpl in Hin. apply Z.eqb_eq. exact Hin.
Qed.

Section Match.
  Variable place : Z -> list Z -> list Z -> Z -> alist Z -> result (option Z).
  Variable inp : vinp.
  Variable req : request.
  Hypothesis Hexp : H_expected_fresh inp = true.

  (* a started process that is in a running state has load 0 *)
  Definition ZR (s : vst) : Prop :=
    forall t, In t (vi_procs inp) -> is_running (obj_state s (t_name t)) = true ->
              aget (t_name t) (vs_ident s) <> None -> t_load t = 0.
  Definition ZE (s : vst) : Prop := forall n i st, In (n, i, st) (vs_events s) -> zero_name inp n = true.
  Definition NB (s : vst) : Prop := nb inp (vs_planned s) = true.
  Definition J (s : vst) : Prop := NB s /\ (vs_planned s = [] \/ (ZR s /\ ZE s)).

  Lemma extra_zero : forall s, ZR s -> forall i, extra_on Real inp s i = 0.
  Proof.
    intros s Hz i. unfold extra_on.
    assert (G : forall l, (forall t, In t l -> In t (vi_procs inp)) ->
                          fold_right (fun t acc =>
                                        (if is_running (obj_state s (t_name t))
                                            && option_eqb Z.eqb (aget (t_name t) (vs_ident s)) (Some i)
                                         then t_load t else 0) + acc) 0 l = 0).
    { induction l as [|t r IH]; intros Hsub; simpl; [reflexivity|].
      rewrite IH by (intros t' Ht'; apply Hsub; right; exact Ht').
      destruct (is_running (obj_state s (t_name t))) eqn:Er; simpl; [|reflexivity].
      destruct (aget (t_name t) (vs_ident s)) as [j|] eqn:Ei; simpl; [|reflexivity].
      destruct (Z.eqb j i); [|reflexivity].
      rewrite (Hz t (Hsub t (or_introl eq_refl)) Er); [reflexivity|]. rewrite Ei. discriminate. }
    apply G. intros t Ht. exact Ht.
  Qed.

  Lemma extras_eq : forall s, ZR s -> extras Real inp s = extras Model inp s.
  Proof.
    intros s Hz. unfold extras. apply map_ext. intros i. rewrite (extra_zero s Hz i). reflexivity.
  Qed.

  Lemma process_job_eq : forall s n, ZR s -> process_job place Real inp req s n = process_job place Model inp req s n.
  Proof.
    intros s n Hz. unfold process_job. rewrite (extras_eq s Hz). reflexivity.
  Qed.

  Lemma obj_state_aset : forall s n o m,
      obj_state (set_objs s (aset n o (vs_objs s))) m = if Z.eqb m n then vo_state o else obj_state s m.
  Proof.
    intros s n o m. unfold obj_state, set_objs. simpl.
    destruct (Z.eqb m n) eqn:E.
    - apply Z.eqb_eq in E. subst m. rewrite pr_aget_aset_eq. reflexivity.
    - rewrite pr_aget_aset_neq; [reflexivity|]. intros ->. rewrite Z.eqb_refl in E. discriminate.
  Qed.

  Lemma process_failure_shape : forall t s,
      vs_objs (process_failure t s) = vs_objs s /\ vs_ident (process_failure t s) = vs_ident s
      /\ vs_events (process_failure t s) = vs_events s /\ vs_current (process_failure t s) = vs_current s
      /\ (vs_planned (process_failure t s) = vs_planned s \/ vs_planned (process_failure t s) = []).
  Proof.
    intros t s. unfold process_failure.
    destruct (t_required t); [|repeat split; left; reflexivity].
    destruct (Z.eqb (t_sfs t) gen_StartingFailureStrategies_ABORT); [repeat split; right; reflexivity|].
    destruct (Z.eqb (t_sfs t) gen_StartingFailureStrategies_STOP); repeat split; (right; reflexivity) || (left; reflexivity).
  Qed.

  Lemma ZR_same : forall s s', (forall m, obj_state s' m = obj_state s m) -> vs_ident s' = vs_ident s -> ZR s -> ZR s'.
  Proof.
    intros s s' Ho Hi Hz t Hin Hr Hid. rewrite Ho in Hr. rewrite Hi in Hid. exact (Hz t Hin Hr Hid).
  Qed.

  Lemma nb_nil_or_same : forall s s', NB s -> (vs_planned s' = vs_planned s \/ vs_planned s' = []) -> NB s'.
  Proof. intros s s' H [E|E]; unfold NB; rewrite E; [exact H | reflexivity]. Qed.

  (* one process_job (either mode): what it preserves *)
  Lemma process_job_post : forall md s n s',
      process_job place md inp req s n = Ok s' ->
      ZR s -> NB s -> (vs_planned s = [] \/ (ZE s /\ zero_name inp n = true)) ->
      ZR s' /\ NB s' /\ (vs_planned s' = [] \/ ZE s').
  Proof.
    intros md s n s' H Hz Hnb Hd. unfold process_job in H.
    destruct (find_t inp n) as [t|] eqn:Et; [|discriminate].
    destruct (is_stopped (obj_state s n)) eqn:Es.
    2:{ injection H as <-. split; [exact Hz|]. split; [exact Hnb|]. destruct Hd as [Hd|[Hd _]]; [left|right]; exact Hd. }
    destruct (place (req_strategy req) (extras md inp s) (t_cands t) (t_load t) (load_reqs inp s)) as [[i|]|k];
      simpl in H; [| |discriminate].
    - injection H as <-. split; [|split].
      + intros t' Hin Hr Hid. simpl in *. unfold obj_state in Hr. simpl in Hr.
        destruct (Z.eqb (t_name t') n) eqn:En.
        * apply Z.eqb_eq in En. fold (obj_state s (t_name t')) in Hr. rewrite En in Hr.
          rewrite (stopped_not_running _ Es) in Hr. discriminate.
        * apply (Hz t' Hin Hr). rewrite pr_aget_aset_neq in Hid; [exact Hid|].
          intros E. rewrite E, Z.eqb_refl in En. discriminate.
      + exact Hnb.
      + destruct Hd as [Hd|[Hze Hzn]]; [left; exact Hd | right].
        intros n' i' st' Hin. simpl in Hin. apply in_app_or in Hin. destruct Hin as [Hin|Hin]; [eapply Hze; exact Hin|].
        assert (Hn' : n' = n).
        { destruct Hin as [E|[E|Hin]]; [inversion E; reflexivity | inversion E; reflexivity |].
          destruct (t_wait_exit t); simpl in Hin; [destruct Hin as [E|[]]; inversion E; reflexivity | contradiction]. }
        subst n'. exact Hzn.
    - injection H as <-.
      destruct (process_failure_shape t (set_objs s (aset n (mkVO (obj_state s n) true) (vs_objs s))))
        as (Ho & Hi & He & _ & Hp).
      split; [|split].
      + eapply (ZR_same s); [| |exact Hz].
        * intros m. unfold obj_state at 1. rewrite Ho. fold (obj_state (set_objs s (aset n (mkVO (obj_state s n) true) (vs_objs s))) m).
          rewrite obj_state_aset. destruct (Z.eqb m n) eqn:E; [apply Z.eqb_eq in E; subst; reflexivity | reflexivity].
        * rewrite Hi. reflexivity.
      + eapply (nb_nil_or_same s); [exact Hnb|]. exact Hp.
      + destruct Hp as [Hp|Hp]; [|left; exact Hp].
        destruct Hd as [Hd|[Hze _]]; [left; rewrite Hp; exact Hd | right].
        intros n' i' st' Hin. rewrite He in Hin. simpl in Hin. eapply Hze; exact Hin.
  Qed.

  Lemma zero_group_cons : forall n r, zero_group inp (n :: r) = true -> zero_name inp n = true /\ zero_group inp r = true.
  Proof. intros n r H. unfold zero_group in *. simpl in H. apply andb_prop in H. exact H. Qed.

  Lemma run_group_eq : forall g s,
      ZR s -> NB s -> (vs_planned s = [] \/ (ZE s /\ zero_group inp g = true)) ->
      run_group place Real inp req g s = run_group place Model inp req g s
      /\ forall s', run_group place Model inp req g s = Ok s' -> ZR s' /\ NB s' /\ (vs_planned s' = [] \/ ZE s').
  Proof.
    induction g as [|n r IH]; intros s Hz Hnb Hd; simpl.
    - split; [reflexivity|]. intros s' H. injection H as <-. split; [exact Hz|]. split; [exact Hnb|].
      destruct Hd as [Hd|[Hd _]]; [left|right]; exact Hd.
    - rewrite (process_job_eq s n Hz).
      destruct (process_job place Model inp req s n) as [s1|k] eqn:E1; simpl.
      2:{ split; [reflexivity|]. intros s' H. discriminate. }
      assert (Hd1 : vs_planned s = [] \/ (ZE s /\ zero_name inp n = true)).
      { destruct Hd as [Hd|[Hze Hzg]]; [left; exact Hd | right]. split; [exact Hze|].
        apply zero_group_cons in Hzg. exact (proj1 Hzg). }
      destruct (process_job_post Model s n s1 E1 Hz Hnb Hd1) as [Hz1 [Hnb1 Hd2]].
      (* planned of s1 is planned of s or [] *)
      assert (Hd3 : vs_planned s1 = [] \/ (ZE s1 /\ zero_group inp r = true)).
      { destruct Hd2 as [Hd2|Hd2]; [left; exact Hd2|].
        destruct Hd as [Hd|[_ Hzg]].
        - (* planned s = [] : then planned s1 = [] too *)
          left. clear -E1 Hd. unfold process_job in E1.
          destruct (find_t inp n) as [t|]; [|discriminate].
          destruct (is_stopped (obj_state s n)); [|injection E1 as <-; exact Hd].
          destruct (place _ _ _ _ _) as [[i|]|k]; simpl in E1; [injection E1 as <-; exact Hd | | discriminate].
          injection E1 as <-.
          destruct (process_failure_shape t (set_objs s (aset n (mkVO (obj_state s n) true) (vs_objs s))))
            as (_ & _ & _ & _ & [Hp|Hp]); rewrite Hp; [exact Hd | reflexivity].
        - right. split; [exact Hd2|]. apply zero_group_cons in Hzg. exact (proj2 Hzg). }
      exact (IH s1 Hz1 Hnb1 Hd3).
  Qed.

  Lemma job_next_eq : forall fuel s,
      J s ->
      job_next place Real inp req fuel s = job_next place Model inp req fuel s
      /\ forall s', job_next place Model inp req fuel s = Ok s' -> J s'.
  Proof.
    induction fuel as [|f IH]; intros s HJ; simpl.
    - split; [reflexivity|]. intros s' H. discriminate.
    - destruct (vs_current s) as [|c cr] eqn:Ec.
      2:{ split; [reflexivity|]. intros s' H. injection H as <-. exact HJ. }
      destruct (vs_planned s) as [|[k g] rest] eqn:Ep.
      { split; [reflexivity|]. intros s' H. injection H as <-. exact HJ. }
      destruct HJ as [Hnb [Hnil|[Hz Hze]]]; [rewrite Ep in Hnil; discriminate|].
      set (s1 := set_planned s rest).
      assert (Hz1 : ZR s1) by (eapply (ZR_same s); [intros m; reflexivity | reflexivity | exact Hz]).
      unfold NB in Hnb. rewrite Ep in Hnb.
      assert (Hnb1 : NB s1 /\ (vs_planned s1 = [] \/ (ZE s1 /\ zero_group inp g = true))).
      { unfold NB, s1. simpl. simpl in Hnb. destruct rest as [|x rest'].
        - split; [reflexivity | left; reflexivity].
        - apply andb_prop in Hnb. destruct Hnb as [Hg Hr]. split; [exact Hr|]. right. split; [exact Hze | exact Hg]. }
      destruct Hnb1 as [Hnb1 Hd1].
      destruct (run_group_eq g s1 Hz1 Hnb1 Hd1) as [Heq Hpost].
      rewrite Heq. destruct (run_group place Model inp req g s1) as [s2|k2] eqn:E2; simpl.
      2:{ split; [reflexivity|]. intros s' H. discriminate. }
      destruct (Hpost s2 eq_refl) as [Hz2 [Hnb2 Hd2]].
      apply IH. split; [exact Hnb2|]. destruct Hd2 as [Hd2|Hd2]; [left; exact Hd2 | right; split; assumption].
  Qed.

  Lemma expected_eq : forall t i st, In t (vi_procs inp) ->
      cmd_on_event (t_wait_exit t) (req_ignore req) st (exp_at Real t i)
      = cmd_on_event (t_wait_exit t) (req_ignore req) st (exp_at Model t i).
  Proof.
    intros t i st Hin. unfold exp_at.
    destruct (t_wait_exit t) eqn:Ew.
    - unfold H_expected_fresh in Hexp. apply (forallb_In _ _ _ Hexp) in Hin. rewrite Ew in Hin. simpl in Hin.
      destruct (aget i (t_expected t)) as [b|] eqn:Ea; [|reflexivity].
      apply pr_aget_in in Ea. apply (forallb_In _ _ _ Hin) in Ea. simpl in Ea. subst b. reflexivity.
    - destruct st; reflexivity.
  Qed.

  Lemma on_event_eq : forall s n i st,
      J s -> (vs_planned s = [] \/ zero_name inp n = true) ->
      on_event place Real inp req s (n, i, st) = on_event place Model inp req s (n, i, st)
      /\ forall s', on_event place Model inp req s (n, i, st) = Ok s' -> J s'.
  Proof.
    intros s n i st HJ Hzn. unfold on_event.
    set (s1 := mkVS (aset n (mkVO st (obj_forced s n)) (vs_objs s)) (vs_planned s) (vs_current s) (vs_ident s)
                    (vs_events s) (vs_stopreq s) (vs_places s) (vs_writes s ++ [(n, i, st)])).
    destruct (find_t inp n) as [t|] eqn:Et.
    2:{ split; [reflexivity|]. intros s' H. discriminate. }
    destruct (find_t_in _ _ _ Et) as [Hin Hname].
    assert (HJ1 : J s1).
    { destruct HJ as [Hnb Hd]. split; [exact Hnb|]. destruct Hd as [Hd|[Hz Hze]]; [left; exact Hd|].
      destruct Hzn as [Hzn|Hzn]; [left; exact Hzn | right]. split; [|exact Hze].
      intros t' Hin' Hr Hid. unfold s1, obj_state in Hr. simpl in Hr, Hid.
      destruct (Z.eqb (t_name t') n) eqn:En.
      - apply Z.eqb_eq in En. exact (zero_name_load inp n t' Hzn Hin' En).
      - rewrite pr_aget_aset_neq in Hr by (intros E; rewrite E, Z.eqb_refl in En; discriminate).
        exact (Hz t' Hin' Hr Hid). }
    destruct (zmem n (vs_current s1) && option_eqb Z.eqb (aget n (vs_ident s1)) (Some i)).
    2:{ split; [reflexivity|]. intros s' H. injection H as <-. exact HJ1. }
    rewrite (expected_eq t i st Hin).
    destruct (cmd_on_event (t_wait_exit t) (req_ignore req) st (exp_at Model t i)).
    - split; [reflexivity|]. intros s' H. injection H as <-. exact HJ1.
    - apply job_next_eq. destruct HJ1 as [Hnb Hd]. split; [exact Hnb|].
      destruct Hd as [Hd|[Hz Hze]]; [left; exact Hd | right; split; [|exact Hze]].
      eapply (ZR_same s1); [intros m; reflexivity | reflexivity | exact Hz].
    - apply job_next_eq.
      set (s2 := set_current s1 (zremove1 n (vs_current s1))).
      destruct (process_failure_shape t s2) as (Ho & Hi & He & _ & Hp).
      destruct HJ1 as [Hnb Hd]. split; [eapply (nb_nil_or_same s1); [exact Hnb | exact Hp]|].
      destruct Hp as [Hp|Hp]; [|left; exact Hp].
      destruct Hd as [Hd|[Hz Hze]]; [left; rewrite Hp; exact Hd | right]. split.
      + eapply (ZR_same s1); [| |exact Hz].
        * intros m. unfold obj_state. rewrite Ho. reflexivity.
        * rewrite Hi. reflexivity.
      + intros n' i' st' Hin'. rewrite He in Hin'. eapply Hze. exact Hin'.
  Qed.

  Lemma feed_eq : forall fuel s, J s -> feed place Real inp req fuel s = feed place Model inp req fuel s.
  Proof.
    induction fuel as [|f IH]; intros s HJ; simpl; [reflexivity|].
    destruct (vs_events s) as [|[[n i] st] rest] eqn:Ee; [reflexivity|].
    set (s0 := set_events s rest).
    assert (HJ0 : J s0 /\ (vs_planned s0 = [] \/ zero_name inp n = true)).
    { destruct HJ as [Hnb Hd]. split.
      - split; [exact Hnb|]. destruct Hd as [Hd|[Hz Hze]]; [left; exact Hd | right]. split.
        + eapply (ZR_same s); [intros m; reflexivity | reflexivity | exact Hz].
        + intros n' i' st' Hin. eapply Hze. rewrite Ee. right. exact Hin.
      - destruct Hd as [Hd|[_ Hze]]; [left; exact Hd | right]. eapply Hze. rewrite Ee. left. reflexivity. }
    destruct HJ0 as [HJ0 Hzn].
    destruct (on_event_eq s0 n i st HJ0 Hzn) as [Heq Hpost]. rewrite Heq.
    destruct (on_event place Model inp req s0 (n, i, st)) as [s1|k] eqn:E1; simpl; [|reflexivity].
    apply IH. exact (Hpost s1 eq_refl).
  Qed.

  Lemma J_init : forall objs pl, nb inp pl = true -> J (mkVS objs pl [] [] [] false [] []).
  Proof.
    intros objs pl H. split; [exact H|]. right. split.
    - intros t _ _ Hid. simpl in Hid. contradiction Hid. reflexivity.
    - intros n i st [].
  Qed.

  Lemma job_next_run_eq : forall s, J s ->
      bind (job_next place Real inp req (next_fuel s) s) (feed place Real inp req (feed_fuel inp req))
      = bind (job_next place Model inp req (next_fuel s) s) (feed place Model inp req (feed_fuel inp req)).
  Proof.
    intros s HJ. destruct (job_next_eq (next_fuel s) s HJ) as [Heq Hpost]. rewrite Heq.
    destruct (job_next place Model inp req (next_fuel s) s) as [s1|k]; [|reflexivity].
    unfold bind. apply feed_eq. exact (Hpost s1 eq_refl).
  Qed.

  (* a request for one process: both orders start from the same one-command job *)
  Definition s_single (t : tproc) (n : Z) : vst := mkVS [(n, obj_of t)] [(t_seq t, [n])] [] [] [] false [] [].

  Lemma bind_ok_r {A} : forall r : result A, bind r (fun s => Ok s) = r.
  Proof. intros [a|k]; reflexivity. Qed.

  Lemma init_model_single : forall md n,
      init_procs_model place md inp req [n]
      = match find_t inp n with
        | None => Crash KeyError
        | Some t => if t_stopped t
                    then job_next place md inp req (next_fuel (s_single t n)) (s_single t n)
                    else Ok vs_empty
        end.
  Proof.
    intros md n. unfold init_procs_model, plan_all, plan_proc.
    destruct (find_t inp n) as [t|]; [|reflexivity]. destruct (t_stopped t); reflexivity.
  Qed.

  Lemma init_real_single : forall md n,
      init_procs_real place md inp req [n] vs_empty
      = match find_t inp n with
        | None => Crash KeyError
        | Some t => if t_stopped t
                    then job_next place md inp req (next_fuel (s_single t n)) (s_single t n)
                    else Ok vs_empty
        end.
  Proof.
    intros md n. unfold init_procs_real, start_proc_real.
    destruct (find_t inp n) as [t|]; [|reflexivity]. destruct (t_stopped t); [|reflexivity].
    rewrite bind_ok_r. reflexivity.
  Qed.

  Hypothesis Hreq : H_app_or_single_process req = true.
  Hypothesis Hnb : H_loads_never_bind_across_groups inp req = true.

  (* prediction and real start are the same run *)
  Lemma run_real_eq_model : run place Real inp req = run place Model inp req.
  Proof.
    unfold run, init. destruct req as [strat|strat names] eqn:Er.
    - (* application *)
      unfold init_app. destruct (vi_app_stopped inp); [|reflexivity].
      rewrite <- Er. apply job_next_run_eq. apply J_init.
      unfold H_loads_never_bind_across_groups, init_planned in Hnb. exact Hnb.
    - (* one process *)
      destruct names as [|n [|n2 r]]; try discriminate Hreq.
      rewrite <- Er. rewrite init_model_single, init_real_single.
      destruct (find_t inp n) as [t|]; [|reflexivity].
      destruct (t_stopped t); [|reflexivity].
      apply job_next_run_eq. apply J_init. reflexivity.
  Qed.
End Match.

(* ==================================================================================================== *)
(** * Fuel sufficiency of the value machine *)

Section Fuel.
  Variable place : Z -> list Z -> list Z -> Z -> alist Z -> result (option Z).
  Variable md : mode.
  Variable inp : vinp.
  Variable req : request.
  Hypothesis Hplace : forall a b c d e, place a b c d e <> Crash OutOfFuel.

  Lemma process_job_fuel : forall s n,
      process_job place md inp req s n <> Crash OutOfFuel
      /\ forall s', process_job place md inp req s n = Ok s' -> (length (vs_planned s') <= length (vs_planned s))%nat.
  Proof.
    intros s n. unfold process_job.
    destruct (find_t inp n) as [t|]; [|split; [discriminate | intros s' H; discriminate]].
    destruct (is_stopped (obj_state s n)); [|split; [discriminate | intros s' H; injection H as <-; lia]].
    destruct (place (req_strategy req) (extras md inp s) (t_cands t) (t_load t) (load_reqs inp s)) as [[i|]|k] eqn:E; simpl.
    - split; [discriminate | intros s' H; injection H as <-; simpl; lia].
    - split; [discriminate|]. intros s' H. injection H as <-.
      destruct (process_failure_shape t (set_objs s (aset n (mkVO (obj_state s n) true) (vs_objs s))))
        as (_ & _ & _ & _ & [Hp|Hp]); rewrite Hp; simpl; lia.
    - split; [|intros s' H; discriminate]. intros H. injection H as ->. exact (Hplace _ _ _ _ _ E).
  Qed.

  Lemma run_group_fuel : forall g s,
      run_group place md inp req g s <> Crash OutOfFuel
      /\ forall s', run_group place md inp req g s = Ok s' -> (length (vs_planned s') <= length (vs_planned s))%nat.
  Proof.
    induction g as [|n r IH]; intros s; simpl.
    - split; [discriminate | intros s' H; injection H as <-; lia].
    - destruct (process_job_fuel s n) as [Hn Hl].
      destruct (process_job place md inp req s n) as [s1|k] eqn:E; simpl.
      + destruct (IH s1) as [Hn1 Hl1]. split; [exact Hn1|]. intros s' H. specialize (Hl1 s' H). specialize (Hl s1 eq_refl). lia.
      + split; [exact Hn | intros s' H; discriminate].
  Qed.

  (* the fuel given to ApplicationJobs.next is sufficient *)
  Lemma job_next_fuel : forall fuel s, (length (vs_planned s) < fuel)%nat ->
                                       job_next place md inp req fuel s <> Crash OutOfFuel.
  Proof.
    induction fuel as [|f IH]; intros s Hlt; [lia|]. simpl.
    destruct (vs_current s); [|discriminate].
    destruct (vs_planned s) as [|[k g] rest] eqn:Ep; [discriminate|].
    destruct (run_group_fuel g (set_planned s rest)) as [Hn Hl].
    destruct (run_group place md inp req g (set_planned s rest)) as [s1|k1] eqn:E; simpl; [|exact Hn].
    apply IH. specialize (Hl s1 eq_refl). simpl in Hl, Hlt. lia.
  Qed.

  Lemma job_next_std_fuel : forall s, job_next place md inp req (next_fuel s) s <> Crash OutOfFuel.
  Proof. intros s. apply job_next_fuel. unfold next_fuel. lia. Qed.
End Fuel.

Definition mu (s : vst) : nat := (length (vs_events s) + 3 * length (planned_names (vs_planned s)))%nat.

Lemma planned_names_cons : forall k g rest, planned_names ((k, g) :: rest) = g ++ planned_names rest.
Proof. reflexivity. Qed.

Lemma plan_add_length : forall seq n pl, length (planned_names (plan_add seq n pl)) = S (length (planned_names pl)).
Proof.
  intros seq n pl. induction pl as [|[k g] r IH]; simpl; [reflexivity|].
  destruct (Z.eqb seq k).
  - rewrite !planned_names_cons, !app_length. simpl. lia.
  - destruct (Z.ltb seq k).
    + rewrite !planned_names_cons. simpl. reflexivity.
    + rewrite !planned_names_cons, !app_length, IH. lia.
Qed.

Section Fuel2.
  Variable place : Z -> list Z -> list Z -> Z -> alist Z -> result (option Z).
  Variable md : mode.
  Variable inp : vinp.
  Variable req : request.
  Hypothesis Hplace : forall a b c d e, place a b c d e <> Crash OutOfFuel.

  Lemma process_job_mu : forall s n s', process_job place md inp req s n = Ok s' -> (mu s' <= mu s + 3)%nat.
  Proof.
    intros s n s' H. unfold process_job in H.
    destruct (find_t inp n) as [t|]; [|discriminate].
    destruct (is_stopped (obj_state s n)); [|injection H as <-; lia].
    destruct (place _ _ _ _ _) as [[i|]|k]; simpl in H; [| |discriminate].
    - injection H as <-. unfold mu. simpl. rewrite app_length. simpl. destruct (t_wait_exit t); simpl; lia.
    - injection H as <-.
      destruct (process_failure_shape t (set_objs s (aset n (mkVO (obj_state s n) true) (vs_objs s))))
        as (_ & _ & He & _ & [Hp|Hp]); unfold mu; rewrite He, Hp; simpl; lia.
  Qed.

  Lemma run_group_mu : forall g s s', run_group place md inp req g s = Ok s' -> (mu s' <= mu s + 3 * length g)%nat.
  Proof.
    induction g as [|n r IH]; intros s s' H; simpl in H.
    - injection H as <-. simpl. lia.
    - destruct (process_job place md inp req s n) as [s1|k] eqn:E; simpl in H; [|discriminate].
      apply process_job_mu in E. apply IH in H. simpl. lia.
  Qed.

  Lemma job_next_mu : forall fuel s s', job_next place md inp req fuel s = Ok s' -> (mu s' <= mu s)%nat.
  Proof.
    induction fuel as [|f IH]; intros s s' H; simpl in H; [discriminate|].
    destruct (vs_current s); [|injection H as <-; lia].
    destruct (vs_planned s) as [|[k g] rest] eqn:Ep; [injection H as <-; lia|].
    destruct (run_group place md inp req g (set_planned s rest)) as [s1|k1] eqn:E; simpl in H; [|discriminate].
    apply run_group_mu in E. apply IH in H.
    assert (Hm : (mu (set_planned s rest) + 3 * length g = mu s)%nat).
    { unfold mu. simpl. rewrite Ep, planned_names_cons, app_length. lia. }
    lia.
  Qed.

  Lemma on_event_fuel : forall s e,
      on_event place md inp req s e <> Crash OutOfFuel
      /\ forall s', on_event place md inp req s e = Ok s' -> (mu s' <= mu s)%nat.
  Proof.
    intros s [[n i] st]. unfold on_event.
    set (s1 := mkVS (aset n (mkVO st (obj_forced s n)) (vs_objs s)) (vs_planned s) (vs_current s) (vs_ident s)
                    (vs_events s) (vs_stopreq s) (vs_places s) (vs_writes s ++ [(n, i, st)])).
    assert (H1 : mu s1 = mu s) by reflexivity.
    destruct (find_t inp n) as [t|]; [|split; [discriminate | intros s' H; discriminate]].
    destruct (zmem n (vs_current s1) && option_eqb Z.eqb (aget n (vs_ident s1)) (Some i)).
    2:{ split; [discriminate | intros s' H; injection H as <-; lia]. }
    destruct (cmd_on_event (t_wait_exit t) (req_ignore req) st (exp_at md t i)).
    - split; [discriminate | intros s' H; injection H as <-; lia].
    - split; [apply (job_next_std_fuel place md inp req Hplace)|]. intros s' H. apply job_next_mu in H.
      unfold mu in *. simpl in *. lia.
    - split; [apply (job_next_std_fuel place md inp req Hplace)|]. intros s' H. apply job_next_mu in H.
      destruct (process_failure_shape t (set_current s1 (zremove1 n (vs_current s1)))) as (_ & _ & He & _ & [Hp|Hp]);
        unfold mu in *; rewrite He, Hp in H; simpl in *; lia.
  Qed.

  (* the fuel given to feed_model / the event loop is sufficient *)
  Lemma feed_fuel_ok : forall fuel s, (mu s < fuel)%nat -> feed place md inp req fuel s <> Crash OutOfFuel.
  Proof.
    induction fuel as [|f IH]; intros s Hlt; [lia|]. simpl.
    destruct (vs_events s) as [|e rest] eqn:Ee; [discriminate|].
    destruct (on_event_fuel (set_events s rest) e) as [Hn Hl].
    destruct (on_event place md inp req (set_events s rest) e) as [s1|k] eqn:E; simpl; [|exact Hn].
    apply IH. specialize (Hl s1 eq_refl).
    assert (Hm : (mu (set_events s rest) + 1 = mu s)%nat) by (unfold mu; simpl; rewrite Ee; simpl; lia).
    lia.
  Qed.

  (* ---- the initial states *)
  Lemma plan_proc_mu : forall s n s', plan_proc inp s n = Ok s' -> (mu s' <= mu s + 3)%nat.
  Proof.
    intros s n s' H. unfold plan_proc in H. destruct (find_t inp n) as [t|]; [|discriminate].
    destruct (t_stopped t && negb (zmem n (planned_names (vs_planned s)) || zmem n (vs_current s)));
      injection H as <-; [|lia].
    unfold mu. simpl. rewrite plan_add_length. lia.
  Qed.

  Lemma plan_all_mu : forall names s s', plan_all inp names s = Ok s' -> (mu s' <= mu s + 3 * length names)%nat.
  Proof.
    induction names as [|n r IH]; intros s s' H; simpl in H.
    - injection H as <-. simpl. lia.
    - destruct (plan_proc inp s n) as [s1|k] eqn:E; simpl in H; [|discriminate].
      apply plan_proc_mu in E. apply IH in H. simpl. lia.
  Qed.

  Lemma plan_all_no_oof : forall names s, plan_all inp names s <> Crash OutOfFuel.
  Proof.
    induction names as [|n r IH]; intros s; simpl; [discriminate|].
    unfold plan_proc at 1. destruct (find_t inp n) as [t|]; [|simpl; discriminate].
    destruct (t_stopped t && negb (zmem n (planned_names (vs_planned s)) || zmem n (vs_current s))); simpl; apply IH.
  Qed.

  Lemma start_proc_real_fuel : forall s n,
      start_proc_real place md inp req s n <> Crash OutOfFuel
      /\ forall s', start_proc_real place md inp req s n = Ok s' -> (mu s' <= mu s + 3)%nat.
  Proof.
    intros s n. unfold start_proc_real.
    destruct (find_t inp n) as [t|] eqn:Et; [|split; [discriminate | intros s' H; discriminate]].
    destruct (t_stopped t) eqn:Es; [|split; [discriminate | intros s' H; injection H as <-; lia]].
    destruct (job_alive s) eqn:Ea.
    - split; [|apply plan_proc_mu].
      unfold plan_proc. rewrite Et. destruct (_ && _); discriminate.
    - split; [apply (job_next_std_fuel place md inp req Hplace)|].
      intros s' H. apply job_next_mu in H. unfold job_alive in Ea.
      destruct (vs_planned s) eqn:Ep; [|discriminate]. unfold mu in *. simpl in *. rewrite Ep. simpl. lia.
  Qed.

  Lemma init_procs_real_fuel : forall names s,
      init_procs_real place md inp req names s <> Crash OutOfFuel
      /\ forall s', init_procs_real place md inp req names s = Ok s' -> (mu s' <= mu s + 3 * length names)%nat.
  Proof.
    induction names as [|n r IH]; intros s; simpl.
    - split; [discriminate | intros s' H; injection H as <-; lia].
    - destruct (start_proc_real_fuel s n) as [Hn Hl].
      destruct (start_proc_real place md inp req s n) as [s1|k] eqn:E; simpl; [|split; [exact Hn | intros s' H; discriminate]].
      destruct (IH s1) as [Hn1 Hl1]. split; [exact Hn1|]. intros s' H. specialize (Hl1 s' H). specialize (Hl s1 eq_refl). lia.
  Qed.

  Lemma app_targets_length : (length (app_targets inp) <= length (vi_procs inp))%nat.
  Proof.
    unfold app_targets. destruct (vi_managed inp); [|simpl; lia].
    induction (vi_procs inp) as [|t r IH]; simpl; [lia|]. destruct (Z.ltb 0 (t_seq t)); simpl; lia.
  Qed.

  Lemma fold_plan_length : forall ts pl,
      length (planned_names (fold_left (fun pl t => plan_add (t_seq t) (t_name t) pl) ts pl))
      = (length ts + length (planned_names pl))%nat.
  Proof.
    induction ts as [|t r IH]; intros pl; simpl; [reflexivity|]. rewrite IH, plan_add_length. lia.
  Qed.

End Fuel2.

Lemma init_fuel : forall place md inp req,
    (forall a b c d e, place a b c d e <> Crash OutOfFuel) ->
    init place md inp req <> Crash OutOfFuel
    /\ forall s, init place md inp req = Ok s -> (mu s <= 3 * (length (vi_procs inp) + req_len req))%nat.
Proof.
  intros place md inp req Hplace. unfold init, req_len. destruct req as [strat|strat names] eqn:Er.
  - unfold init_app. destruct (vi_app_stopped inp); [|split; [discriminate | intros s H; injection H as <-; unfold mu; simpl; lia]].
    split; [apply job_next_std_fuel; exact Hplace|].
    intros s H. apply job_next_mu in H. unfold mu in H at 2. simpl in H. rewrite fold_plan_length in H.
    pose proof (app_targets_length inp). simpl in H. lia.
  - destruct md.
    + unfold init_procs_model.
      destruct (plan_all inp names vs_empty) as [s0|k] eqn:E.
      * unfold bind. split; [apply job_next_std_fuel; exact Hplace|].
        intros s H. apply job_next_mu in H. apply plan_all_mu in E. unfold mu in E at 2. simpl in E. lia.
      * unfold bind. split; [|intros s H; discriminate]. intros H. injection H as ->. exact (plan_all_no_oof inp names vs_empty E).
    + destruct (init_procs_real_fuel place Real inp (RProcs strat names) Hplace names vs_empty) as [Hn Hl]. split; [exact Hn|].
      intros s H. specialize (Hl s H). unfold mu in Hl at 2. simpl in Hl. lia.
Qed.

(* with the fuel of the model, a run never ends on OutOfFuel (unless the placement function itself does) *)
Theorem run_never_out_of_fuel : forall place md inp req,
    (forall a b c d e, place a b c d e <> Crash OutOfFuel) ->
    run place md inp req <> Crash OutOfFuel.
Proof.
  intros place md inp req Hplace. unfold run.
  destruct (init_fuel place md inp req Hplace) as [Hn Hl].
  destruct (init place md inp req) as [s|k]; [|exact Hn].
  unfold bind. apply (feed_fuel_ok place md inp req Hplace). specialize (Hl s eq_refl). unfold feed_fuel. lia.
Qed.

(* ==================================================================================================== *)
(** * The property-level statements *)

(* P0 prediction_pure: any sequence of predictions (any placement functions, requests, applications) leaves the
   live view — hence everything Supvisors reports, rules apart — exactly as it was, and the heap stays well formed *)
Theorem prediction_pure_seq : forall (l : list preq) cx,
    heap_wf cx = true ->
    heap_wf (predict_seq current_code l cx) = true
    /\ status_view (predict_seq current_code l cx) = status_view cx
    /\ status_of (observe_ctx (predict_seq current_code l cx)) = status_of (observe_ctx cx).
Proof.
  intros l cx Hwf. destruct (predict_seq_pure l cx Hwf) as [H1 H2].
  split; [exact H1|]. split; [exact H2|]. apply status_of_view. exact H2.
Qed.

(* ... and k repetitions of the same request with the real strategies give k times the same answer *)
Theorem prediction_pure_repeated : forall ra a req k cx,
    heap_wf cx = true ->
    status_of (observe_ctx (fst (predict_n current_code ra a req k cx))) = status_of (observe_ctx cx)
    /\ forall p, In p (snd (predict_n current_code ra a req k cx)) -> p = snd (predict_std current_code ra a req cx).
Proof.
  intros ra a req k cx Hwf. split.
  - apply status_of_view. exact (proj2 (predict_n_pure ra a req k cx Hwf)).
  - apply predict_n_repeat. exact Hwf.
Qed.

(* no request, whatever the failure strategy: the real Starter / Stopper jobs and the request log are untouched *)
Theorem prediction_sends_no_request : forall place ra a req cx,
    cx_reqs (fst (predict current_code place ra a req cx)) = cx_reqs cx
    /\ cx_jobs (fst (predict current_code place ra a req cx)) = cx_jobs cx.
Proof.
  intros place ra a req cx. unfold predict.
  destruct (run place Model (inp_of_view (view_of cx) a) req) as [s|k]; simpl; [|split; reflexivity].
  destruct (mk_mocks current_code cx _) as [cx1 mocks]. simpl. split; reflexivity.
Qed.

Theorem prediction_rules_pure_partial : forall V place ra a req cx,
    H_rules_resolved ra req cx -> cx_rules (fst (predict V place ra a req cx)) = cx_rules cx.
Proof. exact predict_rules_pure. Qed.

(* N3: test_start_application resolves the live rules *)
Theorem prediction_resolves_rules_refuted :
  exists cx a req ra, heap_wf cx = true
                      /\ cx_rules (fst (predict_std current_code ra a req cx)) <> cx_rules cx.
Proof.
  exists (build_ctx w_cd_two_groups), 1, (RApp 0), (Some [(1, 1, [1])]).
  split; [vm_compute; reflexivity|]. vm_compute. discriminate.
Qed.

(* F22 regression: with the shallow copy the statement is false *)
Theorem prediction_shallow_refuted :
  exists cx a req, heap_wf cx = true
                   /\ status_eqb (observe_ctx (fst (predict_std shallow_code None a req cx))) (observe_ctx cx) = false.
Proof.
  exists (build_ctx w_cd_two_groups), 1, (RApp 0). split; [exact w_two_groups_wf | exact shallow_changes_live_info].
Qed.

(* N1 regression: with the inherited Starter.after a request is sent *)
Theorem prediction_inherited_after_refuted :
  exists cx a req, heap_wf cx = true
                   /\ cx_reqs (fst (predict_std inherited_after_code None a req cx)) <> cx_reqs cx.
Proof.
  exists (build_ctx w_cd_stop), 1, (RProcs 0 [2]). split; [exact w_stop_wf|].
  rewrite (proj1 inherited_after_sends_stop). vm_compute. discriminate.
Qed.

(* P0 prediction_matches_real (partial): the prediction and the real start fed with normal events are the same run
   of the machine — same placements in the same order — for every placement function, under the three named
   hypotheses. Missing for the full statement: each hypothesis is necessary (refutations below). *)
Theorem prediction_matches_real_partial : forall place inp req,
    H_app_or_single_process req = true ->
    H_loads_never_bind_across_groups inp req = true ->
    H_expected_fresh inp = true ->
    places_of (run place Model inp req) = places_of (run place Real inp req).
Proof.
  intros place inp req H1 H2 H3. rewrite (run_real_eq_model place inp req H3 H1 H2). reflexivity.
Qed.

Corollary prediction_matches_real_ctx : forall a req cx,
    H_app_or_single_process req = true ->
    H_loads_never_bind_across_groups (inp_of_view (view_of cx) a) req = true ->
    H_expected_fresh (inp_of_view (view_of cx) a) = true ->
    predicted_places a req cx = real_places a req cx.
Proof.
  intros a req cx H1 H2 H3. unfold predicted_places, real_places. apply prediction_matches_real_partial; assumption.
Qed.

(* the hypotheses are satisfiable on a non-trivial situation: two sequence groups, the second one loaded,
   two candidate instances, LESS_LOADED *)
Definition w_cd_ok : cdesc :=
  mkCD [(1, 0, 0, [w_proc 1; w_proc 2; w_proc 3])] [1]
       [mkPRl 1 1 1 true true 0 0 [1; 2]; mkPRl 1 2 2 false false 60 0 [1; 2]; mkPRl 1 3 2 false false 60 0 [1; 2]]
       w_insts w_nodes [] [] [].

Example matches_real_hyps_ok :
  let cx := build_ctx w_cd_ok in
  let inp := inp_of_view (view_of cx) 1 in
  H_app_or_single_process (RApp 1) = true /\ H_loads_never_bind_across_groups inp (RApp 1) = true
  /\ H_expected_fresh inp = true /\ heap_wf cx = true
  /\ predicted_places 1 (RApp 1) cx = Ok [(1, 1); (2, 1); (3, 2)].
Proof. vm_compute. repeat split; reflexivity. Qed.

(* F23: H_loads_never_bind_across_groups is necessary *)
Theorem prediction_ignores_own_load_refuted :
  exists cx a req,
    let inp := inp_of_view (view_of cx) a in
    H_app_or_single_process req = true /\ H_expected_fresh inp = true
    /\ predicted_places a req cx = Ok [(1, 1); (2, 1)] /\ real_places a req cx = Ok [(1, 1); (2, 2)].
Proof.
  exists (build_ctx w_cd_two_groups), 1, (RApp 0). vm_compute. repeat split; reflexivity.
Qed.

(* N2: H_expected_fresh is necessary. A1 = {p1 seq 1 required wait_exit ABORT, last exit unexpected; p2 seq 2} *)
Definition w_cd_stale : cdesc :=
  mkCD [(1, 0, 0, [mkOP 1 EXITED None [] [(1, (EXITED, false, false, 0))] 0; w_proc 2])] [1]
       [mkPRl 1 1 1 true true 0 gen_StartingFailureStrategies_ABORT [1]; mkPRl 1 2 2 false false 0 0 [1; 2]]
       w_insts w_nodes [] [] [].

Theorem prediction_stale_expected_refuted :
  exists cx a req,
    let inp := inp_of_view (view_of cx) a in
    H_app_or_single_process req = true /\ H_loads_never_bind_across_groups inp req = true
    /\ predicted_places a req cx = Ok [(1, 1)] /\ real_places a req cx = Ok [(1, 1); (2, 1)].
Proof.
  exists (build_ctx w_cd_stale), 1, (RApp 0). vm_compute. repeat split; reflexivity.
Qed.

(* N4: H_app_or_single_process is necessary. A1 = {p1 seq 2 optional; p2 seq 1 required ABORT, no candidate},
   request 'A1:*' *)
Definition w_cd_order : cdesc :=
  mkCD [(1, 0, 0, [w_proc 1; w_proc 2])] [1]
       [mkPRl 1 1 2 false false 0 0 [1; 2]; mkPRl 1 2 1 true false 0 gen_StartingFailureStrategies_ABORT []]
       w_insts w_nodes [] [] [].

Theorem prediction_group_order_refuted :
  exists cx a req,
    let inp := inp_of_view (view_of cx) a in
    H_loads_never_bind_across_groups inp req = true /\ H_expected_fresh inp = true
    /\ predicted_places a req cx = Ok [] /\ real_places a req cx = Ok [(1, 1)].
Proof.
  exists (build_ctx w_cd_order), 1, (RProcs 0 [1; 2]). vm_compute. repeat split; reflexivity.
Qed.

(* the purity hypotheses are satisfiable: a well-formed heap on which predictions do place processes *)
Example pure_hyps_ok :
  heap_wf (build_ctx w_cd_ok) = true
  /\ snd (predict_std current_code None 1 (RApp 1) (build_ctx w_cd_ok))
     = Ok [(1, EXITED, false, [1]); (2, RUNNING, false, [1]); (3, RUNNING, false, [2])].
Proof. vm_compute. split; reflexivity. Qed.
