From Sup Require Import Node NodeSpec.
Theorem placeholder16 : True. Proof. exact I. Qed.
