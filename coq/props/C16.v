(* C16 (node-level part) — whatever sequence of ticks, peer publications, handshake notifications and requests an
   instance receives, handling it never raises an internal error. Property-level theorems only; proofs in
   proofs/NodeFsmProofs.v.

   Reading guide.
   * [WF n] : the local instance is known; instance_states mirrors the instance statuses; instance_state_modes has
     the same keys; every known instance has a nick identifier.
   * [wf_event n e] : every event, except (a) restart / shutdown requests while no Master is known (documented
     error), (b) an ALL_INFO failure notice for a CHECKED / RUNNING instance (c16_crash_excused), (c) end_sync
     without a Master name when no candidate exists ([endsync_ok]; never the case when the local instance is RUNNING).
   * [Crash OutOfFuel] : the set_state loop did not settle within loop_fuel transitions (termination is not proved). *)
From Sup Require Import Node NodeSpec NodeFsmProofs.

Theorem C16_node_no_crash_partial : forall n e, WF n -> wf_event n e = true ->
  match step n e with Ok (n', _) => WF n' | Crash k => k = OutOfFuel end.
Proof. exact node_no_crash_partial. Qed.

Theorem C16_run_no_crash : forall evs n, WF n -> wf_hist n evs ->
  forall k, In (NCrash k) (run n evs) -> k = OutOfFuel.
Proof. exact run_no_crash. Qed.

(* every history: an exception is excused by c16_crash_excused (or the fuel is exhausted) *)
Theorem C16_run_no_crash_spec : forall n evs, WF n -> endsync_hist n evs ->
  nspec_ok fl_c16 (n, evs, run n evs) = true \/ In (NCrash OutOfFuel) (run n evs).
Proof. exact run_no_crash_spec. Qed.

(* the excluded events do raise: wf_event is necessary *)
Theorem C16_not_wf_crashes : forall n e, WF n -> wf_event n e = false -> exists k, step n e = Crash k.
Proof. exact not_wf_crashes. Qed.

Theorem C16_wf_event_of_not_excused : forall n e,
  c16_crash_excused e (scode (fsm_state n)) (init_ist n) = false ->
  (forall m now orcs, e = ReqEndSync m now orcs -> endsync_ok n m = true) -> wf_event n e = true.
Proof. exact wf_event_of_not_excused. Qed.

Theorem C16_endsync_ok_local : forall n m, WF n -> local_running n = true -> endsync_ok n m = true.
Proof. exact endsync_ok_local. Qed.

Theorem C16_step_preserves_WF : forall n e n' outs, WF n -> step n e = Ok (n', outs) -> WF n'.
Proof. exact step_WF. Qed.

(* ---- the carve-out is real for inconsistent options (TIMEOUT with a strategy other than CONTINUE is
   excluded by SupvisorsOptions.check_options): the set_state loop then does not terminate ----
   STRICT + TIMEOUT synchronization options, RESYNC failure strategy, one STRICT instance missing, synchro timeout
   elapsed: SYNCHRONIZATION -> ELECTION (timeout) -> SYNCHRONIZATION (strict failure, RESYNC) -> ... for ever *)
Theorem C16_set_state_loops_on_inconsistent_options :
  exists n next orcs now, WF n /\ forall fuel acc, set_state fuel n next orcs now acc = Crash OutOfFuel.
Proof. exact set_state_loops_on_inconsistent_options. Qed.

Theorem C16_run_out_of_fuel_reachable : exists n evs, WF n /\ wf_hist n evs /\ evD_hist n evs /\
  In (NCrash OutOfFuel) (run n evs).
Proof. exact run_out_of_fuel_reachable. Qed.

(* a first part of termination: from RESTARTING / SHUTTING_DOWN / FINAL the loop needs one transition at most *)
Theorem C16_set_state_terminates_ending_partial : forall fuel n d orcs now acc, WF n ->
  (fsm_state n = RESTARTING \/ fsm_state n = SHUTTING_DOWN \/ fsm_state n = FINAL) ->
  exists r, set_state (S fuel) n d orcs now acc = Ok r.
Proof. exact set_state_terminates_ending_partial. Qed.
