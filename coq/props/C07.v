From Sup Require Import Node NodeSpec.
Theorem placeholder07 : True. Proof. exact I. Qed.
