(* C07 — failure detection of Supvisors instances: property-level theorems (proofs in proofs/NodeInstProofs.v).
   Model: model/Node.v (one instance's control plane); checkers written from the property text: model/NodeSpec.v.
   WFI n: the instance table has no duplicate key and the local instance is not marked ISOLATED (true of every
   start-up node, preserved by every event). *)
From Sup Require Import Node NodeSpec NodeInstProofs.

(* The reflected transition table of SupvisorsInstanceStatus lies within the documented graph
   STOPPED, CHECKING, CHECKED, RUNNING, FAILED and back to STOPPED or to ISOLATED; ISOLATED has no successor. *)
Theorem C07_table_within_documented : forall a b : istate,
  inst_transition_ok a b = true -> documented_inst_edge (icode a) (icode b) = true.
Proof. exact inst_table_within_documented. Qed.

Theorem C07_isolated_no_successor : forall b, inst_transition_ok ISOLATED b = false.
Proof. exact isolated_no_successor. Qed.

(* Well-formedness is an invariant. *)
Theorem C07_wfi_invariant : forall n e n' outs, WFI n -> step n e = Ok (n', outs) -> WFI n'.
Proof. exact step_WFI. Qed.

(* Within one event every instance moves by one documented edge, or through FAILED to STOPPED / ISOLATED,
   and the local instance does not become ISOLATED. *)
Theorem C07_graph_step : forall n e n' outs, WFI n -> step n e = Ok (n', outs) ->
  c07_graph (n_me n) (init_ist n) (init_ist n') = true.
Proof. exact step_inst_graph. Qed.

(* Detection at one event — completeness: at a local tick an instance in an active state, silent for more than
   inactivity_ticks local ticks, ends the event STOPPED or ISOLATED; accuracy: a RUNNING instance leaves RUNNING only
   at such a tick or on a failure notice for itself; fencing: ISOLATED is chosen only with auto_fence (or by the
   handshake). Premise: the local TICK counter does not go backwards (tick_sane). *)
Theorem C07_detection_step : forall n e n' outs, WFI n -> tick_sane n e = true -> step n e = Ok (n', outs) ->
  c07_detection (n_me n) (o_inactivity (n_opts n)) (o_auto_fence (n_opts n)) e (init_ist n) (init_ist n') = true.
Proof. exact detection. Qed.

(* The premise cannot be dropped: when the local counter goes backwards the local instance declares itself
   FAILED then STOPPED (SupvisorsTimes.update treats it as a stealth restart). *)
Theorem C07_detection_needs_monotone_local_ticks : exists n e n' outs, WFI n /\ step n e = Ok (n', outs) /\
  c07_detection (n_me n) (o_inactivity (n_opts n)) (o_auto_fence (n_opts n)) e (init_ist n) (init_ist n') = false.
Proof. exact detection_needs_tick_sane. Qed.

(* Alternative without premise: with the exact clause for the local instance (at a local tick its tag is the tick's
   counter, or 0 when that counter is lower than the stored one, as SupvisorsTimes.update does), the detection
   checker accepts every event. c07_detection_exact differs from NodeSpec.c07_detection only by that clause. *)
Theorem C07_detection_step_exact : forall n e n' outs, WFI n -> step n e = Ok (n', outs) ->
  c07_detection_exact (n_me n) (o_inactivity (n_opts n)) (o_auto_fence (n_opts n)) e (init_ist n) (init_ist n') = true.
Proof. exact detection_exact. Qed.

Theorem C07_detection_exact_agrees : forall me inact af e j s r c s',
  match e with LocalTick cnt _ _ => j = me -> r <= cnt | _ => True end ->
  detect_body_exact me inact af e j s r c s' = detect_body me inact af e j s c s'.
Proof. exact detect_body_exact_agrees. Qed.

(* Accuracy in the property's wording: a peer seen RUNNING, for which no XML-RPC failure is notified and whose
   last TICK is never older than inactivity_ticks local ticks when a local tick arrives (live_hyp, checked along
   the run), is RUNNING after every event of the history. *)
Theorem C07_live_peer_never_lost : forall j evs n, WFI n -> j <> n_me n -> inst_state n j = Some IRUNNING ->
  run_all (live_hyp j) n evs = true ->
  forall evs1 evs2 n', evs = evs1 ++ evs2 -> run_state n evs1 = Ok n' -> inst_state n' j = Some IRUNNING.
Proof. exact live_peer_never_lost. Qed.

(* A TICK of peer j taken into account tags j with the current local counter, unless j's own counter went
   backwards (stealth restart: the tag is reset to 0, which is the "has not restarted" proviso). *)
Theorem C07_peer_tick_tags : forall n og rc now n' o j s, WFI n -> step n (PeerTick og rc now) = Ok (n', o) ->
  resolve n og = Some j -> local_checked_or_running n = true -> aget j (n_insts n) = Some s ->
  exists s', aget j (n_insts n') = Some s' /\ is_remote_cnt s' = rc /\
    is_local_cnt s' = (if rc <? is_remote_cnt s then 0 else if local_cnt n <? 0 then rc else local_cnt n).
Proof. exact peer_tick_tags. Qed.

(* Window formulation: if the last TICK of peer j (not restarted) was taken into account while the local counter
   was c0 with cnt - c0 <= inactivity_ticks, the liveness premise holds at the local tick numbered cnt. *)
Theorem C07_window_formulation : forall n j evs1 og rc now0 evs2 n1 n2 o1 n3 s1 cnt now orcs,
  WFI n -> j <> n_me n ->
  run_state n evs1 = Ok n1 ->
  step n1 (PeerTick og rc now0) = Ok (n2, o1) -> resolve n1 og = Some j -> local_checked_or_running n1 = true ->
  aget j (n_insts n1) = Some s1 -> is_remote_cnt s1 <= rc -> 0 <= local_cnt n1 ->
  forallb (not_tick_of j) evs2 = true -> run_state n2 evs2 = Ok n3 ->
  cnt - local_cnt n1 <= o_inactivity (n_opts n) ->
  live_hyp j n3 (LocalTick cnt now orcs) = true.
Proof. exact window_formulation. Qed.

(* Every history: the C07 checker accepts the run of the model, provided the local TICK counter never goes
   backwards (checked along the run). *)
Theorem C07_every_history : forall n evs, WFI n -> run_all tick_sane n evs = true ->
  nspec_ok fl_c07 (n, evs, run n evs) = true.
Proof. exact run_c07. Qed.

(* The same with a premise on the events only: local counters non-decreasing from `last` on, no TICK claiming
   to come from the local instance. *)
Theorem C07_every_monotone_history : forall n evs last, WFI n -> local_cnt n <= last ->
  ticks_monotone (n_me n) last evs = true -> nspec_ok fl_c07 (n, evs, run n evs) = true.
Proof. exact run_c07_monotone. Qed.

Theorem C07_history_needs_monotone_local_ticks : exists n evs, WFI n /\ nspec_ok fl_c07 (n, evs, run n evs) = false.
Proof. exact run_c07_needs_tick_sane. Qed.

(* The local instance is never ISOLATED; ISOLATED is final. *)
Theorem C07_local_never_isolated : forall n evs n', WFI n -> run_state n evs = Ok n' ->
  inst_state n' (n_me n) <> Some ISOLATED.
Proof. exact local_never_isolated. Qed.

Theorem C07_isolated_final : forall n evs j, WFI n -> inst_state n j = Some ISOLATED ->
  forall n', run_state n evs = Ok n' -> inst_state n' j = Some ISOLATED.
Proof. exact isolated_absorbing. Qed.

(* Non-vacuity: a peer becomes RUNNING, falls silent, is still RUNNING while within the bound and is lost at the
   first local tick beyond it — ISOLATED with auto_fence, STOPPED without. *)
Theorem C07_example_fenced :
  states_of 2 (run (ex_node true) ex_hist)
  = [Some 0; Some 0; Some 0; Some 1; Some 2; Some 3; Some 3; Some 3; Some 5; Some 5].
Proof. exact ex_lost_fenced. Qed.

Theorem C07_example_unfenced :
  states_of 2 (run (ex_node false) ex_hist)
  = [Some 0; Some 0; Some 0; Some 1; Some 2; Some 3; Some 3; Some 3; Some 0; Some 0].
Proof. exact ex_lost_unfenced. Qed.
