(* C12 — all instances agree on where processes run, and that view is true: property-level theorems
   (proofs in proofs/ReplicationProofs.v; model in model/Replication.v). The theorems named C13_* are the
   process-plane clause of C13, proved on the same receiver-level model. *)
From Sup Require Import ProcStatus Replication ReplicationProofs.

(* ---- positive part ---- *)
(* For EVERY schedule (process activity, interleaving of publications and notifications, handshakes, losses of
   instances, lost publications) in which no process event is lost inside a handshake window (`clean`), at every
   point where i's publications towards j are all delivered and j sees i RUNNING, j holds for every process of i
   exactly what i's Supervisor reports. *)
Theorem C12_agreement_partial : forall truths tr c,
  (forall i t, aget i truths = Some t -> NoDup (akeys t)) ->
  clean (cinit truths) tr = true -> crun (cinit truths) tr = Ok c ->
  forall j i nj ni, aget j (c_nodes c) = Some nj -> aget i (c_nodes c) = Some ni ->
    adm (cn_ctx nj) i = Some IRUNNING -> out_queue ni j = [] ->
    forall k t, aget k (cn_truth ni) = Some t -> rvinfo (cn_ctx nj) k i = Some t.
Proof. exact agreement_partial. Qed.

(* ... hence the running set reported by j contains i exactly when i's Supervisor reports the process in a
   running state (STARTING, BACKOFF, RUNNING), and not when it reports a stopped one. *)
Theorem C12_running_agreement : forall truths tr c,
  (forall i t, aget i truths = Some t -> NoDup (akeys t)) ->
  clean (cinit truths) tr = true -> crun (cinit truths) tr = Ok c ->
  forall j i nj ni, aget j (c_nodes c) = Some nj -> aget i (c_nodes c) = Some ni ->
    adm (cn_ctx nj) i = Some IRUNNING -> out_queue ni j = [] ->
    forall k st e, aget k (cn_truth ni) = Some (st, e) ->
      exists p, aget k (r_procs (cn_ctx nj)) = Some p
        /\ (is_running_like st = true -> zmem i (p_running p) = true)
        /\ (is_stopped_like st = true -> zmem i (p_running p) = false).
Proof. exact running_agreement. Qed.

(* ... and "whether a process is stopped or running is agreed": if an instance that j sees RUNNING reports the
   process in a running state, j's synthetic state for the process is a running one. *)
Theorem C12_running_status_agreement : forall truths tr c,
  (forall i t, aget i truths = Some t -> NoDup (akeys t)) ->
  clean (cinit truths) tr = true -> crun (cinit truths) tr = Ok c ->
  forall j i nj ni, aget j (c_nodes c) = Some nj -> aget i (c_nodes c) = Some ni ->
    adm (cn_ctx nj) i = Some IRUNNING -> out_queue ni j = [] ->
    forall k st e, aget k (cn_truth ni) = Some (st, e) -> is_running_like st = true ->
      exists p, aget k (r_procs (cn_ctx nj)) = Some p /\ is_running_like (p_state p) = true.
Proof. exact running_status_agreement. Qed.

(* ... hence two instances that see i RUNNING agree about i. *)
Theorem C12_pairwise_agreement : forall truths tr c,
  (forall i t, aget i truths = Some t -> NoDup (akeys t)) ->
  clean (cinit truths) tr = true -> crun (cinit truths) tr = Ok c ->
  forall a b i na nb ni, aget a (c_nodes c) = Some na -> aget b (c_nodes c) = Some nb -> aget i (c_nodes c) = Some ni ->
    adm (cn_ctx na) i = Some IRUNNING -> adm (cn_ctx nb) i = Some IRUNNING ->
    out_queue ni a = [] -> out_queue ni b = [] ->
    forall k st e, aget k (cn_truth ni) = Some (st, e) ->
      rvinfo (cn_ctx na) k i = rvinfo (cn_ctx nb) k i
      /\ (st <> STOPPING ->
          exists pa pb, aget k (r_procs (cn_ctx na)) = Some pa /\ aget k (r_procs (cn_ctx nb)) = Some pb
            /\ zmem i (p_running pa) = zmem i (p_running pb)).
Proof. exact pairwise_agreement. Qed.

(* the boolean specification evaluated by the check, at every quiescent point (all queues empty, no handshake
   in progress) of a clean schedule: every view of a RUNNING instance is true, and so is every running set *)
Theorem C12_agreement_at_quiescence : forall truths tr c,
  NoDup (akeys truths) -> (forall i t, aget i truths = Some t -> NoDup (akeys t)) ->
  clean (cinit truths) tr = true -> crun (cinit truths) tr = Ok c ->
  quiescent c = true -> view_true c = true /\ running_true c = true.
Proof. exact agreement_at_quiescence. Qed.

(* no schedule makes the model raise *)
Theorem C12_cluster_no_crash : forall tr truths,
  (forall i t, aget i truths = Some t -> NoDup (akeys t)) ->
  exists c, crun (cinit truths) tr = Ok c.
Proof.
  intros tr truths H. destruct (cluster_no_crash tr (cinit truths) (proj1 (cinit_inv truths H))) as [c [E _]].
  exists c. exact E.
Qed.

(* what `clean` excludes, in words: a lost event is harmless iff, in a window, it is superseded by a queued event
   or already contained in the snapshot / view *)
Theorem C12_loss_harmless_iff : forall nj i k t rest b, window_base nj i k = Some b ->
  (loss_harmful nj i k t rest = false <->
   (last_ev k rest = Some t \/ (last_ev k rest = None /\ b = Some t))).
Proof. exact loss_harmless_iff. Qed.

Theorem C12_hypotheses_satisfiable :
  (forall i t, aget i w_truths = Some t -> NoDup (akeys t))
  /\ clean (cinit w_truths) w_clean = true
  /\ (let c := final_of w_truths w_clean in
      quiescent c = true /\ view_true c = true /\ running_true c = true
      /\ sees c 1 2 = Some IRUNNING /\ view_of c 1 7 2 = Some (STOPPED, true) /\ running_at c 1 7 = []).
Proof. exact agreement_hypotheses_satisfiable. Qed.

(* ---- the full-strength statement is false: the handshake window (F13), three ways ---- *)
Theorem C12_handshake_window_refuted :
  exists truths tr c, crun (cinit truths) tr = Ok c /\ quiescent c = true
    /\ view_true c = false /\ running_true c = false
    /\ sees c 1 2 = Some IRUNNING
    /\ view_of c 1 7 2 = Some (RUNNING, true) /\ truth_of c 2 7 = Some (STOPPED, true)
    /\ running_at c 1 7 = [2] /\ running_at c 2 7 = [].
Proof. exact handshake_window_refuted. Qed.

Theorem C12_handshake_window_sender_refuted :
  exists truths tr c, crun (cinit truths) tr = Ok c /\ quiescent c = true
    /\ view_true c = false /\ running_true c = false
    /\ sees c 1 2 = Some IRUNNING /\ sees c 2 1 = Some IRUNNING
    /\ view_of c 1 7 2 = Some (RUNNING, true) /\ truth_of c 2 7 = Some (STOPPED, true).
Proof. exact handshake_window_sender_refuted. Qed.

Theorem C12_handshake_window_local_refuted :
  exists truths tr c, crun (cinit truths) tr = Ok c /\ quiescent c = true
    /\ view_true c = false /\ running_true c = false
    /\ sees c 1 1 = Some IRUNNING
    /\ view_of c 1 7 1 = Some (STOPPED, true) /\ truth_of c 1 7 = Some (STARTING, true)
    /\ running_at c 1 7 = [].
Proof. exact handshake_window_local_refuted. Qed.

(* ---- the "exactly" half: nothing lingers from an instance that is not seen RUNNING ---- *)
(* Context.invalidate_failed (after fix 04680dd): no process lists a lost instance any more, whatever its state
   there was (running-like or STOPPING). *)
Theorem C12_invalidate_clears_lost : forall c iso now c', rstep c (InvalidateFailed iso now) = Ok c' ->
  forall i, failed_b c i = true -> forall k p, aget k (r_procs c') = Some p -> zmem i (p_running p) = false.
Proof. exact invalidate_clears_lost. Qed.

(* For EVERY schedule (clean or not), at every point: an instance that j sees STOPPED is in no running set of j.
   Still open: an instance ISOLATED by a refused AUTHORIZATION after a stale ALL_INFO was loaded in the same
   CHECKING period (on_authorization isolates without invalidating); CHECKING / CHECKED / FAILED are transient. *)
Theorem C12_no_residue_stopped : forall truths tr c, crun (cinit truths) tr = Ok c ->
  forall j i nj, aget j (c_nodes c) = Some nj -> i <> j -> adm (cn_ctx nj) i = Some ISTOPPED ->
    forall k p, aget k (r_procs (cn_ctx nj)) = Some p -> zmem i (p_running p) = false.
Proof. exact no_residue_stopped. Qed.

(* the schedule that left a residue before the fix (process STOPPING on an instance that is then lost) *)
Theorem C12_lost_stopping_cleared :
  clean (cinit w_truths) w_residue = true
  /\ (let c := final_of w_truths w_residue in
      quiescent c = true /\ sees c 1 2 = Some ISTOPPED /\ running_at c 1 7 = []
      /\ view_of c 1 7 2 = Some (FATAL, false)).
Proof. exact lost_stopping_cleared. Qed.

(* while a process is STOPPING, `running_identifiers` depends on when the instance was admitted *)
Theorem C12_stopping_membership_differs :
  clean (cinit w_stopping_truths) w_stopping = true
  /\ (let c := final_of w_stopping_truths w_stopping in
      quiescent c = true /\ view_true c = true /\ running_true c = true
      /\ view_of c 1 7 2 = Some (STOPPING, true) /\ view_of c 3 7 2 = Some (STOPPING, true)
      /\ running_at c 1 7 = [2] /\ running_at c 3 7 = []).
Proof. exact stopping_membership_differs. Qed.

(* ---- C13, process plane ---- *)
Theorem C13_events_only_from_admitted : forall c o j,
  is_gated_event o = true -> rop_origin o = Some j ->
  (forall s, adm c j = Some s -> admitted s = false) ->
  rstep c o = Ok c.
Proof. exact events_only_from_admitted. Qed.

Theorem C13_load_only_when_checking : forall c j infos nm now,
  adm c j <> Some CHECKING -> rstep c (LoadAll j infos nm now) = Ok c.
Proof. exact load_only_when_checking. Qed.

Theorem C13_isolated_peer_noninterference_procs : forall c o j,
  rop_origin o = Some j -> (adm c j = Some ISOLATED \/ adm c j = None) -> rstep c o = Ok c.
Proof. exact isolated_peer_noninterference_procs. Qed.

Theorem C13_receiver_refines_spec : forall me peers ops,
  rspec_violated (robserve (rinit me peers)) ops (rrun (rinit me peers) ops) = false.
Proof. exact receiver_refines_spec. Qed.

Theorem C13_receiver_no_crash : forall ops me peers, exists c, rrun_state (rinit me peers) ops = Ok c /\ rwf c.
Proof. exact receiver_no_crash. Qed.
