(* C14 — Placement obeys the starting strategy and the distribution rule.
   Property-level theorems only; proofs are in proofs/StrategyProofs.v, the model in model/Strategy.v.

   Reading guide.
   * [get_supvisors_instance s local L ids e reqs] models strategy.get_supvisors_instance for the requesting
     instance [local], the layout [L] (instances in mapper order with state / machine id / load, and mapper.nodes as
     built), the candidate list [ids], the expected load [e] and the pending request map [reqs].
   * [Valid (node_true_load L) L ids e reqs i] : i is requested, seen RUNNING, and the TRUE load of its node (every
     instance located on it counted once) + the requests pending on that node + e is <= 100.
   * [inst_total] / [node_total] : load + pending requests of the instance / of its node.
   * [candidates L ids] : the eligible instances in declared order (a repeated candidate counts at its first place).
   * H_nodes_nodup / H_nodes_consistent are the two named hypotheses of the true node-load reading
     (candidate finding F6 falsifies the first one: see nodes_double_count_refuted). *)
From Coq Require Import List ZArith.
From Sup Require Import Base Strategy StrategyProofs.
Import ListNotations.
Open Scope Z_scope.

(* ---- the six strategies --------------------------------------------------------------------------------- *)
Theorem result_valid : forall L,
  nodes_nodup L = true -> nodes_consistent L = true ->
  forall s local ids e reqs i,
    get_supvisors_instance s local L ids e reqs = Ok (Some i) -> Valid (node_true_load L) L ids e reqs i.
Proof. exact result_valid_true. Qed.

Theorem none_iff_no_valid : forall L,
  nodes_nodup L = true -> nodes_consistent L = true ->
  forall s local ids e reqs r,
    get_supvisors_instance s local L ids e reqs = Ok r ->
    (r = None <-> forall i, (s = S_LOCAL -> i = local) -> ~ Valid (node_true_load L) L ids e reqs i).
Proof. exact none_iff_no_valid_true. Qed.

Theorem config_first : forall L,
  nodes_nodup L = true -> nodes_consistent L = true ->
  forall local ids e reqs i,
    get_supvisors_instance S_CONFIG local L ids e reqs = Ok (Some i) ->
    Valid (node_true_load L) L ids e reqs i
    /\ forall j, In j (before i (candidates L ids)) -> ~ Valid (node_true_load L) L ids e reqs j.
Proof. exact config_first_true. Qed.

Theorem less_loaded_optimal : forall L,
  nodes_nodup L = true -> nodes_consistent L = true ->
  forall local ids e reqs i,
    get_supvisors_instance S_LESS_LOADED local L ids e reqs = Ok (Some i) ->
    let nl := node_true_load L in
    Valid nl L ids e reqs i
    /\ (forall j, Valid nl L ids e reqs j ->
          lexle (inst_total L reqs i, node_total nl L reqs i) (inst_total L reqs j, node_total nl L reqs j))
    /\ (forall j, Valid nl L ids e reqs j -> In j (before i (candidates L ids)) ->
          lexlt (inst_total L reqs i, node_total nl L reqs i) (inst_total L reqs j, node_total nl L reqs j)).
Proof. exact less_loaded_optimal_true. Qed.

Theorem most_loaded_optimal : forall L,
  nodes_nodup L = true -> nodes_consistent L = true ->
  forall local ids e reqs i,
    get_supvisors_instance S_MOST_LOADED local L ids e reqs = Ok (Some i) ->
    let nl := node_true_load L in
    Valid nl L ids e reqs i
    /\ (forall j, Valid nl L ids e reqs j ->
          lexle (inst_total L reqs j, node_total nl L reqs j) (inst_total L reqs i, node_total nl L reqs i))
    /\ (forall j, Valid nl L ids e reqs j -> In j (after i (candidates L ids)) ->
          lexlt (inst_total L reqs j, node_total nl L reqs j) (inst_total L reqs i, node_total nl L reqs i)).
Proof. exact most_loaded_optimal_true. Qed.

Theorem less_loaded_node_optimal : forall L,
  nodes_nodup L = true -> nodes_consistent L = true ->
  forall local ids e reqs i,
    get_supvisors_instance S_LESS_LOADED_NODE local L ids e reqs = Ok (Some i) ->
    let nl := node_true_load L in
    Valid nl L ids e reqs i
    /\ (forall j, Valid nl L ids e reqs j ->
          lexle (node_total nl L reqs i, inst_total L reqs i) (node_total nl L reqs j, inst_total L reqs j))
    /\ (forall j, Valid nl L ids e reqs j -> In j (before i (candidates L ids)) ->
          lexlt (node_total nl L reqs i, inst_total L reqs i) (node_total nl L reqs j, inst_total L reqs j)).
Proof. exact less_loaded_node_optimal_true. Qed.

Theorem most_loaded_node_optimal : forall L,
  nodes_nodup L = true -> nodes_consistent L = true ->
  forall local ids e reqs i,
    get_supvisors_instance S_MOST_LOADED_NODE local L ids e reqs = Ok (Some i) ->
    let nl := node_true_load L in
    Valid nl L ids e reqs i
    /\ (forall j, Valid nl L ids e reqs j ->
          lexle (node_total nl L reqs j, inst_total L reqs j) (node_total nl L reqs i, inst_total L reqs i))
    /\ (forall j, Valid nl L ids e reqs j -> In j (after i (candidates L ids)) ->
          lexlt (node_total nl L reqs j, inst_total L reqs j) (node_total nl L reqs i, inst_total L reqs i)).
Proof. exact most_loaded_node_optimal_true. Qed.

Theorem local_only : forall L,
  nodes_nodup L = true -> nodes_consistent L = true ->
  forall local ids e reqs r,
    get_supvisors_instance S_LOCAL local L ids e reqs = Ok r ->
    (r = Some local /\ Valid (node_true_load L) L ids e reqs local)
    \/ (r = None /\ ~ Valid (node_true_load L) L ids e reqs local).
Proof. exact local_only_true. Qed.

(* ---- spec = code: the executable specification Spec_C14 accepts the model's answer and no other ----------- *)
Theorem model_refines_spec : forall s local L ids e reqs r,
  nodes_nodup L = true -> nodes_consistent L = true ->
  get_supvisors_instance s local L ids e reqs = Ok r ->
  spec_accepts (node_true_load L) s local L ids e reqs r = true.
Proof. exact model_refines_spec_true. Qed.

Theorem spec_deterministic : forall nl s local L ids e reqs r1 r2,
  spec_accepts nl s local L ids e reqs r1 = true ->
  spec_accepts nl s local L ids e reqs r2 = true -> r1 = r2.
Proof. exact spec_deterministic. Qed.

(* the same refinement without any hypothesis, for the node load as the code sums it (duplicates included) *)
Theorem model_refines_spec_code_reading : forall s local L ids e reqs r,
  get_supvisors_instance s local L ids e reqs = Ok r ->
  spec_accepts (node_code_load L) s local L ids e reqs r = true.
Proof. exact (fun s local L ids e reqs r => StrategyProofs.model_refines_spec (node_code_load L) s local L ids e reqs r (fun _ => eq_refl)). Qed.

(* a well-formed layout never makes the placement raise *)
Theorem wf_no_crash : forall s local L ids e reqs,
  layout_wf L reqs = true -> exists r, get_supvisors_instance s local L ids e reqs = Ok r.
Proof. exact wf_no_crash. Qed.

(* ---- distribution rules ------------------------------------------------------------------------------------ *)
Theorem single_instance_one_target : forall L,
  nodes_nodup L = true -> nodes_consistent L = true ->
  forall s local app_ids app_load J J',
    distribute_to_single_instance s local L app_ids app_load J = Ok J' ->
    let nl := node_true_load L in
    (exists t,
        j_identifiers J' = [t]
        /\ Forall2 (fun c c' => c' = mkCmd (c_proc c) (c_load c) (c_stopped c) (Some t) (c_known c))
                   (j_planned J) (j_planned J')
        /\ In t app_ids
        /\ Valid nl L app_ids app_load (load_requests J) t
        /\ spec_accepts nl s local L app_ids app_load (load_requests J) (Some t) = true)
    \/ (J' = J
        /\ forall i, (s = S_LOCAL -> i = local) -> ~ Valid nl L app_ids app_load (load_requests J) i).
Proof. exact single_instance_one_target_true. Qed.

Theorem single_node_one_node : forall L,
  nodes_nodup L = true -> nodes_consistent L = true ->
  forall s local app_ids app_load J J',
    distribute_to_single_node s local L app_ids app_load J = Ok J' ->
    let nl := node_true_load L in
    (j_identifiers J' = [] /\ j_planned J' = j_planned J)
    \/ (exists m ids_m i0,
           aget m (l_nodes L) = Some ids_m
           /\ node_opt L i0 = Some m /\ Valid nl L app_ids app_load (load_requests J) i0
           /\ j_identifiers J' = filter (fun i => zmem i ids_m) app_ids
           /\ Forall2 (fun c c' => exists t,
                           c' = mkCmd (c_proc c) (c_load c) (c_stopped c) (Some t) (c_known c)
                           /\ In t ids_m /\ In t app_ids
                           /\ spec_accepts nl s local L (j_identifiers J') (c_load c) (load_requests J) (Some t) = true)
                      (j_planned J) (j_planned J')).
Proof. exact single_node_one_node_true. Qed.

Theorem single_node_targets_same_node : forall nl L,
  (forall m, nl m = node_code_load L m) ->
  forall s local app_ids app_load J J',
    nodes_consistent L = true ->
    distribute_to_single_node s local L app_ids app_load J = Ok J' ->
    j_identifiers J' <> [] ->
    exists m, forall c' t, In c' (j_planned J') -> c_target c' = Some t -> node_opt L t = Some m.
Proof. exact single_node_targets_same_node. Qed.

Theorem on_command_added_in_identifiers : forall L,
  nodes_nodup L = true -> nodes_consistent L = true ->
  forall d s local J c c',
    on_command_added d s local L J c = Ok c' ->
    c' = c
    \/ (d <> D_ALL_INSTANCES /\ exists t,
           c' = mkCmd (c_proc c) (c_load c) (c_stopped c) (Some t) (c_known c)
           /\ In t (j_identifiers J)
           /\ spec_accepts (node_true_load L) s local L (j_identifiers J) (c_load c) (load_requests J) (Some t) = true).
Proof. exact on_command_added_in_identifiers_true. Qed.

Theorem single_node_no_crash : forall L s local app_ids app_load J,
  layout_wf L (load_requests J) = true -> nodes_consistent L = true ->
  (forall c, In c (j_planned J) -> c_load c <= app_load) ->                        (* H_cmd_in_sequence *)
  (forall c i, In c (j_planned J) -> In i app_ids -> In i (c_known c)) ->         (* H_node_knows_all *)
  exists J', distribute_to_single_node s local L app_ids app_load J = Ok J'.
Proof. exact single_node_no_crash. Qed.

(* ---- refuted full-strength statements (candidate findings, replayed on the real classes by the drivers) ---- *)
(* F6: without H_nodes_nodup the true-reading statement is false *)
Theorem nodes_double_count_refuted :
  exists L ids e reqs,
    layout_wf L reqs = true /\ nodes_consistent L = true /\ nodes_nodup L = false
    /\ get_supvisors_instance S_CONFIG 1 L ids e reqs = Ok None
    /\ spec_accepts (node_true_load L) S_CONFIG 1 L ids e reqs None = false
    /\ spec_accepts (node_true_load L) S_CONFIG 1 L ids e reqs (Some 1) = true
    /\ node_code_load L 1 = 2 * node_true_load L 1.
Proof. exact nodes_double_count. Qed.

(* F7: without H_node_knows_all, SINGLE_NODE raises TypeError *)
Theorem single_node_unknown_process_refuted :
  exists L app_ids app_load J,
    layout_wf L (load_requests J) = true /\ nodes_consistent L = true /\ nodes_nodup L = true
    /\ (forall c, In c (j_planned J) -> c_load c <= app_load)
    /\ distribute_to_single_node S_CONFIG 1 L app_ids app_load J = Crash TypeError.
Proof. exact single_node_unknown_process_crashes. Qed.

(* without H_cmd_in_sequence, SINGLE_NODE raises KeyError (update_identifier(None)) *)
Theorem single_node_overload_refuted :
  exists L app_ids app_load J,
    layout_wf L (load_requests J) = true /\ nodes_consistent L = true /\ nodes_nodup L = true
    /\ (forall c i, In c (j_planned J) -> In i app_ids -> In i (c_known c))
    /\ distribute_to_single_node S_CONFIG 1 L app_ids app_load J = Crash KeyError.
Proof. exact single_node_overload_crashes. Qed.
