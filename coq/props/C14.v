(* C14 — Placement obeys the starting strategy and the distribution rule.
   Property-level theorems only; proofs are in proofs/StrategyProofs.v, the model in model/Strategy.v.

   Reading guide.
   * [get_supvisors_instance s local L ids e reqs] models strategy.get_supvisors_instance for the requesting
     instance [local], the layout [L] (instances in mapper order with state / machine id / load, and mapper.nodes as
     built), the candidate list [ids], the expected load [e] and the pending request map [reqs].
   * [Valid (node_true_load L) L ids e reqs i] : i is requested, seen RUNNING, and the TRUE load of its node (every
     instance located on it counted once) + the requests pending on that node + e is <= 100.
   * [inst_total] / [node_total] : load + pending requests of the instance / of its node.
   * [candidates L ids] : the eligible instances in declared order (a repeated candidate counts at its first place).
   * H_nodes_nodup / H_nodes_consistent are the two named hypotheses of the true node-load reading.
     H_nodes_nodup holds of every mapper.nodes built by SupvisorsMapper.identify since fix 428ae17 (handshakes_nodup;
     checked on the real code by the T3 suite 'identify'); it cannot be dropped (nodes_nodup_needed).
   * [eligible c i] : instance i knows the program of command c and has it enabled;
     [retarget c t] : command c with target t. *)
From Coq Require Import List ZArith.
From Sup Require Import Base Strategy StrategyProofs.
Import ListNotations.
Open Scope Z_scope.

(* ---- the six strategies --------------------------------------------------------------------------------- *)
Theorem result_valid : forall L,
  nodes_nodup L = true -> nodes_consistent L = true ->
  forall s local ids e reqs i,
    get_supvisors_instance s local L ids e reqs = Ok (Some i) -> Valid (node_true_load L) L ids e reqs i.
Proof. exact result_valid_true. Qed.

Theorem none_iff_no_valid : forall L,
  nodes_nodup L = true -> nodes_consistent L = true ->
  forall s local ids e reqs r,
    get_supvisors_instance s local L ids e reqs = Ok r ->
    (r = None <-> forall i, (s = S_LOCAL -> i = local) -> ~ Valid (node_true_load L) L ids e reqs i).
Proof. exact none_iff_no_valid_true. Qed.

Theorem config_first : forall L,
  nodes_nodup L = true -> nodes_consistent L = true ->
  forall local ids e reqs i,
    get_supvisors_instance S_CONFIG local L ids e reqs = Ok (Some i) ->
    Valid (node_true_load L) L ids e reqs i
    /\ forall j, In j (before i (candidates L ids)) -> ~ Valid (node_true_load L) L ids e reqs j.
Proof. exact config_first_true. Qed.

Theorem less_loaded_optimal : forall L,
  nodes_nodup L = true -> nodes_consistent L = true ->
  forall local ids e reqs i,
    get_supvisors_instance S_LESS_LOADED local L ids e reqs = Ok (Some i) ->
    let nl := node_true_load L in
    Valid nl L ids e reqs i
    /\ (forall j, Valid nl L ids e reqs j ->
          lexle (inst_total L reqs i, node_total nl L reqs i) (inst_total L reqs j, node_total nl L reqs j))
    /\ (forall j, Valid nl L ids e reqs j -> In j (before i (candidates L ids)) ->
          lexlt (inst_total L reqs i, node_total nl L reqs i) (inst_total L reqs j, node_total nl L reqs j)).
Proof. exact less_loaded_optimal_true. Qed.

Theorem most_loaded_optimal : forall L,
  nodes_nodup L = true -> nodes_consistent L = true ->
  forall local ids e reqs i,
    get_supvisors_instance S_MOST_LOADED local L ids e reqs = Ok (Some i) ->
    let nl := node_true_load L in
    Valid nl L ids e reqs i
    /\ (forall j, Valid nl L ids e reqs j ->
          lexle (inst_total L reqs j, node_total nl L reqs j) (inst_total L reqs i, node_total nl L reqs i))
    /\ (forall j, Valid nl L ids e reqs j -> In j (after i (candidates L ids)) ->
          lexlt (inst_total L reqs j, node_total nl L reqs j) (inst_total L reqs i, node_total nl L reqs i)).
Proof. exact most_loaded_optimal_true. Qed.

Theorem less_loaded_node_optimal : forall L,
  nodes_nodup L = true -> nodes_consistent L = true ->
  forall local ids e reqs i,
    get_supvisors_instance S_LESS_LOADED_NODE local L ids e reqs = Ok (Some i) ->
    let nl := node_true_load L in
    Valid nl L ids e reqs i
    /\ (forall j, Valid nl L ids e reqs j ->
          lexle (node_total nl L reqs i, inst_total L reqs i) (node_total nl L reqs j, inst_total L reqs j))
    /\ (forall j, Valid nl L ids e reqs j -> In j (before i (candidates L ids)) ->
          lexlt (node_total nl L reqs i, inst_total L reqs i) (node_total nl L reqs j, inst_total L reqs j)).
Proof. exact less_loaded_node_optimal_true. Qed.

Theorem most_loaded_node_optimal : forall L,
  nodes_nodup L = true -> nodes_consistent L = true ->
  forall local ids e reqs i,
    get_supvisors_instance S_MOST_LOADED_NODE local L ids e reqs = Ok (Some i) ->
    let nl := node_true_load L in
    Valid nl L ids e reqs i
    /\ (forall j, Valid nl L ids e reqs j ->
          lexle (node_total nl L reqs j, inst_total L reqs j) (node_total nl L reqs i, inst_total L reqs i))
    /\ (forall j, Valid nl L ids e reqs j -> In j (after i (candidates L ids)) ->
          lexlt (node_total nl L reqs j, inst_total L reqs j) (node_total nl L reqs i, inst_total L reqs i)).
Proof. exact most_loaded_node_optimal_true. Qed.

Theorem local_only : forall L,
  nodes_nodup L = true -> nodes_consistent L = true ->
  forall local ids e reqs r,
    get_supvisors_instance S_LOCAL local L ids e reqs = Ok r ->
    (r = Some local /\ Valid (node_true_load L) L ids e reqs local)
    \/ (r = None /\ ~ Valid (node_true_load L) L ids e reqs local).
Proof. exact local_only_true. Qed.

(* ---- spec = code: the executable specification Spec_C14 accepts the model's answer and no other ----------- *)
Theorem model_refines_spec : forall s local L ids e reqs r,
  nodes_nodup L = true -> nodes_consistent L = true ->
  get_supvisors_instance s local L ids e reqs = Ok r ->
  spec_accepts (node_true_load L) s local L ids e reqs r = true.
Proof. exact model_refines_spec_true. Qed.

Theorem spec_deterministic : forall nl s local L ids e reqs r1 r2,
  spec_accepts nl s local L ids e reqs r1 = true ->
  spec_accepts nl s local L ids e reqs r2 = true -> r1 = r2.
Proof. exact spec_deterministic. Qed.

(* the same refinement without any hypothesis, for the node load as the code sums it (duplicates included) *)
Theorem model_refines_spec_code_reading : forall s local L ids e reqs r,
  get_supvisors_instance s local L ids e reqs = Ok r ->
  spec_accepts (node_code_load L) s local L ids e reqs r = true.
Proof. exact (fun s local L ids e reqs r => StrategyProofs.model_refines_spec (node_code_load L) s local L ids e reqs r (fun _ => eq_refl)). Qed.

(* a well-formed layout never makes the placement raise *)
Theorem wf_no_crash : forall s local L ids e reqs,
  layout_wf L reqs = true -> exists r, get_supvisors_instance s local L ids e reqs = Ok r.
Proof. exact wf_no_crash. Qed.

(* ---- distribution rules ------------------------------------------------------------------------------------ *)
Theorem single_instance_one_target : forall L,
  nodes_nodup L = true -> nodes_consistent L = true ->
  forall s local app_ids app_load J J',
    distribute_to_single_instance s local L app_ids app_load J = Ok J' ->
    let nl := node_true_load L in
    (exists t,
        j_identifiers J' = [t]
        /\ Forall2 (fun c c' => c' = retarget c t /\ In t (c_known c)) (j_planned J) (j_planned J')
        /\ In t app_ids
        /\ Valid nl L app_ids app_load (load_requests J) t
        /\ spec_accepts nl s local L app_ids app_load (load_requests J) (Some t) = true)
    \/ (J' = J
        /\ forall i, (s = S_LOCAL -> i = local) -> ~ Valid nl L app_ids app_load (load_requests J) i).
Proof. exact single_instance_one_target_true. Qed.

Theorem single_node_one_node : forall L,
  nodes_nodup L = true -> nodes_consistent L = true ->
  forall s local app_ids app_load J J',
    distribute_to_single_node s local L app_ids app_load J = Ok J' ->
    let nl := node_true_load L in
    (j_identifiers J' = [] /\ j_planned J' = j_planned J)
    \/ (exists m ids_m i0,
           aget m (l_nodes L) = Some ids_m
           /\ node_opt L i0 = Some m /\ Valid nl L app_ids app_load (load_requests J) i0
           /\ j_identifiers J' = filter (fun i => zmem i ids_m) app_ids
           /\ Forall2 (fun c c' =>
                         (c' = c /\ forall i, (s = S_LOCAL -> i = local) ->
                                      ~ Valid nl L (filter (eligible c) (j_identifiers J')) (c_load c) (load_requests J) i)
                         \/ (exists t, c' = retarget c t
                                       /\ In t ids_m /\ In t app_ids /\ eligible c t = true
                                       /\ spec_accepts nl s local L (filter (eligible c) (j_identifiers J'))
                                                       (c_load c) (load_requests J) (Some t) = true))
                      (j_planned J) (j_planned J')).
Proof. exact single_node_one_node_true. Qed.

Theorem single_node_targets_same_node : forall nl L,
  (forall m, nl m = node_code_load L m) ->
  forall s local app_ids app_load J J',
    nodes_consistent L = true ->
    (forall c, In c (j_planned J) -> c_target c = None) ->
    distribute_to_single_node s local L app_ids app_load J = Ok J' ->
    j_identifiers J' <> [] ->
    exists m, forall c' t, In c' (j_planned J') -> c_target c' = Some t -> node_opt L t = Some m.
Proof. exact single_node_targets_same_node. Qed.

Theorem on_command_added_in_identifiers : forall L,
  nodes_nodup L = true -> nodes_consistent L = true ->
  forall d s local J c c',
    on_command_added d s local L J c = Ok c' ->
    c' = c
    \/ (d <> D_ALL_INSTANCES /\ exists t,
           c' = retarget c t /\ In t (j_identifiers J) /\ eligible c t = true
           /\ spec_accepts (node_true_load L) s local L (filter (eligible c) (j_identifiers J)) (c_load c)
                           (load_requests J) (Some t) = true).
Proof. exact on_command_added_in_identifiers_true. Qed.

(* the distribution rules raise nothing on a well-formed layout (SINGLE_NODE and on_command_added: no other
   hypothesis since fix b1324b8; SINGLE_INSTANCE: every program known by every application identifier, which is what
   ApplicationStatus.possible_identifiers returns) *)
Theorem single_node_no_crash : forall L s local app_ids app_load J,
  layout_wf L (load_requests J) = true ->
  exists J', distribute_to_single_node s local L app_ids app_load J = Ok J'.
Proof. exact single_node_no_crash. Qed.

Theorem single_instance_no_crash : forall L s local app_ids app_load J,
  layout_wf L (load_requests J) = true ->
  (forall c i, In c (j_planned J) -> In i app_ids -> In i (c_known c)) ->
  exists J', distribute_to_single_instance s local L app_ids app_load J = Ok J'.
Proof. exact single_instance_no_crash. Qed.

Theorem on_command_added_no_crash : forall L d s local J c,
  layout_wf L (load_requests J) = true -> exists c', on_command_added d s local L J c = Ok c'.
Proof. exact on_command_added_no_crash. Qed.

(* ---- where H_nodes_nodup comes from, and why it is needed ----------------------------------------------------- *)
(* SupvisorsMapper.identify (the only writer of mapper.nodes) keeps every node list duplicate free *)
Theorem identify_preserves_nodup : forall nodes m i,
  forallb (fun kv => znodup (snd kv)) nodes = true ->
  forallb (fun kv => znodup (snd kv)) (identify_nodes nodes m i) = true.
Proof. exact identify_preserves_nodup. Qed.

Theorem handshakes_nodup : forall ops insts, nodes_nodup (mkLayout insts (snd (hs_run ops))) = true.
Proof. exact handshakes_nodup. Qed.

(* on a node list with a repeated identifier the true-reading statement is false (the hypothesis is not superfluous) *)
Theorem nodes_nodup_needed :
  exists L ids e reqs,
    layout_wf L reqs = true /\ nodes_consistent L = true /\ nodes_nodup L = false
    /\ get_supvisors_instance S_CONFIG 1 L ids e reqs = Ok None
    /\ spec_accepts (node_true_load L) S_CONFIG 1 L ids e reqs None = false
    /\ spec_accepts (node_true_load L) S_CONFIG 1 L ids e reqs (Some 1) = true
    /\ node_code_load L 1 = 2 * node_true_load L 1.
Proof. exact nodes_nodup_needed. Qed.
