(* C10.v — property-level theorems (statements restated, proofs by reference to proofs/SequencerProofs.v).
   Model: model/Sequencer.v (agenda machine of Starter + Stopper). Tie to /repo: harness/drv_sequencer.py. *)
From Sup Require Import Base GenProc GenEnums GenSeq ProcStatus Sequencer SequencerProofs.
From Coq Require Import ZArith List Bool.
Import ListNotations.
Open Scope Z_scope.

(* wait_ticks: ceil(secs / period) is the least number of ticks covering secs (period reflected from /repo) *)
Theorem C10_ceil_ticks_spec : forall secs,
  secs <= ceil_ticks secs * gs_TICK_PERIOD /\ (ceil_ticks secs - 1) * gs_TICK_PERIOD < secs.
Proof. exact ceil_ticks_spec. Qed.

(* wait_ticks = ceil(startsecs|stopwaitsecs / period) + minimum_ticks, set when the target is assigned *)
Theorem C10_wait_ticks_formula : forall c i s c' s',
  update_identifier c i s = Ok (c', s') ->
  s' = s /\ c_ident c' = Some i /\ c_min c' = c_min c /\ c_req c' = c_req c /\ c_id c' = c_id c /\
  c_kind c' = c_kind c /\ c_app c' = c_app c /\ c_proc c' = c_proc c /\ c_ignore_we c' = c_ignore_we c /\
  exists pr, get_proc s (c_app c) (c_proc c) = Some pr /\ amem i (p_infos (sp_st pr)) = true /\
    c_wait c' = ceil_ticks (match c_kind c with KStart => sp_startsecs pr | KStop => sp_stopwaitsecs pr end) + c_min c.
Proof. exact update_identifier_wait. Qed.

(* beyond request counter + wait_ticks a command is never kept IN_PROGRESS, except a RUNNING wait_exit program (the documented exception) *)
Theorem C10_timed_out_bound : forall k we ig state req mn wt cnt,
  mn <= wt -> req + wt < cnt ->
  snd (cmd_timed_out k we ig state req mn wt cnt) <> IN_PROGRESS
  \/ (k = KStart /\ state = RUNNING /\ we = true /\ ig = false).
Proof. exact timed_out_bound. Qed.

(* without acknowledgement (STARTING / STOPPING) the command times out after minimum_ticks *)
Theorem C10_timed_out_ack : forall k we ig state req mn wt cnt,
  req + mn < cnt ->
  (k = KStart -> state <> RUNNING /\ state <> STARTING /\ state <> BACKOFF) ->
  (k = KStop -> state <> STOPPING /\ is_stopped state = false) ->
  snd (cmd_timed_out k we ig state req mn wt cnt) = TIMED_OUT.
Proof. exact timed_out_ack. Qed.

(* command_bound (every state): a periodic check beyond the bound removes the command and, on timeout, pushes exactly one forced event with the failure state, the target and the last event time *)
Theorem C10_command_bound : forall jid cid s c pr i inf cnt j,
  aget cid (s_cmds s) = Some c -> get_proc s (c_app c) (c_proc c) = Some pr ->
  c_ident c = Some i -> aget i (p_infos (sp_st pr)) = Some inf -> counter_of s i = Some cnt ->
  aget jid (s_jobs s) = Some j -> In cid (j_current j) -> NoDup (j_current j) ->
  c_min c <= c_wait c -> c_req c + c_wait c < cnt ->
  ~ (c_kind c = KStart /\ i_state inf = RUNNING /\ pr_wait_exit (sp_rules pr) = true /\ c_ignore_we c = false) ->
  exists push s' j',
    step_aj_check_cmd jid cid s = Ok ((push, []), s') /\
    aget jid (s_jobs s') = Some j' /\ ~ In cid (j_current j') /\
    (forall x, In x (j_current j') -> In x (j_current j)) /\
    (push = [] \/ exists expected,
        push = [Force (c_app c) (c_proc c) (Some i) (i_event_time inf) (failure_state (c_kind c)) (pcode expected)]).
Proof. exact command_bound. Qed.

(* forced_state_published: one local handling (displayed state = failure state, both sequencers informed) and one publication *)
Theorem C10_forced_state_published : forall a p target et fs reason s push outs s',
  step_force a p target et fs reason s = Ok ((push, outs), s') ->
  outs = [OForced a p fs reason target] /\
  ((push = [COnEvent KStart a p local_id; COnEvent KStop a p local_id; CEmit (OPub a p fs true)] /\
    exists pr', get_proc s' a p = Some pr' /\ sp_displayed pr' = fs)
   \/ (push = [CEmit (OPub a p fs false)] /\ s' = s)).
Proof. exact forced_state_published. Qed.

(* lost_target: after on_instances_invalidation no current command targets a lost instance *)
Theorem C10_lost_target : forall s lost j failed j' failed',
  inval_job s lost j failed = (j', failed') -> NoDup (j_current j) ->
  forall cid c i, In cid (j_current j') -> aget cid (s_cmds s) = Some c -> c_ident c = Some i -> zmem i lost = false.
Proof. exact lost_target. Qed.

(* KNOWN FINDING c03-noresource-reentrancy breaks job_bound: an orphan command is never checked *)
Theorem C10_job_bound_refuted :
  exists cf ops,
    let observed := run default_fuel (init_st cf) ops in
    has_vio [V_bound] (case_vios (cf, ops, observed)) = true
    /\ has_vio [V_progress] (case_vios (cf, ops, observed)) = true
    /\ match rev observed with OOk outs starting _ _ _ _ :: _ => outs = [] /\ starting = false | _ => False end.
Proof. exact job_bound_refuted. Qed.

(* the hypotheses of command_bound are satisfiable *)
Theorem C10_command_bound_hypotheses_hold :
  exists c pr inf j,
    aget 1 (s_cmds w_state_c) = Some c /\ get_proc w_state_c (c_app c) (c_proc c) = Some pr /\
    c_ident c = Some 2 /\ aget 2 (p_infos (sp_st pr)) = Some inf /\ counter_of w_state_c 2 = Some 14 /\
    aget 3 (s_jobs w_state_c) = Some j /\ j_current j = [1] /\ c_min c <= c_wait c /\ c_req c + c_wait c < 14 /\
    c_kind c = KStart /\ i_state inf = STOPPED.
Proof. exact command_bound_hypotheses_hold. Qed.
