(* C02 — the published Supvisors state only changes along the documented graph; the Master-driven states are
   entered with a known Master seen RUNNING. Property-level theorems only; proofs in proofs/NodeFsmProofs.v,
   model in model/Node.v, executable statement of the property in model/NodeSpec.v.

   Reading guide.
   * [step n e] : one event received by the instance in state [n]; [run n evs] : the observations of a history.
   * [c02_chain prev chain check_master exempt] : every change of state along the publications of one event (and
     the final state) is a documented edge; with [check_master] the states DISTRIBUTION, OPERATION, CONCILIATION,
     RESTARTING, SHUTTING_DOWN are announced with a Master <> '' seen RUNNING in the same publication
     ([exempt]: except SHUTTING_DOWN, the class of the known finding F5).
   * [IVx ex n] = [WF n] (see C16) + [ID n]: no duplicate key in instance_state_modes / instance_states, '' is not
     an identifier, every stored state-modes is SM-local ([sm_local]: the Master it declares is RUNNING in its own
     instance states), USER is not a synchro option; + (ex = true or the SHUTDOWN failure strategy is not configured).
   * [evD n e] : a received peer publication is SM-local; end_sync names an instance seen RUNNING. *)
From Sup Require Import Node NodeSpec NodeFsmProofs.

(* ---- the reflected transition table is within the documented graph (re-checked on every build) ---- *)
Theorem C02_table_within_documented : forall a b : sstate,
  fsm_transition_ok a b = true -> documented_fsm_edge (scode a) (scode b) = true.
Proof. exact table_within_documented. Qed.

Theorem C02_final_terminal_table : forall b, fsm_transition_ok FINAL b = false.
Proof. exact final_terminal_table. Qed.

Theorem C02_ending_only_final_table : forall a b, (a = RESTARTING \/ a = SHUTTING_DOWN) ->
  fsm_transition_ok a b = true -> b = FINAL.
Proof. exact ending_only_final_table. Qed.

(* ---- graph: any event, any node (no hypothesis) ---- *)
Theorem C02_step_fsm_chain : forall n e n' outs, step n e = Ok (n', outs) ->
  c02_chain (scode (fsm_state n)) (pub_chain (observe n' outs)) false false = true.
Proof. exact step_fsm_chain. Qed.

(* every history, from any node: all published changes of state follow documented edges *)
Theorem C02_run_fsm_graph : forall n evs,
  nspec_ok (mkFlags true false false false false false false false) (n, evs, run n evs) = true.
Proof. exact run_fsm_graph. Qed.

Theorem C02_final_terminal : forall n e n' outs,
  fsm_state n = FINAL -> step n e = Ok (n', outs) -> fsm_state n' = FINAL.
Proof. exact final_terminal. Qed.

Theorem C02_ending_only_final : forall n e n' outs, (fsm_state n = RESTARTING \/ fsm_state n = SHUTTING_DOWN) ->
  step n e = Ok (n', outs) -> fsm_state n' = fsm_state n \/ fsm_state n' = FINAL.
Proof. exact ending_only_final. Qed.

(* ---- Master part (partial: under the named hypotheses IVx / evD) ---- *)
Theorem C02_enter_needs_running_master_partial : forall ex n e n' outs, IVx ex n -> evD n e = true ->
  step n e = Ok (n', outs) ->
  c02_chain (scode (fsm_state n)) (pub_chain (observe n' outs)) true ex = true.
Proof. exact enter_needs_running_master_partial. Qed.

Theorem C02_run_enter_needs_running_master_partial : forall ex n evs, IVx ex n -> evD_hist n evs ->
  nspec_ok (mkFlags true true ex false false false false false) (n, evs, run n evs) = true.
Proof. exact run_enter_needs_running_master_partial. Qed.

(* the invariant behind it: an instance never keeps a Master that it does not see RUNNING *)
Theorem C02_master_seen_running : forall n, WF n -> ID n -> master n <> 0 -> sees_running n (master n) = true.
Proof. exact SMlocal. Qed.

Theorem C02_invariant_preserved : forall ex n e n' outs, IVx ex n -> evD n e = true ->
  step n e = Ok (n', outs) -> IVx ex n'.
Proof. exact step_D_inv. Qed.

(* ---- a non-Master follows its Master: any event, any node (no hypothesis, no exemption) ---- *)
Theorem C02_slave_follows_master : forall n e n' outs, step n e = Ok (n', outs) ->
  c02_follows (n_me n) (scode (fsm_state n)) (observe n' outs) = true.
Proof. exact slave_follows_master. Qed.

Theorem C02_run_follows : forall n evs,
  nspec_ok (mkFlags true false false true false false false false) (n, evs, run n evs) = true.
Proof. exact run_follows. Qed.

(* ---- the whole checker of C02 along every history, under the hypotheses of the Master part ---- *)
Theorem C02_run_exempt_partial : forall n evs, IVx true n -> evD_hist n evs ->
  nspec_ok fl_c02 (n, evs, run n evs) = true.
Proof. exact run_c02_exempt_partial. Qed.

Theorem C02_run_noexempt_partial : forall n evs, IVx false n -> evD_hist n evs ->
  nspec_ok fl_c02_noexempt (n, evs, run n evs) = true.
Proof. exact run_c02_noexempt_partial. Qed.

(* ---- the hypotheses cannot be dropped: refutations of the unconditional statement ---- *)
(* (1) F5: SHUTTING_DOWN entered by the SHUTDOWN failure strategy without any Master *)
Theorem C02_shutdown_without_master_refuted :
  exists n evs, nspec_ok fl_c02_noexempt (n, evs, run n evs) = false /\ nspec_ok fl_c02 (n, evs, run n evs) = true.
Proof. exact shutdown_without_master_refuted. Qed.

(* (2) a publication that is not SM-local *)
Theorem C02_byzantine_master_refuted : exists n evs, IVx true n /\
  nspec_ok (mkFlags true true true false false false false false) (n, evs, run n evs) = false.
Proof. exact byzantine_master_refuted. Qed.

(* (3) the USER synchronization option, with SM-local publications only *)
Theorem C02_user_sync_master_refuted : exists n evs, WF n /\ evD_hist n evs /\
  nspec_ok (mkFlags true true true false false false false false) (n, evs, run n evs) = false.
Proof. exact user_sync_master_refuted. Qed.
