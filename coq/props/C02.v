From Sup Require Import Node.
Theorem placeholder02 : True. Proof. exact I. Qed.
