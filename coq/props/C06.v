(* C06 — Running failure strategies are applied once, by the Master, with precedence.
   Property-level theorems (proofs in proofs/FailureHandlerProofs.v; model in model/FailureHandler.v). *)
From Sup Require Import FailureHandler FailureHandlerProofs.
Open Scope Z_scope.

(* Every sequence of add_job / add_default_job / trigger_jobs / abort fed to the handler: each observation of
   the model is accepted by the abstract specification (one action per idle application, the maximum of the
   pending notifications for STOP_APPLICATION > RESTART_APPLICATION > RESTART_PROCESS > CONTINUE; nothing
   issued outside trigger_jobs; busy applications deferred and their notifications kept). *)
Theorem C06_refines_spec :
  forall c ops, spec_violated c [] ops (run c h_empty ops) = false.
Proof. exact refines_spec. Qed.

(* handler_exclusion_inv: for EVERY sequence of operations the four job sets are duplicate-free and
   a in stop => a not in restart_app and no process of a in restart_proc + continue;
   a in restart_app => no START-SEQUENCED process of a in restart_proc + continue;
   restart_proc and continue are disjoint. *)
Theorem C06_handler_exclusion_inv :
  forall c ops h, steps c h_empty ops = Ok h -> Inv c h.
Proof. exact handler_exclusion_inv. Qed.

(* precedence, set form: after every sequence of operations the job sets are a function of the
   notifications still pending (the order in which they arrived is irrelevant). *)
Theorem C06_handler_tracks_pending :
  forall c ops h, steps c h_empty ops = Ok h -> Sim c h (pending c ops).
Proof. exact handler_tracks_pending. Qed.

(* precedence, rank form: the action pending for an application (4 stop, 3 restart application, 2 restart
   process, 1 continue, 0 none) is the maximum rank among its pending notifications, RESTART_PROCESS being
   counted as RESTART_APPLICATION when add_default_job found the application stopped and the process in its
   start sequence (Definition effective). *)
Theorem C06_precedence :
  forall c ops h a, steps c h_empty ops = Ok h -> pending_rank c h a = max_rank c a (pending c ops).
Proof. exact precedence. Qed.

(* the promotion on the handler itself *)
Theorem C06_promotion :
  forall c p pi h h', Inv c h -> lookup c p = Ok pi ->
    pi_strat pi = RfRestartProcess -> pi_seq pi = true -> ~ In (pi_app pi) (h_stop h) ->
    add_default c p true h = Ok h' ->
    In (pi_app pi) (h_rapp h') /\ ~ In p (h_rproc h') /\ ~ In p (h_cont h').
Proof. exact promotion_effect. Qed.

(* single_action: one trigger_jobs issues at most one of stop / restart per application, at most one restart
   per process (and then only outside the start sequence when its application is restarted), only stored jobs,
   consumes them, and defers everything of an application that has start/stop jobs. *)
Theorem C06_single_action :
  forall c busy h, Inv c h ->
  let h' := fst (trigger c busy h) in
  let '(stops, rapps, rprocs, _) := snd (trigger c busy h) in
  NoDup stops /\ NoDup rapps /\ NoDup rprocs
  /\ (forall a, In a stops -> ~ In a rapps /\ forall p, In p rprocs -> app_of c p <> a)
  /\ (forall a p, In a rapps -> In p rprocs -> app_of c p = a -> seq_of c p = false)
  /\ (forall a, In a stops -> In a (h_stop h) /\ ~ In a (h_stop h'))
  /\ (forall a, In a rapps -> In a (h_rapp h) /\ ~ In a (h_rapp h'))
  /\ (forall p, In p rprocs -> In p (h_rproc h) /\ ~ In p (h_rproc h'))
  /\ (forall a, zmem a busy = true ->
        ~ In a stops /\ ~ In a rapps /\ (forall p, In p rprocs -> app_of c p <> a)
        /\ (In a (h_stop h) -> In a (h_stop h')) /\ (In a (h_rapp h) -> In a (h_rapp h'))
        /\ (forall p, In p (h_rproc h) -> app_of c p = a -> In p (h_rproc h'))).
Proof. exact single_action. Qed.

(* CONTINUE starts and stops nothing. *)
Theorem C06_continue_silent :
  forall c busy h p, Inv c h -> In p (h_cont h) ->
    let '(_, _, rprocs, _) := snd (trigger c busy h) in ~ In p rprocs.
Proof. exact continue_silent. Qed.

(* Failures of one application never change the jobs of another one. *)
Theorem C06_frame :
  forall c s p h h' b, add_job c s p h = Ok h' -> app_of c p <> b ->
    (In b (h_stop h') <-> In b (h_stop h)) /\ (In b (h_rapp h') <-> In b (h_rapp h))
    /\ (forall q, app_of c q = b ->
          (In q (h_rproc h') <-> In q (h_rproc h)) /\ (In q (h_cont h') <-> In q (h_cont h))).
Proof. exact add_job_frame. Qed.

(* planned_left_alone: a lost process reaches the failure handler iff no command of it was pending on a lost
   instance and none is still planned, in the Starter and in the Stopper. *)
Theorem C06_planned_left_alone :
  forall lost starter_jobs stopper_jobs failed p,
    In p (lost_filter lost starter_jobs stopper_jobs failed) <->
    In p failed
    /\ ~ In p (gone_procs lost starter_jobs) /\ ~ In p (still_planned lost starter_jobs)
    /\ ~ In p (gone_procs lost stopper_jobs) /\ ~ In p (still_planned lost stopper_jobs).
Proof. exact planned_left_alone. Qed.

(* ... where "still planned" is the whole plan unless a start command pending on a lost instance erased it
   (required process, starting failure strategy ABORT / STOP). *)
Theorem C06_still_planned_no_erase :
  forall lost jobs, (forall j k, In j jobs -> In k (j_current j) -> k_erases k = false) ->
    still_planned lost jobs = flat_map (fun j => map k_proc (j_planned j)) jobs.
Proof. exact still_planned_no_erase. Qed.

(* Master only: a non-Master never feeds the handler, neither on a loss nor on a crash. *)
Theorem C06_master_only :
  forall st s lostp crashed forced el,
    loss_handled st RSlave lostp = false /\ crash_handled s false crashed forced = false
    /\ crash_ending s false crashed = 0 /\ crash_ending_entered s false crashed el = false.
Proof. exact master_only. Qed.

(* On a process crash only the application-level strategies reach the handler, never for a forced state. *)
Theorem C06_crash_handled :
  forall s master crashed forced,
    crash_handled s master crashed forced = true <->
    master = true /\ crashed = true /\ forced = false /\ (s = RfStopApplication \/ s = RfRestartApplication).
Proof. exact crash_handled_spec. Qed.

(* In every working state, CONCILIATION included, the Master hands every batch of lost processes to the handler and
   a non-Master whose Master survives never does ... *)
Theorem C06_loss_handled_partial :
  forall st r lostp, r <> RNextMaster -> loss_handled st r lostp = loss_expected r lostp.
Proof. exact loss_handled_spec. Qed.

(* ... but processes lost TOGETHER WITH THE MASTER are never handed over by the next Master (known finding
   F9-lost-with-master: _check_consistence returns ELECTION before _master_next, lost_processes dies with the state). *)
Theorem C06_lost_with_master_refuted :
  exists st lostp, loss_handled st RNextMaster lostp <> loss_expected RNextMaster lostp.
Proof. exact lost_with_master_refuted. Qed.

(* SHUTDOWN / RESTART on a crash: requested by the Master and entered from OPERATION ... *)
Theorem C06_crash_ending_entered_partial :
  forall s master crashed,
    crash_ending_entered s master crashed false = negb (Z.eqb (crash_ending s master crashed) 0).
Proof. exact crash_ending_entered_operation. Qed.

(* ... but a RESTART requested while the Master is in ELECTION is dropped (known finding
   F10-election-restart-dropped: FiniteStateMachine._Transitions has no edge ELECTION -> RESTARTING). *)
Theorem C06_election_restart_dropped_refuted :
  exists s master crashed,
    crash_ending s master crashed <> 0 /\ crash_ending_entered s master crashed true = false.
Proof. exact election_restart_dropped_refuted. Qed.

(* Hypotheses are satisfiable: a concrete history (deferral, supersession, promotion, the filter). *)
Example C06_demo_run :
  run demo_ctx h_empty demo_ops =
  [OOk ([], [], [], [13], None); OOk ([], [], [10], [13], None); OOk ([], [], [10; 11], [13], None);
   OOk ([], [2], [10; 11], [13], None);
   OOk ([], [], [10; 11], [], Some ([], [2], [], true));
   OOk ([1], [], [], [], None);
   OOk ([], [], [], [], Some ([1], [], [], true))].
Proof. exact demo_run. Qed.

Example C06_demo_promotion :
  run demo_ctx h_empty [AddDefault 11 true; AddDefault 10 true; Trigger []] =
  [OOk ([], [], [11], [], None); OOk ([], [1], [11], [], None);
   OOk ([], [], [], [], Some ([], [1], [11], true))].
Proof. exact demo_promotion. Qed.

Example C06_demo_filter :
  lost_filter [2] [mkJob [mkCmd 5 2 false; mkCmd 7 3 false] [mkCmd 6 0 false]] [] [5; 6; 7; 8] = [7; 8].
Proof. exact demo_filter. Qed.
